//! Global trace recorder, worker gate and libc interposition.
//!
//! The harness binary defines `write`, `fdatasync`, `fsync`, `unlink`,
//! `ftruncate64`, `open64`, `open` itself; `std`'s calls bind to these at link
//! time and the real function is reached through `dlsym(RTLD_NEXT)`.
//! Exactly one of {caller thread, worker thread} runs at a time: the worker
//! parks right after `recv` (hook event `PostRecv`) and at every intercepted
//! system call on a chunk file until the script releases it.

use std::cell::Cell;
use std::collections::BTreeMap;
use std::ffi::CStr;
use std::sync::atomic::{AtomicUsize, Ordering};
use std::sync::{Condvar, Mutex, OnceLock};
use std::thread::ThreadId;
use std::time::{Duration, Instant};

use libc::{c_char, c_int, c_uint, c_void, off64_t, size_t, ssize_t};

#[derive(Clone, Copy, Debug, PartialEq, Eq)]
pub enum Outcome {
    Ok,
    Eio,
    Short(usize),
}

#[derive(Clone, Copy, Debug, PartialEq, Eq)]
pub enum Mode {
    /// worker threads park at every gate
    Gated,
    /// worker threads run through (used while the store is dropped)
    Free,
    /// like `Free`, but every intercepted call of a worker first sleeps a little
    Slow,
    /// every intercepted call of a worker fails with EIO without being
    /// executed or recorded (used to get rid of an instance after a "crash")
    Kill,
}

#[derive(Clone, Debug, PartialEq, Eq)]
pub enum WState {
    Running,
    AtRecv,
    Parked(String),
    Exited(bool),
}

pub struct Wk {
    pub tid: ThreadId,
    pub generation: u64,
    pub state: WState,
    pub consumed: u64,
    pub release: Option<Outcome>,
    /// buffer of the `write` the worker is parked at
    pub parked_buf: Option<Vec<u8>>,
    pub parked_file: Option<u64>,
}

#[derive(Default, Clone, Debug)]
pub struct FileInfo {
    pub len: u64,
    pub durable: u64,
}

pub struct St {
    /// path of the LOCK file to probe from worker threads (set while a store is being dropped)
    pub lock_probe: Option<String>,
    pub dir: String,
    pub lines: Vec<String>,
    pub wk: Vec<Wk>,
    pub generation: u64,
    pub sent: u64,
    pub mode: Mode,
    pub in_open: bool,
    pub files: BTreeMap<u64, FileInfo>,
}

pub struct G {
    pub m: Mutex<St>,
    pub cv: Condvar,
}

static GLOBAL: OnceLock<G> = OnceLock::new();

pub fn g() -> &'static G {
    GLOBAL.get_or_init(|| G {
        m: Mutex::new(St {
            lock_probe: None,
            dir: String::new(),
            lines: Vec::new(),
            wk: Vec::new(),
            generation: 0,
            sent: 0,
            mode: Mode::Gated,
            in_open: false,
            files: BTreeMap::new(),
        }),
        cv: Condvar::new(),
    })
}

/// Marks a worker as gone when its thread ends without having reported `WorkerExit` (it
/// panicked): thread-local destructors run on every kind of thread exit.
struct ExitGuard;

impl Drop for ExitGuard {
    fn drop(&mut self) {
        let gl = g();
        let Ok(mut st) = gl.m.lock() else { return };
        let tid = std::thread::current().id();
        if let Some(i) = st.wk.iter().position(|w| w.tid == tid) {
            if !matches!(st.wk[i].state, WState::Exited(_)) {
                st.wk[i].state = WState::Exited(false);
                if st.mode != Mode::Kill {
                    st.lines.push("ev exit panicked".to_string());
                }
                gl.cv.notify_all();
            }
        }
    }
}

thread_local! {
    static EXIT_GUARD: std::cell::RefCell<Option<ExitGuard>> = const { std::cell::RefCell::new(None) };
    /// number of chunk-file events (create/write/sync/trunc/unlink) issued by this thread
    static TL_EVENTS: Cell<u64> = const { Cell::new(0) };
    /// set while harness-internal code runs on this thread: hooks pass through
    static BYPASS: Cell<bool> = const { Cell::new(false) };
    static IS_WORKER: Cell<Option<bool>> = const { Cell::new(None) };
}

pub struct BypassGuard(bool);
impl BypassGuard {
    pub fn new() -> Self {
        let old = BYPASS.with(|b| b.replace(true));
        BypassGuard(old)
    }
}
impl Drop for BypassGuard {
    fn drop(&mut self) {
        BYPASS.with(|b| b.set(self.0));
    }
}

pub fn thread_events() -> u64 {
    TL_EVENTS.try_with(|c| c.get()).unwrap_or(0)
}

fn bump_thread_events() {
    let _ = TL_EVENTS.try_with(|c| c.set(c.get() + 1));
}

fn bypass() -> bool {
    BYPASS.try_with(|b| b.get()).unwrap_or(true)
}

fn is_worker_thread() -> bool {
    IS_WORKER
        .try_with(|c| {
            if let Some(v) = c.get() {
                return v;
            }
            let v = std::thread::current().name() == Some("raft_log_wal_flush_worker");
            c.set(Some(v));
            v
        })
        .unwrap_or(false)
}

pub fn fnv64(bs: &[u8]) -> u64 {
    let mut h: u64 = 0xcbf29ce484222325;
    for b in bs {
        h ^= *b as u64;
        h = h.wrapping_mul(0x100000001b3);
    }
    h
}

/// `r-<26 chars>.wal` inside the scenario directory → chunk id.
pub fn chunk_id_of_path(dir: &str, path: &str) -> Option<u64> {
    if dir.is_empty() {
        return None;
    }
    let path = path.strip_suffix(" (deleted)").unwrap_or(path);
    let rest = path.strip_prefix(dir)?;
    let name = rest.strip_prefix('/')?;
    let mid = name.strip_prefix("r-")?.strip_suffix(".wal")?;
    if mid.len() != 26 {
        return None;
    }
    let digits: String = mid.chars().filter(|c| c.is_ascii_digit()).collect();
    digits.parse::<u64>().ok()
}

fn fd_path(fd: c_int) -> Option<String> {
    let link = format!("/proc/self/fd/{}\0", fd);
    let mut buf = [0u8; 512];
    let n = unsafe {
        libc::readlink(
            link.as_ptr() as *const c_char,
            buf.as_mut_ptr() as *mut c_char,
            buf.len(),
        )
    };
    if n <= 0 {
        return None;
    }
    Some(String::from_utf8_lossy(&buf[..n as usize]).into_owned())
}

fn set_errno(e: c_int) {
    unsafe {
        *libc::__errno_location() = e;
    }
}

/// Label of the calling thread for an observation line, its worker slot if it
/// is a worker, and whether it belongs to the current instance.
fn thread_label(st: &St) -> (&'static str, Option<usize>) {
    if is_worker_thread() {
        let tid = std::thread::current().id();
        if let Some(i) = st.wk.iter().position(|w| w.tid == tid) {
            if st.wk[i].generation == st.generation {
                ("w", Some(i))
            } else {
                ("z", Some(i))
            }
        } else {
            ("z", None)
        }
    } else if st.in_open {
        ("o", None)
    } else {
        ("c", None)
    }
}

/// Park the calling worker thread at a gate. Returns the outcome the script
/// chose. In `Free` mode returns `Ok` at once, in `Kill` mode `Eio`.
fn park(kind: &str, buf: Option<&[u8]>, file: Option<u64>) -> Outcome {
    let gl = g();
    let mut st = gl.m.lock().unwrap();
    let tid = std::thread::current().id();
    let Some(i) = st.wk.iter().position(|w| w.tid == tid) else {
        return Outcome::Ok;
    };
    match st.mode {
        Mode::Kill => return Outcome::Eio,
        Mode::Free => return Outcome::Ok,
        Mode::Slow => {
            drop(st);
            let extra = SLOW_EXTRA_MS.load(std::sync::atomic::Ordering::SeqCst);
            if extra > 0 {
                // a worker that needs a long time for each of its remaining steps
                std::thread::sleep(Duration::from_millis(extra));
            } else if kind == "sync" {
                std::thread::sleep(Duration::from_micros(400));
            }
            return Outcome::Ok;
        }
        Mode::Gated => {}
    }
    if st.wk[i].generation != st.generation {
        // a worker of an instance that is already gone: never gated
        return Outcome::Ok;
    }
    st.wk[i].state = WState::Parked(kind.to_string());
    st.wk[i].parked_buf = buf.map(|b| b.to_vec());
    st.wk[i].parked_file = file;
    st.wk[i].release = None;
    gl.cv.notify_all();
    loop {
        if let Some(o) = st.wk[i].release.take() {
            st.wk[i].state = WState::Running;
            st.wk[i].parked_buf = None;
            return o;
        }
        match st.mode {
            Mode::Kill => {
                st.wk[i].state = WState::Running;
                return Outcome::Eio;
            }
            Mode::Free | Mode::Slow => {
                st.wk[i].state = WState::Running;
                return Outcome::Ok;
            }
            Mode::Gated => {}
        }
        st = gl.cv.wait(st).unwrap();
    }
}

/// Hook handler installed into `raft_log::verif_hooks`.
pub fn on_event(ev: &raft_log::verif_hooks::VerifEvent) {
    use raft_log::verif_hooks::VerifEvent as E;
    let gl = g();
    match ev {
        E::Sent { .. } => {
            let mut st = gl.m.lock().unwrap();
            st.sent += 1;
        }
        E::PreRecv => {
            let mut st = gl.m.lock().unwrap();
            let tid = std::thread::current().id();
            if let Some(i) = st.wk.iter().position(|w| w.tid == tid) {
                st.wk[i].state = WState::AtRecv;
            } else {
                let _ = EXIT_GUARD.try_with(|c| *c.borrow_mut() = Some(ExitGuard));
                let generation = st.generation;
                st.wk.push(Wk {
                    tid,
                    generation,
                    state: WState::AtRecv,
                    consumed: 0,
                    release: None,
                    parked_buf: None,
                    parked_file: None,
                });
            }
            gl.cv.notify_all();
        }
        E::PostRecv { kind, .. } => {
            {
                let mut st = gl.m.lock().unwrap();
                let tid = std::thread::current().id();
                if let Some(i) = st.wk.iter().position(|w| w.tid == tid) {
                    st.wk[i].consumed += 1;
                    st.wk[i].state = WState::Running;
                }
            }
            let _ = park(&format!("got:{}", kind), None, None);
        }
        E::Batch { writes, tail } => {
            let mut st = gl.m.lock().unwrap();
            let tid = std::thread::current().id();
            if let Some(i) = st.wk.iter().position(|w| w.tid == tid) {
                st.wk[i].consumed += (*writes as u64 - 1) + if tail.is_some() { 1 } else { 0 };
            }
        }
        E::WorkerExit { ok } => {
            probe_lock();
            let mut st = gl.m.lock().unwrap();
            let tid = std::thread::current().id();
            let (label, idx) = thread_label(&st);
            if st.mode != Mode::Kill {
                st.lines.push(format!(
                    "ev exit{} {}",
                    if label == "z" { " z" } else { "" },
                    if *ok { "ok" } else { "fail" }
                ));
            }
            if let Some(i) = idx {
                st.wk[i].state = WState::Exited(*ok);
            } else if let Some(i) = st.wk.iter().position(|w| w.tid == tid) {
                st.wk[i].state = WState::Exited(*ok);
            }
            gl.cv.notify_all();
        }
    }
}

/// Wait until the current worker is parked, exited, or blocked in `recv` on
/// an empty queue. Returns a description, or `stuck`.
pub fn wait_settled(timeout: Duration) -> String {
    let gl = g();
    let mut st = gl.m.lock().unwrap();
    let deadline = Instant::now() + timeout;
    loop {
        let generation = st.generation;
        let sent = st.sent;
        let cur = st.wk.iter().rev().find(|w| w.generation == generation);
        match cur {
            None => {
                // worker thread not started yet
            }
            Some(w) => match &w.state {
                WState::Parked(k) => return format!("{} q={}", k, sent - w.consumed),
                WState::Exited(_) => return format!("dead q={}", 0),
                WState::AtRecv if w.consumed >= sent => return "idle q=0".to_string(),
                _ => {}
            },
        }
        let now = Instant::now();
        if now >= deadline {
            return "stuck".to_string();
        }
        let (s, _) = gl.cv.wait_timeout(st, Duration::from_millis(20)).unwrap();
        st = s;
    }
}

/// Release the parked current worker with `out`. Returns false if it was not
/// parked.
pub fn release(out: Outcome) -> bool {
    let gl = g();
    let mut st = gl.m.lock().unwrap();
    let generation = st.generation;
    let Some(w) = st
        .wk
        .iter_mut()
        .rev()
        .find(|w| w.generation == generation)
    else {
        return false;
    };
    if let WState::Parked(_) = w.state {
        w.release = Some(out);
        w.state = WState::Running;
        gl.cv.notify_all();
        true
    } else {
        false
    }
}

/// extra delay (ms) of every intercepted worker call in `Mode::Slow`
pub static SLOW_EXTRA_MS: std::sync::atomic::AtomicU64 = std::sync::atomic::AtomicU64::new(0);

pub fn set_mode(mode: Mode) {
    let gl = g();
    let mut st = gl.m.lock().unwrap();
    st.mode = mode;
    gl.cv.notify_all();
}

pub fn set_lock_probe(p: Option<String>) {
    let gl = g();
    let mut st = gl.m.lock().unwrap();
    st.lock_probe = p;
}

/// Called on a worker thread right before one of its file-system calls (or its exit) while its
/// store is being dropped: the directory lock must still be held by the store.
fn probe_lock() {
    let path = {
        let st = g().m.lock().unwrap();
        st.lock_probe.clone()
    };
    let Some(path) = path else { return };
    let Ok(c) = std::ffi::CString::new(path) else { return };
    unsafe {
        let fd = libc::open(c.as_ptr(), libc::O_RDWR);
        if fd < 0 {
            return;
        }
        if libc::flock(fd, libc::LOCK_EX | libc::LOCK_NB) == 0 {
            libc::flock(fd, libc::LOCK_UN);
            let mut st = g().m.lock().unwrap();
            st.lines.push("ev lock-free-while-worker-active".to_string());
        }
        libc::close(fd);
    }
}

pub fn take_lines() -> Vec<String> {
    let gl = g();
    let mut st = gl.m.lock().unwrap();
    std::mem::take(&mut st.lines)
}

pub fn push_line(s: String) {
    let gl = g();
    let mut st = gl.m.lock().unwrap();
    st.lines.push(s);
}

/// Is a worker of the current generation still alive (not exited)?
pub fn current_worker_alive() -> bool {
    let gl = g();
    let st = gl.m.lock().unwrap();
    let generation = st.generation;
    st.wk
        .iter()
        .any(|w| w.generation == generation && !matches!(w.state, WState::Exited(_)))
}

/// Wait until every known worker thread has exited.
pub fn wait_all_exited(timeout: Duration) -> bool {
    let gl = g();
    let mut st = gl.m.lock().unwrap();
    let deadline = Instant::now() + timeout;
    loop {
        if st.wk.iter().all(|w| matches!(w.state, WState::Exited(_))) {
            return true;
        }
        if Instant::now() >= deadline {
            return false;
        }
        let (s, _) = gl.cv.wait_timeout(st, Duration::from_millis(10)).unwrap();
        st = s;
    }
}

// ---------------------------------------------------------------------------
// libc interposition
// ---------------------------------------------------------------------------

macro_rules! real {
    ($name:literal, $ty:ty) => {{
        static PTR: AtomicUsize = AtomicUsize::new(0);
        let mut p = PTR.load(Ordering::Relaxed);
        if p == 0 {
            p = unsafe { libc::dlsym(libc::RTLD_NEXT, concat!($name, "\0").as_ptr() as *const c_char) }
                as usize;
            PTR.store(p, Ordering::Relaxed);
        }
        unsafe { std::mem::transmute::<usize, $ty>(p) }
    }};
}

/// What to do with an intercepted call on chunk file `id`.
enum Act {
    Pass,
    Do { label: &'static str, out: Outcome },
    Fail,
}

fn decide(kind: &str, id: u64, buf: Option<&[u8]>) -> Act {
    bump_thread_events();
    if is_worker_thread() {
        probe_lock();
        {
            let st = g().m.lock().unwrap();
            if st.mode == Mode::Kill {
                return Act::Fail;
            }
        }
        let out = park(kind, buf, Some(id));
        let st = g().m.lock().unwrap();
        if st.mode == Mode::Kill {
            return Act::Fail;
        }
        let (label, _) = thread_label(&st);
        Act::Do { label, out }
    } else {
        let st = g().m.lock().unwrap();
        let (label, _) = thread_label(&st);
        Act::Do {
            label,
            out: Outcome::Ok,
        }
    }
}

fn chunk_of_fd(fd: c_int) -> Option<u64> {
    if fd <= 2 || bypass() {
        return None;
    }
    let _b = BypassGuard::new();
    let dir = {
        let st = g().m.lock().unwrap();
        st.dir.clone()
    };
    if dir.is_empty() {
        return None;
    }
    let p = fd_path(fd)?;
    chunk_id_of_path(&dir, &p)
}

fn chunk_of_cpath(path: *const c_char) -> Option<u64> {
    if bypass() || path.is_null() {
        return None;
    }
    let _b = BypassGuard::new();
    let dir = {
        let st = g().m.lock().unwrap();
        st.dir.clone()
    };
    if dir.is_empty() {
        return None;
    }
    let p = unsafe { CStr::from_ptr(path) }.to_string_lossy().into_owned();
    chunk_id_of_path(&dir, &p)
}

#[unsafe(no_mangle)]
pub unsafe extern "C" fn write(fd: c_int, buf: *const c_void, count: size_t) -> ssize_t {
    type F = unsafe extern "C" fn(c_int, *const c_void, size_t) -> ssize_t;
    let real = real!("write", F);
    let Some(id) = chunk_of_fd(fd) else {
        return unsafe { real(fd, buf, count) };
    };
    let _b = BypassGuard::new();
    let data = unsafe { std::slice::from_raw_parts(buf as *const u8, count) };
    match decide("write", id, Some(data)) {
        Act::Pass => unsafe { real(fd, buf, count) },
        Act::Fail => {
            set_errno(libc::EIO);
            -1
        }
        Act::Do { label, out } => {
            let (n, ok) = match out {
                Outcome::Eio => (0usize, false),
                Outcome::Short(k) => {
                    let k = k.max(1).min(count);
                    (k, true)
                }
                Outcome::Ok => (count, true),
            };
            if !ok {
                let mut st = g().m.lock().unwrap();
                st.lines.push(format!(
                    "ev write {} {} {} {:016x} fail",
                    label,
                    id,
                    count,
                    fnv64(data)
                ));
                drop(st);
                set_errno(libc::EIO);
                return -1;
            }
            let r = unsafe { real(fd, buf, n) };
            let mut st = g().m.lock().unwrap();
            if r >= 0 {
                let r = r as usize;
                st.lines.push(format!(
                    "ev write {} {} {} {:016x} ok",
                    label,
                    id,
                    r,
                    fnv64(&data[..r])
                ));
                st.files.entry(id).or_default().len += r as u64;
            } else {
                st.lines.push(format!("ev write {} {} {} real-error", label, id, count));
            }
            r
        }
    }
}

fn do_sync(fd: c_int, real: unsafe extern "C" fn(c_int) -> c_int) -> c_int {
    let Some(id) = chunk_of_fd(fd) else {
        return unsafe { real(fd) };
    };
    let _b = BypassGuard::new();
    match decide("sync", id, None) {
        Act::Pass => unsafe { real(fd) },
        Act::Fail => {
            set_errno(libc::EIO);
            -1
        }
        Act::Do { label, out } => {
            if out == Outcome::Eio {
                let mut st = g().m.lock().unwrap();
                st.lines.push(format!("ev sync {} {} fail", label, id));
                drop(st);
                set_errno(libc::EIO);
                return -1;
            }
            let r = unsafe { real(fd) };
            let mut st = g().m.lock().unwrap();
            if r == 0 {
                st.lines.push(format!("ev sync {} {} ok", label, id));
                let f = st.files.entry(id).or_default();
                f.durable = f.len;
            } else {
                st.lines.push(format!("ev sync {} {} real-error", label, id));
            }
            r
        }
    }
}

#[unsafe(no_mangle)]
pub unsafe extern "C" fn fdatasync(fd: c_int) -> c_int {
    type F = unsafe extern "C" fn(c_int) -> c_int;
    do_sync(fd, real!("fdatasync", F))
}

#[unsafe(no_mangle)]
pub unsafe extern "C" fn fsync(fd: c_int) -> c_int {
    type F = unsafe extern "C" fn(c_int) -> c_int;
    do_sync(fd, real!("fsync", F))
}

fn do_truncate(
    fd: c_int,
    len: off64_t,
    real: unsafe extern "C" fn(c_int, off64_t) -> c_int,
) -> c_int {
    let Some(id) = chunk_of_fd(fd) else {
        return unsafe { real(fd, len) };
    };
    let _b = BypassGuard::new();
    match decide("trunc", id, None) {
        Act::Pass => unsafe { real(fd, len) },
        Act::Fail => {
            set_errno(libc::EIO);
            -1
        }
        Act::Do { label, .. } => {
            let r = unsafe { real(fd, len) };
            let mut st = g().m.lock().unwrap();
            if r == 0 {
                st.lines.push(format!("ev trunc {} {} {}", label, id, len));
                let f = st.files.entry(id).or_default();
                f.len = len as u64;
                f.durable = f.durable.min(len as u64);
            } else {
                st.lines.push(format!("ev trunc {} {} real-error", label, id));
            }
            r
        }
    }
}

#[unsafe(no_mangle)]
pub unsafe extern "C" fn ftruncate64(fd: c_int, len: off64_t) -> c_int {
    type F = unsafe extern "C" fn(c_int, off64_t) -> c_int;
    do_truncate(fd, len, real!("ftruncate64", F))
}

#[unsafe(no_mangle)]
pub unsafe extern "C" fn ftruncate(fd: c_int, len: off64_t) -> c_int {
    type F = unsafe extern "C" fn(c_int, off64_t) -> c_int;
    do_truncate(fd, len, real!("ftruncate", F))
}

#[unsafe(no_mangle)]
pub unsafe extern "C" fn unlink(path: *const c_char) -> c_int {
    type F = unsafe extern "C" fn(*const c_char) -> c_int;
    let real = real!("unlink", F);
    let Some(id) = chunk_of_cpath(path) else {
        return unsafe { real(path) };
    };
    let _b = BypassGuard::new();
    match decide("unlink", id, None) {
        Act::Pass => unsafe { real(path) },
        Act::Fail => {
            set_errno(libc::EIO);
            -1
        }
        Act::Do { label, out } => {
            if out == Outcome::Eio {
                let mut st = g().m.lock().unwrap();
                st.lines.push(format!("ev unlink {} {} fail", label, id));
                drop(st);
                set_errno(libc::EIO);
                return -1;
            }
            let r = unsafe { real(path) };
            let mut st = g().m.lock().unwrap();
            if r == 0 {
                st.lines.push(format!("ev unlink {} {} ok", label, id));
                st.files.remove(&id);
            } else {
                st.lines.push(format!("ev unlink {} {} fail", label, id));
            }
            r
        }
    }
}

fn do_open(
    path: *const c_char,
    flags: c_int,
    mode: c_uint,
    real: unsafe extern "C" fn(*const c_char, c_int, c_uint) -> c_int,
) -> c_int {
    if flags & libc::O_CREAT == 0 {
        return unsafe { real(path, flags, mode) };
    }
    let Some(id) = chunk_of_cpath(path) else {
        return unsafe { real(path, flags, mode) };
    };
    let _b = BypassGuard::new();
    bump_thread_events();
    let r = unsafe { real(path, flags, mode) };
    let saved = unsafe { *libc::__errno_location() };
    {
        let mut st = g().m.lock().unwrap();
        if st.mode != Mode::Kill {
            let (label, _) = thread_label(&st);
            if r >= 0 {
                st.lines.push(format!("ev create {} {} ok", label, id));
                st.files.insert(id, FileInfo::default());
            } else {
                st.lines.push(format!("ev create {} {} fail", label, id));
            }
        }
    }
    set_errno(saved);
    r
}

#[unsafe(no_mangle)]
pub unsafe extern "C" fn open64(path: *const c_char, flags: c_int, mode: c_uint) -> c_int {
    type F = unsafe extern "C" fn(*const c_char, c_int, c_uint) -> c_int;
    do_open(path, flags, mode, real!("open64", F))
}

#[unsafe(no_mangle)]
pub unsafe extern "C" fn open(path: *const c_char, flags: c_int, mode: c_uint) -> c_int {
    type F = unsafe extern "C" fn(*const c_char, c_int, c_uint) -> c_int;
    do_open(path, flags, mode, real!("open", F))
}

/// Start-of-run self test: every call class the code uses must be seen.
pub fn self_test(dir: &str) -> Result<(), String> {
    use std::io::Write;
    let path = format!("{}/r-00_000_000_000_000_000_007.wal", dir);
    {
        let mut st = g().m.lock().unwrap();
        st.dir = dir.to_string();
        st.lines.clear();
    }
    {
        let mut f = std::fs::OpenOptions::new()
            .write(true)
            .read(true)
            .create_new(true)
            .open(&path)
            .map_err(|e| e.to_string())?;
        f.write_all(b"abc").map_err(|e| e.to_string())?;
        f.sync_data().map_err(|e| e.to_string())?;
        f.sync_all().map_err(|e| e.to_string())?;
        f.set_len(1).map_err(|e| e.to_string())?;
    }
    std::fs::remove_file(&path).map_err(|e| e.to_string())?;
    let lines = take_lines();
    let want = [
        "ev create c 7 ok",
        "ev write c 7 3",
        "ev sync c 7 ok",
        "ev sync c 7 ok",
        "ev trunc c 7 1",
        "ev unlink c 7 ok",
    ];
    if lines.len() != want.len() || !lines.iter().zip(want.iter()).all(|(l, w)| l.starts_with(w)) {
        return Err(format!("interposition self-test failed: saw {:?}", lines));
    }
    let mut st = g().m.lock().unwrap();
    st.dir.clear();
    st.files.clear();
    Ok(())
}
