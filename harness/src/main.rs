//! rlv — drives the real `raft-log` under the line protocol of /verif/lean's
//! driver and prints the canonical observation lines.

mod gate;

use std::io::{self, BufRead, Write};
use std::panic::{AssertUnwindSafe, catch_unwind};
use std::sync::Arc;
use std::time::Duration;

use gate::{BypassGuard, Mode, Outcome};
use raft_log::api::raft_log_writer::RaftLogWriter;
use raft_log::codeq::{Decode, Encode};
use raft_log::{Callback, Config, RaftLog, Types, WALRecord};

#[derive(Debug, Clone, PartialEq, Eq, Default)]
pub struct VT;

pub struct Cb {
    id: u64,
    sent: bool,
}

impl Callback for Cb {
    fn send(mut self, res: Result<(), io::Error>) {
        self.sent = true;
        gate::push_line(format!(
            "ev cb {} {}",
            self.id,
            if res.is_ok() { "ok" } else { "err" }
        ));
    }
}

impl Drop for Cb {
    fn drop(&mut self) {
        if !self.sent {
            let st = gate::g().m.lock().unwrap();
            let kill = st.mode == Mode::Kill;
            drop(st);
            if !kill {
                gate::push_line(format!("ev cbdrop {}", self.id));
            }
        }
    }
}

impl Types for VT {
    type LogId = (u64, u64);
    type LogPayload = Vec<u8>;
    type Vote = (u64, u64);
    type Callback = Cb;
    type UserData = Vec<u8>;

    fn log_index(log_id: &Self::LogId) -> u64 {
        log_id.1
    }

    fn payload_size(payload: &Self::LogPayload) -> u64 {
        payload.len() as u64
    }
}

type Rec = WALRecord<VT>;

// ---------------------------------------------------------------------------
// text forms (must agree with RaftLogModel/Model/Text.lean)
// ---------------------------------------------------------------------------

fn hex(bs: &[u8]) -> String {
    let mut s = String::with_capacity(bs.len() * 2);
    for b in bs {
        s.push_str(&format!("{:02x}", b));
    }
    s
}

fn gen_bytes(len: usize, seed: usize) -> Vec<u8> {
    (0..len)
        .map(|i| ((seed + 13 * i + i / 256) % 256) as u8)
        .collect()
}

fn parse_bytes(tok: &str) -> Option<Vec<u8>> {
    if tok == "." {
        return Some(vec![]);
    }
    if let Some(rest) = tok.strip_prefix('x') {
        let mut it = rest.split(':');
        let l = it.next()?.parse::<usize>().ok()?;
        let s = it.next()?.parse::<usize>().ok()?;
        if it.next().is_some() {
            return None;
        }
        return Some(gen_bytes(l, s));
    }
    if tok.len() % 2 != 0 {
        return None;
    }
    let cs: Vec<char> = tok.chars().collect();
    let mut out = Vec::with_capacity(cs.len() / 2);
    for p in cs.chunks(2) {
        let a = p[0].to_digit(16)?;
        let b = p[1].to_digit(16)?;
        out.push((a * 16 + b) as u8);
    }
    Some(out)
}

fn show_bytes(bs: &[u8]) -> String {
    if bs.is_empty() {
        ".".to_string()
    } else if bs.len() <= 32 {
        hex(bs)
    } else {
        format!("#{}:{:016x}", bs.len(), gate::fnv64(bs))
    }
}

fn show_id(id: &(u64, u64)) -> String {
    format!("{},{}", id.0, id.1)
}

fn show_opt(o: Option<&(u64, u64)>) -> String {
    match o {
        None => "-".to_string(),
        Some(id) => show_id(id),
    }
}

fn show_opt_bytes(o: Option<&Vec<u8>>) -> String {
    match o {
        None => "-".to_string(),
        Some(b) => show_bytes(b),
    }
}

fn parse_id(tok: &str) -> Option<(u64, u64)> {
    let mut it = tok.split(',');
    let a = it.next()?.parse::<u64>().ok()?;
    let b = it.next()?.parse::<u64>().ok()?;
    if it.next().is_some() {
        return None;
    }
    Some((a, b))
}

fn parse_opt_id(tok: &str) -> Option<Option<(u64, u64)>> {
    if tok == "-" {
        Some(None)
    } else {
        parse_id(tok).map(Some)
    }
}

fn parse_opt_bytes(tok: &str) -> Option<Option<Vec<u8>>> {
    if tok == "-" {
        Some(None)
    } else {
        parse_bytes(tok).map(Some)
    }
}

fn err_kind(e: &io::Error) -> &'static str {
    let msg = e.to_string();
    if msg.contains("Vote cannot be reversed") {
        "voteReversal"
    } else if msg.contains("Log id cannot be reversed") {
        "logIdReversal"
    } else if msg.contains("Log id is not consecutive") {
        "nonConsecutive"
    } else if msg.contains("Log not found at index") {
        "indexNotFound"
    } else if msg.contains("Gap between chunks") {
        "gap"
    } else if msg.contains("Failed to send request") {
        "sendFailed"
    } else {
        match e.kind() {
            io::ErrorKind::UnexpectedEof => "eof",
            io::ErrorKind::WouldBlock => "locked",
            io::ErrorKind::NotFound => "notFound",
            io::ErrorKind::AlreadyExists => "exists",
            io::ErrorKind::InvalidData => "invalid",
            io::ErrorKind::InvalidInput => "invalidInput",
            _ => "io",
        }
    }
}

fn show_record(r: &Rec) -> String {
    match r {
        WALRecord::SaveVote(v) => format!("V {}", show_id(v)),
        WALRecord::Append(id, p) => format!("A {} {}", show_id(id), show_bytes(p)),
        WALRecord::Commit(id) => format!("C {}", show_id(id)),
        WALRecord::TruncateAfter(o) => format!("T {}", show_opt(o.as_ref())),
        WALRecord::PurgeUpto(id) => format!("P {}", show_id(id)),
        WALRecord::State(s) => format!(
            "S {} {} {} {} {}",
            show_opt(s.vote()),
            show_opt(s.last()),
            show_opt(s.committed()),
            show_opt(s.purged()),
            show_opt_bytes(s.user_data.as_ref())
        ),
    }
}

fn parse_record(toks: &[&str]) -> Option<Rec> {
    match toks {
        ["V", v] => Some(WALRecord::SaveVote(parse_id(v)?)),
        ["A", id, p] => Some(WALRecord::Append(parse_id(id)?, parse_bytes(p)?)),
        ["C", id] => Some(WALRecord::Commit(parse_id(id)?)),
        ["T", o] => Some(WALRecord::TruncateAfter(parse_opt_id(o)?)),
        ["P", id] => Some(WALRecord::PurgeUpto(parse_id(id)?)),
        ["S", v, l, c, p, u] => {
            // RaftLogState has private fields: build it by decoding its own encoding.
            let mut bs = vec![1u8];
            for o in [parse_opt_id(v)?, parse_opt_id(l)?, parse_opt_id(c)?, parse_opt_id(p)?] {
                o.encode(&mut bs).ok()?;
            }
            parse_opt_bytes(u)?.encode(&mut bs).ok()?;
            let st = raft_log::codeq::Decode::decode(&bs[..]).ok()?;
            Some(WALRecord::State(st))
        }
        _ => None,
    }
}

// ---------------------------------------------------------------------------
// script runner
// ---------------------------------------------------------------------------

struct Runner {
    out: io::BufWriter<io::Stdout>,
    base: String,
    seq: u64,
    dir: String,
    dirs: Vec<String>,
    cfg: Config,
    store: Option<RaftLog<VT>>,
    dump: Option<raft_log::Dump<VT>>,
    held: Vec<i32>,
    ud_calls: u64,
    snap: Option<raft_log::DumpRaftLog<VT>>,
    stopped: bool,
    timeout: Duration,
}

fn mk_cfg(dir: &str, toks: &[&str]) -> Config {
    let mut c = Config::new(dir);
    for t in toks {
        let mut it = t.split('=');
        let (Some(k), Some(v)) = (it.next(), it.next()) else {
            continue;
        };
        let n = v.parse::<usize>().ok();
        match (k, n) {
            ("mr", Some(n)) => c.chunk_max_records = Some(n),
            ("ms", Some(n)) => c.chunk_max_size = Some(n),
            ("ci", Some(n)) => c.log_cache_max_items = Some(n),
            ("cc", Some(n)) => c.log_cache_capacity = Some(n),
            ("tr", Some(n)) => c.truncate_incomplete_record = Some(n != 0),
            ("rb", Some(n)) => c.read_buffer_size = Some(n),
            _ => {}
        }
    }
    c
}

/// A reader that hands out at most `k` bytes per `read` call.
struct Dribble<'a> {
    data: &'a [u8],
    pos: usize,
    k: usize,
}

impl io::Read for Dribble<'_> {
    fn read(&mut self, buf: &mut [u8]) -> io::Result<usize> {
        let n = buf.len().min(self.k).min(self.data.len() - self.pos);
        buf[..n].copy_from_slice(&self.data[self.pos..self.pos + n]);
        self.pos += n;
        Ok(n)
    }
}

/// A sink that accepts at most `k` bytes per `write` call.
struct DribbleW {
    buf: Vec<u8>,
    k: usize,
}

impl io::Write for DribbleW {
    fn write(&mut self, b: &[u8]) -> io::Result<usize> {
        let n = b.len().min(self.k);
        self.buf.extend_from_slice(&b[..n]);
        Ok(n)
    }
    fn flush(&mut self) -> io::Result<()> {
        Ok(())
    }
}

/// A sink with room for `room` bytes; writing beyond it fails (a full disk, a too-short buffer).
struct FullW {
    buf: Vec<u8>,
    room: usize,
}

impl io::Write for FullW {
    fn write(&mut self, b: &[u8]) -> io::Result<usize> {
        let n = b.len().min(self.room - self.buf.len());
        if n == 0 && !b.is_empty() {
            return Err(io::Error::new(io::ErrorKind::Other, "no space left"));
        }
        self.buf.extend_from_slice(&b[..n]);
        Ok(n)
    }
    fn flush(&mut self) -> io::Result<()> {
        Ok(())
    }
}

impl Runner {
    /// Decode one record; on success also re-encode it and compare with the bytes consumed.
    fn do_dec(&mut self, bs: &[u8], k: usize) {
        let r = catch_unwind(AssertUnwindSafe(|| {
            let mut rd = Dribble { data: bs, pos: 0, k };
            let r = Rec::decode(&mut rd);
            (r, bs.len() - rd.pos)
        }));
        match r {
            Ok((Ok(rec), rest)) => {
                let mut again = vec![];
                let same = rec.encode(&mut again).is_ok() && again[..] == bs[..bs.len() - rest];
                self.emit(&format!(
                    "dec ok {} rest={} reenc={}",
                    show_record(&rec),
                    rest,
                    if same { "same" } else { "differs" }
                ));
            }
            Ok((Err(e), _)) => {
                if e.kind() == io::ErrorKind::UnexpectedEof {
                    self.emit("dec eof")
                } else {
                    self.emit("dec invalid")
                }
            }
            Err(_) => self.emit("dec panic"),
        }
    }

    fn emit(&mut self, s: &str) {
        let _ = writeln!(self.out, "{}", s);
    }

    fn flush_events(&mut self) {
        for l in gate::take_lines() {
            let _ = writeln!(self.out, "{}", l);
        }
    }

    fn new_dir(&mut self) -> String {
        let _b = BypassGuard::new();
        self.seq += 1;
        let d = format!("{}/s{}", self.base, self.seq);
        std::fs::create_dir_all(&d).unwrap();
        self.dirs.push(d.clone());
        d
    }

    fn set_dir(&mut self, d: &str) {
        self.dir = d.to_string();
        self.cfg.dir = d.to_string();
        let mut st = gate::g().m.lock().unwrap();
        st.dir = d.to_string();
    }

    fn begin(&mut self) {
        self.cleanup();
        let d = self.new_dir();
        self.cfg = Config::new(&d);
        self.set_dir(&d);
        self.stopped = false;
        let mut st = gate::g().m.lock().unwrap();
        st.files.clear();
        st.lines.clear();
        st.mode = Mode::Gated;
    }

    /// Get rid of a live instance without any effect on the directory.
    fn kill_store(&mut self) {
        if let Some(s) = self.store.take() {
            gate::set_mode(Mode::Kill);
            let _ = catch_unwind(AssertUnwindSafe(move || drop(s)));
            gate::wait_all_exited(self.timeout);
            gate::set_mode(Mode::Gated);
            let _ = gate::take_lines();
        }
    }

    fn release_forked(&mut self) {
        for pid in self.held.drain(..) {
            unsafe {
                libc::kill(pid, libc::SIGKILL);
                let mut st = 0;
                libc::waitpid(pid, &mut st, 0);
            }
        }
    }

    fn cleanup(&mut self) {
        self.release_forked();
        self.snap = None;
        self.dump = None;
        self.kill_store();
        gate::set_mode(Mode::Free);
        gate::wait_all_exited(Duration::from_secs(2));
        gate::set_mode(Mode::Gated);
        {
            let mut st = gate::g().m.lock().unwrap();
            st.dir.clear();
            st.wk.retain(|w| !matches!(w.state, gate::WState::Exited(_)));
        }
        let _b = BypassGuard::new();
        for d in self.dirs.drain(..) {
            let _ = std::fs::remove_dir_all(&d);
        }
    }

    fn settle(&mut self) -> String {
        let s = gate::wait_settled(self.timeout);
        self.flush_events();
        if s == "stuck" {
            // a thread that neither parks, idles nor exits: report it once with the long timeout,
            // then do not let every later step of this process wait that long again
            self.stopped = true;
            self.timeout = Duration::from_millis(1500);
        }
        s
    }

    fn ret_seg(&mut self, r: std::thread::Result<Result<raft_log::Segment, io::Error>>) {
        use raft_log::codeq::OffsetSize;
        let _ = self.settle();
        match r {
            Ok(Ok(seg)) => {
                let l = format!("ret ok {},{}", seg.offset().0, seg.size().0);
                self.emit(&l);
            }
            Ok(Err(e)) => {
                let k = err_kind(&e);
                self.emit(&format!("ret err {}", k));
                if k == "sendFailed" {
                    self.stopped = true;
                }
            }
            Err(_) => {
                self.emit("ret panic");
                self.stopped = true;
            }
        }
    }

    fn do_open(&mut self) {
        if self.store.is_some() {
            // a second open while the first instance is alive: must be refused
            let cfg = Arc::new(self.cfg.clone());
            {
                gate::g().m.lock().unwrap().in_open = true;
            }
            let r = catch_unwind(AssertUnwindSafe(|| RaftLog::<VT>::open(cfg)));
            {
                gate::g().m.lock().unwrap().in_open = false;
            }
            self.flush_events();
            match r {
                Ok(Ok(_second)) => {
                    self.emit("open ok");
                    self.stopped = true;
                }
                Ok(Err(e)) => self.emit(&format!("open err {}", err_kind(&e))),
                Err(_) => {
                    self.emit("open panic");
                    self.stopped = true;
                }
            }
            return;
        }
        {
            let mut st = gate::g().m.lock().unwrap();
            st.in_open = true;
            st.generation += 1;
            st.sent = 0;
            // files present before this instance: lengths from the directory
        }
        self.sync_file_table();
        let cfg = Arc::new(self.cfg.clone());
        let r = catch_unwind(AssertUnwindSafe(|| RaftLog::<VT>::open(cfg)));
        {
            gate::g().m.lock().unwrap().in_open = false;
        }
        match r {
            Ok(Ok(s)) => {
                self.store = Some(s);
                let _ = self.settle();
                self.emit("open ok");
            }
            Ok(Err(e)) => {
                self.flush_events();
                self.emit(&format!("open err {}", err_kind(&e)));
            }
            Err(_) => {
                self.flush_events();
                self.emit("open panic");
                self.stopped = true;
            }
        }
    }

    /// Make the harness' file table know every chunk file in the directory
    /// (files it has not seen created are taken as fully durable).
    fn sync_file_table(&mut self) {
        let _b = BypassGuard::new();
        let mut found = vec![];
        if let Ok(rd) = std::fs::read_dir(&self.dir) {
            for e in rd.flatten() {
                let p = e.path().to_string_lossy().into_owned();
                if let Some(id) = gate::chunk_id_of_path(&self.dir, &p) {
                    let len = e.metadata().map(|m| m.len()).unwrap_or(0);
                    found.push((id, len));
                }
            }
        }
        let mut st = gate::g().m.lock().unwrap();
        for (id, len) in found {
            st.files.entry(id).or_insert(gate::FileInfo { len, durable: len });
        }
    }

    fn show_dir(&mut self) {
        let _b = BypassGuard::new();
        let mut items = vec![];
        if let Ok(rd) = std::fs::read_dir(&self.dir) {
            for e in rd.flatten() {
                let p = e.path().to_string_lossy().into_owned();
                if let Some(id) = gate::chunk_id_of_path(&self.dir, &p) {
                    let data = std::fs::read(e.path()).unwrap_or_default();
                    items.push((id, data));
                }
            }
        }
        items.sort();
        let st = gate::g().m.lock().unwrap();
        let parts: Vec<String> = items
            .iter()
            .map(|(id, data)| {
                let durable = st.files.get(id).map(|f| f.durable).unwrap_or(u64::MAX);
                format!("{}:{}:{}:{:016x}", id, data.len(), durable, gate::fnv64(data))
            })
            .collect();
        drop(st);
        self.emit(&format!("dir {}", parts.join(" ")));
    }

    fn chunk_path(&self, id: u64) -> String {
        self.cfg.chunk_path(raft_log::ChunkId(id))
    }

    fn fsop(&mut self, toks: &[&str]) {
        let _b = BypassGuard::new();
        let num = |s: &str| s.parse::<u64>().ok();
        match toks {
            ["cut", id, k] => {
                let (Some(id), Some(k)) = (num(id), num(k)) else { return self.emit("bad-op") };
                let p = self.chunk_path(id);
                if let Ok(f) = std::fs::OpenOptions::new().write(true).open(&p) {
                    // a cut only shortens
                    if f.metadata().map(|m| m.len() > k).unwrap_or(false) {
                        let _ = f.set_len(k);
                    }
                }
                let mut st = gate::g().m.lock().unwrap();
                if let Some(f) = st.files.get_mut(&id) {
                    f.len = f.len.min(k);
                    f.durable = f.durable.min(k);
                }
            }
            ["zero", id, b, m] => {
                let (Some(id), Some(b), Some(m)) = (num(id), num(b), num(m)) else {
                    return self.emit("bad-op");
                };
                let p = self.chunk_path(id);
                if let Ok(mut data) = std::fs::read(&p) {
                    data.truncate(b as usize);
                    data.extend(std::iter::repeat(0u8).take(m as usize));
                    let _ = std::fs::write(&p, &data);
                    let mut st = gate::g().m.lock().unwrap();
                    if let Some(f) = st.files.get_mut(&id) {
                        f.len = data.len() as u64;
                        f.durable = f.durable.min(b);
                    }
                }
            }
            ["touch", id] => {
                // a stray file with the name of a chunk that does not exist yet
                let Some(id) = num(id) else { return self.emit("bad-op") };
                let p = self.chunk_path(id);
                let _ = std::fs::OpenOptions::new().write(true).create_new(true).open(&p);
                gate::g().m.lock().unwrap().files.entry(id).or_default();
            }
            ["flip", id, pos, mask] => {
                let (Some(id), Some(pos), Some(mask)) = (num(id), num(pos), num(mask)) else {
                    return self.emit("bad-op");
                };
                let p = self.chunk_path(id);
                if let Ok(mut data) = std::fs::read(&p) {
                    if (pos as usize) < data.len() {
                        data[pos as usize] ^= mask as u8;
                        // in place, so that handles held by a live store see it
                        use std::os::unix::fs::FileExt;
                        if let Ok(f) = std::fs::OpenOptions::new().write(true).open(&p) {
                            let _ = f.write_all_at(&data[pos as usize..pos as usize + 1], pos);
                        }
                    }
                }
            }
            ["set", id, pos, val] => {
                let (Some(id), Some(pos), Some(val)) = (num(id), num(pos), num(val)) else {
                    return self.emit("bad-op");
                };
                let p = self.chunk_path(id);
                if let Ok(mut data) = std::fs::read(&p) {
                    if (pos as usize) < data.len() {
                        data[pos as usize] = val as u8;
                        let _ = std::fs::write(&p, &data);
                    }
                }
            }
            ["rm", id] => {
                let Some(id) = num(id) else { return self.emit("bad-op") };
                let p = self.chunk_path(id);
                let _ = std::fs::remove_file(&p);
                gate::g().m.lock().unwrap().files.remove(&id);
            }
            ["settle"] => {
                let mut st = gate::g().m.lock().unwrap();
                for f in st.files.values_mut() {
                    f.durable = f.len;
                }
            }
            _ => self.emit("bad-op"),
        }
    }

    /// Process crash: copy the directory as it is now into a fresh one, then
    /// get rid of the instance without touching either.
    fn crash(&mut self) {
        let old = self.dir.clone();
        let newd = self.new_dir();
        {
            let _b = BypassGuard::new();
            if let Ok(rd) = std::fs::read_dir(&old) {
                for e in rd.flatten() {
                    let p = e.path().to_string_lossy().into_owned();
                    if gate::chunk_id_of_path(&old, &p).is_some() {
                        let name = e.file_name();
                        let _ = std::fs::copy(e.path(), format!("{}/{}", newd, name.to_string_lossy()));
                    }
                }
            }
        }
        self.kill_store();
        self.set_dir(&newd);
        self.flush_events();
    }

    fn step(&mut self, line: &str) {
        let toks: Vec<&str> = line.split_whitespace().collect();
        if toks.is_empty() {
            return;
        }
        match toks[0] {
            "begin" => {
                self.begin();
                self.emit(line.trim());
                return;
            }
            "end" => {
                self.cleanup();
                self.emit("end");
                let _ = self.out.flush();
                return;
            }
            "note" => return,
            "cfg" => {
                self.cfg = mk_cfg(&self.dir, &toks[1..]);
                return;
            }
            _ => {}
        }
        if self.stopped {
            return;
        }
        match toks.as_slice() {
            ["open"] => self.do_open(),
            ["vote", t, n] => {
                let (Ok(t), Ok(n)) = (t.parse::<u64>(), n.parse::<u64>()) else {
                    return self.emit("bad-op");
                };
                let Some(s) = self.store.as_mut() else { return self.emit("ret err notFound") };
                let r = catch_unwind(AssertUnwindSafe(|| s.save_vote((t, n))));
                self.ret_seg(r);
            }
            ["app", es @ ..] => {
                let mut entries = vec![];
                for e in es {
                    let mut it = e.splitn(3, ',');
                    let (Some(t), Some(i), Some(p)) = (it.next(), it.next(), it.next()) else {
                        return self.emit("bad-op");
                    };
                    let (Ok(t), Ok(i), Some(p)) = (t.parse::<u64>(), i.parse::<u64>(), parse_bytes(p))
                    else {
                        return self.emit("bad-op");
                    };
                    entries.push(((t, i), p));
                }
                let Some(s) = self.store.as_mut() else { return self.emit("ret err notFound") };
                let r = catch_unwind(AssertUnwindSafe(|| s.append(entries)));
                self.ret_seg(r);
            }
            ["trunc", i] => {
                let Ok(i) = i.parse::<u64>() else { return self.emit("bad-op") };
                let Some(s) = self.store.as_mut() else { return self.emit("ret err notFound") };
                let r = catch_unwind(AssertUnwindSafe(|| s.truncate(i)));
                self.ret_seg(r);
            }
            ["purge", t, i] => {
                let (Ok(t), Ok(i)) = (t.parse::<u64>(), i.parse::<u64>()) else {
                    return self.emit("bad-op");
                };
                let Some(s) = self.store.as_mut() else { return self.emit("ret err notFound") };
                let r = catch_unwind(AssertUnwindSafe(|| s.purge((t, i))));
                self.ret_seg(r);
            }
            ["commit", t, i] => {
                let (Ok(t), Ok(i)) = (t.parse::<u64>(), i.parse::<u64>()) else {
                    return self.emit("bad-op");
                };
                let Some(s) = self.store.as_mut() else { return self.emit("ret err notFound") };
                let r = catch_unwind(AssertUnwindSafe(|| s.commit((t, i))));
                self.ret_seg(r);
            }
            ["ud", b] => {
                let Some(b) = parse_opt_bytes(b) else { return self.emit("bad-op") };
                let Some(s) = self.store.as_mut() else { return self.emit("ret err notFound") };
                // every other call goes through `update_state` (the same record: the current state with
                // the new user data), the public non-trait way to write a State record
                self.ud_calls += 1;
                let r = if self.ud_calls % 2 == 0 {
                    catch_unwind(AssertUnwindSafe(|| {
                        let mut st = s.log_state().clone();
                        st.user_data = b;
                        s.update_state(st)
                    }))
                } else {
                    catch_unwind(AssertUnwindSafe(|| s.save_user_data(b)))
                };
                self.ret_seg(r);
            }
            ["flush", cb] => {
                if self.store.is_none() {
                    return self.emit("ret err notFound");
                }
                let cb = if *cb == "-" {
                    None
                } else {
                    let Ok(id) = cb.parse::<u64>() else { return self.emit("bad-op") };
                    Some(Cb { id, sent: false })
                };
                let Some(s) = self.store.as_mut() else { return self.emit("ret err notFound") };
                let r = catch_unwind(AssertUnwindSafe(|| s.flush(cb)));
                let _ = self.settle();
                match r {
                    Ok(Ok(())) => self.emit("ret ok"),
                    Ok(Err(e)) => {
                        self.emit(&format!("ret err {}", err_kind(&e)));
                        self.stopped = true;
                    }
                    Err(_) => {
                        self.emit("ret panic");
                        self.stopped = true;
                    }
                }
            }
            ["w", o] => {
                let out = if *o == "eio" {
                    Outcome::Eio
                } else if let Some(k) = o.strip_prefix("short:") {
                    Outcome::Short(k.parse::<usize>().unwrap_or(1))
                } else {
                    Outcome::Ok
                };
                if self.store.is_none() {
                    return self.emit("wst none");
                }
                let _ = gate::release(out);
                let s = self.settle();
                self.emit(&format!("wst {}", s));
            }
            ["wfsall"] => {
                // run the worker until it is idle (or dead), failing every fdatasync on the way
                if self.store.is_none() {
                    return self.emit("wst none");
                }
                let mut st = self.settle();
                let mut n = 0;
                while !(st.starts_with("idle") || st.starts_with("dead") || st == "stuck") && n < 100000 {
                    let out = if st.starts_with("sync") { Outcome::Eio } else { Outcome::Ok };
                    let _ = gate::release(out);
                    st = self.settle();
                    n += 1;
                }
                self.emit(&format!("wst {}", st));
            }
            ["wack", cb] => {
                if self.store.is_none() {
                    return self.emit("wst none");
                }
                let pat1 = format!("ev cb {} ", cb);
                let pat2 = format!("ev cbdrop {}", cb);
                let mut n = 0;
                let mut s = gate::wait_settled(self.timeout);
                loop {
                    let lines = gate::take_lines();
                    let hit = lines.iter().any(|l| l.starts_with(&pat1) || l == &pat2);
                    for l in lines {
                        self.emit(&l);
                    }
                    if hit || s.starts_with("idle") || s.starts_with("dead") || s == "stuck" || n > 100000 {
                        break;
                    }
                    gate::release(Outcome::Ok);
                    s = gate::wait_settled(self.timeout);
                    n += 1;
                }
                self.emit(&format!("wst {}", s));
            }
            ["widle"] => {
                if self.store.is_none() {
                    return self.emit("wst none");
                }
                let mut n = 0;
                let mut s = self.settle();
                while !(s.starts_with("idle") || s.starts_with("dead") || s == "stuck") && n < 100000 {
                    gate::release(Outcome::Ok);
                    s = self.settle();
                    n += 1;
                }
                self.emit(&format!("wst {}", s));
            }
            ["drain"] => {
                if let Some(s) = self.store.as_ref() {
                    s.drain_cache_evictable();
                }
            }
            ["statdrain", p] => {
                // a drain on one thread while two other threads keep calling stat(): every payload of the
                // script has `p` bytes, so every report must show size = items * p (a count and a size that
                // describe one resident set)
                let Ok(p) = p.parse::<u64>() else { return self.emit("bad-op") };
                let Some(s) = self.store.as_ref() else { return self.emit("statdrain none") };
                let done = std::sync::atomic::AtomicBool::new(false);
                let barrier = std::sync::Barrier::new(3);
                let torn: Vec<Option<(u64, u64)>> = std::thread::scope(|sc| {
                    let obs: Vec<_> = (0..2)
                        .map(|_| {
                            sc.spawn(|| {
                                barrier.wait();
                                let mut bad = None;
                                let mut spins = 0u32;
                                loop {
                                    let fin = done.load(std::sync::atomic::Ordering::SeqCst);
                                    let st = s.stat();
                                    let (n, sz) = (st.payload_cache_item_count as u64, st.payload_cache_size as u64);
                                    if sz != n * p && bad.is_none() {
                                        bad = Some((n, sz));
                                    }
                                    spins += 1;
                                    if fin && spins >= 3 {
                                        break;
                                    }
                                }
                                bad
                            })
                        })
                        .collect();
                    barrier.wait();
                    s.drain_cache_evictable();
                    done.store(true, std::sync::atomic::Ordering::SeqCst);
                    obs.into_iter().map(|h| h.join().unwrap_or(Some((u64::MAX, u64::MAX)))).collect()
                });
                match torn.into_iter().flatten().next() {
                    None => self.emit("statdrain ok"),
                    Some((n, sz)) => self.emit(&format!("statdrain torn items={} size={}", n, sz)),
                }
            }
            ["drop"] | ["droppanic"] | ["dropslow"] => {
                if let Some(s) = self.store.take() {
                    if toks[0] == "dropslow" {
                        // the worker needs more than a second for each step it still has to do
                        gate::SLOW_EXTRA_MS.store(1300, std::sync::atomic::Ordering::SeqCst);
                        gate::set_mode(Mode::Slow);
                    } else {
                        gate::set_mode(Mode::Free);
                    }
                    // while the store is being dropped, every file-system call of its worker first
                    // checks that the directory lock is still held
                    gate::set_lock_probe(Some(format!("{}/LOCK", self.dir)));
                    let unwinding = toks[0] == "droppanic";
                    let r = if unwinding {
                        // the store is dropped by a panic unwinding through its owner
                        let r = catch_unwind(AssertUnwindSafe(move || {
                            let _owner = s;
                            panic!("owner panicked");
                        }));
                        if r.is_err() { Ok(()) } else { Err(Box::new(()) as Box<dyn std::any::Any + Send>) }
                    } else {
                        catch_unwind(AssertUnwindSafe(move || drop(s)))
                    };
                    let alive = gate::current_worker_alive();
                    gate::SLOW_EXTRA_MS.store(0, std::sync::atomic::Ordering::SeqCst);
                    if !alive {
                        gate::set_lock_probe(None);
                    }
                    self.flush_events();
                    if r.is_err() {
                        self.emit("drop panic");
                    }
                    if alive {
                        // the store is gone but its worker is not: everything it
                        // still does is reported after `dropped`
                        self.emit("dropped worker-still-alive");
                        // the probe stays on: whatever the orphaned worker still does is checked
                        // against the directory lock its owner has just released
                        gate::wait_all_exited(self.timeout);
                        gate::set_lock_probe(None);
                        self.flush_events();
                    } else {
                        self.emit("dropped");
                    }
                    gate::set_mode(Mode::Gated);
                } else {
                    self.emit("dropped none");
                }
            }
            ["st"] => {
                let l = match self.store.as_ref() {
                    Some(s) => {
                        let st = s.log_state();
                        format!(
                            "st vote={} last={} committed={} purged={} ud={}",
                            show_opt(st.vote()),
                            show_opt(st.last()),
                            show_opt(st.committed()),
                            show_opt(st.purged()),
                            show_opt_bytes(st.user_data.as_ref())
                        )
                    }
                    None => "st none".to_string(),
                };
                self.emit(&l);
            }
            ["read", a, b] => {
                let (Ok(a), Ok(b)) = (a.parse::<u64>(), b.parse::<u64>()) else {
                    return self.emit("bad-op");
                };
                let Some(s) = self.store.as_ref() else { return self.emit("read none") };
                let r = catch_unwind(AssertUnwindSafe(|| {
                    let mut items = vec![];
                    let mut it = s.read(a, b);
                    loop {
                        let x = catch_unwind(AssertUnwindSafe(|| it.next()));
                        match x {
                            Ok(None) => break,
                            Ok(Some(Ok((id, p)))) => items.push(format!("{}:{}", show_id(&id), show_bytes(&p))),
                            Ok(Some(Err(e))) => items.push(format!("err:{}", err_kind(&e))),
                            Err(_) => {
                                items.push("panic".to_string());
                                break;
                            }
                        }
                    }
                    items
                }));
                match r {
                    Ok(items) => {
                        let stop = items.last().map(|x| x == "panic").unwrap_or(false);
                        self.emit(&format!("read {}", items.join(";")));
                        if stop {
                            self.stopped = true;
                        }
                    }
                    Err(_) => {
                        self.emit("read panic");
                        self.stopped = true;
                    }
                }
            }
            ["mread", k, a, b] => {
                // k reader threads share the store and read the same range at the same time
                let (Ok(k), Ok(a), Ok(b)) = (k.parse::<usize>(), a.parse::<u64>(), b.parse::<u64>()) else {
                    return self.emit("bad-op");
                };
                let Some(s) = self.store.as_ref() else { return self.emit("read none") };
                if k == 0 || k > 16 {
                    return self.emit("bad-op");
                }
                let barrier = std::sync::Barrier::new(k);
                let results: Vec<String> = std::thread::scope(|sc| {
                    let hs: Vec<_> = (0..k)
                        .map(|_| {
                            sc.spawn(|| {
                                barrier.wait();
                                let r = catch_unwind(AssertUnwindSafe(|| {
                                    let mut items = vec![];
                                    for x in s.read(a, b) {
                                        match x {
                                            Ok((id, p)) => items.push(format!("{}:{}", show_id(&id), show_bytes(&p))),
                                            Err(e) => items.push(format!("err:{}", err_kind(&e))),
                                        }
                                    }
                                    items.join(";")
                                }));
                                r.unwrap_or_else(|_| "panic".to_string())
                            })
                        })
                        .collect();
                    hs.into_iter().map(|h| h.join().unwrap_or_else(|_| "panic".to_string())).collect()
                });
                if results.iter().all(|r| r == &results[0]) {
                    let stop = results[0].ends_with("panic");
                    self.emit(&format!("read {}", results[0]));
                    if stop {
                        self.stopped = true;
                    }
                } else {
                    self.emit(&format!("read diverged {}", results.join(" || ")));
                }
            }
            ["iter"] => {
                let Some(s) = self.store.as_ref() else { return self.emit("iter none") };
                let r = catch_unwind(AssertUnwindSafe(|| {
                    let mut d = s.dump_data();
                    let mut items = vec![];
                    let mut it = d.iter();
                    loop {
                        let x = catch_unwind(AssertUnwindSafe(|| it.next()));
                        match x {
                            Ok(None) => break,
                            Ok(Some(Ok((id, p)))) => items.push(format!("{}:{}", show_id(&id), show_bytes(&p))),
                            Ok(Some(Err(e))) => items.push(format!("err:{}", err_kind(&e))),
                            Err(_) => {
                                items.push("panic".to_string());
                                break;
                            }
                        }
                    }
                    items
                }));
                match r {
                    Ok(items) => self.emit(&format!("iter {}", items.join(";"))),
                    Err(_) => {
                        self.emit("iter panic");
                        self.stopped = true;
                    }
                }
            }
            ["snap"] => {
                // a snapshot that is kept while the store goes on
                let Some(s) = self.store.as_ref() else { return self.emit("snap none") };
                match catch_unwind(AssertUnwindSafe(|| s.dump_data())) {
                    Ok(d) => {
                        self.snap = Some(d);
                        self.emit("snap ok");
                    }
                    Err(_) => {
                        self.emit("snap panic");
                        self.stopped = true;
                    }
                }
            }
            ["snapiter"] => {
                let Some(mut d) = self.snap.take() else { return self.emit("iter none") };
                let r = catch_unwind(AssertUnwindSafe(|| {
                    let mut items = vec![];
                    for x in d.iter() {
                        match x {
                            Ok((id, p)) => items.push(format!("{}:{}", show_id(&id), show_bytes(&p))),
                            Err(e) => items.push(format!("err:{}", err_kind(&e))),
                        }
                    }
                    (items, d)
                }));
                match r {
                    Ok((items, d)) => {
                        self.snap = Some(d);
                        self.emit(&format!("iter {}", items.join(";")));
                    }
                    Err(_) => {
                        self.emit("iter panic");
                        self.stopped = true;
                    }
                }
            }
            ["iter2"] => {
                // one snapshot, walked twice
                let Some(s) = self.store.as_ref() else { return self.emit("iter2 none") };
                let r = catch_unwind(AssertUnwindSafe(|| {
                    let mut d = s.dump_data();
                    let mut passes = vec![];
                    for _ in 0..2 {
                        let mut items = vec![];
                        for x in d.iter() {
                            match x {
                                Ok((id, p)) => items.push(format!("{}:{}", show_id(&id), show_bytes(&p))),
                                Err(e) => items.push(format!("err:{}", err_kind(&e))),
                            }
                        }
                        passes.push(items.join(";"));
                    }
                    passes
                }));
                match r {
                    Ok(p) => self.emit(&format!("iter2 {} | {}", p[0], p[1])),
                    Err(_) => {
                        self.emit("iter2 panic");
                        self.stopped = true;
                    }
                }
            }
            ["burst", n, t, i] => {
                // back-pressure: n append+flush pairs issued as fast as possible while the worker
                // runs freely but slowly, so that the bounded request queue fills up
                let (Ok(n), Ok(t), Ok(i)) = (n.parse::<u64>(), t.parse::<u64>(), i.parse::<u64>()) else {
                    return self.emit("bad-op");
                };
                if self.store.is_none() {
                    return self.emit("burst none");
                }
                gate::set_mode(Mode::Slow);
                let mut res = format!("burst ok {}", n);
                {
                    let s = self.store.as_mut().unwrap();
                    for k in 0..n {
                        let p = gen_bytes(7, k as usize);
                        let r = catch_unwind(AssertUnwindSafe(|| {
                            s.append([((t, i + k), p)]).and_then(|_| s.flush(None))
                        }));
                        match r {
                            Ok(Ok(())) => {}
                            Ok(Err(e)) => {
                                res = format!("burst err {} at {}", err_kind(&e), k);
                                break;
                            }
                            Err(_) => {
                                res = format!("burst panic at {}", k);
                                break;
                            }
                        }
                    }
                }
                gate::set_mode(Mode::Free);
                // wait for the worker to catch up
                let mut tries = 0;
                loop {
                    let st = gate::wait_settled(self.timeout);
                    if st.starts_with("idle") || st.starts_with("dead") || st == "stuck" || tries > 100000 {
                        break;
                    }
                    tries += 1;
                }
                gate::set_mode(Mode::Gated);
                let _ = gate::take_lines();
                self.emit(&res);
            }
            ["stat"] => {
                let Some(s) = self.store.as_ref() else { return self.emit("stat none") };
                let r = catch_unwind(AssertUnwindSafe(|| {
                    let st = s.stat();
                    let cs = |c: &raft_log::ChunkStat<VT>| {
                        format!(
                            "{}:{}:{}:{}:[vote={} last={} committed={} purged={} ud={}]",
                            c.chunk_id.0,
                            c.records_count,
                            c.global_end,
                            c.size,
                            show_opt(c.log_state.vote()),
                            show_opt(c.log_state.last()),
                            show_opt(c.log_state.committed()),
                            show_opt(c.log_state.purged()),
                            show_opt_bytes(c.log_state.user_data.as_ref())
                        )
                    };
                    let closed: Vec<String> = st.closed_chunks.iter().map(cs).collect();
                    format!(
                        "stat closed=({}) open={} cache={}:{}:{}:{}:{} hm={}:{}",
                        closed.join(" "),
                        cs(&st.open_chunk),
                        st.payload_cache_item_count,
                        st.payload_cache_size,
                        st.payload_cache_max_item,
                        st.payload_cache_capacity,
                        show_opt(st.payload_cache_last_evictable.as_ref()),
                        st.payload_cache_hit,
                        st.payload_cache_miss
                    )
                }));
                match r {
                    Ok(l) => self.emit(&l),
                    Err(_) => {
                        self.emit("stat panic");
                        self.stopped = true;
                    }
                }
            }
            ["res"] => {
                let Some(s) = self.store.as_ref() else { return self.emit("res none") };
                let items: Vec<String> = s
                    .verif_cache_resident()
                    .iter()
                    .map(|(id, sz)| format!("{}:{}", show_id(id), sz))
                    .collect();
                self.emit(&format!("res {}", items.join(" ")));
            }
            ["size"] => {
                let Some(s) = self.store.as_ref() else { return self.emit("size none") };
                match catch_unwind(AssertUnwindSafe(|| s.on_disk_size())) {
                    Ok(n) => self.emit(&format!("size {}", n)),
                    Err(_) => {
                        self.emit("size panic");
                        self.stopped = true;
                    }
                }
            }
            ["dumpwstep"] => {
                // a dump of the live store during which the parked worker performs its next step
                // (released from inside the dump's callback, at the first record of the newest chunk)
                let Some(s) = self.store.as_ref() else { return self.emit("dumpw none") };
                use raft_log::DumpApi;
                use raft_log::codeq::OffsetSize;
                let newest = s.stat().open_chunk.chunk_id.0;
                let timeout = self.timeout;
                let mut lines = vec![];
                let mut stepped = false;
                let r = catch_unwind(AssertUnwindSafe(|| {
                    s.dump().write_with(|chunk_id, i, res| {
                        if chunk_id.0 == newest && !stepped {
                            stepped = true;
                            let _ = gate::release(Outcome::Ok);
                            let _ = gate::wait_settled(timeout);
                        }
                        match res {
                            Ok((seg, rec)) => lines.push(format!(
                                "rec {} {} {},{} {}",
                                chunk_id.0,
                                i,
                                seg.offset().0,
                                seg.size().0,
                                show_record(&rec)
                            )),
                            Err(e) => lines.push(format!("rec {} {} err {}", chunk_id.0, i, err_kind(&e))),
                        }
                        Ok(())
                    })
                }));
                if !stepped {
                    let _ = gate::release(Outcome::Ok);
                    let _ = gate::wait_settled(timeout);
                }
                let st = self.settle();
                for l in lines {
                    self.emit(&l);
                }
                match r {
                    Ok(Ok(())) => self.emit(&format!("dumpw end wst {}", st)),
                    Ok(Err(e)) => self.emit(&format!("dumpw err {}", err_kind(&e))),
                    Err(_) => {
                        self.emit("dumpw panic");
                        self.stopped = true;
                    }
                }
            }
            ["dumpw"] => {
                let Some(s) = self.store.as_ref() else { return self.emit("dumpw none") };
                use raft_log::DumpApi;
                use raft_log::codeq::OffsetSize;
                let mut lines = vec![];
                let r = catch_unwind(AssertUnwindSafe(|| {
                    s.dump().write_with(|chunk_id, i, res| {
                        match res {
                            Ok((seg, rec)) => lines.push(format!(
                                "rec {} {} {},{} {}",
                                chunk_id.0,
                                i,
                                seg.offset().0,
                                seg.size().0,
                                show_record(&rec)
                            )),
                            Err(e) => lines.push(format!("rec {} {} err {}", chunk_id.0, i, err_kind(&e))),
                        }
                        Ok(())
                    })
                }));
                for l in lines {
                    self.emit(&l);
                }
                match r {
                    Ok(Ok(())) => self.emit("dumpw end"),
                    Ok(Err(e)) => self.emit(&format!("dumpw err {}", err_kind(&e))),
                    Err(_) => {
                        self.emit("dumpw panic");
                        self.stopped = true;
                    }
                }
            }
            ["dir"] => self.show_dir(),
            ["lay"] => {}
            ["crash"] => self.crash(),
            ["fsop", rest @ ..] => self.fsop(rest),
            ["name", n] => {
                let Ok(n) = n.parse::<u64>() else { return self.emit("bad-op") };
                let c = Config::new("D");
                let p = c.chunk_path(raft_log::ChunkId(n));
                self.emit(&format!("name {}", p.strip_prefix("D/").unwrap_or(&p)));
            }
            ["pname", nm] => {
                // `parse_chunk_file_name` is crate-private: create a file of that
                // name in an empty directory and list it with `load_chunk_ids`
                let d = {
                    let _b = BypassGuard::new();
                    let d = format!("{}/names", self.base);
                    let _ = std::fs::remove_dir_all(&d);
                    std::fs::create_dir_all(&d).unwrap();
                    let _ = std::fs::write(format!("{}/{}", d, nm), b"");
                    d
                };
                let c = Config::new(&d);
                let r = catch_unwind(AssertUnwindSafe(|| RaftLog::<VT>::load_chunk_ids(&c)));
                match r {
                    Ok(Ok(ids)) if ids.len() == 1 => self.emit(&format!("pname ok {}", ids[0].0)),
                    Ok(Ok(_)) => self.emit("pname err"),
                    Ok(Err(_)) => self.emit("pname ioerr"),
                    Err(_) => self.emit("pname panic"),
                }
                let _b = BypassGuard::new();
                let _ = std::fs::remove_dir_all(&d);
            }
            ["lockrace", t, p, n] => {
                let (Ok(t), Ok(p), Ok(n)) = (t.parse::<u32>(), p.parse::<u32>(), n.parse::<u32>()) else {
                    return self.emit("bad-op");
                };
                if self.store.is_some() {
                    return self.emit("bad-op");
                }
                gate::set_mode(Mode::Free);
                let dir = self.dir.clone();
                let exe = std::env::current_exe().unwrap();
                let mut kids = vec![];
                for k in 0..p {
                    let c = std::process::Command::new(&exe)
                        .args(["--contender", &dir, &n.to_string(), &(1000 + k).to_string()])
                        .stdout(std::process::Stdio::piped())
                        .spawn();
                    if let Ok(c) = c {
                        kids.push(c);
                    }
                }
                let mut hs = vec![];
                for k in 0..t {
                    let d = dir.clone();
                    hs.push(std::thread::spawn(move || contender(&d, n, 1 + k as u64)));
                }
                let (mut g, mut r, mut v) = (0u32, 0u32, vec![]);
                for h in hs {
                    match h.join() {
                        Ok((a, b, c)) => {
                            g += a;
                            r += b;
                            v.extend(c);
                        }
                        Err(_) => v.push("contender panicked".to_string()),
                    }
                }
                for k in kids {
                    match k.wait_with_output() {
                        Ok(o) => {
                            let out = String::from_utf8_lossy(&o.stdout).into_owned();
                            let mut it = out.lines();
                            if let Some(first) = it.next() {
                                let f: Vec<u32> = first.split_whitespace().filter_map(|x| x.parse().ok()).collect();
                                if f.len() == 3 {
                                    g += f[0];
                                    r += f[1];
                                }
                            }
                            for l in it {
                                if let Some(x) = l.strip_prefix("violation ") {
                                    v.push(format!("(process) {}", x));
                                }
                            }
                        }
                        Err(_) => v.push("contender process failed".to_string()),
                    }
                }
                gate::wait_all_exited(self.timeout);
                gate::set_mode(Mode::Gated);
                let _ = gate::take_lines();
                {
                    let mut st = gate::g().m.lock().unwrap();
                    st.files.clear();
                }
                self.sync_file_table();
                v.sort();
                v.dedup();
                self.emit(&format!(
                    "lockrace violations={} [{}] # granted={} refused={}",
                    v.len(),
                    v.join("; "),
                    g,
                    r
                ));
            }
            ["openalt"] => {
                // another spelling of the same directory (`<dir>/.`): the lock is the directory's, not the string's
                if self.store.is_some() || self.dump.is_some() {
                    let mut c = self.cfg.clone();
                    c.dir = format!("{}/.", self.dir);
                    let before = gate::thread_events();
                    match catch_unwind(AssertUnwindSafe(|| RaftLog::<VT>::open(Arc::new(c)))) {
                        Ok(Ok(second)) => {
                            // a second owner: keep nothing of it
                            gate::set_mode(Mode::Free);
                            drop(second);
                            gate::set_mode(Mode::Gated);
                            self.flush_events();
                            self.emit("open ok");
                        }
                        Ok(Err(e)) => {
                            self.flush_events();
                            let touched = gate::thread_events() != before;
                            self.emit(&format!("open err {}{}", err_kind(&e), if touched { " touched-files" } else { "" }));
                        }
                        Err(_) => self.emit("open panic"),
                    }
                } else {
                    self.emit("open unowned");
                }
            }
            ["forkhold"] => {
                // a child created by fork() inherits every open descriptor of this process (among
                // them the one of the LOCK file) and keeps them until `forkrelease`
                let _ = self.out.flush();
                let pid = unsafe { libc::fork() };
                if pid == 0 {
                    unsafe { libc::prctl(libc::PR_SET_PDEATHSIG, libc::SIGKILL) };
                    loop {
                        unsafe { libc::pause() };
                    }
                }
                if pid > 0 {
                    self.held.push(pid);
                    self.emit("forkhold ok");
                } else {
                    self.emit("forkhold failed");
                }
            }
            ["forkrelease"] => {
                self.release_forked();
                self.emit("forkrelease ok");
            }
            ["dumpopen"] => {
                let cfg = Arc::new(self.cfg.clone());
                match catch_unwind(AssertUnwindSafe(|| raft_log::Dump::<VT>::new(cfg))) {
                    Ok(Ok(d)) => {
                        self.dump = Some(d);
                        self.flush_events();
                        self.emit("dumpopen ok");
                    }
                    Ok(Err(e)) => {
                        self.flush_events();
                        self.emit(&format!("dumpopen err {}", err_kind(&e)));
                    }
                    Err(_) => self.emit("dumpopen panic"),
                }
            }
            ["dumpdrop"] => {
                self.dump = None;
                self.emit("dumpdrop");
            }
            ["encf", room, rec @ ..] => match (room.parse::<usize>(), parse_record(rec)) {
                // encode into a sink that has room for `room` bytes only: an encoder that reports
                // success must have delivered every byte it reports
                (Ok(room), Some(r)) => {
                    let mut w = FullW { buf: vec![], room };
                    match catch_unwind(AssertUnwindSafe(|| r.encode(&mut w))) {
                        Ok(Ok(n)) if n == w.buf.len() => self.emit(&format!("enc {}", hex(&w.buf))),
                        Ok(Ok(n)) => self.emit(&format!("enc size-mismatch {} {}", n, w.buf.len())),
                        Ok(Err(_)) => self.emit("enc err"),
                        Err(_) => self.emit("enc panic"),
                    }
                }
                _ => self.emit("bad-op"),
            },
            ["encw", k, rec @ ..] => match (k.parse::<usize>(), parse_record(rec)) {
                // encode into a sink that takes at most k bytes per write call
                (Ok(k), Some(r)) if k > 0 => {
                    let mut w = DribbleW { buf: vec![], k };
                    match catch_unwind(AssertUnwindSafe(|| r.encode(&mut w))) {
                        Ok(Ok(n)) if n == w.buf.len() => self.emit(&format!("enc {}", hex(&w.buf))),
                        Ok(Ok(n)) => self.emit(&format!("enc size-mismatch {} {}", n, w.buf.len())),
                        Ok(Err(_)) => self.emit("enc err"),
                        Err(_) => self.emit("enc panic"),
                    }
                }
                _ => self.emit("bad-op"),
            },
            ["enc", rec @ ..] => match parse_record(rec) {
                Some(r) => {
                    let mut bs = vec![];
                    match catch_unwind(AssertUnwindSafe(|| r.encode(&mut bs))) {
                        Ok(Ok(n)) if n == bs.len() => self.emit(&format!("enc {}", hex(&bs))),
                        Ok(Ok(n)) => self.emit(&format!("enc size-mismatch {} {}", n, bs.len())),
                        Ok(Err(_)) => self.emit("enc err"),
                        Err(_) => self.emit("enc panic"),
                    }
                }
                None => self.emit("bad-op"),
            },
            ["rt", rec @ ..] => match parse_record(rec) {
                // round trip inside the implementation (records too large to print)
                Some(r) => {
                    let res = catch_unwind(AssertUnwindSafe(|| {
                        let mut bs = vec![];
                        let n = r.encode(&mut bs).map_err(|_| "enc-err")?;
                        if n != bs.len() {
                            return Err("size-mismatch");
                        }
                        let mut rd = Dribble { data: &bs, pos: 0, k: usize::MAX };
                        let back = Rec::decode(&mut rd).map_err(|e| {
                            if e.kind() == io::ErrorKind::UnexpectedEof { "dec-eof" } else { "dec-invalid" }
                        })?;
                        if rd.pos != bs.len() {
                            return Err("dec-left-bytes");
                        }
                        let mut again = vec![];
                        if back.encode(&mut again).is_err() || again != bs {
                            return Err("differs");
                        }
                        Ok(n)
                    }));
                    match res {
                        Ok(Ok(n)) => self.emit(&format!("rt ok {}", n)),
                        Ok(Err(e)) => self.emit(&format!("rt {}", e)),
                        Err(_) => self.emit("rt panic"),
                    }
                }
                None => self.emit("bad-op"),
            },
            ["dec", h] => match parse_bytes(h) {
                Some(bs) => self.do_dec(&bs, usize::MAX),
                None => self.emit("bad-op"),
            },
            ["decr", k, h] => match (k.parse::<usize>(), parse_bytes(h)) {
                (Ok(k), Some(bs)) if k > 0 => self.do_dec(&bs, k),
                _ => self.emit("bad-op"),
            },
            _ => self.emit("bad-op"),
        }
    }
}

/// One contender of the lock race (C13): repeatedly tries to open the directory as a store or
/// as a dump. Ownership is witnessed by an `OWNER` file created with `create_new`: a second
/// concurrent owner, in this or any other process, would find it present.
fn contender(dir: &str, iters: u32, seed: u64) -> (u32, u32, Vec<String>) {
    let mut granted = 0;
    let mut refused = 0;
    let mut violations = vec![];
    let mut x = seed.wrapping_mul(0x9E3779B97F4A7C15) | 1;
    let owner = format!("{}/OWNER", dir);
    for _ in 0..iters {
        x ^= x << 13;
        x ^= x >> 7;
        x ^= x << 17;
        let as_dump = x % 3 == 0;
        let cfg = Arc::new(Config::new(dir));
        let before = gate::thread_events();
        enum H {
            S(RaftLog<VT>),
            D(raft_log::Dump<VT>),
        }
        let r = if as_dump {
            raft_log::Dump::<VT>::new(cfg).map(H::D)
        } else {
            RaftLog::<VT>::open(cfg).map(H::S)
        };
        match r {
            Ok(h) => {
                granted += 1;
                match std::fs::OpenOptions::new().write(true).create_new(true).open(&owner) {
                    Ok(_) => {}
                    Err(_) => violations.push("two owners at the same time".to_string()),
                }
                if let H::S(mut s) = h {
                    let t = std::time::SystemTime::now()
                        .duration_since(std::time::UNIX_EPOCH)
                        .map(|d| d.as_nanos() as u64)
                        .unwrap_or(0);
                    let _ = s.save_vote((t, 0));
                    let _ = s.flush(None);
                    if x % 5 == 0 {
                        std::thread::sleep(Duration::from_micros(x % 300));
                    }
                    let _ = std::fs::remove_file(&owner);
                    drop(s);
                } else {
                    if x % 5 == 0 {
                        std::thread::sleep(Duration::from_micros(x % 300));
                    }
                    let _ = std::fs::remove_file(&owner);
                    drop(h);
                }
            }
            Err(e) => {
                refused += 1;
                if err_kind(&e) != "locked" {
                    violations.push(format!("refused with an unexpected error: {}", e));
                }
                if gate::thread_events() != before {
                    violations.push("a refused attempt touched a chunk file".to_string());
                }
            }
        }
    }
    (granted, refused, violations)
}

fn main() {
    // keep panics quiet: they are observations, reported as `panic`
    std::panic::set_hook(Box::new(|_| {}));
    let args: Vec<String> = std::env::args().collect();
    if args.len() == 5 && args[1] == "--contender" {
        raft_log::verif_hooks::set_handler(Box::new(gate::on_event));
        gate::set_mode(Mode::Free);
        {
            gate::g().m.lock().unwrap().dir = args[2].clone();
        }
        let (g, r, v) = contender(&args[2], args[3].parse().unwrap_or(10), args[4].parse().unwrap_or(1));
        println!("{} {} {}", g, r, v.len());
        for x in v {
            println!("violation {}", x);
        }
        return;
    }
    let base = {
        let root = std::env::var("RLV_TMP").unwrap_or_else(|_| {
            std::env::temp_dir().to_string_lossy().into_owned()
        });
        format!("{}/rlv-{}", root, std::process::id())
    };
    std::fs::create_dir_all(&base).unwrap();
    raft_log::verif_hooks::set_handler(Box::new(gate::on_event));
    if let Err(e) = gate::self_test(&base) {
        println!("harness-blind {}", e);
        std::process::exit(3);
    }
    let timeout = std::env::var("RLV_TIMEOUT_MS")
        .ok()
        .and_then(|s| s.parse::<u64>().ok())
        .unwrap_or(45_000);
    let mut r = Runner {
        out: io::BufWriter::new(io::stdout()),
        base: base.clone(),
        seq: 0,
        dir: String::new(),
        dirs: vec![],
        cfg: Config::new(""),
        store: None,
        dump: None,
        held: vec![],
        ud_calls: 0,
        snap: None,
        stopped: false,
        timeout: Duration::from_millis(timeout),
    };
    let stdin = io::stdin();
    for line in stdin.lock().lines() {
        let Ok(line) = line else { break };
        r.step(&line);
    }
    r.cleanup();
    let _ = r.out.flush();
    let _ = std::fs::remove_dir_all(&base);
}
