/-
Line-protocol driver: executes a script on the model and prints the canonical
observation lines. Lines starting with `=` are what the reference
specification (`RefLog`) alone demands; lines starting with `#` are
model-only information for the script generator.
-/
import RaftLogModel.Model.Text
import RaftLogModel.Model.Names
open RaftLog

structure DState where
  sys : Sys := {}
  spec : RefLog := {}
  specOn : Bool := true
  /-- `hist[n]` = spec state after `n` journalled writes of this history -/
  hist : Array RefLog := #[{}]
  flushedN : Nat := 0
  ackedN : Nat := 0
  /-- callback id ↦ number of writes issued before that flush -/
  cbMap : List (Nat × Nat) := []
  /-- some system call failed since the last restart (faults widen the set of acceptable recoveries) -/
  faulted : Bool := false
  crashed : Bool := false
  stopped : Bool := false
  /-- the files were altered by hand (`fsop`): any prefix may be what is recovered -/
  tampered : Bool := false
  /-- greatest eviction boundary ever in force in this history (for the D2 classification) -/
  maxBd : Option LogId := none
  /-- a held snapshot (`snap`): the store and the reference entries at that moment -/
  snap : Option (Store × List (LogId × Bytes)) := none

def out (s : String) : IO Unit := IO.println s

def printEvs (evs : List Ev) : IO Unit :=
  for e in evs do
    match showEv e with
    | some l => out l
    | none => pure ()

def showRes (r : Res Seg) : String :=
  match r with
  | .ok seg => s!"ret ok {seg.off},{seg.size}"
  | .err k => s!"ret err {showErr k}"
  | .panic _ => "ret panic"

def showResU (r : Res Unit) : String :=
  match r with
  | .ok _ => "ret ok"
  | .err k => s!"ret err {showErr k}"
  | .panic _ => "ret panic"

def parseOpt (tok : String) : Option (Option Nat) :=
  if tok == "-" then some none else tok.toNat?.map some

def parseCfgTok (c : Cfg) (tok : String) : Cfg :=
  match tok.splitOn "=" with
  | [k, v] =>
    let n := v.toNat?
    match k, n with
    | "mr", some n => { c with maxRecords := n }
    | "ms", some n => { c with maxSize := n }
    | "ci", some n => { c with cacheItems := n }
    | "cc", some n => { c with cacheCap := n }
    | "tr", some n => { c with truncate := n != 0 }
    | _, _ => c
  | _ => c

def parseEntry (tok : String) : Option (LogId × Bytes) :=
  match tok.splitOn "," with
  | [t, i, p] => match t.toNat?, i.toNat?, parseBytes p with
    | some t, some i, some p => some (⟨t, i⟩, p)
    | _, _, _ => none
  | _ => none

def parseOutcome (tok : String) : Outcome :=
  if tok == "eio" then .eio
  else match tok.splitOn ":" with
    | ["short", k] => .short (k.toNat?.getD 1)
    | _ => .ok

/-- Record the spec consequences of model events (acknowledgements, faults). -/
def noteEvs (d : DState) (evs : List Ev) : DState :=
  evs.foldl (fun d e =>
    match e with
    | .cb id true =>
      match d.cbMap.find? (fun x => x.1 == id) with
      | some x => { d with ackedN := max d.ackedN x.2 }
      | none => d
    | .boundary o => if optLt d.maxBd o then { d with maxBd := o } else d
    | .cb _ false => { d with faulted := true }
    | .write _ _ _ false => { d with faulted := true }
    | .sync _ _ false => { d with faulted := true }
    | .unlink _ _ false => { d with faulted := true }
    | _ => d) d

/-- How many journalled writes an accepted op adds (a no-op purge adds none). -/
def opWrites (before : RefLog) (op : Op) : Nat :=
  match op with
  | .append es => es.length
  | .purge upto => if upto.index < nextIndex before.purged then 0 else 1
  | _ => 1

/-- Spec states after each entry of a batch (for the crash prefixes). -/
def batchStates (r : RefLog) : List (LogId × Bytes) → List RefLog
  | [] => []
  | (id, p) :: rest =>
    match r.append1 id p with
    | .ok r' => r' :: batchStates r' rest
    | .error _ => []

def doWrite (d : DState) (op : Op) : IO DState := do
  if d.sys.store.isNone then
    out "ret err notFound"
    return d
  let (res, sys', evs) := d.sys.call op
  printEvs evs
  out (showRes res)
  match res with
  | .panic m => out s!"#panic {m}"
  | _ => pure ()
  let mut d := noteEvs { d with sys := sys' } evs
  if d.specOn then
    let legal := d.spec.legal op
    match d.spec.call op with
    | .ok r' =>
      if legal then
        out "=ret ok"
        let states := match op with
          | .append es =>
            let all := batchStates d.spec es
            -- a batch interrupted by an I/O failure (rotation could not create the next file)
            -- has journalled and applied only a prefix of its entries
            match res, sys'.store with
            | .err .exists, some ms => (all.takeWhile (fun (x : RefLog) => x.last != ms.st.last)) ++
                                        (all.filter (fun (x : RefLog) => x.last == ms.st.last)).take 1
            | _, _ => all
          | _ => if opWrites d.spec op == 0 then [] else [r']
        let r' := match op, states.getLast? with
          | .append _, some x => x
          | .append _, none => d.spec
          | _, _ => r'
        d := { d with spec := r', hist := states.foldl (fun h s => h.push s) d.hist }
      else
        out "=off illegal"
        d := { d with specOn := false }
    | .error k =>
      out s!"=ret err {showErr k}"
      -- a batch applies its accepted prefix
      match op with
      | .append es =>
        let states := batchStates d.spec es
        match states.getLast? with
        | some r' => d := { d with spec := r', hist := states.foldl (fun h s => h.push s) d.hist }
        | none => pure ()
      | _ => pure ()
  match res with
  | .panic _ => d := { d with stopped := true }
  | .err .sendFailed => d := { d with stopped := true }
  | _ => pure ()
  return d

/-- Why a cache miss cannot be served (known finding D2): the entry's log id is
at or below the eviction boundary although its chunk is still the open one, or
is closed but not yet written by the worker. -/
def c07Info (s : Store) (fs : Fs) (ld : LogData) (maxBd : Option LogId) : IO Unit := do
  if (s.cache.get ld.id).isNone && optLe (some ld.id) maxBd then
    if ld.chunk == s.openId then
      out s!"#c07 below-boundary-evicted open-chunk {showId ld.id} max-boundary={showOpt maxBd}"
    else if (fs.readAt ld.chunk (ld.off - ld.chunk) ld.size).isNone then
      out s!"#c07 below-boundary-evicted unwritten-chunk {showId ld.id} max-boundary={showOpt maxBd}"

def showItems (items : List ReadItem) : String := joinWith ";" (items.map showReadItem)
def showSpecItems (es : List (LogId × Bytes)) : String :=
  joinWith ";" (es.map fun e => s!"{showId e.1}:{showBytes e.2}")

/-- After an `open` that follows a drop or crash: which prefixes the spec
allows, and re-base the spec on the one the model recovered. -/
def rebase (d : DState) : IO DState := do
  if !d.specOn then return d
  let issued := d.hist.size - 1
  let lo := if d.tampered then 0 else if d.crashed || d.faulted then d.ackedN else d.flushedN
  let hi := issued
  out s!"=range {lo} {hi}"
  let mut found : Option Nat := none
  match d.sys.store with
  | none => pure ()
  | some s =>
    let (items, _) := s.read d.sys.fs 0 U64
    let modelRead := showItems items
    for n in [lo:hi+1] do
      let r := d.hist[n]!
      let line := s!"st {showState r.state} | read {showSpecItems r.entries}"
      out s!"=cand {n} {line}"
      if found.isNone && r.state == s.st && showSpecItems r.entries == modelRead then
        found := some n
  match found with
  | some n =>
    out s!"=rebased {n}"
    return { d with spec := d.hist[n]!, hist := d.hist.extract 0 (n + 1), flushedN := n, ackedN := n,
                    faulted := false, crashed := false, tampered := false, cbMap := [] }
  | none =>
    out "=rebased none"
    return { d with specOn := false }

def step (d : DState) (line : String) : IO DState := do
  let toks := (line.trimAscii.toString.splitOn " ").filter (· != "")
  match toks with
  | [] => return d
  | "begin" :: _ => out line.trimAscii.toString; return {}
  | "end" :: _ => out "end"; return d
  | "note" :: _ => return d
  | "cfg" :: rest =>
    return { d with sys := { d.sys with cfg := rest.foldl parseCfgTok {} } }
  | _ =>
  if d.stopped then return d
  match toks with
  | ["open"] =>
    let wasFresh := d.sys.fs.isEmpty
    let (res, sys', evs) := d.sys.open
    printEvs evs
    match res with
    | .ok _ => out "open ok"
    | .err k =>
      out s!"open err {showErr k}"
      if k == .gap then
        -- which neighbours do not abut, and is the earlier one shorter than the gap (torn) or complete
        let ids := d.sys.fs.linkedIds
        for (a, b) in ids.zip (ids.drop 1) do
          match d.sys.fs.find a with
          | some f =>
            let x := parseChunk f.data
            let endA := a + (x.1.map (·.2)).foldl (· + ·) 0
            if endA != b then
              out s!"#gap prev={a} prev_file_len={f.data.length} prev_records_end={endA} next={b} tail={repr x.2.1}"
          | none => pure ()
    | .panic _ => out "open panic"
    let d := { d with sys := sys' }
    match res with
    | .ok _ => if wasFresh then return d else rebase d
    | .err .locked => return d
    | _ => return d
  | ["vote", t, n] =>
    match t.toNat?, n.toNat? with
    | some t, some n => doWrite d (.saveVote ⟨t, n⟩)
    | _, _ => out "bad-op"; return d
  | "app" :: es =>
    match es.mapM parseEntry with
    | some es => doWrite d (.append es)
    | none => out "bad-op"; return d
  | ["trunc", i] =>
    match i.toNat? with
    | some i => doWrite d (.truncate i)
    | none => out "bad-op"; return d
  | ["purge", t, i] =>
    match t.toNat?, i.toNat? with
    | some t, some i => doWrite d (.purge ⟨t, i⟩)
    | _, _ => out "bad-op"; return d
  | ["commit", t, i] =>
    match t.toNat?, i.toNat? with
    | some t, some i => doWrite d (.commit ⟨t, i⟩)
    | _, _ => out "bad-op"; return d
  | ["ud", b] =>
    match parseOptBytes b with
    | some b => doWrite d (.saveUserData b)
    | none => out "bad-op"; return d
  | ["flush", cb] =>
    match parseOpt cb with
    | none => out "bad-op"; return d
    | some cb =>
      let (res, sys', evs) := d.sys.flush cb
      printEvs evs
      out (showResU res)
      let issued := d.hist.size - 1
      match cb with
      | some c => out s!"#flushed {c} {issued}"
      | none => pure ()
      let d := noteEvs { d with sys := sys' } evs
      let d := match res with
        | .ok _ => { d with flushedN := issued,
                            cbMap := match cb with | some c => (c, issued) :: d.cbMap | none => d.cbMap }
        | .err .notFound => d
        | _ => { d with stopped := true }
      return d
  | ["w", o] =>
    if d.sys.store.isNone then out "wst none"; return d
    let (sys', evs) := d.sys.workerStep (parseOutcome o)
    printEvs evs
    out s!"wst {showPc sys'.worker.pc} q={sys'.worker.queue.length}"
    return noteEvs { d with sys := sys' } evs
  | ["wfsall"] =>
    -- run the worker until it is idle or dead, failing every fdatasync on the way
    if d.sys.store.isNone then out "wst none"; return d
    let mut d := d
    let mut n := 0
    while !(d.sys.worker.quiet || d.sys.worker.pc == .dead) && n < 100000 do
      let o : Outcome := match d.sys.worker.pc with
        | .syncOld _ _ => .eio
        | .syncNew _ _ => .eio
        | _ => .ok
      let (sys', evs) := d.sys.workerStep o
      printEvs evs
      d := noteEvs { d with sys := sys' } evs
      n := n + 1
    out s!"wst {showPc d.sys.worker.pc} q={d.sys.worker.queue.length}"
    return d
  | ["wack", cbTok] =>
    -- release the worker (all outcomes ok) until callback `cb` has been delivered
    match cbTok.toNat? with
    | none => out "bad-op"; return d
    | some cb =>
      if d.sys.store.isNone then out "wst none"; return d
      let mut d := d
      let mut n := 0
      let mut done := false
      while !done && n < 100000 do
        if d.sys.worker.quiet then
          done := true
        else
          let (sys', evs) := d.sys.workerStep .ok
          printEvs evs
          d := noteEvs { d with sys := sys' } evs
          if evs.any (fun e => match e with | .cb i _ => i == cb | .cbDropped i => i == cb | _ => false) then
            done := true
        n := n + 1
      out s!"wst {showPc d.sys.worker.pc} q={d.sys.worker.queue.length}"
      return d
  | ["widle"] =>
    if d.sys.store.isNone then out "wst none"; return d
    let (sys', evs) := d.sys.workerIdle
    printEvs evs
    out s!"wst {showPc sys'.worker.pc} q={sys'.worker.queue.length}"
    return noteEvs { d with sys := sys' } evs
  | ["drain"] => return { d with sys := d.sys.drain }
  | ["statdrain", p] =>
    -- a drain racing with stat() observers on other threads: the model is the drain; the
    -- observers must never see a torn report (implementation side)
    match p.toNat? with
    | none => out "bad-op"; return d
    | some _ =>
      if d.sys.store.isNone then out "statdrain none"; return d
      out "statdrain ok"
      return { d with sys := d.sys.drain }
  | ["droppanic"] =>
    -- dropped while a panic unwinds through the owner: same obligations as a plain drop
    if d.sys.store.isNone then out "dropped none"; return d
    let (sys', evs) := d.sys.dropStore
    printEvs evs
    out "dropped"
    return noteEvs { d with sys := sys' } evs
  | "rt" :: _ => out "rt model-skipped"; return d   -- implementation-only round trip of a huge record
  | ["forkhold"] => out "forkhold ok"; return d   -- a forked child holds copies of the descriptors: no effect
  | ["forkrelease"] => out "forkrelease ok"; return d
  | ["dropslow"] =>
    -- dropped while the worker is slow: same obligations as a plain drop
    if d.sys.store.isNone then out "dropped none"; return d
    let (sys', evs) := d.sys.dropStore
    printEvs evs
    out "dropped"
    return noteEvs { d with sys := sys' } evs
  | ["drop"] =>
    if d.sys.store.isNone then out "dropped none"; return d
    let (sys', evs) := d.sys.dropStore
    printEvs evs
    out "dropped"
    return noteEvs { d with sys := sys' } evs
  | ["crash"] =>
    -- the process dies now: nothing queued or buffered survives, unlinked files are gone
    let fs' := d.sys.fs.filter (fun f => f.linked)
    return { d with sys := { d.sys with fs := fs', store := none, locked := false,
                                        worker := { files := [], pc := .dead } },
                    crashed := true }
  | ["fsop", "touch", id] =>
    match id.toNat? with
    | some id =>
      if d.sys.fs.has id then return d
      else return { d with sys := { d.sys with fs := d.sys.fs.create id } }
    | none => out "bad-op"; return d
  | ["fsop", "flip", id, pos, mask] =>
    match id.toNat?, pos.toNat?, mask.toNat? with
    | some id, some pos, some mask =>
      let fs' := d.sys.fs.update id fun f =>
        if pos < f.data.length then
          { f with data := f.data.set pos ((f.data.getD pos 0) ^^^ UInt8.ofNat mask) } else f
      return { d with sys := { d.sys with fs := fs' }, tampered := true }
    | _, _, _ => out "bad-op"; return d
  | "fsop" :: rest =>
    if d.sys.store.isSome then out "bad-op"; return d
    let d := { d with tampered := d.tampered || rest.head? != some "settle" }
    match rest with
    | ["cut", id, k] =>
      match id.toNat?, k.toNat? with
      | some id, some k =>
        match d.sys.fs.find id with
        | some f =>
          out s!"#legal {if f.durable ≤ k && k ≤ f.data.length then "yes" else "no"}"
          return { d with sys := { d.sys with fs := d.sys.fs.truncate id k } }
        | none => return d
      | _, _ => out "bad-op"; return d
    | ["zero", id, b, m] =>
      match id.toNat?, b.toNat?, m.toNat? with
      | some id, some b, some m =>
        match d.sys.fs.find id with
        | some f =>
          let x := parseChunk f.data
          let offs := offsetsFrom 0 (x.1.map (·.2))
          let legal := f.durable ≤ b && offs.contains b && 1 ≤ m && b + m ≤ f.data.length
          out s!"#legal {if legal then "yes" else "no"}"
          let fs' := d.sys.fs.update id fun f =>
            { f with data := f.data.take b ++ List.replicate m 0, durable := min f.durable b }
          return { d with sys := { d.sys with fs := fs' } }
        | none => return d
      | _, _, _ => out "bad-op"; return d
    | ["set", id, pos, val] =>
      match id.toNat?, pos.toNat?, val.toNat? with
      | some id, some pos, some val =>
        let fs' := d.sys.fs.update id fun f =>
          if pos < f.data.length then { f with data := f.data.set pos (UInt8.ofNat val) } else f
        return { d with sys := { d.sys with fs := fs' } }
      | _, _, _ => out "bad-op"; return d
    | ["rm", id] =>
      match id.toNat? with
      | some id => return { d with sys := { d.sys with fs := d.sys.fs.filter (fun f => f.id != id) } }
      | none => out "bad-op"; return d
    | ["settle"] =>
      return { d with sys := { d.sys with fs := d.sys.fs.map fun f => { f with durable := f.data.length } } }
    | _ => out "bad-op"; return d
  | ["st"] =>
    match d.sys.store with
    | some s =>
      out s!"st {showState s.st}"
      if d.specOn then out s!"=st {showState d.spec.state}"
    | none => out "st none"
    return d
  | ["read", a, b] =>
    match d.sys.store, a.toNat?, b.toNat? with
    | some s, some a, some b =>
      let (items, s') := s.read d.sys.fs a b
      out s!"read {showItems items}"
      for (_, ld) in s.log.filter (fun e => a ≤ e.1 && e.1 < b) do
        c07Info s d.sys.fs ld d.maxBd
      if d.specOn then out s!"=read {showSpecItems (d.spec.read a b)}"
      return { d with sys := { d.sys with store := some s' } }
    | _, _, _ => out "read none"; return d
  | ["mread", k, a, b] =>
    -- k reader threads at once: every one of them must see what a single `read` sees;
    -- the hit/miss counters move as for k reads
    match d.sys.store, k.toNat?, a.toNat?, b.toNat? with
    | some s, some k, some a, some b =>
      if k == 0 || k > 16 then out "bad-op"; return d
      let (items, _) := s.read d.sys.fs a b
      out s!"read {showItems items}"
      for (_, ld) in s.log.filter (fun e => a ≤ e.1 && e.1 < b) do
        c07Info s d.sys.fs ld d.maxBd
      if d.specOn then out s!"=read {showSpecItems (d.spec.read a b)}"
      let mut cur := s
      for _ in [0:k] do
        cur := (cur.read d.sys.fs a b).2
      return { d with sys := { d.sys with store := some cur } }
    | none, _, _, _ => out "read none"; return d
    | _, _, _, _ => out "bad-op"; return d
  | ["snap"] =>
    -- dump_data(): a snapshot that is kept while the store goes on
    match d.sys.store with
    | some s => out "snap ok"; return { d with snap := some (s, d.spec.entries) }
    | none => out "snap none"; return d
  | ["snapiter"] =>
    -- iterate the held snapshot now: its own index, cache copy and closed-chunk table; today's files
    match d.snap with
    | some (s, ents) =>
      out s!"iter {showItems (s.iter d.sys.fs)}"
      for (_, ld) in s.log do
        c07Info s d.sys.fs ld d.maxBd
      if d.specOn then out s!"=iter {showSpecItems ents}"
      return d
    | none => out "iter none"; return d
  | ["iter"] =>
    match d.sys.store with
    | some s =>
      out s!"iter {showItems (s.iter d.sys.fs)}"
      for (_, ld) in s.log do
        c07Info s d.sys.fs ld d.maxBd
      if d.specOn then out s!"=iter {showSpecItems d.spec.entries}"
    | none => out "iter none"
    return d
  | ["iter2"] =>
    match d.sys.store with
    | some s =>
      let one := showItems (s.iter d.sys.fs)
      out s!"iter2 {one} | {one}"
      for _ in [0:2] do
        for (_, ld) in s.log do
          c07Info s d.sys.fs ld d.maxBd
      if d.specOn then out s!"=iter2 {showSpecItems d.spec.entries} | {showSpecItems d.spec.entries}"
    | none => out "iter2 none"
    return d
  | ["burst", n, t, i] =>
    match n.toNat?, t.toNat?, i.toNat? with
    | some n, some t, some i =>
      if d.sys.store.isNone then out "burst none"; return d
      let mut d := d
      for k in [0:n] do
        let op := Op.append [(⟨t, i + k⟩, genBytes 7 k)]
        let (_, sys1, evs1) := d.sys.call op
        d := noteEvs { d with sys := sys1 } evs1
        if d.specOn then
          match d.spec.call op with
          | .ok r' => d := { d with spec := r', hist := d.hist.push r' }
          | .error _ => d := { d with specOn := false }
        let (_, sys2, evs2) := d.sys.flush none
        d := noteEvs { d with sys := sys2, flushedN := d.hist.size - 1 } evs2
        -- the worker keeps up in the background
        let (sys3, evs3) := d.sys.workerIdle
        d := noteEvs { d with sys := sys3 } evs3
      out s!"burst ok {n}"
      return d
    | _, _, _ => out "bad-op"; return d
  | ["stat"] =>
    match d.sys.store with
    | some s => out s.showStat
    | none => out "stat none"
    return d
  | ["res"] =>
    match d.sys.store with
    | some s => out s.showRes
    | none => out "res none"
    return d
  | ["size"] =>
    match d.sys.store with
    | some s => out s!"size {s.onDiskSize}"
    | none => out "size none"
    return d
  | ["dumpwstep"] =>
    -- a dump during which the parked worker performs its next step: the dump shows the files as they
    -- were, the step has its usual effect (the dump does not disturb the journal)
    match d.sys.store with
    | some s =>
      let fs0 := d.sys.fs
      let (sys', evs) := d.sys.workerStep .ok
      printEvs evs
      for id in s.closed.map Closed.id ++ [s.openId] do
        match fs0.find id with
        | none => out s!"rec {id} - err notFound"
        | some f =>
          let x := parseChunk f.data
          let offs := offsetsFrom 0 (x.1.map (·.2))
          let mut i := 0
          for (r, sz) in x.1 do
            out s!"rec {id} {i} {offs[i]!},{sz} {showRecord r}"
            i := i + 1
          match x.2.1 with
          | .clean => pure ()
          | .eof => out s!"rec {id} {i} err eof"
          | .invalid => out s!"rec {id} {i} err invalid"
      out s!"dumpw end wst {showPc sys'.worker.pc} q={sys'.worker.queue.length}"
      return noteEvs { d with sys := sys' } evs
    | none => out "dumpw none"; return d
  | ["dumpw"] =>
    -- `RaftLog::dump()`: every record of the closed chunks and the open chunk, read back from the files
    match d.sys.store with
    | some s =>
      for id in s.closed.map Closed.id ++ [s.openId] do
        match d.sys.fs.find id with
        | none => out s!"rec {id} - err notFound"
        | some f =>
          let x := parseChunk f.data
          let offs := offsetsFrom 0 (x.1.map (·.2))
          let mut i := 0
          for (r, sz) in x.1 do
            out s!"rec {id} {i} {offs[i]!},{sz} {showRecord r}"
            i := i + 1
          match x.2.1 with
          | .clean => pure ()
          | .eof => out s!"rec {id} {i} err eof"
          | .invalid => out s!"rec {id} {i} err invalid"
      out "dumpw end"
    | none => out "dumpw none"
    return d
  | ["dir"] => out d.sys.fs.showDir; return d
  | ["lay"] =>
    for id in d.sys.fs.linkedIds do
      match d.sys.fs.find id with
      | some f =>
        let x := parseChunk f.data
        let offs := offsetsFrom 0 (x.1.map (·.2))
        out s!"#lay {id} {f.data.length} {f.durable} {joinWith "," (offs.map toString)}"
      | none => pure ()
    return d
  | "judge" :: v :: l :: c :: pu :: es :: opToks =>
    -- verdict of the reference log on a call, from an observed state:
    -- judge <vote> <last> <committed> <purged> <t,i;t,i;...|-> <op...>
    let ids := if es == "-" then some [] else (es.splitOn ";").mapM parseId
    match parseOptId v, parseOptId l, parseOptId c, parseOptId pu, ids with
    | some v, some l, some c, some pu, some ids =>
      let r : RefLog := { vote := v, last := l, committed := c, purged := pu,
                          entries := ids.map fun i => (i, []) }
      let op : Option Op := match opToks with
        | ["vote", t, n] => match t.toNat?, n.toNat? with
          | some t, some n => some (.saveVote ⟨t, n⟩)
          | _, _ => none
        | "app" :: es => (es.mapM parseEntry).map .append
        | ["trunc", i] => i.toNat?.map .truncate
        | ["purge", t, i] => match t.toNat?, i.toNat? with
          | some t, some i => some (.purge ⟨t, i⟩)
          | _, _ => none
        | ["commit", t, i] => match t.toNat?, i.toNat? with
          | some t, some i => some (.commit ⟨t, i⟩)
          | _, _ => none
        | ["ud", b] => (parseOptBytes b).map .saveUserData
        | _ => none
      match op with
      | some op =>
        match r.call op with
        | .ok _ => out "judge ok"
        | .error k =>
          -- for a batch: how many leading entries the reference log accepts (entry-level writes)
          let acc : Nat := match op with
            | .append es => (List.range es.length).foldl (fun a j =>
                match r.call (.append (es.take (j + 1))) with
                | .ok _ => if a == j then j + 1 else a
                | .error _ => a) 0
            | _ => 0
          out s!"judge err {showErr k}{if acc > 0 then s!" accepted={acc}" else ""}"
      | none => out "bad-op"
    | _, _, _, _, _ => out "bad-op"
    return d
  | ["dumpopen"] =>
    let (res, sys') := d.sys.dumpOpen
    match res with
    | .ok _ => out "dumpopen ok"
    | .err k => out s!"dumpopen err {showErr k}"
    | .panic _ => out "dumpopen panic"
    return { d with sys := sys' }
  | ["dumpdrop"] =>
    out "dumpdrop"
    return { d with sys := d.sys.dumpDrop }
  | ["lockrace", _, _, _] =>
    -- concurrency monitor on the implementation side; the model's verdict is the theorem
    if d.sys.store.isSome then out "bad-op" else out "lockrace violations=0 []"
    return d
  | ["name", n] =>
    match n.toNat? with
    | some n => out s!"name {String.ofList (chunkFileName n)}"
    | none => out "bad-op"
    return d
  | ["pname", nm] =>
    match parseChunkFileName nm.toList with
    | some v => out s!"pname ok {v}"
    | none => out "pname err"
    return d
  | "encf" :: room :: rec =>
    -- a sink with room for `room` bytes: the encoder succeeds iff the whole record fits
    match room.toNat?, parseRecord rec with
    | some room, some r =>
      if (encRecord r).length ≤ room then out s!"enc {hexOfBytes (encRecord r)}" else out "enc err"
    | _, _ => out "bad-op"
    return d
  | ["openalt"] =>
    -- the same directory under another spelling: refused while it is owned
    if d.sys.locked then out "open err locked" else out "open unowned"
    return d
  | "encw" :: _ :: rec =>
    -- the encoding does not depend on how the writer accepts the bytes
    match parseRecord rec with
    | some r => out s!"enc {hexOfBytes (encRecord r)}"
    | none => out "bad-op"
    return d
  | "enc" :: rec =>
    match parseRecord rec with
    | some r => out s!"enc {hexOfBytes (encRecord r)}"
    | none => out "bad-op"
    return d
  | ["decr", _, hex] =>
    -- decoding does not depend on how the reader chops the input
    match parseBytes hex with
    | some bs =>
      match decRecord bs with
      | .ok r rest => out s!"dec ok {showRecord r} rest={rest.length} reenc=same"
      | .eof => out "dec eof"
      | .invalid => out "dec invalid"
    | none => out "bad-op"
    return d
  | ["dec", hex] =>
    match parseBytes hex with
    | some bs =>
      match decRecord bs with
      | .ok r rest => out s!"dec ok {showRecord r} rest={rest.length} reenc=same"
      | .eof => out "dec eof"
      | .invalid => out "dec invalid"
    | none => out "bad-op"
    return d
  | _ => out "bad-op"; return d

def noteBoundary (d : DState) : DState :=
  match d.sys.store with
  | some s => if optLt d.maxBd s.cache.lastEvictable then { d with maxBd := s.cache.lastEvictable } else d
  | none => d

partial def loop (h : IO.FS.Stream) (d : DState) : IO Unit := do
  let line ← h.getLine
  if line.isEmpty then return ()
  let d' ← step d line
  loop h (noteBoundary d')

def main : IO Unit := do
  let stdin ← IO.getStdin
  loop stdin {}
