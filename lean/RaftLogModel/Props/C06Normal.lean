/-
C06 normalisation — every history of well-formed calls equals a LEGAL history.

Almost every history theorem of this project assumes
`RefLog.run {} (stepOps steps) = some r` (every call is ACCEPTED by the reference
log and every purge is Raft-legal) and `∀ op ∈ stepOps steps, op.WF ∧ op.small`.
C06 says that rejected calls leave no trace. Here the two are combined:

* `normalizeC6N r steps` (Proofs/C06Normal.lean) follows the reference log from `r`
  along `steps`: a single-record call (`saveVote`, `commit`, `truncate`) the
  reference log rejects is REMOVED; a `purge` whose index is u64::MAX (refused by
  the store with `InvalidInput`, D12) is REMOVED; `append es` is REPLACED by
  `append pre`, `pre` the longest prefix of `es` whose entries the reference log
  accepts one after the other and none of which has index u64::MAX (`pre = es`
  when the whole batch is accepted; `append []` is an accepted no-op for both the
  reference log and the store); every other step is kept. It returns the
  normalised history and the reference log at its end.
* `c06_normalize_partial`: for every journal history of WELL-FORMED calls (not
  necessarily accepted, not necessarily small) with the worker alive at the
  end, the normalised history is a legal history of well-formed small calls and
  reaches the SAME system (files, store, worker, cache, lock, configuration) —
  and the same acknowledged position (`Sys.ackRun`).
* `…_any_history_partial`: the per-history theorems with the legality / acceptance /
  smallness hypotheses removed.

Why `_partial`: ONE hypothesis of the legal histories remains,
`purgesLegalC6N {} steps = true`: every purge the store does not refuse is
Raft-legal (`RefLog.legal`) for the reference log at the point where it is
issued. It cannot be normalised away: the reference log never REJECTS a purge
(`c06_never_rejected`), the store applies an illegal purge (so removing the call
changes the system, see the last `example`), and no theorem of the project covers
histories with illegal purges (`RefLog.run` returns `none` on them).

Helpers: Proofs/C06Normal.lean.
-/
import RaftLogModel.Proofs.C06Normal
import RaftLogModel.Props.C16Read
import RaftLogModel.Props.C03Quiet
import RaftLogModel.Props.C11Journal
import RaftLogModel.Props.C15
import RaftLogModel.Props.C15Restart
namespace RaftLog

/-! ### Target 1 -/

/-- **Normalisation.** `steps`: any calls (well-formed arguments), flushes,
worker steps of any outcome, `workerIdle`, `drain`; purges legal; worker alive
at the end. With `steps' := (normalizeC6N {} steps).1` and
`r := (normalizeC6N {} steps).2`:
* `steps'` satisfies the hypotheses of the legal-history theorems (journal
  steps; `RefLog.run {} (stepOps steps') = some r`; every op well-formed and small);
* `steps'` and `steps` reach the same system from `Sys.fresh cfg`, with the same
  acknowledged position;
* the C02 invariant `CSys` holds for the final system and `r`;
* shape: `steps'` is not longer than `steps`, the non-call steps are the same in
  the same order, and step by step (`NormRelC6N`) every step of `steps` is kept,
  or is a call that is removed, or is `append (pre ++ post)` replaced by
  `append pre`. -/
theorem c06_normalize_partial (cfg : Cfg) (steps : List Step)
    (hsteps : ∀ st ∈ steps, st.journal = true) (hwf : ∀ op ∈ stepOps steps, op.WF)
    (hpurge : purgesLegalC6N {} steps = true)
    (halive : ((Sys.fresh cfg).run steps).worker.pc ≠ .dead) :
    let steps' := (normalizeC6N {} steps).1
    let r := (normalizeC6N {} steps).2
    (∀ st ∈ steps', st.journal = true) ∧
    RefLog.run {} (stepOps steps') = some r ∧
    (∀ op ∈ stepOps steps', op.WF ∧ op.small) ∧
    (Sys.fresh cfg).run steps' = (Sys.fresh cfg).run steps ∧
    ((Sys.fresh cfg).run steps').worker.pc ≠ .dead ∧
    (Sys.fresh cfg).ackRun steps' 0 = (Sys.fresh cfg).ackRun steps 0 ∧
    CSys ((Sys.fresh cfg).run steps) r ∧
    steps'.length ≤ steps.length ∧
    steps'.filter (fun st => !st.isCallC6N) = steps.filter (fun st => !st.isCallC6N) ∧
    NormRelC6N steps steps' := by
  intro steps' r
  obtain ⟨k1, k2, k3, k4, k5, k6⟩ := normalize_run_C6N steps (Sys.fresh cfg) {} (fresh_CSys cfg)
    (Sys.fresh_settled cfg) hsteps hwf hpurge halive
  exact ⟨k2, k3, k4, k1, by rw [k1]; exact halive, k6 0, k5, normalize_length_C6N steps {},
    normalize_noncalls_C6N steps {}, normalize_rel_C6N steps {}⟩

/-- The special case asked for first: all ops small (`purgesLegalC6N` still needed). -/
theorem c06_normalize_small_partial (cfg : Cfg) (steps : List Step)
    (hsteps : ∀ st ∈ steps, st.journal = true) (hwf : ∀ op ∈ stepOps steps, op.WF ∧ op.small)
    (hpurge : purgesLegalC6N {} steps = true)
    (halive : ((Sys.fresh cfg).run steps).worker.pc ≠ .dead) :
    ∃ steps' r, steps' = (normalizeC6N {} steps).1 ∧
      (∀ st ∈ steps', st.journal = true) ∧ RefLog.run {} (stepOps steps') = some r ∧
      (∀ op ∈ stepOps steps', op.WF ∧ op.small) ∧
      (Sys.fresh cfg).run steps' = (Sys.fresh cfg).run steps := by
  obtain ⟨k1, k2, k3, k4, _⟩ := c06_normalize_partial cfg steps hsteps
    (fun op hop => (hwf op hop).1) hpurge halive
  exact ⟨_, _, rfl, k1, k2, k3, k4⟩

/-- A history without purges satisfies the purge hypothesis. -/
theorem c06_purgesLegal_of_no_purge (steps : List Step) :
    ∀ (r : RefLog), (∀ id, Step.call (.purge id) ∉ steps) → purgesLegalC6N r steps = true := by
  induction steps with
  | nil => intro r _; rfl
  | cons st rest ih =>
    intro r h
    simp only [purgesLegalC6N, Bool.and_eq_true]
    refine ⟨?_, ih _ (fun id hm => h id (List.mem_cons_of_mem _ hm))⟩
    unfold purgeOkC6N
    split
    · rename_i id; exact absurd List.mem_cons_self (h id)
    · rfl

/-- A legal history of small ops is its own normal form. -/
theorem c06_normalize_legal_id (steps : List Step) : ∀ (r r' : RefLog),
    r.run (stepOps steps) = some r' → (∀ op ∈ stepOps steps, op.small) →
    normalizeC6N r steps = (steps, r') ∧ purgesLegalC6N r steps = true := by
  induction steps with
  | nil =>
    intro r r' h _
    simp only [stepOps, RefLog.run, Option.some.injEq] at h
    subst h; exact ⟨rfl, rfl⟩
  | cons st rest ih =>
    intro r r' h hsm
    rw [stepOps_cons, RefLog.run_append] at h
    have hsm2 : ∀ op ∈ stepOps rest, op.small := by
      intro op hop; apply hsm; rw [stepOps_cons]; exact List.mem_append_right _ hop
    have key : ∀ r1, r.run (stepOps [st]) = some r1 →
        normStepC6N r st = (some st, r1) ∧
        purgeOkC6N r st = true := by
      intro r1 h1
      have keep : ∀ op, st = .call op → (keepIfOkC6N r op = (some st, r1) ∧ r.legal op = true) := by
        intro op e
        subst e
        simp only [stepOps, RefLog.run] at h1
        split at h1
        · rename_i hl
          cases hc : r.call op with
          | ok r2 =>
            rw [hc] at h1
            simp only [Option.some.injEq] at h1
            subst h1
            exact ⟨by simp only [keepIfOkC6N, hc], hl⟩
          | error k => rw [hc] at h1; cases h1
        · cases h1
      cases st with
      | flush cb =>
        simp only [stepOps, RefLog.run, Option.some.injEq] at h1; subst h1; exact ⟨rfl, rfl⟩
      | worker out =>
        simp only [stepOps, RefLog.run, Option.some.injEq] at h1; subst h1; exact ⟨rfl, rfl⟩
      | workerIdle =>
        simp only [stepOps, RefLog.run, Option.some.injEq] at h1; subst h1; exact ⟨rfl, rfl⟩
      | drain =>
        simp only [stepOps, RefLog.run, Option.some.injEq] at h1; subst h1; exact ⟨rfl, rfl⟩
      | drop =>
        simp only [stepOps, RefLog.run, Option.some.injEq] at h1; subst h1; exact ⟨rfl, rfl⟩
      | openWith c =>
        simp only [stepOps, RefLog.run, Option.some.injEq] at h1; subst h1; exact ⟨rfl, rfl⟩
      | call op =>
        cases op with
        | saveVote v => exact ⟨(keep _ rfl).1, rfl⟩
        | commit id => exact ⟨(keep _ rfl).1, rfl⟩
        | truncate idx => exact ⟨(keep _ rfl).1, rfl⟩
        | saveUserData d => exact ⟨(keep _ rfl).1, rfl⟩
        | purge id =>
          have hs : (Op.purge id).small := hsm _ (by simp [stepOps])
          have hU : ¬ id.index + 1 = U64 := by
            simp only [Op.small, smallId] at hs; omega
          refine ⟨?_, ?_⟩
          · simp only [normStepC6N, if_neg hU]; exact (keep _ rfl).1
          · simp only [purgeOkC6N, (keep _ rfl).2, Bool.or_true]
        | append es =>
          refine ⟨?_, rfl⟩
          have hs : (Op.append es).small := hsm _ (by simp [stepOps])
          obtain ⟨_, hl⟩ := keep _ rfl
          have hc : ∃ r2, r.appendAll es = .ok r2 := by
            simp only [RefLog.legal, RefLog.call] at hl
            cases hc : r.appendAll es with
            | ok r2 => exact ⟨r2, rfl⟩
            | error k => rw [hc] at hl; cases hl
          obtain ⟨r2, hc⟩ := hc
          have hr1 : r1 = r2 := by
            simp only [stepOps, RefLog.run, hl, if_true, RefLog.call, hc, Option.some.injEq] at h1
            exact h1.symm
          subst hr1
          have full : ∀ (es : List (LogId × Bytes)) (r r1 : RefLog), r.appendAll es = .ok r1 →
              (∀ e ∈ es, smallId e.1) → acceptedPrefixC6N r es = (es, r1) := by
            intro es
            induction es with
            | nil =>
              intro r r1 h _
              simp only [RefLog.appendAll, Except.ok.injEq] at h
              subst h; rfl
            | cons e rest ih =>
              obtain ⟨id, p⟩ := e
              intro r r1 h hs
              have hU : ¬ id.index + 1 = U64 := by
                have := hs (id, p) List.mem_cons_self
                simp only [smallId] at this; omega
              simp only [RefLog.appendAll] at h
              cases ha : r.append1 id p with
              | error k => rw [ha] at h; cases h
              | ok r' =>
                rw [ha] at h
                simp only [acceptedPrefixC6N, if_neg hU, ha,
                  ih r' r1 h (fun e he => hs e (List.mem_cons_of_mem _ he))]
          simp only [normStepC6N, full es r r1 hc hs]
    cases h1 : r.run (stepOps [st]) with
    | none => rw [h1] at h; cases h
    | some r1 =>
      rw [h1] at h
      simp only [Option.bind_some] at h
      obtain ⟨g1, g2⟩ := key r1 h1
      obtain ⟨i1, i2⟩ := ih r1 r' h hsm2
      refine ⟨?_, ?_⟩
      · simp only [normalizeC6N, g1, i1, consOptC6N]
      · simp only [purgesLegalC6N, g2, g1, i2, Bool.and_self]

/-! ### Target 2: the per-history theorems for ALL histories of well-formed calls

`r := (normalizeC6N {} steps).2` is the reference log reached by the accepted
calls (and accepted batch prefixes) of the history.

(b) `c11_journal_invariant` and (c) `c15_accounting_exact` are ALREADY free of
legality hypotheses (`c11_journal_invariant cfg steps hsteps hwf halive : J …` needs
journal steps, well-formed ops and a live worker only; `c15_accounting_exact`
needs `Step.live` steps only), so they hold for every history as they are; they are
restated below for the record. -/

/-- (a) **C01/C02, state.** The store reports the reference log's state, its index
keys are the reference log's entries, and the replay invariant holds. -/
theorem c01_state_any_history_partial (cfg : Cfg) (steps : List Step)
    (hsteps : ∀ st ∈ steps, st.journal = true) (hwf : ∀ op ∈ stepOps steps, op.WF)
    (hpurge : purgesLegalC6N {} steps = true)
    (halive : ((Sys.fresh cfg).run steps).worker.pc ≠ .dead) :
    ∃ s, ((Sys.fresh cfg).run steps).store = some s ∧
      s.st = (normalizeC6N {} steps).2.state ∧
      logKeys s.log = entKeys (normalizeC6N {} steps).2.entries ∧
      (normalizeC6N {} steps).2.WF ∧
      RSys ((Sys.fresh cfg).run steps) (normalizeC6N {} steps).2 := by
  obtain ⟨_, _, _, _, _, _, hC, _⟩ := c06_normalize_partial cfg steps hsteps hwf hpurge halive
  obtain ⟨s, hs, _, hinv⟩ := hC.1
  exact ⟨s, hs, hinv.abs.st, hinv.abs.log, hinv.abs.wf, hC.1⟩

/-- (b) C11, journal invariant: `c11_journal_invariant` has no legality hypothesis. -/
theorem c11_journal_invariant_any_history (cfg : Cfg) (steps : List Step)
    (hsteps : ∀ st ∈ steps, st.journal = true) (hwf : ∀ op ∈ stepOps steps, op.WF)
    (halive : ((Sys.fresh cfg).run steps).worker.pc ≠ .dead) : J ((Sys.fresh cfg).run steps) :=
  c11_journal_invariant cfg steps hsteps hwf halive

/-- (c) C15, cache accounting: `c15_accounting_exact` has no legality hypothesis. -/
theorem c15_accounting_exact_any_history (cfg : Cfg) (steps : List Step)
    (hsteps : ∀ st ∈ steps, st.journal = true)
    (s : Store) (hs : ((Sys.fresh cfg).run steps).store = some s) :
    s.cache.size = sumLen s.cache.items ∧ Sorted s.cache.items ∧ KeysLe s.cache.items s.st.last :=
  c15_accounting_exact cfg steps (fun st hst => Step.live_of_journal (hsteps st hst)) s hs

/-- (d) **C16, reads.** No item of `read a b` (any `a b`) or of `iter` on the
final system is `ReadItem.panic`. -/
theorem c16_read_no_panic_any_history_partial (cfg : Cfg) (steps : List Step)
    (hsteps : ∀ st ∈ steps, st.journal = true) (hwf : ∀ op ∈ stepOps steps, op.WF)
    (hpurge : purgesLegalC6N {} steps = true)
    (halive : ((Sys.fresh cfg).run steps).worker.pc ≠ .dead) :
    ∃ s, ((Sys.fresh cfg).run steps).store = some s ∧
      (∀ a b, ReadItem.panic ∉ (s.read ((Sys.fresh cfg).run steps).fs a b).1) ∧
      ReadItem.panic ∉ s.iter ((Sys.fresh cfg).run steps).fs := by
  obtain ⟨_, _, _, _, _, _, hC, _⟩ := c06_normalize_partial cfg steps hsteps hwf hpurge halive
  exact c16_read_no_panic_of_inv hC.1

/-- (e) **C02, clean restart.** The conclusion of `c02_clean_restart` for the
final system of any history when it is clean. -/
theorem c02_clean_restart_any_history_partial (cfg cfg' : Cfg) (steps : List Step) (s : Store)
    (hsteps : ∀ st ∈ steps, st.journal = true) (hwf : ∀ op ∈ stepOps steps, op.WF)
    (hpurge : purgesLegalC6N {} steps = true)
    (halive : ((Sys.fresh cfg).run steps).worker.pc ≠ .dead)
    (hs : ((Sys.fresh cfg).run steps).store = some s)
    (hq : ((Sys.fresh cfg).run steps).worker.quiet = true)
    (hp : s.pending = []) (hrem : s.removed = [])
    (hpost : ((Sys.fresh cfg).run steps).worker.postponed = []) :
    let r := (normalizeC6N {} steps).2
    let y := (Sys.fresh cfg).run steps
    let y1 := y.step .drop
    let y2 := y1.step (.openWith cfg')
    ∃ s', y2.store = some s' ∧
      ({ y1 with cfg := cfg' } : Sys).open.1 = .ok () ∧
      ({ y1 with cfg := cfg' } : Sys).open.2.2 = syncEvs y.fs.linkedIds ∧
      y1.fs = y.fs ∧ y2.fs = y.fs.syncAll y.fs.linkedIds ∧
      s'.st = s.st ∧ s'.st = r.state ∧ s'.log = s.log ∧
      s'.closed.map (·.offsets) ++ [s'.openOffsets] = s.closed.map (·.offsets) ++ [s.openOffsets] ∧
      s'.closed = s.closed ∧ s'.openOffsets = s.openOffsets ∧
      s'.pending = [] ∧ s'.removed = [] ∧ s'.cfg = cfg' ∧
      J y2 ∧ CSys y2 r ∧
      (∀ e ∈ ({ y1 with cfg := cfg' } : Sys).open.2.2, ∃ id, e = Ev.sync "o" id true) ∧
      ((∀ f ∈ y.fs, f.linked = true → f.durable = f.data.length) → y2.fs = y.fs) := by
  obtain ⟨k1, k2, k3, k4, _⟩ := c06_normalize_partial cfg steps hsteps hwf hpurge halive
  have := c02_clean_restart cfg cfg' (normalizeC6N {} steps).1 (normalizeC6N {} steps).2 s k1 k2 k3
    (by rw [k4]; exact halive) (by rw [k4]; exact hs) (by rw [k4]; exact hq) hp hrem
    (by rw [k4]; exact hpost)
  rw [k4] at this
  exact this

/-- (f) **C03, crash prefix.** `steps = a ++ b` (any split; think of `a` as the
history up to a flush). For every crash image `img` of the final directory and every
configuration `cfg'`: if `openStore cfg' img` succeeds with store `s'`, there are `n`
and `r'` such that the first `n` entry-level writes `W.take n` of the NORMALISED
history are accepted and reach `r'`, `s'.st = r'.state`, the index keys of `s'.log`
are those of `r'.entries`, and — if the journal end at the end of `a` is at or below
the acknowledged position `A` of the history — `n` is at least the number of
entry-level writes of the normalised `a`. -/
theorem c03_crash_prefix_any_history_partial (cfg cfg' : Cfg) (a b : List Step)
    (hsteps : ∀ st ∈ a ++ b, st.journal = true) (hwf : ∀ op ∈ stepOps (a ++ b), op.WF)
    (hpurge : purgesLegalC6N {} (a ++ b) = true)
    (halive : ((Sys.fresh cfg).run (a ++ b)).worker.pc ≠ .dead)
    (img : Fs) (hc : CrashImage ((Sys.fresh cfg).run (a ++ b)).fs img)
    (s' : Store) (w' : Worker) (fs' : Fs) (evs : List Ev)
    (hopen : openStore cfg' img = (.ok (s', w'), fs', evs)) :
    let W := expandOps {} (stepOps (normalizeC6N {} (a ++ b)).1)
    let A := (Sys.fresh cfg).ackRun (a ++ b) 0
    ∃ n r', RefLog.run {} (W.take n) = some r' ∧ s'.st = r'.state ∧
      logKeys s'.log = entKeys r'.entries ∧
      (∀ s1, ((Sys.fresh cfg).run a).store = some s1 → s1.openEnd ≤ A →
        (expandOps {} (stepOps (normalizeC6N {} a).1)).length ≤ n) := by
  intro W A
  obtain ⟨k1, k2, k3, k4, _, k6, _⟩ := c06_normalize_partial cfg (a ++ b) hsteps hwf hpurge halive
  -- the prefix `a`
  have hja : ∀ st ∈ a, st.journal = true := fun st hst => hsteps st (List.mem_append_left _ hst)
  have hjb : ∀ st ∈ b, st.journal = true := fun st hst => hsteps st (List.mem_append_right _ hst)
  have hwfa : ∀ op ∈ stepOps a, op.WF := by
    intro op hop; apply hwf; rw [stepOps_append]; exact List.mem_append_left _ hop
  have hpa : purgesLegalC6N {} a = true := by
    rw [purgesLegal_append_C6N, Bool.and_eq_true] at hpurge; exact hpurge.1
  have halivea : ((Sys.fresh cfg).run a).worker.pc ≠ .dead := by
    intro hdead
    apply halive
    have : (Sys.fresh cfg).run (a ++ b) = ((Sys.fresh cfg).run a).run b := by
      simp only [Sys.run, List.foldl_append]
    rw [this]
    exact Sys.run_dead b _ hjb hdead
  obtain ⟨_, _, _, ka, _⟩ := c06_normalize_partial cfg a hja hwfa hpa halivea
  have hsplit : (normalizeC6N {} (a ++ b)).1 =
      (normalizeC6N {} a).1 ++ (normalizeC6N (normalizeC6N {} a).2 b).1 := by
    rw [normalize_append_C6N]
  rw [hsplit] at k1 k2 k3 k4 k6
  have := c03_crash_prefix cfg cfg' (normalizeC6N {} a).1 (normalizeC6N (normalizeC6N {} a).2 b).1
    (normalizeC6N {} (a ++ b)).2 k1 k2 k3 (by rw [k4]; exact halive) img (by rw [k4]; exact hc)
    s' w' fs' evs hopen
  rw [k6, ka, ← hsplit] at this
  exact this

/-! ### Non-vacuity -/

/-- A history with a rejected vote, a batch with an accepted prefix and a
rejected tail, a purge with index u64::MAX (refused), and a legal purge. -/
def c06NormalExample : List Step :=
  [.call (.saveVote ⟨3, 1⟩), .call (.saveVote ⟨2, 9⟩), .flush none,
   .call (.append [(⟨1, 0⟩, [1]), (⟨1, 1⟩, [2]), (⟨1, 5⟩, [3]), (⟨1, 6⟩, [4])]),
   .call (.purge ⟨1, 2 ^ 64 - 1⟩), .workerIdle, .call (.commit ⟨1, 1⟩),
   .call (.purge ⟨1, 0⟩), .call (.truncate 7), .flush (some 4)]

/-- Its normal form: the rejected vote, the refused purge and the rejected
`truncate` are gone, the batch is cut after its second entry. -/
example : normalizeC6N {} c06NormalExample =
    ([.call (.saveVote ⟨3, 1⟩), .flush none,
      .call (.append [(⟨1, 0⟩, [1]), (⟨1, 1⟩, [2])]), .workerIdle, .call (.commit ⟨1, 1⟩),
      .call (.purge ⟨1, 0⟩), .flush (some 4)],
     { vote := some ⟨3, 1⟩, last := some ⟨1, 1⟩, committed := some ⟨1, 1⟩,
       purged := some ⟨1, 0⟩, entries := [(⟨1, 1⟩, [2])] }) := by decide +kernel

/-- The hypotheses of `c06_normalize_partial` hold for it … -/
example : (∀ st ∈ c06NormalExample, st.journal = true) ∧ purgesLegalC6N {} c06NormalExample = true ∧
    ((Sys.fresh {}).run c06NormalExample).worker.pc ≠ .dead := by decide +kernel

example : ∀ op ∈ stepOps c06NormalExample, op.WF := by
  intro op hop
  simp only [c06NormalExample, stepOps, List.mem_cons, List.not_mem_nil, or_false] at hop
  rcases hop with h | h | h | h | h | h | h <;> subst h <;>
    simp [Op.WF, LogId.WF, bytesWF, U64, U32]

/-- … and both histories give the same store, files and worker. -/
example :
    ((Sys.fresh {}).run (normalizeC6N {} c06NormalExample).1).store =
      ((Sys.fresh {}).run c06NormalExample).store ∧
    ((Sys.fresh {}).run (normalizeC6N {} c06NormalExample).1).fs =
      ((Sys.fresh {}).run c06NormalExample).fs ∧
    ((Sys.fresh {}).run (normalizeC6N {} c06NormalExample).1).worker =
      ((Sys.fresh {}).run c06NormalExample).worker ∧
    ((Sys.fresh {}).run c06NormalExample).store.map (·.st) =
      some (normalizeC6N {} c06NormalExample).2.state := by decide +kernel

/-- Why the purge hypothesis cannot be dropped: a purge that names a live index
with another term is not Raft-legal (`RefLog.run` is `none`), the reference log
does not reject it (so the normalisation keeps it), and the store applies it —
removing the call would change the store's state. -/
example :
    let steps : List Step := [.call (.append [(⟨1, 0⟩, [1])]), .call (.purge ⟨2, 0⟩)]
    purgesLegalC6N {} steps = false ∧ (normalizeC6N {} steps).1 = steps ∧
    RefLog.run {} (stepOps steps) = none ∧
    ((Sys.fresh {}).run steps).store.map (·.st.purged) = some (some ⟨2, 0⟩) ∧
    ((Sys.fresh {}).run [.call (.append [(⟨1, 0⟩, [1])])]).store.map (·.st.purged) = some none := by
  decide +kernel

end RaftLog
