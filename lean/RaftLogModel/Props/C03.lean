import RaftLogModel.Model.Sys
