/-
C03 — Crash safety.

If the process or the machine dies at any moment, then whenever the store can be
opened afterwards its state and entries are exactly those produced by some
prefix of the writes issued before the crash, and that prefix includes every
write issued before any flush whose callback had reported success.

**Crash model** (`Proofs/Crash.lean`). `CrashImage fs img`: `img` consists of
exactly the linked files of `fs`, in the same order, same ids, all linked, all
durable; per file `f ↦ g` independently (`CutOf f g`) either
`g.data = f.data.take k` with `f.durable ≤ k ≤ |f.data|` (a process crash is
`k = |f.data|` for every file: `procCrash`; the worst power failure is
`k = f.durable`: `powerCrash`), or `g.data = f.data.take b ++ zeros m` with
`f.durable ≤ b`, `b` a record boundary of the parse of `f.data` (`parseBounds`)
and `1 ≤ m ≤ |f.data| - b`.

**What is proved** (details at each theorem; helper files `Proofs/Crash*.lean`).

* S1 `c03_file_is_record_prefix`: under the journal invariant `J y`, every chunk
  file is a byte prefix of the encodings of the chunk's records, every cut and
  every zero-filled tail of it parses to a prefix of the records
  (`ParsesToPrefix`), and so does the image of the file in every crash image.
* S2 `c03_recovered_is_journal_prefix_partial`: for `CSys y r` with no chunk
  removal outstanding (`s.removed = []`, `toRemove = []`), if `openStore cfg' img`
  succeeds on a crash image, the state and index map it returns are the replay
  of a prefix `P` of the retained journal; `P` contains every journal prefix
  that ends at or below any position `D` up to which the live chunk files are
  durable. `c03_removals_needed`: without the hypothesis the statement is false
  (a chunk dropped from the chunk table but not yet unlinked is still loaded).
* S3 `c03_prefix_is_a_history_prefix_partial`: along every legal history, every prefix
  `P` of the retained journal that ends at or beyond the marker `B` (the journal
  end right after the last purge that dropped chunks; `0` if none) mirrors the
  first `N0 + cntW P` entry-level writes of the history (`expandOps`): same
  state, same index keys. (`cntW` counts the records that are writes, i.e. not
  rotation heads; `N0` = the writes whose records went with the dropped chunks.)
* S4 `c03_acked_is_durable`: along every legal history with arbitrary worker
  outcomes, every live chunk file is written and durable up to the acknowledged
  position `A` (`Sys.ackRun`: the largest `upto` of a `write` request whose
  batch was finished by a successful sync of the newest file), or to its end.
  `c03_ack_only_raises`, `c03_flush_sends_journal_end`, `c03_acked_flush`: a
  positive callback of a flush means `A` ≥ the journal end at that flush.
* FINAL `c03_crash_prefix_partial`: S2 + S3 + S4 combined, with the part that is
  not proved as the explicit hypothesis `hBA : B ≤ A` (the purge record that made
  the dropped chunks obsolete was acknowledged before their files were
  unlinked) and the state hypothesis "no removal outstanding". Its lower bound
  is in writes: the recovered prefix contains every write issued before a point
  of the history whose journal end is at or below `A`.
  `c03_acked_writes_survive_partial`: the same with the callback: every write
  issued before a flush whose callback reported success is in the prefix.
  `c03_crash_prefix_no_drop`, `c03_acked_writes_survive_no_drop`: no hypothesis
  of either kind is needed as long as no purge has dropped a chunk yet
  (`s.jstart = 0`: the oldest live chunk is chunk 0) — these two are complete.
-/
import RaftLogModel.Proofs.CrashAckSys
namespace RaftLog

/-! ### The crash model, spelled out -/

theorem c03_cutOf_spec (f g : File) : CutOf f g ↔
    (g.id = f.id ∧ g.linked = true ∧ g.durable = g.data.length ∧
      ((∃ k, f.durable ≤ k ∧ k ≤ f.data.length ∧ g.data = f.data.take k) ∨
       (∃ b m, f.durable ≤ b ∧ b ∈ parseBounds f.data ∧ 1 ≤ m ∧ m ≤ f.data.length - b ∧
          g.data = f.data.take b ++ List.replicate m 0))) := Iff.rfl

/-- A crash image has the linked files of the directory, in order: same ids,
all linked, and `open` sees the same chunk ids. -/
theorem c03_crashImage_files {fs img : Fs} (h : CrashImage fs img) :
    img.map (·.id) = (fs.filter (fun f => f.linked)).map (·.id) ∧
    (∀ g ∈ img, g.linked = true) ∧ img.linkedIds = fs.linkedIds ∧
    (∀ id f, fs.find id = some f → f.linked = true → ∃ g, img.find id = some g ∧ CutOf f g) :=
  ⟨h.ids, h.all_linked, h.linkedIds, fun _ _ hf hl => h.find hf hl⟩

/-- A process crash and the worst power failure are crash images. -/
theorem c03_crash_images_exist (fs : Fs) (h : ∀ f ∈ fs, f.durable ≤ f.data.length) :
    CrashImage fs (procCrash fs) ∧ CrashImage fs (powerCrash fs) :=
  ⟨procCrash_image fs h, powerCrash_image fs h⟩

/-- What `ParsesToPrefix rs data` says: `parseChunk data` returns the first `j`
records of `rs` and ends cleanly (nothing left), with `eof` at a torn record, or
with `eof`/`invalid` at a run of zero bytes. -/
theorem c03_parsesToPrefix_spec (rs : List Record) (data : Bytes) : ParsesToPrefix rs data ↔
    ∃ j, j ≤ rs.length ∧ ∃ e rest,
      parseChunk data = ((rs.take j).map (fun r => (r, (encRecord r).length)), e, rest) ∧
      data = encAll (rs.take j) ++ rest ∧
      ((e = .clean ∧ rest = []) ∨
       (e = .eof ∧ rest ≠ [] ∧ j < rs.length ∧ ∃ r t, r.WF ∧ t ≠ [] ∧ rest ++ t = encRecord r) ∨
       (∃ m, 1 ≤ m ∧ rest = List.replicate m 0 ∧ e = if m < 28 then .eof else .invalid)) := Iff.rfl

/-! ### S1 -/

/-- **S1.** Under the journal invariant (worker alive, any control state, any
pending bytes): for every live chunk (closed or open) with record list `rs`,
the bytes of its file are a byte prefix of `encAll rs`; every cut of the file
and every zero-filled tail from a record boundary parses to a prefix of `rs`
(`clean` at a boundary, `eof` inside a record, `eof`/`invalid` with an all-zero
rest); and the image of the file in every crash image parses to a prefix of
`rs`. -/
theorem c03_file_is_record_prefix {y : Sys} (h : J y) :
    ∃ s, y.store = some s ∧ ∀ offs ∈ s.chunks, ∃ rs, AllWF rs ∧ (∃ st rest, rs = .state st :: rest) ∧
      offsetsFrom (offs.headD 0) (recSizes rs) = offs ∧
      (∃ t, fdata y.fs (offs.headD 0) ++ t = encAll rs) ∧
      (∀ k, ParsesToPrefix rs ((fdata y.fs (offs.headD 0)).take k)) ∧
      (∀ b ∈ parseBounds (fdata y.fs (offs.headD 0)), ∀ m, 1 ≤ m →
        ParsesToPrefix rs ((fdata y.fs (offs.headD 0)).take b ++ List.replicate m 0)) ∧
      (∀ img, CrashImage y.fs img → ∀ f, y.fs.find (offs.headD 0) = some f → f.linked = true →
        ∃ g, img.find (offs.headD 0) = some g ∧ CutOf f g ∧ ParsesToPrefix rs g.data ∧
          ParsesLo rs f.durable g.data) := by
  obtain ⟨s, hs, _, hj⟩ := h
  refine ⟨s, hs, fun offs ho => ?_⟩
  obtain ⟨rs, h1, h2, h3, t, h4⟩ := hj.file_prefix_C3 offs ho
  refine ⟨rs, h1, h2, h3, ⟨t, h4⟩, fun k => take_parses_C3 h1 h4 k,
    fun b hb m hm => zeros_parses_C3 h1 h4 hb hm, ?_⟩
  intro img himg f hf hl
  obtain ⟨g, hg1, hg2⟩ := himg.find hf hl
  rw [fdata_of_find_C3 hf] at h4
  exact ⟨g, hg1, hg2, cutOf_parses_C3 h1 h4 hg2, cutOf_parses_lo_C3 h1 h4 hg2⟩

/-- `ParsesLo rs lo data`: the parse yields `rs.take j` and every record of `rs`
that ends within the first `lo` bytes is among them. -/
theorem c03_parsesLo_spec (rs : List Record) (lo : Nat) (data : Bytes) : ParsesLo rs lo data ↔
    ∃ j, j ≤ rs.length ∧ (∃ e rest, parseChunk data = (sized (rs.take j), e, rest)) ∧
      ∀ i, i ≤ rs.length → (encAll (rs.take i)).length ≤ lo → i ≤ j := Iff.rfl

/-! ### S2 -/

/-- What the witnesses `jc`, `jo` of `RepG` are: the record lists of the closed
chunks and of the open chunk, whose encodings are the chunks' bytes (file ++ in
flight ++ pending) and which replay to the state and the index map of the store
(see `c02_replay_spec`). They are unique. -/
theorem c03_witnesses_spec {s : Store} {fs : Fs} {w : Worker} {jc : List (Closed × List Record)}
    {jo : List Record} (g : RepG s fs w jc jo) :
    jc.map (·.1) = s.closed ∧
    (∀ p ∈ jc, AllWF p.2 ∧ (∃ st rest, p.2 = .state st :: rest) ∧
      offsetsFrom p.1.id (recSizes p.2) = p.1.offsets ∧
      fdata fs p.1.id ++ w.inflight p.1.id ++ (if s.openId = p.1.id then s.pending else [])
        = encAll p.2) ∧
    (AllWF jo ∧ (∃ st rest, jo = .state st :: rest) ∧
      offsetsFrom s.openId (recSizes jo) = s.openOffsets ∧
      fdata fs s.openId ++ w.inflight s.openId ++ s.pending = encAll jo) ∧
    stRunO (allOps s jc jo) {} = some s.st ∧ idxRun (allOps s jc jo) [] = some s.log ∧
    (allOps s jc jo).map (·.r) = flatRecs jc ++ jo ∧
    allOps s jc jo = flatOps jc ++ chunkOps s.openId jo := by
  refine ⟨g.closedEq, fun p hp => ?_, ?_, g.flat_run.1, g.flat_run.2, allOps_map_r s jc jo, rfl⟩
  · obtain ⟨k1, k2, k3, k4⟩ := g.closedRecs p hp
    exact ⟨k1, k2, k3, k4⟩
  · obtain ⟨k1, k2, k3, k4⟩ := g.openRecs
    simp only [chunkBytes, if_true] at k4
    exact ⟨k1, k2, k3, k4⟩

/-- **S2.** `y` satisfies the replay and linked-files invariants (`CSys y r`:
reachable states do, `c02_replay_invariant`), no chunk removal is outstanding,
`img` is a crash image of its directory, `cfg'` is any configuration (both
`truncate` settings). If `openStore cfg' img` returns `ok` with store `s'`,
there is a prefix `P` of the retained journal (`allOps s jc jo`: the records
`flatRecs jc ++ jo` with chunk id and segment) whose replay from the empty state
and index map gives exactly `s'.st` and `s'.log`. Moreover, if every live chunk
file is durable up to the global offset `D` (or to the chunk's end), `P`
contains every journal prefix `Q` that ends at or below `D`. -/
theorem c03_recovered_is_journal_prefix_partial {y : Sys} {r : RefLog} (h : CSys y r) (s : Store)
    (hs : y.store = some s) (hrem : s.removed = []) (htr : y.worker.toRemove = [])
    (img : Fs) (hc : CrashImage y.fs img) (cfg' : Cfg)
    (s' : Store) (w' : Worker) (fs' : Fs) (evs : List Ev)
    (hopen : openStore cfg' img = (.ok (s', w'), fs', evs)) :
    ∃ jc jo, RepG s y.fs y.worker jc jo ∧
      ∀ D, (∀ p ∈ liveChunksC3 s jc jo, ∀ f, y.fs.find p.1.id = some f →
          min (encAll p.2).length (D - p.1.id) ≤ f.durable) →
      ∃ P, P <+: allOps s jc jo ∧ P.map (·.r) <+: flatRecs jc ++ jo ∧
        stRun (P.map (·.r)) {} = some s'.st ∧ idxRun P [] = some s'.log ∧
        ∀ Q, Q <+: allOps s jc jo → s.jstart + sizeSum Q ≤ D → Q <+: P := by
  obtain ⟨⟨s0, hs0, hd, hinv⟩, ⟨s1, hs1, hli⟩⟩ := h
  rw [hs] at hs0 hs1; cases hs0; cases hs1
  obtain ⟨jc, jo, g, _, _⟩ := hinv.rep
  refine ⟨jc, jo, g, fun D hD => ?_⟩
  have hlinked := linked_of_no_removals_C3 hli hinv.j hrem htr
  obtain ⟨P, hP, q1, q2, q3⟩ := crash_open_prefix_C3 g hinv.j hli hlinked hc cfg' D hD hopen
  refine ⟨P, hP, ?_, q1, q2, q3⟩
  rw [← allOps_map_r s jc jo]
  obtain ⟨t, ht⟩ := hP
  exact ⟨t.map (·.r), by rw [← ht, List.map_append]⟩

/-- S2 with `D = 0` (no durability assumption): just the prefix. -/
theorem c03_recovered_is_journal_prefix_partial' {y : Sys} {r : RefLog} (h : CSys y r) (s : Store)
    (hs : y.store = some s) (hrem : s.removed = []) (htr : y.worker.toRemove = [])
    (img : Fs) (hc : CrashImage y.fs img) (cfg' : Cfg)
    (s' : Store) (w' : Worker) (fs' : Fs) (evs : List Ev)
    (hopen : openStore cfg' img = (.ok (s', w'), fs', evs)) :
    ∃ jc jo, RepG s y.fs y.worker jc jo ∧
      ∃ P, P <+: allOps s jc jo ∧ P.map (·.r) <+: flatRecs jc ++ jo ∧
        stRun (P.map (·.r)) {} = some s'.st ∧ idxRun P [] = some s'.log := by
  obtain ⟨jc, jo, g, hD⟩ := c03_recovered_is_journal_prefix_partial h s hs hrem htr img hc cfg' s' w' fs'
    evs hopen
  obtain ⟨P, h1, h2, h3, h4, _⟩ := hD 0 (fun p _ f _ => by simp)
  exact ⟨jc, jo, g, P, h1, h2, h3, h4⟩

/-- The same in terms of `Sys.open` on the system that has the crash image as
its directory. -/
theorem c03_recovered_sys_open {y : Sys} {r : RefLog} (h : CSys y r) (s : Store)
    (hs : y.store = some s) (hrem : s.removed = []) (htr : y.worker.toRemove = [])
    (img : Fs) (hc : CrashImage y.fs img) (cfg' : Cfg)
    (hok : (({ fs := img, cfg := cfg' } : Sys).open).1 = .ok ()) :
    ∃ s', (({ fs := img, cfg := cfg' } : Sys).open).2.1.store = some s' ∧
      ∃ jc jo, RepG s y.fs y.worker jc jo ∧
      ∃ P, P <+: allOps s jc jo ∧ stRun (P.map (·.r)) {} = some s'.st ∧ idxRun P [] = some s'.log := by
  simp only [Sys.open, Bool.false_eq_true, if_false] at hok ⊢
  cases ho : openStore cfg' img with
  | mk res rest =>
    obtain ⟨fs', evs⟩ := rest
    cases res with
    | err k => rw [ho] at hok; cases hok
    | panic m => rw [ho] at hok; cases hok
    | ok sw =>
      obtain ⟨s', w'⟩ := sw
      obtain ⟨jc, jo, g, P, h1, _, h3, h4⟩ :=
        c03_recovered_is_journal_prefix_partial' h s hs hrem htr img hc cfg' s' w' fs' evs ho
      exact ⟨s', rfl, jc, jo, g, P, h1, h3, h4⟩

/-- **Why "no removal outstanding" is a hypothesis of S2.** Chunks hold three
records. After two appends, a flush, and `purge (1,1)` the chunk table holds
only the new chunk 84, whose journal is `[State _, PurgeUpto (1,1)]`; chunk 0 is
on the removal list but its file is still linked. In the worst power failure the
purge record (still pending) is lost; `open` loads chunk 0 and the head of chunk
84 and reports the two entries — while every prefix of the retained journal
replays to an empty index map. (The state is recovered correctly; the full
journal including the not-yet-unlinked chunk is what `open` replays.) -/
def c03RemovalsExample : Sys :=
  (Sys.fresh { maxRecords := 3 }).run
    [.call (.append [(⟨1, 0⟩, [1]), (⟨1, 1⟩, [2])]), .flush none, .workerIdle, .call (.purge ⟨1, 1⟩)]

theorem c03_removals_needed :
    c03RemovalsExample.store.map (fun s => (s.closed, s.openId, s.removed)) = some ([], 84, [0]) ∧
    (c03RemovalsExample.fs.map (fun f => (f.id, f.linked))) = [(0, true), (84, true)] ∧
    -- the records of the only live chunk: file ++ pending
    ((parseChunk (fdata c03RemovalsExample.fs 84 ++
        (c03RemovalsExample.store.map (·.pending)).getD [])).1.map (·.1)).drop 1
      = [.purgeUpto ⟨1, 1⟩] ∧
    -- `open` on the power-failure image: two entries
    (match (openStore {} (powerCrash c03RemovalsExample.fs)).1 with
      | .ok (s', _) => s'.log.map (fun e => (e.1, e.2.id))
      | _ => []) = [(0, ⟨1, 0⟩), (1, ⟨1, 1⟩)] ∧
    -- every prefix of a journal `[State x, PurgeUpto (1,1)]` replays to an empty index map
    (∀ x c1 g1 c2 g2, ∀ P, P <+: [(⟨.state x, c1, g1⟩ : JOp), ⟨.purgeUpto ⟨1, 1⟩, c2, g2⟩] →
      idxRun P [] = some []) := by
  refine ⟨by decide +kernel, by decide +kernel, by decide +kernel, by decide +kernel, ?_⟩
  intro x c1 g1 c2 g2 P hP
  have h2 : P = [] ∨ P = [⟨.state x, c1, g1⟩] ∨ P = [⟨.state x, c1, g1⟩, ⟨.purgeUpto ⟨1, 1⟩, c2, g2⟩] := by
    rcases List.prefix_concat_iff.mp (show P <+: [_] ++ [_] from hP) with e | e
    · exact Or.inr (Or.inr e)
    · rcases List.prefix_concat_iff.mp (show P <+: [] ++ [_] from e) with e' | e'
      · exact Or.inr (Or.inl e')
      · exact Or.inl (List.prefix_nil.mp e')
  rcases h2 with e | e | e <;> subst e <;> rfl

/-! ### S3 -/

/-- The entry-level expansion of a history reaches the same reference log. -/
theorem c03_expansion_reaches_same (ops : List Op) (r r' : RefLog) (h : r.run ops = some r') :
    r.run (expandOps r ops) = some r' := run_expandOps_C3 ops r r' h

/-- **S3.** Along every legal history (calls legal and accepted by the
reference log, well-formed, small; flushes; worker steps with any outcome;
`workerIdle`; `drain`; worker alive at the end): with `W` the entry-level
expansion of the history (`Op.append es` = one write per entry, a no-op purge =
none) and `B` the marker (`Sys.markRun`), for the witnesses `jc`, `jo` of the
replay invariant there is `N0` with `|W| = N0 + cntW (journal)` such that every
prefix `P` of the retained journal that ends at or beyond `B` mirrors the first
`N0 + cntW P` writes: they are accepted by the reference log and reach `r'` with
`stRun P = r'.state` and index keys `= r'.entries` keys. Rotation heads are no
writes (`cntW` does not count them). `B` is 0 or a record boundary. -/
theorem c03_prefix_is_a_history_prefix_partial (cfg : Cfg) (steps : List Step) (r : RefLog)
    (hsteps : ∀ st ∈ steps, st.journal = true)
    (hlegal : RefLog.run {} (stepOps steps) = some r)
    (hwf : ∀ op ∈ stepOps steps, op.WF ∧ op.small)
    (halive : ((Sys.fresh cfg).run steps).worker.pc ≠ .dead) :
    let y := (Sys.fresh cfg).run steps
    let W := expandOps {} (stepOps steps)
    let B := (Sys.fresh cfg).markRun steps 0
    RefLog.run {} W = some r ∧
    ∃ s jc jo N0, y.store = some s ∧ RepG s y.fs y.worker jc jo ∧
      W.length = N0 + cntW (allOps s jc jo) ∧ (B = 0 ∨ 0 < s.jstart) ∧ B ≤ s.openEnd ∧
      (B = 0 ∨ ∃ Q, Q <+: allOps s jc jo ∧ B = s.jstart + sizeSum Q) ∧
      ∀ P, P <+: allOps s jc jo → B ≤ s.jstart + sizeSum P →
        ∃ r', RefLog.run {} (W.take (N0 + cntW P)) = some r' ∧
          stRun (P.map (·.r)) {} = some r'.state ∧
          ∃ l, idxRun P [] = some l ∧ logKeys l = entKeys r'.entries := by
  intro y W B
  obtain ⟨⟨s, hs, _, hi⟩, _⟩ := reach_HSys cfg steps r hsteps hlegal hwf halive
  obtain ⟨jc, jo, g, N0, hN, hmir, hbd, _⟩ := hi.hist
  exact ⟨hi.run, s, jc, jo, N0, hs, g, hN, hi.mark, hi.markLe, hbd, hmir⟩

/-- **Why S3 is restricted to prefixes that end at or beyond the marker.** In
the state of `c03_removals_needed` (chunk 0 dropped by `purge (1,1)`, marker
`B = 146` = the journal end after that call, retained journal
`[State x, PurgeUpto (1,1)]` starting at 84), the prefix `[State x]` (it ends at
118 < 146) replays to the state `x` with `last = (1,1)` and an EMPTY index map;
no prefix of the three writes `append (1,0)`, `append (1,1)`, `purge (1,1)`
reaches a reference log with that state and no entries: "every prefix of the
retained journal mirrors a prefix of the writes" is false once chunks were
dropped. (The entries live in the dropped chunk; they are purged by the record
that follows.) -/
theorem c03_marker_needed :
    (Sys.fresh { maxRecords := 3 }).markRun
      [.call (.append [(⟨1, 0⟩, [1]), (⟨1, 1⟩, [2])]), .flush none, .workerIdle, .call (.purge ⟨1, 1⟩)] 0
      = 146 ∧
    c03RemovalsExample.store.map (fun s => s.jstart) = some 84 ∧
    (parseChunk (fdata c03RemovalsExample.fs 84)).1.map (·.1)
      = [.state ⟨none, some ⟨1, 1⟩, none, none, none⟩] ∧
    (∀ n, (RefLog.run {} ((expandOps {} (stepOps
        [.call (.append [(⟨1, 0⟩, [1]), (⟨1, 1⟩, [2])]), .flush none, .workerIdle,
         .call (.purge ⟨1, 1⟩)])).take n)).map (fun r' => (r'.state, entKeys r'.entries))
      ≠ some (⟨none, some ⟨1, 1⟩, none, none, none⟩, [])) := by
  refine ⟨by decide +kernel, by decide +kernel, by decide +kernel, ?_⟩
  intro n
  have h3 : expandOps {} (stepOps
      [.call (.append [(⟨1, 0⟩, [1]), (⟨1, 1⟩, [2])]), .flush none, .workerIdle, .call (.purge ⟨1, 1⟩)])
      = [.append [(⟨1, 0⟩, [1])], .append [(⟨1, 1⟩, [2])], .purge ⟨1, 1⟩] := by decide +kernel
  rw [h3]
  match n with
  | 0 => decide +kernel
  | 1 => decide +kernel
  | 2 => decide +kernel
  | n + 3 =>
    have : ([Op.append [(⟨1, 0⟩, [1])], .append [(⟨1, 1⟩, [2])], .purge ⟨1, 1⟩] : List Op).take (n + 3)
        = [.append [(⟨1, 0⟩, [1])], .append [(⟨1, 1⟩, [2])], .purge ⟨1, 1⟩] := by simp
    rw [this]
    decide +kernel

/-- The marker stays 0 as long as no purge has dropped a chunk: then every
prefix of the journal mirrors a prefix of the writes. -/
theorem c03_marker_zero_of_no_drop (cfg : Cfg) (steps : List Step) (r : RefLog) (s : Store)
    (hsteps : ∀ st ∈ steps, st.journal = true)
    (hlegal : RefLog.run {} (stepOps steps) = some r)
    (hwf : ∀ op ∈ stepOps steps, op.WF ∧ op.small)
    (halive : ((Sys.fresh cfg).run steps).worker.pc ≠ .dead)
    (hs : ((Sys.fresh cfg).run steps).store = some s) (h0 : s.jstart = 0) :
    (Sys.fresh cfg).markRun steps 0 = 0 := by
  obtain ⟨⟨s0, hs0, _, hi⟩, _⟩ := reach_HSys cfg steps r hsteps hlegal hwf halive
  rw [hs] at hs0; cases hs0
  rcases hi.mark with e | e
  · exact e
  · omega

/-! ### S4 -/

/-- **S4, the invariant.** Along every legal history, with arbitrary worker
outcomes (short writes, failed syncs) as long as the worker is alive at the end:
with `A` the acknowledged position (`Sys.ackRun`: raised only by a successful
sync of the newest file, to the largest `upto` of the batch), `A` is at or below
the journal end, and every live chunk `offs` (id `offs.head`, end `lastOff offs`)
is WRITTEN up to `A` or to its end — none of the journal bytes below `A` is
still in flight or pending — and its file is DURABLE up to `A` or to its end. -/
theorem c03_acked_is_durable (cfg : Cfg) (steps : List Step) (r : RefLog)
    (hsteps : ∀ st ∈ steps, st.journal = true)
    (hlegal : RefLog.run {} (stepOps steps) = some r)
    (hwf : ∀ op ∈ stepOps steps, op.WF ∧ op.small)
    (halive : ((Sys.fresh cfg).run steps).worker.pc ≠ .dead) :
    let y := (Sys.fresh cfg).run steps
    let A := (Sys.fresh cfg).ackRun steps 0
    ∃ s, y.store = some s ∧ A ≤ s.openEnd ∧
      (∀ offs ∈ s.chunks,
        min (lastOff offs - offs.headD 0) (A - offs.headD 0) ≤ (fdata y.fs (offs.headD 0)).length) ∧
      (∀ offs ∈ s.chunks, ∀ f, y.fs.find (offs.headD 0) = some f →
        min (lastOff offs - offs.headD 0) (A - offs.headD 0) ≤ f.durable) := by
  intro y A
  obtain ⟨⟨s, hs, _, hi⟩, _⟩ := reach_HSys cfg steps r hsteps hlegal hwf halive
  exact ⟨s, hs, hi.dur.a2, hi.dur.dw, hi.dur.dd⟩

/-- How the acknowledged position moves: only worker steps move it, never back;
a worker step raises it only when it is a successful sync of the newest file
(`syncNew`, outcome not `eio`), to the largest `upto` of the batch in hand. -/
theorem c03_ack_only_raises (c : WCtx) (out : Outcome) (A : Nat) :
    A ≤ c.ackStep out A ∧
    (c.ackStep out A ≠ A → ∃ b t, c.w.pc = .syncNew b t ∧ out ≠ .eio ∧ c.ackStep out A = maxUpto b) ∧
    (∀ y : Sys, ∀ st, A ≤ y.ackStep st A) ∧ (∀ y : Sys, ∀ steps, A ≤ y.ackRun steps A) := by
  refine ⟨c.le_ackStep out A, ?_, fun y st => y.le_ackStep st A, fun y steps => Sys.le_ackRun steps y A⟩
  intro hne
  unfold WCtx.ackStep at hne ⊢
  split at hne
  · rename_i b t hpc
    by_cases ho : out = .eio
    · rw [if_pos ho] at hne; exact absurd rfl hne
    · rw [if_neg ho] at hne
      refine ⟨b, t, hpc, ho, ?_⟩
      simp only [ho, if_false]
      rcases Nat.le_total A (maxUpto b) with h | h
      · exact Nat.max_eq_right h
      · exact absurd (Nat.max_eq_left h) hne
  · exact absurd rfl hne

/-- A positive callback `i` newly emitted by a worker step: the step is a
successful sync of the newest file and the acknowledged position is afterwards
at or beyond the `upto` of a request of the batch that carries callback `i`. -/
theorem c03_positive_callback_acks (c : WCtx) (out : Outcome) (i A : Nat) (hw : c.w.WF)
    (hnew : Ev.cb i true ∉ c.evs) (h : Ev.cb i true ∈ (c.step out).evs) :
    ∃ b t r, c.w.pc = .syncNew b t ∧ out ≠ .eio ∧ r ∈ b ∧ r.cbId = some i ∧
      r.upto ≤ c.ackStep out A := by
  obtain ⟨b, t, r, hpc, ho, hr, hi⟩ := ack_step_C3 c out i hw hnew h
  refine ⟨b, t, r, hpc, ho, hr, hi, ?_⟩
  simp only [WCtx.ackStep, hpc, ho, if_false]
  exact Nat.le_trans (le_maxUpto hr) (Nat.le_max_right _ _)

/-- The request `Sys.flush cb` sends carries `upto` = the journal end at the
call (and the flush's callback). -/
theorem c03_flush_sends_journal_end (y : Sys) (s : Store) (cb : Option Nat) (hs : y.store = some s)
    (hd : y.worker.pc ≠ .dead) :
    (y.step (.flush cb)).worker =
      (y.worker.push (.write s.openEnd s.pending cb ::
        (if s.removed.isEmpty then [] else [.removeChunks s.removed]))).settle := by
  show (y.flush cb).2.1.worker = _
  rw [Sys.flush_eq y cb s hs hd, flush_effQ_C3]

/-- **A positive callback means the flush is covered.** History
`pre ++ [flush (some i)] ++ mid ++ [st] ++ post` of journal steps from a fresh
store; no other flush before `st` uses callback `i`; the worker thread emits
`Ev.cb i true` during step `st` (a `worker out` or `workerIdle` step). Then the
acknowledged position at the end of the history is at or beyond the journal end
at the time of that flush — so by `c03_acked_is_durable` every record journalled
before the flush is durable, and by `c03_crash_prefix_partial` it is in the
prefix every crash recovery returns. -/
theorem c03_acked_flush (cfg : Cfg) (pre mid post : List Step) (i : Nat) (st : Step) (s1 : Store)
    (hpre : ∀ x ∈ pre, x.journal = true) (hmid : ∀ x ∈ mid, x.journal = true)
    (hfresh : ∀ x ∈ pre ++ mid, x ≠ .flush (some i))
    (hs1 : ((Sys.fresh cfg).run pre).store = some s1)
    (halive : ((Sys.fresh cfg).run (pre ++ [.flush (some i)] ++ mid)).worker.pc ≠ .dead)
    (hcb : Ev.cb i true ∈ ((Sys.fresh cfg).run (pre ++ [.flush (some i)] ++ mid)).stepEvs st) :
    s1.openEnd ≤ (Sys.fresh cfg).ackRun (pre ++ [.flush (some i)] ++ mid ++ [st] ++ post) 0 :=
  acked_flush_C3 cfg pre mid post i st s1 hpre hmid hfresh hs1 halive hcb

/-! ### FINAL -/

/-- **C03, combined (partial).** The history is split as `pre ++ post` (any
split; think of `pre` as the history up to a flush). The final state is reached
from a freshly opened store by a legal history (calls legal and accepted by the
reference log, well-formed, small; flushes; worker steps of any outcome;
`workerIdle`; `drain`), the worker is alive, and no chunk removal is outstanding
(`s.removed = []`, the worker has nothing to unlink). `img` is any crash image of
the directory, `cfg'` any configuration. If `openStore cfg' img` returns `ok`
with store `s'`, then there are `n` and a reference log `r'` such that

* the first `n` entry-level writes of the history are accepted and reach `r'`;
* `s'.st = r'.state` and the index keys of `s'.log` are those of `r'.entries`;
* (lower bound, in writes) if the journal end at the end of `pre` is at or below
  the acknowledged position `A`, then `n` is at least the number of entry-level
  writes issued during `pre`: the recovered prefix contains all of them;
* (lower bound, in journal positions) `n ≥ N0 + cntW Q` for every prefix `Q` of
  the retained journal that ends at or below `A`.

Not proved, hence a hypothesis: `hBA : B ≤ A` — the marker (journal end right
after the last purge that dropped chunks) is acknowledged. In the model chunk
files are unlinked only after the flush that followed the purge was synced, so
`B ≤ A` should hold whenever no removal is outstanding; the invariant that says
so is missing. See `c03_crash_prefix_no_drop` for histories without dropped
chunks, where it is not needed. -/
theorem c03_crash_prefix_partial (cfg cfg' : Cfg) (pre post : List Step) (r : RefLog) (s : Store)
    (hsteps : ∀ st ∈ pre ++ post, st.journal = true)
    (hlegal : RefLog.run {} (stepOps (pre ++ post)) = some r)
    (hwf : ∀ op ∈ stepOps (pre ++ post), op.WF ∧ op.small)
    (halive : ((Sys.fresh cfg).run (pre ++ post)).worker.pc ≠ .dead)
    (hs : ((Sys.fresh cfg).run (pre ++ post)).store = some s)
    (hrem : s.removed = []) (htr : ((Sys.fresh cfg).run (pre ++ post)).worker.toRemove = [])
    (hBA : (Sys.fresh cfg).markRun (pre ++ post) 0 ≤ (Sys.fresh cfg).ackRun (pre ++ post) 0)
    (img : Fs) (hc : CrashImage ((Sys.fresh cfg).run (pre ++ post)).fs img)
    (s' : Store) (w' : Worker) (fs' : Fs) (evs : List Ev)
    (hopen : openStore cfg' img = (.ok (s', w'), fs', evs)) :
    let y := (Sys.fresh cfg).run (pre ++ post)
    let W := expandOps {} (stepOps (pre ++ post))
    let A := (Sys.fresh cfg).ackRun (pre ++ post) 0
    ∃ n r', RefLog.run {} (W.take n) = some r' ∧ s'.st = r'.state ∧
      logKeys s'.log = entKeys r'.entries ∧
      (∀ s1, ((Sys.fresh cfg).run pre).store = some s1 → s1.openEnd ≤ A →
        (expandOps {} (stepOps pre)).length ≤ n) ∧
      ∃ jc jo N0, RepG s y.fs y.worker jc jo ∧ W.length = N0 + cntW (allOps s jc jo) ∧
        ∀ Q, Q <+: allOps s jc jo → s.jstart + sizeSum Q ≤ A → N0 + cntW Q ≤ n := by
  intro y W A
  obtain ⟨s1, hs1, h⟩ := reach_HSys_at cfg pre post r hsteps hlegal hwf halive
  obtain ⟨n, r', k1, k2, k3, k4, k5⟩ := crash_prefix_core_C3 h hs hrem htr hBA hc cfg' hopen
  refine ⟨n, r', k1, k2, k3, ?_, k5⟩
  intro s1' hs1' hle
  rw [hs1] at hs1'; cases hs1'
  exact k4 hle

/-- **C03 for histories that have not dropped a chunk yet** (the oldest live
chunk is chunk 0): no further hypothesis. Whenever `open` succeeds on a crash
image, the recovered state and index keys are those of the reference log after
the first `n` entry-level writes, and `n` covers every write issued before a
point of the history whose journal end is at or below the acknowledged position. -/
theorem c03_crash_prefix_no_drop (cfg cfg' : Cfg) (pre post : List Step) (r : RefLog) (s : Store)
    (hsteps : ∀ st ∈ pre ++ post, st.journal = true)
    (hlegal : RefLog.run {} (stepOps (pre ++ post)) = some r)
    (hwf : ∀ op ∈ stepOps (pre ++ post), op.WF ∧ op.small)
    (halive : ((Sys.fresh cfg).run (pre ++ post)).worker.pc ≠ .dead)
    (hs : ((Sys.fresh cfg).run (pre ++ post)).store = some s)
    (h0 : s.jstart = 0)
    (img : Fs) (hc : CrashImage ((Sys.fresh cfg).run (pre ++ post)).fs img)
    (s' : Store) (w' : Worker) (fs' : Fs) (evs : List Ev)
    (hopen : openStore cfg' img = (.ok (s', w'), fs', evs)) :
    let y := (Sys.fresh cfg).run (pre ++ post)
    let W := expandOps {} (stepOps (pre ++ post))
    let A := (Sys.fresh cfg).ackRun (pre ++ post) 0
    ∃ n r', RefLog.run {} (W.take n) = some r' ∧ s'.st = r'.state ∧
      logKeys s'.log = entKeys r'.entries ∧
      (∀ s1, ((Sys.fresh cfg).run pre).store = some s1 → s1.openEnd ≤ A →
        (expandOps {} (stepOps pre)).length ≤ n) ∧
      ∃ jc jo N0, RepG s y.fs y.worker jc jo ∧ W.length = N0 + cntW (allOps s jc jo) ∧
        ∀ Q, Q <+: allOps s jc jo → sizeSum Q ≤ A → N0 + cntW Q ≤ n := by
  intro y W A
  have h := reach_HSys cfg (pre ++ post) r hsteps hlegal hwf halive
  have hB := c03_marker_zero_of_no_drop cfg (pre ++ post) r s hsteps hlegal hwf halive hs h0
  obtain ⟨⟨s0, hs0, _, hi⟩, ⟨s1, hs1, hli⟩, _, _⟩ := h
  rw [hs] at hs0 hs1; cases hs0; cases hs1
  obtain ⟨hrem, htr⟩ := no_removals_of_jstart_zero_C3 hli h0
  obtain ⟨n, r', k1, k2, k3, k4, jc, jo, N0, g, hN, hlow⟩ :=
    c03_crash_prefix_partial cfg cfg' pre post r s hsteps hlegal hwf halive hs hrem htr
      (by rw [hB]; exact Nat.zero_le _) img hc s' w' fs' evs hopen
  exact ⟨n, r', k1, k2, k3, k4, jc, jo, N0, g, hN, fun Q hQ hle => hlow Q hQ (by rw [h0]; omega)⟩

/-- **C03 with the callback.** History
`pre ++ [flush (some i)] ++ mid ++ [st] ++ post`; no other flush before `st` uses
callback `i`; the worker thread emits `Ev.cb i true` during step `st`. Then every
successful `open` on a crash image of the final directory recovers the state and
index keys of the reference log after the first `n` entry-level writes, where `n`
is at least the number of writes issued before that flush (`pre`). (Hypotheses
as in `c03_crash_prefix_partial`.) -/
theorem c03_acked_writes_survive_partial (cfg cfg' : Cfg) (pre mid post : List Step) (i : Nat) (st : Step)
    (r : RefLog) (s : Store)
    (hsteps : ∀ x ∈ pre ++ ([.flush (some i)] ++ mid ++ [st] ++ post), x.journal = true)
    (hlegal : RefLog.run {} (stepOps (pre ++ ([.flush (some i)] ++ mid ++ [st] ++ post))) = some r)
    (hwf : ∀ op ∈ stepOps (pre ++ ([.flush (some i)] ++ mid ++ [st] ++ post)), op.WF ∧ op.small)
    (halive : ((Sys.fresh cfg).run (pre ++ ([.flush (some i)] ++ mid ++ [st] ++ post))).worker.pc ≠ .dead)
    (hfresh : ∀ x ∈ pre ++ mid, x ≠ .flush (some i))
    (hcb : Ev.cb i true ∈ ((Sys.fresh cfg).run (pre ++ [.flush (some i)] ++ mid)).stepEvs st)
    (hs : ((Sys.fresh cfg).run (pre ++ ([.flush (some i)] ++ mid ++ [st] ++ post))).store = some s)
    (hrem : s.removed = [])
    (htr : ((Sys.fresh cfg).run (pre ++ ([.flush (some i)] ++ mid ++ [st] ++ post))).worker.toRemove = [])
    (hBA : (Sys.fresh cfg).markRun (pre ++ ([.flush (some i)] ++ mid ++ [st] ++ post)) 0
      ≤ (Sys.fresh cfg).ackRun (pre ++ ([.flush (some i)] ++ mid ++ [st] ++ post)) 0)
    (img : Fs)
    (hc : CrashImage ((Sys.fresh cfg).run (pre ++ ([.flush (some i)] ++ mid ++ [st] ++ post))).fs img)
    (s' : Store) (w' : Worker) (fs' : Fs) (evs : List Ev)
    (hopen : openStore cfg' img = (.ok (s', w'), fs', evs)) :
    let W := expandOps {} (stepOps (pre ++ ([.flush (some i)] ++ mid ++ [st] ++ post)))
    ∃ n r', RefLog.run {} (W.take n) = some r' ∧ s'.st = r'.state ∧
      logKeys s'.log = entKeys r'.entries ∧ (expandOps {} (stepOps pre)).length ≤ n := by
  intro W
  obtain ⟨n, r', k1, k2, k3, k4, _⟩ :=
    c03_crash_prefix_partial cfg cfg' pre ([.flush (some i)] ++ mid ++ [st] ++ post) r s hsteps hlegal hwf
      halive hs hrem htr hBA img hc s' w' fs' evs hopen
  refine ⟨n, r', k1, k2, k3, ?_⟩
  -- the worker is alive at the end of `pre ++ [flush] ++ mid`, the store is open after `pre`
  have hall : pre ++ ([.flush (some i)] ++ mid ++ [st] ++ post)
      = (pre ++ [.flush (some i)] ++ mid) ++ ([st] ++ post) := by simp
  have hj2 : ∀ x ∈ [st] ++ post, x.journal = true := fun x hx =>
    hsteps x (by rw [hall]; exact List.mem_append_right _ hx)
  have halive2 : ((Sys.fresh cfg).run (pre ++ [.flush (some i)] ++ mid)).worker.pc ≠ .dead := by
    intro hdead
    apply halive
    rw [hall]
    have : (Sys.fresh cfg).run ((pre ++ [.flush (some i)] ++ mid) ++ ([st] ++ post))
        = ((Sys.fresh cfg).run (pre ++ [.flush (some i)] ++ mid)).run ([st] ++ post) := by
      simp [Sys.run, List.foldl_append]
    rw [this]
    exact Sys.run_dead _ _ hj2 hdead
  have hpre : ∀ x ∈ pre, x.journal = true := fun x hx => hsteps x (List.mem_append_left _ hx)
  have hmid : ∀ x ∈ mid, x.journal = true := fun x hx =>
    hsteps x (by rw [hall]; exact List.mem_append_left _ (List.mem_append_right _ hx))
  have hsome : ((Sys.fresh cfg).run pre).store.isSome = true :=
    Sys.run_store_isSome (fun x hx => journal_keepsStore_C3 (hpre x hx)) (Sys.fresh_store_isSome cfg)
  cases hs1 : ((Sys.fresh cfg).run pre).store with
  | none => rw [hs1] at hsome; cases hsome
  | some s1 =>
    apply k4 s1 hs1
    have := c03_acked_flush cfg pre mid post i st s1 hpre hmid hfresh hs1 halive2 hcb
    have e : pre ++ [.flush (some i)] ++ mid ++ [st] ++ post
        = pre ++ ([.flush (some i)] ++ mid ++ [st] ++ post) := by simp
    rw [e] at this
    exact this

/-- No chunk dropped yet (`s.jstart = 0`): nothing is scheduled for removal and
the marker is 0. -/
theorem c03_no_drop_facts (cfg : Cfg) (steps : List Step) (r : RefLog) (s : Store)
    (hsteps : ∀ st ∈ steps, st.journal = true)
    (hlegal : RefLog.run {} (stepOps steps) = some r)
    (hwf : ∀ op ∈ stepOps steps, op.WF ∧ op.small)
    (halive : ((Sys.fresh cfg).run steps).worker.pc ≠ .dead)
    (hs : ((Sys.fresh cfg).run steps).store = some s) (h0 : s.jstart = 0) :
    s.removed = [] ∧ ((Sys.fresh cfg).run steps).worker.toRemove = [] ∧
      (Sys.fresh cfg).markRun steps 0 = 0 := by
  have hB := c03_marker_zero_of_no_drop cfg steps r s hsteps hlegal hwf halive hs h0
  obtain ⟨_, ⟨s1, hs1, hli⟩, _, _⟩ := reach_HSys cfg steps r hsteps hlegal hwf halive
  rw [hs] at hs1; cases hs1
  obtain ⟨hrem, htr⟩ := no_removals_of_jstart_zero_C3 hli h0
  exact ⟨hrem, htr, hB⟩

/-- **C03 with the callback, for histories that have not dropped a chunk** —
no unproved hypothesis. History `pre ++ [flush (some i)] ++ mid ++ [st] ++ post`
of legal journal steps from a freshly opened store, worker alive at the end, the
oldest live chunk still chunk 0; callback `i` is used by no other flush before
`st`, and the worker thread emits `Ev.cb i true` during step `st`. Then for every
crash image `img` of the final directory and every configuration `cfg'`: if
`openStore cfg' img` succeeds with store `s'`, then `s'.st` and the index keys of
`s'.log` are those of the reference log after the first `n` entry-level writes of
the history, for some `n` that is at least the number of writes issued before
that flush. -/
theorem c03_acked_writes_survive_no_drop (cfg cfg' : Cfg) (pre mid post : List Step) (i : Nat)
    (st : Step) (r : RefLog) (s : Store)
    (hsteps : ∀ x ∈ pre ++ ([.flush (some i)] ++ mid ++ [st] ++ post), x.journal = true)
    (hlegal : RefLog.run {} (stepOps (pre ++ ([.flush (some i)] ++ mid ++ [st] ++ post))) = some r)
    (hwf : ∀ op ∈ stepOps (pre ++ ([.flush (some i)] ++ mid ++ [st] ++ post)), op.WF ∧ op.small)
    (halive : ((Sys.fresh cfg).run (pre ++ ([.flush (some i)] ++ mid ++ [st] ++ post))).worker.pc ≠ .dead)
    (hfresh : ∀ x ∈ pre ++ mid, x ≠ .flush (some i))
    (hcb : Ev.cb i true ∈ ((Sys.fresh cfg).run (pre ++ [.flush (some i)] ++ mid)).stepEvs st)
    (hs : ((Sys.fresh cfg).run (pre ++ ([.flush (some i)] ++ mid ++ [st] ++ post))).store = some s)
    (h0 : s.jstart = 0)
    (img : Fs)
    (hc : CrashImage ((Sys.fresh cfg).run (pre ++ ([.flush (some i)] ++ mid ++ [st] ++ post))).fs img)
    (s' : Store) (w' : Worker) (fs' : Fs) (evs : List Ev)
    (hopen : openStore cfg' img = (.ok (s', w'), fs', evs)) :
    let W := expandOps {} (stepOps (pre ++ ([.flush (some i)] ++ mid ++ [st] ++ post)))
    ∃ n r', RefLog.run {} (W.take n) = some r' ∧ s'.st = r'.state ∧
      logKeys s'.log = entKeys r'.entries ∧ (expandOps {} (stepOps pre)).length ≤ n := by
  obtain ⟨hrem, htr, hB⟩ := c03_no_drop_facts cfg _ r s hsteps hlegal hwf halive hs h0
  exact c03_acked_writes_survive_partial cfg cfg' pre mid post i st r s hsteps hlegal hwf halive hfresh hcb
    hs hrem htr (by rw [hB]; exact Nat.zero_le _) img hc s' w' fs' evs hopen

/-! ### Non-vacuity -/

/-- A history with a chunk rotation (chunks hold four records), a flush whose
callback is acknowledged, then a `commit` whose record is only partly written
(a short write of 5 of its 28 bytes, not synced) and an `append` that is still
in the pending buffer: an unflushed tail. -/
def c03Example : List Step :=
  [ .call (.saveVote ⟨1, 7⟩),
    .call (.append [(⟨1, 0⟩, [1, 2, 3]), (⟨1, 1⟩, [4])]),
    .flush (some 7),
    .workerIdle,
    .call (.commit ⟨1, 0⟩),
    .flush none,
    .worker .ok,
    .worker (.short 5),
    .call (.append [(⟨1, 2⟩, [5, 6])]) ]

/-- The hypotheses of `c03_crash_prefix_no_drop` (any split) and of
`c03_acked_writes_survive_no_drop` hold for it: the steps are of
the kinds covered, the ops legal, well-formed and small, the worker alive, the
oldest live chunk is chunk 0. Two chunk files: chunk 0 (114 bytes, all durable)
and chunk 114 (55 bytes written, 50 durable: its head); 34 bytes are pending.
The acknowledged position is 164 = the journal end at the flush. -/
example :
    (∀ st ∈ c03Example, st.journal = true) ∧
    (RefLog.run {} (stepOps c03Example)).isSome = true ∧
    (∀ op ∈ stepOps c03Example, op.WF ∧ op.small) ∧
    ((Sys.fresh { maxRecords := 4 }).run c03Example).worker.pc ≠ .dead ∧
    (∃ s, ((Sys.fresh { maxRecords := 4 }).run c03Example).store = some s ∧ s.jstart = 0 ∧
      s.closed.map Closed.id = [0] ∧ s.openId = 114 ∧ s.openEnd = 226 ∧ s.pending.length = 34) ∧
    ((Sys.fresh { maxRecords := 4 }).run c03Example).fs.map
      (fun f => (f.id, f.data.length, f.durable, f.linked)) = [(0, 114, 114, true), (114, 55, 50, true)] ∧
    (Sys.fresh { maxRecords := 4 }).ackRun c03Example 0 = 164 ∧
    (Sys.fresh { maxRecords := 4 }).markRun c03Example 0 = 0 := by
  refine ⟨by decide, by decide +kernel, ?_, by decide +kernel, ⟨_, rfl, by decide +kernel, by decide +kernel,
    by decide +kernel, by decide +kernel, by decide +kernel⟩, by decide +kernel, by decide +kernel,
    by decide +kernel⟩
  intro op hop
  simp only [c03Example, stepOps, List.mem_cons, List.not_mem_nil, or_false] at hop
  rcases hop with h | h | h | h <;> subst h <;>
    simp [Op.WF, Op.small, LogId.WF, bytesWF, smallId, U64, U32]

/-- Three crash images of its directory — a process crash (the torn `commit`
record survives as 5 bytes), the worst power failure (chunk 114 cut to its 50
durable bytes), and a power failure that leaves 3 zero bytes after the record
boundary 50 of chunk 114 — are crash images. -/
example :
    CrashImage ((Sys.fresh { maxRecords := 4 }).run c03Example).fs
      (cutCrash ((Sys.fresh { maxRecords := 4 }).run c03Example).fs [(114, 0), (55, 0)]) ∧
    CrashImage ((Sys.fresh { maxRecords := 4 }).run c03Example).fs
      (cutCrash ((Sys.fresh { maxRecords := 4 }).run c03Example).fs [(114, 0), (50, 0)]) ∧
    CrashImage ((Sys.fresh { maxRecords := 4 }).run c03Example).fs
      (cutCrash ((Sys.fresh { maxRecords := 4 }).run c03Example).fs [(114, 0), (50, 3)]) :=
  ⟨cutCrash_image _ _ (by decide +kernel), cutCrash_image _ _ (by decide +kernel),
    cutCrash_image _ _ (by decide +kernel)⟩

/-- What `open` recovered: state and index keys. -/
def c03View (x : Res (Store × Worker)) : Option (RState × List (Nat × LogId)) :=
  match x with
  | .ok (s', _) => some (s'.st, s'.log.map (fun e => (e.1, e.2.id)))
  | _ => none

def c03IsEof (x : Res (Store × Worker)) : Bool :=
  match x with
  | .err .eof => true
  | _ => false

/-- ... and `open` (default configuration, `truncate = true`) succeeds on each of
them and returns the state and index keys of the reference log after the first
three entry-level writes `saveVote (1,7)`, `append (1,0)`, `append (1,1)` — the
writes before the acknowledged flush; the `commit` and the last `append` are
lost. With `truncate = false` the process-crash image is refused (`eof`). -/
example :
    (expandOps {} (stepOps c03Example)).length = 5 ∧
    (RefLog.run {} ((expandOps {} (stepOps c03Example)).take 3)).map
        (fun r' => (r'.state, entKeys r'.entries)) =
      some (⟨some ⟨1, 7⟩, some ⟨1, 1⟩, none, none, none⟩, [(0, ⟨1, 0⟩), (1, ⟨1, 1⟩)]) := by
  constructor <;> decide +kernel

example :
    c03View (openStore {} (cutCrash ((Sys.fresh { maxRecords := 4 }).run c03Example).fs
        [(114, 0), (55, 0)])).1 =
      some (⟨some ⟨1, 7⟩, some ⟨1, 1⟩, none, none, none⟩, [(0, ⟨1, 0⟩), (1, ⟨1, 1⟩)]) := by
  decide +kernel

example :
    c03View (openStore {} (cutCrash ((Sys.fresh { maxRecords := 4 }).run c03Example).fs
        [(114, 0), (50, 0)])).1 =
      some (⟨some ⟨1, 7⟩, some ⟨1, 1⟩, none, none, none⟩, [(0, ⟨1, 0⟩), (1, ⟨1, 1⟩)]) := by
  decide +kernel

example :
    c03View (openStore {} (cutCrash ((Sys.fresh { maxRecords := 4 }).run c03Example).fs
        [(114, 0), (50, 3)])).1 =
      some (⟨some ⟨1, 7⟩, some ⟨1, 1⟩, none, none, none⟩, [(0, ⟨1, 0⟩), (1, ⟨1, 1⟩)]) := by
  decide +kernel

example :
    c03IsEof (openStore { truncate := false }
      (cutCrash ((Sys.fresh { maxRecords := 4 }).run c03Example).fs [(114, 0), (55, 0)])).1 = true := by
  decide +kernel

/-- The hypotheses of `c03_acked_flush` hold for the same history: callback 7
is used by one flush only, and the `workerIdle` step after it emits
`Ev.cb 7 true`; the journal end at the flush is 164. -/
example :
    c03Example = [.call (.saveVote ⟨1, 7⟩), .call (.append [(⟨1, 0⟩, [1, 2, 3]), (⟨1, 1⟩, [4])])]
      ++ [.flush (some 7)] ++ [] ++ [.workerIdle] ++
      [.call (.commit ⟨1, 0⟩), .flush none, .worker .ok, .worker (.short 5),
       .call (.append [(⟨1, 2⟩, [5, 6])])] ∧
    (((Sys.fresh { maxRecords := 4 }).run
      [.call (.saveVote ⟨1, 7⟩), .call (.append [(⟨1, 0⟩, [1, 2, 3]), (⟨1, 1⟩, [4])])]).store.map
        Store.openEnd) = some 164 ∧
    Ev.cb 7 true ∈ ((Sys.fresh { maxRecords := 4 }).run
      ([.call (.saveVote ⟨1, 7⟩), .call (.append [(⟨1, 0⟩, [1, 2, 3]), (⟨1, 1⟩, [4])])]
        ++ [.flush (some 7)] ++ [])).stepEvs .workerIdle := by
  refine ⟨rfl, by decide +kernel, by decide +kernel⟩

end RaftLog
