/-
C13 — A directory is owned by at most one store or dump at a time.

The model of the lock is one flag (`flock(LOCK_EX|LOCK_NB)` on the `LOCK`
file, taken as the first action of both constructors and released when the
owner is dropped). Assumption (trusted, exercised by the `lockrace` monitor of
the harness with threads and processes): the kernel grants an exclusive
`flock` to at most one open file description at a time and releases it on
`unlock`/close. What is proved is the protocol on top of it.
-/
import RaftLogModel.Model.Sys
namespace RaftLog

/-- Steps of several would-be owners acting on one directory. -/
inductive LStep
  | sys (st : Step)
  | dumpOpen
  | dumpDrop
deriving Repr

def Sys.lstep (y : Sys) : LStep → Sys
  | .sys st => y.step st
  | .dumpOpen => y.dumpOpen.2
  | .dumpDrop => y.dumpDrop

/-- The lock is held exactly while there is an owner, and there is never a
store and a dump at the same time. -/
structure LockInv (y : Sys) : Prop where
  owner_locks : (y.store.isSome ∨ y.dump = true) → y.locked = true
  lock_owned : y.locked = true → (y.store.isSome ∨ y.dump = true)
  exclusive : ¬ (y.store.isSome ∧ y.dump = true)

/-- A refused `RaftLog::open` changes nothing at all: no file-system event, no
state change. -/
theorem c13_refused_open_is_noop (y : Sys) (h : y.locked = true) :
    y.open = (.err .locked, y, []) := by
  simp [Sys.open, h]

/-- A refused `Dump::new` changes nothing. -/
theorem c13_refused_dump_is_noop (y : Sys) (h : y.locked = true) :
    y.dumpOpen = (.err .locked, y) := by
  simp [Sys.dumpOpen, h]

/-- While one owner exists every other attempt is refused. -/
theorem c13_attempt_while_owned_refused (y : Sys) (hinv : LockInv y)
    (howned : y.store.isSome ∨ y.dump = true) :
    y.open.1 = .err .locked ∧ y.dumpOpen.1 = .err .locked ∧ y.open.2.1 = y ∧ y.dumpOpen.2 = y := by
  have hl := hinv.owner_locks howned
  simp [c13_refused_open_is_noop y hl, c13_refused_dump_is_noop y hl]

theorem openChunk_not_locked (cfg : Cfg) (id : Nat) (data : Bytes) :
    openChunk cfg id data ≠ .error .locked := by
  unfold openChunk
  dsimp only
  split
  · simp
  · split <;> simp
  · split <;> simp

theorem replay_not_locked (chunk : Nat) (rs : List Record) (offs : List Nat) (s : Store) :
    replay chunk rs offs s ≠ .err .locked := by
  induction rs generalizing offs s with
  | nil => simp [replay]
  | cons r rest ih =>
    match offs with
    | [] => simp [replay]
    | [_] => simp [replay]
    | o1 :: o2 :: os =>
      simp only [replay]
      cases h : s.smApply r chunk ⟨o1, o2 - o1⟩ with
      | ok s' => simp only; exact ih _ _
      | panic m => simp
      | err k =>
        simp only
        intro hk
        injection hk with hk
        subst hk
        unfold Store.smApply at h
        split at h
        · cases h
        · split at h
          · cases h
          · rename_i k' hk'
            injection h with h; subst h
            revert hk'
            cases r <;> simp [RState.apply, RState.updateVote, RState.append, RState.commit] <;>
              (repeat' split) <;> simp
          · cases h

theorem openLoop_not_locked (cfg : Cfg) (ids : List Nat) (a : OpenAcc) :
    (openLoop cfg ids a).1 ≠ .err .locked := by
  induction ids generalizing a with
  | nil => simp [openLoop]
  | cons id rest ih =>
    unfold openLoop
    dsimp only
    split
    · simp
    · split
      · simp
      · split
        · rename_i k hk
          simp only
          intro h
          injection h with h
          subst h
          exact openChunk_not_locked _ _ _ hk
        · split
          · rename_i k hk
            simp only
            intro h
            injection h with h
            subst h
            exact replay_not_locked _ _ _ _ hk
          · simp
          · split
            · simp
            · exact ih _

theorem openStore_not_locked (cfg : Cfg) (fs : Fs) : (openStore cfg fs).1 ≠ .err .locked := by
  unfold openStore
  dsimp only
  have h := openLoop_not_locked cfg fs.linkedIds { sm := emptyStore cfg, fs := fs }
  split
  · rename_i k a hk
    rw [hk] at h
    simpa using h
  · simp
  · split
    · split <;> simp
    · split <;> simp

theorem lockInv_init : LockInv ({} : Sys) :=
  ⟨by simp, by simp, by simp⟩

theorem lockInv_step (y : Sys) (st : LStep) (hinv : LockInv y) : LockInv (y.lstep st) := by
  cases st with
  | dumpOpen =>
    simp only [Sys.lstep, Sys.dumpOpen]
    by_cases hl : y.locked = true
    · simp [hl]; exact hinv
    · have hns : ¬ (y.store.isSome ∨ y.dump = true) := fun h => hl (hinv.owner_locks h)
      simp [hl]
      refine ⟨by simp, by simp, ?_⟩
      intro ⟨h1, _⟩; exact hns (Or.inl h1)
  | dumpDrop =>
    simp only [Sys.lstep, Sys.dumpDrop]
    by_cases hd : y.dump = true
    · simp [hd]
      have hns : y.store.isSome = false := by
        cases hs : y.store.isSome
        · rfl
        · exact absurd ⟨hs, hd⟩ hinv.exclusive
      refine ⟨?_, by simp, by simp⟩
      intro h; simp [hns] at h
    · simp [hd]; exact hinv
  | sys s =>
    cases s with
    | call op =>
      simp only [Sys.lstep, Sys.step, Sys.call]
      cases hs : y.store with
      | none => simp; exact hinv
      | some s0 =>
        have h1 := hinv.owner_locks (Or.inl (by simp [hs]))
        have h3 : y.dump = false := by
          cases hd : y.dump
          · rfl
          · exact absurd ⟨by simp [hs], hd⟩ hinv.exclusive
        refine ⟨fun _ => h1, fun _ => Or.inl (by simp), ?_⟩
        intro ⟨_, h⟩; simp [h3] at h
    | flush cb =>
      simp only [Sys.lstep, Sys.step, Sys.flush]
      cases hs : y.store with
      | none => simp; exact hinv
      | some s0 =>
        have h1 := hinv.owner_locks (Or.inl (by simp [hs]))
        have h3 : y.dump = false := by
          cases hd : y.dump
          · rfl
          · exact absurd ⟨by simp [hs], hd⟩ hinv.exclusive
        refine ⟨fun _ => h1, fun _ => Or.inl (by simp), ?_⟩
        intro ⟨_, h⟩; simp [h3] at h
    | worker out =>
      simp only [Sys.lstep, Sys.step, Sys.workerStep]
      cases hs : y.store with
      | none => simp; exact hinv
      | some s0 =>
        have h1 := hinv.owner_locks (Or.inl (by simp [hs]))
        have h3 : y.dump = false := by
          cases hd : y.dump
          · rfl
          · exact absurd ⟨by simp [hs], hd⟩ hinv.exclusive
        refine ⟨fun _ => h1, fun _ => Or.inl (by simp), ?_⟩
        intro ⟨_, h⟩; simp [h3] at h
    | workerIdle =>
      simp only [Sys.lstep, Sys.step, Sys.workerIdle]
      cases hs : y.store with
      | none => simp; exact hinv
      | some s0 =>
        have h1 := hinv.owner_locks (Or.inl (by simp [hs]))
        have h3 : y.dump = false := by
          cases hd : y.dump
          · rfl
          · exact absurd ⟨by simp [hs], hd⟩ hinv.exclusive
        refine ⟨fun _ => h1, fun _ => Or.inl (by simp), ?_⟩
        intro ⟨_, h⟩; simp [h3] at h
    | drain =>
      simp only [Sys.lstep, Sys.step, Sys.drain]
      cases hs : y.store with
      | none => simp; exact hinv
      | some s0 =>
        have h1 := hinv.owner_locks (Or.inl (by simp [hs]))
        have h3 : y.dump = false := by
          cases hd : y.dump
          · rfl
          · exact absurd ⟨by simp [hs], hd⟩ hinv.exclusive
        refine ⟨fun _ => h1, fun _ => Or.inl (by simp), ?_⟩
        intro ⟨_, h⟩; simp [h3] at h
    | drop =>
      simp only [Sys.lstep, Sys.step, Sys.dropStore]
      cases hs : y.store with
      | none => simp; exact hinv
      | some s0 =>
        have h3 : y.dump = false := by
          cases hd : y.dump
          · rfl
          · exact absurd ⟨by simp [hs], hd⟩ hinv.exclusive
        simp
        refine ⟨?_, by simp, by simp⟩
        intro h; simp [h3] at h
    | openWith cfg =>
      simp only [Sys.lstep, Sys.step]
      by_cases hl : y.locked = true
      · have : ({ y with cfg := cfg } : Sys).locked = true := hl
        rw [c13_refused_open_is_noop _ this]
        exact ⟨hinv.owner_locks, hinv.lock_owned, hinv.exclusive⟩
      · have hl' : y.locked = false := by simpa using hl
        have hns : ¬ (y.store.isSome ∨ y.dump = true) := fun h => hl (hinv.owner_locks h)
        have hd : y.dump = false := by
          cases hdd : y.dump
          · rfl
          · exact absurd (Or.inr hdd) hns
        have hstore : y.store = none := by
          cases hss : y.store
          · rfl
          · exact absurd (Or.inl (by simp [hss])) hns
        simp only [Sys.open, hl', Bool.false_eq_true, if_false]
        split
        · exact ⟨by intro _; rfl, by intro _; exact Or.inl (by simp), by simp [hd]⟩
        · refine ⟨?_, ?_, ?_⟩ <;> simp [hstore, hd, hl']
        · refine ⟨?_, ?_, ?_⟩ <;> simp [hstore, hd, hl']

/-- **At most one owner** in every reachable state, for every interleaving of
open / dump / drop / writes / worker steps. -/
theorem c13_at_most_one_owner (steps : List LStep) :
    LockInv (steps.foldl Sys.lstep {}) := by
  have : ∀ (y : Sys), LockInv y → LockInv (steps.foldl Sys.lstep y) := by
    induction steps with
    | nil => intro y h; exact h
    | cons st rest ih => intro y h; exact ih _ (lockInv_step y st h)
  exact this {} lockInv_init

/-- **Once the owner is dropped the lock is free** … -/
theorem c13_after_drop_unlocked (y : Sys) (hs : y.store.isSome) : (y.dropStore.1).locked = false := by
  simp only [Sys.dropStore]
  cases h : y.store with
  | none => simp [h] at hs
  | some s => simp

/-- … and an attempt on a free lock is never refused for the lock (it may
still fail for what it finds in the directory). -/
theorem c13_free_lock_not_refused (y : Sys) (h : y.locked = false) :
    y.open.1 ≠ .err .locked ∧ y.dumpOpen.1 = .ok () := by
  constructor
  · simp only [Sys.open, h, Bool.false_eq_true, if_false]
    -- `openStore` has no `locked` error: its error kinds come from the files
    generalize hx : openStore y.cfg y.fs = x
    obtain ⟨r, fs', evs⟩ := x
    cases r with
    | ok v => simp
    | panic m => simp
    | err k =>
      simp only
      intro hk
      injection hk with hk
      subst hk
      -- derive a contradiction: openStore never yields `.locked`
      have := openStore_not_locked y.cfg y.fs
      rw [hx] at this
      exact this rfl
  · simp [Sys.dumpOpen, h]

theorem c13_after_dump_drop_unlocked (y : Sys) (hd : y.dump = true) : y.dumpDrop.locked = false := by
  simp [Sys.dumpDrop, hd]

/-- Non-vacuity: a store is live, the second open is refused and leaves everything as it was. -/
example : ((Sys.fresh {}).open).1 = .err .locked := by decide

end RaftLog
