/-
C10 at the SYSTEM level (task C10S).

`Props/C10.lean` states what `parseChunk` / `Chunk::open` / `RaftLog::open` do with a torn or
zero-filled tail under explicit hypotheses about the directory (`Loads`, "the file is
`encAll rs ++ tail`", a replay hypothesis, a free id). Here those hypotheses are discharged for
the directories the system itself produces: histories from `Sys.fresh cfg` that end clean
(exactly the hypotheses of `c02_clean_restart`), and every clean system reachable through
histories, clean restarts and crash recoveries (`ReachLIFT`).

Throughout, `c` is the NEWEST linked chunk id (`fs.linkedIds = pre ++ [c]`), its file `f` is
`encAll rs` with `rs` well-formed and headed by a `State` record.

(A) `c10_sys_cut_newest` (+ `_inv`, `_reach`): the newest file is cut (`Fs.cutC10S`, the
    Driver's `fsop cut`) at ANY position `k` strictly inside record number `j ≥ 1`
    (`|encAll (rs.take j)| < k < |encAll (rs.take (j+1))|`).
    * `truncate = true`: `open` succeeds; the file is cut to `|encAll (rs.take j)|` bytes (event
      `trunc`, two syncs), a new chunk `c + |encAll (rs.take j)|` is created whose only record is
      the `State` record of the recovered state (the cut chunk stays closed; it is not reused),
      every other file keeps its bytes; the recovered state and index map are exactly those that
      `open` recovers from the directory whose newest file is cut at the record boundary
      `|encAll (rs.take j)|` (an undamaged shorter file, which `open` reuses).
    * `truncate = false`: `open` returns the error `eof`, having only synced the earlier chunks
      (D15); no byte of any file changes.
    EXCLUDED: `j = 0` (a cut inside the head `State` record: the newest chunk is then headless
    and the model removes it, fix D3 — see `openLoop_headless`); a cut exactly at a record
    boundary gives an undamaged shorter file (the reference directory of (A); `open` reuses it,
    nothing is truncated).

(B) `c10_sys_zero_tail_newest` (+ `_inv`, `_reach`): the newest file followed by `m ≥ 1` zero
    bytes (`Fs.zeroC10S c |f.data| m`, the Driver's `fsop zero`).
    * `truncate = true`: `open` succeeds, the file is cut back to its old contents, a new chunk
      `c + |f.data|` is created; the recovered state and index map are those of the store before
      the restart (`= rl.state`), the closed chunks are the old ones plus `c`.
    * `truncate = false`: `open` fails with `eof` (`m < 28`) or `invalid` (`m ≥ 28`), bytes
      untouched.
(B') `c10_sys_zero_from_boundary_inv` (+ `_reach`): more generally the file is overwritten with
    zeros from any record boundary `|encAll (rs.take j)|`, `j ≥ 1`, on.

(C) `c10_sys_zero_tail_recovered_accepts_partial`: PARTIAL. Only for case (B): the recovered
    store refines the same reference log on state and index keys, no file exists at or beyond
    its open end, and every record that passes the check all public calls go through
    (`StepOK`) is journalled successfully; in particular `saveVote` / `commit` calls and one
    `Append` record accepted by the reference log return `ok`. The batch `append` call, whole
    further histories, and case (A) are not covered (they need the C02 invariant `CSys` for the
    recovered system, which the crash-recovery theorems C05 provide only for crash images,
    i.e. cuts at or above the durable length).

Helpers: `Proofs/C10Sys.lean`.
-/
import RaftLogModel.Proofs.C10Sys
import RaftLogModel.Props.LiftRestart
namespace RaftLog

/-! ### The file operations and the frame condition -/

/-- What "file `c` is cut to `k` bytes" means: the Driver's `fsop cut c k`. -/
theorem c10_sys_cut_spec (fs : Fs) (c k : Nat) : fs.cutC10S c k = fs.truncate c k := rfl

/-- What "the bytes of file `c` from `b` on are replaced by `m` zeros" means: the Driver's
`fsop zero c b m`. With `b = |data|` this appends `m` zero bytes. -/
theorem c10_sys_zero_spec (fs : Fs) (c b m : Nat) :
    fs.zeroC10S c b m = fs.update c fun f =>
      { f with data := f.data.take b ++ List.replicate m 0, durable := min f.durable b } := rfl

/-- The frame condition used below: both lookups fail, or both give a file with the same id,
bytes and link flag (only the `durable` mark may differ). -/
theorem c10_sys_sameBytes_spec (a b : Option File) :
    sameBytesC10S a b ↔
      a.map (fun g => (g.id, g.data, g.linked)) = b.map (fun g => (g.id, g.data, g.linked)) :=
  Iff.rfl

/-! ### (A) The newest file cut inside a record -/

/-- The conclusion of (A) for a directory `fs` whose linked ids are `pre ++ [c]`, with `s` the
store before the restart. -/
def C10CutNewest (fs : Fs) (pre : List Nat) (c : Nat) (s : Store) : Prop :=
  ∃ f rs, fs.find c = some f ∧ f.linked = true ∧ f.data = encAll rs ∧ AllWF rs ∧
    (∃ st tl, rs = .state st :: tl) ∧
    ∀ j k, 1 ≤ j → (encAll (rs.take j)).length < k → k < (encAll (rs.take (j + 1))).length →
    ∃ stJ lJ,
      -- the damaged directory: file `c` holds the complete records `rs.take j` and a torn piece
      (fs.cutC10S c k).find c
        = some { f with data := (encAll rs).take k, durable := min f.durable k } ∧
      (∃ pfx, pfx ≠ [] ∧ (encAll rs).take k = encAll (rs.take j) ++ pfx) ∧
      -- reference: the newest file cut at the record boundary is undamaged; `open` reuses it
      (∀ cfg', ∃ s0 w0,
        openStore cfg' (fs.cutC10S c (encAll (rs.take j)).length)
          = (.ok (s0, w0), (fs.cutC10S c (encAll (rs.take j)).length).syncAll (pre ++ [c]),
              syncEvs (pre ++ [c])) ∧
        s0.st = stJ ∧ s0.log = lJ ∧ s0.closed = s.closed ∧
        s0.openOffsets = offsetsFrom c (sizes (rs.take j))) ∧
      -- truncation enabled
      (∀ cfg', cfg'.truncate = true → ∃ s' w' fs'',
        openStore cfg' (fs.cutC10S c k) = (.ok (s', w'), fs'',
          syncEvs pre ++ [.trunc "o" c (encAll (rs.take j)).length, .sync "o" c true,
            .sync "o" c true, .create "o" (c + (encAll (rs.take j)).length) true,
            .write "o" (c + (encAll (rs.take j)).length) (encRecord (.state stJ)) true]) ∧
        s'.st = stJ ∧ s'.log = lJ ∧
        s'.closed = s.closed ++ [⟨offsetsFrom c (sizes (rs.take j)), stJ⟩] ∧ s'.pending = [] ∧
        s'.openOffsets = [c + (encAll (rs.take j)).length,
          c + (encAll (rs.take j)).length + (encRecord (.state stJ)).length] ∧
        w'.files = [⟨c + (encAll (rs.take j)).length, stJ.last⟩] ∧
        fs''.find c = some { f with data := encAll (rs.take j),
                                    durable := (encAll (rs.take j)).length } ∧
        fs''.find (c + (encAll (rs.take j)).length)
          = some { id := c + (encAll (rs.take j)).length, data := encRecord (.state stJ),
                   durable := 0, linked := true } ∧
        ∀ id, id ≠ c → id ≠ c + (encAll (rs.take j)).length →
          sameBytesC10S (fs''.find id) (fs.find id)) ∧
      -- truncation disabled
      (∀ cfg', cfg'.truncate = false →
        openStore cfg' (fs.cutC10S c k)
          = (.err .eof, (fs.cutC10S c k).syncAll pre, syncEvs pre) ∧
        (∀ e ∈ syncEvs pre, ∃ id, e = Ev.sync "o" id true) ∧
        ∀ i, sameBytesC10S (((fs.cutC10S c k).syncAll pre).find i) ((fs.cutC10S c k).find i))

/-- (A), invariant form: `y` satisfies the C02 invariant `CSys y rl` and is clean. -/
theorem c10_sys_cut_newest_inv {y : Sys} {rl : RefLog} (h : CSys y rl) (hc : y.Clean)
    (pre : List Nat) (c : Nat) (hsplit : y.fs.linkedIds = pre ++ [c]) :
    ∃ s, y.store = some s ∧ s.st = rl.state ∧ C10CutNewest y.fs pre c s := by
  obtain ⟨f, rs, s, hs, hst, k1, k2, k3, k4, k5, _, k6⟩ := sys_torn_newestC10S h hc hsplit
  refine ⟨s, hs, hst, f, rs, k1, k2, k3, k4, k5, ?_⟩
  intro j k hj h1 h2
  have hne : rs.take j ≠ [] := by
    obtain ⟨st, tl, e⟩ := k5
    subst e
    cases j with
    | zero => omega
    | succ j' => simp
  obtain ⟨stJ, lJ, _, hg⟩ := k6 (rs.take j) (rs.drop j) (List.take_append_drop j rs).symm hne
  obtain ⟨r, pfx, _, hr, hcut, hpfx, _⟩ := take_insideC10S rs k4 j k h1 h2
  obtain ⟨_, gB, gC⟩ := hg (fun x => { x with data := x.data.take k, durable := min x.durable k })
    (fun _ => rfl) (fun _ => rfl)
  obtain ⟨gA, _, _⟩ := hg (fun x => { x with
      data := x.data.take (encAll (rs.take j)).length,
      durable := min x.durable (encAll (rs.take j)).length }) (fun _ => rfl) (fun _ => rfl)
  have hdk : ({ f with data := f.data.take k, durable := min f.durable k } : File).data
      = encAll (rs.take j) ++ pfx := by
    show f.data.take k = _
    rw [k3]; exact hcut
  refine ⟨stJ, lJ, ?_, ⟨pfx, hpfx.1, hcut⟩, ?_, ?_, ?_⟩
  · have := Fs.find_update_selfC10S y.fs k1
      (fun x => { x with data := x.data.take k, durable := min x.durable k }) (fun _ => rfl)
    rw [k3] at this
    exact this
  · intro cfg'
    obtain ⟨s0, w0, e1, e2, e3, e4, _, e6, _⟩ := gA
      (by show f.data.take _ = _; rw [k3]; exact encAll_take_boundaryC10S rs j) cfg'
    exact ⟨s0, w0, e1, e2, e3, e4, e6⟩
  · intro cfg' ht
    obtain ⟨t, ht1, ht2⟩ := hpfx.2
    obtain ⟨s', w', fs'', e⟩ := gB pfx hdk (Or.inl ⟨hpfx.1, r, t, hr, ht1, ht2⟩) cfg' ht
    exact ⟨s', w', fs'', e⟩
  · intro cfg' hf
    refine ⟨gC pfx .eof cfg' hdk ?_, syncEvs_isOpenSync pre, fun i => sameBytes_syncAllC10S _ _ _⟩
    rw [c10_cut_truncate cfg' c (fun x hx => k4 x (List.mem_of_mem_take hx)) hr hpfx, hf]
    rfl

/-- **C10 (A), the newest file cut inside a record, system level.** `y` is reached from a
freshly opened store by a history as in `c02_clean_restart` (journal steps; calls legal for the
reference log, well-formed and small; at the end the worker is alive and quiet, nothing
pending, no removal outstanding). Dropping the store does not change the files. Let `c` be the
newest linked chunk id. Then `C10CutNewest` holds: for every cut position strictly inside a
record other than the head record, `open` with truncation cuts the file to the end of the last
complete record, creates a fresh open chunk there and recovers exactly the state and index map
that `open` recovers from the directory cut at that record boundary; without truncation it
fails with `eof` and changes no byte. -/
theorem c10_sys_cut_newest (cfg : Cfg) (steps : List Step) (rl : RefLog) (s : Store)
    (hsteps : ∀ st ∈ steps, st.journal = true)
    (hlegal : RefLog.run {} (stepOps steps) = some rl)
    (hwf : ∀ op ∈ stepOps steps, op.WF ∧ op.small)
    (halive : ((Sys.fresh cfg).run steps).worker.pc ≠ .dead)
    (hs : ((Sys.fresh cfg).run steps).store = some s)
    (hq : ((Sys.fresh cfg).run steps).worker.quiet = true)
    (hp : s.pending = []) (hrem : s.removed = [])
    (hpost : ((Sys.fresh cfg).run steps).worker.postponed = [])
    (pre : List Nat) (c : Nat) :
    let y := (Sys.fresh cfg).run steps
    let fs := (y.step .drop).fs
    fs.linkedIds = pre ++ [c] →
    fs = y.fs ∧ s.st = rl.state ∧ C10CutNewest fs pre c s := by
  intro y fs hsplit
  have hC : CSys y rl := run_CSys steps _ {} rl (fresh_CSys cfg) hsteps hlegal hwf halive
  have hc : y.Clean := ⟨s, hs, hq, hp, hrem, hpost⟩
  obtain ⟨_, _, _, _, _, _, hfs, _⟩ := c02_restart_step y rl {} hC hc
  have hfs' : fs = y.fs := hfs
  rw [hfs'] at hsplit ⊢
  obtain ⟨s1, hs1, hst, hcut⟩ := c10_sys_cut_newest_inv hC hc pre c hsplit
  have : s1 = s := by
    have : some s1 = some s := hs1.symm.trans hs
    exact Option.some.inj this
  subst this
  exact ⟨rfl, hst, hcut⟩

/-- (A) for every reachable system (`ReachLIFT`: histories, clean restarts and crash
recoveries in any order) that is clean. -/
theorem c10_sys_cut_newest_reach {y : Sys} (h : ReachLIFT y) (hc : y.Clean)
    (pre : List Nat) (c : Nat) (hsplit : y.fs.linkedIds = pre ++ [c]) :
    ∃ s, y.store = some s ∧ C10CutNewest y.fs pre c s := by
  obtain ⟨_, ⟨rl, hC⟩, _⟩ := c11_journal_invariant_reach h
  obtain ⟨s, hs, _, hcut⟩ := c10_sys_cut_newest_inv hC hc pre c hsplit
  exact ⟨s, hs, hcut⟩

/-! ### (B) The newest file followed by zero bytes -/

/-- The conclusion of (B') for a directory `fs` whose linked ids are `pre ++ [c]`: the newest
file is overwritten with `m ≥ 1` zeros from the record boundary `|encAll (rs.take j)|` on
(`j ≥ 1`; `j ≥ |rs|`: the zeros are appended). -/
def C10ZeroNewest (fs : Fs) (pre : List Nat) (c : Nat) (s : Store) : Prop :=
  ∃ f rs, fs.find c = some f ∧ f.linked = true ∧ f.data = encAll rs ∧ AllWF rs ∧
    (∃ st tl, rs = .state st :: tl) ∧
    ∀ j m, 1 ≤ j → 1 ≤ m →
    ∃ stJ lJ, (rs.length ≤ j → stJ = s.st ∧ lJ = s.log) ∧
      (fs.zeroC10S c (encAll (rs.take j)).length m).find c
        = some { f with data := encAll (rs.take j) ++ List.replicate m 0,
                        durable := min f.durable (encAll (rs.take j)).length } ∧
      -- reference: the newest file cut at the record boundary is undamaged; `open` reuses it
      (∀ cfg', ∃ s0 w0,
        openStore cfg' (fs.cutC10S c (encAll (rs.take j)).length)
          = (.ok (s0, w0), (fs.cutC10S c (encAll (rs.take j)).length).syncAll (pre ++ [c]),
              syncEvs (pre ++ [c])) ∧
        s0.st = stJ ∧ s0.log = lJ ∧ s0.closed = s.closed ∧
        s0.openOffsets = offsetsFrom c (sizes (rs.take j))) ∧
      -- truncation enabled
      (∀ cfg', cfg'.truncate = true → ∃ s' w' fs'',
        openStore cfg' (fs.zeroC10S c (encAll (rs.take j)).length m) = (.ok (s', w'), fs'',
          syncEvs pre ++ [.trunc "o" c (encAll (rs.take j)).length, .sync "o" c true,
            .sync "o" c true, .create "o" (c + (encAll (rs.take j)).length) true,
            .write "o" (c + (encAll (rs.take j)).length) (encRecord (.state stJ)) true]) ∧
        s'.st = stJ ∧ s'.log = lJ ∧
        s'.closed = s.closed ++ [⟨offsetsFrom c (sizes (rs.take j)), stJ⟩] ∧ s'.pending = [] ∧
        s'.openOffsets = [c + (encAll (rs.take j)).length,
          c + (encAll (rs.take j)).length + (encRecord (.state stJ)).length] ∧
        w'.files = [⟨c + (encAll (rs.take j)).length, stJ.last⟩] ∧
        fs''.find c = some { f with data := encAll (rs.take j),
                                    durable := (encAll (rs.take j)).length } ∧
        fs''.find (c + (encAll (rs.take j)).length)
          = some { id := c + (encAll (rs.take j)).length, data := encRecord (.state stJ),
                   durable := 0, linked := true } ∧
        ∀ id, id ≠ c → id ≠ c + (encAll (rs.take j)).length →
          sameBytesC10S (fs''.find id) (fs.find id)) ∧
      -- truncation disabled
      (∀ cfg', cfg'.truncate = false →
        openStore cfg' (fs.zeroC10S c (encAll (rs.take j)).length m)
          = (.err (if m < 28 then .eof else .invalid),
              (fs.zeroC10S c (encAll (rs.take j)).length m).syncAll pre, syncEvs pre) ∧
        (∀ e ∈ syncEvs pre, ∃ id, e = Ev.sync "o" id true) ∧
        ∀ i, sameBytesC10S (((fs.zeroC10S c (encAll (rs.take j)).length m).syncAll pre).find i)
          ((fs.zeroC10S c (encAll (rs.take j)).length m).find i))

/-- (B'), invariant form. -/
theorem c10_sys_zero_from_boundary_inv {y : Sys} {rl : RefLog} (h : CSys y rl) (hc : y.Clean)
    (pre : List Nat) (c : Nat) (hsplit : y.fs.linkedIds = pre ++ [c]) :
    ∃ s, y.store = some s ∧ s.st = rl.state ∧ C10ZeroNewest y.fs pre c s := by
  obtain ⟨f, rs, s, hs, hst, k1, k2, k3, k4, k5, _, k6⟩ := sys_torn_newestC10S h hc hsplit
  refine ⟨s, hs, hst, f, rs, k1, k2, k3, k4, k5, ?_⟩
  intro j m hj hm
  have hne : rs.take j ≠ [] := by
    obtain ⟨st, tl, e⟩ := k5
    subst e
    cases j with
    | zero => omega
    | succ j' => simp
  obtain ⟨stJ, lJ, hfull, hg⟩ := k6 (rs.take j) (rs.drop j) (List.take_append_drop j rs).symm hne
  obtain ⟨_, gB, gC⟩ := hg (fun x => { x with
      data := x.data.take (encAll (rs.take j)).length ++ List.replicate m 0,
      durable := min x.durable (encAll (rs.take j)).length }) (fun _ => rfl) (fun _ => rfl)
  obtain ⟨gA, _, _⟩ := hg (fun x => { x with
      data := x.data.take (encAll (rs.take j)).length,
      durable := min x.durable (encAll (rs.take j)).length }) (fun _ => rfl) (fun _ => rfl)
  have htk : f.data.take (encAll (rs.take j)).length = encAll (rs.take j) := by
    rw [k3]; exact encAll_take_boundaryC10S rs j
  have hwf1 : AllWF (rs.take j) := fun x hx => k4 x (List.mem_of_mem_take hx)
  refine ⟨stJ, lJ, ?_, ?_, ?_, ?_, ?_⟩
  · intro hle
    exact hfull (List.drop_eq_nil_of_le hle)
  · have := Fs.find_update_selfC10S y.fs k1 (fun x => { x with
      data := x.data.take (encAll (rs.take j)).length ++ List.replicate m 0,
      durable := min x.durable (encAll (rs.take j)).length }) (fun _ => rfl)
    rw [htk] at this
    exact this
  · intro cfg'
    obtain ⟨s0, w0, e1, e2, e3, e4, _, e6, _⟩ := gA htk cfg'
    exact ⟨s0, w0, e1, e2, e3, e4, e6⟩
  · intro cfg' ht
    obtain ⟨s', w', fs'', e⟩ := gB (List.replicate m 0)
      (by show f.data.take _ ++ _ = _; rw [htk]) (Or.inr ⟨m, hm, rfl⟩) cfg' ht
    exact ⟨s', w', fs'', e⟩
  · intro cfg' hf
    refine ⟨gC (List.replicate m 0) _ cfg' (by show f.data.take _ ++ _ = _; rw [htk]) ?_,
      syncEvs_isOpenSync pre, fun i => sameBytes_syncAllC10S _ _ _⟩
    rw [c10_zero_truncate cfg' c hwf1 hm, hf]
    by_cases h28 : m < 28 <;> simp [h28]

/-- (B') for every reachable clean system. -/
theorem c10_sys_zero_from_boundary_reach {y : Sys} (h : ReachLIFT y) (hc : y.Clean)
    (pre : List Nat) (c : Nat) (hsplit : y.fs.linkedIds = pre ++ [c]) :
    ∃ s, y.store = some s ∧ C10ZeroNewest y.fs pre c s := by
  obtain ⟨_, ⟨rl, hC⟩, _⟩ := c11_journal_invariant_reach h
  obtain ⟨s, hs, _, hz⟩ := c10_sys_zero_from_boundary_inv hC hc pre c hsplit
  exact ⟨s, hs, hz⟩

/-- (B), invariant form: `m ≥ 1` zero bytes are appended to the newest file `c` (whose bytes
are `f.data`). With truncation `open` succeeds: the file is cut back to `f.data`, a fresh chunk
`c + |f.data|` is created, the recovered state and index map are those of the store before the
restart, the state is `rl.state`; without truncation `open` fails (`eof` for `m < 28`,
`invalid` otherwise) and changes no byte. -/
theorem c10_sys_zero_tail_newest_inv {y : Sys} {rl : RefLog} (h : CSys y rl) (hc : y.Clean)
    (pre : List Nat) (c : Nat) (hsplit : y.fs.linkedIds = pre ++ [c]) :
    ∃ s f, y.store = some s ∧ s.st = rl.state ∧ y.fs.find c = some f ∧ f.linked = true ∧
      ∀ m, 1 ≤ m →
      (y.fs.zeroC10S c f.data.length m).find c
        = some { f with data := f.data ++ List.replicate m 0,
                        durable := min f.durable f.data.length } ∧
      (∀ cfg', cfg'.truncate = true → ∃ s' w' fs'',
        openStore cfg' (y.fs.zeroC10S c f.data.length m) = (.ok (s', w'), fs'',
          syncEvs pre ++ [.trunc "o" c f.data.length, .sync "o" c true,
            .sync "o" c true, .create "o" (c + f.data.length) true,
            .write "o" (c + f.data.length) (encRecord (.state s.st)) true]) ∧
        s'.st = s.st ∧ s'.st = rl.state ∧ s'.log = s.log ∧
        s'.closed = s.closed ++ [⟨s.openOffsets, s.st⟩] ∧ s'.pending = [] ∧
        s'.openOffsets = [c + f.data.length,
          c + f.data.length + (encRecord (.state s.st)).length] ∧
        w'.files = [⟨c + f.data.length, s.st.last⟩] ∧
        fs''.find c = some { f with durable := f.data.length } ∧
        fs''.find (c + f.data.length)
          = some { id := c + f.data.length, data := encRecord (.state s.st),
                   durable := 0, linked := true } ∧
        ∀ id, id ≠ c → id ≠ c + f.data.length → sameBytesC10S (fs''.find id) (y.fs.find id)) ∧
      (∀ cfg', cfg'.truncate = false →
        openStore cfg' (y.fs.zeroC10S c f.data.length m)
          = (.err (if m < 28 then .eof else .invalid),
              (y.fs.zeroC10S c f.data.length m).syncAll pre, syncEvs pre) ∧
        (∀ e ∈ syncEvs pre, ∃ id, e = Ev.sync "o" id true) ∧
        ∀ i, sameBytesC10S (((y.fs.zeroC10S c f.data.length m).syncAll pre).find i)
          ((y.fs.zeroC10S c f.data.length m).find i)) := by
  obtain ⟨f, rs, s, hs, hst, k1, k2, k3, k4, k5, ⟨hoffs, _, _⟩, k6⟩ := sys_torn_newestC10S h hc hsplit
  have hne : rs ≠ [] := by
    obtain ⟨st, tl, e⟩ := k5
    subst e
    simp
  obtain ⟨stJ, lJ, hfull, hg⟩ := k6 rs [] (List.append_nil rs).symm hne
  obtain ⟨rfl, rfl⟩ := hfull rfl
  refine ⟨s, f, hs, hst, k1, k2, ?_⟩
  intro m hm
  obtain ⟨_, gB, gC⟩ := hg (fun x => { x with
      data := x.data.take f.data.length ++ List.replicate m 0,
      durable := min x.durable f.data.length }) (fun _ => rfl) (fun _ => rfl)
  have hdz : ({ f with data := f.data.take f.data.length ++ List.replicate m 0,
                       durable := min f.durable f.data.length } : File).data
      = encAll rs ++ List.replicate m 0 := by
    show f.data.take f.data.length ++ _ = _
    rw [List.take_length, k3]
  have hlen : (encAll rs).length = f.data.length := by rw [k3]
  refine ⟨?_, ?_, ?_⟩
  · have := Fs.find_update_selfC10S y.fs k1 (fun x => { x with
      data := x.data.take f.data.length ++ List.replicate m 0,
      durable := min x.durable f.data.length }) (fun _ => rfl)
    rw [List.take_length] at this
    exact this
  · intro cfg' ht
    obtain ⟨s', w', fs'', g1, g2, g3, g4, g5, g6, g7, g8, g9, g10⟩ :=
      gB (List.replicate m 0) hdz (Or.inr ⟨m, hm, rfl⟩) cfg' ht
    rw [hlen] at g1 g6 g7 g8 g9 g10
    rw [hoffs] at g4
    refine ⟨s', w', fs'', g1, g2, g2.trans hst, g3, g4, g5, g6, g7, ?_, g9, g10⟩
    rw [g8, ← k3]
  · intro cfg' hf
    refine ⟨gC (List.replicate m 0) _ cfg' hdz ?_,
      syncEvs_isOpenSync pre, fun i => sameBytes_syncAllC10S _ _ _⟩
    rw [c10_zero_truncate cfg' c k4 hm, hf]
    by_cases h28 : m < 28 <;> simp [h28]

/-- **C10 (B), zero bytes after the newest file, system level.** History hypotheses as in
`c02_clean_restart`; `c` the newest linked chunk id. -/
theorem c10_sys_zero_tail_newest (cfg : Cfg) (steps : List Step) (rl : RefLog) (s : Store)
    (hsteps : ∀ st ∈ steps, st.journal = true)
    (hlegal : RefLog.run {} (stepOps steps) = some rl)
    (hwf : ∀ op ∈ stepOps steps, op.WF ∧ op.small)
    (halive : ((Sys.fresh cfg).run steps).worker.pc ≠ .dead)
    (hs : ((Sys.fresh cfg).run steps).store = some s)
    (hq : ((Sys.fresh cfg).run steps).worker.quiet = true)
    (hp : s.pending = []) (hrem : s.removed = [])
    (hpost : ((Sys.fresh cfg).run steps).worker.postponed = [])
    (pre : List Nat) (c : Nat) :
    let y := (Sys.fresh cfg).run steps
    let fs := (y.step .drop).fs
    fs.linkedIds = pre ++ [c] →
    fs = y.fs ∧ s.st = rl.state ∧
    ∃ f, fs.find c = some f ∧ f.linked = true ∧
      ∀ m, 1 ≤ m →
      (fs.zeroC10S c f.data.length m).find c
        = some { f with data := f.data ++ List.replicate m 0,
                        durable := min f.durable f.data.length } ∧
      (∀ cfg', cfg'.truncate = true → ∃ s' w' fs'',
        openStore cfg' (fs.zeroC10S c f.data.length m) = (.ok (s', w'), fs'',
          syncEvs pre ++ [.trunc "o" c f.data.length, .sync "o" c true,
            .sync "o" c true, .create "o" (c + f.data.length) true,
            .write "o" (c + f.data.length) (encRecord (.state s.st)) true]) ∧
        s'.st = s.st ∧ s'.st = rl.state ∧ s'.log = s.log ∧
        s'.closed = s.closed ++ [⟨s.openOffsets, s.st⟩] ∧ s'.pending = [] ∧
        s'.openOffsets = [c + f.data.length,
          c + f.data.length + (encRecord (.state s.st)).length] ∧
        w'.files = [⟨c + f.data.length, s.st.last⟩] ∧
        fs''.find c = some { f with durable := f.data.length } ∧
        fs''.find (c + f.data.length)
          = some { id := c + f.data.length, data := encRecord (.state s.st),
                   durable := 0, linked := true } ∧
        ∀ id, id ≠ c → id ≠ c + f.data.length → sameBytesC10S (fs''.find id) (fs.find id)) ∧
      (∀ cfg', cfg'.truncate = false →
        openStore cfg' (fs.zeroC10S c f.data.length m)
          = (.err (if m < 28 then .eof else .invalid),
              (fs.zeroC10S c f.data.length m).syncAll pre, syncEvs pre) ∧
        (∀ e ∈ syncEvs pre, ∃ id, e = Ev.sync "o" id true) ∧
        ∀ i, sameBytesC10S (((fs.zeroC10S c f.data.length m).syncAll pre).find i)
          ((fs.zeroC10S c f.data.length m).find i)) := by
  intro y fs hsplit
  have hC : CSys y rl := run_CSys steps _ {} rl (fresh_CSys cfg) hsteps hlegal hwf halive
  have hc : y.Clean := ⟨s, hs, hq, hp, hrem, hpost⟩
  obtain ⟨_, _, _, _, _, _, hfs, _⟩ := c02_restart_step y rl {} hC hc
  have hfs' : fs = y.fs := hfs
  rw [hfs'] at hsplit ⊢
  obtain ⟨s1, f, hs1, hst, rest⟩ := c10_sys_zero_tail_newest_inv hC hc pre c hsplit
  have : s1 = s := by
    have : some s1 = some s := hs1.symm.trans hs
    exact Option.some.inj this
  subst this
  exact ⟨rfl, hst, f, rest⟩

/-- (B) for every reachable clean system. -/
theorem c10_sys_zero_tail_newest_reach {y : Sys} (h : ReachLIFT y) (hc : y.Clean)
    (pre : List Nat) (c : Nat) (hsplit : y.fs.linkedIds = pre ++ [c]) :
    ∃ (rl : RefLog) (s : Store) (f : File), y.store = some s ∧ s.st = rl.state ∧
      y.fs.find c = some f ∧ f.linked = true ∧
      ∀ m, 1 ≤ m →
      (∀ cfg', cfg'.truncate = true → ∃ s' w' fs'',
        openStore cfg' (y.fs.zeroC10S c f.data.length m) = (.ok (s', w'), fs'',
          syncEvs pre ++ [.trunc "o" c f.data.length, .sync "o" c true,
            .sync "o" c true, .create "o" (c + f.data.length) true,
            .write "o" (c + f.data.length) (encRecord (.state s.st)) true]) ∧
        s'.st = s.st ∧ s'.log = s.log ∧ s'.pending = [] ∧
        fs''.find c = some { f with durable := f.data.length } ∧
        ∀ id, id ≠ c → id ≠ c + f.data.length → sameBytesC10S (fs''.find id) (y.fs.find id)) ∧
      (∀ cfg', cfg'.truncate = false →
        openStore cfg' (y.fs.zeroC10S c f.data.length m)
          = (.err (if m < 28 then .eof else .invalid),
              (y.fs.zeroC10S c f.data.length m).syncAll pre, syncEvs pre)) := by
  obtain ⟨_, ⟨rl, hC⟩, _⟩ := c11_journal_invariant_reach h
  obtain ⟨s, f, hs, hst, k1, k2, k3⟩ := c10_sys_zero_tail_newest_inv hC hc pre c hsplit
  refine ⟨rl, s, f, hs, hst, k1, k2, fun m hm => ?_⟩
  obtain ⟨_, e2, e3⟩ := k3 m hm
  refine ⟨fun cfg' ht => ?_, fun cfg' hf => (e3 cfg' hf).1⟩
  obtain ⟨s', w', fs'', g1, g2, _, g3, _, g5, _, _, g8, _, g10⟩ := e2 cfg' ht
  exact ⟨s', w', fs'', g1, g2, g3, g5, g8, g10⟩

/-! ### (C) The store recovered in (B) accepts further records -/

/-- **(C), partial: only for case (B), and at the level of journalled records.** After the
zero tail was cut (truncation enabled) the returned store `s'` refines the same reference log
`rl` on state and index keys, no file exists at or beyond its open end, and every record whose
journalling moves `rl` to `r'` (`StepOK s' rl r' rec`: the check all public calls go through;
`stepOK_plain`, `stepOK_append1`, `stepOK_truncateAfter`, `stepOK_purgeUpto` produce it from
what the reference log accepts) is accepted by `appendAndApply` at the open end, and the new
store refines `r'`. In particular the calls `saveVote` and `commit` that `rl` accepts return
`ok`, and so does the journalling of one `Append` record that `rl` accepts.
NOT proved: the batch `append` call, `truncate`, `purge`, `saveUserData` as `call`s, the
continuation for whole histories (that needs the full C02 invariant for the recovered
system), and anything for case (A) (no reference log for the cut-off state is at hand). -/
theorem c10_sys_zero_tail_recovered_accepts_partial {y : Sys} {rl : RefLog} (h : CSys y rl)
    (hc : y.Clean) (pre : List Nat) (c : Nat) (hsplit : y.fs.linkedIds = pre ++ [c]) :
    ∃ f, y.fs.find c = some f ∧ ∀ m, 1 ≤ m → ∀ cfg', cfg'.truncate = true →
      ∃ s' w' fs'' evs,
        openStore cfg' (y.fs.zeroC10S c f.data.length m) = (.ok (s', w'), fs'', evs) ∧
        s'.st = rl.state ∧ logKeys s'.log = entKeys rl.entries ∧
        (∀ i, s'.openEnd ≤ i → fs''.has i = false) ∧
        (∀ rec r', StepOK s' rl r' rec → ∃ s2 effs,
          s'.appendAndApply fs''.has rec
            = (.ok ⟨s'.openEnd, (encRecord rec).length⟩, s2, effs) ∧
          s2.st = r'.state ∧ logKeys s2.log = entKeys r'.entries) ∧
        (∀ v r', rl.call (.saveVote v) = .ok r' →
          ∃ seg, (s'.call fs''.has (.saveVote v)).1 = .ok seg) ∧
        (∀ id r', rl.call (.commit id) = .ok r' →
          ∃ seg, (s'.call fs''.has (.commit id)).1 = .ok seg) ∧
        (∀ id p r', rl.append1 id p = .ok r' → smallId id → ∃ seg s2 effs,
          s'.appendAndApply fs''.has (.append id p) = (.ok seg, s2, effs)) := by
  obtain ⟨f0, rs0, s0, hs0, _, kf0, _, _, _, _, ⟨_, habs, hnofile⟩, _⟩ :=
    sys_torn_newestC10S h hc hsplit
  obtain ⟨s, f, hs, hst, k1, k2, k3⟩ := c10_sys_zero_tail_newest_inv h hc pre c hsplit
  have : s0 = s := Option.some.inj (hs0.symm.trans hs)
  subst this
  refine ⟨f, k1, fun m hm cfg' ht => ?_⟩
  obtain ⟨_, e2, _⟩ := k3 m hm
  obtain ⟨s', w', fs'', g1, g2, g3, g4, g5, g6, g7, g8, g9, g10, g11⟩ := e2 cfg' ht
  have hlenpos := encRecord_length_pos (.state s0.st)
  have hend : s'.openEnd = c + f.data.length + (encRecord (.state s0.st)).length := by
    simp [Store.openEnd, lastOff, g7]
  have habs' : Abs s' rl :=
    ⟨g3, by rw [g4]; exact habs.log, habs.wf,
      ⟨by rw [g7]; simp, by rw [g2]; exact habs.pf.purged, by rw [g2]; exact habs.pf.last,
        by rw [g4]; exact habs.pf.log⟩⟩
  have hfs : ∀ i, s'.openEnd ≤ i → fs''.has i = false := by
    intro i hi
    rw [hend] at hi
    rw [sameBytes_hasC10S (g11 i (by omega) (by omega))]
    exact hnofile i (by omega)
  have hst' : ∀ rec r', StepOK s' rl r' rec → ∃ s2 effs,
      s'.appendAndApply fs''.has rec = (.ok ⟨s'.openEnd, (encRecord rec).length⟩, s2, effs) ∧
      Abs s2 r' := fun rec r' ok => abs_step fs''.has habs' hfs ok
  refine ⟨s', w', fs'', _, g1, g3, habs'.log, hfs, ?_, ?_, ?_, ?_⟩
  · intro rec r' ok
    obtain ⟨s2, effs, e1, e2⟩ := hst' rec r' ok
    exact ⟨s2, effs, e1, e2.st, e2.log⟩
  · intro v r' hcall
    simp only [RefLog.call] at hcall
    split at hcall
    · rename_i hcond
      injection hcall with hcall; subst hcall
      obtain ⟨s2, effs, e1, _⟩ := hst' (.saveVote v) { rl with vote := some v } (stepOK_plain (rec := .saveVote v) habs'
        (by simp [RState.apply, RState.updateVote, habs'.st, RefLog.state, hcond])
        (Or.inl ⟨v, rfl⟩) rfl rfl rfl)
      have hcall' : (s'.call fs''.has (.saveVote v)).1
          = (s'.appendAndApply fs''.has (.saveVote v)).1 := rfl
      exact ⟨_, by rw [hcall', e1]⟩
    · cases hcall
  · intro id r' hcall
    simp only [RefLog.call] at hcall
    split at hcall
    · cases hcall
    · rename_i hcond
      injection hcall with hcall; subst hcall
      obtain ⟨s2, effs, e1, _⟩ := hst' (.commit id) { rl with committed := some id } (stepOK_plain (rec := .commit id) habs'
        (by simp [RState.apply, RState.commit, habs'.st, RefLog.state, hcond])
        (Or.inr (Or.inl ⟨id, rfl⟩)) rfl rfl rfl)
      have hcall' : (s'.call fs''.has (.commit id)).1
          = (s'.appendAndApply fs''.has (.commit id)).1 := rfl
      exact ⟨_, by rw [hcall', e1]⟩
  · intro id p r' happ hsm
    obtain ⟨s2, effs, e1, _⟩ := hst' (.append id p) r' (stepOK_append1 habs' happ hsm)
    exact ⟨_, s2, effs, e1⟩

/-! ### Non-vacuity -/

/-- The history `c02Example`, run with at most four records per chunk, satisfies the hypotheses
of `c02_clean_restart` (hence of the theorems above), computed by the model. (With
`maxRecords := 2`, as in `Props/C02.lean`, the newest chunk of a quiet store never holds more
than its head record, so (A) would have no cut position.) -/
example :
    (∀ st ∈ c02Example, st.journal = true) ∧
    (RefLog.run {} (stepOps c02Example)).isSome = true ∧
    (∀ op ∈ stepOps c02Example, op.WF ∧ op.small) ∧
    ((Sys.fresh { maxRecords := 4 }).run c02Example).worker.pc ≠ .dead ∧
    ((Sys.fresh { maxRecords := 4 }).run c02Example).worker.quiet = true ∧
    ((Sys.fresh { maxRecords := 4 }).run c02Example).worker.postponed = [] ∧
    (∃ s, ((Sys.fresh { maxRecords := 4 }).run c02Example).store = some s ∧ s.pending = [] ∧
      s.removed = []) := by
  refine ⟨by decide, by decide, ?_, by decide +kernel, by decide +kernel, by decide +kernel,
    ⟨_, rfl, by decide +kernel, by decide +kernel⟩⟩
  intro op hop
  simp only [c02Example, stepOps, List.mem_cons, List.not_mem_nil, or_false] at hop
  rcases hop with h | h | h | h | h | h <;> subst h <;>
    simp [Op.WF, Op.small, LogId.WF, bytesWF, smallId, U64, U32]

/-- It ends with three linked chunk files; the newest one, `260`, holds three records of 50,
28 and 71 bytes (149 bytes, all durable). -/
example :
    ((Sys.fresh { maxRecords := 4 }).run c02Example).fs.linkedIds = [0, 114] ++ [260] ∧
    (((Sys.fresh { maxRecords := 4 }).run c02Example).fs.find 260).map
      (fun f => ((parseChunk f.data).1.map (·.2), f.data.length, f.durable))
      = some ([50, 28, 71], 149, 149) := by decide +kernel

/-- (A) with truncation: file `260` cut at byte 100 (inside the third record, `j = 2`:
`78 < 100 < 149`). `open` cuts it to 78 bytes, creates chunk `260 + 78 = 338` and recovers the
state and index map that it recovers from the directory cut at byte 78; the other files keep
their bytes. Computed by the model, as the theorem says. -/
example :
    (openStore {} (((Sys.fresh { maxRecords := 4 }).run c02Example).fs.cutC10S 260 100)).2.2
      = [.sync "o" 0 true, .sync "o" 114 true, .trunc "o" 260 78, .sync "o" 260 true,
         .sync "o" 260 true, .create "o" 338 true,
         .write "o" 338
           (encRecord (.state { vote := some ⟨1, 7⟩, last := some ⟨2, 2⟩, purged := some ⟨1, 0⟩ }))
           true] ∧
    (match (openStore {} (((Sys.fresh { maxRecords := 4 }).run c02Example).fs.cutC10S 260 100)).1 with
      | .ok (s, _) => some (s.st, s.log, s.openOffsets)
      | _ => none)
      = some ({ vote := some ⟨1, 7⟩, last := some ⟨2, 2⟩, purged := some ⟨1, 0⟩ },
          (match (openStore {} (((Sys.fresh { maxRecords := 4 }).run c02Example).fs.cutC10S 260 78)).1 with
            | .ok (s, _) => s.log
            | _ => []),
          [338, 338 + 66]) ∧
    (match (openStore {} (((Sys.fresh { maxRecords := 4 }).run c02Example).fs.cutC10S 260 78)).1 with
      | .ok (s, _) => some (s.st, s.openOffsets)
      | _ => none)
      = some ({ vote := some ⟨1, 7⟩, last := some ⟨2, 2⟩, purged := some ⟨1, 0⟩ }, [260, 310, 338]) ∧
    ((openStore {} (((Sys.fresh { maxRecords := 4 }).run c02Example).fs.cutC10S 260 100)).2.1.find 260).map
      (fun f => (f.data.length, f.durable)) = some (78, 78) := by
  decide +kernel

/-- (A) without truncation: the same cut; `open` fails with `eof` after syncing `0` and `114`;
the directory is the damaged one with those two sync marks. -/
example :
    openStore { truncate := false }
      (((Sys.fresh { maxRecords := 4 }).run c02Example).fs.cutC10S 260 100)
    = (.err .eof,
        (((Sys.fresh { maxRecords := 4 }).run c02Example).fs.cutC10S 260 100).syncAll [0, 114],
        [.sync "o" 0 true, .sync "o" 114 true]) := by
  decide +kernel

/-- (B): 5 and 40 zero bytes after the 149 bytes of file `260`. With truncation the file is cut
back to 149 bytes, chunk `409` is created and the state is the one before the restart; without
truncation `open` fails with `eof` (5 zeros) resp. `invalid` (40 zeros). -/
example :
    (openStore {} (((Sys.fresh { maxRecords := 4 }).run c02Example).fs.zeroC10S 260 149 5)).2.2
      = [.sync "o" 0 true, .sync "o" 114 true, .trunc "o" 260 149, .sync "o" 260 true,
         .sync "o" 260 true, .create "o" 409 true,
         .write "o" 409
           (encRecord (.state { vote := some ⟨1, 7⟩, last := some ⟨2, 2⟩, purged := some ⟨1, 0⟩, userData := some [42] }))
           true] ∧
    (match (openStore {} (((Sys.fresh { maxRecords := 4 }).run c02Example).fs.zeroC10S 260 149 40)).1 with
      | .ok (s, _) => some (s.st, s.log)
      | _ => none)
      = ((Sys.fresh { maxRecords := 4 }).run c02Example).store.map (fun s => (s.st, s.log)) ∧
    ((openStore {} (((Sys.fresh { maxRecords := 4 }).run c02Example).fs.zeroC10S 260 149 40)).2.1.find 260)
      = (((Sys.fresh { maxRecords := 4 }).run c02Example).fs.find 260) ∧
    (openStore { truncate := false }
      (((Sys.fresh { maxRecords := 4 }).run c02Example).fs.zeroC10S 260 149 5)).1 = .err .eof ∧
    openStore { truncate := false }
      (((Sys.fresh { maxRecords := 4 }).run c02Example).fs.zeroC10S 260 149 40)
      = (.err .invalid,
          (((Sys.fresh { maxRecords := 4 }).run c02Example).fs.zeroC10S 260 149 40).syncAll [0, 114],
          [.sync "o" 0 true, .sync "o" 114 true]) := by
  decide +kernel

/-- The EXCLUDED case `j = 0`, computed by the model: file `260` cut at byte 20, inside its head
`State` record. With truncation the chunk is headless: it is cut to 0 bytes, unlinked, and a
fresh chunk with the same id `260` is created, holding the state recovered from the earlier
chunks (fix D3); without truncation `open` fails with `eof`. -/
example :
    (openStore {} (((Sys.fresh { maxRecords := 4 }).run c02Example).fs.cutC10S 260 20)).2.2
      = [.sync "o" 0 true, .sync "o" 114 true, .trunc "o" 260 0, .sync "o" 260 true,
         .unlink "o" 260 true, .create "o" 260 true,
         .write "o" 260
           (encRecord (.state { vote := some ⟨1, 7⟩, last := some ⟨2, 2⟩ }))
           true] ∧
    (openStore { truncate := false }
      (((Sys.fresh { maxRecords := 4 }).run c02Example).fs.cutC10S 260 20)).1 = .err .eof := by
  decide +kernel

/-- The theorem applied to this history: its conclusion for the cut at byte 100 (`j = 2`),
truncation disabled, obtained from `c10_sys_cut_newest_inv` rather than by computation. -/
example (y : Sys) (rl : RefLog) (h : CSys y rl) (hc : y.Clean) (pre : List Nat) (c : Nat)
    (hsplit : y.fs.linkedIds = pre ++ [c]) :
    ∃ f rs, y.fs.find c = some f ∧ f.data = encAll rs ∧
      ∀ j k, 1 ≤ j → (encAll (rs.take j)).length < k → k < (encAll (rs.take (j + 1))).length →
        (openStore { truncate := false } (y.fs.cutC10S c k)).1 = .err .eof := by
  obtain ⟨s, _, _, f, rs, k1, _, k3, _, _, k6⟩ := c10_sys_cut_newest_inv h hc pre c hsplit
  refine ⟨f, rs, k1, k3, fun j k hj h1 h2 => ?_⟩
  obtain ⟨_, _, _, _, _, _, e⟩ := k6 j k hj h1 h2
  rw [(e { truncate := false } rfl).1]

end RaftLog
