/-
C08 at system level — "A chunk file is deleted only if every entry stored in it has
been purged or truncated away and the purge that made it obsolete is already durably
recorded (written and successfully synced) in the files that remain; files are deleted
oldest-first, so the files that remain always form a gap-free suffix of the journal that
starts with a full state snapshot. Once a purge has been flushed and the worker is idle,
every closed chunk holding nothing above the purge point is gone."

`Props/C08.lean` proves the worker-side facts for every worker context. Here the same
for every state reached by a legal history from a freshly opened store (calls legal and
accepted by the reference log, well-formed, small; flushes; worker steps with ANY
outcome — short writes, failed writes/syncs as long as the worker thread survives —;
`workerIdle`; `drain`), on top of the ghost invariant of `Props/C03Quiet.lean`
(`Proofs/CrashQG*.lean`, `Proofs/CrashQC8.lean`).

* (a) `c08_remaining_files_gap_free_suffix`: the linked files are the dropped chunks not
  unlinked yet (= the ids waiting to be unlinked, in unlink order), then the live chunks;
  consecutive chunks abut (`c08_abut_spec`), every chunk starts with a `State` record,
  every file is a byte prefix of its chunk's records. `c08_unlinks_oldest_first`: one
  worker step leaves the linked files alone or unlinks exactly the OLDEST linked file,
  which is the head of `toRemove`. `c08_index_entries_in_linked_chunks`.
* (b) `c08_unlink_only_after_purge_durable`: when a worker step unlinks chunk `c`, there
  is a journal position `m` beyond `c`, at or below the acknowledged position, such that
  the purge that made `c` obsolete is journalled below `m`; every remaining linked chunk
  file is written and durable up to `m` (or to its end); no index entry lives in `c`.
* (c) `c08_flushed_idle_gone_always`: after `flush`, `workerIdle` (worker alive) nothing
  is left to unlink, the linked files are exactly the live chunks — for EVERY legal
  history, also after failed syncs: a removal postponed by a failed sync is retried after
  every batch, and the flush's batch syncs fine in the idle run.
  `c08_postponed_only_after_failed_sync`: along every history, removals are postponed
  only while the last sync has failed. (`c08_flushed_idle_gone`, the older statement with
  the hypothesis "last sync not failed, nothing postponed", is kept as a corollary;
  `c08_no_failed_sync_clean`: that hypothesis holds for every history without a
  `worker eio` step.)
-/
import RaftLogModel.Props.C03Quiet
import RaftLogModel.Props.C08
import RaftLogModel.Proofs.CrashQC8
import RaftLogModel.Proofs.PostponedD14
namespace RaftLog

/-! ### (a) The remaining files -/

/-- What `AbutC3` says: each chunk starts where the previous one ends (its id is the
previous id plus the encoded length of the previous chunk's records). -/
theorem c08_abut_spec (p q : Closed × List Record) (rest : List (Closed × List Record)) :
    (AbutC3 (p :: q :: rest) ↔ q.1.id = p.1.id + (encAll p.2).length ∧ AbutC3 (q :: rest)) ∧
    AbutC3 [p] ∧ AbutC3 [] := ⟨Iff.rfl, trivial, trivial⟩

/-- **(a) The files that remain form a gap-free suffix of the journal that starts with a
state snapshot.** Along every legal history there are the closed chunks `dropped`
(dropped from the chunk table by purges, oldest first) and record lists `jc`, `jo` such
that, with `L` = the chunks `dropped ++ s.closed ++ [open chunk]` each with its records:

* the linked files are exactly the ids of `L`, in order: `dropped`, then the live chunks;
* `dropped` is exactly what is still waiting to be unlinked, in unlink order
  (`worker.toRemove`: postponed, being unlinked, named by removal requests in hand or
  queued; then the store's removal list);
* consecutive chunks of `L` abut (no gap); every chunk of `L` — in particular the first
  linked one — starts with a `State` record; every file is a byte prefix of the encoding
  of its chunk's well-formed records. -/
theorem c08_remaining_files_gap_free_suffix (cfg : Cfg) (steps : List Step) (r : RefLog)
    (hsteps : ∀ st ∈ steps, st.journal = true)
    (hlegal : RefLog.run {} (stepOps steps) = some r)
    (hwf : ∀ op ∈ stepOps steps, op.WF ∧ op.small)
    (halive : ((Sys.fresh cfg).run steps).worker.pc ≠ .dead) :
    let y := (Sys.fresh cfg).run steps
    ∃ s dropped jc jo, y.store = some s ∧
      y.fs.linkedIds = dropped.map Closed.id ++ (s.closed.map Closed.id ++ [s.openId]) ∧
      y.worker.toRemove ++ s.removed = dropped.map Closed.id ∧
      RepG (s.liftC3b dropped) y.fs y.worker jc jo ∧
      (liveChunksC3 (s.liftC3b dropped) jc jo).map (·.1.id) = y.fs.linkedIds ∧
      (liveChunksC3 (s.liftC3b dropped) jc jo).map (·.1)
        = dropped ++ s.closed ++ [⟨s.openOffsets, s.st⟩] ∧
      AbutC3 (liveChunksC3 (s.liftC3b dropped) jc jo) ∧
      ∀ p ∈ liveChunksC3 (s.liftC3b dropped) jc jo, AllWF p.2 ∧ (∃ st rest, p.2 = .state st :: rest) ∧
        offsetsFrom p.1.id (recSizes p.2) = p.1.offsets ∧ ∃ t, fdata y.fs p.1.id ++ t = encAll p.2 := by
  intro y
  obtain ⟨_, ⟨s1, hs1, hli⟩, _, _⟩ := reach_HSys cfg steps r hsteps hlegal hwf halive
  obtain ⟨s, Bh, gs, hs, h⟩ := reach_GSys_C8s cfg steps r hsteps hlegal hwf halive
  rw [hs] at hs1
  have e : s = s1 := Option.some.inj hs1
  subst e
  obtain ⟨jc, jo, g, _⟩ := h.base.hist
  have hrecs := liveChunks_recs_C3 g
  have hlink : y.fs.linkedIds = (ghostClosedC3b gs).map Closed.id ++ (s.closed.map Closed.id ++ [s.openId]) := by
    rw [← Store.chunkIds_eq]; exact h.linkedIds hli
  refine ⟨s, ghostClosedC3b gs, jc, jo, hs, hlink, h.order, g, ?_, ?_, ?_, ?_⟩
  · rw [liveChunks_ids_C3 g, liftC3b_chunkIds, Store.chunkIds_eq, hlink]
  · simp only [liveChunksC3, List.map_append, List.map_cons, List.map_nil, g.closedEq,
      Store.liftC3b_closed, Store.liftC3b_openOffsets, Store.liftC3b_st]
  · apply abut_of_chained_C3
    · rw [liveChunks_offsets_C3 g]; exact h.base.inv.j.chained
    · intro p hp
      obtain ⟨k1, k2, k3, _, _⟩ := hrecs p hp
      have := lastOff_offsetsFrom p.1.id (recSizes p.2)
      rw [k3, ← encAll_length] at this
      exact this
  · intro p hp
    obtain ⟨k1, k2, k3, _, k5⟩ := hrecs p hp
    exact ⟨k1, k2, k3, k5⟩

/-- **(a) Files are unlinked oldest first.** One worker step (any outcome; the worker
survives it) after a legal history either leaves the linked files and the list of ids
to unlink alone, or unlinks exactly one file: the oldest linked file, which is the head
of `worker.toRemove`. -/
theorem c08_unlinks_oldest_first (cfg : Cfg) (steps : List Step) (r : RefLog) (out : Outcome)
    (hsteps : ∀ st ∈ steps, st.journal = true)
    (hlegal : RefLog.run {} (stepOps steps) = some r)
    (hwf : ∀ op ∈ stepOps steps, op.WF ∧ op.small)
    (halive : (((Sys.fresh cfg).run steps).step (.worker out)).worker.pc ≠ .dead) :
    let y := (Sys.fresh cfg).run steps
    let y' := y.step (.worker out)
    (y'.worker.toRemove = y.worker.toRemove ∧ y'.fs.linkedIds = y.fs.linkedIds) ∨
    (∃ i, y.worker.toRemove = i :: y'.worker.toRemove ∧ y.fs.linkedIds = i :: y'.fs.linkedIds ∧
      Ev.unlink "w" i true ∈ y.stepEvs (.worker out)) := by
  intro y y'
  have hd0 : y.worker.pc ≠ .dead := fun hdead => halive (Sys.step_dead y _ rfl hdead)
  obtain ⟨_, ⟨s1, hs1, hli⟩, _, _⟩ := reach_HSys cfg steps r hsteps hlegal hwf hd0
  obtain ⟨s, Bh, gs, hs, h⟩ := reach_GSys_C8s cfg steps r hsteps hlegal hwf hd0
  rw [hs] at hs1
  have e : s = s1 := Option.some.inj hs1
  subst e
  have hnd' : (y.workerStep out).1.worker.pc ≠ .dead := halive
  replace hs : y.store = some s := hs
  show ((y.workerStep out).1.worker.toRemove = y.worker.toRemove ∧
      (y.workerStep out).1.fs.linkedIds = y.fs.linkedIds) ∨
    (∃ i, y.worker.toRemove = i :: (y.workerStep out).1.worker.toRemove ∧
      y.fs.linkedIds = i :: (y.workerStep out).1.fs.linkedIds ∧ Ev.unlink "w" i true ∈ (y.workerStep out).2)
  simp only [Sys.workerStep, hs] at hnd' ⊢
  have ts := WCtx.step_tstep_C3b { w := y.worker, fs := y.fs, cache := s.cache } out h.base.inv.j.wok
    h.unl hnd'
  have hids := WCtx.step_ids { w := y.worker, fs := y.fs, cache := s.cache } out
  have hn := hli.nodup
  have hn' : (Fs.ids (WCtx.step { w := y.worker, fs := y.fs, cache := s.cache } out).fs).Nodup := by
    rw [hids]; exact hn
  rcases ts.tr with ⟨e1, e2⟩ | ⟨i, e1, e2, ids, hpc⟩
  · exact Or.inl ⟨e1, linkedIds_of_has_eq_C8s hn hn' e2⟩
  · right
    have hlink := h.linkedIds hli
    have hord := h.order
    simp only at e1
    rw [e1, List.cons_append] at hord
    rw [← hord, List.cons_append] at hlink
    refine ⟨i, e1, ?_, ?_⟩
    · rw [hlink, linkedIds_of_unlink_head_C8s hn hn' e2 hlink]
    · -- the event
      simp only at hpc
      have hout : out ≠ .eio := by
        intro ho
        apply hnd'
        subst ho
        simp [WCtx.step, hpc, WCtx.die_dead]
      obtain ⟨cbs, rest, h1, _, _⟩ := WCtx.step_evs { w := y.worker, fs := y.fs, cache := s.cache } out
      rw [h1]
      have hsys : Ev.unlink "w" i true ∈ stepSys { w := y.worker, fs := y.fs, cache := s.cache } out := by
        have : (out != Outcome.eio) = true := by simpa using hout
        simp [stepSys, hpc, this]
      simp only [List.mem_append]
      exact Or.inl (Or.inl (Or.inr hsys))

/-- **(a) Every index entry points into a linked chunk file** (a dropped chunk whose
file is still linked, or a live chunk). -/
theorem c08_index_entries_in_linked_chunks (cfg : Cfg) (steps : List Step) (r : RefLog)
    (hsteps : ∀ st ∈ steps, st.journal = true)
    (hlegal : RefLog.run {} (stepOps steps) = some r)
    (hwf : ∀ op ∈ stepOps steps, op.WF ∧ op.small)
    (halive : ((Sys.fresh cfg).run steps).worker.pc ≠ .dead) :
    let y := (Sys.fresh cfg).run steps
    ∃ s, y.store = some s ∧ ∀ e ∈ s.log, e.2.chunk ∈ y.fs.linkedIds ∧ y.fs.has e.2.chunk = true := by
  intro y
  obtain ⟨_, ⟨s1, hs1, hli⟩, _, _⟩ := reach_HSys cfg steps r hsteps hlegal hwf halive
  obtain ⟨s, Bh, gs, hs, h⟩ := reach_GSys_C8s cfg steps r hsteps hlegal hwf halive
  rw [hs] at hs1
  have e : s = s1 := Option.some.inj hs1
  subst e
  obtain ⟨jc, jo, g, _⟩ := h.base.hist
  refine ⟨s, hs, fun e he => ?_⟩
  have h1 := g.log_chunk_C8s e he
  have h2 := h.live hli _ h1
  exact ⟨((Fs.linkedIds_spec hli.nodup).2 _).mpr h2, h2⟩

/-! ### (b) A file is unlinked only after the purge that made it obsolete is durable -/

/-- **(b)** After a legal history `steps`, a worker step with outcome `out` emits
`Ev.unlink "w" c true`. Then `c` is the id of a dropped closed chunk `cl`, the OLDEST
linked file and the head of the removal order, and there are a journal position `m` and
a write count `k` such that

* `m` lies beyond chunk `c` and is at or below the acknowledged position `A` BEFORE the
  step (`Sys.ackRun steps 0`);
* the purge that made `c` obsolete is journalled below `m`: `m` is a record boundary of
  the journal of the linked chunks (witnesses `jc`, `jo`, prefix `Q`), exactly the first
  `k` entry-level writes are journalled below `m`, and every prefix of the writes with at
  least `k` writes reaches a reference log whose purge point is at or beyond the closing
  `last` of chunk `c` — every entry stored in `c` (all at or below that `last`) has been
  purged by then;
* that record is durable in the files that remain: every remaining linked chunk
  (`dropped'`, then the live chunks) is written and its file durable up to `m`, or to
  the chunk's end;
* chunk `c` holds no live entry: every index entry of the store has an id above the
  closing `last` of `c` and lives in another chunk. -/
theorem c08_unlink_only_after_purge_durable (cfg : Cfg) (steps : List Step) (r : RefLog)
    (out : Outcome) (c : Nat)
    (hsteps : ∀ st ∈ steps, st.journal = true)
    (hlegal : RefLog.run {} (stepOps steps) = some r)
    (hwf : ∀ op ∈ stepOps steps, op.WF ∧ op.small)
    (halive : ((Sys.fresh cfg).run steps).worker.pc ≠ .dead)
    (hev : Ev.unlink "w" c true ∈ ((Sys.fresh cfg).run steps).stepEvs (.worker out)) :
    let y := (Sys.fresh cfg).run steps
    let W := expandOps {} (stepOps steps)
    let A := (Sys.fresh cfg).ackRun steps 0
    ∃ s cl dropped' m k, y.store = some s ∧ cl.id = c ∧
      y.fs.linkedIds = c :: (dropped'.map Closed.id ++ (s.closed.map Closed.id ++ [s.openId])) ∧
      y.worker.toRemove ++ s.removed = c :: dropped'.map Closed.id ∧
      (∃ rest, y.worker.pc = .unlinking (c :: rest)) ∧ y.worker.lastSyncFailed = false ∧
      lastOff cl.offsets < m ∧ m ≤ A ∧ A ≤ s.openEnd ∧
      k ≤ W.length ∧
      (∀ n, k ≤ n → n ≤ W.length → ∀ r', RefLog.run {} (W.take n) = some r' →
        optLe cl.state.last r'.purged = true) ∧
      (∃ jc jo N0 Q, RepG (s.liftC3b (cl :: dropped')) y.fs y.worker jc jo ∧
        W.length = N0 + cntW (allOps (s.liftC3b (cl :: dropped')) jc jo) ∧
        Q <+: allOps (s.liftC3b (cl :: dropped')) jc jo ∧ cl.id + sizeSum Q = m ∧ N0 + cntW Q = k) ∧
      (∀ offs ∈ (s.liftC3b dropped').chunks,
        min (lastOff offs - offs.headD 0) (m - offs.headD 0) ≤ (fdata y.fs (offs.headD 0)).length ∧
        ∀ f, y.fs.find (offs.headD 0) = some f →
          min (lastOff offs - offs.headD 0) (m - offs.headD 0) ≤ f.durable) ∧
      (∀ e ∈ s.log, optLt cl.state.last (some e.2.id) = true ∧ e.2.chunk ≠ c) := by
  intro y W A
  obtain ⟨⟨s0, hs0, _, _⟩, ⟨s1, hs1, hli⟩, _, hswf⟩ := reach_HSys cfg steps r hsteps hlegal hwf halive
  obtain ⟨s, Bh, gs, hs, h⟩ := reach_GSys_C8s cfg steps r hsteps hlegal hwf halive
  rw [hs] at hs1
  have e : s = s1 := Option.some.inj hs1
  subst e
  have hwfw : y.worker.WF := (hswf (by rw [hs]; simp)).1
  replace hs : y.store = some s := hs
  -- the worker is parked at `unlinking (c :: _)`
  have hev' : Ev.unlink "w" c true ∈ (y.workerStep out).2 := hev
  simp only [Sys.workerStep, hs] at hev'
  obtain ⟨rest, hpc⟩ := unlink_ev_pc_C8s (c := { w := y.worker, fs := y.fs, cache := s.cache }) rfl hev'
  simp only at hpc
  have hlsf : y.worker.lastSyncFailed = false := by
    have := hwfw
    simp only [Worker.WF, hpc] at this
    exact this.2
  obtain ⟨p0, gs', hgs, hid, hm0⟩ := h.head_acked_C8s hpc
  subst hgs
  have hp0 := h.ents p0 List.mem_cons_self
  have hcl : (s.liftC3b (ghostClosedC3b (p0 :: gs'))).closed
      = p0.c :: (s.liftC3b (ghostClosedC3b gs')).closed := by
    simp [ghostClosedC3b]
  have hpop := h.base.pop_one_C3b hp0.hinv hcl rfl rfl rfl rfl (h.lo p0 List.mem_cons_self) hp0.mlo
    hp0.mhi hp0.cov
  obtain ⟨jc, jo, g, N0, hN, _, _, hcnt⟩ := hp0.hinv.hist
  have hk : p0.k ≤ W.length := by
    obtain ⟨_, _, _, hg⟩ := hp0.hinv.hist
    exact hg.count_le_C3b
  have hj := h.base.inv.j
  have hgc : ghostClosedC3b (p0 :: gs') = p0.c :: ghostClosedC3b gs' := rfl
  have hjs : (s.liftC3b (p0.c :: ghostClosedC3b gs')).jstart = p0.c.id := by
    simp [Store.jstart]
  have hlink := h.linkedIds hli
  rw [hgc, List.map_cons, List.cons_append, hid, Store.chunkIds_eq] at hlink
  have hord := h.order
  rw [hgc, List.map_cons, hid] at hord
  have hhead : p0.c.id < lastOff p0.c.offsets :=
    hj.chunk_head_lt p0.c.offsets (by simp [Store.chunks, hgc])
  refine ⟨s, p0.c, ghostClosedC3b gs', p0.m, p0.k, hs, hid, hlink, hord, ⟨rest, hpc⟩, hlsf, hp0.mlo, hm0,
    h.base.dur.a2, hk, hp0.cov, ?_, ?_, ?_⟩
  · rw [hgc] at g hN hcnt
    rw [hjs] at hcnt
    rcases hcnt with ⟨Q, hQ, e1, e2⟩ | ⟨e1, _⟩
    · exact ⟨jc, jo, N0, Q, g, hN, hQ, e1, e2⟩
    · have := hp0.mlo; omega
  · intro offs ho
    have h1 := hpop.dur.dw offs ho
    have h2 := hpop.dur.dd offs ho
    have hmm : min (lastOff offs - offs.headD 0) (p0.m - offs.headD 0)
        ≤ min (lastOff offs - offs.headD 0) ((Sys.fresh cfg).ackRun steps 0 - offs.headD 0) := by
      have := hm0
      omega
    exact ⟨Nat.le_trans hmm h1, fun f hf => Nat.le_trans hmm (h2 f hf)⟩
  · intro e he
    have hpur : optLe p0.c.state.last s.st.purged = true := by
      have := hp0.cov W.length hk (Nat.le_refl _) r (by rw [List.take_length]; exact h.base.run)
      have hst := h.base.inv.abs.st
      simp only [Store.liftC3b_st] at hst
      rw [hst]; exact this
    have habove := optLt_of_le_of_lt hpur (h.base.inv.abs.log_above e he)
    refine ⟨habove, ?_⟩
    obtain ⟨jc2, jo2, g2, _⟩ := hpop.hist
    have hmem := g2.log_chunk_C8s e he
    have hlt := ghost_ids_lt_C3b hj e.2.chunk (by rw [← liftC3b_chunkIds]; exact hmem)
    omega

/-! ### (c) Flushed and idle: the dropped chunks are gone -/

/-- "The last sync did not fail and nothing is postponed." -/
def WorkerCleanC8s (w : Worker) : Prop := w.lastSyncFailed = false ∧ w.postponed = []

theorem applyEffs_clean_C8s (effs : List Eff) : ∀ (fs : Fs) (w : Worker) (evs : List Ev),
    (applyEffs effs fs w evs).2.2.1.lastSyncFailed = w.lastSyncFailed ∧
      (applyEffs effs fs w evs).2.2.1.postponed = w.postponed := by
  induction effs with
  | nil => intro fs w evs; exact ⟨rfl, rfl⟩
  | cons e rest ih =>
    intro fs w evs
    cases e with
    | create id => simp only [applyEffs]; exact ih _ _ _
    | createFailed id => simp only [applyEffs]; exact ih _ _ _
    | writeHead id bs => simp only [applyEffs]; exact ih _ _ _
    | send q =>
      simp only [applyEffs]
      split
      · exact ⟨rfl, rfl⟩
      · exact ih _ _ _

/-- One journal step other than a worker step with a failed `write`/`fdatasync`/`unlink`
keeps the worker clean. -/
theorem step_clean_sys_C8s {y : Sys} (hwf : SysWF y) (st : Step) (hst : st.journal = true)
    (hne : st ≠ .worker .eio) (h : WorkerCleanC8s y.worker) : WorkerCleanC8s (y.step st).worker := by
  cases st with
  | drop => cases hst
  | openWith c => cases hst
  | drain =>
    show WorkerCleanC8s y.drain.worker
    unfold Sys.drain; split <;> exact h
  | call op =>
    show WorkerCleanC8s (y.call op).2.1.worker
    unfold Sys.call
    split
    · exact h
    · obtain ⟨k1, k2⟩ := applyEffs_clean_C8s (Store.call _ y.fs.has op).2.2 y.fs y.worker []
      obtain ⟨k3, k4⟩ := settle_clean_C8s (applyEffs (Store.call _ y.fs.has op).2.2 y.fs y.worker []).2.2.1
      exact ⟨by rw [k3, k1]; exact h.1, by rw [k4, k2]; exact h.2⟩
  | flush cb =>
    show WorkerCleanC8s (y.flush cb).2.1.worker
    unfold Sys.flush
    split
    · exact h
    · obtain ⟨k1, k2⟩ := applyEffs_clean_C8s (Store.flush _ cb).2 y.fs y.worker []
      obtain ⟨k3, k4⟩ := settle_clean_C8s (applyEffs (Store.flush _ cb).2 y.fs y.worker []).2.2.1
      exact ⟨by rw [k3, k1]; exact h.1, by rw [k4, k2]; exact h.2⟩
  | worker out =>
    show WorkerCleanC8s (y.workerStep out).1.worker
    unfold Sys.workerStep
    cases hs : y.store with
    | none => exact h
    | some s =>
      have hw : y.worker.WF := (hwf (by rw [hs]; simp)).1
      exact step_clean_C8s { w := y.worker, fs := y.fs, cache := s.cache } out hw
        (fun e => hne (by rw [e])) h
  | workerIdle =>
    show WorkerCleanC8s y.workerIdle.1.worker
    unfold Sys.workerIdle
    cases hs : y.store with
    | none => exact h
    | some s =>
      have hw : y.worker.WF := (hwf (by rw [hs]; simp)).1
      exact runQuiet_clean_C8s _ { w := y.worker, fs := y.fs, cache := s.cache } hw h

/-- **(c), the hypothesis.** In a history without a failed system call of the worker
(no `worker eio` step; short writes are allowed) the last sync never failed and nothing
is postponed. -/
theorem c08_no_failed_sync_clean (cfg : Cfg) (steps : List Step)
    (hsteps : ∀ st ∈ steps, st.journal = true) (hne : ∀ st ∈ steps, st ≠ .worker .eio) :
    ((Sys.fresh cfg).run steps).worker.lastSyncFailed = false ∧
      ((Sys.fresh cfg).run steps).worker.postponed = [] := by
  have key : ∀ (steps : List Step) (y : Sys), SysWF y → WorkerCleanC8s y.worker →
      (∀ st ∈ steps, st.journal = true) → (∀ st ∈ steps, st ≠ .worker .eio) →
      WorkerCleanC8s (y.run steps).worker := by
    intro steps
    induction steps with
    | nil => intro y _ h _ _; exact h
    | cons st rest ih =>
      intro y hwf h hj hn
      simp only [Sys.run, List.foldl_cons]
      exact ih (y.step st) (hwf.step st)
        (step_clean_sys_C8s hwf st (hj st List.mem_cons_self) (hn st List.mem_cons_self) h)
        (fun x hx => hj x (List.mem_cons_of_mem _ hx)) (fun x hx => hn x (List.mem_cons_of_mem _ hx))
  have hfresh : WorkerCleanC8s (Sys.fresh cfg).worker := by
    have : (Sys.fresh cfg).worker = { files := [⟨0, none⟩] } := by
      simp [Sys.fresh, Sys.open, openStore, Fs.linkedIds, openLoop, emptyStore, Fs.has, Fs.find,
        Fs.create, Fs.write, Fs.update]
    rw [this]; exact ⟨rfl, rfl⟩
  exact key steps _ (SysWF.fresh cfg) hfresh hsteps hne

/-- **(c), invariant.** Along every history from a freshly opened store (calls, flushes,
worker steps with any outcome, idle runs, drains — no legality assumption), while the store
is open: chunk removals are postponed only while the last sync has failed, at every park
point of the worker; and the request that ended the batch in hand is not a write. (As soon
as a batch syncs fine, the postponed removals are started: `WCtx.finishBatch`.) -/
theorem c08_postponed_only_after_failed_sync (cfg : Cfg) (steps : List Step)
    (hs : ((Sys.fresh cfg).run steps).store ≠ none) :
    (((Sys.fresh cfg).run steps).worker.postponed ≠ [] →
      ((Sys.fresh cfg).run steps).worker.lastSyncFailed = true) ∧
    ((Sys.fresh cfg).run steps).worker.pc.tailNotWriteD14 :=
  ⟨((SysPostD14.fresh cfg).run steps hs).post, ((SysPostD14.fresh cfg).run steps hs).tail⟩

/-- **(c) Once a purge has been flushed and the worker is idle, the dropped chunks are
gone — always.** A legal history `steps` (it may contain purges that dropped chunks,
flushes, worker steps with any outcome, in particular failed syncs that postponed
removals) is followed by `flush cb` and `workerIdle` (the worker runs, all system calls
succeeding, until it is blocked on an empty queue), and the worker is alive at the end.
No hypothesis on failed syncs or postponed removals: the flush's write request is synced
in the idle run, and a good sync starts every postponed removal. Then nothing is left to
unlink — the store's removal list is empty and so is the worker's — and the linked files
are exactly the live chunks: no file of a dropped chunk remains. -/
theorem c08_flushed_idle_gone_always (cfg : Cfg) (steps : List Step) (cb : Option Nat) (r : RefLog)
    (hsteps : ∀ st ∈ steps, st.journal = true)
    (hlegal : RefLog.run {} (stepOps steps) = some r)
    (hwf : ∀ op ∈ stepOps steps, op.WF ∧ op.small)
    (halive : ((Sys.fresh cfg).run (steps ++ [.flush cb, .workerIdle])).worker.pc ≠ .dead) :
    let y := (Sys.fresh cfg).run (steps ++ [.flush cb, .workerIdle])
    ∃ s, y.store = some s ∧ s.removed = [] ∧ y.worker.toRemove = [] ∧
      y.worker.lastSyncFailed = false ∧ y.worker.postponed = [] ∧
      y.fs.linkedIds = s.closed.map Closed.id ++ [s.openId] := by
  intro y
  have hops : stepOps (steps ++ [.flush cb, .workerIdle]) = stepOps steps := by
    rw [stepOps_append]; simp [stepOps]
  have hsteps2 : ∀ st ∈ steps ++ [.flush cb, .workerIdle], st.journal = true := by
    intro st hst
    rcases List.mem_append.mp hst with k | k
    · exact hsteps st k
    · simp only [List.mem_cons, List.not_mem_nil, or_false] at k
      rcases k with k | k <;> subst k <;> rfl
  have hwfS : SysWF ((Sys.fresh cfg).run (steps ++ [.flush cb])) := (SysWF.fresh cfg).run _
  have hpoS : SysPostD14 ((Sys.fresh cfg).run (steps ++ [.flush cb])) := (SysPostD14.fresh cfg).run _
  have hrun : y = (((Sys.fresh cfg).run steps).step (.flush cb)).step .workerIdle := by
    simp [y, Sys.run, List.foldl_append]
  have hrun1 : (Sys.fresh cfg).run (steps ++ [.flush cb]) = ((Sys.fresh cfg).run steps).step (.flush cb) := by
    simp [Sys.run, List.foldl_append]
  have hd1 : (((Sys.fresh cfg).run steps).step (.flush cb)).worker.pc ≠ .dead := by
    intro hdead
    apply halive
    show y.worker.pc = .dead
    rw [hrun]
    exact Sys.step_dead _ _ rfl hdead
  have hd0 : ((Sys.fresh cfg).run steps).worker.pc ≠ .dead :=
    fun hdead => hd1 (Sys.step_dead _ _ rfl hdead)
  obtain ⟨⟨s0, hs0, _, _⟩, _⟩ := reach_HSys cfg steps r hsteps hlegal hwf hd0
  -- after the flush: a write request is in hand or queued
  have hws := Sys.flush_willSyncD14 ((Sys.fresh cfg).run steps) cb s0 hs0 hd0
  have hfl := Sys.flush_eq ((Sys.fresh cfg).run steps) cb s0 hs0 hd0
  have hy1 : ((Sys.fresh cfg).run steps).step (.flush cb) = (((Sys.fresh cfg).run steps).flush cb).2.1 := rfl
  rw [hfl] at hy1
  generalize hY1 : ((Sys.fresh cfg).run steps).step (.flush cb) = y1 at hy1 hd1 hrun hrun1 hws
  have hs1 : y1.store = some (s0.flush cb).1 := by rw [hy1]
  have hwf1 : SysWF y1 := by rw [← hrun1]; exact hwfS
  have hpo1 : PostponedOnlyAfterFailedSyncD14 y1.worker := by
    have := hpoS
    rw [hrun1] at this
    exact this (by rw [hs1]; simp)
  obtain ⟨hw1, ht1⟩ := hwf1 (by rw [hs1]; simp)
  -- the worker runs until it is quiet
  have hyw : y = y1.workerIdle.1 := hrun
  have hd2 : y1.workerIdle.1.worker.pc ≠ .dead := by rw [← hyw]; exact halive
  simp only [Sys.workerIdle, hs1] at hyw hd2
  have hq := WCtx.runQuiet_fuel_quiet { w := y1.worker, fs := y1.fs, cache := (s0.flush cb).1.cache } ht1
  have hcl := WCtx.runQuiet_cleanD14 y1.worker.fuel
    { w := y1.worker, fs := y1.fs, cache := (s0.flush cb).1.cache } hw1 hpo1 (.inl hws) hq
  have htr := toRemove_of_quiet_C8s hq hd2 hcl.2
  have hstore : y.store = some { (s0.flush cb).1 with cache :=
      (WCtx.runQuiet y1.worker.fuel { w := y1.worker, fs := y1.fs, cache := (s0.flush cb).1.cache }).cache } := by
    rw [hyw]
  have hworker : y.worker.toRemove = [] := by rw [hyw]; exact htr
  refine ⟨_, hstore, rfl, hworker, by rw [hyw]; exact hcl.1, by rw [hyw]; exact hcl.2, ?_⟩
  exact c03_quiet_linked cfg (steps ++ [.flush cb, .workerIdle]) r _ hsteps2 (by rw [hops]; exact hlegal)
    (by rw [hops]; exact hwf) halive hstore rfl hworker

/-- **(c), the older statement** (hypothesis: at the end of `steps` the last sync had not
failed and nothing was postponed; `c08_no_failed_sync_clean`). The hypothesis is no longer
needed: a corollary of `c08_flushed_idle_gone_always`. -/
theorem c08_flushed_idle_gone (cfg : Cfg) (steps : List Step) (cb : Option Nat) (r : RefLog)
    (hsteps : ∀ st ∈ steps, st.journal = true)
    (hlegal : RefLog.run {} (stepOps steps) = some r)
    (hwf : ∀ op ∈ stepOps steps, op.WF ∧ op.small)
    (halive : ((Sys.fresh cfg).run (steps ++ [.flush cb, .workerIdle])).worker.pc ≠ .dead)
    (_hclean : ((Sys.fresh cfg).run steps).worker.lastSyncFailed = false ∧
      ((Sys.fresh cfg).run steps).worker.postponed = []) :
    let y := (Sys.fresh cfg).run (steps ++ [.flush cb, .workerIdle])
    ∃ s, y.store = some s ∧ s.removed = [] ∧ y.worker.toRemove = [] ∧
      y.fs.linkedIds = s.closed.map Closed.id ++ [s.openId] := by
  intro y
  obtain ⟨s, h1, h2, h3, _, _, h6⟩ := c08_flushed_idle_gone_always cfg steps cb r hsteps hlegal hwf halive
  exact ⟨s, h1, h2, h3, h6⟩

/-! ### (d) Non-vacuity -/

/-- `c03OutstandingExample` (chunks of three records; two appends, flush, idle,
`purge (1,1)` drops chunk 0, flush, two worker steps: the purge record is written, the
worker is parked at the `fdatasync` with `removeChunks [0]` in hand) followed by the
successful `fdatasync`: the worker is parked at `unlink` of chunk 0. -/
def c08SysExample : List Step := c03OutstandingExample ++ [.worker .ok]

/-- The hypotheses of `c08_unlink_only_after_purge_durable` (and of
`c08_unlinks_oldest_first`) hold for it with `out = ok`, `c = 0`: the next worker step
emits `Ev.unlink "w" 0 true`. Before the step the linked files are chunks 0 and 84 and
`toRemove = [0]`; the acknowledged position is 146 = the journal end right after the
purge call; chunk 84 (62 bytes: head and purge record) is durable to its end; after the
step only chunk 84 is linked and nothing is left to unlink. -/
example :
    (∀ st ∈ c08SysExample, st.journal = true) ∧
    (RefLog.run {} (stepOps c08SysExample)).isSome = true ∧
    (∀ op ∈ stepOps c08SysExample, op.WF ∧ op.small) ∧
    ((Sys.fresh { maxRecords := 3 }).run c08SysExample).worker.pc = .unlinking [0] ∧
    (((Sys.fresh { maxRecords := 3 }).run c08SysExample).step (.worker .ok)).worker.pc ≠ .dead ∧
    ((Sys.fresh { maxRecords := 3 }).run c08SysExample).stepEvs (.worker .ok) = [.unlink "w" 0 true] ∧
    ((Sys.fresh { maxRecords := 3 }).run c08SysExample).fs.linkedIds = [0, 84] ∧
    ((Sys.fresh { maxRecords := 3 }).run c08SysExample).worker.toRemove = [0] ∧
    (Sys.fresh { maxRecords := 3 }).ackRun c08SysExample 0 = 146 ∧
    ((Sys.fresh { maxRecords := 3 }).run (c03OutstandingExample.take 4)).store.map Store.openEnd = some 146 ∧
    ((Sys.fresh { maxRecords := 3 }).run c08SysExample).fs.map
      (fun f => (f.id, f.data.length, f.durable, f.linked)) = [(0, 84, 84, true), (84, 62, 62, true)] ∧
    (((Sys.fresh { maxRecords := 3 }).run c08SysExample).step (.worker .ok)).fs.linkedIds = [84] ∧
    (((Sys.fresh { maxRecords := 3 }).run c08SysExample).step (.worker .ok)).worker.toRemove = [] := by
  refine ⟨by decide +kernel, by decide +kernel, ?_, by decide +kernel, by decide +kernel, by decide +kernel,
    by decide +kernel, by decide +kernel, by decide +kernel, by decide +kernel, by decide +kernel,
    by decide +kernel, by decide +kernel⟩
  intro op hop
  simp only [c08SysExample, c03OutstandingExample, stepOps, List.cons_append, List.nil_append,
    List.mem_cons, List.not_mem_nil, or_false] at hop
  rcases hop with h | h <;> subst h <;>
    simp [Op.WF, Op.small, LogId.WF, bytesWF, smallId, U64, U32]

/-- One step earlier (`c03OutstandingExample`: sync not done yet) the acknowledged
position is 118 < 146 — and chunk 0 is not being unlinked. -/
example :
    (Sys.fresh { maxRecords := 3 }).ackRun c03OutstandingExample 0 = 118 ∧
    ((Sys.fresh { maxRecords := 3 }).run c03OutstandingExample).stepEvs (.worker .ok)
      = [.sync "w" 84 true] := by
  refine ⟨by decide +kernel, by decide +kernel⟩

/-- `c08_flushed_idle_gone` on the first six steps of `c03QuietExample` (chunks of five
records): four appends, flush, idle, `purge (1,3)` drops chunk 0, then `flush`,
`workerIdle`. Before the flush the worker is clean (no `worker eio` step so far); the
store's removal list is `[0]`. Afterwards only chunk 151 is linked. -/
example :
    c03QuietExample.take 6 = c03QuietExample.take 4 ++ [.flush (some 9), .workerIdle] ∧
    (∀ st ∈ c03QuietExample.take 4, st ≠ .worker .eio) ∧
    ((Sys.fresh { maxRecords := 5 }).run (c03QuietExample.take 4)).worker.lastSyncFailed = false ∧
    ((Sys.fresh { maxRecords := 5 }).run (c03QuietExample.take 4)).worker.postponed = [] ∧
    ((Sys.fresh { maxRecords := 5 }).run (c03QuietExample.take 4)).store.map (·.removed) = some [0] ∧
    ((Sys.fresh { maxRecords := 5 }).run (c03QuietExample.take 4)).fs.linkedIds = [0, 151] ∧
    ((Sys.fresh { maxRecords := 5 }).run (c03QuietExample.take 6)).worker.pc ≠ .dead ∧
    ((Sys.fresh { maxRecords := 5 }).run (c03QuietExample.take 6)).fs.linkedIds = [151] ∧
    ((Sys.fresh { maxRecords := 5 }).run (c03QuietExample.take 6)).worker.toRemove = [] := by
  refine ⟨by decide +kernel, by decide +kernel, by decide +kernel, by decide +kernel, by decide +kernel,
    by decide +kernel, by decide +kernel, by decide +kernel, by decide +kernel⟩

/-- `c08_flushed_idle_gone_always` after a FAILED sync (chunks of two records): three
appends, flush, idle, `purge (1,1)` drops the chunks 0 and 51, flush, five good worker
steps and the `fdatasync` in front of the removal request fails — the removal is postponed
(`postponed = [0, 51]`, `lastSyncFailed = true`, all five files still linked), so the
hypothesis of the older `c08_flushed_idle_gone` does not hold. Then `flush`, `workerIdle`:
the flush's batch syncs fine, the postponed removal is carried out right behind it, only
the live chunks 118, 185, 247 stay linked. -/
def c08SysFailedSyncExample : List Step :=
  [ .call (.append [(⟨1, 0⟩, [1]), (⟨1, 1⟩, [2]), (⟨1, 2⟩, [3])]),
    .flush none, .workerIdle,
    .call (.purge ⟨1, 1⟩),
    .flush none,
    .worker .ok, .worker .ok, .worker .ok, .worker .ok, .worker .ok, .worker .eio ]

example :
    (∀ st ∈ c08SysFailedSyncExample, st.journal = true) ∧
    (RefLog.run {} (stepOps c08SysFailedSyncExample)).isSome = true ∧
    (∀ op ∈ stepOps c08SysFailedSyncExample, op.WF ∧ op.small) ∧
    ((Sys.fresh { maxRecords := 2 }).run c08SysFailedSyncExample).worker.postponed = [0, 51] ∧
    ((Sys.fresh { maxRecords := 2 }).run c08SysFailedSyncExample).worker.lastSyncFailed = true ∧
    ((Sys.fresh { maxRecords := 2 }).run c08SysFailedSyncExample).fs.linkedIds = [0, 51, 118, 185, 247] ∧
    ((Sys.fresh { maxRecords := 2 }).run
      (c08SysFailedSyncExample ++ [.flush (some 9), .workerIdle])).worker.pc = .idle ∧
    ((Sys.fresh { maxRecords := 2 }).run
      (c08SysFailedSyncExample ++ [.flush (some 9), .workerIdle])).worker.toRemove = [] ∧
    ((Sys.fresh { maxRecords := 2 }).run
      (c08SysFailedSyncExample ++ [.flush (some 9), .workerIdle])).worker.lastSyncFailed = false ∧
    ((Sys.fresh { maxRecords := 2 }).run
      (c08SysFailedSyncExample ++ [.flush (some 9), .workerIdle])).fs.linkedIds = [118, 185, 247] ∧
    ((Sys.fresh { maxRecords := 2 }).run
      (c08SysFailedSyncExample ++ [.flush (some 9), .workerIdle])).store.map
        (fun s => (s.removed, s.closed.map Closed.id, s.openId)) = some ([], [118, 185], 247) := by
  refine ⟨by decide +kernel, by decide +kernel, ?_, by decide +kernel, by decide +kernel, by decide +kernel,
    by decide +kernel, by decide +kernel, by decide +kernel, by decide +kernel, by decide +kernel⟩
  intro op hop
  simp only [c08SysFailedSyncExample, stepOps, List.mem_cons, List.not_mem_nil, or_false] at hop
  rcases hop with h | h <;> subst h <;>
    simp [Op.WF, Op.small, LogId.WF, bytesWF, smallId, U64, U32]

end RaftLog
