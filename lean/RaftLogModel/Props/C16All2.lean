/-
C16 without `small` (D12) — no argument makes a public operation panic.

Since the fix mirrored by D12, `RaftLog::append` (per entry) and `RaftLog::purge`
refuse a log id whose index is u64::MAX with `InvalidInput`
(`c16_u64_max_is_refused`, Props/C16.lean). That id class was the ONLY reason for
the hypothesis `Op.small` in the `_partial` theorems of Props/C16.lean,
Props/C16Read.lean (recovery part) and `c05_recovery_never_panics`. Here the
hypothesis is dropped: the only requirement on arguments is `Op.WF` — log ids
and votes are pairs of u64, payloads are shorter than 2^32 — i.e. what the Rust
types enforce anyway. No reference log, no legality, no acceptance: the calls of
a history may be accepted, rejected by the state, or refused.

* (a) `c16_call_no_panic`: one call on a `PanicFree` store.
* (b) `c16_history_no_panic` (system level: calls, flushes, worker steps of any
  outcome — the worker may die —, `workerIdle`, `drain`, from `Sys.fresh cfg`),
  `c16_history_no_panic_store` (store level, the shape of
  `c16_history_no_panic_partial`).
* (c) `c16_open_no_panic_history_all`: at every point of such a history with a
  live worker, `open` on the directory as it is and `drop` + `open` do not panic;
  `c16_recovery_never_panics`: `open` on ANY crash image of that directory does
  not panic. (The journal now contains small records only: `SmallJ` is kept by
  EVERY well-formed call, `call_SJ_D12`.)

Not covered here: reads (`c16_read_no_panic_*`) and clean-restart cycles keep
their reference-log hypotheses (they rest on the replay invariant `RSys`).

Helpers: Proofs/NoPanicAll.lean.
-/
import RaftLogModel.Props.C16All
import RaftLogModel.Proofs.NoPanicAll
namespace RaftLog

/-! ### (a) One call -/

/-- **C16, one call, every argument.** On a store satisfying `PanicFree` (open
chunk has a record; `purged`, `last` and every indexed id have
`index + 1 < 2^64`) a public write call with ANY well-formed argument — also
ids with index u64::MAX, any truncate index — does not panic, and the returned
store satisfies `PanicFree` again (accepted, rejected or refused). -/
theorem c16_call_no_panic (s : Store) (fsHas : Nat → Bool) (op : Op)
    (hp : PanicFree s) (hop : op.WF) :
    (∀ m, (s.call fsHas op).1 ≠ .panic m) ∧ PanicFree (s.call fsHas op).2.1 :=
  call_ok_D12 fsHas op hp hop

/-- What `PanicFree` says about the state: no index at u64::MAX. -/
theorem c16_panicFree_spec (s : Store) (hp : PanicFree s) :
    2 ≤ s.openOffsets.length ∧
    (∀ id, s.st.purged = some id → id.index + 1 < U64) ∧
    (∀ id, s.st.last = some id → id.index + 1 < U64) ∧
    (∀ e ∈ s.log, e.2.id.index + 1 < U64) := by
  refine ⟨hp.open2, ?_, ?_, hp.log⟩
  · intro id h; have := hp.purged; rw [h] at this; exact this
  · intro id h; have := hp.last; rw [h] at this; exact this

/-! ### (b) Histories -/

/-- **C16, histories, store level** (the statement of
`c16_history_no_panic_partial` with `small` replaced by `WF`). -/
theorem c16_history_no_panic_store (fsHas : Nat → Bool) (ops : List Op) (s : Store)
    (hp : PanicFree s) (hops : ∀ op ∈ ops, op.WF) :
    ∀ pre op post, ops = pre ++ op :: post →
      ∀ m, ((pre.foldl (fun s o => (s.call fsHas o).2.1) s).call fsHas op).1 ≠ .panic m := by
  intro pre op post hsplit
  have hpre : PanicFree (pre.foldl (fun s o => (s.call fsHas o).2.1) s) := by
    have hsm : ∀ o ∈ pre, o.WF := fun o ho => hops o (by rw [hsplit]; exact List.mem_append_left _ ho)
    clear hsplit
    induction pre generalizing s with
    | nil => exact hp
    | cons o rest ih =>
      simp only [List.foldl_cons]
      exact ih _ (call_ok_D12 fsHas o hp (hsm o List.mem_cons_self)).2
        (fun o' ho' => hsm o' (List.mem_cons_of_mem _ ho'))
  exact (call_ok_D12 fsHas op hpre (hops op (by rw [hsplit]; simp))).1

/-- **C16, histories, system level.** For every configuration and every history
from a freshly opened store made of `.call op` (ANY well-formed `op`: accepted,
rejected or refused), `.flush cb`, `.worker out` (any outcome; the worker may
die, sends may fail), `.workerIdle`, `.drain`: no call in it panics, and before
every call the store is `PanicFree`. -/
theorem c16_history_no_panic (cfg : Cfg) (steps : List Step)
    (hsteps : ∀ st ∈ steps, st.journal = true) (hwf : ∀ op ∈ stepOps steps, op.WF) :
    ∀ pre op post, steps = pre ++ .call op :: post →
      (∀ m, (((Sys.fresh cfg).run pre).call op).1 ≠ .panic m) ∧
      ∀ s, ((Sys.fresh cfg).run pre).store = some s → PanicFree s :=
  history_no_panic_D12 steps (Sys.fresh cfg) (fresh_PFSys_D12 cfg) hsteps hwf

/-- … and at the end of the history (hence before any further call). -/
theorem c16_reachable_panicFree (cfg : Cfg) (steps : List Step)
    (hsteps : ∀ st ∈ steps, st.journal = true) (hwf : ∀ op ∈ stepOps steps, op.WF) :
    ∀ s, ((Sys.fresh cfg).run steps).store = some s → PanicFree s :=
  run_PFSys_D12 steps (Sys.fresh cfg) (fresh_PFSys_D12 cfg) hsteps hwf

/-! ### (c) Recovery -/

/-- **C16, recovery, every well-formed history.** At every point of a history of
calls with ANY well-formed arguments, flushes, worker steps of any outcome,
`workerIdle`, `drain`, with the worker alive — not only at clean points — and
for every configuration `cfg'`: every linked chunk file parses to small records
(before and after `drop`), `open cfg'` on the files as they are does not panic,
and `drop` followed by `open cfg'` does not panic. -/
theorem c16_open_no_panic_history_all (cfg cfg' : Cfg) (steps : List Step)
    (hsteps : ∀ st ∈ steps, st.journal = true) (hwf : ∀ op ∈ stepOps steps, op.WF)
    (halive : ((Sys.fresh cfg).run steps).worker.pc ≠ .dead) :
    let y := (Sys.fresh cfg).run steps
    FsSmall y.fs ∧ FsSmall (y.step .drop).fs ∧
    (∀ m, (openStore cfg' y.fs).1 ≠ .panic m) ∧
    (∀ m, ({ (y.step .drop) with cfg := cfg' } : Sys).open.1 ≠ .panic m) := by
  intro y
  have hinv : RecInv_D12 y :=
    run_RecInv_D12 steps (Sys.fresh cfg) (fresh_RecInv_D12 cfg) hsteps hwf halive
  have hset : y.Settled := Sys.run_settled steps _ (Sys.fresh_settled cfg)
  obtain ⟨h1, h2⟩ := hinv.fsSmall hset
  refine ⟨h1, h2, c05_open_no_panic_partial cfg' y.fs h1, ?_⟩
  intro m hm
  exact c05_open_no_panic_partial cfg' _ h2 m (Sys.open_panic hm)

/-- **Recovery never panics — on ANY crash image, after ANY well-formed
history** (`c05_recovery_never_panics` without the reference log and without
`small`; no hypothesis on the image, any configuration). -/
theorem c16_recovery_never_panics (cfg cfg' : Cfg) (steps : List Step)
    (hsteps : ∀ st ∈ steps, st.journal = true) (hwf : ∀ op ∈ stepOps steps, op.WF)
    (halive : ((Sys.fresh cfg).run steps).worker.pc ≠ .dead)
    (img : Fs) (hc : CrashImage ((Sys.fresh cfg).run steps).fs img) :
    FsSmall img ∧
    (∀ m, (openStore cfg' img).1 ≠ .panic m) ∧ (openStore cfg' img).1.isPanic = false ∧
    (({ fs := img, cfg := cfg' } : Sys).open).1.isPanic = false := by
  have hinv : RecInv_D12 ((Sys.fresh cfg).run steps) :=
    run_RecInv_D12 steps (Sys.fresh cfg) (fresh_RecInv_D12 cfg) hsteps hwf halive
  have hsmall : FsSmall img := hinv.crash_fsSmall hc
  have h1 := c05_open_no_panic_partial cfg' img hsmall
  have h2 : (openStore cfg' img).1.isPanic = false := by
    cases hr : (openStore cfg' img).1 with
    | panic m => exact absurd hr (h1 m)
    | ok _ => rfl
    | err _ => rfl
  refine ⟨hsmall, h1, h2, ?_⟩
  cases hr : (({ fs := img, cfg := cfg' } : Sys).open).1 with
  | panic m => exact absurd (Sys.open_panic hr) (h1 m)
  | ok _ => rfl
  | err _ => rfl

/-- The invariant behind (c): every store-level call with well-formed arguments
keeps "every chunk file is a prefix of a journal of small, well-formed records"
(`SmallJ`), given the journal invariant and `PanicFree`. -/
theorem c16_call_keeps_small_journal {s : Store} {fs : Fs} {w : Worker} (fsHas : Nat → Bool) (op : Op)
    (h : JInv s fs w) (hS : SmallJ s fs w) (hp : PanicFree s) (hop : op.WF)
    (hfs : ∀ i, s.openEnd ≤ i → fsHas i = false) :
    SmallJ (s.call fsHas op).2.1 (effFs (s.call fsHas op).2.2 fs)
      (w.push (effQ (s.call fsHas op).2.2)) :=
  call_SJ_D12 fsHas op h hS hp hop hfs

/-! ### Non-vacuity -/

/-- A history with calls that are NOT small: a purge and an append at index
u64::MAX (refused), a truncate at u64::MAX (rejected), a commit at u64::MAX
(accepted: `commit` does not look at the index), around accepted writes, a flush
and a worker step. -/
def c16AllExample : List Step :=
  [ .call (.append [(⟨1, 0⟩, [1])]),
    .call (.purge ⟨1, 2 ^ 64 - 1⟩),
    .call (.append [(⟨1, 1⟩, [2]), (⟨1, 2 ^ 64 - 1⟩, [3])]),
    .flush none, .worker .ok,
    .call (.truncate (2 ^ 64 - 1)),
    .call (.commit ⟨5, 2 ^ 64 - 1⟩),
    .call (.append [(⟨2, 2 ^ 64 - 1⟩, [])]) ]

/-- It satisfies the hypotheses of `c16_history_no_panic`,
`c16_open_no_panic_history_all` and `c16_recovery_never_panics` … -/
example :
    (∀ st ∈ c16AllExample, st.journal = true) ∧
    ((Sys.fresh {}).run c16AllExample).worker.pc ≠ .dead := by
  refine ⟨by decide, by decide⟩

example : ∀ op ∈ stepOps c16AllExample, op.WF := by
  intro op hop
  simp only [c16AllExample, stepOps, List.mem_cons, List.not_mem_nil, or_false] at hop
  rcases hop with h | h | h | h | h | h <;> subst h <;>
    simp [Op.WF, LogId.WF, bytesWF, U64, U32]

/-- … its ops are not all small (so the `_partial` theorems do not apply) … -/
example : ¬ ∀ op ∈ stepOps c16AllExample, op.small := by
  intro h
  have := h (.purge ⟨1, 2 ^ 64 - 1⟩) (by simp [c16AllExample, stepOps])
  simp [Op.small, smallId, U64] at this

/-- … and the results of its calls, computed by the model: ok, refused, refused
after one accepted entry, rejected, ok, refused. -/
example :
    let y0 := Sys.fresh {}
    let r1 := y0.call (.append [(⟨1, 0⟩, [1])])
    let r2 := r1.2.1.call (.purge ⟨1, 2 ^ 64 - 1⟩)
    let r3 := r2.2.1.call (.append [(⟨1, 1⟩, [2]), (⟨1, 2 ^ 64 - 1⟩, [3])])
    let y4 := ((r3.2.1.step (.flush none)).step (.worker .ok))
    let r5 := y4.call (.truncate (2 ^ 64 - 1))
    let r6 := r5.2.1.call (.commit ⟨5, 2 ^ 64 - 1⟩)
    let r7 := r6.2.1.call (.append [(⟨2, 2 ^ 64 - 1⟩, [])])
    r1.1.isOk = true ∧ r2.1 = .err .invalidInput ∧ r3.1 = .err .invalidInput ∧
    r3.2.1.store.map (·.st.last) = some (some ⟨1, 1⟩) ∧
    r5.1 = .err .indexNotFound ∧ r6.1.isOk = true ∧ r7.1 = .err .invalidInput := by
  decide

end RaftLog
