/-
C07 — Every live entry can be read back, whatever the payload cache evicted.

After any history of accepted, Raft-legal writes (vote, append, purge, commit,
user data) interleaved with flushes, worker steps of any outcome, `workerIdle`
and `drain` steps on a store opened on an empty directory, `read(a, b)` and the
dump iterator return every live entry of the range with its log id and its
ORIGINAL payload and no error — for every configuration: any chunk limits and
any payload-cache limits (including 0 items / 0 bytes), whatever the cache has
evicted and however far the flush worker has got.

KNOWN FINDING (why the theorem is `_partial`). The eviction boundary is a LOG
ID. After a `truncate`, an entry can be appended whose log id is at or below a
boundary published earlier; it is then evicted while its record is still only
in the open chunk (pending buffer) or in flight to a chunk file, and `read`
returns `err eof` / `err notFound` (model and implementation agree; the
counterexample at the end of this file is computed by the model). The theorem
is therefore stated for histories WITHOUT `truncate` ops: then log ids only
grow (every appended id is above every earlier one).

Quantification: every `cfg`; every history of `.call/.flush/.worker/
.workerIdle/.drain` steps from `Sys.fresh cfg` whose calls, in order, are legal
and accepted by the reference log starting from the empty log; no index equal
to u64::MAX (`Op.small`, the class excluded by C16); values the Rust types can
hold (`Op.WF`: u64 id components, payloads / user data below 4 GiB — beyond
that the record codec is not injective, so this is needed for ANY read from
disk); no `truncate`; the worker alive at the end (a dead worker stays dead, so
it was alive all along).

Helper lemmas: Proofs/ReadPathRef.lean (`RefinesNoCache`), ReadPathWorker.lean
(worker steps), ReadPathStore.lean (`RdInv`), ReadPath.lean (`ReadInv`).
-/
import RaftLogModel.Proofs.ReadPath
namespace RaftLog

/-! ### 1. Refinement without the residency clause -/

/-- `Refines` (C01) implies `RefinesNoCache`. -/
theorem c07_refines_noCache (s : Store) (r : RefLog) (h : Refines s r) : RefinesNoCache s r :=
  h.noCache

/-- **Step lemma for `RefinesNoCache`** (the analogue of `c01_step` with no
hypothesis on the cache): one legal, accepted, small op — `truncate` included —
on a store that refines `r` up to residency, with no chunk file at or beyond
the journal end: the call returns `ok`, the new store refines the new reference
log up to residency, the journal end only moved forward and every file created
has an id in `[old end, new end)`. Any cache limits, any amount of eviction. -/
theorem c07_refinesNoCache_step (s : Store) (r r' : RefLog) (fsHas : Nat → Bool) (op : Op)
    (h : RefinesNoCache s r) (hfs : ∀ i, s.openEnd ≤ i → fsHas i = false)
    (hl : r.legal op = true) (hc : r.call op = .ok r') (hsm : op.small) :
    (∃ seg, (s.call fsHas op).1 = .ok seg) ∧ RefinesNoCache (s.call fsHas op).2.1 r' ∧
      Growth0 s (s.call fsHas op).2.1 (s.call fsHas op).2.2 := by
  obtain ⟨seg, s', effs, heq, href, hg⟩ := call_refinesNC fsHas h hfs hl hc hsm
  rw [heq]
  exact ⟨⟨seg, rfl⟩, href, hg⟩

/-! ### 2. The read-path invariant -/

/-- What `ReadInv y r` says, item by item. `y` has a live store `s` and a live
worker; the journal invariant `J y` holds (C11); `s` refines `r` up to
residency; the spec entries are well-formed; and for every index entry
`x = (index, d)`:

* (where) `d` belongs to a spec entry `(d.id, p)`, its chunk `d.chunk` is the
  open chunk or a closed one, and the chunk's byte string (file ++ in flight ++
  pending) holds `encRecord (.append d.id p)` at `[d.off - d.chunk, + d.size)`;
* (resident or written) `d.id` is in the cache, or `d.chunk` is older than the
  worker's newest file (`Worker.cur`);
* (boundary) if `d.id` is at or below the eviction boundary then `d.chunk` is
  older than the worker's newest file; the boundary is at or below `last`;
* (file entries) the same holds for every `(id, prevLast)` in the worker's
  file list or announced by a queued `appendFile`: entries at or below
  `prevLast` live in chunks older than `id`;
* a cached payload of a live id is the spec payload. -/
theorem c07_readInv_spec {y : Sys} {r : RefLog} (h : ReadInv y r) :
    ∃ s, y.store = some s ∧ y.worker.pc ≠ .dead ∧ J y ∧ RefinesNoCache s r ∧ r.EntriesWF ∧
      (∀ x ∈ s.log, ∃ p, (x.2.id, p) ∈ r.entries ∧
        Located s y.fs y.worker x.2 (encRecord (.append x.2.id p))) ∧
      (∀ x ∈ s.log, (∃ p, (x.2.id, p) ∈ s.cache.items) ∨ x.2.chunk < y.worker.cur) ∧
      EntOK s y.worker.cur s.cache.lastEvictable ∧
      (∀ f ∈ y.worker.fents, EntOK s f.id f.prevLast) ∧
      (∀ e ∈ s.cache.items, ∀ a ∈ r.entries, a.1 = e.1 → a.2 = e.2) := by
  have hJ := h.toJ
  obtain ⟨s, hs, hd, _, hr, hew⟩ := h
  exact ⟨s, hs, hd, hJ, hr.ref, hew, hr.loc, hr.res, hr.bnd, hr.ents, hr.cval⟩

/-- **(i) / (ii).** Under the invariant every live entry `(id, payload)` with
index entry `d` is (i) resident with its payload, or (ii) `d.chunk` is the id of
a closed chunk, nothing is in flight to that chunk's file, and the FILE holds
at positions `[d.off - d.chunk, + d.size)` exactly `encRecord (.append id
payload)` (already written, not merely in flight). -/
theorem c07_resident_or_on_disk {y : Sys} {r : RefLog} (h : ReadInv y r) :
    ∃ s, y.store = some s ∧ ∀ x ∈ s.log, ∃ p, (x.2.id, p) ∈ r.entries ∧
      (s.cache.get x.2.id = some p ∨
        ((∃ c ∈ s.closed, c.id = x.2.chunk) ∧ y.worker.inflight x.2.chunk = [] ∧
          ∃ f, y.fs.find x.2.chunk = some f ∧ x.2.off - x.2.chunk + x.2.size ≤ f.data.length ∧
            (f.data.drop (x.2.off - x.2.chunk)).take x.2.size = encRecord (.append x.2.id p))) :=
  h.resident_or_on_disk

/-- **The auxiliary boundary invariant.** For the boundary value
`b = s.cache.lastEvictable`, every index entry with id at or below `b` has its
chunk closed and fully written: nothing is in flight to the chunk's file and
the file has the chunk's full length. (Inside `ReadInv` this is kept in the
stable form "`d.chunk` is older than the worker's newest file", `EntOK`; the
boundary is only ever set, in `startSync`, to `f.prevLast` of the single file
`f` left in the worker's list, and every `(id, prevLast)` the worker holds or
will be told about satisfies the same predicate.) -/
theorem c07_boundary_written {y : Sys} {r : RefLog} (h : ReadInv y r) :
    ∃ s, y.store = some s ∧ ∀ x ∈ s.log, optLe (some x.2.id) s.cache.lastEvictable = true →
      ∃ c ∈ s.closed, c.id = x.2.chunk ∧ y.worker.inflight c.id = [] ∧
        (fdata y.fs c.id).length = lastOff c.offsets - c.id :=
  h.boundary_written

/-- **ReadInv ⇒ read = spec read.** The reported state is the reference log's,
every `read(a, b)` returns exactly the reference entries of `[a, b)` (each
lookup is a cache hit with the right payload, or `loadPayload` finds the chunk
closed, reads exactly the record's bytes from its file and decodes them by
`record_rt`), and so does the dump iterator. -/
theorem c07_read_of_inv {y : Sys} {r : RefLog} (h : ReadInv y r) :
    ∃ s, y.store = some s ∧ s.st = r.state ∧
      (∀ a b, (s.read y.fs a b).1 = (r.read a b).map (fun e => ReadItem.ok e.1 e.2)) ∧
      s.iter y.fs = r.entries.map (fun e => ReadItem.ok e.1 e.2) :=
  h.read

/-! ### 3. (A) the fresh store, (B) every step -/

/-- (A) -/
theorem c07_inv_fresh (cfg : Cfg) : ReadInv (Sys.fresh cfg) {} := fresh_readInv cfg

/-- (B) a legal, accepted, small, well-formed call that is not a `truncate`
(chunk rotations, purge of closed chunks and cache eviction included): the
invariant is kept against the new reference log and the call returns `ok`. -/
theorem c07_inv_call (y : Sys) (r r' : RefLog) (op : Op) (h : ReadInv y r)
    (hl : r.legal op = true) (hc : r.call op = .ok r') (hop : op.c07) :
    ReadInv (y.step (.call op)) r' ∧ ∃ seg, (y.call op).1 = .ok seg :=
  h.call hl hc hop.1 hop.2.1 hop.2.2

/-- (B) -/
theorem c07_inv_flush (y : Sys) (r : RefLog) (cb : Option Nat) (h : ReadInv y r) :
    ReadInv (y.step (.flush cb)) r := h.flush cb

/-- (B) any outcome (`ok`, `eio` at a sync, `short k`: failed syncs and short
writes included), provided the worker is not dead afterwards. -/
theorem c07_inv_worker (y : Sys) (r : RefLog) (out : Outcome) (h : ReadInv y r)
    (halive : (y.step (.worker out)).worker.pc ≠ .dead) : ReadInv (y.step (.worker out)) r :=
  h.worker out halive

/-- (B) -/
theorem c07_inv_workerIdle (y : Sys) (r : RefLog) (h : ReadInv y r)
    (halive : (y.step .workerIdle).worker.pc ≠ .dead) : ReadInv (y.step .workerIdle) r :=
  h.workerIdle halive

/-- (B) -/
theorem c07_inv_drain (y : Sys) (r : RefLog) (h : ReadInv y r) : ReadInv (y.step .drain) r :=
  h.drain

/-- The invariant after every truncate-free history with a live worker. -/
theorem c07_inv_reachable (cfg : Cfg) (steps : List Step) (r : RefLog)
    (hsteps : ∀ st ∈ steps, st.journal = true)
    (hlegal : RefLog.run {} (stepOps steps) = some r)
    (hops : ∀ op ∈ stepOps steps, op.c07)
    (halive : ((Sys.fresh cfg).run steps).worker.pc ≠ .dead) :
    ReadInv ((Sys.fresh cfg).run steps) r :=
  (run_readInv steps _ {} r (fresh_readInv cfg) hsteps hlegal hops halive).1

/-! ### 4. The property -/

/-- **C07 (histories in which log ids only grow: NO `truncate` op).** For every
configuration — any chunk limits, any payload-cache limits including 0 — and
every history of calls, flushes, worker steps (any outcome), `workerIdle` and
`drain` steps on a store opened on an empty directory: if the calls, in order,
are legal and accepted by the reference log starting from the empty log,
reaching `r`, every op is `small` and well-formed (`Op.c07`: `Op.small`,
`Op.WF`, not a `truncate`) and the worker is alive at the end, then the final
store reports `r`'s state, every `read(a, b)` returns exactly `r`'s entries in
`[a, b)` as `ok id payload` — original payload, no error — and so does the
dump iterator; moreover every call along the way returned `ok`.

Partial (`_partial`): `truncate` ops are excluded because of the known finding
described in the header (log-id eviction boundary vs. re-appended ids); see the
model-computed counterexample at the end of this file. -/
theorem c07_reads_partial (cfg : Cfg) (steps : List Step) (r : RefLog)
    (hsteps : ∀ st ∈ steps, st.journal = true)
    (hlegal : RefLog.run {} (stepOps steps) = some r)
    (hops : ∀ op ∈ stepOps steps, op.c07)
    (halive : ((Sys.fresh cfg).run steps).worker.pc ≠ .dead) :
    (∃ s, ((Sys.fresh cfg).run steps).store = some s ∧ s.st = r.state ∧
      (∀ a b, (s.read ((Sys.fresh cfg).run steps).fs a b).1
          = (r.read a b).map (fun e => ReadItem.ok e.1 e.2)) ∧
      s.iter ((Sys.fresh cfg).run steps).fs = r.entries.map (fun e => ReadItem.ok e.1 e.2)) ∧
    (∀ pre op post, steps = pre ++ Step.call op :: post →
      ∃ seg, (((Sys.fresh cfg).run pre).call op).1 = .ok seg) := by
  obtain ⟨h, hcalls⟩ := run_readInv steps _ {} r (fresh_readInv cfg) hsteps hlegal hops halive
  exact ⟨h.read, hcalls⟩

/-! ### 5. Worker steps and drains are invisible to readers -/

/-- Steps that are not caller-thread writes: worker progress and cache drains. -/
def Step.background : Step → Bool
  | .worker _ => true
  | .workerIdle => true
  | .drain => true
  | _ => false

theorem stepOps_filter_background (steps : List Step) :
    stepOps (steps.filter (fun st => !st.background)) = stepOps steps := by
  induction steps with
  | nil => rfl
  | cons st rest ih =>
    rw [List.filter_cons]
    cases st with
    | call op => rw [if_pos (by simp [Step.background])]; simp only [stepOps, ih]
    | flush cb => rw [if_pos (by simp [Step.background])]; simp only [stepOps, ih]
    | drop => rw [if_pos (by simp [Step.background])]; simp only [stepOps, ih]
    | openWith c => rw [if_pos (by simp [Step.background])]; simp only [stepOps, ih]
    | worker out => rw [if_neg (by simp [Step.background])]; simp only [stepOps, ih]
    | workerIdle => rw [if_neg (by simp [Step.background])]; simp only [stepOps, ih]
    | drain => rw [if_neg (by simp [Step.background])]; simp only [stepOps, ih]

theorem journal_of_filter_background {steps1 steps2 : List Step}
    (hsame : steps1.filter (fun st => !st.background) = steps2.filter (fun st => !st.background))
    (h1 : ∀ st ∈ steps1, st.journal = true) : ∀ st ∈ steps2, st.journal = true := by
  intro st hst
  by_cases hb : st.background = true
  · cases st <;> simp [Step.background] at hb <;> rfl
  · have : st ∈ steps2.filter (fun st => !st.background) := by
      simp only [List.mem_filter]; exact ⟨hst, by simpa using hb⟩
    rw [← hsame] at this
    exact h1 st (List.mem_filter.mp this).1

/-- **Corollary.** Inserting or removing worker steps (any outcome),
`workerIdle` and `drain` steps anywhere in a truncate-free history does not
change what readers see: two histories with the same calls and flushes, in the
same order, both leaving the worker alive, report the same state and return the
same result for every read and for the dump iterator (both equal the
reference). -/
theorem c07_worker_steps_invisible (cfg : Cfg) (steps1 steps2 : List Step) (r : RefLog)
    (hsame : steps1.filter (fun st => !st.background) = steps2.filter (fun st => !st.background))
    (hsteps : ∀ st ∈ steps1, st.journal = true)
    (hlegal : RefLog.run {} (stepOps steps1) = some r)
    (hops : ∀ op ∈ stepOps steps1, op.c07)
    (halive1 : ((Sys.fresh cfg).run steps1).worker.pc ≠ .dead)
    (halive2 : ((Sys.fresh cfg).run steps2).worker.pc ≠ .dead) :
    let y1 := (Sys.fresh cfg).run steps1
    let y2 := (Sys.fresh cfg).run steps2
    ∃ s1 s2, y1.store = some s1 ∧ y2.store = some s2 ∧ s1.st = s2.st ∧
      (∀ a b, (s1.read y1.fs a b).1 = (s2.read y2.fs a b).1) ∧ s1.iter y1.fs = s2.iter y2.fs := by
  intro y1 y2
  have hopsEq : stepOps steps2 = stepOps steps1 := by
    rw [← stepOps_filter_background steps2, ← hsame, stepOps_filter_background]
  obtain ⟨⟨s1, hs1, hst1, hrd1, hit1⟩, _⟩ := c07_reads_partial cfg steps1 r hsteps hlegal hops halive1
  obtain ⟨⟨s2, hs2, hst2, hrd2, hit2⟩, _⟩ := c07_reads_partial cfg steps2 r
    (journal_of_filter_background hsame hsteps) (by rw [hopsEq]; exact hlegal)
    (by rw [hopsEq]; exact hops) halive2
  exact ⟨s1, s2, hs1, hs2, hst1.trans hst2.symm, fun a b => (hrd1 a b).trans (hrd2 a b).symm,
    hit1.trans hit2.symm⟩

/-- The same for the cache configuration: two configurations that differ only
in the payload-cache limits return the same result for every read after the
same truncate-free history. -/
theorem c07_cache_limits_invisible (cfg : Cfg) (cacheItems cacheCap : Nat) (steps : List Step) (r : RefLog)
    (hsteps : ∀ st ∈ steps, st.journal = true)
    (hlegal : RefLog.run {} (stepOps steps) = some r)
    (hops : ∀ op ∈ stepOps steps, op.c07)
    (halive1 : ((Sys.fresh cfg).run steps).worker.pc ≠ .dead)
    (halive2 : ((Sys.fresh { cfg with cacheItems := cacheItems, cacheCap := cacheCap }).run steps).worker.pc
      ≠ .dead) :
    let y1 := (Sys.fresh cfg).run steps
    let y2 := (Sys.fresh { cfg with cacheItems := cacheItems, cacheCap := cacheCap }).run steps
    ∃ s1 s2, y1.store = some s1 ∧ y2.store = some s2 ∧ s1.st = s2.st ∧
      (∀ a b, (s1.read y1.fs a b).1 = (s2.read y2.fs a b).1) ∧ s1.iter y1.fs = s2.iter y2.fs := by
  intro y1 y2
  obtain ⟨⟨s1, hs1, hst1, hrd1, hit1⟩, _⟩ := c07_reads_partial cfg steps r hsteps hlegal hops halive1
  obtain ⟨⟨s2, hs2, hst2, hrd2, hit2⟩, _⟩ :=
    c07_reads_partial { cfg with cacheItems := cacheItems, cacheCap := cacheCap } steps r hsteps hlegal
      hops halive2
  exact ⟨s1, s2, hs1, hs2, hst1.trans hst2.symm, fun a b => (hrd1 a b).trans (hrd2 a b).symm,
    hit1.trans hit2.symm⟩

/-! ### Non-vacuity -/

/-- A cache that may hold nothing, chunk rotation after every second record. -/
def c07Cfg : Cfg := { maxRecords := 2, cacheItems := 0, cacheCap := 0 }

/-- A truncate-free history with appends in two terms, a flush with a short
write, a failed sync (`eio`), drains, a purge, and worker steps. -/
def c07Example : List Step :=
  [ .call (.saveVote ⟨1, 7⟩),
    .call (.append [(⟨1, 0⟩, [1, 2, 3]), (⟨1, 1⟩, [4]), (⟨1, 2⟩, [5, 6])]),
    .flush (some 0),
    .worker .ok, .worker (.short 3), .worker .ok,
    .workerIdle,
    .call (.append [(⟨2, 3⟩, [9])]),
    .drain,
    .call (.purge ⟨1, 0⟩),
    .flush none,
    .worker .eio,
    .workerIdle,
    .call (.commit ⟨2, 3⟩),
    .call (.append [(⟨2, 4⟩, [7, 7])]),
    .drain ]

/-- The hypotheses of `c07_reads_partial` hold for it, and the reference log
ends with four live entries. -/
example :
    (∀ st ∈ c07Example, st.journal = true) ∧
    RefLog.run {} (stepOps c07Example) = some
      { vote := some ⟨1, 7⟩, last := some ⟨2, 4⟩, committed := some ⟨2, 3⟩, purged := some ⟨1, 0⟩,
        entries := [(⟨1, 1⟩, [4]), (⟨1, 2⟩, [5, 6]), (⟨2, 3⟩, [9]), (⟨2, 4⟩, [7, 7])] } ∧
    (∀ op ∈ stepOps c07Example, op.c07) ∧
    ((Sys.fresh c07Cfg).run c07Example).worker.pc ≠ .dead := by
  refine ⟨by decide, by decide, ?_, by decide⟩
  intro op hop
  simp only [c07Example, stepOps, List.mem_cons, List.not_mem_nil, or_false] at hop
  rcases hop with h | h | h | h | h | h <;> subst h <;>
    simp [Op.c07, Op.small, Op.WF, smallId, LogId.WF, bytesWF, U64, U32]

/- And the implementation side of the same history, computed by the model:
with a cache that holds only the newest entry, the read returns all four live
entries with their payloads; three of them are cache misses served from the
chunk files. -/
set_option maxRecDepth 100000 in
example :
    ∃ s, ((Sys.fresh c07Cfg).run c07Example).store = some s ∧
      (s.read ((Sys.fresh c07Cfg).run c07Example).fs 0 10).1 =
        [ReadItem.ok ⟨1, 1⟩ [4], ReadItem.ok ⟨1, 2⟩ [5, 6], ReadItem.ok ⟨2, 3⟩ [9], ReadItem.ok ⟨2, 4⟩ [7, 7]] ∧
      s.cache.items = [(⟨2, 4⟩, [7, 7])] ∧
      (s.read ((Sys.fresh c07Cfg).run c07Example).fs 0 10).2.miss = 3 := by
  refine ⟨_, rfl, ?_, ?_, ?_⟩ <;> decide

/-! ### Why `_partial`: the counterexample with `truncate` -/

/-- Three entries are appended, flushed and synced (the boundary becomes
`(1, 2)`); index 1 and 2 are truncated; a new entry `(1, 1)` is appended: its id
is at or below the boundary, so it is evicted at once, while its record is
still in the pending buffer of the open chunk. -/
def c07Counter : List Step :=
  [ .call (.append [(⟨1, 0⟩, [1]), (⟨1, 1⟩, [2]), (⟨1, 2⟩, [3])]),
    .flush none,
    .workerIdle,
    .call (.truncate 1),
    .call (.append [(⟨1, 1⟩, [9])]) ]

/- All hypotheses of `c07_reads_partial` except "no `truncate`" hold, the
reference log has the live entry `((1, 1), [9])`, and `read` returns `err eof`
for it. -/
set_option maxRecDepth 100000 in
example :
    (∀ st ∈ c07Counter, st.journal = true) ∧
    ((Sys.fresh c07Cfg).run c07Counter).worker.pc ≠ .dead ∧
    (RefLog.run {} (stepOps c07Counter)).map (·.entries) = some [(⟨1, 0⟩, [1]), (⟨1, 1⟩, [9])] ∧
    ∃ s, ((Sys.fresh c07Cfg).run c07Counter).store = some s ∧
      (s.read ((Sys.fresh c07Cfg).run c07Counter).fs 0 10).1 =
        [ReadItem.ok ⟨1, 0⟩ [1], ReadItem.err .eof] := by
  refine ⟨by decide, by decide, by decide, _, rfl, by decide⟩

end RaftLog
