/-
C11 (journal part; groundwork for C02 / C03) — The byte-level journal invariant.

At every point of a history of calls, flushes, worker steps (any outcome that
does not kill the worker), `workerIdle` and `drain` steps on a store opened on
an empty directory, for every live chunk (closed or open):

  bytes already in its file ++ bytes still in flight to it inside the flush
  worker ++ (open chunk only) the pending buffer
    = the concatenated encodings of a list of well-formed records whose first
      element is a `State` record and whose sizes give exactly the chunk's
      offsets list;

chunks abut (each ends where the next begins, the last closed one where the
open one begins), the worker's newest file followed by the files announced to
it ascends to the open chunk, all of them exist, and no file sits at or beyond
the journal end (so chunk rotation never fails with `AlreadyExists`).

Quantification: every configuration; every history of such steps whose ops
carry values the Rust types can hold (`Op.WF`: u64 ids, payloads and user data
below 4 GiB); the worker alive at the end (a dead worker stays dead, so it was
alive all along). Accepted, rejected and panicking calls are all covered.

Definitions and helper lemmas: Proofs/Journal.lean (definitions, `J`),
Proofs/JournalWorker.lean, Proofs/JournalStore.lean, Proofs/JournalSys.lean,
Proofs/JournalCor.lean.
-/
import RaftLogModel.Proofs.JournalCor
namespace RaftLog

/-! ### What `Worker.inflight` is, by control state -/

theorem inflight_idle (w : Worker) (h : w.pc = .idle) (id : Nat) :
    w.inflight id = inflightFrom (newestId w.files) w.queue id := by
  simp [Worker.inflight, infl, Worker.rest, Worker.cur, h, WPc.todoBytes, WPc.inHand]

theorem inflight_got (w : Worker) (r : WReq) (h : w.pc = .got r) (id : Nat) :
    w.inflight id = inflightFrom (newestId w.files) (r :: w.queue) id := by
  simp [Worker.inflight, infl, Worker.rest, Worker.cur, h, WPc.todoBytes, WPc.inHand]

theorem inflight_writing (w : Worker) (todo : List Bytes) (batch : List WReq) (tail : Option WReq)
    (h : w.pc = .writing todo batch tail) (id : Nat) :
    w.inflight id = (if newestId w.files = id then todo.flatten else []) ++
      inflightFrom (newestId w.files) (tail.toList ++ w.queue) id := by
  simp only [Worker.inflight, infl, Worker.rest, Worker.cur, h, WPc.todoBytes, WPc.inHand]

theorem inflight_syncOld (w : Worker) (batch : List WReq) (tail : Option WReq)
    (h : w.pc = .syncOld batch tail) (id : Nat) :
    w.inflight id = inflightFrom (newestId w.files) (tail.toList ++ w.queue) id := by
  simp [Worker.inflight, infl, Worker.rest, Worker.cur, h, WPc.todoBytes, WPc.inHand]

theorem inflight_syncNew (w : Worker) (batch : List WReq) (tail : Option WReq)
    (h : w.pc = .syncNew batch tail) (id : Nat) :
    w.inflight id = inflightFrom (newestId w.files) (tail.toList ++ w.queue) id := by
  simp [Worker.inflight, infl, Worker.rest, Worker.cur, h, WPc.todoBytes, WPc.inHand]

theorem inflight_unlinking (w : Worker) (ids : List Nat) (h : w.pc = .unlinking ids) (id : Nat) :
    w.inflight id = inflightFrom (newestId w.files) w.queue id := by
  simp [Worker.inflight, infl, Worker.rest, Worker.cur, h, WPc.todoBytes, WPc.inHand]

/-! ### The invariant spelled out -/

/-- What `J y` says, item by item (1 layout, 2 open chunk, 3 closed chunks,
4 worker tracking and the file-system bound). -/
theorem c11_journal_spec {y : Sys} (h : J y) :
    ∃ s, y.store = some s ∧ y.worker.pc ≠ .dead ∧
      -- 1. layout
      (∀ offs ∈ s.chunks, 2 ≤ offs.length ∧ Incr offs) ∧ Chained s.chunks ∧
      (∀ c ∈ s.closed, c.id < lastOff c.offsets ∧ lastOff c.offsets ≤ s.openId) ∧
      -- 2. the open chunk
      (∃ rs, AllWF rs ∧ (∃ st rest, rs = .state st :: rest) ∧
        offsetsFrom s.openId (recSizes rs) = s.openOffsets ∧
        fdata y.fs s.openId ++ y.worker.inflight s.openId ++ s.pending = encAll rs) ∧
      -- 3. every closed chunk
      (∀ c ∈ s.closed, ∃ rs, AllWF rs ∧ (∃ st rest, rs = .state st :: rest) ∧
        offsetsFrom c.id (recSizes rs) = c.offsets ∧
        fdata y.fs c.id ++ y.worker.inflight c.id = encAll rs) ∧
      -- 4. worker tracking, files
      y.worker.announced.getLast? = some s.openId ∧ Incr y.worker.announced ∧
      (∀ a ∈ y.worker.announced, a ∈ Fs.ids y.fs ∧ a ≤ s.openId) ∧
      (∀ c ∈ s.closed, c.id ∈ Fs.ids y.fs) ∧ (∀ i ∈ Fs.ids y.fs, i < s.openEnd) ∧
      s.st.WF := by
  obtain ⟨s, hs, hd, hj⟩ := h
  refine ⟨s, hs, hd, ?_, hj.chained, ?_, ?_, ?_, hj.annLast, hj.annAsc,
    fun a ha => ⟨hj.annFs a ha, hj.ann_le a ha⟩, hj.closedFs, hj.fsLt, hj.stWF⟩
  · intro offs ho
    simp only [Store.chunks, List.mem_append, List.mem_map, List.mem_singleton] at ho
    rcases ho with ⟨c, hc, rfl⟩ | rfl
    · exact ⟨(hj.closedBytes c hc).length, (hj.closedBytes c hc).incr⟩
    · exact ⟨hj.openBytes.length, hj.openBytes.incr⟩
  · intro c hc
    exact ⟨(hj.closedBytes c hc).head_lt, hj.closedLe c hc⟩
  · obtain ⟨rs, h1, h2, h3, h4⟩ := hj.openBytes
    exact ⟨rs, h1, h2, h3, h4⟩
  · intro c hc
    obtain ⟨rs, h1, h2, h3, h4⟩ := hj.closedBytes c hc
    exact ⟨rs, h1, h2, h3, h4⟩

/-! ### (A) the fresh store, (B) every step -/

/-- (A) -/
theorem c11_journal_fresh (cfg : Cfg) : J (Sys.fresh cfg) := fresh_J cfg

/-- (B) a call, whatever its result (accepted, rejected, panicking). -/
theorem c11_journal_call (y : Sys) (op : Op) (h : J y) (hop : op.WF) : J (y.step (.call op)) :=
  h.call op hop

/-- (B) a call never fails with `exists`: the rotation target is always free. -/
theorem c11_call_never_exists (y : Sys) (op : Op) (h : J y) (hop : op.WF) :
    (y.call op).1 ≠ .err .exists := h.call_not_exists op hop

/-- (B) -/
theorem c11_journal_flush (y : Sys) (cb : Option Nat) (h : J y) : J (y.step (.flush cb)) := h.flush cb

/-- (B) any outcome (`ok`, `eio` at a sync, `short k`), provided the worker is
not dead afterwards. -/
theorem c11_journal_worker (y : Sys) (out : Outcome) (h : J y)
    (halive : (y.step (.worker out)).worker.pc ≠ .dead) : J (y.step (.worker out)) := h.worker out halive

/-- (B) -/
theorem c11_journal_workerIdle (y : Sys) (h : J y)
    (halive : (y.step .workerIdle).worker.pc ≠ .dead) : J (y.step .workerIdle) := h.workerIdle halive

/-- (B) -/
theorem c11_journal_drain (y : Sys) (h : J y) : J (y.step .drain) := h.drain

/-- **C11 (journal).** The invariant holds after every history of calls,
flushes, worker steps, `workerIdle` and `drain` steps from a freshly opened
store, if the worker is alive at the end. -/
theorem c11_journal_invariant (cfg : Cfg) (steps : List Step)
    (hsteps : ∀ st ∈ steps, st.journal = true) (hwf : ∀ op ∈ stepOps steps, op.WF)
    (halive : ((Sys.fresh cfg).run steps).worker.pc ≠ .dead) : J ((Sys.fresh cfg).run steps) :=
  run_J steps _ (fresh_J cfg) hsteps hwf halive

/-! ### (C) corollaries -/

/-- **The segment a call returns holds the record it journalled.** If a
single-record call (`s.opRecord op = some r`) returns `ok seg`, then `seg` is
`(old journal end, |encRecord r|)` and, in the new state, the bytes of the chunk
that was open (file ++ in flight ++ pending if it is still the open chunk) at
positions `[seg.off - id, seg.off - id + seg.size)` are exactly `encRecord r`. -/
theorem c11_segment_holds_record (y : Sys) (s : Store) (op : Op) (r : Record) (seg : Seg)
    (h : J y) (hs : y.store = some s) (hop : op.WF) (hrec : s.opRecord op = some r)
    (hok : (y.call op).1 = .ok seg) :
    ∃ s', (y.call op).2.1.store = some s' ∧
      seg = ⟨s.openEnd, (encRecord r).length⟩ ∧ s.openId ≤ seg.off ∧
      ((chunkBytes s' (y.call op).2.1.fs (y.call op).2.1.worker s.openId).drop (seg.off - s.openId)).take seg.size
        = encRecord r := by
  obtain ⟨s0, hs0, hd, hj⟩ := h
  rw [hs] at hs0; cases hs0
  obtain ⟨e1, e2⟩ := Sys.call_eq y op s hs hd
  rw [e2] at hok
  obtain ⟨g1, g2⟩ := call_segment y.fs.has op r hj hop (Fs.has_false_of_lt hj.fsLt) hrec seg hok
  rw [e1]
  refine ⟨_, rfl, g1, by rw [g1]; exact Nat.le_of_lt hj.openId_lt, ?_⟩
  have hb : chunkBytes (s.call y.fs.has op).2.1 (effFs (s.call y.fs.has op).2.2 y.fs)
      (y.worker.push (effQ (s.call y.fs.has op).2.2)).settle s.openId
      = chunkBytes s y.fs y.worker s.openId ++ encRecord r := by
    rw [← g2]
    simp only [chunkBytes, Worker.settle_inflight]
  have hlen : (chunkBytes s y.fs y.worker s.openId).length = s.openEnd - s.openId := by
    have := hj.openBytes.lastOff_eq
    simp only [chunkBytes, if_true]
    simp only [Store.openEnd, Store.openId] at this ⊢
    omega
  show List.take seg.size (List.drop (seg.off - s.openId) (chunkBytes _ _ _ s.openId)) = encRecord r
  rw [hb, g1, ← hlen]
  exact slice_append _ _

/-- **When nothing is in flight or pending, the files are exactly the journal.**
With the worker quiet (idle on an empty queue) and an empty pending buffer,
every live chunk's file holds exactly the encodings of its records: `parseChunk`
returns them cleanly, its length is `lastOff offsets - id`; consecutive files
abut (`Chained`, and each file's length is its chunk's extent); and
`on_disk_size` is the sum of the file lengths. -/
theorem c11_quiescent_files_exact (y : Sys) (s : Store) (h : J y) (hs : y.store = some s)
    (hq : y.worker.quiet = true) (hp : s.pending = []) :
    (∀ offs ∈ s.chunks, ∃ f rs, y.fs.find (offs.headD 0) = some f ∧
        f.data = encAll rs ∧ AllWF rs ∧ (∃ st rest, rs = .state st :: rest) ∧
        offsetsFrom (offs.headD 0) (recSizes rs) = offs ∧
        parseChunk f.data = (rs.map (fun r => (r, (encRecord r).length)), .clean, []) ∧
        f.data.length = lastOff offs - offs.headD 0 ∧ offs.headD 0 < lastOff offs) ∧
    Chained s.chunks ∧
    s.onDiskSize = sumNat (s.chunks.map (fun offs => (fdata y.fs (offs.headD 0)).length)) := by
  obtain ⟨s0, hs0, hd, hj⟩ := h
  rw [hs] at hs0; cases hs0
  -- nothing in flight
  have hinf : ∀ id, y.worker.inflight id = [] := by
    intro id
    unfold Worker.quiet at hq
    split at hq
    · rename_i hpc
      have hqe : y.worker.queue = [] := by simpa using hq
      simp [Worker.inflight, infl, Worker.rest, hpc, hqe, WPc.todoBytes, WPc.inHand, inflightFrom]
    · rename_i hpc; exact absurd hpc hd
    · cases hq
  -- every chunk: ChunkOK of its file data, and the file exists
  have hall : ∀ offs ∈ s.chunks, ChunkOK offs (fdata y.fs (offs.headD 0)) ∧ offs.headD 0 ∈ Fs.ids y.fs := by
    intro offs ho
    simp only [Store.chunks, List.mem_append, List.mem_map, List.mem_singleton] at ho
    rcases ho with ⟨c, hc, rfl⟩ | rfl
    · have := hj.closedBytes c hc
      rw [hinf, List.append_nil] at this
      exact ⟨this, hj.closedFs c hc⟩
    · have := hj.openBytes
      rw [hinf, hp, List.append_nil, List.append_nil] at this
      exact ⟨this, hj.annFs _ hj.openId_mem⟩
  refine ⟨?_, hj.chained, ?_⟩
  · intro offs ho
    obtain ⟨hok, hid⟩ := hall offs ho
    have hlen := hok.lastOff_eq
    have hlt := hok.head_lt
    obtain ⟨rs, h1, h2, h3, h4⟩ := hok
    have hsome := (Fs.find_isSome_iff y.fs (offs.headD 0)).mpr hid
    cases hf : y.fs.find (offs.headD 0) with
    | none => rw [hf] at hsome; cases hsome
    | some f =>
      have hfd : fdata y.fs (offs.headD 0) = f.data := by unfold fdata; rw [hf]
      rw [hfd] at h4 hlen
      refine ⟨f, rs, rfl, h4, h1, h2, h3, ?_, by omega, hlt⟩
      rw [h4]; exact parseChunk_encAll rs h1
  · have hch : Chained (s.closed.map (fun c : Closed => c.offsets) ++ [s.openOffsets]) := hj.chained
    have hsum := chunks_sum (s.closed.map (fun c : Closed => c.offsets)) s.openOffsets hch
      (fun x hx => Nat.le_of_lt (hall x hx).1.head_lt)
    have hmap : s.chunks.map (fun offs => (fdata y.fs (offs.headD 0)).length)
        = s.chunks.map (fun x => lastOff x - x.headD 0) := by
      apply List.map_congr_left
      intro offs ho
      have := (hall offs ho).1.lastOff_eq
      omega
    rw [hmap]
    show s.onDiskSize = sumNat ((s.closed.map (fun c : Closed => c.offsets) ++ [s.openOffsets]).map _)
    rw [hsum.1]
    unfold Store.onDiskSize
    cases hc : s.closed with
    | nil => rfl
    | cons c rest => rfl

/-! ### Non-vacuity and a remark on item 4 -/

/-- A history with chunk rotation after every second record, a flush, a short
write, a purge and worker steps: its steps are of the kinds covered, its ops
well-formed, and the worker is alive at the end (computed by the model). -/
def c11JournalExample : List Step :=
  [ .call (.saveVote ⟨1, 7⟩),
    .call (.append [(⟨1, 0⟩, [1, 2, 3]), (⟨1, 1⟩, [4]), (⟨1, 2⟩, [5, 6])]),
    .flush (some 0),
    .worker .ok,
    .worker (.short 3),
    .worker .ok,
    .call (.purge ⟨1, 0⟩),
    .drain,
    .workerIdle,
    .call (.saveUserData (some [42])) ]

example :
    (∀ st ∈ c11JournalExample, st.journal = true) ∧
    (∀ op ∈ stepOps c11JournalExample, op.WF) ∧
    ((Sys.fresh { maxRecords := 2 }).run c11JournalExample).worker.pc ≠ .dead ∧
    (∃ s, ((Sys.fresh { maxRecords := 2 }).run c11JournalExample).store = some s ∧ s.closed.length = 4) := by
  refine ⟨by decide, ?_, by decide, ⟨_, rfl, by decide⟩⟩
  intro op hop
  simp only [c11JournalExample, stepOps, List.mem_cons, List.not_mem_nil, or_false] at hop
  rcases hop with h | h | h | h <;> subst h <;>
    simp [Op.WF, LogId.WF, bytesWF, U64, U32]

/-- The hypotheses of the two corollaries are satisfiable: a call that returns
`ok` for a single-record op, and a quiescent state with nothing pending. -/
example :
    let y := (Sys.fresh { maxRecords := 2 }).run [.call (.saveVote ⟨1, 7⟩), .flush none, .workerIdle]
    (∃ s, y.store = some s ∧ s.pending = [] ∧ s.opRecord (.commit ⟨0, 0⟩) = some (.commit ⟨0, 0⟩)) ∧
      y.worker.quiet = true ∧ y.worker.pc ≠ .dead ∧ (y.call (.commit ⟨0, 0⟩)).1 = .ok ⟨80, 28⟩ := by
  decide

/-- Remark on item 4. "Every announced id is a chunk id of `closed ++ [open]`"
is NOT an invariant: a purge can drop closed chunks whose `appendFile` request
the worker has not processed yet. Here the worker still has to be told about
chunks 51, 118 and 180 while only chunk 180 is live. The invariant proved
instead bounds every announced id by the open chunk id (ascending order, last
= open chunk), which is what items 2–3 need. -/
example :
    let y := (Sys.fresh { maxRecords := 2 }).run
      [.call (.append [(⟨1, 0⟩, [1])]), .call (.append [(⟨1, 1⟩, [2])]), .call (.purge ⟨1, 1⟩)]
    y.worker.announced = [0, 51, 118, 180] ∧
      y.store.map (fun s => s.closed.map Closed.id ++ [s.openId]) = some [180] := by
  decide

end RaftLog
