/-
C01 — The store refines a plain in-memory Raft log.

After any sequence of accepted, Raft-legal writes (vote, append, truncate,
purge, commit, user data), interleaved with flushes and worker steps of any
outcome, reading any index range returns exactly the entries appended and not
since truncated or purged, in index order, with their log id and payload, and
the reported state is the reference log's (`RefLog`, Spec/RefLog.lean). The
statement holds for every configuration, so the chunk limits are invisible.

Quantification: histories of `.call`, `.flush`, `.worker out`, `.workerIdle`
steps from a store opened on an empty directory, whose calls are legal and
accepted by the reference log, with no log index equal to u64::MAX
(`Op.small`, the class excluded by C16) and whose appended entries fit the
payload cache (no eviction; reads after eviction are another property).

Helper lemmas: Proofs/Refine.lean.
-/
import RaftLogModel.Proofs.Refine
namespace RaftLog

/-! ### The step theorem (store level) -/

/-- One legal, accepted op on a store that refines `r`, with no chunk file at
or beyond the journal end and enough cache room for what the op appends: the
call returns `ok`, and the new store refines the new reference log. `Growth`
says the journal end only moved forward, every file created has an id in
`[old end, new end)`, and the cache grew by at most the appended entries. -/
theorem c01_step (s : Store) (r r' : RefLog) (fsHas : Nat → Bool) (op : Op)
    (h : Refines s r) (hfs : ∀ i, s.openEnd ≤ i → fsHas i = false)
    (hl : r.legal op = true) (hc : r.call op = .ok r') (hsm : op.small)
    (hn : s.cache.items.length + op.count ≤ s.cache.maxItems)
    (hb : s.cache.size + op.bytes ≤ s.cache.capacity) :
    (∃ seg, (s.call fsHas op).1 = .ok seg) ∧ Refines (s.call fsHas op).2.1 r' ∧
      Growth s (s.call fsHas op).2.1 (s.call fsHas op).2.2 op.count op.bytes := by
  obtain ⟨seg, s', effs, heq, href, hg⟩ := call_refines fsHas h hfs hl hc hsm hn hb
  rw [heq]
  exact ⟨⟨seg, rfl⟩, href, hg⟩

/-- Every legal accepted op keeps the reference log well-formed. -/
theorem c01_spec_wf (r r' : RefLog) (op : Op) (h : r.WF) (hl : r.legal op = true)
    (hc : r.call op = .ok r') : r'.WF :=
  RefLog.call_wf h hl hc

/-! ### The read theorem -/

/-- Reading any range of a refining store returns exactly the reference log's
entries in that range, for every file system: each lookup is a cache hit. -/
theorem c01_read (s : Store) (r : RefLog) (h : Refines s r) (fs : Fs) (a b : Nat) :
    (s.read fs a b).1 = (r.read a b).map (fun e => ReadItem.ok e.1 e.2) :=
  h.read fs a b

theorem c01_iter (s : Store) (r : RefLog) (h : Refines s r) (fs : Fs) :
    s.iter fs = r.entries.map (fun e => ReadItem.ok e.1 e.2) :=
  h.iter fs

/-- The reported state is the reference log's. -/
theorem c01_state (s : Store) (r : RefLog) (h : Refines s r) : s.st = r.state := h.st

/-! ### History theorem, store level -/

/-- Fold `Store.call` over a list of ops (results dropped). -/
def Store.runOps (fsHas : Nat → Bool) (s : Store) (ops : List Op) : Store :=
  ops.foldl (fun s o => (s.call fsHas o).2.1) s

/-- Store-level history: starting from a refining store, with no chunk file at
or beyond the journal end (calls only create files below the new end, so a
fixed `fsHas` stays suitable), every call of a legal accepted history returns
`ok` and the final store refines the final reference log. -/
theorem c01_refines_store (fsHas : Nat → Bool) (ops : List Op) :
    ∀ (s : Store) (r r' : RefLog), Refines s r → (∀ i, s.openEnd ≤ i → fsHas i = false) →
    r.run ops = some r' → (∀ op ∈ ops, op.small) →
    s.cache.items.length + opsCount ops ≤ s.cache.maxItems →
    s.cache.size + opsBytes ops ≤ s.cache.capacity →
    Refines (s.runOps fsHas ops) r' ∧
    ∀ pre op post, ops = pre ++ op :: post →
      ∃ seg, ((s.runOps fsHas pre).call fsHas op).1 = .ok seg := by
  induction ops with
  | nil =>
    intro s r r' h _ hr _ _ _
    simp only [RefLog.run, Option.some.injEq] at hr
    subst hr
    refine ⟨h, ?_⟩
    intro pre op post hsplit
    cases pre <;> cases hsplit
  | cons op rest ih =>
    intro s r r' h hfs hr hsm hn hb
    simp only [RefLog.run] at hr
    simp only [opsCount, opsBytes] at hn hb
    split at hr
    · rename_i hl
      split at hr
      · rename_i r1 hc
        obtain ⟨seg, s', effs, heq, href, hg⟩ :=
          call_refines fsHas h hfs hl hc (hsm op List.mem_cons_self) (by omega) (by omega)
        have hs' : (s.call fsHas op).2.1 = s' := by rw [heq]
        obtain ⟨g1, g2⟩ := ih s' r1 r' href
          (fun i hi => hfs i (by have := hg.openEnd; omega)) hr
          (fun o ho => hsm o (List.mem_cons_of_mem _ ho))
          (by have := hg.items; have := hg.maxItems; omega)
          (by have := hg.size; have := hg.capacity; omega)
        refine ⟨by simp only [Store.runOps, List.foldl_cons, hs']; exact g1, ?_⟩
        intro pre op' post hsplit
        cases pre with
        | nil =>
          simp only [List.nil_append, List.cons.injEq] at hsplit
          obtain ⟨hop, _⟩ := hsplit
          subst hop
          exact ⟨seg, by simp only [Store.runOps, List.foldl_nil, heq]⟩
        | cons p pre' =>
          simp only [List.cons_append, List.cons.injEq] at hsplit
          obtain ⟨hp, hrest⟩ := hsplit
          subst hp
          simp only [Store.runOps, List.foldl_cons, hs']
          exact g2 pre' op' post hrest
      · cases hr
    · cases hr

/-! ### History theorem, system level: the property -/

theorem SysRef.mono {y : Sys} {r : RefLog} {n b n' b' : Nat} (h : SysRef y r n b)
    (hn : n' ≤ n) (hb : b' ≤ b) : SysRef y r n' b' := by
  obtain ⟨s, hs, href, hfs, h1, h2⟩ := h
  exact ⟨s, hs, href, hfs, by omega, by omega⟩

/-- **C01.** For every configuration and every history of calls, flushes and
worker steps (any outcome, any interleaving) on a store opened on an empty
directory: if the calls, in order, are legal and accepted by the reference log
starting from the empty log, reaching `r`, no index is u64::MAX and the
appended entries fit the payload cache, then the final store reports `r`'s
state, every `read(a, b)` returns exactly `r`'s entries in `[a, b)` with their
ids and payloads (and so does the dump iterator), and every call along the way
was accepted by the store (`ok`); the system-level result of that call is the
same `ok` unless the worker had died of an injected I/O error before (then the
request cannot be sent and the caller sees `sendFailed`; see `c01_calls_ok`). -/
theorem c01_refines (cfg : Cfg) (steps : List Step) (r : RefLog)
    (hsteps : ∀ st ∈ steps, st.c01 = true)
    (hlegal : RefLog.run {} (stepOps steps) = some r)
    (hsmall : ∀ op ∈ stepOps steps, op.small)
    (hitems : opsCount (stepOps steps) ≤ cfg.cacheItems)
    (hbytes : opsBytes (stepOps steps) ≤ cfg.cacheCap) :
    (∃ s, ((Sys.fresh cfg).run steps).store = some s ∧ s.st = r.state ∧
      (∀ a b, (s.read ((Sys.fresh cfg).run steps).fs a b).1
          = (r.read a b).map (fun e => ReadItem.ok e.1 e.2)) ∧
      s.iter ((Sys.fresh cfg).run steps).fs = r.entries.map (fun e => ReadItem.ok e.1 e.2)) ∧
    (∀ pre op post, steps = pre ++ Step.call op :: post →
      ∃ s seg, ((Sys.fresh cfg).run pre).store = some s ∧
        (s.call ((Sys.fresh cfg).run pre).fs.has op).1 = .ok seg ∧
        ((((Sys.fresh cfg).run pre).call op).1 = .ok seg ∨
          (((Sys.fresh cfg).run pre).call op).1 = .err .sendFailed)) := by
  obtain ⟨⟨s, hs, href, _⟩, hcalls⟩ :=
    run_sysRef steps (Sys.fresh cfg) {} r ((fresh_sysRef cfg).mono hitems hbytes) hsteps hlegal hsmall
  exact ⟨⟨s, hs, href.st, fun a b => href.read _ a b, href.iter _⟩, hcalls⟩

/-- If moreover no worker step injects an I/O error (short writes are fine),
the worker is alive at every call, no send fails, and every call of the
history returns `ok` at system level. -/
theorem c01_calls_ok (cfg : Cfg) (steps : List Step) (r : RefLog)
    (hsteps : ∀ st ∈ steps, st.c01 = true) (hio : ∀ st ∈ steps, st.noEio = true)
    (hlegal : RefLog.run {} (stepOps steps) = some r)
    (hsmall : ∀ op ∈ stepOps steps, op.small)
    (hitems : opsCount (stepOps steps) ≤ cfg.cacheItems)
    (hbytes : opsBytes (stepOps steps) ≤ cfg.cacheCap) :
    ∀ pre op post, steps = pre ++ Step.call op :: post →
      ∃ seg, (((Sys.fresh cfg).run pre).call op).1 = .ok seg := by
  intro pre op post hsplit
  obtain ⟨s, seg, hs, hok, _⟩ :=
    (c01_refines cfg steps r hsteps hlegal hsmall hitems hbytes).2 pre op post hsplit
  have hpre : ∀ st ∈ pre, st.c01 = true ∧ st.noEio = true := by
    intro st hst
    have : st ∈ steps := by rw [hsplit]; exact List.mem_append_left _ hst
    exact ⟨hsteps st this, hio st this⟩
  have halive := Sys.run_alive pre (Sys.fresh cfg) (fresh_alive cfg) hpre
  exact ⟨seg, by rw [Sys.call_result_alive _ op s hs halive]; exact hok⟩

/-- **Chunking is invisible.** Two configurations that differ only in the
chunk limits (`maxRecords`, `maxSize`) report the same state and return the
same result for every read after the same legal history (with any worker
interleaving). -/
theorem c01_chunking_invisible (cfg : Cfg) (maxRecords maxSize : Nat) (steps : List Step) (r : RefLog)
    (hsteps : ∀ st ∈ steps, st.c01 = true)
    (hlegal : RefLog.run {} (stepOps steps) = some r)
    (hsmall : ∀ op ∈ stepOps steps, op.small)
    (hitems : opsCount (stepOps steps) ≤ cfg.cacheItems)
    (hbytes : opsBytes (stepOps steps) ≤ cfg.cacheCap) :
    let y1 := (Sys.fresh cfg).run steps
    let y2 := (Sys.fresh { cfg with maxRecords := maxRecords, maxSize := maxSize }).run steps
    ∃ s1 s2, y1.store = some s1 ∧ y2.store = some s2 ∧ s1.st = s2.st ∧
      (∀ a b, (s1.read y1.fs a b).1 = (s2.read y2.fs a b).1) ∧ s1.iter y1.fs = s2.iter y2.fs := by
  intro y1 y2
  obtain ⟨⟨s1, hs1, hst1, hrd1, hit1⟩, _⟩ := c01_refines cfg steps r hsteps hlegal hsmall hitems hbytes
  obtain ⟨⟨s2, hs2, hst2, hrd2, hit2⟩, _⟩ :=
    c01_refines { cfg with maxRecords := maxRecords, maxSize := maxSize } steps r hsteps hlegal hsmall
      hitems hbytes
  exact ⟨s1, s2, hs1, hs2, hst1.trans hst2.symm, fun a b => (hrd1 a b).trans (hrd2 a b).symm,
    hit1.trans hit2.symm⟩

/-! ### Non-vacuity -/

/-- A concrete legal history with a truncate, a re-append in a higher term and
a purge, interleaved with a flush and worker steps. -/
def c01Example : List Step :=
  [ .call (.saveVote ⟨1, 7⟩),
    .call (.append [(⟨1, 0⟩, [1, 2, 3]), (⟨1, 1⟩, [4]), (⟨1, 2⟩, [5, 6])]),
    .flush (some 0),
    .worker .ok,
    .call (.truncate 1),
    .call (.append [(⟨2, 1⟩, [9])]),
    .workerIdle,
    .call (.commit ⟨2, 1⟩),
    .call (.purge ⟨1, 0⟩),
    .call (.saveUserData (some [42])) ]

/-- The hypotheses of `c01_refines` / `c01_calls_ok` hold for it (for the
default configuration and for one that rotates the chunk after every second
record), and the reference log ends with one live entry. -/
example :
    (∀ st ∈ c01Example, st.c01 = true) ∧ (∀ st ∈ c01Example, st.noEio = true) ∧
    RefLog.run {} (stepOps c01Example) = some
      { vote := some ⟨1, 7⟩, last := some ⟨2, 1⟩, committed := some ⟨2, 1⟩, purged := some ⟨1, 0⟩,
        userData := some [42], entries := [(⟨2, 1⟩, [9])] } ∧
    (∀ op ∈ stepOps c01Example, op.small) ∧
    opsCount (stepOps c01Example) ≤ ({} : Cfg).cacheItems ∧
    opsBytes (stepOps c01Example) ≤ ({} : Cfg).cacheCap ∧
    opsCount (stepOps c01Example) ≤ ({ maxRecords := 2 } : Cfg).cacheItems := by
  refine ⟨by decide, by decide, by decide, ?_, by decide, by decide, by decide⟩
  intro op hop
  simp only [c01Example, stepOps, List.mem_cons, List.not_mem_nil, or_false] at hop
  rcases hop with h | h | h | h | h | h | h <;> subst h <;>
    simp [Op.small, smallId, U64]

/-- And the implementation side of the same history, with chunk rotation after
every second record, computed by the model: the read returns the reference
log's single live entry. -/
example :
    ∃ s, ((Sys.fresh { maxRecords := 2 }).run c01Example).store = some s ∧
      (s.read ((Sys.fresh { maxRecords := 2 }).run c01Example).fs 0 10).1 = [ReadItem.ok ⟨2, 1⟩ [9]] ∧
      s.closed.length = 7 := by
  refine ⟨_, rfl, ?_, ?_⟩ <;> decide

end RaftLog
