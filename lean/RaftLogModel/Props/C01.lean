import RaftLogModel.Spec.RefLog
