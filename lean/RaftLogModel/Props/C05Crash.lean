/-
C05 — Crash RECOVERABILITY (on top of the crash-safety development C03).

"After a crash at any moment, opening the directory succeeds without manual repair, and
the recovered store accepts further writes, flushes and a further restart with consistent
results. Recovery never panics."

Crash model: `CrashImage` of `Props/C03.lean` (per linked file independently: cut between
the durable and the written length, or cut at a record boundary and followed by zeros).
Histories: calls that are legal and accepted by the reference log (well-formed, small),
flushes, worker steps of any outcome, `workerIdle`, `drain`, from a freshly opened store,
worker alive at the end — the hypotheses of `c03_crash_prefix`.

**KNOWN FINDING, kept visible (D11, "rotation gap").** The property is FALSE for one class
of crash images: the caller creates the next chunk file (and writes its head) BEFORE the
old chunk's tail is written and synced by the worker; a crash then can leave a NON-NEWEST
chunk file shorter than its chunk, and `open` reports "Gap between chunks" (`.err .gap`)
— forever, there is no repair path. `c05_rotation_gap_witness` is a concrete reachable
state + crash image. All theorems below therefore carry the hypothesis
`NoTornPredecessor img` (stated on the image alone), which excludes exactly that class, and
`cfg'.truncate = true` (a configuration with `truncate = false` refuses torn tails by design).

What is proved (helper files `Proofs/Recov5a.lean` … `Recov5s.lean`):

* (1) `c05_open_succeeds_partial`: `open` succeeds on every crash image without torn
  predecessor. `c05_no_torn_predecessor_when_synced`: no crash image has a torn predecessor
  once the acknowledged position has reached the start of the newest chunk;
  `c05_open_succeeds_when_acked` combines the two.
* (2) `c05_recovered_store_is_consistent`: the system `open` builds satisfies the replay,
  journal and linked-files invariants (`CSys`, `J`) — and `SysWF`, `SysCovered`, `SmallSys`,
  `Sys.Clean` — for the reference log `r'` reached by the first `n` entry-level writes
  (the `n`, `r'` of `c03_crash_prefix`, with the same lower bound). INCLUDING payloads: the
  replay invariant says that every index entry's record carries `r'`'s payload (helper:
  a payload-mirroring invariant along histories, `Proofs/Recov5h.lean` … `Recov5j.lean`).
  Corollaries: (2a) `c05_recovered_accepts_history`, (2b) `c05_flush_is_acknowledged`,
  (2c) `c05_recovered_restart_is_identity`, `c05_recovered_cycles`.
* `c05_recovery_never_panics`: `open` never panics on ANY crash image (no hypothesis on the
  image, any configuration) — on rotation-gap images it returns the gap error.
* (3) `c05_recovery_crash_is_recoverable`: a crash at any moment of recovery (after every
  prefix of the file-system effects of `open`, including within the write of the new head).
* (5) Crash + recovery ROUNDS. `CrashInvC5b` (the history and durability invariant `HSys`, the
  ghost invariant, small journals, payload mirroring) holds for a fresh store, is kept by
  legal histories (`c05_crashInv_history`) and holds AGAIN for the recovered system
  (`c05_crashInv_recovered`), with the first `n` writes as its history. From it follow, for
  states reached through any number of crash + recovery rounds: C03 (`c05_crashInv_crash_prefix`),
  (1), (2), (3) (`c05_crashInv_recovered`, `c05_crashInv_recovery_crash`),
  `c05_crashInv_no_torn_when_acked`. `c05_two_crashes`: two rounds spelled out.
-/
import RaftLogModel.Props.C05
import RaftLogModel.Props.C03Quiet
import RaftLogModel.Props.C02
import RaftLogModel.Props.C04
import RaftLogModel.Proofs.Recov5s
namespace RaftLog

/-! ### The hypothesis that excludes the rotation gap -/

/-- `NoTornPredecessor img`: every linked file of the image except the newest parses
cleanly (no torn record, no zero tail) and is exactly as long as the distance to the next
linked chunk id. (The length alone is not enough: a power failure may leave a file of the
full length whose tail from a record boundary on is zeros; `open` cuts such a file back and
then reports the gap.) It is necessary for `open` to get past the gap check, whatever the
configuration: `c05_rotation_gap_witness`. -/
theorem c05_noTornPredecessor_spec (img : Fs) : NoTornPredecessor img ↔
    ∀ pre a b post, img.linkedIds = pre ++ a :: b :: post →
      ∃ g, img.find a = some g ∧ (parseChunk g.data).2.1 = .clean ∧ a + g.data.length = b :=
  Iff.rfl

/-- In terms of the records of the chunks (the witnesses of the replay invariant of the
ghost store, `c03_linked_files`): with no torn predecessor, the image of every linked
chunk except the newest holds exactly the encoding of the chunk's records. -/
theorem c05_noTornPredecessor_records (cfg : Cfg) (steps : List Step) (r : RefLog)
    (hsteps : ∀ st ∈ steps, st.journal = true)
    (hlegal : RefLog.run {} (stepOps steps) = some r)
    (hwf : ∀ op ∈ stepOps steps, op.WF ∧ op.small)
    (halive : ((Sys.fresh cfg).run steps).worker.pc ≠ .dead)
    (img : Fs) (hc : CrashImage ((Sys.fresh cfg).run steps).fs img) (hnt : NoTornPredecessor img) :
    let y := (Sys.fresh cfg).run steps
    ∃ s dropped jc jo, y.store = some s ∧ RepG (s.liftC3b dropped) y.fs y.worker jc jo ∧
      img.linkedIds = jc.map (·.1.id) ++ [s.openId] ∧
      ∀ p ∈ jc, ∃ g, img.find p.1.id = some g ∧ g.data = encAll p.2 := by
  intro y
  obtain ⟨⟨s, hs, _, _⟩, ⟨s1, hs1, hli⟩, _, _⟩ := reach_HSys cfg steps r hsteps hlegal hwf halive
  rw [hs] at hs1; cases hs1
  obtain ⟨s0, Bh, gs, hs0, h⟩ := run_GSys_C3b steps (Sys.fresh cfg) {} r [] 0 0 0 0 (fresh_HSys cfg)
    (fresh_GSys_C3b cfg) hsteps hlegal hwf halive
  rw [hs] at hs0; cases hs0
  obtain ⟨jc, jo, g, _⟩ := h.base.hist
  have hlinked : y.fs.linkedIds = (s.liftC3b (ghostClosedC3b gs)).chunkIds := by
    rw [liftC3b_chunkIds]; exact h.linkedIds hli
  obtain ⟨stC, lC, g0, f0, himg, _⟩ :=
    ghost_imgHyp_C5b g h.base.inv.j (h.live hli) hlinked hli.nodup hc hnt
  refine ⟨s, ghostClosedC3b gs, jc, jo, hs, g, himg.ids, fun p hp => ?_⟩
  obtain ⟨f, k1, k2, _⟩ := himg.files p hp
  exact ⟨f, k1, k2⟩

/-! ### (1) `open` succeeds -/

/-- **(1) Recovery succeeds.** The final state is reached from a freshly opened store by a
legal history, the worker is alive; `img` is any crash image of the directory WITHOUT TORN
PREDECESSOR; `cfg'` is any configuration with `truncate = true`. Then `open` returns `ok`.
(`_partial`: the hypothesis `NoTornPredecessor` cannot be dropped, see
`c05_rotation_gap_witness`; it holds for every crash image when the acknowledged position
covers the start of the newest chunk, `c05_no_torn_predecessor_when_synced`.) -/
theorem c05_open_succeeds_partial (cfg cfg' : Cfg) (steps : List Step) (r : RefLog)
    (hsteps : ∀ st ∈ steps, st.journal = true)
    (hlegal : RefLog.run {} (stepOps steps) = some r)
    (hwf : ∀ op ∈ stepOps steps, op.WF ∧ op.small)
    (halive : ((Sys.fresh cfg).run steps).worker.pc ≠ .dead)
    (img : Fs) (hc : CrashImage ((Sys.fresh cfg).run steps).fs img)
    (htr : cfg'.truncate = true) (hnt : NoTornPredecessor img) :
    ∃ s' w' fs' evs, openStore cfg' img = (.ok (s', w'), fs', evs) :=
  crash_open_ok_reach_C5b cfg cfg' steps r hsteps hlegal hwf halive hc hnt htr

/-- The same for `Sys.open` on the system that has the crash image as its directory. -/
theorem c05_sys_open_succeeds_partial (cfg cfg' : Cfg) (steps : List Step) (r : RefLog)
    (hsteps : ∀ st ∈ steps, st.journal = true)
    (hlegal : RefLog.run {} (stepOps steps) = some r)
    (hwf : ∀ op ∈ stepOps steps, op.WF ∧ op.small)
    (halive : ((Sys.fresh cfg).run steps).worker.pc ≠ .dead)
    (img : Fs) (hc : CrashImage ((Sys.fresh cfg).run steps).fs img)
    (htr : cfg'.truncate = true) (hnt : NoTornPredecessor img) :
    (({ fs := img, cfg := cfg' } : Sys).open).1 = .ok () := by
  obtain ⟨s', w', fs', evs, h⟩ :=
    c05_open_succeeds_partial cfg cfg' steps r hsteps hlegal hwf halive img hc htr hnt
  rw [open_eq_recovered_C5b h]

/-- **The rotation gap (D11): `NoTornPredecessor` cannot be dropped.** Chunks hold three
records. One call appends two entries: chunk 0 is full, the CALLER creates chunk 84 and
writes its head, the two `Append` records of chunk 0 are still in the worker's hands. The
history satisfies the hypotheses of `c05_open_succeeds_partial`. In the process-crash
image (and in the power-failure image) chunk 0 holds 18 of its 84 bytes and chunk 84
exists: `NoTornPredecessor` fails, and `open` returns the gap error — with every
configuration, no repair. -/
def c05GapExample : List Step := [.call (.append [(⟨1, 0⟩, [1]), (⟨1, 1⟩, [2])])]

theorem c05_rotation_gap_witness :
    (∀ st ∈ c05GapExample, st.journal = true) ∧
    (RefLog.run {} (stepOps c05GapExample)).isSome = true ∧
    (∀ op ∈ stepOps c05GapExample, op.WF ∧ op.small) ∧
    ((Sys.fresh { maxRecords := 3 }).run c05GapExample).worker.pc ≠ .dead ∧
    ((Sys.fresh { maxRecords := 3 }).run c05GapExample).fs.map
      (fun f => (f.id, f.data.length, f.durable, f.linked)) = [(0, 18, 0, true), (84, 34, 0, true)] ∧
    CrashImage ((Sys.fresh { maxRecords := 3 }).run c05GapExample).fs
      (procCrash ((Sys.fresh { maxRecords := 3 }).run c05GapExample).fs) ∧
    CrashImage ((Sys.fresh { maxRecords := 3 }).run c05GapExample).fs
      (powerCrash ((Sys.fresh { maxRecords := 3 }).run c05GapExample).fs) ∧
    ¬ NoTornPredecessor (procCrash ((Sys.fresh { maxRecords := 3 }).run c05GapExample).fs) ∧
    (openStore {} (procCrash ((Sys.fresh { maxRecords := 3 }).run c05GapExample).fs)).1 = .err .gap ∧
    (openStore { truncate := false }
      (procCrash ((Sys.fresh { maxRecords := 3 }).run c05GapExample).fs)).1 = .err .gap ∧
    (openStore {} (powerCrash ((Sys.fresh { maxRecords := 3 }).run c05GapExample).fs)).1 = .err .gap := by
  refine ⟨by decide +kernel, by decide +kernel, ?_, by decide +kernel, by decide +kernel,
    procCrash_image _ (by decide +kernel), powerCrash_image _ (by decide +kernel), ?_,
    by decide +kernel, by decide +kernel, by decide +kernel⟩
  · intro op hop
    simp only [c05GapExample, stepOps, List.mem_cons, List.not_mem_nil, or_false] at hop
    subst hop
    simp [Op.WF, Op.small, LogId.WF, bytesWF, smallId, U64, U32]
  · intro h
    obtain ⟨g, h1, _, h3⟩ := h [] 0 84 [] (by decide +kernel)
    have hlen : ((procCrash ((Sys.fresh { maxRecords := 3 }).run c05GapExample).fs).find 0).map
        (fun f => f.data.length) = some 18 := by decide +kernel
    rw [h1] at hlen
    simp only [Option.map_some, Option.some.injEq] at hlen
    omega

/-- **No torn predecessor once the newest chunk's start is acknowledged.** If the
acknowledged position `A` (`Sys.ackRun`: raised only by a successful sync of the newest
file) is at or beyond the id of the open chunk, every linked chunk file except the newest
is durable to its end, so EVERY crash image is without torn predecessor. (After a
rotation, `A` reaches the new chunk's id as soon as one flush issued after the rotation is
acknowledged; with `A ≥ openId` at every moment no crash hits the rotation gap.) -/
theorem c05_no_torn_predecessor_when_synced (cfg : Cfg) (steps : List Step) (r : RefLog) (s : Store)
    (hsteps : ∀ st ∈ steps, st.journal = true)
    (hlegal : RefLog.run {} (stepOps steps) = some r)
    (hwf : ∀ op ∈ stepOps steps, op.WF ∧ op.small)
    (halive : ((Sys.fresh cfg).run steps).worker.pc ≠ .dead)
    (hs : ((Sys.fresh cfg).run steps).store = some s)
    (hA : s.openId ≤ (Sys.fresh cfg).ackRun steps 0)
    (img : Fs) (hc : CrashImage ((Sys.fresh cfg).run steps).fs img) : NoTornPredecessor img :=
  noTorn_reach_C5b cfg steps r s hsteps hlegal hwf halive hs hA hc

/-- (1) without a hypothesis on the image: recovery succeeds after EVERY crash of a state
whose acknowledged position covers the start of the newest chunk. -/
theorem c05_open_succeeds_when_acked (cfg cfg' : Cfg) (steps : List Step) (r : RefLog) (s : Store)
    (hsteps : ∀ st ∈ steps, st.journal = true)
    (hlegal : RefLog.run {} (stepOps steps) = some r)
    (hwf : ∀ op ∈ stepOps steps, op.WF ∧ op.small)
    (halive : ((Sys.fresh cfg).run steps).worker.pc ≠ .dead)
    (hs : ((Sys.fresh cfg).run steps).store = some s)
    (hA : s.openId ≤ (Sys.fresh cfg).ackRun steps 0)
    (img : Fs) (hc : CrashImage ((Sys.fresh cfg).run steps).fs img) (htr : cfg'.truncate = true) :
    ∃ s' w' fs' evs, openStore cfg' img = (.ok (s', w'), fs', evs) :=
  c05_open_succeeds_partial cfg cfg' steps r hsteps hlegal hwf halive img hc htr
    (c05_no_torn_predecessor_when_synced cfg steps r s hsteps hlegal hwf halive hs hA img hc)

/-! ### (2) The recovered store is consistent -/

/-- **(2) The recovered system satisfies the invariants.** The history is split as
`pre ++ post` (any split; think of `pre` as the history up to an acknowledged flush). `img`
is a crash image of the final directory without torn predecessor, `cfg'.truncate = true`.
Let `y2` be the system `open` builds (directory as `open` left it, the recovered store,
its fresh worker, lock held). Then `open` returns `ok` and there are `n`, `r'` such that

* the first `n` entry-level writes of the history are accepted and reach `r'`;
  `s'.st = r'.state`, the index keys of `s'.log` are those of `r'.entries`; `n` covers every
  write issued before a point of the history whose journal end is acknowledged (the
  conclusions of `c03_crash_prefix`);
* `CSys y2 r'` (replay invariant `RSys` — journal invariant, refinement of `r'` on state and
  index map, record lists for every chunk file that replay to `(st, log)`, payloads: every
  index entry's `Append` record carries `r'`'s payload — and linked-files invariant `LSys`),
  `J y2`;
* `SysWF y2`, `SysCovered y2` (worker well-formed; every unsynced linked file tracked),
  `SmallSys y2` (every file holds small records: `open` will never panic later);
* `y2.Clean`: worker idle on an empty queue, nothing pending, nothing to remove.

So every theorem stated for `CSys`/`J` states continues from `y2` (below: further
histories, flush acknowledgement, clean restarts, cycles). -/
theorem c05_recovered_store_is_consistent (cfg cfg' : Cfg) (pre post : List Step) (r : RefLog)
    (hsteps : ∀ st ∈ pre ++ post, st.journal = true)
    (hlegal : RefLog.run {} (stepOps (pre ++ post)) = some r)
    (hwf : ∀ op ∈ stepOps (pre ++ post), op.WF ∧ op.small)
    (halive : ((Sys.fresh cfg).run (pre ++ post)).worker.pc ≠ .dead)
    (img : Fs) (hc : CrashImage ((Sys.fresh cfg).run (pre ++ post)).fs img)
    (htr : cfg'.truncate = true) (hnt : NoTornPredecessor img) :
    let W := expandOps {} (stepOps (pre ++ post))
    let A := (Sys.fresh cfg).ackRun (pre ++ post) 0
    let y2 := (({ fs := img, cfg := cfg' } : Sys).open).2.1
    (({ fs := img, cfg := cfg' } : Sys).open).1 = .ok () ∧
    ∃ s' n r', y2.store = some s' ∧ y2.cfg = cfg' ∧ y2.locked = true ∧
      RefLog.run {} (W.take n) = some r' ∧ s'.st = r'.state ∧
      logKeys s'.log = entKeys r'.entries ∧
      (∀ s1, ((Sys.fresh cfg).run pre).store = some s1 → s1.openEnd ≤ A →
        (expandOps {} (stepOps pre)).length ≤ n) ∧
      CSys y2 r' ∧ J y2 ∧ SysWF y2 ∧ SysCovered y2 ∧ SmallSys y2 ∧ y2.Clean ∧
      s'.cfg = cfg' ∧ s'.cache.maxItems = cfg'.cacheItems ∧ s'.cache.capacity = cfg'.cacheCap := by
  intro W A y2
  obtain ⟨s', w', fs', evs, n, r', q1, q2, q3, q4, q5, q6, q7, q8, ⟨c1, c2, c3, c4⟩, q10, q11, q12, _⟩ :=
    crash_recover_reach_C5b cfg cfg' pre post r hsteps hlegal hwf halive hc hnt htr
  have hopen := open_eq_recovered_C5b q1
  have hy2 : y2 = recoveredSysC5b cfg' s' w' fs' := by
    show (({ fs := img, cfg := cfg' } : Sys).open).2.1 = _
    rw [hopen]
  refine ⟨by rw [hopen], s', n, r', by rw [hy2]; rfl, by rw [hy2]; rfl, by rw [hy2]; rfl, q2, ?_, ?_,
    q3, by rw [hy2]; exact q4, by rw [hy2]; exact q5, by rw [hy2]; exact q7, by rw [hy2]; exact q8,
    by rw [hy2]; exact q6, ?_, q10, q11, q12⟩
  · obtain ⟨s0, hs0, _, hinv⟩ := q4.1
    have : s0 = s' := by
      simp only [recoveredSysC5b, Option.some.injEq] at hs0; exact hs0.symm
    subst this; exact hinv.abs.st
  · obtain ⟨s0, hs0, _, hinv⟩ := q4.1
    have : s0 = s' := by
      simp only [recoveredSysC5b, Option.some.injEq] at hs0; exact hs0.symm
    subst this; exact hinv.abs.log
  · rw [hy2]
    exact ⟨s', rfl, c1, c2, c3, c4⟩

/-- What the payload clause of `CSys y2 r'` says (from `c02_replay_spec`): whenever the
`Append` record an index entry of the recovered store points to is in the journal `open`
kept, it carries the payload the reference log `r'` holds for that id. -/
theorem c05_recovered_payloads {y2 : Sys} {r' : RefLog} (h : CSys y2 r') :
    ∃ s' jc jo, y2.store = some s' ∧
      (∀ e ∈ s'.log, ∀ p, (⟨.append e.2.id p, e.2.chunk, ⟨e.2.off, e.2.size⟩⟩ : JOp)
        ∈ flatOps jc ++ chunkOps s'.openId jo → (e.2.id, p) ∈ r'.entries) ∧
      idxRun (flatOps jc ++ chunkOps s'.openId jo) [] = some s'.log ∧
      (∀ p ∈ jc, fdata y2.fs p.1.id ++ y2.worker.inflight p.1.id = encAll p.2) ∧
      fdata y2.fs s'.openId ++ y2.worker.inflight s'.openId ++ s'.pending = encAll jo := by
  obtain ⟨s', jc, jo, hs, _, _, _, h4, h5, _, h7, _, _, _, _, h12, _⟩ := c02_replay_spec h.1
  exact ⟨s', jc, jo, hs, h12, h7, fun p hp => (h4 p hp).2.2.2, h5.2.2.2⟩

/-- **(2a) The recovered store accepts further histories.** From any system with the
invariants (`CSys y2 r'`, e.g. the recovered system): for every further history of calls
(legal and accepted from `r'`, reaching `r2`; well-formed, small), flushes, worker steps of
any outcome, `workerIdle`, `drain` with the worker alive at the end, the invariants hold
again for `r2`, the final store reports `r2`'s state and index keys, and EVERY call along
the way returns `ok`. -/
theorem c05_recovered_accepts_history (y2 : Sys) (r' r2 : RefLog) (more : List Step)
    (hC : CSys y2 r') (hmore : ∀ st ∈ more, st.journal = true)
    (hlegal2 : r'.run (stepOps more) = some r2) (hwf2 : ∀ op ∈ stepOps more, op.WF ∧ op.small)
    (halive2 : (y2.run more).worker.pc ≠ .dead) :
    CSys (y2.run more) r2 ∧ J (y2.run more) ∧
    (∃ s2, (y2.run more).store = some s2 ∧ s2.st = r2.state ∧ logKeys s2.log = entKeys r2.entries) ∧
    (∀ a op b, more = a ++ Step.call op :: b → ∃ seg, ((y2.run a).call op).1 = .ok seg) := by
  have h2 := run_CSys more y2 r' r2 hC hmore hlegal2 hwf2 halive2
  refine ⟨h2, h2.1.J, ?_, ?_⟩
  · obtain ⟨s2, hs2, _, hinv⟩ := h2.1
    exact ⟨s2, hs2, hinv.abs.st, hinv.abs.log⟩
  · intro a op b hsplit
    subst hsplit
    have hja : ∀ st ∈ a, st.journal = true := fun st h => hmore st (List.mem_append_left _ h)
    have hjb : ∀ st ∈ Step.call op :: b, st.journal = true :=
      fun st h => hmore st (List.mem_append_right _ h)
    have hrun : y2.run (a ++ Step.call op :: b) = (y2.run a).run (Step.call op :: b) := by
      simp [Sys.run, List.foldl_append]
    have halive_a : (y2.run a).worker.pc ≠ .dead := by
      intro hdead
      apply halive2
      rw [hrun]
      exact Sys.run_dead _ _ hjb hdead
    rw [stepOps_append, RefLog.run_append] at hlegal2
    cases hra : r'.run (stepOps a) with
    | none => rw [hra] at hlegal2; cases hlegal2
    | some ra =>
      rw [hra] at hlegal2
      simp only [Option.bind_some, stepOps, RefLog.run] at hlegal2
      have hCa : CSys (y2.run a) ra := run_CSys a y2 r' ra hC hja hra
        (fun o ho => hwf2 o (by rw [stepOps_append]; exact List.mem_append_left _ ho)) halive_a
      have hopwf : op.WF ∧ op.small := hwf2 op (by
        rw [stepOps_append]; exact List.mem_append_right _ (by simp [stepOps]))
      split at hlegal2
      · rename_i hl
        split at hlegal2
        · rename_i rb hcb
          exact (c02_replay_call hCa.1 op hl hcb hopwf.2 hopwf.1).2
        · cases hlegal2
      · cases hlegal2

/-- **(2b) A flush on the recovered store is acknowledged.** For any system whose worker
is well-formed and alive (`SysWF`, e.g. the recovered system or any state reached from
it): `flush (some i)` followed by `workerIdle` (the worker runs, all outcomes ok) emits the
positive callback `Ev.cb i true`, and the worker is quiet afterwards. -/
theorem c05_flush_is_acknowledged (y : Sys) (s : Store) (i : Nat) (hs : y.store = some s)
    (hwf : SysWF y) (hd : y.worker.pc ≠ .dead) :
    Ev.cb i true ∈ ((y.step (.flush (some i))).stepEvs .workerIdle) ∧
    ((y.step (.flush (some i))).step .workerIdle).worker.quiet = true := by
  have hwf3 : SysWF (y.step (.flush (some i))) := hwf.step _
  have heq : y.step (.flush (some i)) = (y.flush (some i)).2.1 := rfl
  have hfl := Sys.flush_eq y (some i) s hs hd
  have hstore : (y.step (.flush (some i))).store = some (s.flush (some i)).1 := by rw [heq, hfl]
  obtain ⟨hw, ht⟩ := hwf3 (by rw [hstore]; simp)
  have hq : i ∈ cbQueue (y.step (.flush (some i))).worker := by
    rw [heq, hfl]
    simp only
    rw [cbQueue_settle]
    have : effQ (s.flush (some i)).2 = WReq.write s.openEnd s.pending (some i) ::
        (if s.removed.isEmpty then [] else [.removeChunks s.removed]) := flush_effQ_C3 s (some i)
    rw [this]
    simp only [cbQueue, Worker.push, List.filterMap_append, List.filterMap_cons, WReq.cbId]
    simp
  obtain ⟨k1, k2⟩ := c04_exactly_once_no_fault
    ({ w := (y.step (.flush (some i))).worker, fs := (y.step (.flush (some i))).fs,
       cache := (s.flush (some i)).1.cache } : WCtx) hw ht
  constructor
  · simp only [Sys.stepEvs, Sys.workerIdle, hstore]
    have : (i, true) ∈ cbsOf (WCtx.runQuiet (y.step (.flush (some i))).worker.fuel
        ({ w := (y.step (.flush (some i))).worker, fs := (y.step (.flush (some i))).fs,
           cache := (s.flush (some i)).1.cache } : WCtx)).evs := by
      rw [k2]
      exact List.mem_append_right _ (List.mem_map.mpr ⟨i, hq, rfl⟩)
    simp only [cbsOf, List.mem_filterMap] at this
    obtain ⟨e, he, hee⟩ := this
    cases e <;> simp at hee
    obtain ⟨rfl, rfl⟩ := hee
    exact he
  · show ((y.step (.flush (some i))).workerIdle).1.worker.quiet = true
    simp only [Sys.workerIdle, hstore]
    exact k1

/-- **(2c) A further clean restart is the identity.** From any system with the invariants
that is clean (worker quiet, nothing pending, nothing to remove — e.g. the recovered system
itself, `c05_recovered_store_is_consistent`, or any clean state of its continuation): drop +
open with any configuration returns `ok`, only syncs the chunk files it keeps (D15: the
events are `syncEvs y2.fs.linkedIds`, all of the form `sync "o" id true`; the file system is
`y2.fs.syncAll y2.fs.linkedIds`, which is `y2.fs` when every linked file was durable; old:
`[]`, `y2.fs`), and yields the same state, index
map and chunk table; the invariants hold again (`c02_restart_step`). -/
theorem c05_recovered_restart_is_identity (y2 : Sys) (r' : RefLog) (cfg'' : Cfg)
    (hC : CSys y2 r') (hclean : y2.Clean) :
    ∃ s s', y2.store = some s ∧ ((y2.step .drop).step (.openWith cfg'')).store = some s' ∧
      ({ (y2.step .drop) with cfg := cfg'' } : Sys).open.1 = .ok () ∧
      ({ (y2.step .drop) with cfg := cfg'' } : Sys).open.2.2 = syncEvs y2.fs.linkedIds ∧
      ((y2.step .drop).step (.openWith cfg'')).fs = y2.fs.syncAll y2.fs.linkedIds ∧
      s'.st = s.st ∧ s'.log = s.log ∧ s'.closed = s.closed ∧ s'.openOffsets = s.openOffsets ∧
      CSys ((y2.step .drop).step (.openWith cfg'')) r' ∧
      (∀ e ∈ ({ (y2.step .drop) with cfg := cfg'' } : Sys).open.2.2, ∃ id, e = Ev.sync "o" id true) ∧
      ((∀ f ∈ y2.fs, f.linked = true → f.durable = f.data.length) →
        ((y2.step .drop).step (.openWith cfg'')).fs = y2.fs) := by
  obtain ⟨s, s', k1, k2, k3, k4, _, k6, k7, k8, k9, k10, _, _, _, k14⟩ :=
    c02_restart_step y2 r' cfg'' hC hclean
  exact ⟨s, s', k1, k2, k3, k4, k6, k7, k8, k9, k10, k14, by rw [k4]; exact syncEvs_isOpenSync _,
    fun hd => by rw [k6]; exact c02_syncAll_durable hC hd⟩

/-- Any number of further segments (history, then drop + open) that end clean, from the
recovered system: the invariants hold at the end (`cycles_CSys`). -/
theorem c05_recovered_cycles (y2 : Sys) (r' r2 : RefLog) (segs : List (List Step × Cfg))
    (hC : CSys y2 r')
    (hsegs : ∀ seg ∈ segs, ∀ st ∈ seg.1, st.journal = true)
    (hlegal2 : r'.run (cycleOps segs) = some r2)
    (hwf2 : ∀ op ∈ cycleOps segs, op.WF ∧ op.small) (hclean : CleanCycles y2 segs) :
    CSys (y2.runCycles segs) r2 :=
  cycles_CSys segs y2 r' r2 hC hsegs hlegal2 hwf2 hclean

/-! ### (3) A crash during recovery -/

/-- The file-system effect of one event of `open` (`openEffC5b`), and of a list of events
(`openEffsC5b`). D15: a successful `sync` makes the file durable up to its length (old:
`openEffC5b fs (.sync t id ok) = fs`); a failed one changes nothing. -/
theorem c05_open_effect_spec (fs : Fs) (t : String) (id len : Nat) (bs : Bytes) :
    openEffC5b fs (.trunc t id len) = fs.truncate id len ∧
    openEffC5b fs (.sync t id true) = fs.sync id ∧
    openEffC5b fs (.sync t id false) = fs ∧
    openEffC5b fs (.unlink t id true) = fs.unlink id ∧
    openEffC5b fs (.create t id true) = fs.create id ∧
    openEffC5b fs (.write t id bs true) = fs.write id bs ∧
    (∀ evs, openEffsC5b evs fs = evs.foldl openEffC5b fs) :=
  ⟨rfl, rfl, rfl, rfl, rfl, rfl, fun _ => rfl⟩

/-- **(3) A crash at any moment of recovery is recoverable.** Hypotheses of (1). `open` on
the crash image `img` succeeds and performs the file-system events `evs` (D15: one sync of
every chunk file it keeps; truncate + sync
of a torn tail of the newest chunk; unlink of a newest file without a complete record;
create + write of the head of a new chunk); replaying `evs` on `img` gives the directory
`open` returns. For EVERY prefix of these events (`k = 0`: crash before the first effect;
after the truncation; after the unlink; after the new chunk file is created but before its
head is written; `k ≥ |evs|`: after recovery — the head of the new chunk is not yet durable,
so this covers a crash WITHIN the head write: any cut of it, or zeros) and every crash
image `X'` of the directory at that point, `open` (any configuration with `truncate`)
succeeds again and recovers the SAME state and the SAME index map. -/
theorem c05_recovery_crash_is_recoverable (cfg cfg' cfg'' : Cfg) (steps : List Step) (r : RefLog)
    (hsteps : ∀ st ∈ steps, st.journal = true)
    (hlegal : RefLog.run {} (stepOps steps) = some r)
    (hwf : ∀ op ∈ stepOps steps, op.WF ∧ op.small)
    (halive : ((Sys.fresh cfg).run steps).worker.pc ≠ .dead)
    (img : Fs) (hc : CrashImage ((Sys.fresh cfg).run steps).fs img)
    (htr : cfg'.truncate = true) (htr'' : cfg''.truncate = true) (hnt : NoTornPredecessor img) :
    ∃ s' w' fs' evs, openStore cfg' img = (.ok (s', w'), fs', evs) ∧ openEffsC5b evs img = fs' ∧
      ∀ k X', CrashImage (openEffsC5b (evs.take k) img) X' →
        ∃ s'' w'' fs'' evs'', openStore cfg'' X' = (.ok (s'', w''), fs'', evs'') ∧
          s''.st = s'.st ∧ s''.log = s'.log :=
  crash_recovery_steps_reach_C5b cfg cfg' cfg'' steps r hsteps hlegal hwf halive hc hnt htr htr''

/-! ### Recovery never panics -/

/-- **Recovery never panics — on ANY crash image** (no hypothesis on the image: also images
with a torn predecessor, where `open` returns the gap error; any configuration, both
`truncate` settings). Legal history from a freshly opened store, worker alive. -/
theorem c05_recovery_never_panics (cfg cfg' : Cfg) (steps : List Step) (r : RefLog)
    (hsteps : ∀ st ∈ steps, st.journal = true)
    (hlegal : RefLog.run {} (stepOps steps) = some r)
    (hwf : ∀ op ∈ stepOps steps, op.WF ∧ op.small)
    (halive : ((Sys.fresh cfg).run steps).worker.pc ≠ .dead)
    (img : Fs) (hc : CrashImage ((Sys.fresh cfg).run steps).fs img) :
    (∀ m, (openStore cfg' img).1 ≠ .panic m) ∧ (openStore cfg' img).1.isPanic = false ∧
    (({ fs := img, cfg := cfg' } : Sys).open).1.isPanic = false := by
  have h0 : CrashInvC5b ((Sys.fresh cfg).run steps) r (expandOps {} (stepOps steps))
      ((Sys.fresh cfg).ackRun steps 0) 0 0 := by
    have := run_CrashInv_C5b steps (Sys.fresh cfg) {} r [] 0 0 0 (fresh_CrashInv_C5b cfg) hsteps
      hlegal hwf halive
    simpa using this
  have h1 := crash_open_no_panic_C5b h0 hc cfg'
  have h2 : (openStore cfg' img).1.isPanic = false := by
    cases hr : (openStore cfg' img).1 with
    | panic m => exact absurd hr (h1 m)
    | ok _ => rfl
    | err _ => rfl
  refine ⟨h1, h2, ?_⟩
  cases hr : (({ fs := img, cfg := cfg' } : Sys).open).1 with
  | panic m => exact absurd (Sys.open_panic hr) (h1 m)
  | ok _ => rfl
  | err _ => rfl

/-- The same from the crash invariant (states reached through crash + recovery rounds). -/
theorem c05_crashInv_never_panics {y : Sys} {r : RefLog} {W : List Op} {A E K : Nat}
    (h : CrashInvC5b y r W A E K) (img : Fs) (hc : CrashImage y.fs img) (cfg' : Cfg) :
    ∀ m, (openStore cfg' img).1 ≠ .panic m :=
  crash_open_no_panic_C5b h hc cfg'

/-! ### (5) Crash + recovery rounds -/

/-- What the crash invariant is: for some marker `B`, the history and durability invariant
`HSys` (replay invariant for `r`; `W` reaches `r`; every prefix of the retained journal at
or beyond the marker mirrors a prefix of `W`; every live chunk file written and durable up
to the acknowledged position `A`; `(E, K)` a tracked journal position with its write
count), the ghost invariant `GSysC3b` (the same for the store with the dropped chunks whose
files are still linked put back), `SmallSys` (small records in every file) and `TSysC5b`
(payload mirroring for the store with ALL dropped chunks put back). -/
theorem c05_crashInv_spec (y : Sys) (r : RefLog) (W : List Op) (A E K : Nat) :
    CrashInvC5b y r W A E K ↔
      ∃ B, HSys y r W B A E K ∧ GSysC3b y r W A E K ∧ SmallSys y ∧ TSysC5b y r W := Iff.rfl

/-- It holds for a freshly opened store, and along every legal history from it. -/
theorem c05_crashInv_fresh (cfg : Cfg) : CrashInvC5b (Sys.fresh cfg) {} [] 0 0 0 :=
  fresh_CrashInv_C5b cfg

/-- **Kept by legal histories** (from ANY state that satisfies it): calls legal and accepted
by the reference log (well-formed, small), flushes, worker steps of any outcome,
`workerIdle`, `drain`, worker alive at the end. The writes are appended to `W`, the
acknowledged position moves as `Sys.ackRun` says. -/
theorem c05_crashInv_history (steps : List Step) (y : Sys) (r r' : RefLog) (W : List Op) (A E K : Nat)
    (h : CrashInvC5b y r W A E K) (hsteps : ∀ st ∈ steps, st.journal = true)
    (hr : r.run (stepOps steps) = some r') (hwf : ∀ op ∈ stepOps steps, op.WF ∧ op.small)
    (hnd : (y.run steps).worker.pc ≠ .dead) :
    CrashInvC5b (y.run steps) r' (W ++ expandOps r (stepOps steps)) (y.ackRun steps A) E K :=
  run_CrashInv_C5b steps y r r' W A E K h hsteps hr hwf hnd

/-- The tracked position can be moved to the current journal end / number of writes. -/
theorem c05_crashInv_retarget {y : Sys} {r : RefLog} {W : List Op} {A E K : Nat}
    (h : CrashInvC5b y r W A E K) : ∃ s, y.store = some s ∧ CrashInvC5b y r W A s.openEnd W.length :=
  h.retarget

/-- **(1) + (2) from the crash invariant, and the invariant again.** `y` satisfies the crash
invariant (a state reached through any number of histories and crash + recovery rounds),
`img` is a crash image of its directory without torn predecessor, `cfg'.truncate = true`.
Then `open` succeeds; with `y2` the system it builds there are `n`, `r'`, `A'` such that the
first `n` writes reach `r'`, `n` covers the tracked write count `K` if the tracked position
`E` is acknowledged, and `y2` satisfies the crash invariant for `r'` with the first `n`
writes as its history (hence `CSys y2 r'`, `J y2`) — and `SysWF`, `SysCovered`, `Clean`. -/
theorem c05_crashInv_recovered {y : Sys} {r : RefLog} {W : List Op} {A E K : Nat}
    (h : CrashInvC5b y r W A E K) (img : Fs) (hc : CrashImage y.fs img) (hnt : NoTornPredecessor img)
    (cfg' : Cfg) (htr : cfg'.truncate = true) :
    let y2 := (({ fs := img, cfg := cfg' } : Sys).open).2.1
    (({ fs := img, cfg := cfg' } : Sys).open).1 = .ok () ∧
    ∃ s' n r' A', y2.store = some s' ∧ RefLog.run {} (W.take n) = some r' ∧ (E ≤ A → K ≤ n) ∧
      CrashInvC5b y2 r' (W.take n) A' s'.openEnd n ∧ CSys y2 r' ∧ J y2 ∧
      SysWF y2 ∧ SysCovered y2 ∧ y2.Clean ∧ s'.cfg = cfg' := by
  intro y2
  obtain ⟨s', w', fs', evs, n, r', A', q1, q2, q3, q4, q5, q6, ⟨c1, c2, c3, c4⟩, q8⟩ :=
    recover_CrashInv_C5b h hc hnt cfg' htr
  have hopen := open_eq_recovered_C5b q1
  have hy2 : y2 = recoveredSysC5b cfg' s' w' fs' := by
    show (({ fs := img, cfg := cfg' } : Sys).open).2.1 = _
    rw [hopen]
  refine ⟨by rw [hopen], s', n, r', A', by rw [hy2]; rfl, q2, q3, by rw [hy2]; exact q4,
    by rw [hy2]; exact q4.csys, by rw [hy2]; exact q4.csys.1.J, by rw [hy2]; exact q5,
    by rw [hy2]; exact q6, ?_, q8⟩
  rw [hy2]
  exact ⟨s', rfl, c1, c2, c3, c4⟩

/-- **C03 from the crash invariant** (no hypothesis on the image, any configuration):
whenever `open` succeeds on a crash image, the recovered state and index keys are those of
the reference log after the first `n` writes, and `n` covers the tracked write count if
the tracked position is acknowledged. -/
theorem c05_crashInv_crash_prefix {y : Sys} {r : RefLog} {W : List Op} {A E K : Nat}
    (h : CrashInvC5b y r W A E K) (img : Fs) (hc : CrashImage y.fs img) (cfg' : Cfg)
    (s' : Store) (w' : Worker) (fs' : Fs) (evs : List Ev)
    (hopen : openStore cfg' img = (.ok (s', w'), fs', evs)) :
    ∃ n r', RefLog.run {} (W.take n) = some r' ∧ s'.st = r'.state ∧
      logKeys s'.log = entKeys r'.entries ∧ (E ≤ A → K ≤ n) :=
  crash_prefix_of_CrashInv_C5b h hc cfg' hopen

theorem c05_crashInv_no_torn_when_acked {y : Sys} {r : RefLog} {W : List Op} {A E K : Nat}
    (h : CrashInvC5b y r W A E K) (s : Store) (hs : y.store = some s) (hA : s.openId ≤ A)
    (img : Fs) (hc : CrashImage y.fs img) : NoTornPredecessor img :=
  noTorn_of_CrashInv_C5b h hs hA hc

/-- (3) from the crash invariant. -/
theorem c05_crashInv_recovery_crash {y : Sys} {r : RefLog} {W : List Op} {A E K : Nat}
    (h : CrashInvC5b y r W A E K) (img : Fs) (hc : CrashImage y.fs img) (hnt : NoTornPredecessor img)
    (cfg' cfg'' : Cfg) (htr : cfg'.truncate = true) (htr'' : cfg''.truncate = true) :
    ∃ s' w' fs' evs, openStore cfg' img = (.ok (s', w'), fs', evs) ∧ openEffsC5b evs img = fs' ∧
      ∀ k X', CrashImage (openEffsC5b (evs.take k) img) X' →
        ∃ s'' w'' fs'' evs'', openStore cfg'' X' = (.ok (s'', w''), fs'', evs'') ∧
          s''.st = s'.st ∧ s''.log = s'.log :=
  recovery_steps_of_CrashInv_C5b h hc hnt cfg' cfg'' htr htr''

/-- **Two rounds, spelled out.** A legal history `steps1` from a fresh store; a crash
(image `img1` without torn predecessor); recovery with `cfg1`; a further legal history
`steps2` on the recovered store (its calls legal and accepted from the recovered reference
log `r1`, whatever prefix `r1` is); a second crash (image `img2` without torn predecessor);
recovery with `cfg2`. Then both `open`s succeed, and the state and index keys after the
second recovery are those of the reference log after a prefix of: the writes that survived
the first crash, followed by the writes of `steps2`. -/
theorem c05_two_crashes (cfg cfg1 cfg2 : Cfg) (steps1 : List Step) (r : RefLog)
    (hsteps : ∀ st ∈ steps1, st.journal = true)
    (hlegal : RefLog.run {} (stepOps steps1) = some r)
    (hwf : ∀ op ∈ stepOps steps1, op.WF ∧ op.small)
    (halive : ((Sys.fresh cfg).run steps1).worker.pc ≠ .dead)
    (img1 : Fs) (hc1 : CrashImage ((Sys.fresh cfg).run steps1).fs img1) (hnt1 : NoTornPredecessor img1)
    (htr1 : cfg1.truncate = true) (htr2 : cfg2.truncate = true) :
    let y1 := (({ fs := img1, cfg := cfg1 } : Sys).open).2.1
    let W1 := expandOps {} (stepOps steps1)
    (({ fs := img1, cfg := cfg1 } : Sys).open).1 = .ok () ∧
    ∃ n1 r1, RefLog.run {} (W1.take n1) = some r1 ∧ CSys y1 r1 ∧
      ∀ (steps2 : List Step) (r2 : RefLog), (∀ st ∈ steps2, st.journal = true) →
        r1.run (stepOps steps2) = some r2 → (∀ op ∈ stepOps steps2, op.WF ∧ op.small) →
        (y1.run steps2).worker.pc ≠ .dead →
        ∀ img2, CrashImage (y1.run steps2).fs img2 → NoTornPredecessor img2 →
          (({ fs := img2, cfg := cfg2 } : Sys).open).1 = .ok () ∧
          ∃ s2 n2 r2', (({ fs := img2, cfg := cfg2 } : Sys).open).2.1.store = some s2 ∧
            RefLog.run {} ((W1.take n1 ++ expandOps r1 (stepOps steps2)).take n2) = some r2' ∧
            s2.st = r2'.state ∧ logKeys s2.log = entKeys r2'.entries ∧
            CSys (({ fs := img2, cfg := cfg2 } : Sys).open).2.1 r2' := by
  intro y1 W1
  have h0 : CrashInvC5b ((Sys.fresh cfg).run steps1) r W1 ((Sys.fresh cfg).ackRun steps1 0) 0 0 := by
    have := c05_crashInv_history steps1 (Sys.fresh cfg) {} r [] 0 0 0 (c05_crashInv_fresh cfg) hsteps
      hlegal hwf halive
    simpa [W1] using this
  obtain ⟨k1, s1, n1, r1, A1, k2, k3, _, k5, k6, _⟩ := c05_crashInv_recovered h0 img1 hc1 hnt1 cfg1 htr1
  refine ⟨k1, n1, r1, k3, k6, ?_⟩
  intro steps2 r2 hst2 hl2 hwf2 hal2 img2 hc2 hnt2
  have h1 := c05_crashInv_history steps2 y1 r1 r2 _ _ _ _ k5 hst2 hl2 hwf2 hal2
  obtain ⟨m1, s2, n2, r2', A2, m2, m3, _, m5, m6, _⟩ := c05_crashInv_recovered h1 img2 hc2 hnt2 cfg2 htr2
  obtain ⟨s0, hs0, _, hinv⟩ := m6.1
  rw [m2] at hs0; cases hs0
  exact ⟨m1, s2, n2, r2', m2, m3, hinv.abs.st, hinv.abs.log, m6⟩

/-! ### (4) Non-vacuity: a history with a rotation and a torn tail -/

/-- Chunks hold three records. Two appends fill chunk 0 and rotate to chunk 84; the flush
with callback 3 is acknowledged (`workerIdle`): chunk 0 is complete and durable, the
acknowledged position is 118 = the end of the head of chunk 84. Then a `commit` whose record
is only partly written (a short write of 5 of its 28 bytes, not synced). -/
def c05Example : List Step :=
  [ .call (.append [(⟨1, 0⟩, [1]), (⟨1, 1⟩, [2])]), .flush (some 3), .workerIdle,
    .call (.commit ⟨1, 1⟩), .flush none, .worker .ok, .worker (.short 5) ]

/-- The hypotheses of the theorems hold for it, with a rotation behind it and a torn tail:
chunk 0 has 84 bytes, all durable; chunk 84 has 39 bytes written, 34 durable; the
acknowledged position 118 covers the start 84 of the newest chunk
(`c05_no_torn_predecessor_when_synced` applies). -/
example :
    (∀ st ∈ c05Example, st.journal = true) ∧
    (RefLog.run {} (stepOps c05Example)).isSome = true ∧
    (∀ op ∈ stepOps c05Example, op.WF ∧ op.small) ∧
    ((Sys.fresh { maxRecords := 3 }).run c05Example).worker.pc ≠ .dead ∧
    ((Sys.fresh { maxRecords := 3 }).run c05Example).store.map
      (fun s => (s.closed.map Closed.id, s.openId, s.openEnd)) = some ([0], 84, 146) ∧
    ((Sys.fresh { maxRecords := 3 }).run c05Example).fs.map
      (fun f => (f.id, f.data.length, f.durable, f.linked)) = [(0, 84, 84, true), (84, 39, 34, true)] ∧
    (Sys.fresh { maxRecords := 3 }).ackRun c05Example 0 = 118 := by
  refine ⟨by decide +kernel, by decide +kernel, ?_, by decide +kernel, by decide +kernel,
    by decide +kernel, by decide +kernel⟩
  intro op hop
  simp only [c05Example, stepOps, List.mem_cons, List.not_mem_nil, or_false] at hop
  rcases hop with h | h <;> subst h <;>
    simp [Op.WF, Op.small, LogId.WF, bytesWF, smallId, U64, U32]

/-- Three crash images: the process crash (the torn `commit` survives as 5 bytes), the
worst power failure (chunk 84 cut to its 34 durable bytes), and a power failure that leaves
3 zero bytes after the record boundary 34. None has a torn predecessor. -/
example :
    CrashImage ((Sys.fresh { maxRecords := 3 }).run c05Example).fs
      (cutCrash ((Sys.fresh { maxRecords := 3 }).run c05Example).fs [(84, 0), (39, 0)]) ∧
    CrashImage ((Sys.fresh { maxRecords := 3 }).run c05Example).fs
      (cutCrash ((Sys.fresh { maxRecords := 3 }).run c05Example).fs [(84, 0), (34, 0)]) ∧
    CrashImage ((Sys.fresh { maxRecords := 3 }).run c05Example).fs
      (cutCrash ((Sys.fresh { maxRecords := 3 }).run c05Example).fs [(84, 0), (34, 3)]) ∧
    NoTornPredecessor (cutCrash ((Sys.fresh { maxRecords := 3 }).run c05Example).fs [(84, 0), (39, 0)]) ∧
    NoTornPredecessor (cutCrash ((Sys.fresh { maxRecords := 3 }).run c05Example).fs [(84, 0), (34, 0)]) ∧
    NoTornPredecessor (cutCrash ((Sys.fresh { maxRecords := 3 }).run c05Example).fs [(84, 0), (34, 3)]) := by
  have h1 := cutCrash_image ((Sys.fresh { maxRecords := 3 }).run c05Example).fs [(84, 0), (39, 0)]
    (by decide +kernel)
  have h2 := cutCrash_image ((Sys.fresh { maxRecords := 3 }).run c05Example).fs [(84, 0), (34, 0)]
    (by decide +kernel)
  have h3 := cutCrash_image ((Sys.fresh { maxRecords := 3 }).run c05Example).fs [(84, 0), (34, 3)]
    (by decide +kernel)
  have hsome : ∃ s r, ((Sys.fresh { maxRecords := 3 }).run c05Example).store = some s ∧
      s.openId ≤ (Sys.fresh { maxRecords := 3 }).ackRun c05Example 0 ∧
      RefLog.run {} (stepOps c05Example) = some r := by
    cases hs : ((Sys.fresh { maxRecords := 3 }).run c05Example).store with
    | none => exact absurd hs (by decide +kernel)
    | some s =>
      cases hr : RefLog.run {} (stepOps c05Example) with
      | none => exact absurd hr (by decide +kernel)
      | some r =>
        refine ⟨s, r, rfl, ?_, rfl⟩
        have : (((Sys.fresh { maxRecords := 3 }).run c05Example).store.map Store.openId) = some 84 := by
          decide +kernel
        rw [hs] at this
        simp only [Option.map_some, Option.some.injEq] at this
        rw [this]
        decide +kernel
  obtain ⟨s, r, hs, hA, hr⟩ := hsome
  have hwf : ∀ op ∈ stepOps c05Example, op.WF ∧ op.small := by
    intro op hop
    simp only [c05Example, stepOps, List.mem_cons, List.not_mem_nil, or_false] at hop
    rcases hop with h | h <;> subst h <;>
      simp [Op.WF, Op.small, LogId.WF, bytesWF, smallId, U64, U32]
  have key := fun img hc => c05_no_torn_predecessor_when_synced { maxRecords := 3 } c05Example r s
    (by decide +kernel) hr hwf (by decide +kernel) hs hA img hc
  exact ⟨h1, h2, h3, key _ h1, key _ h2, key _ h3⟩

/-- `open` on each of them (default configuration): after the process crash and after the
zero-tail failure the torn tail of chunk 84 is cut off and a fresh chunk 118 is created;
after the worst power failure chunk 84 is reused. In all three cases the recovered state and
index keys are those of the reference log after the first two entry-level writes (the two
appends — the acknowledged ones; the `commit` is lost). -/
example :
    (openStore {} (cutCrash ((Sys.fresh { maxRecords := 3 }).run c05Example).fs [(84, 0), (39, 0)])).2.1.map
      (fun f => (f.id, f.data.length, f.durable, f.linked))
      = [(0, 84, 84, true), (84, 34, 34, true), (118, 34, 0, true)] ∧
    (openStore {} (cutCrash ((Sys.fresh { maxRecords := 3 }).run c05Example).fs [(84, 0), (34, 3)])).2.1.map
      (fun f => (f.id, f.data.length, f.durable, f.linked))
      = [(0, 84, 84, true), (84, 34, 34, true), (118, 34, 0, true)] ∧
    (openStore {} (cutCrash ((Sys.fresh { maxRecords := 3 }).run c05Example).fs [(84, 0), (34, 0)])).2.1.map
      (fun f => (f.id, f.data.length, f.durable, f.linked))
      = [(0, 84, 84, true), (84, 34, 34, true)] := by
  refine ⟨by decide +kernel, by decide +kernel, by decide +kernel⟩

example :
    c03View (openStore {} (cutCrash ((Sys.fresh { maxRecords := 3 }).run c05Example).fs
        [(84, 0), (39, 0)])).1
      = some (⟨none, some ⟨1, 1⟩, none, none, none⟩, [(0, ⟨1, 0⟩), (1, ⟨1, 1⟩)]) ∧
    c03View (openStore {} (cutCrash ((Sys.fresh { maxRecords := 3 }).run c05Example).fs
        [(84, 0), (34, 3)])).1
      = some (⟨none, some ⟨1, 1⟩, none, none, none⟩, [(0, ⟨1, 0⟩), (1, ⟨1, 1⟩)]) ∧
    c03View (openStore {} (cutCrash ((Sys.fresh { maxRecords := 3 }).run c05Example).fs
        [(84, 0), (34, 0)])).1
      = some (⟨none, some ⟨1, 1⟩, none, none, none⟩, [(0, ⟨1, 0⟩), (1, ⟨1, 1⟩)]) ∧
    (RefLog.run {} ((expandOps {} (stepOps c05Example)).take 2)).map
        (fun r' => (r'.state, entKeys r'.entries))
      = some (⟨none, some ⟨1, 1⟩, none, none, none⟩, [(0, ⟨1, 0⟩), (1, ⟨1, 1⟩)]) := by
  refine ⟨by decide +kernel, by decide +kernel, by decide +kernel, by decide +kernel⟩

/-- The recovered system (process-crash image). -/
def c05Recovered : Sys :=
  (({ fs := cutCrash ((Sys.fresh { maxRecords := 3 }).run c05Example).fs [(84, 0), (39, 0)],
      cfg := {} } : Sys).open).2.1

/-- (2) on the example, computed by the model: the recovered store accepts a further
append (its payload is read back together with the recovered entries), a flush with
callback 9 is acknowledged, and drop + open afterwards changes nothing. -/
example :
    (c05Recovered.call (.append [(⟨1, 2⟩, [7])])).1.isOk = true ∧
    ((c05Recovered.run [.call (.append [(⟨1, 2⟩, [7])])]).store.map
      (fun s => (s.read (c05Recovered.run [.call (.append [(⟨1, 2⟩, [7])])]).fs 0 10).1))
      = some [ReadItem.ok ⟨1, 0⟩ [1], ReadItem.ok ⟨1, 1⟩ [2], ReadItem.ok ⟨1, 2⟩ [7]] ∧
    Ev.cb 9 true ∈ (c05Recovered.run [.call (.append [(⟨1, 2⟩, [7])]), .flush (some 9)]).stepEvs
      .workerIdle ∧
    (((c05Recovered.run [.call (.append [(⟨1, 2⟩, [7])]), .flush (some 9), .workerIdle]).step
        .drop).step (.openWith {})).store.map (fun s => (s.st, s.log, s.closed, s.openOffsets))
      = (c05Recovered.run [.call (.append [(⟨1, 2⟩, [7])]), .flush (some 9), .workerIdle]).store.map
        (fun s => (s.st, s.log, s.closed, s.openOffsets)) := by
  refine ⟨by decide +kernel, by decide +kernel, by decide +kernel, by decide +kernel⟩

/-- (3) on the example: `open` on the process-crash image performs six events (D15: with the
syncs of the kept chunks 0 and 84); a crash
after the truncation, after the creation of chunk 118 (its file still empty), or within
the write of its head (5 of 34 bytes) is recovered to the same state and index keys. -/
example :
    (openStore {} (cutCrash ((Sys.fresh { maxRecords := 3 }).run c05Example).fs [(84, 0), (39, 0)])).2.2.map
      (fun e => match e with
        | .trunc _ id len => (0, id, len) | .sync _ id _ => (1, id, 0) | .create _ id _ => (2, id, 0)
        | .write _ id bs _ => (3, id, bs.length) | _ => (9, 0, 0))
      = [(1, 0, 0), (0, 84, 34), (1, 84, 0), (1, 84, 0), (2, 118, 0), (3, 118, 34)] ∧
    c03View (openStore {} (procCrash (openEffsC5b
      ((openStore {} (cutCrash ((Sys.fresh { maxRecords := 3 }).run c05Example).fs [(84, 0), (39, 0)])).2.2.take 2)
      (cutCrash ((Sys.fresh { maxRecords := 3 }).run c05Example).fs [(84, 0), (39, 0)])))).1
      = some (⟨none, some ⟨1, 1⟩, none, none, none⟩, [(0, ⟨1, 0⟩), (1, ⟨1, 1⟩)]) ∧
    c03View (openStore {} (procCrash (openEffsC5b
      ((openStore {} (cutCrash ((Sys.fresh { maxRecords := 3 }).run c05Example).fs [(84, 0), (39, 0)])).2.2.take 5)
      (cutCrash ((Sys.fresh { maxRecords := 3 }).run c05Example).fs [(84, 0), (39, 0)])))).1
      = some (⟨none, some ⟨1, 1⟩, none, none, none⟩, [(0, ⟨1, 0⟩), (1, ⟨1, 1⟩)]) ∧
    c03View (openStore {} (cutCrash
      (openStore {} (cutCrash ((Sys.fresh { maxRecords := 3 }).run c05Example).fs [(84, 0), (39, 0)])).2.1
      [(84, 0), (34, 0), (5, 0)])).1
      = some (⟨none, some ⟨1, 1⟩, none, none, none⟩, [(0, ⟨1, 0⟩), (1, ⟨1, 1⟩)]) := by
  refine ⟨by decide +kernel, by decide +kernel, by decide +kernel, by decide +kernel⟩

/-- (5) on the example: a second round. On the recovered store a further append is
journalled, flushed and partly written (4 of its 33 bytes; the head of chunk 118 is not
durable yet); after a second crash — process crash or worst power failure (chunk 118 is
cut to nothing and recreated) — `open` succeeds again and reports the two surviving
entries. -/
def c05Round2 : List Step :=
  [.call (.append [(⟨1, 2⟩, [7])]), .flush none, .worker .ok, .worker (.short 4)]

example :
    (c05Recovered.run c05Round2).fs.map (fun f => (f.id, f.data.length, f.durable, f.linked))
      = [(0, 84, 84, true), (84, 34, 34, true), (118, 38, 0, true)] ∧
    c03View (openStore {} (procCrash (c05Recovered.run c05Round2).fs)).1
      = some (⟨none, some ⟨1, 1⟩, none, none, none⟩, [(0, ⟨1, 0⟩), (1, ⟨1, 1⟩)]) ∧
    (openStore {} (procCrash (c05Recovered.run c05Round2).fs)).2.1.map
      (fun f => (f.id, f.data.length, f.durable, f.linked))
      = [(0, 84, 84, true), (84, 34, 34, true), (118, 34, 34, true), (152, 34, 0, true)] ∧
    c03View (openStore {} (powerCrash (c05Recovered.run c05Round2).fs)).1
      = some (⟨none, some ⟨1, 1⟩, none, none, none⟩, [(0, ⟨1, 0⟩), (1, ⟨1, 1⟩)]) ∧
    (openStore {} (powerCrash (c05Recovered.run c05Round2).fs)).2.1.map
      (fun f => (f.id, f.data.length, f.durable, f.linked))
      = [(0, 84, 84, true), (84, 34, 34, true), (118, 34, 0, true)] := by
  refine ⟨by decide +kernel, by decide +kernel, by decide +kernel, by decide +kernel, by decide +kernel⟩

end RaftLog
