/-
C07 for histories WITH `truncate` — every live entry can be read back, whatever
the payload cache evicted, provided re-appended log ids are fresh.

`c07_reads_partial` (Props/C07.lean) excludes every history containing a
`truncate` op, because of the known finding: the eviction boundary is a LOG ID
(the closing `last` of a chunk, published once the worker has synced it); after
a `truncate`, an entry can be appended whose id is at or below a boundary that
is or will be published, and it is then evicted while its record is only in the
open chunk / in flight (`c07Counter`).

This file proves the read theorem for histories that DO contain `truncate`
under the hypothesis that excludes exactly that class:

  `AppendsFresh steps`: every log id appended in the history is strictly
  greater (LogId order: term, then index) than every log id appended earlier in
  the history.

Since legal appends have consecutive indexes and a truncation takes the index
back, this means: a re-append at or below an index that was used before carries
a higher term (what Raft does: a leader of a newer term overwrites a conflicting
suffix). `AppendsFresh` is a decidable predicate on the op list (a fold carrying
the largest id appended so far, `freshOpsC7b`); `c07t_appendsFresh_iff` states
it as "the list of appended ids is strictly increasing".

How the invariant was strengthened (Proofs/ReadTruncStore.lean, ReadTrunc.lean).
`RdInv` bounds every boundary-like value `p` (the eviction boundary, the
`prevLast` of every file entry the worker holds or has queued) by `last`, and
uses "a new entry's id is above `last`" to keep new entries out of the reach of
every such `p`. With `truncate`, `last` goes back. `RdInvC7b B` bounds the same
values by a ghost bound `B` instead, with `last ≤ B`; `B` never decreases, and
every id appended later is above it. At system level `B = max m purged`, `m` the
largest id appended so far: `last` is always an appended id, the purge id of a
purge beyond `last`, or `none`; a fresh id is above `m` by `AppendsFresh` and
above `purged` (≤ `last`) by legality. A `prevLast` is a `last` of the time the
chunk was closed, hence ≤ `B`; the boundary is one of the `prevLast`s. When the
open chunk closes, every live entry in it is at or below the closing `last`
(`clast`, as before).

Quantification: as in `c07_reads_partial`, with `truncate` allowed and
`AppendsFresh` added: every `cfg` (cache limits 0 included); every history of
`.call/.flush/.worker out/.workerIdle/.drain` steps from `Sys.fresh cfg` whose
calls, in order, are legal and accepted by the reference log from the empty log;
`Op.small`, `Op.WF`; the worker alive at the end.
-/
import RaftLogModel.Props.C07
import RaftLogModel.Proofs.ReadTrunc
namespace RaftLog

/-! ### 1. The hypothesis, declaratively -/

/-- The log ids appended by a list of ops, in order. -/
def appendedIdsC7b : List Op → List LogId
  | [] => []
  | .append es :: rest => es.map (·.1) ++ appendedIdsC7b rest
  | _ :: rest => appendedIdsC7b rest

/-- The fold of `freshIdsC7b` on bare ids. -/
def freshListC7b (m : Option LogId) : List LogId → Option (Option LogId)
  | [] => some m
  | id :: rest => if optLt m (some id) then freshListC7b (some id) rest else none

theorem freshIds_eq_C7b (m : Option LogId) (es : List (LogId × Bytes)) :
    freshIdsC7b m es = freshListC7b m (es.map (·.1)) := by
  induction es generalizing m with
  | nil => rfl
  | cons e rest ih =>
    obtain ⟨id, p⟩ := e
    simp only [freshIdsC7b, List.map_cons, freshListC7b, ih]

theorem freshList_append_C7b (m : Option LogId) (a b : List LogId) :
    freshListC7b m (a ++ b) = (freshListC7b m a).bind (fun m' => freshListC7b m' b) := by
  induction a generalizing m with
  | nil => rfl
  | cons id rest ih =>
    simp only [List.cons_append, freshListC7b]
    split
    · exact ih _
    · rfl

theorem freshOps_eq_C7b (m : Option LogId) (ops : List Op) :
    freshOpsC7b m ops = freshListC7b m (appendedIdsC7b ops) := by
  induction ops generalizing m with
  | nil => rfl
  | cons op rest ih =>
    cases op with
    | append es =>
      simp only [freshOpsC7b, freshOpC7b, appendedIdsC7b, freshList_append_C7b, freshIds_eq_C7b]
      cases freshListC7b m (es.map (·.1)) with
      | none => rfl
      | some m' => exact ih m'
    | saveVote v => exact ih m
    | truncate idx => exact ih m
    | purge id => exact ih m
    | commit id => exact ih m
    | saveUserData d => exact ih m

theorem optLt_trans_some_C7b {m : Option LogId} {a b : LogId} (h1 : optLt m (some a) = true)
    (h2 : a.lt b = true) : optLt m (some b) = true := by
  cases m with
  | none => rfl
  | some x => exact LogId.lt_trans h1 h2

theorem freshList_isSome_C7b (m : Option LogId) (l : List LogId) :
    (freshListC7b m l).isSome = true ↔
      (∀ id ∈ l, optLt m (some id) = true) ∧ l.Pairwise (fun a b => a.lt b = true) := by
  induction l generalizing m with
  | nil => simp [freshListC7b]
  | cons id rest ih =>
    simp only [freshListC7b]
    by_cases h : optLt m (some id) = true
    · rw [if_pos h, ih]
      simp only [optLt_some_some, List.mem_cons, forall_eq_or_imp, List.pairwise_cons]
      constructor
      · rintro ⟨h1, h2⟩
        exact ⟨⟨h, fun x hx => optLt_trans_some_C7b h (h1 x hx)⟩, h1, h2⟩
      · rintro ⟨⟨_, _⟩, h1, h2⟩
        exact ⟨h1, h2⟩
    · rw [if_neg h]
      simp only [Option.isSome_none, Bool.false_eq_true, List.mem_cons, forall_eq_or_imp, false_iff]
      rintro ⟨⟨h1, _⟩, _⟩
      exact h h1

/-- **`AppendsFresh` in words**: the log ids appended by the calls of the
history, in order (batches flattened), are strictly increasing — every appended
id is above every id appended earlier. -/
theorem c07t_appendsFresh_iff (steps : List Step) :
    AppendsFresh steps = true ↔
      (appendedIdsC7b (stepOps steps)).Pairwise (fun a b => a.lt b = true) := by
  unfold AppendsFresh
  rw [freshOps_eq_C7b, freshList_isSome_C7b]
  simp

/-! ### 2. The invariant: (A) the fresh store, (B) every step -/

/-- What `ReadInvC7b y r m` says, item by item (compare `c07_readInv_spec`):
with `B = max m r.purged` (`m` = the largest id appended so far), the boundary
and every `prevLast` the worker holds or will be told about are at or below `B`
(instead of: at or below `last`), and `last ≤ B`. -/
theorem c07t_readInv_spec {y : Sys} {r : RefLog} {m : Option LogId} (h : ReadInvC7b y r m) :
    ∃ s, y.store = some s ∧ y.worker.pc ≠ .dead ∧ J y ∧ RefinesNoCache s r ∧ r.EntriesWF ∧
      (∀ x ∈ s.log, ∃ p, (x.2.id, p) ∈ r.entries ∧
        Located s y.fs y.worker x.2 (encRecord (.append x.2.id p))) ∧
      (∀ x ∈ s.log, (∃ p, (x.2.id, p) ∈ s.cache.items) ∨ x.2.chunk < y.worker.cur) ∧
      (∀ x ∈ s.log, ∀ c ∈ s.closed, c.id = x.2.chunk → optLe (some x.2.id) c.state.last = true) ∧
      EntOKC7b (optMaxC7b m r.purged) s y.worker.cur s.cache.lastEvictable ∧
      (∀ f ∈ y.worker.fents, EntOKC7b (optMaxC7b m r.purged) s f.id f.prevLast) ∧
      optLe s.st.last (optMaxC7b m r.purged) = true ∧
      (∀ e ∈ s.cache.items, ∀ a ∈ r.entries, a.1 = e.1 → a.2 = e.2) := by
  have hJ := h.toJ
  obtain ⟨s, hs, hd, _, hr, hew⟩ := h
  exact ⟨s, hs, hd, hJ, hr.ref, hew, hr.loc, hr.res, hr.clast, hr.bnd, hr.ents, hr.lastB, hr.cval⟩

/-- (A) -/
theorem c07t_inv_fresh (cfg : Cfg) : ReadInvC7b (Sys.fresh cfg) {} none := fresh_readInv_C7b cfg

/-- (B) a legal, accepted, small, well-formed call — ANY op, `truncate`
included — whose appended ids are above the largest id `m` appended so far
(chunk rotations, purge of closed chunks and cache eviction included): the
invariant is kept against the new reference log and the new largest id, and the
call returns `ok`. -/
theorem c07t_inv_call (y : Sys) (r r' : RefLog) (m m' : Option LogId) (op : Op) (h : ReadInvC7b y r m)
    (hl : r.legal op = true) (hc : r.call op = .ok r') (hsm : op.small) (hwf : op.WF)
    (hfr : freshOpC7b m op = some m') :
    ReadInvC7b (y.step (.call op)) r' m' ∧ ∃ seg, (y.call op).1 = .ok seg :=
  h.call hl hc hsm hwf hfr

/-- (B) the `truncate` case on its own: no freshness condition is needed for
the truncation itself, and the largest appended id does not change. -/
theorem c07t_inv_truncate (y : Sys) (r r' : RefLog) (m : Option LogId) (idx : Nat) (h : ReadInvC7b y r m)
    (hl : r.legal (.truncate idx) = true) (hc : r.call (.truncate idx) = .ok r') :
    ReadInvC7b (y.step (.call (.truncate idx))) r' m ∧ ∃ seg, (y.call (.truncate idx)).1 = .ok seg :=
  h.call hl hc trivial trivial rfl

/-- (B) -/
theorem c07t_inv_flush (y : Sys) (r : RefLog) (m : Option LogId) (cb : Option Nat) (h : ReadInvC7b y r m) :
    ReadInvC7b (y.step (.flush cb)) r m := h.flush cb

/-- (B) any outcome (`ok`, `eio` at a sync, `short k`), provided the worker is
not dead afterwards. -/
theorem c07t_inv_worker (y : Sys) (r : RefLog) (m : Option LogId) (out : Outcome) (h : ReadInvC7b y r m)
    (halive : (y.step (.worker out)).worker.pc ≠ .dead) : ReadInvC7b (y.step (.worker out)) r m :=
  h.worker out halive

/-- (B) -/
theorem c07t_inv_workerIdle (y : Sys) (r : RefLog) (m : Option LogId) (h : ReadInvC7b y r m)
    (halive : (y.step .workerIdle).worker.pc ≠ .dead) : ReadInvC7b (y.step .workerIdle) r m :=
  h.workerIdle halive

/-- (B) -/
theorem c07t_inv_drain (y : Sys) (r : RefLog) (m : Option LogId) (h : ReadInvC7b y r m) :
    ReadInvC7b (y.step .drain) r m := h.drain

/-- **ReadInvC7b ⇒ read = spec read.** -/
theorem c07t_read_of_inv {y : Sys} {r : RefLog} {m : Option LogId} (h : ReadInvC7b y r m) :
    ∃ s, y.store = some s ∧ s.st = r.state ∧
      (∀ a b, (s.read y.fs a b).1 = (r.read a b).map (fun e => ReadItem.ok e.1 e.2)) ∧
      s.iter y.fs = r.entries.map (fun e => ReadItem.ok e.1 e.2) :=
  h.read

/-- **(i) / (ii)** as in `c07_resident_or_on_disk`: every live entry is resident
with its payload, or its chunk is closed and its record is completely written
to the chunk file. -/
theorem c07t_resident_or_on_disk {y : Sys} {r : RefLog} {m : Option LogId} (h : ReadInvC7b y r m) :
    ∃ s, y.store = some s ∧ ∀ x ∈ s.log, ∃ p, (x.2.id, p) ∈ r.entries ∧
      (s.cache.get x.2.id = some p ∨
        ((∃ c ∈ s.closed, c.id = x.2.chunk) ∧ y.worker.inflight x.2.chunk = [] ∧
          ∃ f, y.fs.find x.2.chunk = some f ∧ x.2.off - x.2.chunk + x.2.size ≤ f.data.length ∧
            (f.data.drop (x.2.off - x.2.chunk)).take x.2.size = encRecord (.append x.2.id p))) :=
  h.resident_or_on_disk

/-- The invariant after every `AppendsFresh` history with a live worker; `m` is
the largest id appended in the history. -/
theorem c07t_inv_reachable (cfg : Cfg) (steps : List Step) (r : RefLog)
    (hsteps : ∀ st ∈ steps, st.journal = true)
    (hlegal : RefLog.run {} (stepOps steps) = some r)
    (hops : ∀ op ∈ stepOps steps, op.small ∧ op.WF)
    (hfresh : AppendsFresh steps = true)
    (halive : ((Sys.fresh cfg).run steps).worker.pc ≠ .dead) :
    ∃ m, freshOpsC7b none (stepOps steps) = some m ∧ ReadInvC7b ((Sys.fresh cfg).run steps) r m := by
  unfold AppendsFresh at hfresh
  cases hm : freshOpsC7b none (stepOps steps) with
  | none => rw [hm] at hfresh; cases hfresh
  | some m =>
    exact ⟨m, rfl, (run_readInv_C7b steps _ {} r none m (fresh_readInv_C7b cfg) hsteps hlegal hops hm
      halive).1⟩

/-! ### 3. The property -/

/-- **C07 for histories with `truncate` (re-appended ids fresh).** For every
configuration — any chunk limits, any payload-cache limits including 0 — and
every history of calls (ANY op, `truncate` included), flushes, worker steps (any
outcome), `workerIdle` and `drain` steps on a store opened on an empty
directory: if the calls, in order, are legal and accepted by the reference log
starting from the empty log, reaching `r`, every op is `small` and well-formed,
every appended log id is strictly greater than every log id appended earlier in
the history (`AppendsFresh`: a re-append after a truncation uses a higher term),
and the worker is alive at the end, then the final store reports `r`'s state,
every `read(a, b)` returns exactly `r`'s entries in `[a, b)` as `ok id payload`
— original payload, no error — and so does the dump iterator; moreover every
call along the way returned `ok`. -/
theorem c07_reads_with_truncate (cfg : Cfg) (steps : List Step) (r : RefLog)
    (hsteps : ∀ st ∈ steps, st.journal = true)
    (hlegal : RefLog.run {} (stepOps steps) = some r)
    (hops : ∀ op ∈ stepOps steps, op.small ∧ op.WF)
    (hfresh : AppendsFresh steps = true)
    (halive : ((Sys.fresh cfg).run steps).worker.pc ≠ .dead) :
    (∃ s, ((Sys.fresh cfg).run steps).store = some s ∧ s.st = r.state ∧
      (∀ a b, (s.read ((Sys.fresh cfg).run steps).fs a b).1
          = (r.read a b).map (fun e => ReadItem.ok e.1 e.2)) ∧
      s.iter ((Sys.fresh cfg).run steps).fs = r.entries.map (fun e => ReadItem.ok e.1 e.2)) ∧
    (∀ pre op post, steps = pre ++ Step.call op :: post →
      ∃ seg, (((Sys.fresh cfg).run pre).call op).1 = .ok seg) := by
  unfold AppendsFresh at hfresh
  cases hm : freshOpsC7b none (stepOps steps) with
  | none => rw [hm] at hfresh; cases hfresh
  | some m =>
    obtain ⟨h, hcalls⟩ :=
      run_readInv_C7b steps _ {} r none m (fresh_readInv_C7b cfg) hsteps hlegal hops hm halive
    exact ⟨h.read, hcalls⟩

/-! ### 4. The new theorem subsumes the old one -/

theorem append1_last_C7b {r r1 : RefLog} {id : LogId} {p : Bytes} (hc : r.append1 id p = .ok r1) :
    optLe (some id) r.last = false ∧ r1.last = some id := by
  unfold RefLog.append1 at hc
  split at hc
  · cases hc
  · rename_i hn
    have hn' : optLe (some id) r.last = false := by simpa using hn
    split at hc
    · split at hc
      · cases hc
      · injection hc with hc; subst hc; exact ⟨hn', rfl⟩
    · injection hc with hc; subst hc; exact ⟨hn', rfl⟩

/-- An accepted batch appended to a log whose `last` is at or above `m` is
fresh, and the new largest id is at or below the new `last`. -/
theorem appendAll_fresh_C7b (es : List (LogId × Bytes)) : ∀ (r r' : RefLog) (m : Option LogId),
    optLe m r.last = true → r.appendAll es = .ok r' →
    ∃ m', freshIdsC7b m es = some m' ∧ optLe m' r'.last = true := by
  induction es with
  | nil =>
    intro r r' m hm hc
    simp only [RefLog.appendAll] at hc
    injection hc with hc; subst hc
    exact ⟨m, rfl, hm⟩
  | cons e rest ih =>
    obtain ⟨id, p⟩ := e
    intro r r' m hm hc
    simp only [RefLog.appendAll] at hc
    split at hc
    · rename_i r1 hc1
      obtain ⟨h1, h2⟩ := append1_last_C7b hc1
      have hlt : optLt m (some id) = true := by
        rw [optLt_iff_not_le]
        cases hle : optLe (some id) m with
        | false => rfl
        | true => have := optLe_trans hle hm; rw [h1] at this; cases this
      obtain ⟨m', hm', hle'⟩ := ih r1 r' (some id) (by rw [h2]; exact optLe_refl _) hc
      exact ⟨m', by simp only [freshIdsC7b, hlt, if_true]; exact hm', hle'⟩
    · cases hc

/-- In a legal history WITHOUT `truncate`, `last` never goes back, so every
appended id is above every id appended earlier. -/
theorem run_fresh_of_noTruncate_C7b (ops : List Op) : ∀ (r r' : RefLog) (m : Option LogId),
    optLe m r.last = true → r.run ops = some r' → (∀ op ∈ ops, ∀ idx, op ≠ .truncate idx) →
    (freshOpsC7b m ops).isSome = true := by
  induction ops with
  | nil => intro r r' m _ _ _; rfl
  | cons op rest ih =>
    intro r r' m hm hr hnt
    simp only [RefLog.run] at hr
    split at hr
    · split at hr
      · rename_i r1 hc
        have hnt' : ∀ o ∈ rest, ∀ idx, o ≠ .truncate idx := fun o ho => hnt o (List.mem_cons_of_mem _ ho)
        have key : ∃ m1, freshOpC7b m op = some m1 ∧ optLe m1 r1.last = true := by
          cases op with
          | truncate idx => exact absurd rfl (hnt _ List.mem_cons_self idx)
          | append es => exact appendAll_fresh_C7b es r r1 m hm hc
          | saveVote v =>
            refine ⟨m, rfl, ?_⟩
            simp only [RefLog.call] at hc
            split at hc
            · injection hc with hc; subst hc; exact hm
            · cases hc
          | commit id =>
            refine ⟨m, rfl, ?_⟩
            simp only [RefLog.call] at hc
            split at hc
            · cases hc
            · injection hc with hc; subst hc; exact hm
          | saveUserData d =>
            refine ⟨m, rfl, ?_⟩
            simp only [RefLog.call] at hc
            injection hc with hc; subst hc; exact hm
          | purge upto =>
            refine ⟨m, rfl, ?_⟩
            simp only [RefLog.call] at hc
            split at hc
            · injection hc with hc; subst hc; exact hm
            · injection hc with hc; subst hc
              show optLe m (if optLt r.last (some upto) then some upto else r.last) = true
              by_cases hlt : optLt r.last (some upto) = true
              · simp only [hlt, if_true]; exact optLe_trans hm (optLe_of_lt hlt)
              · simp only [hlt]; exact hm
        obtain ⟨m1, hf1, hm1⟩ := key
        simp only [freshOpsC7b, hf1]
        exact ih r1 r' m1 hm1 hr hnt'
      · cases hr
    · cases hr

/-- A truncate-free history whose calls are legal and accepted is `AppendsFresh`. -/
theorem c07t_appendsFresh_of_noTruncate (steps : List Step) (r : RefLog)
    (hlegal : RefLog.run {} (stepOps steps) = some r)
    (hnt : ∀ op ∈ stepOps steps, ∀ idx, op ≠ .truncate idx) : AppendsFresh steps = true :=
  run_fresh_of_noTruncate_C7b (stepOps steps) {} r none (by simp) hlegal hnt

/-- **`c07_reads_partial` is a corollary of `c07_reads_with_truncate`**: the
same statement (hypotheses and conclusion of `c07_reads_partial`), derived from
the new theorem alone. -/
theorem c07_reads_partial_of_with_truncate (cfg : Cfg) (steps : List Step) (r : RefLog)
    (hsteps : ∀ st ∈ steps, st.journal = true)
    (hlegal : RefLog.run {} (stepOps steps) = some r)
    (hops : ∀ op ∈ stepOps steps, op.c07)
    (halive : ((Sys.fresh cfg).run steps).worker.pc ≠ .dead) :
    (∃ s, ((Sys.fresh cfg).run steps).store = some s ∧ s.st = r.state ∧
      (∀ a b, (s.read ((Sys.fresh cfg).run steps).fs a b).1
          = (r.read a b).map (fun e => ReadItem.ok e.1 e.2)) ∧
      s.iter ((Sys.fresh cfg).run steps).fs = r.entries.map (fun e => ReadItem.ok e.1 e.2)) ∧
    (∀ pre op post, steps = pre ++ Step.call op :: post →
      ∃ seg, (((Sys.fresh cfg).run pre).call op).1 = .ok seg) :=
  c07_reads_with_truncate cfg steps r hsteps hlegal (fun op hop => ⟨(hops op hop).1, (hops op hop).2.1⟩)
    (c07t_appendsFresh_of_noTruncate steps r hlegal (fun op hop => (hops op hop).2.2)) halive

/-! ### 5. Worker steps and cache limits are invisible to readers -/

/-- `c07_worker_steps_invisible` for histories with `truncate`: inserting or
removing worker steps (any outcome), `workerIdle` and `drain` steps anywhere in
an `AppendsFresh` history does not change what readers see. -/
theorem c07t_worker_steps_invisible (cfg : Cfg) (steps1 steps2 : List Step) (r : RefLog)
    (hsame : steps1.filter (fun st => !st.background) = steps2.filter (fun st => !st.background))
    (hsteps : ∀ st ∈ steps1, st.journal = true)
    (hlegal : RefLog.run {} (stepOps steps1) = some r)
    (hops : ∀ op ∈ stepOps steps1, op.small ∧ op.WF)
    (hfresh : AppendsFresh steps1 = true)
    (halive1 : ((Sys.fresh cfg).run steps1).worker.pc ≠ .dead)
    (halive2 : ((Sys.fresh cfg).run steps2).worker.pc ≠ .dead) :
    let y1 := (Sys.fresh cfg).run steps1
    let y2 := (Sys.fresh cfg).run steps2
    ∃ s1 s2, y1.store = some s1 ∧ y2.store = some s2 ∧ s1.st = s2.st ∧
      (∀ a b, (s1.read y1.fs a b).1 = (s2.read y2.fs a b).1) ∧ s1.iter y1.fs = s2.iter y2.fs := by
  intro y1 y2
  have hopsEq : stepOps steps2 = stepOps steps1 := by
    rw [← stepOps_filter_background steps2, ← hsame, stepOps_filter_background]
  obtain ⟨⟨s1, hs1, hst1, hrd1, hit1⟩, _⟩ :=
    c07_reads_with_truncate cfg steps1 r hsteps hlegal hops hfresh halive1
  obtain ⟨⟨s2, hs2, hst2, hrd2, hit2⟩, _⟩ := c07_reads_with_truncate cfg steps2 r
    (journal_of_filter_background hsame hsteps) (by rw [hopsEq]; exact hlegal)
    (by rw [hopsEq]; exact hops) (by unfold AppendsFresh at hfresh ⊢; rw [hopsEq]; exact hfresh) halive2
  exact ⟨s1, s2, hs1, hs2, hst1.trans hst2.symm, fun a b => (hrd1 a b).trans (hrd2 a b).symm,
    hit1.trans hit2.symm⟩

/-- `c07_cache_limits_invisible` for histories with `truncate`. -/
theorem c07t_cache_limits_invisible (cfg : Cfg) (cacheItems cacheCap : Nat) (steps : List Step) (r : RefLog)
    (hsteps : ∀ st ∈ steps, st.journal = true)
    (hlegal : RefLog.run {} (stepOps steps) = some r)
    (hops : ∀ op ∈ stepOps steps, op.small ∧ op.WF)
    (hfresh : AppendsFresh steps = true)
    (halive1 : ((Sys.fresh cfg).run steps).worker.pc ≠ .dead)
    (halive2 : ((Sys.fresh { cfg with cacheItems := cacheItems, cacheCap := cacheCap }).run steps).worker.pc
      ≠ .dead) :
    let y1 := (Sys.fresh cfg).run steps
    let y2 := (Sys.fresh { cfg with cacheItems := cacheItems, cacheCap := cacheCap }).run steps
    ∃ s1 s2, y1.store = some s1 ∧ y2.store = some s2 ∧ s1.st = s2.st ∧
      (∀ a b, (s1.read y1.fs a b).1 = (s2.read y2.fs a b).1) ∧ s1.iter y1.fs = s2.iter y2.fs := by
  intro y1 y2
  obtain ⟨⟨s1, hs1, hst1, hrd1, hit1⟩, _⟩ :=
    c07_reads_with_truncate cfg steps r hsteps hlegal hops hfresh halive1
  obtain ⟨⟨s2, hs2, hst2, hrd2, hit2⟩, _⟩ :=
    c07_reads_with_truncate { cfg with cacheItems := cacheItems, cacheCap := cacheCap } steps r hsteps hlegal
      hops hfresh halive2
  exact ⟨s1, s2, hs1, hs2, hst1.trans hst2.symm, fun a b => (hrd1 a b).trans (hrd2 a b).symm,
    hit1.trans hit2.symm⟩

/-! ### Non-vacuity -/

/-- A history with two truncations, each followed by a re-append at the
truncated index with a HIGHER term, on `c07Cfg` (a cache that may hold nothing,
chunk rotation after every second record): appends in three terms, a purge, a
flush with a callback, a short write, a failed sync (`eio`), drains and worker
steps. -/
def c07tExample : List Step :=
  [ .call (.saveVote ⟨1, 7⟩),
    .call (.append [(⟨1, 0⟩, [1, 2, 3]), (⟨1, 1⟩, [4]), (⟨1, 2⟩, [5, 6])]),
    .flush none,
    .workerIdle,
    .call (.truncate 1),
    .call (.append [(⟨2, 1⟩, [9])]),
    .drain,
    .worker .ok,
    .call (.append [(⟨2, 2⟩, [8, 8])]),
    .flush (some 0),
    .worker .ok, .worker (.short 3), .worker .ok,
    .call (.purge ⟨1, 0⟩),
    .call (.truncate 2),
    .call (.append [(⟨3, 2⟩, [7]), (⟨3, 3⟩, [6, 6])]),
    .worker .ok,
    .worker .eio,
    .drain,
    .workerIdle,
    .drain ]

/-- The hypotheses of `c07_reads_with_truncate` hold for it (it contains
`truncate` ops, so `c07_reads_partial` does not apply), and the reference log
ends with three live entries, two of them re-appended after a truncation. -/
example :
    (∀ st ∈ c07tExample, st.journal = true) ∧
    RefLog.run {} (stepOps c07tExample) = some
      { vote := some ⟨1, 7⟩, last := some ⟨3, 3⟩, committed := none, purged := some ⟨1, 0⟩,
        entries := [(⟨2, 1⟩, [9]), (⟨3, 2⟩, [7]), (⟨3, 3⟩, [6, 6])] } ∧
    (∀ op ∈ stepOps c07tExample, op.small ∧ op.WF) ∧
    AppendsFresh c07tExample = true ∧
    ((Sys.fresh c07Cfg).run c07tExample).worker.pc ≠ .dead ∧
    (∃ idx, Op.truncate idx ∈ stepOps c07tExample) := by
  refine ⟨by decide, by decide, ?_, by decide +kernel, by decide +kernel, ⟨1, by decide⟩⟩
  intro op hop
  simp only [c07tExample, stepOps, List.mem_cons, List.not_mem_nil, or_false] at hop
  rcases hop with h | h | h | h | h | h | h | h <;> subst h <;>
    simp [Op.small, Op.WF, smallId, LogId.WF, bytesWF, U64, U32]

/- The implementation side of the same history, computed by the model: the
read returns the three live entries with their payloads; only the newest one is
still resident (the boundary has reached `(3, 2)`), the two re-appended entries
`(2, 1)` and `(3, 2)` are cache misses served from the chunk files. -/
set_option maxRecDepth 100000 in
example :
    ∃ s, ((Sys.fresh c07Cfg).run c07tExample).store = some s ∧
      (s.read ((Sys.fresh c07Cfg).run c07tExample).fs 0 10).1 =
        [ReadItem.ok ⟨2, 1⟩ [9], ReadItem.ok ⟨3, 2⟩ [7], ReadItem.ok ⟨3, 3⟩ [6, 6]] ∧
      s.cache.items = [(⟨3, 3⟩, [6, 6])] ∧
      s.cache.lastEvictable = some ⟨3, 2⟩ ∧
      (s.read ((Sys.fresh c07Cfg).run c07tExample).fs 0 10).2.miss = 2 := by
  refine ⟨_, rfl, ?_, ?_, ?_, ?_⟩ <;> decide +kernel

/-! ### The known finding is outside the hypothesis -/

/-- `c07Counter` (the history of the known finding: re-append of `(1, 1)` after
`(1, 2)` had been appended) does NOT satisfy `AppendsFresh`. -/
example : AppendsFresh c07Counter = false := by decide

/-- Its appended ids, in order: `(1, 1)` comes again after `(1, 2)`. -/
example : appendedIdsC7b (stepOps c07Counter) = [⟨1, 0⟩, ⟨1, 1⟩, ⟨1, 2⟩, ⟨1, 1⟩] := by decide

/-- The same history with the re-append in a higher term IS `AppendsFresh`, and
the read succeeds (`c07_reads_with_truncate` applies; here computed). -/
def c07CounterFixed : List Step :=
  [ .call (.append [(⟨1, 0⟩, [1]), (⟨1, 1⟩, [2]), (⟨1, 2⟩, [3])]),
    .flush none,
    .workerIdle,
    .call (.truncate 1),
    .call (.append [(⟨2, 1⟩, [9])]) ]

set_option maxRecDepth 100000 in
example :
    AppendsFresh c07CounterFixed = true ∧
    ∃ s, ((Sys.fresh c07Cfg).run c07CounterFixed).store = some s ∧
      (s.read ((Sys.fresh c07Cfg).run c07CounterFixed).fs 0 10).1 =
        [ReadItem.ok ⟨1, 0⟩ [1], ReadItem.ok ⟨2, 1⟩ [9]] := by
  refine ⟨by decide, _, rfl, by decide +kernel⟩

end RaftLog
