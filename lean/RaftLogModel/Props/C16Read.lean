/-
C16 for reads and recovery — no reachable state makes `read`, the dump
iterator or a clean reopen panic.

`loadPayload` (the cache-miss path of `read` / `dump_data().iter()`) has two
`panic` branches: the bytes at the recorded position decode to a record that
is not an `Append`, or to an `Append` with another log id. The theorems below
show they are unreachable in every state that satisfies the replay invariant
of C02 (`RSys`), hence after every history of legal, accepted, well-formed,
small calls — `truncate` INCLUDED — flushes, worker steps of any outcome,
`workerIdle`, `drain` and clean restarts (drop + reopen with any
configuration), as long as the worker is alive: for all `a b` (also `b < a`,
also values ≥ 2^64 — `Nat`), every item of `read a b` and of `iter` is `ok` or
`err`.

More precisely (`c16_lookup_trichotomy`): for every index entry `d`, a lookup
that misses the cache returns `err notFound` (no closed chunk with that id: the
record is still in the open chunk), `err eof` (the chunk file is still too
short: the record is in flight), or `ok d.id p` where `(d.id, p)` is a live
entry of the reference log (the bytes read are exactly the encoding of the
entry's own `Append` record). The errors are the known finding of C07
(`c07_reads_partial`: they do occur after `truncate`); panics never occur.

Recovery: `c16_open_no_panic_clean` — at every clean point of such a history
`drop` + `open cfg'` returns `ok` (so it does not panic), for every `cfg'`.
`c16_open_no_panic_reachable` — at EVERY point of such a history (worker in the
middle of a batch, bytes pending or in flight, removals outstanding), for every
`cfg'`: `open` on the files as they are does not panic, and `drop` followed by
`open cfg'` does not panic. Reason: every chunk file — live, scheduled for
removal, already unlinked — always holds a prefix of the encoding of small
well-formed records (`SmallJ`, Proofs/SmallJournal*.lean: journalled records of
small ops are small, head `State` records carry the small `purged`/`last` of a
`PanicFree` store); `drop` only appends bytes that were in flight; so `FsSmall`
holds and `c05_open_no_panic_partial` applies.

Helpers: Proofs/ReadNoPanic.lean, Proofs/SmallJournal.lean,
Proofs/SmallJournalSys.lean.
-/
import RaftLogModel.Proofs.ReadNoPanic
import RaftLogModel.Proofs.SmallJournalSys
import RaftLogModel.Props.C02
import RaftLogModel.Props.C05
import RaftLogModel.Props.C06Sys
import RaftLogModel.Props.C07
namespace RaftLog

/-- **Trichotomy of a cache miss** under the replay invariant. -/
theorem c16_lookup_trichotomy {y : Sys} {r : RefLog} (h : RSys y r) :
    ∃ s, y.store = some s ∧ ∀ x ∈ s.log,
      loadPayload s.closed y.fs x.2 = .err .notFound ∨
      loadPayload s.closed y.fs x.2 = .err .eof ∨
      ∃ p, (x.2.id, p) ∈ r.entries ∧ loadPayload s.closed y.fs x.2 = .ok x.2.id p := by
  obtain ⟨s, hs, _, hinv⟩ := h
  exact ⟨s, hs, hinv.lookupOK⟩

/-- **No read panics** under the replay invariant: every item of every
`read a b` and of the dump iterator is a value or an error. -/
theorem c16_read_no_panic_of_inv {y : Sys} {r : RefLog} (h : RSys y r) :
    ∃ s, y.store = some s ∧
      (∀ a b, ReadItem.panic ∉ (s.read y.fs a b).1) ∧ ReadItem.panic ∉ s.iter y.fs := by
  obtain ⟨s, hs, _, hinv⟩ := h
  exact ⟨s, hs, fun a b hm => hinv.read_fine a b _ hm, fun hm => hinv.iter_fine _ hm⟩

/-- **C16, reads, reachable states** (the histories of `c02_replay_invariant`,
which include those of `c07_inv_reachable` and allow `truncate`): no item of
`read a b` (any `a b`) or of `iter` is `ReadItem.panic`. -/
theorem c16_read_no_panic_reachable (cfg : Cfg) (steps : List Step) (r : RefLog)
    (hsteps : ∀ st ∈ steps, st.journal = true)
    (hlegal : RefLog.run {} (stepOps steps) = some r)
    (hwf : ∀ op ∈ stepOps steps, op.WF ∧ op.small)
    (halive : ((Sys.fresh cfg).run steps).worker.pc ≠ .dead) :
    ∃ s, ((Sys.fresh cfg).run steps).store = some s ∧
      (∀ a b, ReadItem.panic ∉ (s.read ((Sys.fresh cfg).run steps).fs a b).1) ∧
      ReadItem.panic ∉ s.iter ((Sys.fresh cfg).run steps).fs :=
  c16_read_no_panic_of_inv (c02_replay_invariant cfg steps r hsteps hlegal hwf halive)

/-- The histories of `c07_inv_reachable` are among them. -/
theorem c16_read_no_panic_c07 (cfg : Cfg) (steps : List Step) (r : RefLog)
    (hsteps : ∀ st ∈ steps, st.journal = true)
    (hlegal : RefLog.run {} (stepOps steps) = some r)
    (hops : ∀ op ∈ stepOps steps, op.c07)
    (halive : ((Sys.fresh cfg).run steps).worker.pc ≠ .dead) :
    ∃ s, ((Sys.fresh cfg).run steps).store = some s ∧
      (∀ a b, ReadItem.panic ∉ (s.read ((Sys.fresh cfg).run steps).fs a b).1) ∧
      ReadItem.panic ∉ s.iter ((Sys.fresh cfg).run steps).fs :=
  c16_read_no_panic_reachable cfg steps r hsteps hlegal
    (fun op hop => ⟨(hops op hop).2.1, (hops op hop).1⟩) halive

/-- **… and across clean restarts**: any number of segments ending clean, each
followed by drop + reopen with its own configuration, then a final history. -/
theorem c16_read_no_panic_cycles (cfg : Cfg) (segs : List (List Step × Cfg)) (last : List Step)
    (r : RefLog)
    (hsegs : ∀ seg ∈ segs, ∀ st ∈ seg.1, st.journal = true)
    (hlast : ∀ st ∈ last, st.journal = true)
    (hlegal : RefLog.run {} (cycleOps segs ++ stepOps last) = some r)
    (hwf : ∀ op ∈ cycleOps segs ++ stepOps last, op.WF ∧ op.small)
    (hclean : CleanCycles (Sys.fresh cfg) segs)
    (halive : (((Sys.fresh cfg).runCycles segs).run last).worker.pc ≠ .dead) :
    let y := ((Sys.fresh cfg).runCycles segs).run last
    ∃ s, y.store = some s ∧
      (∀ a b, ReadItem.panic ∉ (s.read y.fs a b).1) ∧ ReadItem.panic ∉ s.iter y.fs ∧
      ∀ x ∈ s.log,
        loadPayload s.closed y.fs x.2 = .err .notFound ∨
        loadPayload s.closed y.fs x.2 = .err .eof ∨
        ∃ p, (x.2.id, p) ∈ r.entries ∧ loadPayload s.closed y.fs x.2 = .ok x.2.id p := by
  intro y
  obtain ⟨_, _, _, _, _, hC⟩ := c02_cycles cfg segs last r hsegs hlast hlegal hwf hclean halive
  obtain ⟨s, hs, h1, h2⟩ := c16_read_no_panic_of_inv hC.1
  obtain ⟨s', hs', h3⟩ := c16_lookup_trichotomy hC.1
  rw [hs] at hs'; cases hs'
  exact ⟨s, hs, h1, h2, h3⟩

/-! ### Recovery -/

/-- **`open` after a clean drop never panics** (it returns `ok`), for every
new configuration: from the invariants alone … -/
theorem c16_open_no_panic_of_inv (y : Sys) (r : RefLog) (cfg' : Cfg) (h : CSys y r) (hc : y.Clean) :
    ({ (y.step .drop) with cfg := cfg' } : Sys).open.1 = .ok () ∧
    ∀ m, (openStore cfg' (y.step .drop).fs).1 ≠ .panic m := by
  obtain ⟨_, _, _, _, h1, _, _, _⟩ := c02_restart_step y r cfg' h hc
  refine ⟨h1, ?_⟩
  intro m hm
  have hl : (y.step .drop).locked = false := by
    obtain ⟨s, hs, _⟩ := hc
    simp [Sys.step, Sys.dropStore, hs]
  simp only [Sys.open, hl] at h1
  cases ho : openStore cfg' (y.step .drop).fs with
  | mk res x =>
    rw [ho] at hm h1
    simp only at hm
    subst hm
    simp at h1

/-- … and on reachable states: after any number of clean cycles and a final
history that ends clean, `drop` + `open cfg'` returns `ok`. -/
theorem c16_open_no_panic_clean (cfg cfg' : Cfg) (segs : List (List Step × Cfg)) (last : List Step)
    (r : RefLog)
    (hsegs : ∀ seg ∈ segs, ∀ st ∈ seg.1, st.journal = true)
    (hlast : ∀ st ∈ last, st.journal = true)
    (hlegal : RefLog.run {} (cycleOps segs ++ stepOps last) = some r)
    (hwf : ∀ op ∈ cycleOps segs ++ stepOps last, op.WF ∧ op.small)
    (hclean : CleanCycles (Sys.fresh cfg) segs)
    (halive : (((Sys.fresh cfg).runCycles segs).run last).worker.pc ≠ .dead)
    (hc : (((Sys.fresh cfg).runCycles segs).run last).Clean) :
    let y1 := (((Sys.fresh cfg).runCycles segs).run last).step .drop
    ({ y1 with cfg := cfg' } : Sys).open.1 = .ok () ∧ ∀ m, (openStore cfg' y1.fs).1 ≠ .panic m := by
  intro y1
  obtain ⟨_, _, _, _, _, hC⟩ := c02_cycles cfg segs last r hsegs hlast hlegal hwf hclean halive
  exact c16_open_no_panic_of_inv _ r cfg' hC hc

/-- The small-journal invariant after any number of clean cycles. -/
theorem cycles_smallSys (segs : List (List Step × Cfg)) : ∀ (y : Sys) (r r' : RefLog), CSys y r →
    SmallSys y →
    (∀ seg ∈ segs, ∀ st ∈ seg.1, st.journal = true) → r.run (cycleOps segs) = some r' →
    (∀ op ∈ cycleOps segs, op.WF ∧ op.small) → CleanCycles y segs →
    SmallSys (y.runCycles segs) ∧ CSys (y.runCycles segs) r' := by
  induction segs with
  | nil =>
    intro y r r' h hS _ hr _ _
    simp only [cycleOps, RefLog.run, Option.some.injEq] at hr; subst hr
    exact ⟨hS, h⟩
  | cons seg rest ih =>
    intro y r r' h hS hst hr hwf hclean
    obtain ⟨hnd, hc, hrest⟩ := hclean
    simp only [cycleOps, RefLog.run_append] at hr
    cases hr1 : r.run (stepOps seg.1) with
    | none => rw [hr1] at hr; cases hr
    | some r1 =>
      rw [hr1] at hr
      simp only [Option.bind_some] at hr
      have hwf1 : ∀ op ∈ stepOps seg.1, op.WF ∧ op.small :=
        fun op hop => hwf op (by simp only [cycleOps]; exact List.mem_append_left _ hop)
      have h1 : CSys (y.run seg.1) r1 :=
        run_CSys seg.1 y r r1 h (hst seg List.mem_cons_self) hr1 hwf1 hnd
      have hS1 : SmallSys (y.run seg.1) :=
        run_SmallSys seg.1 y r r1 h.1 hS (hst seg List.mem_cons_self) hr1 hwf1 hnd
      obtain ⟨_, _, _, _, _, _, _, _, _, _, _, _, _, _, _, h2⟩ :=
        c02_restart_step (y.run seg.1) r1 seg.2 h1 hc
      have h3 := restart_SmallSys (y.run seg.1) r1 seg.2 h1 hS1 hc
      simp only [Sys.runCycles, List.foldl_cons]
      exact ih (y.runCycle seg) r1 r' h2 h3 (fun sg hsg => hst sg (List.mem_cons_of_mem _ hsg)) hr
        (fun op hop => hwf op (by simp only [cycleOps]; exact List.mem_append_right _ hop)) hrest

/-- From the invariants: the files as they are, and the files `drop` leaves,
satisfy `FsSmall`; neither `open` panics. -/
theorem c16_open_no_panic_of_small (y : Sys) (r : RefLog) (cfg' : Cfg) (h : RSys y r)
    (hS : SmallSys y) (hset : y.worker.settle = y.worker) :
    FsSmall y.fs ∧ FsSmall (y.step .drop).fs ∧
    (∀ m, (openStore cfg' y.fs).1 ≠ .panic m) ∧
    (∀ m, ({ (y.step .drop) with cfg := cfg' } : Sys).open.1 ≠ .panic m) := by
  obtain ⟨s, hs, _, hinv⟩ := h
  have h1 : FsSmall y.fs := (hS s hs).prefixSmall.fsSmall
  have h2 : FsSmall (y.step .drop).fs :=
    (dropStore_prefixSmall y s hs hinv.j hset (hS s hs)).fsSmall
  refine ⟨h1, h2, c05_open_no_panic_partial cfg' y.fs h1, ?_⟩
  intro m hm
  exact c05_open_no_panic_partial cfg' _ h2 m (Sys.open_panic hm)

/-- **C16, recovery, reachable states.** At every point of a history of legal,
accepted, well-formed, small calls, flushes, worker steps of any outcome,
`workerIdle`, `drain` and clean restarts with a live worker — NOT only at clean
points — and for every configuration `cfg'`:
* every linked chunk file parses to small records (`FsSmall`), before and after
  `drop`;
* `open cfg'` on the files as they are does not panic;
* `drop` followed by `open cfg'` does not panic (`drop` lets the worker finish
  what is queued; the pending buffer is lost). -/
theorem c16_open_no_panic_reachable (cfg cfg' : Cfg) (segs : List (List Step × Cfg))
    (last : List Step) (r : RefLog)
    (hsegs : ∀ seg ∈ segs, ∀ st ∈ seg.1, st.journal = true)
    (hlast : ∀ st ∈ last, st.journal = true)
    (hlegal : RefLog.run {} (cycleOps segs ++ stepOps last) = some r)
    (hwf : ∀ op ∈ cycleOps segs ++ stepOps last, op.WF ∧ op.small)
    (hclean : CleanCycles (Sys.fresh cfg) segs)
    (halive : (((Sys.fresh cfg).runCycles segs).run last).worker.pc ≠ .dead) :
    let y := ((Sys.fresh cfg).runCycles segs).run last
    FsSmall y.fs ∧ FsSmall (y.step .drop).fs ∧
    (∀ m, (openStore cfg' y.fs).1 ≠ .panic m) ∧
    (∀ m, ({ (y.step .drop) with cfg := cfg' } : Sys).open.1 ≠ .panic m) := by
  intro y
  rw [RefLog.run_append] at hlegal
  cases hr1 : RefLog.run {} (cycleOps segs) with
  | none => rw [hr1] at hlegal; cases hlegal
  | some r1 =>
    rw [hr1] at hlegal
    simp only [Option.bind_some] at hlegal
    obtain ⟨hS1, hC1⟩ := cycles_smallSys segs (Sys.fresh cfg) {} r1 (fresh_CSys cfg)
      (fresh_SmallSys cfg) hsegs hr1 (fun op hop => hwf op (List.mem_append_left _ hop)) hclean
    have hwf2 : ∀ op ∈ stepOps last, op.WF ∧ op.small :=
      fun op hop => hwf op (List.mem_append_right _ hop)
    have hC : CSys y r := run_CSys last _ r1 r hC1 hlast hlegal hwf2 halive
    have hS : SmallSys y := run_SmallSys last _ r1 r hC1.1 hS1 hlast hlegal hwf2 halive
    have hset : y.Settled :=
      Sys.run_settled last _ (Sys.runCycles_settled segs _ (Sys.fresh_settled cfg))
    exact c16_open_no_panic_of_small y r cfg' hC.1 hS hset

/-- The same for a single history from a freshly opened store. -/
theorem c16_open_no_panic_history (cfg cfg' : Cfg) (steps : List Step) (r : RefLog)
    (hsteps : ∀ st ∈ steps, st.journal = true)
    (hlegal : RefLog.run {} (stepOps steps) = some r)
    (hwf : ∀ op ∈ stepOps steps, op.WF ∧ op.small)
    (halive : ((Sys.fresh cfg).run steps).worker.pc ≠ .dead) :
    let y := (Sys.fresh cfg).run steps
    (∀ m, (openStore cfg' y.fs).1 ≠ .panic m) ∧
    (∀ m, ({ (y.step .drop) with cfg := cfg' } : Sys).open.1 ≠ .panic m) := by
  intro y
  obtain ⟨_, _, h3, h4⟩ := c16_open_no_panic_reachable cfg cfg' [] steps r
    (fun seg hseg => by cases hseg) hsteps (by simpa [cycleOps] using hlegal)
    (by simpa [cycleOps] using hwf) trivial halive
  exact ⟨h3, h4⟩

/-! ### Non-vacuity -/

/- The truncate counterexample of C07 satisfies the hypotheses of
`c16_read_no_panic_reachable`; its read returns an error item (`err eof`), not a
panic — computed by the model. -/
set_option maxRecDepth 100000 in
example :
    (∀ st ∈ c07Counter, st.journal = true) ∧
    (RefLog.run {} (stepOps c07Counter)).isSome = true ∧
    ((Sys.fresh c07Cfg).run c07Counter).worker.pc ≠ .dead ∧
    ∃ s, ((Sys.fresh c07Cfg).run c07Counter).store = some s ∧
      (s.read ((Sys.fresh c07Cfg).run c07Counter).fs 0 10).1 =
        [ReadItem.ok ⟨1, 0⟩ [1], ReadItem.err .eof] := by
  refine ⟨by decide, by decide, by decide, _, rfl, by decide⟩

example : ∀ op ∈ stepOps c07Counter, op.WF ∧ op.small := by
  intro op hop
  simp only [c07Counter, stepOps, List.mem_cons, List.not_mem_nil, or_false] at hop
  rcases hop with h | h | h <;> subst h <;>
    simp [Op.small, Op.WF, smallId, LogId.WF, bytesWF, U64, U32]

/-- A history that is NOT clean at its end — the worker is in the middle of a
batch after a short write, two purged chunks are still scheduled for removal —
satisfies the hypotheses of `c16_open_no_panic_history`. -/
def c16DropExample : List Step :=
  [ .call (.append [(⟨1, 0⟩, [1]), (⟨1, 1⟩, [2]), (⟨1, 2⟩, [3])]), .flush none, .worker .ok,
    .worker (.short 3), .call (.purge ⟨1, 1⟩), .call (.saveVote ⟨1, 1⟩) ]

example :
    (∀ st ∈ c16DropExample, st.journal = true) ∧
    (RefLog.run {} (stepOps c16DropExample)).isSome = true ∧
    ((Sys.fresh c07Cfg).run c16DropExample).worker.pc ≠ .dead ∧
    ((Sys.fresh c07Cfg).run c16DropExample).worker.quiet = false ∧
    ((Sys.fresh c07Cfg).run c16DropExample).store.map (·.removed) = some [0, 51] := by
  refine ⟨by decide, by decide, by decide, by decide, by decide⟩

example : ∀ op ∈ stepOps c16DropExample, op.WF ∧ op.small := by
  intro op hop
  simp only [c16DropExample, stepOps, List.mem_cons, List.not_mem_nil, or_false] at hop
  rcases hop with h | h | h <;> subst h <;>
    simp [Op.small, Op.WF, smallId, LogId.WF, bytesWF, U64, U32]

end RaftLog
