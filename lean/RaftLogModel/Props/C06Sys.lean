/-
C06 at system level — a rejected write leaves no trace in the WHOLE system
(file system, lock, store, worker, configuration), emits no event, and is
invisible to every continuation, including flush + drop + reopen.

* A1 `c06_sys_rejected_is_identity`: store-level rejection (what Props/C06.lean
  proves for every validation error of a single-record op) ⇒ `y.call op =
  (.err k, y, [])`. The only hypothesis besides the rejection is that the
  worker is settled (`y.worker.settle = y.worker`: a worker blocked in `recv`
  has an empty queue), which holds in EVERY state reachable from `Sys.fresh` by
  ANY steps (`c06_reachable_settled`; `settle` is idempotent:
  `c06_settle_idempotent`).
* A2 `c06_rejected_invisible_forever`: for any continuation `more` (any steps:
  `.drop`, `.openWith cfg'`, …) the run after the rejected call is the run
  without it. `c06_sys_batch_rejected_prefix`: a batch `append` whose first
  rejected entry comes after the accepted prefix `pre` leaves the system (and
  the emitted events) exactly as `append pre` does.
* A3 `c06_sys_same_verdict*`: the reference log's verdict is the implementation
  model's verdict. For every system whose store is related to the reference log
  `r` by the cache-free refinement `Abs` (this includes `Refines`/`SysRef` of C01
  and `RSys`/`CSys` of C02), a single-record op (`saveVote`, `commit`,
  `truncate`, single-entry `append`) that `r` rejects with kind `k` returns
  `.err k` and is the identity on the system; `purge` and `saveUserData` are
  never rejected by the reference log (`c06_never_rejected`). Reachability
  forms: histories with clean restarts (C02 cycles) and C01 histories.

Helpers: Proofs/RejectSys.lean.
-/
import RaftLogModel.Proofs.RejectSys
import RaftLogModel.Props.C02
import RaftLogModel.Props.C06
namespace RaftLog

/-! ### A1 -/

/-- `settle` is idempotent. -/
theorem c06_settle_idempotent (w : Worker) : w.settle.settle = w.settle := w.settle_idem

/-- Every step keeps the worker settled … -/
theorem c06_step_settled (y : Sys) (st : Step) (h : y.worker.settle = y.worker) :
    (y.step st).worker.settle = (y.step st).worker :=
  y.step_settled st h

/-- … so every state reachable from a freshly opened store by ANY steps (calls
accepted or rejected, worker steps with any outcome, drops, reopens with any
configuration, failed opens) is settled. -/
theorem c06_reachable_settled (cfg : Cfg) (steps : List Step) :
    ((Sys.fresh cfg).run steps).worker.settle = ((Sys.fresh cfg).run steps).worker :=
  Sys.reachable_settled cfg steps

/-- **A1.** A call the store rejects is the identity on the whole system and
emits no event. -/
theorem c06_sys_rejected_is_identity (y : Sys) (s : Store) (op : Op) (k : ErrKind)
    (hs : y.store = some s) (hset : y.worker.settle = y.worker)
    (h : s.call y.fs.has op = (.err k, s, [])) :
    y.call op = (.err k, y, []) :=
  y.call_rejected_eq s op k hs hset h

/-- A1 with the hypothesis of Props/C06.lean: a single-record op (anything but
a batch `append`) that returns a validation error (`k ≠ exists`). -/
theorem c06_sys_rejected_single (y : Sys) (s s' : Store) (op : Op) (k : ErrKind) (effs : List Eff)
    (hs : y.store = some s) (hset : y.worker.settle = y.worker) (hop : ∀ es, op ≠ .append es)
    (h : s.call y.fs.has op = (.err k, s', effs)) (hk : k ≠ .exists) :
    y.call op = (.err k, y, []) := by
  obtain ⟨h1, h2⟩ := c06_rejected_call_noop s y.fs.has op k s' effs hop h hk
  rw [h1, h2] at h
  exact y.call_rejected_eq s op k hs hset h

/-- A1 on every reachable state (any history whatsoever). -/
theorem c06_sys_rejected_is_identity_reachable (cfg : Cfg) (steps : List Step) (s : Store) (op : Op)
    (k : ErrKind) (hs : ((Sys.fresh cfg).run steps).store = some s)
    (h : s.call ((Sys.fresh cfg).run steps).fs.has op = (.err k, s, [])) :
    ((Sys.fresh cfg).run steps).call op = (.err k, (Sys.fresh cfg).run steps, []) :=
  c06_sys_rejected_is_identity _ s op k hs (c06_reachable_settled cfg steps) h

/-! ### A2 -/

/-- **A2.** A rejected call is invisible forever: whatever happens next — any
steps, including flush, drop and reopen with another configuration — the
system evolves exactly as if the call had never been made. -/
theorem c06_rejected_invisible_forever (y : Sys) (s : Store) (op : Op) (k : ErrKind)
    (hs : y.store = some s) (hset : y.worker.settle = y.worker)
    (h : s.call y.fs.has op = (.err k, s, [])) (more : List Step) :
    (y.step (.call op)).run more = y.run more := by
  have : y.step (.call op) = y := by
    show (y.call op).2.1 = y
    rw [c06_sys_rejected_is_identity y s op k hs hset h]
  rw [this]

/-- … also in the middle of a history: `pre ++ [call op] ++ more` and
`pre ++ more` end in the same system. -/
theorem c06_rejected_invisible_in_history (cfg : Cfg) (pre more : List Step) (s : Store) (op : Op)
    (k : ErrKind) (hs : ((Sys.fresh cfg).run pre).store = some s)
    (h : s.call ((Sys.fresh cfg).run pre).fs.has op = (.err k, s, [])) :
    (Sys.fresh cfg).run (pre ++ .call op :: more) = (Sys.fresh cfg).run (pre ++ more) := by
  simp only [Sys.run, List.foldl_append, List.foldl_cons]
  exact c06_rejected_invisible_forever _ s op k hs (c06_reachable_settled cfg pre) h more

/-- **A2, batches.** `pre` is accepted by the store (reaching `s'`), the next
entry `(id, p)` is rejected by `s'`. Then the batch `pre ++ (id, p) :: rest`
leaves the system, and emits the events, exactly as the batch `pre` does; the
entries after the rejected one are never looked at. The result is the
validation error (or `sendFailed` if the worker is gone, as for `pre`); D12: if
the rejected entry's index is u64::MAX the call refuses it before validation
and the error kind is `InvalidInput` instead. -/
theorem c06_sys_batch_rejected_prefix (y : Sys) (s s' : Store) (pre rest : List (LogId × Bytes))
    (id : LogId) (p : Bytes) (seg' : Seg) (effs' : List Eff) (k : ErrKind)
    (hs : y.store = some s)
    (h : s.call y.fs.has (.append pre) = (.ok seg', s', effs'))
    (hk : s'.st.apply (.append id p) = .err k) :
    (y.call (.append (pre ++ (id, p) :: rest))).2 = (y.call (.append pre)).2 ∧
    y.step (.call (.append (pre ++ (id, p) :: rest))) = y.step (.call (.append pre)) ∧
    (∀ more, (y.step (.call (.append (pre ++ (id, p) :: rest)))).run more =
      (y.step (.call (.append pre))).run more) ∧
    (y.worker.pc ≠ .dead → (y.call (.append (pre ++ (id, p) :: rest))).1 =
      .err (if id.index + 1 = U64 then .invalidInput else k)) := by
  obtain ⟨h1, h2⟩ := y.call_append_rejected_after s s' pre rest id p seg' effs' k hs h hk
  have h3 : y.step (.call (.append (pre ++ (id, p) :: rest))) = y.step (.call (.append pre)) :=
    congrArg Prod.fst h1
  refine ⟨h1, h3, fun more => by rw [h3], ?_⟩
  intro hd
  rw [h2, (applyEffs_live effs' y.fs y.worker [] hd).1]
  rfl

/-! ### A3: the reference log's verdict is the model's verdict -/

/-- Store level, cache-free refinement `Abs`: same verdict, same error kind,
store unchanged, nothing emitted. -/
theorem c06_same_verdict (s : Store) (r : RefLog) (h : Abs s r) (fsHas : Nat → Bool) (op : Op)
    (hop : op.single) (hsm : op.small) (k : ErrKind) (hr : r.call op = .error k) :
    s.call fsHas op = (.err k, s, []) :=
  h.rejects fsHas op hop hsm k hr

/-- D12: without `small` (an `append` whose id has index u64::MAX) the store
still rejects what the reference log rejects, unchanged and without effects;
the error kind is the reference log's whenever the op is small, otherwise it
may be `InvalidInput`. -/
theorem c06_same_verdict_any (s : Store) (r : RefLog) (h : Abs s r) (fsHas : Nat → Bool) (op : Op)
    (hop : op.single) (k : ErrKind) (hr : r.call op = .error k) :
    ∃ k', s.call fsHas op = (.err k', s, []) ∧ (op.small → k' = k) :=
  h.rejects_any_D12 fsHas op hop k hr

/-- `purge` and `saveUserData` are never rejected by the reference log. -/
theorem c06_never_rejected (r : RefLog) :
    (∀ id, ∃ r', r.call (.purge id) = .ok r') ∧ (∀ d, ∃ r', r.call (.saveUserData d) = .ok r') :=
  ⟨fun id => r.never_rejects _ (Or.inl ⟨id, rfl⟩), fun d => r.never_rejects _ (Or.inr ⟨d, rfl⟩)⟩

/-- **A3**, any settled system whose store is `Abs`-related to `r`. -/
theorem c06_sys_same_verdict (y : Sys) (s : Store) (r : RefLog) (hs : y.store = some s)
    (h : Abs s r) (hset : y.worker.settle = y.worker) (op : Op) (hop : op.single) (hsm : op.small)
    (k : ErrKind) (hr : r.call op = .error k) :
    y.call op = (.err k, y, []) ∧ ∀ more, (y.step (.call op)).run more = y.run more :=
  ⟨c06_sys_rejected_is_identity y s op k hs hset (h.rejects y.fs.has op hop hsm k hr),
   c06_rejected_invisible_forever y s op k hs hset (h.rejects y.fs.has op hop hsm k hr)⟩

/-- D12: the same without `small`: the call is rejected with SOME error kind
(the reference log's if the op is small), the whole system is unchanged, no
event is emitted and every continuation is unaffected. -/
theorem c06_sys_same_verdict_any (y : Sys) (s : Store) (r : RefLog) (hs : y.store = some s)
    (h : Abs s r) (hset : y.worker.settle = y.worker) (op : Op) (hop : op.single)
    (k : ErrKind) (hr : r.call op = .error k) :
    ∃ k', y.call op = (.err k', y, []) ∧ (op.small → k' = k) ∧
      ∀ more, (y.step (.call op)).run more = y.run more := by
  obtain ⟨k', h1, h2⟩ := h.rejects_any_D12 y.fs.has op hop k hr
  exact ⟨k', c06_sys_rejected_is_identity y s op k' hs hset h1, h2,
    c06_rejected_invisible_forever y s op k' hs hset h1⟩

/-- A3 from the C02 invariant (`CSys`). -/
theorem c06_sys_same_verdict_csys (y : Sys) (r : RefLog) (h : CSys y r)
    (hset : y.worker.settle = y.worker) (op : Op) (hop : op.single) (hsm : op.small) (k : ErrKind)
    (hr : r.call op = .error k) :
    y.call op = (.err k, y, []) ∧ ∀ more, (y.step (.call op)).run more = y.run more := by
  obtain ⟨s, hs, _, hinv⟩ := h.1
  exact c06_sys_same_verdict y s r hs hinv.abs hset op hop hsm k hr

/-- A3 from the C01 invariant (`SysRef`). -/
theorem c06_sys_same_verdict_sysRef (y : Sys) (r : RefLog) (n b : Nat) (h : SysRef y r n b)
    (hset : y.worker.settle = y.worker) (op : Op) (hop : op.single) (hsm : op.small) (k : ErrKind)
    (hr : r.call op = .error k) :
    y.call op = (.err k, y, []) ∧ ∀ more, (y.step (.call op)).run more = y.run more := by
  obtain ⟨s, hs, href, _⟩ := h
  exact c06_sys_same_verdict y s r hs href.abs hset op hop hsm k hr

theorem Sys.runCycles_settled (segs : List (List Step × Cfg)) : ∀ (y : Sys), y.Settled →
    (y.runCycles segs).Settled := by
  induction segs with
  | nil => intro y h; exact h
  | cons seg rest ih =>
    intro y h
    simp only [Sys.runCycles, List.foldl_cons]
    exact ih _ (Sys.step_settled _ _ (Sys.step_settled _ _ (Sys.run_settled _ _ h)))

/-- **A3 on reachable states.** Any number of segments of legal, accepted,
well-formed, small calls (`truncate` included), flushes, worker steps,
`workerIdle`, `drain`, each ending clean and followed by drop + reopen with its
own configuration, then a final such history with the worker alive: if the
reference log `r` reached by the calls rejects a single-record op with kind
`k`, the call returns `.err k`, the whole system is unchanged, no event is
emitted, and every continuation is unaffected. -/
theorem c06_sys_same_verdict_reachable (cfg : Cfg) (segs : List (List Step × Cfg))
    (last : List Step) (r : RefLog)
    (hsegs : ∀ seg ∈ segs, ∀ st ∈ seg.1, st.journal = true)
    (hlast : ∀ st ∈ last, st.journal = true)
    (hlegal : RefLog.run {} (cycleOps segs ++ stepOps last) = some r)
    (hwf : ∀ op ∈ cycleOps segs ++ stepOps last, op.WF ∧ op.small)
    (hclean : CleanCycles (Sys.fresh cfg) segs)
    (halive : (((Sys.fresh cfg).runCycles segs).run last).worker.pc ≠ .dead)
    (op : Op) (hop : op.single) (hsm : op.small) (k : ErrKind) (hr : r.call op = .error k) :
    let y := ((Sys.fresh cfg).runCycles segs).run last
    y.call op = (.err k, y, []) ∧ ∀ more, (y.step (.call op)).run more = y.run more := by
  intro y
  obtain ⟨_, _, _, _, _, hC⟩ := c02_cycles cfg segs last r hsegs hlast hlegal hwf hclean halive
  have hset : y.Settled :=
    Sys.run_settled last _ (Sys.runCycles_settled segs _ (Sys.fresh_settled cfg))
  exact c06_sys_same_verdict_csys y r hC hset op hop hsm k hr

/-- A3 on the histories of C01 (calls, flushes, worker steps of any outcome —
the worker may die — within the cache budget). -/
theorem c06_sys_same_verdict_c01 (cfg : Cfg) (steps : List Step) (r : RefLog)
    (h0 : SysRef (Sys.fresh cfg) {} (opsCount (stepOps steps)) (opsBytes (stepOps steps)))
    (hsteps : ∀ st ∈ steps, st.c01 = true) (hlegal : RefLog.run {} (stepOps steps) = some r)
    (hsmall : ∀ op ∈ stepOps steps, op.small)
    (op : Op) (hop : op.single) (hsm : op.small) (k : ErrKind) (hr : r.call op = .error k) :
    let y := (Sys.fresh cfg).run steps
    y.call op = (.err k, y, []) ∧ ∀ more, (y.step (.call op)).run more = y.run more := by
  intro y
  obtain ⟨href, _⟩ := run_sysRef steps _ {} r h0 hsteps hlegal hsmall
  exact c06_sys_same_verdict_sysRef y r 0 0 href (c06_reachable_settled cfg steps) op hop hsm k hr

/-- **A3, batches.** From the C02 invariant: the reference log accepts the
entries `pre` (a legal, well-formed, small batch, reaching `r1`) and rejects the
next entry `(id, p)` with kind `k`. Then the call with the whole batch returns
`.err k` (D12: `.err invalidInput` if that entry's index is u64::MAX) and leaves the system — and every continuation — exactly as the call
with `pre` alone does. -/
theorem c06_sys_batch_same_verdict (y : Sys) (r r1 : RefLog) (h : CSys y r)
    (pre rest : List (LogId × Bytes)) (id : LogId) (p : Bytes) (k : ErrKind)
    (hl : r.legal (.append pre) = true) (hc : r.call (.append pre) = .ok r1)
    (hsm : (Op.append pre).small) (hwf : (Op.append pre).WF)
    (hr : r1.append1 id p = .error k) :
    (y.call (.append (pre ++ (id, p) :: rest))).1 =
      .err (if id.index + 1 = U64 then .invalidInput else k) ∧
    (y.call (.append (pre ++ (id, p) :: rest))).2 = (y.call (.append pre)).2 ∧
    ∀ more, (y.step (.call (.append (pre ++ (id, p) :: rest)))).run more =
      (y.step (.call (.append pre))).run more := by
  obtain ⟨h1, seg, hok⟩ := h.1.call hl hc hsm hwf
  obtain ⟨s, hs, hd, _⟩ := h.1
  obtain ⟨e1, e2⟩ := Sys.call_eq y (.append pre) s hs hd
  obtain ⟨s1, hs1, _, hinv1⟩ := h1
  rw [e1] at hs1
  simp only [Option.some.injEq] at hs1
  rw [e2] at hok
  have hcall : s.call y.fs.has (.append pre) =
      (.ok seg, (s.call y.fs.has (.append pre)).2.1, (s.call y.fs.has (.append pre)).2.2) := by
    rw [← hok]
  have hk : (s.call y.fs.has (.append pre)).2.1.st.apply (.append id p) = .err k := by
    rw [hs1]; exact hinv1.abs.rejects_append1 y.fs.has id p k hr
  obtain ⟨g1, _, g3, g4⟩ := c06_sys_batch_rejected_prefix y s _ pre rest id p seg _ k hs hcall hk
  exact ⟨g4 hd, g1, g3⟩

/-! ### Non-vacuity -/

/-- A concrete reachable system state and a vote the store rejects: the
hypotheses of `c06_sys_rejected_is_identity_reachable` hold. -/
example : ∃ s, ((Sys.fresh {}).run [.call (.saveVote ⟨3, 1⟩), .flush none]).store = some s ∧
    s.call ((Sys.fresh {}).run [.call (.saveVote ⟨3, 1⟩), .flush none]).fs.has (.saveVote ⟨2, 9⟩)
      = (.err .voteReversal, s, []) :=
  ⟨_, rfl, by decide⟩

/-- … and the reference log rejects it too (hypothesis of `c06_sys_same_verdict`). -/
example : ∃ r, RefLog.run {} [.saveVote ⟨3, 1⟩] = some r ∧
    r.call (.saveVote ⟨2, 9⟩) = .error .voteReversal := ⟨_, rfl, rfl⟩

/-- A batch whose second entry is rejected (non-consecutive index): the
hypotheses of `c06_sys_batch_rejected_prefix` hold with `pre` of length 1. -/
example : ∃ s seg s' effs, (Sys.fresh {}).store = some s ∧
    s.call (Sys.fresh {}).fs.has (.append [(⟨1, 0⟩, [1])]) = (.ok seg, s', effs) ∧
    s'.st.apply (.append ⟨1, 5⟩ [2]) = .err .nonConsecutive :=
  ⟨_, _, _, _, rfl, rfl, by decide⟩

end RaftLog
