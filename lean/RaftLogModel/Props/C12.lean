/-
C12 — Record codec round-trips and decoding is total.

Only property statements and their (short) proofs from `Proofs/Codec.lean`.
-/
import RaftLogModel.Proofs.Codec
namespace RaftLog

/-- Encoding any record the Rust types can hold and decoding the bytes (with
anything after them) gives back the record and leaves exactly what followed:
the decoder consumes exactly `|encRecord r|` bytes and never looks past them. -/
theorem c12_roundtrip (r : Record) (rest : Bytes) (h : r.WF) :
    decRecord (encRecord r ++ rest) = .ok r rest :=
  record_rt r rest h

/-- The decoder consumed exactly the encoder's byte count. -/
theorem c12_consumed (r : Record) (rest : Bytes) (h : r.WF) :
    ∃ rest', decRecord (encRecord r ++ rest) = .ok r rest' ∧
      rest'.length + (encRecord r).length = (encRecord r ++ rest).length := by
  refine ⟨rest, record_rt r rest h, ?_⟩
  simp; omega

/-- Decoding arbitrary bytes is total (`decRecord` is a total function into
`ok | eof | invalid`; no panic branch exists) and whenever it yields a record
the input is that record's encoding followed by the unread rest, so
re-encoding gives the consumed bytes back and nothing past the record is read. -/
theorem c12_canonical (bs : Bytes) (r : Record) (rest : Bytes)
    (h : decRecord bs = .ok r rest) : bs = encRecord r ++ rest ∧ r.WF :=
  record_canon h

/-- Every strict prefix of an encoding is reported as `UnexpectedEof`. -/
theorem c12_prefix_eof (r : Record) (bs t : Bytes) (h : r.WF) (ht : t ≠ [])
    (e : bs ++ t = encRecord r) : decRecord bs = .eof :=
  record_pfx r bs t h ht e

/-- The three outcomes are exhaustive: a decode is a record, an `eof`, or an
`invalid` — there is no fourth (panicking) outcome in the model; the harness
checks the implementation under `catch_unwind` against this trichotomy. -/
theorem c12_total (bs : Bytes) :
    (∃ r rest, decRecord bs = .ok r rest) ∨ decRecord bs = .eof ∨ decRecord bs = .invalid := by
  cases h : decRecord bs with
  | ok r rest => exact Or.inl ⟨r, rest, rfl⟩
  | eof => exact Or.inr (Or.inl rfl)
  | invalid => exact Or.inr (Or.inr rfl)

/-- Non-vacuity: a concrete well-formed record of each interesting shape. -/
example : (Record.append ⟨3, 7⟩ [1, 2, 3]).WF := by
  simp [Record.WF, LogId.WF, bytesWF, U64, U32]
example : (Record.state ⟨some ⟨1, 2⟩, none, some ⟨2, 3⟩, none, some [9]⟩).WF := by
  simp [Record.WF, RState.WF, optWF, LogId.WF, bytesWF, U64, U32]

end RaftLog
