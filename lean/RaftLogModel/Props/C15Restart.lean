/-
C15 across restarts — payload-cache accounting stays exact through drop +
reopen.

`c15_accounting_exact` (Props/C15.lean) covers histories without `.drop` /
`.openWith`. Here: the store produced by `open` on the files of a clean
reachable state satisfies the same invariant (`size = Σ resident payload sizes`,
keys strictly increasing, none above `last`) — for ANY cache limits of the new
configuration, i.e. also when entries are evicted while the journal is
replayed. Reason (Proofs/ReplayCacheInv.lean, on top of the replay development
of C02): every `Append` record that `RState.append` accepts during replay has
an id above `last`, hence above every resident key; every `State` record other
than the very first one keeps `last` (the head snapshot of a chunk is the state
reached by replaying the previous chunks: `RepC`/`RunG`); the very first record
is replayed into an empty cache.

* `c15_after_restart`: one restart after a history (hypotheses of
  `c02_clean_restart`).
* `c15_accounting_exact_with_restarts`: any number of segments, each a history
  of legal, accepted, well-formed, small calls, flushes, worker steps,
  `workerIdle`, `drain` that ends clean and is followed by drop + reopen with
  its own configuration; then a final history of ARBITRARY live steps (calls
  accepted or rejected with any arguments, worker steps of any outcome — the
  worker may die). The final store satisfies the invariant.
* `c15_accounting_exact_every_point`: the same at every point inside a segment
  (after the cycles before it and any prefix of its steps), so every store
  that occurs in such a run satisfies the invariant (between `drop` and `open`
  there is no store).
-/
import RaftLogModel.Proofs.ReplayCacheInv
import RaftLogModel.Props.C02
import RaftLogModel.Props.C15
namespace RaftLog

theorem Step.live_of_journal {st : Step} (h : st.journal = true) : st.live = true := by
  cases st <;> first | rfl | cases h

/-- One clean drop + reopen, from the invariants. -/
theorem c15_restart_step (y : Sys) (r : RefLog) (cfg' : Cfg) (h : CSys y r) (hc : y.Clean) :
    SysCacheInv ((y.step .drop).step (.openWith cfg')) :=
  fun s' hs' => restart_cacheInv y r cfg' h hc s' hs'

/-- **One restart after a history** (the hypotheses of `c02_clean_restart`):
the reopened store's cache accounting is exact, whatever `cfg'`. -/
theorem c15_after_restart (cfg cfg' : Cfg) (steps : List Step) (r : RefLog) (s : Store)
    (hsteps : ∀ st ∈ steps, st.journal = true)
    (hlegal : RefLog.run {} (stepOps steps) = some r)
    (hwf : ∀ op ∈ stepOps steps, op.WF ∧ op.small)
    (halive : ((Sys.fresh cfg).run steps).worker.pc ≠ .dead)
    (hs : ((Sys.fresh cfg).run steps).store = some s)
    (hq : ((Sys.fresh cfg).run steps).worker.quiet = true)
    (hp : s.pending = []) (hrem : s.removed = [])
    (hpost : ((Sys.fresh cfg).run steps).worker.postponed = []) :
    ∃ s', ((((Sys.fresh cfg).run steps).step .drop).step (.openWith cfg')).store = some s' ∧
      s'.cache.size = sumLen s'.cache.items ∧ Sorted s'.cache.items ∧
      KeysLe s'.cache.items s'.st.last := by
  have hC : CSys ((Sys.fresh cfg).run steps) r :=
    run_CSys steps _ {} r (fresh_CSys cfg) hsteps hlegal hwf halive
  have hc : ((Sys.fresh cfg).run steps).Clean := ⟨s, hs, hq, hp, hrem, hpost⟩
  obtain ⟨_, s', _, hs', _⟩ := c02_restart_step _ r cfg' hC hc
  have := c15_restart_step _ r cfg' hC hc s' hs'
  exact ⟨s', hs', this.ok.size_eq, this.ok.sorted, this.le_last⟩

/-- The invariants after any number of clean cycles. -/
theorem cycles_cacheInv (segs : List (List Step × Cfg)) : ∀ (y : Sys) (r r' : RefLog), CSys y r →
    SysCacheInv y →
    (∀ seg ∈ segs, ∀ st ∈ seg.1, st.journal = true) → r.run (cycleOps segs) = some r' →
    (∀ op ∈ cycleOps segs, op.WF ∧ op.small) → CleanCycles y segs →
    SysCacheInv (y.runCycles segs) ∧ CSys (y.runCycles segs) r' := by
  induction segs with
  | nil =>
    intro y r r' h hci _ hr _ _
    simp only [cycleOps, RefLog.run, Option.some.injEq] at hr; subst hr
    exact ⟨hci, h⟩
  | cons seg rest ih =>
    intro y r r' h hci hst hr hwf hclean
    obtain ⟨hnd, hc, hrest⟩ := hclean
    simp only [cycleOps, RefLog.run_append] at hr
    cases hr1 : r.run (stepOps seg.1) with
    | none => rw [hr1] at hr; cases hr
    | some r1 =>
      rw [hr1] at hr
      simp only [Option.bind_some] at hr
      have h1 : CSys (y.run seg.1) r1 :=
        run_CSys seg.1 y r r1 h (hst seg List.mem_cons_self) hr1
          (fun op hop => hwf op (by simp only [cycleOps]; exact List.mem_append_left _ hop)) hnd
      obtain ⟨_, _, _, _, _, _, _, _, _, _, _, _, _, _, _, h2⟩ :=
        c02_restart_step (y.run seg.1) r1 seg.2 h1 hc
      have h3 := c15_restart_step (y.run seg.1) r1 seg.2 h1 hc
      simp only [Sys.runCycles, List.foldl_cons]
      exact ih (y.runCycle seg) r1 r' h2 h3 (fun sg hsg => hst sg (List.mem_cons_of_mem _ hsg)) hr
        (fun op hop => hwf op (by simp only [cycleOps]; exact List.mem_append_right _ hop)) hrest

/-- **C15 with restarts.** For every configuration, every list of clean
cycles (each with its own new configuration — any chunk limits, any cache
limits) and every final history `last` of live steps of ANY kind: the final
store's byte counter is the sum of the resident payload sizes, the resident
keys are strictly increasing and none lies above `last`. -/
theorem c15_accounting_exact_with_restarts (cfg : Cfg) (segs : List (List Step × Cfg))
    (last : List Step) (r : RefLog)
    (hsegs : ∀ seg ∈ segs, ∀ st ∈ seg.1, st.journal = true)
    (hlegal : RefLog.run {} (cycleOps segs) = some r)
    (hwf : ∀ op ∈ cycleOps segs, op.WF ∧ op.small)
    (hclean : CleanCycles (Sys.fresh cfg) segs)
    (hlast : ∀ st ∈ last, st.live = true)
    (s : Store) (hs : (((Sys.fresh cfg).runCycles segs).run last).store = some s) :
    s.cache.size = sumLen s.cache.items ∧ Sorted s.cache.items ∧ KeysLe s.cache.items s.st.last := by
  obtain ⟨h1, _⟩ := cycles_cacheInv segs (Sys.fresh cfg) {} r (fresh_CSys cfg) (fresh_cacheInv cfg)
    hsegs hlegal hwf hclean
  have := run_cacheInv _ last hlast h1 s hs
  exact ⟨this.ok.size_eq, this.ok.sorted, this.le_last⟩

theorem cycleOps_append (a b : List (List Step × Cfg)) : cycleOps (a ++ b) = cycleOps a ++ cycleOps b := by
  induction a with
  | nil => rfl
  | cons seg rest ih => simp only [List.cons_append, cycleOps, ih, List.append_assoc]

theorem CleanCycles.prefix {a b : List (List Step × Cfg)} : ∀ {y : Sys}, CleanCycles y (a ++ b) →
    CleanCycles y a := by
  induction a with
  | nil => intro y _; trivial
  | cons seg rest ih =>
    intro y h
    obtain ⟨h1, h2, h3⟩ := h
    exact ⟨h1, h2, ih h3⟩

theorem RefLog.run_prefix_some {r r' : RefLog} {a b : List Op} (h : r.run (a ++ b) = some r') :
    ∃ r1, r.run a = some r1 := by
  rw [RefLog.run_append] at h
  cases hr : r.run a with
  | none => rw [hr] at h; cases h
  | some r1 => exact ⟨r1, rfl⟩

/-- **Every point of a run with clean restarts.** `done` are the completed
cycles, `pre` any prefix of the steps of the next segment (the whole run —
`done ++ (pre ++ post, c) :: rest` — is made of legal, accepted, well-formed,
small calls, flushes, worker steps, `workerIdle`, `drain`, with clean
restarts): the store at that point satisfies the invariant. -/
theorem c15_accounting_exact_every_point (cfg : Cfg) (done rest : List (List Step × Cfg))
    (pre post : List Step) (c : Cfg) (r : RefLog)
    (hsegs : ∀ seg ∈ done ++ (pre ++ post, c) :: rest, ∀ st ∈ seg.1, st.journal = true)
    (hlegal : RefLog.run {} (cycleOps (done ++ (pre ++ post, c) :: rest)) = some r)
    (hwf : ∀ op ∈ cycleOps (done ++ (pre ++ post, c) :: rest), op.WF ∧ op.small)
    (hclean : CleanCycles (Sys.fresh cfg) (done ++ (pre ++ post, c) :: rest))
    (s : Store) (hs : (((Sys.fresh cfg).runCycles done).run pre).store = some s) :
    s.cache.size = sumLen s.cache.items ∧ Sorted s.cache.items ∧ KeysLe s.cache.items s.st.last := by
  rw [cycleOps_append] at hlegal hwf
  obtain ⟨r1, hr1⟩ := RefLog.run_prefix_some hlegal
  refine c15_accounting_exact_with_restarts cfg done pre r1
    (fun seg hseg => hsegs seg (List.mem_append_left _ hseg)) hr1
    (fun op hop => hwf op (List.mem_append_left _ hop)) hclean.prefix ?_ s hs
  intro st hst
  apply Step.live_of_journal
  exact hsegs (pre ++ post, c) (List.mem_append_right _ List.mem_cons_self) st
    (List.mem_append_left _ hst)

/-! ### Non-vacuity -/

/-- The two clean cycles of Props/C02.lean satisfy the hypotheses (steps of the
kinds covered, ops legal, well-formed and small, every segment ends clean) … -/
example :
    let segs : List (List Step × Cfg) :=
      [(c02Example, { maxRecords := 3, cacheItems := 1 }),
       ([.call (.append [(⟨2, 3⟩, [7])]), .flush none, .workerIdle], { maxRecords := 2 })]
    (∀ seg ∈ segs, ∀ st ∈ seg.1, st.journal = true) ∧
    (RefLog.run {} (cycleOps segs)).isSome = true ∧
    CleanCycles (Sys.fresh { maxRecords := 2 }) segs := by
  refine ⟨by decide, by decide, ?_⟩
  refine ⟨by decide +kernel, Sys.clean_of_cleanB (by decide +kernel), by decide +kernel,
    Sys.clean_of_cleanB (by decide +kernel), trivial⟩

/-- … and the cache of the store reopened with room for ONE entry is not
empty: the older live entry was evicted during replay, the accounting is
exact (computed by the model). -/
example :
    ((((Sys.fresh { maxRecords := 2 }).run c02Example).step .drop).step
        (.openWith { maxRecords := 3, cacheItems := 1 })).store.map
      (fun s => (s.cache.items, s.cache.size, s.log.length)) = some ([(⟨2, 2⟩, [9])], 1, 2) := by
  decide +kernel

end RaftLog
