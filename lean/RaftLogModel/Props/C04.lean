/-
C04 — Flush acknowledgement soundness.

A positive acknowledgement (`Ev.cb i true`) is emitted only by the successful
`fdatasync` of the newest (and by then only) file of the worker's list; at that
moment every file the worker tracked is fully synced and the only files with
bytes not known durable are those announced by `appendFile` requests queued
behind the acknowledged flush. A failed sync acknowledges the whole batch
negatively, sets `lastSyncFailed` and keeps the failed file in the list.
Acknowledgements come out in request order, each at most once; without faults
each exactly once.

Quantification: every worker context `c` with `c.w.WF` (structural invariant of
`step`, `applyEffs`, `settle`), every outcome (`ok`, `eio`, `short k`).
Definitions (`pendingAppends`, `Covered`, `cbQueue`, `Worker.WF`, `stepCbs`,
`cbsOf`, ...) are in `Proofs/WorkerBlocks.lean`.
-/
import RaftLogModel.Proofs.WorkerSys
namespace RaftLog

/-! ### Invariants: `Worker.WF` and `Covered` -/

/-- `Worker.WF` is preserved by every worker step and by the caller side. -/
theorem c04_wf_invariant :
    (∀ (c : WCtx) (out : Outcome), c.w.WF → (c.step out).w.WF) ∧
    (∀ effs fs (w : Worker) evs, w.WF → (applyEffs effs fs w evs).2.2.1.WF) ∧
    (∀ w : Worker, w.WF → w.settle.WF) :=
  ⟨WCtx.step_wf, applyEffs_wf, fun _ h => h.settle⟩

/-- While a store is open its worker is well-formed, after every history from a
store opened on an empty directory. -/
theorem c04_wf_reachable (cfg : Cfg) (steps : List Step)
    (hs : ((Sys.fresh cfg).run steps).store ≠ none) : ((Sys.fresh cfg).run steps).worker.WF :=
  ((SysWF.fresh cfg).run steps hs).1

/-- (a) Worker side: `Covered` is preserved by every step, whatever the outcome,
unless the step kills the worker (`c.dies out`: `eio` on `write` or `unlink`). -/
theorem c04_covered_step (c : WCtx) (out : Outcome) (hw : c.w.WF) (hd : c.dies out = false)
    (hc : Covered c) : Covered (c.step out) :=
  c.step_covered out hw hd hc

/-- (a) What holds after a dying step: the file system is untouched, the
worker is dead with an empty queue (so its pending `appendFile`s are lost). -/
theorem c04_dying_step (c : WCtx) (out : Outcome) (hd : c.dies out = true) :
    (c.step out).fs = c.fs ∧ (c.step out).w.pc = .dead ∧ (c.step out).w.queue = [] ∧
    (c.step out).w.files = c.w.files := by
  obtain ⟨h1, h2, _⟩ := c.step_dies out hd
  rw [h1]; exact ⟨h2, rfl, rfl, rfl⟩

/-- (a) Caller side, chunk rotation (`Store.tryCloseFull`: create newId; write
head; optional `send write`; `send appendFile newId`): with a live worker every
send succeeds and coverage is preserved. -/
theorem c04_covered_rotate (s : Store) (fsHas : Nat → Bool) (fs : Fs) (w : Worker) (evs : List Ev)
    (hp : w.pc ≠ .dead) (hc : CoveredFW fs w) :
    (applyEffs (s.tryCloseFull fsHas).2.2 fs w evs).1 = true ∧
    CoveredFW (applyEffs (s.tryCloseFull fsHas).2.2 fs w evs).2.1
      (applyEffs (s.tryCloseFull fsHas).2.2 fs w evs).2.2.1.settle :=
  ⟨(tryCloseFull_covered s fsHas fs w evs hp hc).1, (tryCloseFull_covered s fsHas fs w evs hp hc).2.settle⟩

/-- (a) Caller side, `Store.flush` (`send write`; optional `send removeChunks`). -/
theorem c04_covered_flush (s : Store) (cb : Option Nat) (fs : Fs) (w : Worker) (evs : List Ev)
    (hp : w.pc ≠ .dead) (hc : CoveredFW fs w) :
    (applyEffs (s.flush cb).2 fs w evs).1 = true ∧
    (applyEffs (s.flush cb).2 fs w evs).2.1 = fs ∧
    CoveredFW fs (applyEffs (s.flush cb).2 fs w evs).2.2.1.settle :=
  ⟨(flush_covered s cb fs w evs hp hc).1, (flush_covered s cb fs w evs hp hc).2.1,
   (flush_covered s cb fs w evs hp hc).2.2.settle⟩

/-- (a) System level: every public call (any `Op`, accepted or rejected, with
any number of chunk rotations) and every flush on a store whose worker is alive
keeps the unsynced files covered; so does every worker step that does not kill
the worker. -/
theorem c04_covered_sys (y : Sys) (h : CoveredFW y.fs y.worker) :
    (y.worker.pc ≠ .dead → ∀ op, CoveredFW (y.call op).2.1.fs (y.call op).2.1.worker) ∧
    (y.worker.pc ≠ .dead → ∀ cb, CoveredFW (y.flush cb).2.1.fs (y.flush cb).2.1.worker) ∧
    (y.worker.WF → ∀ out (s : Store),
      (({ w := y.worker, fs := y.fs, cache := s.cache } : WCtx).dies out) = false →
      CoveredFW (y.workerStep out).1.fs (y.workerStep out).1.worker) :=
  ⟨fun hp op => SysCovered.call h hp op, fun hp cb => SysCovered.flush h hp cb,
   fun hw out s hd => SysCovered.workerStep h hw out s hd⟩

/-! ### (b) A positive acknowledgement means everything tracked is synced -/

theorem mem_stepCbs_true {c : WCtx} {out : Outcome} {i : Nat} (h : (i, true) ∈ stepCbs c out) :
    ∃ b t, c.w.pc = .syncNew b t ∧ out ≠ .eio ∧ i ∈ b.filterMap WReq.cbId := by
  unfold stepCbs at h
  cases hpc : c.w.pc with
  | syncNew b t =>
    simp only [hpc, batchCbs, List.mem_map, Prod.mk.injEq] at h
    obtain ⟨j, hj, rfl, ho⟩ := h
    exact ⟨b, t, rfl, by simpa using ho, hj⟩
  | syncOld b t =>
    simp only [hpc] at h
    split at h
    · simp [batchCbs] at h
    · cases h
  | _ => simp [hpc] at h

theorem WCtx.step_syncNew_ok {c : WCtx} {out : Outcome} {b : List WReq} {t : Option WReq} {f : FileEnt}
    {rest : List FileEnt} (hpc : c.w.pc = .syncNew b t) (hf : c.w.files = f :: rest) (ho : out ≠ .eio) :
    c.step out = (c.synced f.id).finishBatch b t true := by
  cases out with
  | eio => exact absurd rfl ho
  | ok => simp [WCtx.step, hpc, hf, WCtx.synced]
  | short k => simp [WCtx.step, hpc, hf, WCtx.synced]

theorem WCtx.step_sync_eio {c : WCtx} {b : List WReq} {t : Option WReq} {f : FileEnt}
    {rest : List FileEnt} (hpc : c.w.pc = .syncOld b t ∨ c.w.pc = .syncNew b t) (hf : c.w.files = f :: rest) :
    c.step .eio = (c.emit (.sync "w" f.id false)).finishBatch b t false := by
  rcases hpc with hpc | hpc <;> simp [WCtx.step, hpc, hf]

/-- (b) A positive acknowledgement is emitted only by a `syncNew` step with a
non-`eio` outcome, for a callback of the batch in hand. -/
theorem c04_ack_only_from_syncNew (c : WCtx) (out : Outcome) (i : Nat) (hw : c.w.WF)
    (hnew : Ev.cb i true ∉ c.evs) (h : Ev.cb i true ∈ (c.step out).evs) :
    ∃ b t f, c.w.pc = .syncNew b t ∧ c.w.files = [f] ∧ out ≠ .eio ∧ i ∈ b.filterMap WReq.cbId := by
  have h1 := mem_cbsOf.mpr h
  rw [c.step_cbsOf out hw, List.mem_append] at h1
  rcases h1 with h1 | h1
  · exact absurd (mem_cbsOf.mp h1) hnew
  · obtain ⟨b, t, hpc, ho, hi⟩ := mem_stepCbs_true h1
    simp only [Worker.WF, hpc] at hw
    match hf : c.w.files, hw with
    | [f], _ => exact ⟨b, t, f, hpc, rfl, ho, hi⟩

/-- (b) At the moment of a positive acknowledgement: the step synced the one
file `f` the worker tracked; every file with that id is fully durable; the
worker's list is `f` plus the file of a trailing `appendFile`; and every linked
file that still has bytes not known durable was announced by an `appendFile`
request that was queued behind the acknowledged flush (`pendingAppends` of the
state before: the trailing request and the queue). -/
theorem c04_ack_means_synced (c : WCtx) (out : Outcome) (i : Nat) (hw : c.w.WF) (hc : Covered c)
    (hnew : Ev.cb i true ∉ c.evs) (h : Ev.cb i true ∈ (c.step out).evs) :
    ∃ b t f, c.w.pc = .syncNew b t ∧ c.w.files = [f] ∧ out ≠ .eio ∧
      (c.step out).fs = c.fs.sync f.id ∧
      (∀ g ∈ (c.step out).fs, g.id = f.id → g.durable = g.data.length) ∧
      (c.step out).w.files = [f] ++ tailEnts t ∧
      pendingAppends c.w = (tailEnts t).map FileEnt.id ++ pendingAppends (c.step out).w ∧
      (∀ g ∈ (c.step out).fs, g.durable < g.data.length → g.linked = true →
        g.id ∈ pendingAppends c.w) := by
  obtain ⟨b, t, f, hpc, hf, ho, _⟩ := c04_ack_only_from_syncNew c out i hw hnew h
  refine ⟨b, t, f, hpc, hf, ho, ?_⟩
  rw [WCtx.step_syncNew_ok hpc hf ho]
  refine ⟨by simp, ?_, by simp [hf], ?_, ?_⟩
  · intro g hg hid
    rcases Fs.mem_sync (by simpa using hg) with ⟨_, h1⟩ | ⟨h1, _⟩
    · exact h1
    · exact absurd hid h1
  · have h1 : pendingAppends ((c.synced f.id).finishBatch b t true).w =
        c.w.queue.filterMap WReq.appendId := by simp [pendingAppends]
    rw [h1, tailEnts_ids]
    simp only [pendingAppends, hpc, WPc.held, List.filterMap_append]
  · intro g hg hu hl
    rcases Fs.mem_sync (by simpa using hg) with ⟨_, h1⟩ | ⟨h1, h2⟩
    · omega
    · rcases hc g h2 hu hl with h3 | h3
      · rw [hf] at h3; simp at h3; exact absurd h3 h1
      · exact h3

/-! ### (c) A failed sync -/

/-- (c) A `syncOld`/`syncNew` step with outcome `eio`: every callback of the
batch is acknowledged negatively (and nothing positively), `lastSyncFailed`
becomes true, the file whose sync failed stays in the list, and the file
system is untouched. -/
theorem c04_negative_after_failed_sync (c : WCtx) (b : List WReq) (t : Option WReq) (hw : c.w.WF)
    (hpc : c.w.pc = .syncOld b t ∨ c.w.pc = .syncNew b t) :
    ∃ f rest, c.w.files = f :: rest ∧
      Ev.sync "w" f.id false ∈ (c.step .eio).evs ∧
      cbsOf (c.step .eio).evs = cbsOf c.evs ++ (b.filterMap WReq.cbId).map (fun i => (i, false)) ∧
      (∀ i ∈ b.filterMap WReq.cbId, Ev.cb i false ∈ (c.step .eio).evs) ∧
      (∀ i, Ev.cb i true ∈ (c.step .eio).evs → Ev.cb i true ∈ c.evs) ∧
      (c.step .eio).w.lastSyncFailed = true ∧
      f ∈ (c.step .eio).w.files ∧ c.w.files <+: (c.step .eio).w.files ∧
      (c.step .eio).fs = c.fs := by
  have hne : c.w.files ≠ [] := hw.files_ne (by rcases hpc with h | h <;> simp [h])
  match hf : c.w.files, hne with
  | f :: rest, _ =>
    have hcbs : cbsOf (c.step .eio).evs = cbsOf c.evs ++ (b.filterMap WReq.cbId).map (fun i => (i, false)) := by
      rw [c.step_cbsOf .eio hw]
      rcases hpc with h | h <;> simp [stepCbs, h, batchCbs]
    refine ⟨f, rest, rfl, ?_, hcbs, ?_, ?_, ?_, ?_, ?_, ?_⟩
    · rw [WCtx.step_sync_eio hpc hf]
      obtain ⟨r, h1, _⟩ := (c.emit (.sync "w" f.id false)).finishBatch_evs b t false
      rw [h1]; simp
    · intro i hi
      apply mem_cbsOf.mp
      rw [hcbs]; simp only [List.mem_append, List.mem_map]
      exact .inr ⟨i, hi, rfl⟩
    · intro i hi
      have := mem_cbsOf.mpr hi
      rw [hcbs, List.mem_append] at this
      rcases this with h | h
      · exact mem_cbsOf.mp h
      · simp at h
    · rw [WCtx.step_sync_eio hpc hf]; simp
    · rw [WCtx.step_sync_eio hpc hf]; simp [hf]
    · rw [WCtx.step_sync_eio hpc hf]; simp [hf]
    · rw [WCtx.step_sync_eio hpc hf]; simp

/-! ### (d) Order and uniqueness of acknowledgements -/

/-- (d) One step: the acknowledgements it emits (`stepCbs`, in event order) are
taken from the front of the callback queue and the rest stays queued; a dying
step emits none and reports every queued callback as dropped. -/
theorem c04_step_cbs (c : WCtx) (out : Outcome) (hw : c.w.WF) :
    cbsOf (c.step out).evs = cbsOf c.evs ++ stepCbs c out ∧
    (c.dies out = false → cbQueue c.w = (stepCbs c out).map Prod.fst ++ cbQueue (c.step out).w) ∧
    (c.dies out = true → stepCbs c out = [] ∧ (c.step out).w.pc = .dead ∧ cbQueue (c.step out).w = [] ∧
      ∀ i ∈ cbQueue c.w, Ev.cbDropped i ∈ (c.step out).evs) := by
  refine ⟨c.step_cbsOf out hw, c.step_cbQueue out hw, fun hd => ⟨stepCbs_of_dies hd, ?_, ?_,
    c.step_dies_dropped out hd⟩⟩
  · rw [(c.step_dies out hd).1]
  · rw [cbQueue, (c.step_dies out hd).1]; rfl

/-- (d) Over any run (any outcomes, including the death of the worker) the
acknowledged callback ids are, in order, a prefix of the callback queue at the
start: request order, none invented. -/
theorem c04_cbs_in_request_order (c : WCtx) (outs : List Outcome) (hw : c.w.WF) :
    ∃ l, cbsOf (c.runOuts outs).evs = cbsOf c.evs ++ l ∧ l.map Prod.fst <+: cbQueue c.w :=
  c.runOuts_cbs_prefix outs hw

/-- (d) Hence no callback is acknowledged more often than it was queued; with
distinct callback ids each is acknowledged at most once. -/
theorem c04_cb_at_most_once (c : WCtx) (outs : List Outcome) (hw : c.w.WF) :
    ∃ l, cbsOf (c.runOuts outs).evs = cbsOf c.evs ++ l ∧
      (∀ i, (l.map Prod.fst).count i ≤ (cbQueue c.w).count i) ∧
      ((cbQueue c.w).Nodup → (l.map Prod.fst).Nodup) := by
  obtain ⟨l, h1, h2⟩ := c.runOuts_cbs_prefix outs hw
  exact ⟨l, h1, fun i => h2.sublist.count_le i, fun hn => hn.sublist h2.sublist⟩

/-- (d) No fault: any fuel `n ≥ drainCost` brings the worker to a quiet state
and every queued callback is acknowledged positively exactly once, in request
order. -/
theorem c04_exactly_once_no_fault_measure (c : WCtx) (n : Nat) (hw : c.w.WF) (hn : c.w.drainCost ≤ n) :
    (WCtx.runQuiet n c).w.quiet = true ∧
    cbsOf (WCtx.runQuiet n c).evs = cbsOf c.evs ++ (cbQueue c.w).map fun i => (i, true) :=
  ⟨WCtx.runQuiet_quiet n c hn, WCtx.runQuiet_cbs_exact n c hw hn⟩

/-- (d) The same with the model's own `Worker.fuel` (sufficient: see C14;
`TodoOK` is an invariant of reachable states, `c14_todoOK_reachable`). -/
theorem c04_exactly_once_no_fault (c : WCtx) (hw : c.w.WF) (ht : c.w.TodoOK) :
    (WCtx.runQuiet c.w.fuel c).w.quiet = true ∧
    cbsOf (WCtx.runQuiet c.w.fuel c).evs = cbsOf c.evs ++ (cbQueue c.w).map fun i => (i, true) := by
  apply c04_exactly_once_no_fault_measure c _ hw
  have := c.w.drainCost_le_fuel ht
  omega

/-! ### Non-vacuity -/

/-- Two flushes (callbacks 7, 8), then a rotation announcing file 9 which
already has an unsynced head. -/
def c04Demo : WCtx :=
  { w := { files := [⟨0, none⟩],
           pc := .got (.write 3 [1, 2, 3] (some 7)),
           queue := [.write 5 [4, 5] (some 8), .appendFile 9 none] },
    fs := [{ id := 0 }, { id := 9, data := [0] }],
    cache := { maxItems := 4, capacity := 100 } }

example : c04Demo.w.WF ∧ cbQueue c04Demo.w = [7, 8] ∧ pendingAppends c04Demo.w = [9] := by decide

/-- After collecting the batch and two writes the worker is parked at the sync
of the newest file; the step acknowledges 7 then 8; file 9 is still unsynced. -/
example :
    cbsOf ((c04Demo.runOuts [.ok, .ok, .short 1, .ok]).step .ok).evs = [(7, true), (8, true)] ∧
    ((c04Demo.runOuts [.ok, .ok, .short 1, .ok]).step .ok).fs =
      [{ id := 0, data := [1, 2, 3, 4, 5], durable := 5 }, { id := 9, data := [0] }] := by
  decide

example : cbsOf ((c04Demo.runOuts [.ok, .ok, .short 1, .ok]).step .eio).evs = [(7, false), (8, false)] := by
  decide

end RaftLog
