/-
C04 — system-level corollary: a positive callback means durable.

`Props/C04.lean` proves the acknowledgement rules on the worker machine. Here the
two history-level results of the crash-safety development (`c03_acked_flush`:
a positive callback raises the acknowledged position to the journal end of
its flush; `c03_acked_is_durable`: every live chunk file is written and durable
up to the acknowledged position) are combined into the statement C04 makes about
whole histories of the system, for every configuration, every interleaving of
caller and worker steps and every outcome (short writes, failed syncs) along
which the worker stays alive.
-/
import RaftLogModel.Props.C03
namespace RaftLog

/-- **A positive callback means written and synced.** History
`pre ++ [flush (some i)] ++ mid ++ [st] ++ post` of legal journal steps from a
fresh store (any cfg), worker alive at the end; no other flush before `st` uses
callback `i`; the worker emits `Ev.cb i true` during step `st`. Let `E` be the
journal end when that flush was issued (`s1.openEnd`: every record journalled
before the flush ends at or below `E`). Then at the END of the history (any
later steps `post`, including later failed syncs) every live chunk `offs` —
file id `offs.head`, chunk end `lastOff offs` — is written to its file up to
`E` or to the chunk's end, and that much of the file is durable. -/
theorem c04_positive_callback_means_durable (cfg : Cfg) (pre mid post : List Step) (i : Nat) (st : Step)
    (r : RefLog) (s1 : Store)
    (hsteps : ∀ x ∈ pre ++ [.flush (some i)] ++ mid ++ [st] ++ post, x.journal = true)
    (hlegal : RefLog.run {} (stepOps (pre ++ [.flush (some i)] ++ mid ++ [st] ++ post)) = some r)
    (hwf : ∀ op ∈ stepOps (pre ++ [.flush (some i)] ++ mid ++ [st] ++ post), op.WF ∧ op.small)
    (halive : ((Sys.fresh cfg).run (pre ++ [.flush (some i)] ++ mid ++ [st] ++ post)).worker.pc ≠ .dead)
    (halive2 : ((Sys.fresh cfg).run (pre ++ [.flush (some i)] ++ mid)).worker.pc ≠ .dead)
    (hfresh : ∀ x ∈ pre ++ mid, x ≠ .flush (some i))
    (hs1 : ((Sys.fresh cfg).run pre).store = some s1)
    (hcb : Ev.cb i true ∈ ((Sys.fresh cfg).run (pre ++ [.flush (some i)] ++ mid)).stepEvs st) :
    let y := (Sys.fresh cfg).run (pre ++ [.flush (some i)] ++ mid ++ [st] ++ post)
    ∃ s, y.store = some s ∧ s1.openEnd ≤ s.openEnd ∧
      (∀ offs ∈ s.chunks,
        min (lastOff offs - offs.headD 0) (s1.openEnd - offs.headD 0) ≤ (fdata y.fs (offs.headD 0)).length) ∧
      (∀ offs ∈ s.chunks, ∀ f, y.fs.find (offs.headD 0) = some f →
        min (lastOff offs - offs.headD 0) (s1.openEnd - offs.headD 0) ≤ f.durable) := by
  intro y
  have hpre : ∀ x ∈ pre, x.journal = true := fun x hx => hsteps x (by simp [hx])
  have hmid : ∀ x ∈ mid, x.journal = true := fun x hx => hsteps x (by simp [hx])
  have hA := c03_acked_flush cfg pre mid post i st s1 hpre hmid hfresh hs1 halive2 hcb
  obtain ⟨s, hs, hle, hw, hd⟩ := c03_acked_is_durable cfg _ r hsteps hlegal hwf halive
  refine ⟨s, hs, Nat.le_trans hA hle, fun offs ho => ?_, fun offs ho f hf => ?_⟩
  · have := hw offs ho; simp only [y]; omega
  · have := hd offs ho f (by simpa only [y] using hf); omega

/-- Non-vacuity: the history `c03Example` (vote, a batch append with a chunk
rotation, `flush (some 7)`, `workerIdle`, then a commit that is only partly
written and an unflushed append) satisfies the hypotheses with
`pre = [vote, append]`, `mid = []`, `st = workerIdle`; the journal end at the
flush is 164, and at the end chunk 0 (114 bytes) is durable in full and chunk
114 is durable up to byte 50 = 164 - 114. -/
example :
    c03Example = [.call (.saveVote ⟨1, 7⟩), .call (.append [(⟨1, 0⟩, [1, 2, 3]), (⟨1, 1⟩, [4])])]
      ++ [.flush (some 7)] ++ [] ++ [.workerIdle] ++
      [.call (.commit ⟨1, 0⟩), .flush none, .worker .ok, .worker (.short 5),
       .call (.append [(⟨1, 2⟩, [5, 6])])] ∧
    Ev.cb 7 true ∈ ((Sys.fresh { maxRecords := 4 }).run
      ([.call (.saveVote ⟨1, 7⟩), .call (.append [(⟨1, 0⟩, [1, 2, 3]), (⟨1, 1⟩, [4])])]
        ++ [.flush (some 7)] ++ [])).stepEvs .workerIdle ∧
    ((Sys.fresh { maxRecords := 4 }).run c03Example).fs.map
      (fun f => (f.id, f.data.length, f.durable)) = [(0, 114, 114), (114, 55, 50)] := by
  refine ⟨rfl, by decide +kernel, by decide +kernel⟩

end RaftLog
