/-
C11, second sentence — "A file is closed as soon as it reaches the configured
record-count or size limit, and the reported on-disk size equals the bytes from
the oldest retained chunk to the journal end."

(The first sentence is `Props/C11Journal.lean`: invariant `J`.)

Quantification. Every configuration `cfg`; every history of calls (ANY
well-formed arguments, `Op.WF`: accepted, rejected, refused), flushes, worker
steps of any outcome, `workerIdle` and `drain` steps from `Sys.fresh cfg`, with
the worker alive at the end — the hypotheses of `c11_journal_invariant`; no
legality of the calls is assumed. The on-disk-size theorems are also stated for
every `J` state and for every `ReachLIFT` system (histories, clean restarts,
crash recoveries, in any order).

1. Rotation rule (`RotInvC11F`, `Proofs/C11Full.lean`).
   (i)  `c11_open_chunk_never_full`: after every step the open chunk is below
        BOTH limits — or it holds only its head `State` record and that record
        alone reaches a limit (`maxRecords ≤ 1`, or `maxSize ≤` size of the head
        record). That exception is real (`OpenChunk::create` does not look at the
        limits; the chunk is closed by the next accepted record): examples below.
        The other exception the code allows — `create_new` of the next chunk file
        fails with `AlreadyExists`, the full chunk stays open — cannot happen in
        these histories (`c11_call_never_exists`: no file at or beyond the journal
        end); at the store level it does (`c11_rotation_blocked_by_existing_file`).
   (ii) `c11_closed_chunks_full_when_closed`: every live closed chunk reached a
        limit, holds its head record and at least one more, and WITHOUT its last
        record it was below both limits (so it was closed as soon as the limit was
        reached) — or it holds only head + one record (the degenerate case again).
        Hence no chunk ever holds more than `max maxRecords 2` records (head
        included), and a chunk closed by the record limit holds exactly that many.
   Restarts. `open` re-opens the last chunk without looking at the limits, so
   after a restart with SMALLER limits the open chunk can be over the limit with
   many records (`c11_restart_open_chunk_may_be_full`; it is closed by the next
   accepted record): (i) and (ii) are relative to the limits in force. They ARE
   lifted to clean restarts whose configurations keep both limits
   (`ReachRotC11F`, `c11_rotation_rule_reach`, `c11_rotation_clean_restart`; any
   other setting may change). Not lifted to crash recovery: recovery closes a
   truncated last chunk that is not full (the task's "recovery case").

2. On-disk size (`c11_on_disk_size_of_J`, `c11_on_disk_size_is_files_total`,
   `…_reach`): `on_disk_size` = journal end − id of the oldest live chunk (a real
   subtraction) = Σ extents of the live chunks (they abut) = Σ bytes of the live
   chunks (file ‖ in flight in the worker ‖ pending buffer); and when the worker is
   quiet, nothing is pending and no removal is outstanding, = Σ lengths of the
   linked files of the directory.
-/
import RaftLogModel.Proofs.C11Full
import RaftLogModel.Props.C11
import RaftLogModel.Props.LiftRestart
namespace RaftLog

/-! ### 1. The rotation rule -/

/-- (B, store level) **Every public write call keeps the rotation rule**
`RotInvC11F`, whatever its arguments and result — unless it panics (which
well-formed arguments never cause: `call_ok_D12`) — provided no chunk file sits
at or beyond the journal end (true in every `J` state). -/
theorem c11_call_keeps_rotation_rule (s : Store) (fsHas : Nat → Bool) (op : Op) (h : RotInvC11F s)
    (hfs : ∀ i, s.openEnd ≤ i → fsHas i = false) :
    (∃ m, (s.call fsHas op).1 = .panic m) ∨
      (RotInvC11F (s.call fsHas op).2.1 ∧ (s.call fsHas op).2.1.cfg = s.cfg) :=
  call_rot_C11F fsHas op h hfs

/-- (A + B) The rotation rule, the journal invariant and `PanicFree` hold after
every history. -/
theorem c11_rotation_invariant (cfg : Cfg) (steps : List Step)
    (hsteps : ∀ st ∈ steps, st.journal = true) (hwf : ∀ op ∈ stepOps steps, op.WF)
    (halive : ((Sys.fresh cfg).run steps).worker.pc ≠ .dead) :
    ∃ s, ((Sys.fresh cfg).run steps).store = some s ∧ s.cfg = cfg ∧ RotInvC11F s := by
  exact (run_RotRec_C11F steps _ (fresh_RotRec_C11F cfg) hsteps hwf halive).rot

/-- **C11 (i): the open chunk is never full.** After every history the open
chunk is below both limits — `is_full` is false; fewer than `maxRecords` records
(head included) and fewer than `maxSize` bytes — or, the exact exception, it
holds only its head record and `maxRecords ≤ 1` or `maxSize ≤` that record's
size. -/
theorem c11_open_chunk_never_full (cfg : Cfg) (steps : List Step)
    (hsteps : ∀ st ∈ steps, st.journal = true) (hwf : ∀ op ∈ stepOps steps, op.WF)
    (halive : ((Sys.fresh cfg).run steps).worker.pc ≠ .dead) :
    ∃ s, ((Sys.fresh cfg).run steps).store = some s ∧ s.cfg = cfg ∧
      (s.isOpenFull = false ∨ s.openOffsets.length = 2) ∧
      ((recordsCount s.openOffsets < cfg.maxRecords ∧ chunkSize s.openOffsets < cfg.maxSize) ∨
        (recordsCount s.openOffsets = 1 ∧
          (cfg.maxRecords ≤ 1 ∨ cfg.maxSize ≤ chunkSize s.openOffsets))) := by
  obtain ⟨s, hs, hc, hr⟩ := c11_rotation_invariant cfg steps hsteps hwf halive
  have := hr.open_spec
  rw [hc] at this
  exact ⟨s, hs, hc, hr.openNF, this⟩

/-- **C11 (ii): a chunk is closed as soon as it reaches a limit.** After every
history (no restart), for every live closed chunk: it reached a limit; it holds
the head record and at least one more; without its last record it was below both
limits, or it holds only head + one record; it holds at most `max maxRecords 2`
records, and exactly that many if the record limit closed it. -/
theorem c11_closed_chunks_full_when_closed (cfg : Cfg) (steps : List Step)
    (hsteps : ∀ st ∈ steps, st.journal = true) (hwf : ∀ op ∈ stepOps steps, op.WF)
    (halive : ((Sys.fresh cfg).run steps).worker.pc ≠ .dead) :
    ∃ s, ((Sys.fresh cfg).run steps).store = some s ∧ s.cfg = cfg ∧
      ∀ c ∈ s.closed,
        (cfg.maxRecords ≤ recordsCount c.offsets ∨ cfg.maxSize ≤ chunkSize c.offsets) ∧
        2 ≤ recordsCount c.offsets ∧
        ((recordsCount c.offsets.dropLast < cfg.maxRecords ∧
            chunkSize c.offsets.dropLast < cfg.maxSize) ∨ recordsCount c.offsets = 2) ∧
        recordsCount c.offsets.dropLast + 1 = recordsCount c.offsets ∧
        recordsCount c.offsets ≤ max cfg.maxRecords 2 ∧
        (cfg.maxRecords ≤ recordsCount c.offsets → recordsCount c.offsets = max cfg.maxRecords 2) := by
  obtain ⟨s, hs, hc, hr⟩ := c11_rotation_invariant cfg steps hsteps hwf halive
  refine ⟨s, hs, hc, fun c hcm => ?_⟩
  have := (hr.closedFull c hcm).spec
  rw [hc] at this
  exact this

/-- In these histories a rotation is never blocked: no call fails with
`exists` (restated from `c11_call_never_exists`), at any point of the history. -/
theorem c11_rotation_never_blocked (cfg : Cfg) (steps : List Step) (op : Op)
    (hsteps : ∀ st ∈ steps, st.journal = true) (hwf : ∀ op ∈ stepOps steps, op.WF) (hop : op.WF)
    (halive : ((Sys.fresh cfg).run steps).worker.pc ≠ .dead) :
    (((Sys.fresh cfg).run steps).call op).1 ≠ .err .exists :=
  c11_call_never_exists _ op (c11_journal_invariant cfg steps hsteps hwf halive) hop

/-- The rotation rule `RotInvC11F` in numbers (any store): the open-chunk rule
and, for every closed chunk, the closed-chunk rule of (i) and (ii). -/
theorem c11_rotation_rule_spec (s : Store) (h : RotInvC11F s) :
    ((recordsCount s.openOffsets < s.cfg.maxRecords ∧ chunkSize s.openOffsets < s.cfg.maxSize) ∨
      (recordsCount s.openOffsets = 1 ∧
        (s.cfg.maxRecords ≤ 1 ∨ s.cfg.maxSize ≤ chunkSize s.openOffsets))) ∧
    ∀ c ∈ s.closed,
      (s.cfg.maxRecords ≤ recordsCount c.offsets ∨ s.cfg.maxSize ≤ chunkSize c.offsets) ∧
      2 ≤ recordsCount c.offsets ∧
      ((recordsCount c.offsets.dropLast < s.cfg.maxRecords ∧
          chunkSize c.offsets.dropLast < s.cfg.maxSize) ∨ recordsCount c.offsets = 2) ∧
      recordsCount c.offsets.dropLast + 1 = recordsCount c.offsets ∧
      recordsCount c.offsets ≤ max s.cfg.maxRecords 2 ∧
      (s.cfg.maxRecords ≤ recordsCount c.offsets → recordsCount c.offsets = max s.cfg.maxRecords 2) :=
  ⟨h.open_spec, fun c hc => (h.closedFull c hc).spec⟩

/-! ### 1b. The rotation rule across clean restarts that keep the limits -/

/-- (B) A history from ANY system that satisfies the journal invariant, has a
`PanicFree` store and satisfies the rotation rule keeps the rule. -/
theorem c11_rotation_history_from (y : Sys) (cfg : Cfg) (steps : List Step) (hJ : J y)
    (hp : PFSys_D12 y) (hr : RotSysC11F cfg y)
    (hsteps : ∀ st ∈ steps, st.journal = true) (hwf : ∀ op ∈ stepOps steps, op.WF)
    (halive : (y.run steps).worker.pc ≠ .dead) : RotSysC11F cfg (y.run steps) :=
  (run_RotRec_C11F steps y ⟨hJ, hp, hr⟩ hsteps hwf halive).rot

/-- (B) A clean restart with a configuration that has the SAME two limits keeps
the rule: `open` re-opens the last chunk and rebuilds the closed chunks exactly
as they were. (With other limits it does not: `c11_restart_open_chunk_may_be_full`.) -/
theorem c11_rotation_clean_restart {y : Sys} {r : RefLog} (hC : CSys y r) (hc : y.Clean)
    (cfg cfg' : Cfg) (hr : RotSysC11F cfg y) (h1 : cfg'.maxRecords = cfg.maxRecords)
    (h2 : cfg'.maxSize = cfg.maxSize) :
    RotSysC11F cfg' ((y.step .drop).step (.openWith cfg')) := by
  obtain ⟨s, hs, hq, hp, hrem, hpost⟩ := hc
  obtain ⟨s0, hs0, hcfg, hrot⟩ := hr
  rw [hs] at hs0; cases hs0
  obtain ⟨s', _, hy2, _, _, k3, k4, _, _, k7⟩ := restart_eq_LIFT y s r cfg' hC hs hq hp hrem hpost
  rw [hy2]
  exact ⟨s', rfl, k7, hrot.of_limits (by rw [k7, hcfg]; exact h1) (by rw [k7, hcfg]; exact h2) k4 k3⟩

/-- Systems reached from a fresh store by histories (as in `ReachLIFT`: legal,
accepted, well-formed, small calls; worker alive at the end) and clean restarts
with configurations that all have the record limit `mr` and the size limit `ms`. -/
inductive ReachRotC11F (mr ms : Nat) : Sys → Prop
  | fresh (cfg : Cfg) : cfg.maxRecords = mr → cfg.maxSize = ms → ReachRotC11F mr ms (Sys.fresh cfg)
  | hist {y : Sys} (steps : List Step) (r r' : RefLog) : ReachRotC11F mr ms y →
      (∀ st ∈ steps, st.journal = true) → CSys y r → r.run (stepOps steps) = some r' →
      (∀ op ∈ stepOps steps, op.WF ∧ op.small) → (y.run steps).worker.pc ≠ .dead →
      ReachRotC11F mr ms (y.run steps)
  | restart {y : Sys} (cfg' : Cfg) : ReachRotC11F mr ms y → y.Clean →
      cfg'.maxRecords = mr → cfg'.maxSize = ms →
      ReachRotC11F mr ms ((y.step .drop).step (.openWith cfg'))

/-- **C11 (i) + (ii) across clean restarts with unchanged limits**: every such
system is `ReachLIFT` (so `J` etc. hold) and its store satisfies the rotation
rule for the limits `mr`, `ms` (spelled out: `c11_rotation_rule_spec`). -/
theorem c11_rotation_rule_reach {mr ms : Nat} {y : Sys} (h : ReachRotC11F mr ms y) :
    ReachLIFT y ∧ ∃ s, y.store = some s ∧ s.cfg.maxRecords = mr ∧ s.cfg.maxSize = ms ∧
      RotInvC11F s := by
  induction h with
  | fresh cfg h1 h2 =>
    obtain ⟨s, hs, hc, hr⟩ := fresh_RotSys_C11F cfg
    exact ⟨ReachLIFT.fresh cfg, s, hs, by rw [hc]; exact h1, by rw [hc]; exact h2, hr⟩
  | @hist y steps r r' _ hst hC hrun hwf hnd ih =>
    obtain ⟨hreach, s, hs, k1, k2, hr⟩ := ih
    have hJ := (c11_journal_invariant_reach hreach).1
    obtain ⟨s', hs', hc', hr'⟩ := c11_rotation_history_from y s.cfg steps hJ hC.pf_C11F
      ⟨s, hs, rfl, hr⟩ hst (fun op hop => (hwf op hop).1) hnd
    exact ⟨ReachLIFT.hist steps r r' hreach hst hC hrun hwf hnd, s', hs', by rw [hc']; exact k1,
      by rw [hc']; exact k2, hr'⟩
  | @restart y cfg' _ hcl h1 h2 ih =>
    obtain ⟨hreach, s, hs, k1, k2, hr⟩ := ih
    obtain ⟨_, ⟨r, hC⟩, _⟩ := c11_journal_invariant_reach hreach
    obtain ⟨s', hs', hc', hr'⟩ := c11_rotation_clean_restart hC hcl s.cfg cfg' ⟨s, hs, rfl, hr⟩
      (by rw [h1, k1]) (by rw [h2, k2])
    exact ⟨ReachLIFT.restart cfg' hreach hcl, s', hs', by rw [hc']; exact h1, by rw [hc']; exact h2, hr'⟩

/-! ### 2. The reported on-disk size -/

/-- `on_disk_size`, by definition: journal end minus the id of the oldest live
chunk (any store). -/
theorem c11_on_disk_size_def (s : Store) :
    s.onDiskSize = s.openEnd - (s.closed.map Closed.id ++ [s.openId]).headD 0 := by
  rw [← Store.chunkIds_eq]; exact onDiskSize_def_C11F s

/-- **C11: the reported on-disk size, in every `J` state**: journal end − oldest
live chunk id (which is smaller); = Σ over the live chunks of their extents
`lastOff − id` (consecutive chunks abut: `Chained`); = Σ over the live chunks of
the length of their bytes: file ‖ in flight inside the worker ‖ (open chunk)
pending buffer. -/
theorem c11_on_disk_size_of_J {y : Sys} {s : Store} (h : J y) (hs : y.store = some s) :
    s.onDiskSize = s.openEnd - (s.closed.map Closed.id ++ [s.openId]).headD 0 ∧
    (s.closed.map Closed.id ++ [s.openId]).headD 0 < s.openEnd ∧
    Chained s.chunks ∧
    s.onDiskSize = sumNat (s.chunks.map (fun offs => lastOff offs - offs.headD 0)) ∧
    s.onDiskSize = sumNat ((s.closed.map Closed.id ++ [s.openId]).map
      (fun id => (chunkBytes s y.fs y.worker id).length)) := by
  obtain ⟨s0, hs0, _, hj⟩ := h
  rw [hs] at hs0; cases hs0
  refine ⟨c11_on_disk_size_def s, ?_, hj.chained, hj.onDiskSize_extents_C11F, ?_⟩
  · rw [← Store.chunkIds_eq]; exact hj.oldest_lt_C11F
  · rw [← Store.chunkIds_eq]; exact hj.onDiskSize_bytes_C11F

/-- **C11: at quiescence the reported size is the total length of the chunk
files in the directory.** `J` and the linked-files invariant `LSys`; worker
quiet (idle on an empty queue), nothing pending, no removal outstanding in the
store or postponed in the worker. -/
theorem c11_on_disk_size_files_of_J {y : Sys} {s : Store} (h : J y) (hl : LSys y)
    (hs : y.store = some s) (hq : y.worker.quiet = true) (hp : s.pending = [])
    (hr : s.removed = []) (hpo : y.worker.postponed = []) :
    s.onDiskSize = ((y.fs.filter (·.linked)).map (·.data.length)).sum ∧
    y.fs.linkedIds = s.closed.map Closed.id ++ [s.openId] := by
  obtain ⟨s0, hs0, hd, hj⟩ := h
  rw [hs] at hs0; cases hs0
  obtain ⟨s1, hs1, hli⟩ := hl
  rw [hs] at hs1; cases hs1
  obtain ⟨hpc, hqe⟩ := quiet_alive hq hd
  have htr : y.worker.toRemove = [] := by rw [toRemove_quiet hpc hqe]; exact hpo
  have hids := hli.linkedIds_eq hj hr htr
  exact ⟨onDiskSize_files_C11F hj hli.nodup hids hpc hqe hp, by rw [hids, Store.chunkIds_eq]⟩

/-- **C11: the reported on-disk size along every history** from a fresh store
(any well-formed calls, flushes, worker steps of any outcome, worker alive at the
end): all of `c11_on_disk_size_of_J`, and at quiescence with no removal
outstanding the total length of the linked files. -/
theorem c11_on_disk_size_is_files_total (cfg : Cfg) (steps : List Step)
    (hsteps : ∀ st ∈ steps, st.journal = true) (hwf : ∀ op ∈ stepOps steps, op.WF)
    (halive : ((Sys.fresh cfg).run steps).worker.pc ≠ .dead) :
    let y := (Sys.fresh cfg).run steps
    ∃ s, y.store = some s ∧
      s.onDiskSize = s.openEnd - (s.closed.map Closed.id ++ [s.openId]).headD 0 ∧
      (s.closed.map Closed.id ++ [s.openId]).headD 0 < s.openEnd ∧
      s.onDiskSize = sumNat (s.chunks.map (fun offs => lastOff offs - offs.headD 0)) ∧
      s.onDiskSize = sumNat ((s.closed.map Closed.id ++ [s.openId]).map
        (fun id => (chunkBytes s y.fs y.worker id).length)) ∧
      (y.worker.quiet = true → s.pending = [] → s.removed = [] → y.worker.postponed = [] →
        s.onDiskSize = ((y.fs.filter (·.linked)).map (·.data.length)).sum) := by
  intro y
  have hJ : J y := run_J steps _ (fresh_J cfg) hsteps hwf halive
  have hL : LSys y := run_LSys steps _ (fresh_LSys cfg) (fresh_J cfg) hsteps hwf halive
  obtain ⟨s, hs, _, _⟩ := id hJ
  obtain ⟨k1, k2, _, k4, k5⟩ := c11_on_disk_size_of_J hJ hs
  exact ⟨s, hs, k1, k2, k4, k5, fun hq hp hr hpo => (c11_on_disk_size_files_of_J hJ hL hs hq hp hr hpo).1⟩

/-- The same for **every reachable system** (`ReachLIFT`: histories, clean
restarts with any configuration, crashes + recoveries, in any order). -/
theorem c11_on_disk_size_is_files_total_reach {y : Sys} (h : ReachLIFT y) :
    ∃ s, y.store = some s ∧
      s.onDiskSize = s.openEnd - (s.closed.map Closed.id ++ [s.openId]).headD 0 ∧
      (s.closed.map Closed.id ++ [s.openId]).headD 0 < s.openEnd ∧
      s.onDiskSize = sumNat (s.chunks.map (fun offs => lastOff offs - offs.headD 0)) ∧
      s.onDiskSize = sumNat ((s.closed.map Closed.id ++ [s.openId]).map
        (fun id => (chunkBytes s y.fs y.worker id).length)) ∧
      (y.worker.quiet = true → s.pending = [] → s.removed = [] → y.worker.postponed = [] →
        s.onDiskSize = ((y.fs.filter (·.linked)).map (·.data.length)).sum) := by
  obtain ⟨hJ, ⟨r, hC⟩, _⟩ := c11_journal_invariant_reach h
  obtain ⟨s, hs, _, _⟩ := id hJ
  obtain ⟨k1, k2, _, k4, k5⟩ := c11_on_disk_size_of_J hJ hs
  exact ⟨s, hs, k1, k2, k4, k5,
    fun hq hp hr hpo => (c11_on_disk_size_files_of_J hJ hC.2 hs hq hp hr hpo).1⟩

/-! ### 3. Non-vacuity, the exceptions -/

/-- A history with rotations, a purge that drops a chunk, flushes and a quiet
worker at the end. -/
def c11FullExample : List Step :=
  [ .call (.saveVote ⟨1, 7⟩),
    .call (.append [(⟨1, 0⟩, [1, 2, 3]), (⟨1, 1⟩, [4]), (⟨1, 2⟩, [5, 6])]),
    .call (.commit ⟨1, 1⟩),
    .flush (some 0),
    .workerIdle,
    .call (.purge ⟨1, 0⟩),
    .call (.saveUserData (some [42])),
    .flush none,
    .workerIdle ]

theorem c11FullExample_wf : ∀ op ∈ stepOps c11FullExample, op.WF := by
  intro op hop
  simp only [c11FullExample, stepOps, List.mem_cons, List.not_mem_nil, or_false] at hop
  rcases hop with h | h | h | h | h <;> subst h <;>
    simp [Op.WF, LogId.WF, bytesWF, U64, U32]

def c11FullSysMR3 : Sys := (Sys.fresh { maxRecords := 3 }).run c11FullExample
def c11FullSysMS64 : Sys := (Sys.fresh { maxSize := 64 }).run c11FullExample

/-- `maxRecords = 3`: the hypotheses hold; the two live closed chunks hold
exactly 3 records (head + 2), the open chunk 2 (not full); the reported size 392
is journal end 473 − oldest live id 81 and the total of the three linked files
(117 + 106 + 169), the system being quiescent with no removal outstanding. -/
example :
    (∀ st ∈ c11FullExample, st.journal = true) ∧ c11FullSysMR3.worker.pc ≠ .dead ∧
    c11FullSysMR3.worker.quiet = true ∧ c11FullSysMR3.worker.postponed = [] ∧
    c11FullSysMR3.store.map (fun s => (s.closed.map (·.offsets), s.openOffsets, s.isOpenFull))
      = some ([[81, 131, 164, 198], [198, 248, 276, 304]], [304, 386, 473], false) ∧
    c11FullSysMR3.store.map (fun s => (s.onDiskSize, s.pending, s.removed)) = some (392, [], []) ∧
    (c11FullSysMR3.fs.filter (·.linked)).map (fun f => (f.id, f.data.length))
      = [(81, 117), (198, 106), (304, 169)] := by
  decide +kernel

/-- `maxSize = 64`: chunks `[81,131,164]`, `[164,214,248]`, `[248,298,326]`,
`[420,502,589]`… were closed by the size limit as soon as it was reached (head
alone < 64 except where the head `State` record itself is ≥ 64 bytes: chunk
`[326,392,420]` has a 66-byte head and holds head + one record — the degenerate
case); the open chunk `[589,676]` holds only its 87-byte head record and is
"full": the exact exception of (i). -/
example :
    c11FullSysMS64.worker.pc ≠ .dead ∧ c11FullSysMS64.worker.quiet = true ∧
    c11FullSysMS64.worker.postponed = [] ∧
    c11FullSysMS64.store.map (fun s => (s.closed.map (·.offsets), s.openOffsets, s.isOpenFull))
      = some ([[81, 131, 164], [164, 214, 248], [248, 298, 326], [326, 392, 420], [420, 502, 589]],
          [589, 676], true) ∧
    c11FullSysMS64.store.map (fun s => (s.onDiskSize, s.pending, s.removed)) = some (595, [], []) ∧
    (c11FullSysMS64.fs.filter (·.linked)).map (fun f => (f.id, f.data.length))
      = [(81, 83), (164, 84), (248, 78), (326, 94), (420, 169), (589, 87)] := by
  decide +kernel

/-- Degenerate limits: with `maxRecords = 1` (or `maxSize = 0`) every fresh
chunk is "full" from the start; it is closed by the next accepted record, so
every chunk holds head + one record and the open chunk only its head. -/
example :
    ((Sys.fresh { maxRecords := 1 }).run c11FullExample).store.map
        (fun s => (s.closed.map (·.offsets), s.openOffsets, s.isOpenFull))
      = some ([[115, 165, 198], [198, 248, 282], [282, 332, 360], [360, 426, 454], [454, 536, 623]],
          [623, 710], true) ∧
    ((Sys.fresh { maxSize := 0 }).run c11FullExample).store.map
        (fun s => (s.closed.map (·.offsets), s.openOffsets, s.isOpenFull))
      = some ([[115, 165, 198], [198, 248, 282], [282, 332, 360], [360, 426, 454], [454, 536, 623]],
          [623, 710], true) := by
  decide +kernel

/-- The exception the code allows at the store level: if a file with the next
chunk's name exists, `create_new` fails, the call reports `exists` and the full
chunk stays open (here: 3 records with `maxRecords = 3`). Not reachable in the
histories above (`c11_rotation_never_blocked`). -/
theorem c11_rotation_blocked_by_existing_file :
    ∃ s, ((Sys.fresh { maxRecords := 3 }).run [.call (.saveVote ⟨1, 7⟩)]).store = some s ∧
      RotInvC11F s ∧
      (s.call (fun _ => true) (.commit ⟨0, 0⟩)).1 = .err .exists ∧
      (s.call (fun _ => true) (.commit ⟨0, 0⟩)).2.1.isOpenFull = true ∧
      (s.call (fun _ => true) (.commit ⟨0, 0⟩)).2.1.openOffsets.length = 4 := by
  obtain ⟨s, hs, _, hr⟩ := c11_rotation_invariant { maxRecords := 3 } [.call (.saveVote ⟨1, 7⟩)]
    (by decide) (by intro op hop; simp [stepOps] at hop; subst hop; simp [Op.WF, LogId.WF, U64]) (by decide)
  refine ⟨s, hs, hr, ?_⟩
  have e : ((Sys.fresh { maxRecords := 3 }).run [.call (.saveVote ⟨1, 7⟩)]).store.map
      (fun s => ((s.call (fun _ => true) (.commit ⟨0, 0⟩)).1,
        (s.call (fun _ => true) (.commit ⟨0, 0⟩)).2.1.isOpenFull,
        (s.call (fun _ => true) (.commit ⟨0, 0⟩)).2.1.openOffsets.length))
      = some (.err .exists, true, 4) := by decide +kernel
  rw [hs] at e
  simp only [Option.map_some, Option.some.injEq, Prod.mk.injEq] at e
  exact e

set_option maxRecDepth 100000 in
/-- Why (i) is not lifted to restarts: a clean restart with smaller limits
re-opens the last chunk as it is — here 8 records, `maxRecords = 2`. -/
theorem c11_restart_open_chunk_may_be_full :
    ((Sys.fresh { maxRecords := 10 }).run c11FullExample).cleanB = true ∧
    ((((Sys.fresh { maxRecords := 10 }).run c11FullExample).step .drop).step
        (.openWith { maxRecords := 2 })).store.map
        (fun s => (s.cfg.maxRecords, s.closed.length, s.openOffsets.length, s.isOpenFull))
      = some (2, 0, 9, true) := by
  refine ⟨by decide +kernel, ?_⟩
  decide +kernel

theorem c11FullExample_small : ∀ op ∈ stepOps c11FullExample, op.WF ∧ op.small := by
  intro op hop
  simp only [c11FullExample, stepOps, List.mem_cons, List.not_mem_nil, or_false] at hop
  rcases hop with h | h | h | h | h <;> subst h <;>
    simp [Op.WF, Op.small, LogId.WF, bytesWF, smallId, U64, U32]

/-- `c11FullSysMR3` restarted cleanly with the same limits (other cache size). -/
def c11FullRestarted : Sys :=
  (c11FullSysMR3.step .drop).step (.openWith { maxRecords := 3, cacheItems := 7 })

/-- `ReachRotC11F` is inhabited by a run with a history and a clean restart. -/
theorem c11_reachRot_example : ReachRotC11F 3 (1024 * 1024 * 1024) c11FullRestarted := by
  cases hr : RefLog.run {} (stepOps c11FullExample) with
  | none => exact absurd hr (by decide +kernel)
  | some r =>
    have h1 : ReachRotC11F 3 (1024 * 1024 * 1024) c11FullSysMR3 :=
      ReachRotC11F.hist c11FullExample {} r (ReachRotC11F.fresh _ rfl rfl) (by decide +kernel)
        (fresh_CSys _) hr c11FullExample_small (by decide +kernel)
    exact ReachRotC11F.restart _ h1 (Sys.clean_of_cleanB (by decide +kernel)) rfl rfl

set_option maxRecDepth 100000 in
/-- The restarted store, computed by the model: same chunks, open chunk not
full, new cache size — and by `c11_rotation_rule_reach` the rotation rule. -/
example :
    c11FullRestarted.store.map (fun s => (s.closed.map (·.offsets), s.openOffsets, s.isOpenFull))
      = some ([[81, 131, 164, 198], [198, 248, 276, 304]], [304, 386, 473], false) ∧
    c11FullRestarted.store.map (fun s => (s.cfg.maxRecords, s.cfg.cacheItems, s.onDiskSize))
      = some (3, 7, 392) ∧
    ∃ s, c11FullRestarted.store = some s ∧ RotInvC11F s :=
  ⟨by decide +kernel, by decide +kernel, by
    obtain ⟨_, s, hs, _, _, hr⟩ := c11_rotation_rule_reach c11_reachRot_example
    exact ⟨s, hs, hr⟩⟩

end RaftLog
