import RaftLogModel.Props.C09Crc
