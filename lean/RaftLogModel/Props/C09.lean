/-
C09 — Corruption inside a chunk and a missing middle chunk are reported.

Part 1 (imported): CRC-32 single-byte lemmas, `Props/C09Crc.lean`.
Part 2 (here): what `parseChunk` / `Chunk::open` / the `open` loop do with a
record that fails to decode, with a record whose `tag ‖ body` has one byte
altered, and with a gap between consecutive chunks.

Helpers: `Proofs/Parse.lean`, `Proofs/Recover.lean`.
-/
import RaftLogModel.Props.C09Crc
import RaftLogModel.Proofs.Recover
namespace RaftLog

/-! ### (f) A record that does not decode -/

/-- (f) If the bytes after the well-formed records `rs` fail to decode with an
error other than `UnexpectedEof`, the iteration stops exactly there with
`invalid`; `Chunk::open` then returns the error `invalid`, except that an
all-zero remainder is cut off when `truncate` is configured. -/
theorem c09_checksum_mismatch_invalid (cfg : Cfg) (id : Nat) {rs : List Record} (h : AllWF rs)
    {bs : Bytes} (hb : decRecord bs = .invalid) :
    parseChunk (encAll rs ++ bs)
        = (rs.map (fun r => (r, (encRecord r).length)), .invalid, bs) ∧
    openChunk cfg id (encAll rs ++ bs) =
      if allZero bs && cfg.truncate then
        .ok ⟨rs, offsetsFrom id (rs.map (fun r => (encRecord r).length)), some (encAll rs).length⟩
      else .error .invalid := by
  have hp : parseChunk (encAll rs ++ bs) = (sized rs, .invalid, bs) := by
    rw [parseChunk_encAll_append h, parseChunk_invalid hb]; simp
  exact ⟨hp, by rw [openChunk_of_parse hp]; rfl⟩

/-- (f) If the remainder is not all zeros the error is `invalid` for either
setting of `truncate`. -/
theorem c09_invalid_reported (cfg : Cfg) (id : Nat) {rs : List Record} (h : AllWF rs)
    {bs : Bytes} (hb : decRecord bs = .invalid) (hz : allZero bs = false) :
    openChunk cfg id (encAll rs ++ bs) = .error .invalid := by
  rw [(c09_checksum_mismatch_invalid cfg id h hb).2, hz]; rfl

/-- A stored checksum that differs from the CRC-32 of the record's
`tag ‖ body` makes the decoder return `invalid` (the premise of (f)). -/
theorem c09_wrong_sum_is_invalid (r : Record) (hr : r.WF) (sum : Bytes) (hl : sum.length = 8)
    (hne : sum ≠ natToBE 8 (crc32 (encTB r))) (rest : Bytes) :
    decRecord (encTB r ++ sum ++ rest) = .invalid :=
  decRecord_bad_sum_bytes r hr sum hl hne rest

/-- Chunk level: a record whose 8 checksum bytes were replaced, anywhere in a
chunk, is reported as `invalid` at its position (unless everything from there on
is zero and `truncate` is set — the zero-tail rule of C10). -/
theorem c09_wrong_sum_chunk (cfg : Cfg) (id : Nat) {rs : List Record} (h : AllWF rs)
    (r : Record) (hr : r.WF) (sum : Bytes) (hl : sum.length = 8)
    (hne : sum ≠ natToBE 8 (crc32 (encTB r))) (rest : Bytes)
    (hz : allZero (encTB r ++ sum ++ rest) = false) :
    parseChunk (encAll rs ++ (encTB r ++ sum ++ rest))
        = (rs.map (fun r => (r, (encRecord r).length)), .invalid, encTB r ++ sum ++ rest) ∧
    openChunk cfg id (encAll rs ++ (encTB r ++ sum ++ rest)) = .error .invalid :=
  ⟨(c09_checksum_mismatch_invalid cfg id h (c09_wrong_sum_is_invalid r hr sum hl hne rest)).1,
    c09_invalid_reported cfg id h (c09_wrong_sum_is_invalid r hr sum hl hne rest) hz⟩

/-! ### One byte of `tag ‖ body` altered -/

/-- The frame of `r` with one byte of `tag ‖ body` replaced (`x ↦ y`) and the
stored checksum kept. -/
def mutated (r : Record) (pre post : Bytes) (y : UInt8) : Bytes :=
  (pre ++ y :: post) ++ natToBE 8 (crc32 (encTB r))

theorem mutated_length (r : Record) (pre post : Bytes) (x y : UInt8)
    (hsplit : encTB r = pre ++ x :: post) :
    (mutated r pre post y).length = (encRecord r).length := by
  rw [encRecord_eq, hsplit]; simp [mutated]

/-- Chunk-level corollary of the CRC theorems. The chunk holds the well-formed
records `rs`, then the frame of `r` with one `tag ‖ body` byte altered, then any
bytes `rest` (all other bytes as written). The parse returns `rs` followed by the
parse of the damaged part, and at the damaged record exactly one of these holds:

* the iteration stops there with `eof` or `invalid`, the remainder starting at
  the damaged record; or
* a record `r'` is decoded there that differs from `r` AND has a different
  encoded length (possible only when the altered byte is a tag, option or length
  byte, so that the decoder reads a body of another extent whose trailing 8 bytes
  happen to be its CRC; a checksum over the consumed bytes cannot exclude this).

A record of the original extent is never accepted. -/
theorem c09_chunk_byte_altered {rs : List Record} (h : AllWF rs) (r : Record)
    (pre post : Bytes) (x y : UInt8) (hsplit : encTB r = pre ++ x :: post) (hxy : x ≠ y)
    (rest : Bytes) :
    ∃ recs e rem,
      parseChunk (encAll rs ++ (mutated r pre post y ++ rest))
        = (rs.map (fun r => (r, (encRecord r).length)) ++ recs, e, rem) ∧
      ((recs = [] ∧ (e = .eof ∨ e = .invalid) ∧ rem = mutated r pre post y ++ rest) ∨
       (∃ r' more, recs = (r', (encRecord r').length) :: more ∧
          (encRecord r').length ≠ (encRecord r).length ∧ r' ≠ r)) := by
  have hM := mutated_length r pre post x y hsplit
  have hne : mutated r pre post y ++ rest ≠ [] := by
    intro hn
    have := congrArg List.length hn
    have hp := encRecord_length_posP r
    rw [List.length_append, hM] at this
    simp only [List.length_nil] at this
    omega
  rw [parseChunk_encAll_append h]
  cases hd : decRecord (mutated r pre post y ++ rest) with
  | eof =>
    rw [parseChunk_eof hne hd]
    exact ⟨[], .eof, _, rfl, Or.inl ⟨rfl, Or.inl rfl, rfl⟩⟩
  | invalid =>
    rw [parseChunk_invalid hd]
    exact ⟨[], .invalid, _, rfl, Or.inl ⟨rfl, Or.inr rfl, rfl⟩⟩
  | ok r' rest' =>
    rw [parseChunk_ok hd]
    have hext := c09_body_byte_decode_extent r pre post x y hsplit hxy rest rest' r' hd
    have hl := decRecord_ok_length hd
    have hlen : (encRecord r').length ≠ (encRecord r).length := by
      rw [List.length_append, hM] at hl
      omega
    refine ⟨_, _, _, rfl, Or.inr ⟨r', _, rfl, hlen, ?_⟩⟩
    intro he
    exact hlen (by rw [he])

/-- Consequently the parse of the damaged chunk never returns the original
record list (whatever followed the damaged record), and neither does a
successful `Chunk::open`. -/
theorem c09_chunk_byte_altered_not_original {rs : List Record} (h : AllWF rs) (r : Record)
    (pre post : Bytes) (x y : UInt8) (hsplit : encTB r = pre ++ x :: post) (hxy : x ≠ y)
    (rest : Bytes) (after : List Record) :
    (parseChunk (encAll rs ++ (mutated r pre post y ++ rest))).1.map (·.1) ≠ rs ++ r :: after ∧
    ∀ cfg id oc, openChunk cfg id (encAll rs ++ (mutated r pre post y ++ rest)) = .ok oc →
      oc.records ≠ rs ++ r :: after := by
  have key : (parseChunk (encAll rs ++ (mutated r pre post y ++ rest))).1.map (·.1)
      ≠ rs ++ r :: after := by
    obtain ⟨recs, e, rem, hp, halt⟩ := c09_chunk_byte_altered h r pre post x y hsplit hxy rest
    rw [hp]
    intro hc
    have hc' : rs ++ recs.map (·.1) = rs ++ r :: after := by
      rw [← hc]
      simp [List.map_append, List.map_map, Function.comp_def]
    have hc'' := List.append_cancel_left hc'
    rcases halt with ⟨hnil, _, _⟩ | ⟨r', more, hrecs, _, hne⟩
    · rw [hnil] at hc''; cases hc''
    · rw [hrecs] at hc''
      simp only [List.map_cons, List.cons.injEq] at hc''
      exact hne hc''.1
  refine ⟨key, ?_⟩
  intro cfg id oc hoc
  obtain ⟨rs0, _, _, hparse, _, hrecs, _, _⟩ := openChunk_ok hoc
  rw [hrecs]
  intro hc
  apply key
  rw [hparse, sized_map_fst, hc]

/-! ### (g) A missing middle chunk -/

/-- (g) One step of the `open` loop: if the previous chunk's records ended at
global offset `e` and the next chunk id is `b ≠ e`, the loop stops with the
error `gap` before opening `b`: no file is modified and no event is emitted. -/
theorem c09_missing_middle_chunk (cfg : Cfg) (b : Nat) (rest : List Nat) (acc : OpenAcc)
    (e : Nat) (hprev : acc.prevEnd = some e) (hne : e ≠ b) :
    ∃ acc', openLoop cfg (b :: rest) acc = (.err .gap, acc') ∧
      acc'.fs = acc.fs ∧ acc'.evs = acc.evs := by
  have hg : gapCheck acc b = true := by
    simp [gapCheck, hprev, hne]
  exact ⟨acc.pre, openLoop_gap cfg b rest acc hg, rfl, rfl⟩

/-- (g) Two steps: the chunk ids are `a :: b :: rest`; chunk `a` is an undamaged
file `encAll rs` that replays without error, so its records end at global offset
`a + |encAll rs|`; if that is not `b`, `open` fails with `gap`; the only effect
is the sync of the kept chunk `a` (D15; old: neither the files nor the event list
changed). -/
theorem c09_missing_middle_chunk_two (cfg : Cfg) (a b : Nat) (rest : List Nat) (acc : OpenAcc)
    (f : File) (rs : List Record) (sm2 : Store)
    (habut : gapCheck acc a = false) (hfind : acc.fs.find a = some f)
    (hdata : f.data = encAll rs) (hwf : AllWF rs)
    (hr : replay a rs (offsetsFrom a (rs.map (fun r => (encRecord r).length))) acc.pre.sm
      = .ok sm2)
    (hgap : a + (encAll rs).length ≠ b) :
    ∃ acc', openLoop cfg (a :: b :: rest) acc = (.err .gap, acc') ∧
      acc'.fs = acc.fs.sync a ∧ acc'.evs = acc.evs ++ [Ev.sync "o" a true] := by
  rw [openLoop_clean_step (b :: rest) habut hfind hdata hwf (Or.inr (by simp)) hr]
  exact c09_missing_middle_chunk cfg b rest _ _ (OpenAcc.loaded_prevEnd acc a rs sm2) hgap

/-- (g) at the level of `open`: a gap error detected right after cleanly loaded chunks
leaves the directory as it was except that those chunks were synced (D15; old:
`(.err .gap, fs, [])`). -/
theorem c09_open_gap (cfg : Cfg) (fs : Fs) (ids : List Nat) (b : Nat) (rest : List Nat)
    (a' : OpenAcc) (e : Nat)
    (hids : fs.linkedIds = ids ++ b :: rest)
    (hload : Loads cfg ids { sm := emptyStore cfg, fs := fs } a')
    (hprev : a'.prevEnd = some e) (hne : e ≠ b) :
    openStore cfg fs = (.err .gap, fs.syncAll ids, syncEvs ids) := by
  obtain ⟨acc', hl, hfs, hevs⟩ := c09_missing_middle_chunk cfg b rest a' e hprev hne
  obtain ⟨hfs', hevs'⟩ := hload.fs_evs
  unfold openStore
  simp only [hids, hload.openLoop_append, hl, hfs, hevs, hfs', hevs', List.nil_append]

/-! ### Non-vacuity -/

/-- `commit (1,2)` with its last checksum byte replaced, after one good record:
`invalid` at that record. -/
example : parseChunk (encAll [.saveVote ⟨3, 4⟩] ++
      ((encRecord (.commit ⟨1, 2⟩)).take 27 ++ [0]))
    = ([(.saveVote ⟨3, 4⟩, 28)], .invalid, (encRecord (.commit ⟨1, 2⟩)).take 27 ++ [0]) := by
  decide +kernel

/-- Two chunks `0` and `100`; chunk `0` holds 28 + 28 bytes: `open` reports the
gap; chunk `0` was synced before (D15), nothing else changed. -/
example : openStore {} [{ id := 0, data := encAll [.state {}, .commit ⟨1, 2⟩] },
                        { id := 100, data := encAll [.state {}] }]
    = (.err .gap, [{ id := 0, data := encAll [.state {}, .commit ⟨1, 2⟩], durable := 46 },
                   { id := 100, data := encAll [.state {}] }], [.sync "o" 0 true]) := by
  decide +kernel

/-- An instance of the byte-alteration corollary: first tag byte of
`commit (1,2)` changed 0 ↦ 1. -/
example : (parseChunk (encAll [] ++
      (mutated (.commit ⟨1, 2⟩) [] (encTB (.commit ⟨1, 2⟩)).tail 1 ++ []))).1.map (·.1)
    ≠ [] ++ Record.commit ⟨1, 2⟩ :: [] :=
  (c09_chunk_byte_altered_not_original AllWF.nil (.commit ⟨1, 2⟩) [] _ 0 1
    (by decide) (by decide) [] []).1

end RaftLog
