/-
C10 — A torn or zero-filled tail of the newest chunk is cut at the end of the
last complete record (if `truncate` is configured) or reported, never
mis-parsed.

`encAll rs` is the concatenation of the encodings of `rs`; `AllWF rs` says every
record holds values the Rust types can hold. Helpers: `Proofs/Parse.lean`.
-/
import RaftLogModel.Proofs.Recover
namespace RaftLog

/-- Every record encoding is non-empty (at least 4 + 8 bytes), so the fuel
`data.length + 1` of `parseChunk` always suffices. -/
theorem c10_encRecord_length_pos (r : Record) : 12 ≤ (encRecord r).length :=
  encRecord_length_ge r

/-- (a) An undamaged file parses to exactly its records, cleanly. -/
theorem parse_encAll {rs : List Record} (h : AllWF rs) :
    parseChunk (encAll rs) = (rs.map (fun r => (r, (encRecord r).length)), .clean, []) :=
  parse_encAll' h

/-- (b) A file cut inside a record (`pfx` is a non-empty strict prefix of the
encoding of `r`) parses to the complete records before the cut and ends with
`eof` at the torn record. -/
theorem parse_cut {rs : List Record} {r : Record} {pfx : Bytes} (h : AllWF rs) (hr : r.WF)
    (hp : pfx ≠ [] ∧ ∃ t, t ≠ [] ∧ pfx ++ t = encRecord r) :
    parseChunk (encAll rs ++ pfx) = (rs.map (fun r => (r, (encRecord r).length)), .eof, pfx) :=
  parse_cut' h hr hp.1 hp.2

/-- (a)+(b): every cut position `k` of a file `encAll (rs ++ [r] ++ rest)` that
falls inside `r` (`k = |encAll rs| + j`, `0 < j < |encRecord r|`) yields the
complete records before `k`. (A cut at a record boundary is case (a).) -/
theorem parse_cut_at {rs rest : List Record} {r : Record} (h : AllWF rs) (hr : r.WF) (j : Nat)
    (h0 : 0 < j) (hj : j < (encRecord r).length) :
    parseChunk ((encAll (rs ++ [r] ++ rest)).take ((encAll rs).length + j)) =
      (rs.map (fun r => (r, (encRecord r).length)), .eof, (encRecord r).take j) := by
  have e : (encAll (rs ++ [r] ++ rest)).take ((encAll rs).length + j)
      = encAll rs ++ (encRecord r).take j := by
    rw [encAll_appendP, encAll_appendP, List.append_assoc]
    simp only [encAll_consP, encAll_nilP, List.append_nil]
    rw [List.take_length_add_append, List.take_append_of_le_length (Nat.le_of_lt hj)]
  rw [e]
  apply parse_cut h hr
  refine ⟨?_, (encRecord r).drop j, ?_, List.take_append_drop j _⟩
  · intro hn
    have := congrArg List.length hn
    simp only [List.length_take, List.length_nil] at this; omega
  · intro hn
    have := congrArg List.length hn
    simp only [List.length_drop, List.length_nil] at this; omega

/-- (c) A zero-filled tail of `m ≥ 1` bytes: the records before it are returned;
the iteration ends with `eof` if `m < 28` and with `invalid` if `m ≥ 28` (28 zero
bytes decode as tag 0 = `SaveVote`, a 16-byte log id and the stored checksum 0,
which is not the CRC-32 of 20 zero bytes). -/
theorem parse_zero_tail {rs : List Record} (h : AllWF rs) {m : Nat} (hm : 1 ≤ m) :
    parseChunk (encAll rs ++ List.replicate m 0) =
      (rs.map (fun r => (r, (encRecord r).length)),
        (if m < 28 then ParseEnd.eof else ParseEnd.invalid), List.replicate m 0) :=
  parse_zero_tail' h hm

theorem c10_crc32_zeros_ne_zero : crc32 (List.replicate 20 0) ≠ 0 := crc32_zeros20

/-- (d) `Chunk::open` on an undamaged file: all records, no truncation, for
both settings of `truncate`. -/
theorem c10_clean_open (cfg : Cfg) (id : Nat) {rs : List Record} (h : AllWF rs) :
    openChunk cfg id (encAll rs)
      = .ok ⟨rs, offsetsFrom id (rs.map (fun r => (encRecord r).length)), none⟩ := by
  rw [openChunk_of_parse (parse_encAll' h)]; rfl

/-- (d) `Chunk::open` on a file cut inside a record: with `truncate = true`
exactly the complete records are returned and the file is to be cut at the end
of the last complete record; with `truncate = false` the error is `eof`. -/
theorem c10_cut_truncate (cfg : Cfg) (id : Nat) {rs : List Record} {r : Record} {pfx : Bytes}
    (h : AllWF rs) (hr : r.WF) (hp : pfx ≠ [] ∧ ∃ t, t ≠ [] ∧ pfx ++ t = encRecord r) :
    openChunk cfg id (encAll rs ++ pfx) =
      if cfg.truncate then
        .ok ⟨rs, offsetsFrom id (rs.map (fun r => (encRecord r).length)), some (encAll rs).length⟩
      else .error .eof := by
  rw [openChunk_of_parse (parse_cut' h hr hp.1 hp.2)]; rfl

/-- (d) `Chunk::open` on a file with a zero-filled tail: with `truncate = true`
the records before the zeros are returned and the file is cut there; with
`truncate = false` the result is an error (`eof` for fewer than 28 zeros,
`invalid` otherwise), never `ok`. -/
theorem c10_zero_truncate (cfg : Cfg) (id : Nat) {rs : List Record} (h : AllWF rs) {m : Nat}
    (hm : 1 ≤ m) :
    openChunk cfg id (encAll rs ++ List.replicate m 0) =
      if cfg.truncate then
        .ok ⟨rs, offsetsFrom id (rs.map (fun r => (encRecord r).length)), some (encAll rs).length⟩
      else if m < 28 then .error .eof else .error .invalid := by
  rw [openChunk_of_parse (parse_zero_tail' h hm)]
  by_cases h28 : m < 28 <;> simp [h28, chunkResult, allZero_replicate]

/-! ### (e) Lifting to `RaftLog::open` -/

/-- (e), general form. The linked ids are `ids ++ [i]`; the chunks `ids` load
cleanly (`Loads`, see `Proofs/Recover.lean`); the newest file `i` starts where
they end and holds the well-formed records `rs ≠ []` followed by a torn tail
(`TornTail`: a non-empty strict prefix of a record encoding, or `m ≥ 1` zero
bytes); replaying `rs` succeeds with store `sm2`; `truncate` is configured and
no linked file is named `i + |encAll rs|`. Then `open` succeeds, cuts file `i`
to `|encAll rs|` bytes, creates a chunk with id `i + |encAll rs|` whose content
is the `State` record of the replayed state, and touches no other file except
that every chunk it keeps (`ids` and `i`) is synced once (D15: `syncEvs ids`, the
extra `sync "o" i true`, and `fs.syncAll ids` in the frame condition). -/
theorem c10_open_truncates_and_creates (cfg : Cfg) (fs : Fs) (ids : List Nat) (i : Nat)
    (a' : OpenAcc) (f : File) (rs : List Record) (tail : Bytes) (sm2 : Store)
    (ht : cfg.truncate = true)
    (hids : fs.linkedIds = ids ++ [i])
    (hload : Loads cfg ids { sm := emptyStore cfg, fs := fs } a')
    (habut : gapCheck a' i = false)
    (hfind : fs.find i = some f) (hd : f.data = encAll rs ++ tail)
    (hwf : AllWF rs) (hne : rs ≠ []) (htail : TornTail tail)
    (hr : replay i rs (offsetsFrom i (rs.map (fun r => (encRecord r).length))) a'.pre.sm = .ok sm2)
    (hfree : fs.has (i + (encAll rs).length) = false) :
    ∃ s w fs',
      openStore cfg fs = (.ok (s, w), fs',
        syncEvs ids ++ [.trunc "o" i (encAll rs).length, .sync "o" i true, .sync "o" i true,
         .create "o" (i + (encAll rs).length) true,
         .write "o" (i + (encAll rs).length) (encRecord (.state sm2.st)) true]) ∧
      s.st = sm2.st ∧
      s.openOffsets = [i + (encAll rs).length,
        i + (encAll rs).length + (encRecord (.state sm2.st)).length] ∧
      w.files = [⟨i + (encAll rs).length, sm2.st.last⟩] ∧
      fs'.find i = some { f with data := encAll rs, durable := (encAll rs).length } ∧
      fs'.find (i + (encAll rs).length)
        = some { id := i + (encAll rs).length, data := encRecord (.state sm2.st), durable := 0,
                 linked := true } ∧
      ∀ id, id ≠ i → id ≠ i + (encAll rs).length → fs'.find id = (fs.syncAll ids).find id := by
  obtain ⟨hfs, hevs⟩ := hload.fs_evs
  have hfs' : a'.fs = fs.syncAll ids := hfs
  have hevs' : a'.evs = syncEvs ids := by rw [hevs]; rfl
  obtain ⟨f1, hfind1, hd1, hid1, hlk1⟩ : ∃ f1, (fs.syncAll ids).find i = some f1 ∧
      f1.data = f.data ∧ f1.id = f.id ∧ f1.linked = f.linked := by
    rw [Fs.find_syncAll, hfind]
    by_cases hc : ids.contains f.id = true
    · exact ⟨{ f with durable := f.data.length }, by simp only [Option.map_some, if_pos hc],
        rfl, rfl, rfl⟩
    · exact ⟨f, by simp only [Option.map_some, if_neg hc], rfl, rfl, rfl⟩
  have hfind' : a'.fs.find i = some f1 := by rw [hfs']; exact hfind1
  have hl := openLoop_torn_last ht habut hfind' (hd1.trans hd) hwf hne htail hr
  have hloop : openLoop cfg fs.linkedIds { sm := emptyStore cfg, fs := fs }
      = (.ok (a'.loadedTrunc i rs sm2), a'.loadedTrunc i rs sm2) := by
    rw [hids, hload.openLoop_append, hl]
  have hlen := encAll_length_pos hne
  have hprev : (a'.loadedTrunc i rs sm2).prevEnd.getD 0 = i + (encAll rs).length := by
    simp only [OpenAcc.loadedTrunc, lastOff_sized, Option.getD_some]
  have hafs : (a'.loadedTrunc i rs sm2).fs
      = (((fs.syncAll ids).truncate i (encAll rs).length).sync i) := by
    simp only [OpenAcc.loadedTrunc, OpenAcc.synced, OpenAcc.afterTrunc, OpenAcc.pre, hfs']
  have hhas : (a'.loadedTrunc i rs sm2).fs.has (i + (encAll rs).length) = false := by
    rw [hafs, Fs.has_sync, Fs.has_truncate, Fs.has_syncAll]; exact hfree
  have hst := openStore_fresh hloop (Or.inl rfl) hprev hhas
  have hev : (a'.loadedTrunc i rs sm2).evs
      = syncEvs ids ++ [.trunc "o" i (encAll rs).length, .sync "o" i true, .sync "o" i true] := by
    simp only [OpenAcc.loadedTrunc, OpenAcc.synced, OpenAcc.afterTrunc, OpenAcc.pre, hevs',
      List.append_assoc, List.cons_append, List.nil_append]
  have hcl : prevLastOf (a'.loadedTrunc i rs sm2).sm.closed = sm2.st.last :=
    prevLastOf_concat _ _
  have hsm : (a'.loadedTrunc i rs sm2).sm.st = sm2.st := rfl
  rw [hev, hcl, hsm, hafs] at hst
  obtain ⟨hnew, hother⟩ := find_create_write
    (((fs.syncAll ids).truncate i (encAll rs).length).sync i)
    (i + (encAll rs).length) (encRecord (.state sm2.st))
  simp only [List.append_assoc, List.cons_append, List.nil_append] at hst
  refine ⟨_, _, _, hst, rfl, rfl, rfl, ?_, hnew, ?_⟩
  · rw [hother i (by omega), Fs.find_sync, Fs.find_truncate, hfind1]
    have hid : (f1.id == i) = true := by rw [find_id hfind1]; exact beq_self_eq_true i
    simp only [Option.map_some, hid, if_true]
    simp only [hd1, hd, List.take_left' rfl, hid1, hlk1]
  · intro id h1 h2
    rw [hother id h2, Fs.find_sync, Fs.find_truncate]
    cases hf : (fs.syncAll ids).find id with
    | none => rfl
    | some g =>
      have : (g.id == i) = false := by rw [find_id hf]; exact beq_false_of_ne h1
      simp only [Option.map_some, this, Bool.false_eq_true, if_false]

/-- (e) for a single-chunk directory with arbitrary records `rs ≠ []`: the
directory after `open` is given explicitly. -/
theorem c10_open_single_chunk' (cfg : Cfg) (i d : Nat) (rs : List Record)
    (tail : Bytes) (sm2 : Store) (ht : cfg.truncate = true)
    (hwf : AllWF rs) (hne : rs ≠ []) (htail : TornTail tail)
    (hr : replay i rs (offsetsFrom i (rs.map (fun r => (encRecord r).length)))
      (emptyStore cfg) = .ok sm2) :
    ∃ s w,
      openStore cfg [{ id := i, data := encAll rs ++ tail, durable := d, linked := true }] =
        (.ok (s, w),
          [{ id := i, data := encAll rs, durable := (encAll rs).length, linked := true },
           { id := i + (encAll rs).length, data := encRecord (.state sm2.st),
             durable := 0, linked := true }],
          [.trunc "o" i (encAll rs).length, .sync "o" i true, .sync "o" i true,
           .create "o" (i + (encAll rs).length) true,
           .write "o" (i + (encAll rs).length) (encRecord (.state sm2.st)) true]) ∧
      s.st = sm2.st ∧
      s.openOffsets = [i + (encAll rs).length,
        i + (encAll rs).length + (encRecord (.state sm2.st)).length] ∧
      w.files = [⟨i + (encAll rs).length, sm2.st.last⟩] := by
  have hlen := encAll_length_pos hne
  generalize hL : encAll rs = L at *
  let f : File := { id := i, data := L ++ tail, durable := d, linked := true }
  have hids : Fs.linkedIds [f] = [i] := by simp [Fs.linkedIds, f, insertNat]
  have hfind : Fs.find [f] i = some f := by simp [Fs.find, f]
  have hne' : (i == i + L.length) = false := by apply beq_false_of_ne; omega
  have hl := openLoop_torn_last (cfg := cfg) (a := { sm := emptyStore cfg, fs := [f] }) ht rfl
    hfind (by rw [hL]) hwf hne htail hr
  have hloop : openLoop cfg (Fs.linkedIds [f]) { sm := emptyStore cfg, fs := [f] }
      = (.ok (OpenAcc.loadedTrunc { sm := emptyStore cfg, fs := [f] } i rs sm2),
          OpenAcc.loadedTrunc { sm := emptyStore cfg, fs := [f] } i rs sm2) := by
    rw [hids]; exact hl
  have hprev : (OpenAcc.loadedTrunc { sm := emptyStore cfg, fs := [f] } i rs sm2).prevEnd.getD 0
      = i + L.length := by
    simp only [OpenAcc.loadedTrunc, lastOff_sized, Option.getD_some, hL]
  have hafs : (OpenAcc.loadedTrunc { sm := emptyStore cfg, fs := [f] } i rs sm2).fs
      = [{ id := i, data := L, durable := L.length, linked := true }] := by
    simp [OpenAcc.loadedTrunc, OpenAcc.synced, OpenAcc.afterTrunc, OpenAcc.pre, Fs.truncate,
      Fs.sync, Fs.update, f, hL]
  have hhas : (OpenAcc.loadedTrunc { sm := emptyStore cfg, fs := [f] } i rs sm2).fs.has
      (i + L.length) = false := by
    rw [hafs]; simp [Fs.has, Fs.find, hne']
  have hst := openStore_fresh hloop (Or.inl rfl) hprev hhas
  have hev : (OpenAcc.loadedTrunc { sm := emptyStore cfg, fs := [f] } i rs sm2).evs
      = [.trunc "o" i L.length, .sync "o" i true, .sync "o" i true] := by
    simp only [OpenAcc.loadedTrunc, OpenAcc.synced, OpenAcc.afterTrunc, OpenAcc.pre,
      List.nil_append, List.cons_append, hL]
  have hcl : prevLastOf (OpenAcc.loadedTrunc { sm := emptyStore cfg, fs := [f] } i rs sm2).sm.closed
      = sm2.st.last := prevLastOf_concat _ _
  have hsm : (OpenAcc.loadedTrunc { sm := emptyStore cfg, fs := [f] } i rs sm2).sm.st = sm2.st :=
    rfl
  rw [hev, hcl, hsm, hafs] at hst
  have hfin : (Fs.create [{ id := i, data := L, durable := L.length, linked := true }]
      (i + L.length)).write (i + L.length) (encRecord (.state sm2.st))
      = [{ id := i, data := L, durable := L.length, linked := true },
         { id := i + L.length, data := encRecord (.state sm2.st), durable := 0, linked := true }] := by
    have hne'' : (i != i + L.length) = true := by simp [bne, hne']
    have hLne : L ≠ [] := by intro h; rw [h] at hlen; simp at hlen
    simp [Fs.create, Fs.write, Fs.update, hne'', hLne]
  rw [hfin] at hst
  exact ⟨_, _, hst, rfl, rfl, rfl⟩

/-- (e) as asked: the single file holds `encAll (state st0 :: rs) ++ tail` with
a torn tail; replaying the records from the empty store succeeds with `sm2`.
`open` returns ok, the file is cut to `|encAll (state st0 :: rs)|` bytes and a
new chunk with id `i + ` that length is created, whose content is the `State`
record of the replayed state. -/
theorem c10_open_single_chunk (cfg : Cfg) (i d : Nat) (st0 : RState) (rs : List Record)
    (tail : Bytes) (sm2 : Store) (ht : cfg.truncate = true)
    (hwf : AllWF (Record.state st0 :: rs)) (htail : TornTail tail)
    (hr : replay i (Record.state st0 :: rs)
      (offsetsFrom i ((Record.state st0 :: rs).map (fun r => (encRecord r).length)))
      (emptyStore cfg) = .ok sm2) :
    ∃ s w,
      openStore cfg [{ id := i, data := encAll (Record.state st0 :: rs) ++ tail, durable := d,
                       linked := true }] =
        (.ok (s, w),
          [{ id := i, data := encAll (Record.state st0 :: rs),
             durable := (encAll (Record.state st0 :: rs)).length, linked := true },
           { id := i + (encAll (Record.state st0 :: rs)).length,
             data := encRecord (.state sm2.st), durable := 0, linked := true }],
          [.trunc "o" i (encAll (Record.state st0 :: rs)).length, .sync "o" i true,
           .sync "o" i true,
           .create "o" (i + (encAll (Record.state st0 :: rs)).length) true,
           .write "o" (i + (encAll (Record.state st0 :: rs)).length)
             (encRecord (.state sm2.st)) true]) ∧
      s.st = sm2.st ∧
      s.openOffsets = [i + (encAll (Record.state st0 :: rs)).length,
        i + (encAll (Record.state st0 :: rs)).length + (encRecord (.state sm2.st)).length] ∧
      w.files = [⟨i + (encAll (Record.state st0 :: rs)).length, sm2.st.last⟩] :=
  c10_open_single_chunk' cfg i d (Record.state st0 :: rs) tail sm2 ht hwf (by simp) htail hr

/-! ### Non-vacuity (concrete bytes) -/

/-- `commit (1,2)` then `saveVote (3,4)`; the second record cut after 5 bytes. -/
example : parseChunk (encAll [.commit ⟨1, 2⟩] ++ (encRecord (.saveVote ⟨3, 4⟩)).take 5)
    = ([(.commit ⟨1, 2⟩, 28)], .eof, [0, 0, 0, 0, 0]) := by decide +kernel

example : (openChunk {} 7 (encAll [.commit ⟨1, 2⟩] ++ List.replicate 30 0)).toOption.map
    (fun oc => (oc.records, oc.offsets, oc.truncatedTo))
    = some ([.commit ⟨1, 2⟩], [7, 35], some 28) := by decide +kernel

/-- (e) on concrete bytes: head `State` record, a `commit`, then a `saveVote`
torn after 5 bytes. `open` cuts the file to 46 bytes and creates chunk 7 + 46. -/
example : (openStore {} [{ id := 7, data := encAll [.state {}, .commit ⟨1, 2⟩]
                            ++ (encRecord (.saveVote ⟨3, 4⟩)).take 5 }]).2.1
    = [{ id := 7, data := encAll [.state {}, .commit ⟨1, 2⟩], durable := 46 },
       { id := 53, data := encRecord (.state { committed := some ⟨1, 2⟩ }) }] := by
  decide +kernel

/-- The replay hypothesis of `c10_open_single_chunk` is satisfiable (same
directory). -/
example : (replay 7 [.state {}, .commit ⟨1, 2⟩]
    (offsetsFrom 7 ([Record.state {}, .commit ⟨1, 2⟩].map (fun r => (encRecord r).length)))
    (emptyStore {})).isOk = true := by decide +kernel

end RaftLog
