/-
C09 (checksum part) — a one-byte corruption of a record is detected.

`encRecord r = encTB r ++ natToBE 8 (crc32 (encTB r))` where `encTB r` is
`tag ‖ body`. The CRC-32 register update is a bijection for every input bit
(`uncrcBit` is the explicit inverse of `crcBit`), so substituting one byte
anywhere in a message changes its CRC-32. Hence a frame whose `tag ‖ body` part
differs from a real record's in exactly one byte, with the stored checksum
kept, is not the encoding of any record, and `decRecord` cannot accept it as a
record of the same extent.

All proofs are kernel-checked bit-level arguments (no SAT/native evaluation):
the only axioms used are `propext`, `Quot.sound` and (in (d), via `omega`)
`Classical.choice`; see Audit/C09Crc.lean.
-/
import RaftLogModel.Proofs.Crc
namespace RaftLog

/-- (a) The bit step of the CRC register is a bijection of `BitVec 32`, with
explicit inverse `uncrcBit`. -/
theorem c09_crcBit_bijective :
    (∀ c, uncrcBit (crcBit c) = c) ∧ (∀ d, crcBit (uncrcBit d) = d) ∧
    (∀ a b, crcBit a = crcBit b → a = b) :=
  ⟨uncrcBit_crcBit, crcBit_uncrcBit, crcBit_injective⟩

/-- (b) The byte step is injective in the register and in the byte. -/
theorem c09_crcByte_injective :
    (∀ (a b : BitVec 32) (x : UInt8), crcByte a x = crcByte b x → a = b) ∧
    (∀ (c : BitVec 32) (x y : UInt8), crcByte c x = crcByte c y → x = y) :=
  ⟨fun _ _ _ h => crcByte_injective_left h, fun _ _ _ h => crcByte_injective_right h⟩

/-- (c) Any one-byte substitution anywhere in a message changes its CRC-32. -/
theorem c09_crc32_single_byte (pre post : Bytes) (x y : UInt8) (hxy : x ≠ y) :
    crc32 (pre ++ x :: post) ≠ crc32 (pre ++ y :: post) :=
  crc32_single_byte pre post x y hxy

/-- (d) Replace exactly one byte of the `tag ‖ body` part of `encRecord r` by a
different value and keep the 8 checksum bytes: the result is not the encoding
of ANY record. (Holds for every `r`; `Record.WF r` is not needed.) -/
theorem c09_body_byte_detected (r : Record) (pre post : Bytes) (x y : UInt8)
    (hsplit : encTB r = pre ++ x :: post) (hxy : x ≠ y) :
    ∀ r', encRecord r' ≠ (pre ++ y :: post) ++ natToBE 8 (crc32 (encTB r)) := by
  intro r' h
  obtain ⟨_, hsum⟩ := encRecord_eq_split (natToBE_length 8 _) h
  have hc := natToBE_injective 8 (crc32_lt _) (crc32_lt _) hsum
  rw [hsplit] at hc
  exact crc32_single_byte pre post x y hxy hc

/-- The mutated frame really is `encRecord r` with one byte replaced. -/
theorem c09_mutated_shape (r : Record) (pre post : Bytes) (x : UInt8)
    (hsplit : encTB r = pre ++ x :: post) :
    encRecord r = (pre ++ x :: post) ++ natToBE 8 (crc32 (encTB r)) := by
  rw [encRecord_eq, hsplit]

/-- Decoder corollary: on the mutated frame followed by any `rest`, `decRecord`
never returns a record that consumes exactly the frame (same extent as the
original record). It may report `eof`/`invalid`, or - only if the mutation hit a
length/tag/option byte so that the decoder reads a body of a *different*
extent - decode a record of another length; that last case is outside what a
checksum over the consumed bytes can exclude. -/
theorem c09_body_byte_decode_rejected (r : Record) (pre post : Bytes) (x y : UInt8)
    (hsplit : encTB r = pre ++ x :: post) (hxy : x ≠ y) (rest : Bytes) :
    ∀ r', decRecord ((pre ++ y :: post) ++ natToBE 8 (crc32 (encTB r)) ++ rest)
      ≠ .ok r' rest := by
  intro r' h
  have hc := (record_canon h).1
  exact c09_body_byte_detected r pre post x y hsplit hxy r' (List.append_cancel_right hc).symm

/-- Same, phrased on consumption: if the mutated input decodes at all, the
decoder consumed a different number of bytes than the original record has. -/
theorem c09_body_byte_decode_extent (r : Record) (pre post : Bytes) (x y : UInt8)
    (hsplit : encTB r = pre ++ x :: post) (hxy : x ≠ y) (rest rest' : Bytes) (r' : Record)
    (h : decRecord ((pre ++ y :: post) ++ natToBE 8 (crc32 (encTB r)) ++ rest) = .ok r' rest') :
    rest'.length ≠ rest.length := by
  intro hl
  have hc := (record_canon h).1
  obtain ⟨h1, h2⟩ := List.append_inj' hc hl.symm
  subst h2
  exact c09_body_byte_decode_rejected r pre post x y hsplit hxy rest r' h

/-- Companion: keep `tag ‖ body`, replace the 8 checksum bytes by any other 8
bytes: not the encoding of any record either. -/
theorem c09_sum_bytes_detected (r : Record) (sum : Bytes) (hlen : sum.length = 8)
    (hne : sum ≠ natToBE 8 (crc32 (encTB r))) :
    ∀ r', encRecord r' ≠ encTB r ++ sum := by
  intro r' h
  exact hne (encRecord_eq_split hlen h).2

/-! ### Non-vacuity -/

/-- The reference check value of CRC-32 ("123456789" ↦ 0xCBF43926): the model
computes the standard function. -/
theorem c09_crc32_check_value :
    crc32 [0x31, 0x32, 0x33, 0x34, 0x35, 0x36, 0x37, 0x38, 0x39] = 0xCBF43926 := by
  decide +kernel

/-- A concrete instance of (d): `commit (1,2)`, first tag byte 0 ↦ 1. -/
example : ∀ r', encRecord r' ≠
    ([] ++ 1 :: (encTB (.commit ⟨1, 2⟩)).tail) ++ natToBE 8 (crc32 (encTB (.commit ⟨1, 2⟩))) :=
  c09_body_byte_detected (.commit ⟨1, 2⟩) [] (encTB (.commit ⟨1, 2⟩)).tail 0 1
    (by decide) (by decide)

/-- ... and the decoder indeed rejects that frame. -/
example : ∀ r', decRecord
    (([] ++ 1 :: (encTB (.commit ⟨1, 2⟩)).tail) ++ natToBE 8 (crc32 (encTB (.commit ⟨1, 2⟩))) ++ [])
      ≠ .ok r' [] :=
  c09_body_byte_decode_rejected (.commit ⟨1, 2⟩) [] (encTB (.commit ⟨1, 2⟩)).tail 0 1
    (by decide) (by decide) []

end RaftLog
