import RaftLogModel.Props.C06
import RaftLogModel.Props.C06Sys
