/-
C08 — Chunk files are unlinked only after a successful sync, oldest first.

Worker side: an `unlink` is performed only at the park point `unlinking`, which
is entered only when `lastSyncFailed = false`; that flag is cleared only by a
successful `fdatasync` of the newest file, which (by `Worker.WF`) is reached
only after every older file of the list was synced and removed from it.
Removal requests that arrive while the flag is set are postponed, in request
order, and unlinked in that order — in front of the trailing request's ids, if
any — right after the next batch whose sync succeeds (the postponed removal is
retried after every batch, also when no removal request follows it).
Store side: `popObsolete` pops exactly a prefix of the closed chunks.

Quantification: every worker context with `c.w.WF`, every outcome.
-/
import RaftLogModel.Proofs.WorkerCaller
namespace RaftLog

/-! ### (e) Unlink only after a good sync -/

theorem mem_step_evs_unlink {c : WCtx} {out : Outcome} {th : String} {i : Nat} {ok : Bool}
    (h : Ev.unlink th i ok ∈ (c.step out).evs) :
    Ev.unlink th i ok ∈ c.evs ∨ Ev.unlink th i ok ∈ stepSys c out := by
  obtain ⟨cbs, rest, h1, h2, _⟩ := c.step_evs out
  rw [h1] at h
  simp only [List.mem_append] at h
  rcases h with ((h | h) | h) | h
  · exact .inl h
  · exact .inr h
  · simp [cbEvs] at h
  · have := h2 _ h; cases this

theorem mem_stepSys_unlink {c : WCtx} {out : Outcome} {th : String} {i : Nat} {ok : Bool}
    (h : Ev.unlink th i ok ∈ stepSys c out) :
    ∃ rest, c.w.pc = .unlinking (i :: rest) ∧ th = "w" ∧ ok = (out != .eio) := by
  have h1 : (i, ok) ∈ unlinksOf (stepSys c out) := mem_unlinksOf.mpr ⟨th, h⟩
  rw [unlinksOf_stepSys] at h1
  unfold stepUnlinks at h1
  split at h1
  · rename_i j rest hpc
    simp only [List.mem_singleton, Prod.mk.injEq] at h1
    obtain ⟨rfl, rfl⟩ := h1
    refine ⟨rest, hpc, ?_, rfl⟩
    simp only [stepSys, hpc, List.mem_singleton, Ev.unlink.injEq] at h
    exact h.1
  · cases h1

/-- (e) A step unlinks a file only when the worker is parked at
`unlinking (i :: _)`, and then `lastSyncFailed = false`: the last sync of the
whole file list succeeded. Being parked there at all implies the same. -/
theorem c08_unlink_only_after_good_sync (c : WCtx) (out : Outcome) (hw : c.w.WF) :
    (∀ th i ok, Ev.unlink th i ok ∈ (c.step out).evs → Ev.unlink th i ok ∉ c.evs →
      ∃ rest, c.w.pc = .unlinking (i :: rest) ∧ th = "w" ∧ ok = (out != .eio) ∧
        c.w.lastSyncFailed = false) ∧
    (∀ ids, c.w.pc = .unlinking ids → c.w.lastSyncFailed = false) := by
  have h2 : ∀ ids, c.w.pc = .unlinking ids → c.w.lastSyncFailed = false := by
    intro ids hpc
    simp only [Worker.WF, hpc] at hw
    exact hw.2
  refine ⟨?_, h2⟩
  intro th i ok h hnew
  rcases mem_step_evs_unlink h with h | h
  · exact absurd h hnew
  · obtain ⟨rest, hpc, h3, h4⟩ := mem_stepSys_unlink h
    exact ⟨rest, hpc, h3, h4, h2 _ hpc⟩

/-- (e) The park point `unlinking ids` is entered only (1) from `unlinking
(i :: ids)` after a successful unlink of `i`, (2) from `got (removeChunks ids0)`
with `lastSyncFailed = false`, or (3) from the successful sync of the newest
file, whatever the trailing request `t` of the batch is (a removal postponed by
a failed sync is retried after every batch): `ids = postponed ++ tailIds t`,
where `tailIds t` are the ids of a trailing `removeChunks` request and `[]`
otherwise; in (2) `ids = postponed ++ ids0`. In every case
`lastSyncFailed = false` afterwards. -/
theorem c08_removal_starts_only_after_good_sync (c : WCtx) (out : Outcome) (hw : c.w.WF)
    (ids : List Nat) (h : (c.step out).w.pc = .unlinking ids) :
    (c.step out).w.lastSyncFailed = false ∧
    ((∃ i, c.w.pc = .unlinking (i :: ids) ∧ out ≠ .eio) ∨
     (∃ ids0, c.w.pc = .got (.removeChunks ids0) ∧ c.w.lastSyncFailed = false ∧
        ids = c.w.postponed ++ ids0) ∨
     (∃ b t, c.w.pc = .syncNew b t ∧ out ≠ .eio ∧ ids = c.w.postponed ++ tailIds t)) := by
  refine ⟨?_, (c.step_removal out hw).enter ids h⟩
  have := c.step_wf out hw
  simp only [Worker.WF, h] at this
  exact this.2

/-- (e) `lastSyncFailed` changes only at a sync step: `eio` sets it; only a
non-`eio` sync of the newest file (park point `syncNew`, where by `Worker.WF`
it is the only file left, every older one having been synced by a `syncOld`
step and only then removed from the list) clears it. -/
theorem c08_lastSyncFailed (c : WCtx) (out : Outcome) (hw : c.w.WF) :
    (c.step out).w.lastSyncFailed =
      (match c.w.pc with
       | .syncNew _ _ => out == .eio
       | .syncOld _ _ => if out = .eio then true else c.w.lastSyncFailed
       | _ => c.w.lastSyncFailed) ∧
    (∀ b t, c.w.pc = .syncNew b t → ∃ f, c.w.files = [f]) ∧
    (∀ b t, c.w.pc = .syncOld b t → ∃ f g rest, c.w.files = f :: g :: rest ∧
      (out ≠ .eio → (c.step out).w.files = g :: rest ∧ (c.step out).fs = c.fs.sync f.id) ∧
      (out = .eio → f ∈ (c.step out).w.files)) := by
  refine ⟨c.step_lsf out hw, ?_, ?_⟩
  · intro b t hpc
    simp only [Worker.WF, hpc] at hw
    match hf : c.w.files, hw with
    | [f], _ => exact ⟨f, rfl⟩
  · intro b t hpc
    have hw' := hw
    simp only [Worker.WF, hpc] at hw'
    match hf : c.w.files, hw' with
    | f :: g :: rest, _ =>
      refine ⟨f, g, rest, rfl, ?_, ?_⟩
      · intro ho
        have : c.step out = ((c.setFiles (g :: rest)).synced f.id).startSync b t := by
          cases out with
          | eio => exact absurd rfl ho
          | ok => simp [WCtx.step, hpc, hf, WCtx.synced, WCtx.setFiles]
          | short k => simp [WCtx.step, hpc, hf, WCtx.synced, WCtx.setFiles]
        rw [this]
        obtain ⟨pc, h1, _⟩ := WCtx.startSync_frame ((c.setFiles (g :: rest)).synced f.id) b t (by simp)
        rw [h1]; simp
      · intro ho
        subst ho
        have : c.step .eio = (c.emit (.sync "w" f.id false)).finishBatch b t false := by
          simp [WCtx.step, hpc, hf]
        rw [this]; simp [hf]

/-! ### (f) Order -/

/-- (f) Once a removal has started, the ids are unlinked in list order. -/
theorem c08_unlink_in_list_order (c : WCtx) (ids : List Nat) (outs : List Outcome)
    (hpc : c.w.pc = .unlinking ids) (hlen : outs.length = ids.length) (hok : ∀ o ∈ outs, o ≠ .eio) :
    unlinksOf (c.runOuts outs).evs = unlinksOf c.evs ++ ids.map fun i => (i, true) :=
  c.runOuts_unlinking ids outs hpc hlen hok

/-- (f) Postponed ids accumulate in request order: a step leaves `postponed`
alone, or appends the ids of the removal it executes (sync failed before), or
starts the removal of `postponed ++ ids` and clears it. The step executes a
removal of `ids` (`WPc.removes`) when it handles a `removeChunks ids` request
(`got`) or ends a batch (`syncOld` / `syncNew`; then `ids` are those of the
trailing request, `[]` when that is not a removal). -/
theorem c08_postponed_in_request_order (c : WCtx) (out : Outcome) (hw : c.w.WF) :
    (c.step out).w.postponed = c.w.postponed ∨
    (∃ ids, c.w.pc.removes ids ∧ (c.step out).w.lastSyncFailed = true ∧
      (c.step out).w.postponed = c.w.postponed ++ ids) ∨
    (∃ ids, c.w.pc.removes ids ∧
      (c.step out).w.pc = .unlinking (c.w.postponed ++ ids) ∧ (c.step out).w.postponed = []) :=
  (c.step_removal out hw).postponed

/-- (f) Store side: `popObsolete upto` pops exactly a prefix of the closed
chunks: those whose closing `last` is at or below `upto`, up to the first one
above it. -/
theorem c08_popObsolete_prefix (upto : LogId) (l : List Closed) :
    ∃ k, (popObsolete upto l).1 = (l.take k).map Closed.id ∧ (popObsolete upto l).2 = l.drop k ∧
      (∀ c ∈ l.take k, optLt (some upto) c.state.last = false) ∧
      (∀ c, (l.drop k).head? = some c → optLt (some upto) c.state.last = true) :=
  popObsolete_spec upto l

/-! ### Non-vacuity -/

/-- A removal request behind a failed sync, a second one behind a good sync. -/
def c08Demo : WCtx :=
  { w := { files := [⟨8, none⟩],
           pc := .syncNew [.write 9 [1] none] (some (.removeChunks [0, 2])),
           queue := [.write 9 [] none, .removeChunks [4]] },
    fs := [{ id := 0 }, { id := 2 }, { id := 4 }, { id := 8, data := [1] }],
    cache := { maxItems := 4, capacity := 100 } }

example : c08Demo.w.WF := by decide

/-- Sync fails: the removal is postponed, nothing is unlinked. -/
example : (c08Demo.step .eio).w.postponed = [0, 2] ∧ (c08Demo.step .eio).w.lastSyncFailed = true ∧
    unlinksOf (c08Demo.step .eio).evs = [] := by decide

/-- The next batch syncs fine: the removal starts with the postponed ids first
and runs oldest first. -/
example : ((c08Demo.step .eio).runOuts [.ok, .ok]).w.pc = .unlinking [0, 2, 4] ∧
    unlinksOf ((c08Demo.step .eio).runOuts [.ok, .ok, .ok, .ok, .ok]).evs = [(0, true), (2, true), (4, true)] ∧
    (((c08Demo.step .eio).runOuts [.ok, .ok, .ok, .ok, .ok]).fs.map fun f => (f.id, f.linked)) =
      [(0, false), (2, false), (4, false), (8, true)] := by decide

/-- The retried removal: the same failed sync, but the next batch is followed by no removal
request at all. Its good sync still starts the removal of the postponed ids. -/
def c08DemoRetry : WCtx := { c08Demo with w := { c08Demo.w with queue := [.write 9 [] none] } }

example : c08DemoRetry.w.WF := by decide

example : (c08DemoRetry.step .eio).w.postponed = [0, 2] ∧
    ((c08DemoRetry.step .eio).runOuts [.ok, .ok]).w.pc = .unlinking [0, 2] ∧
    ((c08DemoRetry.step .eio).runOuts [.ok, .ok]).w.postponed = [] ∧
    unlinksOf ((c08DemoRetry.step .eio).runOuts [.ok, .ok, .ok, .ok]).evs = [(0, true), (2, true)] ∧
    ((c08DemoRetry.step .eio).runOuts [.ok, .ok, .ok, .ok]).w.pc = .idle := by decide

end RaftLog
