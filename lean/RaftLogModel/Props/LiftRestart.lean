/-
LIFT — the history theorems of C15, C08, C04 and C11 for systems reached through CLEAN
RESTARTS and CRASH RECOVERY, in any order.

Most property theorems are stated for histories from `Sys.fresh cfg`. Here they are restated
from the crash invariant `CrashInvC5b y r W A E K` of `Props/C05Crash.lean` (history and
durability invariant `HSys`, ghost invariant `GSysC3b`, small journals, payload mirroring),
which

* holds for a freshly opened store (`c05_crashInv_fresh`),
* is kept by every legal history (`c05_crashInv_history`),
* holds again for the system `open` builds on a crash image without torn predecessor
  (`c05_crashInv_recovered`), and — NEW, the threading lemma —
* holds again, for the SAME reference log, write history, acknowledged and tracked position,
  after a CLEAN RESTART (drop + open with any configuration) of a clean system:
  `lift_crashInv_clean_restart` (`crashInv_clean_restart_LIFT`).

So every theorem stated from `CrashInvC5b` holds for arbitrary mixtures of histories, clean
restarts and crash recoveries: `ReachLIFT`, `lift_reach_invariant`.

**D15 (`lift_restart_syncs_old_chunks`).** Before D15, `Sys.Clean` alone was NOT enough for
the threading lemma: if the `fdatasync` of an OLDER chunk file failed (the worker keeps that
file in its list and goes back to `recv`: the system is clean), drop + open built a worker
that tracks only the newest file and the older file was never synced again. Now `open` syncs
every chunk file it keeps, so after drop + open every linked file is durable to its end, the
restarted system is `SysCovered`, and the restart statements need no hypothesis besides
`Sys.Clean`. `Sys.OldSyncedLIFT` (every linked file with bytes not known durable is the open
chunk's file) is still reported for recovered and restarted systems.

Contents.
* (0) `lift_crashInv_clean_restart`, `LiftInv` (crash invariant ∧ `SysPostD14` ∧ `SysCacheInv`)
  and its closure properties `lift_inv_fresh/history/restart/recovered`.
* (1) C15: `c15_accounting_exact_after_recovery`, `c15_accounting_exact_after_recovery_history`
  (+ `_of_crashInv` forms), `c15_append_only_pinned_after_recovery`.
* (2) C08: `c08_gap_free_suffix_of_crashInv`, `c08_unlinks_oldest_first_of_crashInv`,
  `c08_index_entries_in_linked_chunks_of_crashInv`,
  `c08_unlink_only_after_purge_durable_of_crashInv`, `c08_flushed_idle_gone_of_crashInv`,
  `c08_clean_files_are_live_chunks_of_crashInv`, `c08_restarted_files_are_live_chunks`,
  `c08_recovered_files_are_live_chunks`.
* (3) C04: `c04_positive_callback_means_durable_of_crashInv`.
* (4) C11: `ReachLIFT`, `lift_reach_invariant`, `c11_journal_invariant_reach`; corollaries
  `c15_accounting_exact_reach`, `c08_flushed_idle_gone_reach`,
  `c04_positive_callback_means_durable_reach`.
* (5) non-vacuity examples on `c05Example` / `c05Recovered` / `c05Round2`.
-/
import RaftLogModel.Proofs.LiftRestartInv
import RaftLogModel.Proofs.LiftRestartC04
import RaftLogModel.Proofs.LiftRestartRef
import RaftLogModel.Props.C15Call
namespace RaftLog

/-! ### (0) The crash invariant through a clean restart -/

/-- What `Sys.OldSyncedLIFT` says. -/
theorem lift_oldSynced_spec (y : Sys) : y.OldSyncedLIFT ↔
    ∀ s, y.store = some s → ∀ f ∈ y.fs, f.durable < f.data.length → f.linked = true →
      f.id = s.openId := Iff.rfl

/-- **The threading lemma.** `y` satisfies the crash invariant, is clean (worker blocked on
an empty queue, nothing pending, nothing to remove in store or worker); D15: nothing is
assumed about its older chunk files (`open` syncs them). Then drop + open with ANY configuration `cfg'` (also
`truncate = false`, any chunk and cache limits) yields a system that satisfies the crash
invariant AGAIN — for the same reference log `r`, the same write history `W`, the same
acknowledged position `A` and the same tracked position `(E, K)`. -/
theorem lift_crashInv_clean_restart {y : Sys} {r : RefLog} {W : List Op} {A E K : Nat}
    (h : CrashInvC5b y r W A E K) (hc : y.Clean) (cfg' : Cfg) :
    CrashInvC5b ((y.step .drop).step (.openWith cfg')) r W A E K :=
  crashInv_clean_restart_LIFT h hc cfg'

/-- `OldSyncedLIFT` holds when the clean worker's file list has one entry (D15: no longer
needed by the restart theorems). -/
theorem lift_oldSynced_of_single_file {y : Sys} {r : RefLog} {W : List Op} {A E K : Nat}
    (h : CrashInvC5b y r W A E K) (hc : y.Clean) (h1 : y.worker.files.length = 1) :
    y.OldSyncedLIFT :=
  oldSynced_of_single_file_LIFT h hc h1

/-- What the bundle is. -/
theorem lift_inv_spec (y : Sys) (r : RefLog) (W : List Op) (A E K : Nat) :
    LiftInv y r W A E K ↔ CrashInvC5b y r W A E K ∧ SysPostD14 y ∧ SysCacheInv y := Iff.rfl

theorem lift_inv_fresh (cfg : Cfg) : LiftInv (Sys.fresh cfg) {} [] 0 0 0 := liftInv_fresh_LIFT cfg

/-- Kept by legal histories (from ANY state that satisfies it). -/
theorem lift_inv_history (steps : List Step) (y : Sys) (r r' : RefLog) (W : List Op) (A E K : Nat)
    (h : LiftInv y r W A E K) (hsteps : ∀ st ∈ steps, st.journal = true)
    (hr : r.run (stepOps steps) = some r') (hwf : ∀ op ∈ stepOps steps, op.WF ∧ op.small)
    (hnd : (y.run steps).worker.pc ≠ .dead) :
    LiftInv (y.run steps) r' (W ++ expandOps r (stepOps steps)) (y.ackRun steps A) E K :=
  liftInv_history_LIFT steps y r r' W A E K h hsteps hr hwf hnd

/-- Kept by a clean restart; the restarted system is clean and its older files are synced
(so it can be restarted again right away). -/
theorem lift_inv_restart {y : Sys} {r : RefLog} {W : List Op} {A E K : Nat}
    (h : LiftInv y r W A E K) (hc : y.Clean) (cfg' : Cfg) :
    LiftInv ((y.step .drop).step (.openWith cfg')) r W A E K ∧
    ((y.step .drop).step (.openWith cfg')).Clean ∧
    ((y.step .drop).step (.openWith cfg')).OldSyncedLIFT :=
  liftInv_restart_LIFT h hc cfg'

/-- Holds again after crash + recovery (`c05_crashInv_recovered` with the cache invariant and
the postponed-removals invariant): for the first `n` writes and the reference log `r'` they
reach; the recovered system is clean and its older files are synced. -/
theorem lift_inv_recovered {y : Sys} {r : RefLog} {W : List Op} {A E K : Nat}
    (h : CrashInvC5b y r W A E K) (img : Fs) (hc : CrashImage y.fs img) (hnt : NoTornPredecessor img)
    (cfg' : Cfg) (htr : cfg'.truncate = true) :
    let y2 := (({ fs := img, cfg := cfg' } : Sys).open).2.1
    (({ fs := img, cfg := cfg' } : Sys).open).1 = .ok () ∧
    ∃ s' n r' A', y2.store = some s' ∧ RefLog.run {} (W.take n) = some r' ∧ (E ≤ A → K ≤ n) ∧
      LiftInv y2 r' (W.take n) A' s'.openEnd n ∧ y2.Clean ∧ y2.OldSyncedLIFT ∧ s'.cfg = cfg' :=
  liftInv_recovered_LIFT h img hc hnt cfg' htr

/-! ### (1) C15 after crash recovery -/

/-- **C15 after recovery, from the crash invariant.** `y` satisfies the crash invariant (a
state reached through histories, clean restarts and crash recoveries), `img` is a crash
image of its directory without torn predecessor, `cfg'.truncate = true` (any cache limits:
entries may be evicted while the journal is replayed). The store `open` builds satisfies the
cache invariant: the byte counter is the sum of the resident payload sizes, the resident keys
are strictly increasing, none lies above `last`. -/
theorem c15_accounting_exact_after_recovery_of_crashInv {y : Sys} {r : RefLog} {W : List Op}
    {A E K : Nat} (h : CrashInvC5b y r W A E K) (img : Fs) (hc : CrashImage y.fs img)
    (hnt : NoTornPredecessor img) (cfg' : Cfg) (htr : cfg'.truncate = true) :
    let y2 := (({ fs := img, cfg := cfg' } : Sys).open).2.1
    SysCacheInv y2 ∧
    ∃ s', y2.store = some s' ∧ s'.cache.size = sumLen s'.cache.items ∧ Sorted s'.cache.items ∧
      KeysLe s'.cache.items s'.st.last := by
  intro y2
  obtain ⟨_, s', n, r', A', hs', _, _, hli, _⟩ := lift_inv_recovered h img hc hnt cfg' htr
  have := hli.2.2 s' hs'
  exact ⟨hli.2.2, s', hs', this.ok.size_eq, this.ok.sorted, this.le_last⟩

/-- ... and along every continuation: `more` is any list of live steps (calls accepted or
rejected with any arguments, flushes, worker steps of any outcome — the worker may die —,
`workerIdle`, `drain`). -/
theorem c15_accounting_exact_after_recovery_history_of_crashInv {y : Sys} {r : RefLog}
    {W : List Op} {A E K : Nat} (h : CrashInvC5b y r W A E K) (img : Fs) (hc : CrashImage y.fs img)
    (hnt : NoTornPredecessor img) (cfg' : Cfg) (htr : cfg'.truncate = true)
    (more : List Step) (hlive : ∀ st ∈ more, st.live = true) (s : Store)
    (hs : ((({ fs := img, cfg := cfg' } : Sys).open).2.1.run more).store = some s) :
    s.cache.size = sumLen s.cache.items ∧ Sorted s.cache.items ∧ KeysLe s.cache.items s.st.last := by
  have h1 := (c15_accounting_exact_after_recovery_of_crashInv h img hc hnt cfg' htr).1
  have := run_cacheInv _ more hlive h1 s hs
  exact ⟨this.ok.size_eq, this.ok.sorted, this.le_last⟩

/-- **C15 after recovery** — the recovered system of `c05_recovered_store_is_consistent`: a
legal history from a freshly opened store (worker alive), a crash image `img` of the final
directory without torn predecessor, `cfg'.truncate = true`. The recovered store's cache
accounting is exact. -/
theorem c15_accounting_exact_after_recovery (cfg cfg' : Cfg) (steps : List Step) (r : RefLog)
    (hsteps : ∀ st ∈ steps, st.journal = true)
    (hlegal : RefLog.run {} (stepOps steps) = some r)
    (hwf : ∀ op ∈ stepOps steps, op.WF ∧ op.small)
    (halive : ((Sys.fresh cfg).run steps).worker.pc ≠ .dead)
    (img : Fs) (hc : CrashImage ((Sys.fresh cfg).run steps).fs img)
    (htr : cfg'.truncate = true) (hnt : NoTornPredecessor img) :
    let y2 := (({ fs := img, cfg := cfg' } : Sys).open).2.1
    ∃ s', y2.store = some s' ∧ s'.cache.size = sumLen s'.cache.items ∧ Sorted s'.cache.items ∧
      KeysLe s'.cache.items s'.st.last := by
  have h0 := c05_crashInv_history steps (Sys.fresh cfg) {} r [] 0 0 0 (c05_crashInv_fresh cfg) hsteps
    hlegal hwf halive
  exact (c15_accounting_exact_after_recovery_of_crashInv h0 img hc hnt cfg' htr).2

/-- **C15 after recovery, every continuation history** (any live steps). -/
theorem c15_accounting_exact_after_recovery_history (cfg cfg' : Cfg) (steps : List Step) (r : RefLog)
    (hsteps : ∀ st ∈ steps, st.journal = true)
    (hlegal : RefLog.run {} (stepOps steps) = some r)
    (hwf : ∀ op ∈ stepOps steps, op.WF ∧ op.small)
    (halive : ((Sys.fresh cfg).run steps).worker.pc ≠ .dead)
    (img : Fs) (hc : CrashImage ((Sys.fresh cfg).run steps).fs img)
    (htr : cfg'.truncate = true) (hnt : NoTornPredecessor img)
    (more : List Step) (hlive : ∀ st ∈ more, st.live = true) (s : Store)
    (hs : ((({ fs := img, cfg := cfg' } : Sys).open).2.1.run more).store = some s) :
    s.cache.size = sumLen s.cache.items ∧ Sorted s.cache.items ∧ KeysLe s.cache.items s.st.last := by
  have h0 := c05_crashInv_history steps (Sys.fresh cfg) {} r [] 0 0 0 (c05_crashInv_fresh cfg) hsteps
    hlegal hwf halive
  exact c15_accounting_exact_after_recovery_history_of_crashInv h0 img hc hnt cfg' htr more hlive s hs

/-- `c15_sys_step_append_only_pinned` applies to the recovered system and to every state of a
continuation by live steps: right after an `append` call that inserted an entry, if either
limit is exceeded, every resident id lies above the boundary in force. -/
theorem c15_append_only_pinned_after_recovery {y : Sys} {r : RefLog} {W : List Op} {A E K : Nat}
    (h : CrashInvC5b y r W A E K) (img : Fs) (hc : CrashImage y.fs img) (hnt : NoTornPredecessor img)
    (cfg' : Cfg) (htr : cfg'.truncate = true) (more : List Step) (hlive : ∀ st ∈ more, st.live = true)
    (es : List (LogId × Bytes)) (s s' : Store)
    (hs : ((({ fs := img, cfg := cfg' } : Sys).open).2.1.run more).store = some s)
    (hs' : (((({ fs := img, cfg := cfg' } : Sys).open).2.1.run more).step (.call (.append es))).store
      = some s')
    (hins : s'.st.last ≠ s.st.last)
    (hover : s'.cache.items.length > s'.cache.maxItems ∨ s'.cache.size > s'.cache.capacity) :
    KeysGt s'.cache.items s'.cache.lastEvictable ∧
    s'.cache.lastEvictable = s.cache.lastEvictable ∧
    s'.cache.maxItems = s.cache.maxItems ∧ s'.cache.capacity = s.cache.capacity := by
  have h1 := (c15_accounting_exact_after_recovery_of_crashInv h img hc hnt cfg' htr).1
  exact c15_sys_step_append_only_pinned _ (run_cacheInv _ more hlive h1) es s s' hs hs' hins hover

/-! ### (2) C08 from the crash invariant -/

/-- **(a) The files that remain form a gap-free suffix of the journal that starts with a
state snapshot** — `c08_remaining_files_gap_free_suffix` for every system that satisfies the
crash invariant. -/
theorem c08_gap_free_suffix_of_crashInv {y : Sys} {r : RefLog} {W : List Op} {A E K : Nat}
    (h : CrashInvC5b y r W A E K) :
    ∃ s dropped jc jo, y.store = some s ∧
      y.fs.linkedIds = dropped.map Closed.id ++ (s.closed.map Closed.id ++ [s.openId]) ∧
      y.worker.toRemove ++ s.removed = dropped.map Closed.id ∧
      RepG (s.liftC3b dropped) y.fs y.worker jc jo ∧
      (liveChunksC3 (s.liftC3b dropped) jc jo).map (·.1.id) = y.fs.linkedIds ∧
      (liveChunksC3 (s.liftC3b dropped) jc jo).map (·.1)
        = dropped ++ s.closed ++ [⟨s.openOffsets, s.st⟩] ∧
      AbutC3 (liveChunksC3 (s.liftC3b dropped) jc jo) ∧
      ∀ p ∈ liveChunksC3 (s.liftC3b dropped) jc jo, AllWF p.2 ∧ (∃ st rest, p.2 = .state st :: rest) ∧
        offsetsFrom p.1.id (recSizes p.2) = p.1.offsets ∧ ∃ t, fdata y.fs p.1.id ++ t = encAll p.2 :=
  gap_free_suffix_LIFT h

/-- **(a) Files are unlinked oldest first** (`c08_unlinks_oldest_first`). -/
theorem c08_unlinks_oldest_first_of_crashInv {y : Sys} {r : RefLog} {W : List Op} {A E K : Nat}
    (h : CrashInvC5b y r W A E K) (out : Outcome)
    (halive : (y.step (.worker out)).worker.pc ≠ .dead) :
    ((y.step (.worker out)).worker.toRemove = y.worker.toRemove ∧
      (y.step (.worker out)).fs.linkedIds = y.fs.linkedIds) ∨
    (∃ i, y.worker.toRemove = i :: (y.step (.worker out)).worker.toRemove ∧
      y.fs.linkedIds = i :: (y.step (.worker out)).fs.linkedIds ∧
      Ev.unlink "w" i true ∈ y.stepEvs (.worker out)) :=
  unlinks_oldest_first_LIFT h out halive

/-- **(a) Every index entry points into a linked chunk file**
(`c08_index_entries_in_linked_chunks`). -/
theorem c08_index_entries_in_linked_chunks_of_crashInv {y : Sys} {r : RefLog} {W : List Op}
    {A E K : Nat} (h : CrashInvC5b y r W A E K) :
    ∃ s, y.store = some s ∧ ∀ e ∈ s.log, e.2.chunk ∈ y.fs.linkedIds ∧ y.fs.has e.2.chunk = true :=
  index_entries_in_linked_chunks_LIFT h

/-- **(b) A file is unlinked only after the purge that made it obsolete is durable**
(`c08_unlink_only_after_purge_durable`), with `W` the write history and `A` the acknowledged
position of the crash invariant. -/
theorem c08_unlink_only_after_purge_durable_of_crashInv {y : Sys} {r : RefLog} {W : List Op}
    {A E K : Nat} (h : CrashInvC5b y r W A E K) (out : Outcome) (c : Nat)
    (hev : Ev.unlink "w" c true ∈ y.stepEvs (.worker out)) :
    ∃ s cl dropped' m k, y.store = some s ∧ cl.id = c ∧
      y.fs.linkedIds = c :: (dropped'.map Closed.id ++ (s.closed.map Closed.id ++ [s.openId])) ∧
      y.worker.toRemove ++ s.removed = c :: dropped'.map Closed.id ∧
      (∃ rest, y.worker.pc = .unlinking (c :: rest)) ∧ y.worker.lastSyncFailed = false ∧
      lastOff cl.offsets < m ∧ m ≤ A ∧ A ≤ s.openEnd ∧
      k ≤ W.length ∧
      (∀ n, k ≤ n → n ≤ W.length → ∀ r', RefLog.run {} (W.take n) = some r' →
        optLe cl.state.last r'.purged = true) ∧
      (∃ jc jo N0 Q, RepG (s.liftC3b (cl :: dropped')) y.fs y.worker jc jo ∧
        W.length = N0 + cntW (allOps (s.liftC3b (cl :: dropped')) jc jo) ∧
        Q <+: allOps (s.liftC3b (cl :: dropped')) jc jo ∧ cl.id + sizeSum Q = m ∧ N0 + cntW Q = k) ∧
      (∀ offs ∈ (s.liftC3b dropped').chunks,
        min (lastOff offs - offs.headD 0) (m - offs.headD 0) ≤ (fdata y.fs (offs.headD 0)).length ∧
        ∀ f, y.fs.find (offs.headD 0) = some f →
          min (lastOff offs - offs.headD 0) (m - offs.headD 0) ≤ f.durable) ∧
      (∀ e ∈ s.log, optLt cl.state.last (some e.2.id) = true ∧ e.2.chunk ≠ c) :=
  unlink_only_after_purge_durable_LIFT h out c hev

/-- **(c) Once a purge has been flushed and the worker is idle, the dropped chunks are gone**
(`c08_flushed_idle_gone_always`) — from the crash invariant and `SysPostD14` (removals are
postponed only while the last sync has failed; part of `LiftInv`, kept by EVERY step
including drop and open). -/
theorem c08_flushed_idle_gone_of_crashInv {y : Sys} {r : RefLog} {W : List Op} {A E K : Nat}
    (h : CrashInvC5b y r W A E K) (hpo : SysPostD14 y) (cb : Option Nat)
    (halive : ((y.step (.flush cb)).step .workerIdle).worker.pc ≠ .dead) :
    let y' := (y.step (.flush cb)).step .workerIdle
    ∃ s, y'.store = some s ∧ s.removed = [] ∧ y'.worker.toRemove = [] ∧
      y'.worker.lastSyncFailed = false ∧ y'.worker.postponed = [] ∧
      y'.fs.linkedIds = s.closed.map Closed.id ++ [s.openId] :=
  flushed_idle_gone_LIFT h hpo cb halive

/-- **The linked files of a clean system are exactly the live chunks** (closed ++ open), in
order; consecutive chunks abut; every chunk starts with a `State` record and every file is a
byte prefix of the encoding of its chunk's well-formed records. -/
theorem c08_clean_files_are_live_chunks_of_crashInv {y : Sys} {r : RefLog} {W : List Op}
    {A E K : Nat} (h : CrashInvC5b y r W A E K) (hc : y.Clean) :
    ∃ s jc jo, y.store = some s ∧ y.fs.linkedIds = s.closed.map Closed.id ++ [s.openId] ∧
      RepG s y.fs y.worker jc jo ∧
      (liveChunksC3 s jc jo).map (·.1.id) = y.fs.linkedIds ∧
      (liveChunksC3 s jc jo).map (·.1) = s.closed ++ [⟨s.openOffsets, s.st⟩] ∧
      AbutC3 (liveChunksC3 s jc jo) ∧
      ∀ p ∈ liveChunksC3 s jc jo, AllWF p.2 ∧ (∃ st rest, p.2 = .state st :: rest) ∧
        offsetsFrom p.1.id (recSizes p.2) = p.1.offsets ∧ ∃ t, fdata y.fs p.1.id ++ t = encAll p.2 := by
  obtain ⟨s0, hs0, hq, _, hrem, hpost⟩ := hc
  have hd : y.worker.pc ≠ .dead := by
    obtain ⟨_, ⟨⟨_, _, hd, _⟩, _⟩, _⟩ := h
    exact hd
  obtain ⟨hpc, hqe⟩ := quiet_alive hq hd
  have htr : y.worker.toRemove = [] := by rw [toRemove_quiet hpc hqe]; exact hpost
  obtain ⟨s, dropped, jc, jo, hs, k1, k2, k3, k4, k5, k6, k7⟩ := gap_free_suffix_LIFT h
  rw [hs0] at hs; cases hs
  rw [htr, hrem] at k2
  have hdr : dropped = [] := by
    cases dropped with
    | nil => rfl
    | cons c l => simp at k2
  subst hdr
  simp only [List.map_nil, List.nil_append, Store.liftC3b_nil] at k1 k3 k4 k5 k6 k7
  exact ⟨s0, jc, jo, hs0, k1, k3, k4, k5, k6, k7⟩

/-- **C08 after a clean restart**: the restarted system satisfies the crash invariant again
(so all of (a), (b), (c) above hold for it and for every continuation), and its linked files
are exactly the live chunks. -/
theorem c08_restarted_files_are_live_chunks {y : Sys} {r : RefLog} {W : List Op} {A E K : Nat}
    (h : CrashInvC5b y r W A E K) (hpo : SysPostD14 y) (hc : y.Clean) (cfg' : Cfg) :
    let y2 := (y.step .drop).step (.openWith cfg')
    CrashInvC5b y2 r W A E K ∧ SysPostD14 y2 ∧
    ∃ s jc jo, y2.store = some s ∧ y2.fs.linkedIds = s.closed.map Closed.id ++ [s.openId] ∧
      RepG s y2.fs y2.worker jc jo ∧
      (liveChunksC3 s jc jo).map (·.1.id) = y2.fs.linkedIds ∧
      (liveChunksC3 s jc jo).map (·.1) = s.closed ++ [⟨s.openOffsets, s.st⟩] ∧
      AbutC3 (liveChunksC3 s jc jo) ∧
      ∀ p ∈ liveChunksC3 s jc jo, AllWF p.2 ∧ (∃ st rest, p.2 = .state st :: rest) ∧
        offsetsFrom p.1.id (recSizes p.2) = p.1.offsets ∧ ∃ t, fdata y2.fs p.1.id ++ t = encAll p.2 := by
  intro y2
  have h1 := crashInv_clean_restart_LIFT h hc cfg'
  have h2 : SysPostD14 y2 := (hpo.step _).step _
  have hc2 : y2.Clean := by
    obtain ⟨s, hs, hq, hp, hrem, hpost⟩ := hc
    obtain ⟨s', _, hy2, _, _, _, _, k5, k6, _⟩ :=
      restart_eq_LIFT y s r cfg' h.csys hs hq hp hrem hpost
    show ((y.step .drop).step (.openWith cfg')).Clean
    rw [hy2]
    exact ⟨s', rfl, rfl, k5, k6, rfl⟩
  exact ⟨h1, h2, c08_clean_files_are_live_chunks_of_crashInv h1 hc2⟩

/-- **C08 after crash recovery**: the recovered system satisfies the crash invariant again,
and its linked files are exactly the live chunks. -/
theorem c08_recovered_files_are_live_chunks {y : Sys} {r : RefLog} {W : List Op} {A E K : Nat}
    (h : CrashInvC5b y r W A E K) (img : Fs) (hc : CrashImage y.fs img) (hnt : NoTornPredecessor img)
    (cfg' : Cfg) (htr : cfg'.truncate = true) :
    let y2 := (({ fs := img, cfg := cfg' } : Sys).open).2.1
    SysPostD14 y2 ∧
    ∃ n r' A' s jc jo, y2.store = some s ∧ CrashInvC5b y2 r' (W.take n) A' s.openEnd n ∧
      y2.fs.linkedIds = s.closed.map Closed.id ++ [s.openId] ∧
      RepG s y2.fs y2.worker jc jo ∧
      (liveChunksC3 s jc jo).map (·.1.id) = y2.fs.linkedIds ∧
      (liveChunksC3 s jc jo).map (·.1) = s.closed ++ [⟨s.openOffsets, s.st⟩] ∧
      AbutC3 (liveChunksC3 s jc jo) ∧
      ∀ p ∈ liveChunksC3 s jc jo, AllWF p.2 ∧ (∃ st rest, p.2 = .state st :: rest) ∧
        offsetsFrom p.1.id (recSizes p.2) = p.1.offsets ∧ ∃ t, fdata y2.fs p.1.id ++ t = encAll p.2 := by
  intro y2
  obtain ⟨_, s', n, r', A', hs', _, _, hli, hcl, _⟩ := lift_inv_recovered h img hc hnt cfg' htr
  obtain ⟨s, jc, jo, hs, k⟩ := c08_clean_files_are_live_chunks_of_crashInv hli.1 hcl
  have : s = s' := by
    have e : y2.store = some s := hs
    rw [hs'] at e
    exact (Option.some.inj e).symm
  subst this
  exact ⟨hli.2.1, n, r', A', s, jc, jo, hs, hli.1, k⟩

/-! ### (3) C04 from the crash invariant -/

/-- A clean worker (alive) holds no request. -/
theorem lift_clean_holds_no_request {y : Sys} (hc : y.Clean) (hd : y.worker.pc ≠ .dead) :
    y.worker.reqs = [] := by
  obtain ⟨s, _, hq, _⟩ := hc
  obtain ⟨hpc, hqe⟩ := quiet_alive hq hd
  simp [Worker.reqs, Worker.rest, hpc, hqe, WPc.batchW, WPc.inHand]

/-- **A positive callback means written and synced — for histories that start from a
recovered (or restarted, or any) system satisfying the crash invariant.** The continuation
`pre ++ [flush (some i)] ++ mid ++ [st] ++ post` consists of legal journal steps (calls legal
and accepted from `r`, well-formed, small), the worker is alive at the end; no request the
worker holds at the start carries callback `i` (a recovered or restarted worker holds none:
`lift_clean_holds_no_request`) and no other flush before `st` uses callback `i`; the worker
emits `Ev.cb i true` during step `st`. Let `E1` be the journal end when that flush was issued
(`s1.openEnd`). Then at the END of the history every live chunk file is written up to `E1`
or to the chunk's end, and that much of the file is durable. -/
theorem c04_positive_callback_means_durable_of_crashInv {y : Sys} {r : RefLog} {W : List Op}
    {A E K : Nat} (h : CrashInvC5b y r W A E K) (pre mid post : List Step) (i : Nat) (st : Step)
    (r' : RefLog) (s1 : Store)
    (hsteps : ∀ x ∈ pre ++ [.flush (some i)] ++ mid ++ [st] ++ post, x.journal = true)
    (hlegal : r.run (stepOps (pre ++ [.flush (some i)] ++ mid ++ [st] ++ post)) = some r')
    (hwf : ∀ op ∈ stepOps (pre ++ [.flush (some i)] ++ mid ++ [st] ++ post), op.WF ∧ op.small)
    (halive : (y.run (pre ++ [.flush (some i)] ++ mid ++ [st] ++ post)).worker.pc ≠ .dead)
    (halive2 : (y.run (pre ++ [.flush (some i)] ++ mid)).worker.pc ≠ .dead)
    (hheld : ∀ q ∈ y.worker.reqs, q.cbId ≠ some i)
    (hfresh : ∀ x ∈ pre ++ mid, x ≠ .flush (some i))
    (hs1 : (y.run pre).store = some s1)
    (hcb : Ev.cb i true ∈ (y.run (pre ++ [.flush (some i)] ++ mid)).stepEvs st) :
    let y' := y.run (pre ++ [.flush (some i)] ++ mid ++ [st] ++ post)
    ∃ s, y'.store = some s ∧ s1.openEnd ≤ s.openEnd ∧
      (∀ offs ∈ s.chunks,
        min (lastOff offs - offs.headD 0) (s1.openEnd - offs.headD 0) ≤ (fdata y'.fs (offs.headD 0)).length) ∧
      (∀ offs ∈ s.chunks, ∀ f, y'.fs.find (offs.headD 0) = some f →
        min (lastOff offs - offs.headD 0) (s1.openEnd - offs.headD 0) ≤ f.durable) := by
  intro y'
  have hpre : ∀ x ∈ pre, x.journal = true := fun x hx => hsteps x (by simp [hx])
  have hmid : ∀ x ∈ mid, x.journal = true := fun x hx => hsteps x (by simp [hx])
  have hwf0 : SysWF y := by
    obtain ⟨_, ⟨_, _, _, hw⟩, _⟩ := h
    exact hw
  have hsome : y.store.isSome = true := by
    obtain ⟨_, ⟨⟨s, hs, _⟩, _⟩, _⟩ := h
    rw [hs]; rfl
  have hA := acked_flush_LIFT y A pre mid post i st s1 hwf0 hsome (fun q hq hi => hheld q hq hi)
    hpre hmid hfresh hs1 halive2 hcb
  have hfin := c05_crashInv_history _ y r r' W A E K h hsteps hlegal hwf halive
  obtain ⟨s, hs, hle, hw, hd⟩ := acked_is_durable_LIFT hfin
  refine ⟨s, hs, Nat.le_trans hA hle, fun offs ho => ?_, fun offs ho f hf => ?_⟩
  · have := hw offs ho; simp only [y']; omega
  · have := hd offs ho f (by simpa only [y'] using hf); omega

/-! ### (4) C11: every system reached by histories, clean restarts and crash recoveries -/

/-- **Reachable systems.** A freshly opened store; a history of journal steps (calls, flushes,
worker steps of any outcome, `workerIdle`, `drain`) whose calls are legal and accepted — for
`r`, ANY reference log the system refines (`CSys y r`; acceptance depends only on the state
and the entry keys, `run_keys_LIFT`), well-formed and small — with the worker alive at the
end; a clean restart (drop + open with any configuration) of a clean system (D15: no
hypothesis on older chunk files); a crash (any crash image without torn predecessor) followed by recovery with
`truncate = true`. In any order, any number of times. -/
inductive ReachLIFT : Sys → Prop
  | fresh (cfg : Cfg) : ReachLIFT (Sys.fresh cfg)
  | hist {y : Sys} (steps : List Step) (r r' : RefLog) : ReachLIFT y →
      (∀ st ∈ steps, st.journal = true) → CSys y r → r.run (stepOps steps) = some r' →
      (∀ op ∈ stepOps steps, op.WF ∧ op.small) → (y.run steps).worker.pc ≠ .dead →
      ReachLIFT (y.run steps)
  | restart {y : Sys} (cfg' : Cfg) : ReachLIFT y → y.Clean →
      ReachLIFT ((y.step .drop).step (.openWith cfg'))
  | recover {y : Sys} (img : Fs) (cfg' : Cfg) : ReachLIFT y → CrashImage y.fs img →
      NoTornPredecessor img → cfg'.truncate = true →
      ReachLIFT (({ fs := img, cfg := cfg' } : Sys).open).2.1

/-- Two reference logs the same system refines have the same state and entry keys. -/
theorem lift_csys_keys {y : Sys} {r1 r2 : RefLog} (h1 : CSys y r1) (h2 : CSys y r2) :
    RefKeysEqLIFT r1 r2 := by
  obtain ⟨⟨s1, hs1, _, hi1⟩, _⟩ := h1
  obtain ⟨⟨s2, hs2, _, hi2⟩, _⟩ := h2
  rw [hs1] at hs2; cases hs2
  exact ⟨by rw [← hi1.abs.st, ← hi2.abs.st], by rw [← hi1.abs.log, ← hi2.abs.log]⟩

/-- **Every reachable system satisfies the bundle** — the crash invariant (for some reference
log, write history, acknowledged and tracked position), `SysPostD14` and the cache invariant.
So every `_of_crashInv` theorem of this file and of `Props/C05Crash.lean` applies to it. -/
theorem lift_reach_invariant {y : Sys} (h : ReachLIFT y) : ∃ r W A E K, LiftInv y r W A E K := by
  induction h with
  | fresh cfg => exact ⟨{}, [], 0, 0, 0, lift_inv_fresh cfg⟩
  | @hist y steps r r' _ hst hC hr hwf hnd ih =>
    obtain ⟨r0, W, A, E, K, h0⟩ := ih
    obtain ⟨r0', hr0, _⟩ := run_keys_LIFT (stepOps steps) (lift_csys_keys hC h0.1.csys) r' hr
    exact ⟨r0', _, _, E, K, lift_inv_history steps y r0 r0' W A E K h0 hst hr0 hwf hnd⟩
  | @restart y cfg' _ hc ih =>
    obtain ⟨r0, W, A, E, K, h0⟩ := ih
    exact ⟨r0, W, A, E, K, (lift_inv_restart h0 hc cfg').1⟩
  | @recover y img cfg' _ hc hnt htr ih =>
    obtain ⟨r0, W, A, E, K, h0⟩ := ih
    obtain ⟨_, s', n, r', A', _, _, _, hli, _⟩ := lift_inv_recovered h0.1 img hc hnt cfg' htr
    exact ⟨r', _, A', _, n, hli⟩

/-- **C11 for every reachable system**: the journal invariant `J` holds, the system refines
a reference log (`CSys`: replay invariant — record lists for every chunk file that replay to
the state and the index map, payloads — and linked-files invariant), every file holds small
records (`open` never panics later), and the cache accounting is exact. -/
theorem c11_journal_invariant_reach {y : Sys} (h : ReachLIFT y) :
    J y ∧ (∃ r, CSys y r) ∧ SmallSys y ∧ SysWF y ∧ SysCovered y ∧ SysCacheInv y := by
  obtain ⟨r, W, A, E, K, h1, _, h3⟩ := lift_reach_invariant h
  have hc := h1.csys
  obtain ⟨B, ⟨_, _, hcov, hwf⟩, _, hS, _⟩ := h1
  exact ⟨hc.1.J, ⟨r, hc⟩, hS, hwf, hcov, h3⟩

/-- C15 for every reachable system and every continuation by live steps. -/
theorem c15_accounting_exact_reach {y : Sys} (h : ReachLIFT y) (more : List Step)
    (hlive : ∀ st ∈ more, st.live = true) (s : Store) (hs : (y.run more).store = some s) :
    s.cache.size = sumLen s.cache.items ∧ Sorted s.cache.items ∧ KeysLe s.cache.items s.st.last := by
  obtain ⟨_, _, _, _, _, h3⟩ := c11_journal_invariant_reach h
  have := run_cacheInv _ more hlive h3 s hs
  exact ⟨this.ok.size_eq, this.ok.sorted, this.le_last⟩

/-- C08 (c) for every reachable system: after `flush cb`, `workerIdle` (worker alive) nothing
is left to unlink and the linked files are exactly the live chunks. -/
theorem c08_flushed_idle_gone_reach {y : Sys} (h : ReachLIFT y) (cb : Option Nat)
    (halive : ((y.step (.flush cb)).step .workerIdle).worker.pc ≠ .dead) :
    let y' := (y.step (.flush cb)).step .workerIdle
    ∃ s, y'.store = some s ∧ s.removed = [] ∧ y'.worker.toRemove = [] ∧
      y'.worker.lastSyncFailed = false ∧ y'.worker.postponed = [] ∧
      y'.fs.linkedIds = s.closed.map Closed.id ++ [s.openId] := by
  obtain ⟨_, _, _, _, _, h1, h2, _⟩ := lift_reach_invariant h
  exact c08_flushed_idle_gone_of_crashInv h1 h2 cb halive

/-- C04 for every reachable system: the continuation's calls are legal and accepted from `r`,
any reference log the system refines. -/
theorem c04_positive_callback_means_durable_reach {y : Sys} (h : ReachLIFT y) (r : RefLog)
    (hC : CSys y r) (pre mid post : List Step) (i : Nat) (st : Step) (r' : RefLog) (s1 : Store)
    (hsteps : ∀ x ∈ pre ++ [.flush (some i)] ++ mid ++ [st] ++ post, x.journal = true)
    (hlegal : r.run (stepOps (pre ++ [.flush (some i)] ++ mid ++ [st] ++ post)) = some r')
    (hwf : ∀ op ∈ stepOps (pre ++ [.flush (some i)] ++ mid ++ [st] ++ post), op.WF ∧ op.small)
    (halive : (y.run (pre ++ [.flush (some i)] ++ mid ++ [st] ++ post)).worker.pc ≠ .dead)
    (halive2 : (y.run (pre ++ [.flush (some i)] ++ mid)).worker.pc ≠ .dead)
    (hheld : ∀ q ∈ y.worker.reqs, q.cbId ≠ some i)
    (hfresh : ∀ x ∈ pre ++ mid, x ≠ .flush (some i))
    (hs1 : (y.run pre).store = some s1)
    (hcb : Ev.cb i true ∈ (y.run (pre ++ [.flush (some i)] ++ mid)).stepEvs st) :
    let y' := y.run (pre ++ [.flush (some i)] ++ mid ++ [st] ++ post)
    ∃ s, y'.store = some s ∧ s1.openEnd ≤ s.openEnd ∧
      (∀ offs ∈ s.chunks,
        min (lastOff offs - offs.headD 0) (s1.openEnd - offs.headD 0) ≤ (fdata y'.fs (offs.headD 0)).length) ∧
      (∀ offs ∈ s.chunks, ∀ f, y'.fs.find (offs.headD 0) = some f →
        min (lastOff offs - offs.headD 0) (s1.openEnd - offs.headD 0) ≤ f.durable) := by
  obtain ⟨r0, W, A, E, K, h1, _⟩ := lift_reach_invariant h
  obtain ⟨r0', hr0, _⟩ := run_keys_LIFT _ (lift_csys_keys hC h1.csys) r' hlegal
  exact c04_positive_callback_means_durable_of_crashInv h1 pre mid post i st r0' s1 hsteps hr0 hwf
    halive halive2 hheld hfresh hs1 hcb

/-! ### D15: the restart syncs the older chunk files -/

def liftUnsyncedExample : List Step :=
  [ .call (.append [(⟨1, 0⟩, [1]), (⟨1, 1⟩, [2])]), .flush (some 3),
    .worker .ok, .worker .ok, .worker .eio, .worker .ok, .worker .eio ]

def liftUnsyncedRestarted : Sys :=
  (((Sys.fresh { maxRecords := 3 }).run liftUnsyncedExample).step .drop).step
    (.openWith { maxRecords := 3 })

/-- The continuation used below: a commit, a flush with callback 4, the worker runs. -/
def liftUnsyncedMore : List Step := [.call (.commit ⟨1, 1⟩), .flush (some 4), .workerIdle]

/-- **D15: a clean restart syncs the older chunk files** (replaces the finding
`lift_restart_forgets_unsynced_old_chunk`, which the change to `open` made false). Same
history: the `fdatasync` of the OLDER chunk file 0 fails twice, the worker goes back to
`recv` with files `[0, 84]` in its list and nothing durable; the system is clean and
satisfies the crash invariant, but NOT `OldSyncedLIFT`. Drop + open now emits
`sync "o" 0 true, sync "o" 84 true`: both files are durable to their ends, the restarted
system is `SysCovered` and satisfies the crash invariant again (by
`lift_crashInv_clean_restart`, no extra hypothesis). The later flush is acknowledged with a
positive callback and that callback is sound: the final directory is durable to the end of
every file, after the worst power failure `open` reports the acknowledged state, and EVERY
crash image of the final directory opens (any configuration with `truncate`). -/
theorem lift_restart_syncs_old_chunks :
    (∀ st ∈ liftUnsyncedExample, st.journal = true) ∧
    (RefLog.run {} (stepOps liftUnsyncedExample)).isSome = true ∧
    (∀ op ∈ stepOps liftUnsyncedExample, op.WF ∧ op.small) ∧
    ((Sys.fresh { maxRecords := 3 }).run (liftUnsyncedExample.take 6)).stepEvs (.worker .eio)
      = [.sync "w" 0 false, .cb 3 false] ∧
    ((Sys.fresh { maxRecords := 3 }).run liftUnsyncedExample).worker.pc = .idle ∧
    (∃ r W A, CrashInvC5b ((Sys.fresh { maxRecords := 3 }).run liftUnsyncedExample) r W A 0 0) ∧
    ((Sys.fresh { maxRecords := 3 }).run liftUnsyncedExample).Clean ∧
    ((Sys.fresh { maxRecords := 3 }).run liftUnsyncedExample).worker.files.map FileEnt.id = [0, 84] ∧
    ((Sys.fresh { maxRecords := 3 }).run liftUnsyncedExample).worker.lastSyncFailed = true ∧
    ((Sys.fresh { maxRecords := 3 }).run liftUnsyncedExample).fs.map
      (fun f => (f.id, f.data.length, f.durable, f.linked)) = [(0, 84, 0, true), (84, 34, 0, true)] ∧
    ¬ ((Sys.fresh { maxRecords := 3 }).run liftUnsyncedExample).OldSyncedLIFT ∧
    ({ (((Sys.fresh { maxRecords := 3 }).run liftUnsyncedExample).step .drop) with
        cfg := { maxRecords := 3 } } : Sys).open.2.2 = [.sync "o" 0 true, .sync "o" 84 true] ∧
    liftUnsyncedRestarted.worker.files.map FileEnt.id = [84] ∧
    liftUnsyncedRestarted.fs.map
      (fun f => (f.id, f.data.length, f.durable, f.linked)) = [(0, 84, 84, true), (84, 34, 34, true)] ∧
    SysCovered liftUnsyncedRestarted ∧
    (∃ r W A, CrashInvC5b liftUnsyncedRestarted r W A 0 0) ∧
    Ev.cb 4 true ∈ (liftUnsyncedRestarted.run [.call (.commit ⟨1, 1⟩), .flush (some 4)]).stepEvs
      .workerIdle ∧
    (liftUnsyncedRestarted.run liftUnsyncedMore).fs.map
      (fun f => (f.id, f.data.length, f.durable, f.linked)) = [(0, 84, 84, true), (84, 62, 62, true)] ∧
    c03View (openStore {} (powerCrash (liftUnsyncedRestarted.run liftUnsyncedMore).fs)).1
      = some (⟨none, some ⟨1, 1⟩, some ⟨1, 1⟩, none, none⟩, [(0, ⟨1, 0⟩), (1, ⟨1, 1⟩)]) ∧
    (∀ img cfg', CrashImage (liftUnsyncedRestarted.run liftUnsyncedMore).fs img →
      cfg'.truncate = true → (({ fs := img, cfg := cfg' } : Sys).open).1 = .ok ()) := by
  have hwf : ∀ op ∈ stepOps liftUnsyncedExample, op.WF ∧ op.small := by
    intro op hop
    simp only [liftUnsyncedExample, stepOps, List.mem_cons, List.not_mem_nil, or_false] at hop
    subst hop
    simp [Op.WF, Op.small, LogId.WF, bytesWF, smallId, U64, U32]
  have hwf2 : ∀ op ∈ stepOps liftUnsyncedMore, op.WF ∧ op.small := by
    intro op hop
    simp only [liftUnsyncedMore, stepOps, List.mem_cons, List.not_mem_nil, or_false] at hop
    subst hop
    simp [Op.WF, Op.small, LogId.WF, U64]
  have hclean : ((Sys.fresh { maxRecords := 3 }).run liftUnsyncedExample).Clean :=
    Sys.clean_of_cleanB (by decide +kernel)
  have hall : ((RefLog.run {} (stepOps liftUnsyncedExample)).bind
      (fun r => r.run (stepOps liftUnsyncedMore))).isSome = true := by decide +kernel
  cases hr : RefLog.run {} (stepOps liftUnsyncedExample) with
  | none => exact absurd hr (by decide +kernel)
  | some r =>
    rw [hr] at hall
    simp only [Option.bind_some] at hall
    cases hr2 : r.run (stepOps liftUnsyncedMore) with
    | none => rw [hr2] at hall; cases hall
    | some r2 =>
      have h0 := c05_crashInv_history liftUnsyncedExample (Sys.fresh { maxRecords := 3 }) {} r []
        0 0 0 (c05_crashInv_fresh _) (by decide +kernel) hr hwf (by decide +kernel)
      have h2 : CrashInvC5b liftUnsyncedRestarted r _ _ 0 0 :=
        lift_crashInv_clean_restart h0 hclean { maxRecords := 3 }
      have h3 := c05_crashInv_history liftUnsyncedMore liftUnsyncedRestarted r r2 _ _ 0 0 h2
        (by decide +kernel) hr2 hwf2 (by decide +kernel)
      have hcov : SysCovered liftUnsyncedRestarted := by
        obtain ⟨_, ⟨_, _, hcov, _⟩, _⟩ := h2
        exact hcov
      refine ⟨by decide +kernel, rfl, hwf, by decide +kernel, by decide +kernel, ⟨r, _, _, h0⟩,
        hclean, by decide +kernel, by decide +kernel, by decide +kernel,
        not_oldSynced_of_file_LIFT _ 0 (by decide +kernel) (by decide +kernel) (by decide +kernel),
        by decide +kernel, by decide +kernel, by decide +kernel, hcov, ⟨r, _, _, h2⟩,
        by decide +kernel, by decide +kernel, by decide +kernel, ?_⟩
      intro img cfg' hc htr
      cases hs : (liftUnsyncedRestarted.run liftUnsyncedMore).store with
      | none => exact absurd hs (by decide +kernel)
      | some s =>
        have hoid : (liftUnsyncedRestarted.run liftUnsyncedMore).store.map Store.openId = some 84 := by
          decide +kernel
        rw [hs] at hoid
        simp only [Option.map_some, Option.some.injEq] at hoid
        have hA : liftUnsyncedRestarted.ackRun liftUnsyncedMore
            ((Sys.fresh { maxRecords := 3 }).ackRun liftUnsyncedExample 0) = 146 := by decide +kernel
        have hnt := noTorn_of_CrashInv_C5b h3 hs (by rw [hoid, hA]; decide) hc
        exact (c05_crashInv_recovered h3 img hc hnt cfg' htr).1

/-! ### (5) Non-vacuity -/

theorem lift_c05Example_wf : ∀ op ∈ stepOps c05Example, op.WF ∧ op.small := by
  intro op hop
  simp only [c05Example, stepOps, List.mem_cons, List.not_mem_nil, or_false] at hop
  rcases hop with h | h <;> subst h <;>
    simp [Op.WF, Op.small, LogId.WF, bytesWF, smallId, U64, U32]

/-- The crash invariant at the end of `c05Example`, and the process-crash image. -/
theorem lift_c05Example_inv :
    ∃ r, RefLog.run {} (stepOps c05Example) = some r ∧
      CrashInvC5b ((Sys.fresh { maxRecords := 3 }).run c05Example) r
        ([] ++ expandOps {} (stepOps c05Example)) ((Sys.fresh { maxRecords := 3 }).ackRun c05Example 0) 0 0 ∧
      CrashImage ((Sys.fresh { maxRecords := 3 }).run c05Example).fs
        (cutCrash ((Sys.fresh { maxRecords := 3 }).run c05Example).fs [(84, 0), (39, 0)]) ∧
      NoTornPredecessor (cutCrash ((Sys.fresh { maxRecords := 3 }).run c05Example).fs [(84, 0), (39, 0)]) := by
  cases hr : RefLog.run {} (stepOps c05Example) with
  | none => exact absurd hr (by decide +kernel)
  | some r =>
    exact ⟨r, rfl, c05_crashInv_history c05Example (Sys.fresh { maxRecords := 3 }) {} r [] 0 0 0
      (c05_crashInv_fresh _) (by decide +kernel) hr lift_c05Example_wf (by decide +kernel),
      cutCrash_image _ _ (by decide +kernel), noTorn_of_noTornB_LIFT (by decide +kernel)⟩

example :
    (∃ s', c05Recovered.store = some s' ∧ s'.cache.size = sumLen s'.cache.items ∧
      Sorted s'.cache.items ∧ KeysLe s'.cache.items s'.st.last) ∧
    c05Recovered.store.map (fun s => (s.cache.items, s.cache.size, s.st.last))
      = some ([(⟨1, 0⟩, [1]), (⟨1, 1⟩, [2])], 2, some ⟨1, 1⟩) := by
  obtain ⟨r, hr, h, hc, hnt⟩ := lift_c05Example_inv
  refine ⟨?_, by decide +kernel⟩
  unfold c05Recovered
  exact (c15_accounting_exact_after_recovery_of_crashInv h _ hc hnt {} rfl).2


/-- The last id of a reference log the system refines is the store's. -/
theorem lift_csys_last {y : Sys} {r : RefLog} (h : CSys y r) (l : Option LogId)
    (hl : y.store.map (fun s => s.st.last) = some l) : r.last = l := by
  obtain ⟨⟨s, hs, _, hi⟩, _⟩ := h
  rw [hs] at hl
  simp only [Option.map_some, Option.some.injEq] at hl
  rw [← hl, hi.abs.st]
  rfl

theorem lift_c05Recovered_inv :
    ∃ r' W A E K, LiftInv c05Recovered r' W A E K ∧ r'.last = some ⟨1, 1⟩ ∧ c05Recovered.Clean ∧
      c05Recovered.OldSyncedLIFT := by
  obtain ⟨r, hr, h, hc, hnt⟩ := lift_c05Example_inv
  obtain ⟨_, s', n, r', A', hs', _, _, hli, hcl, hold, _⟩ := lift_inv_recovered h _ hc hnt {} rfl
  refine ⟨r', _, A', _, n, hli, ?_, hcl, hold⟩
  exact lift_csys_last hli.1.csys _ (by decide +kernel)

/-- C04 and C08 after recovery on the example: on `c05Recovered` (crash invariant: theorem) a
further append, `flush (some 9)`, `workerIdle` satisfy the hypotheses of
`c04_positive_callback_means_durable_of_crashInv` (`pre` = the append, `mid = []`,
`st = workerIdle`, `post = []`) and of `c08_flushed_idle_gone_of_crashInv`; the recovered
system's linked files are the live chunks 0, 84, 118; at the end chunk 118 (head + the new
entry, 67 bytes) is durable to its end. -/
example :
    ∃ r' W A E K r2, CrashInvC5b c05Recovered r' W A E K ∧ SysPostD14 c05Recovered ∧
      r'.run (stepOps ([.call (.append [(⟨1, 2⟩, [7])])] ++ [.flush (some 9)] ++ [] ++ [.workerIdle] ++ []))
        = some r2 ∧
      (∀ x ∈ ([.call (.append [(⟨1, 2⟩, [7])])] ++ [.flush (some 9)] ++ [] ++ [.workerIdle] ++ [] : List Step),
        x.journal = true) ∧
      (c05Recovered.run ([.call (.append [(⟨1, 2⟩, [7])])] ++ [.flush (some 9)] ++ [] ++ [.workerIdle] ++ [])).worker.pc
        ≠ .dead ∧
      c05Recovered.worker.reqs = [] ∧
      Ev.cb 9 true ∈ (c05Recovered.run ([.call (.append [(⟨1, 2⟩, [7])])] ++ [.flush (some 9)] ++ [])).stepEvs
        .workerIdle ∧
      c05Recovered.fs.linkedIds = [0, 84, 118] ∧
      c05Recovered.store.map (fun s => (s.closed.map Closed.id, s.openId)) = some ([0, 84], 118) ∧
      (c05Recovered.run ([.call (.append [(⟨1, 2⟩, [7])])] ++ [.flush (some 9)] ++ [] ++ [.workerIdle] ++ [])).fs.map
        (fun f => (f.id, f.data.length, f.durable, f.linked))
        = [(0, 84, 84, true), (84, 34, 34, true), (118, 67, 67, true)] := by
  obtain ⟨r', W, A, E, K, hli, hlast, hcl, _⟩ := lift_c05Recovered_inv
  obtain ⟨r2, hr2⟩ := run_append_one_LIFT r' ⟨1, 1⟩ ⟨1, 2⟩ [7] hlast (by decide) (by decide)
  refine ⟨r', W, A, E, K, r2, hli.1, hli.2.1, hr2, by decide, by decide +kernel,
    lift_clean_holds_no_request hcl (by decide +kernel), by decide +kernel, by decide +kernel,
    by decide +kernel, by decide +kernel⟩


/-- `c05Recovered`, restarted cleanly with other limits (chunks of three records, room for ONE
cache entry). -/
def liftRestarted : Sys :=
  (c05Recovered.step .drop).step (.openWith { maxRecords := 3, cacheItems := 1 })

/-- ... then `c05Round2` (an append, flushed and partly written), a process crash and a second
recovery. -/
def liftReachExample : Sys :=
  (({ fs := procCrash (liftRestarted.run c05Round2).fs, cfg := {} } : Sys).open).2.1

theorem lift_reach_c05Recovered : ReachLIFT c05Recovered := by
  obtain ⟨r, hr, h, hc, hnt⟩ := lift_c05Example_inv
  have h1 : ReachLIFT ((Sys.fresh { maxRecords := 3 }).run c05Example) :=
    ReachLIFT.hist c05Example {} r (ReachLIFT.fresh _) (by decide +kernel) (fresh_CSys _) hr
      lift_c05Example_wf (by decide +kernel)
  unfold c05Recovered
  exact ReachLIFT.recover _ {} h1 hc hnt rfl

theorem lift_reach_restarted : ReachLIFT liftRestarted := by
  obtain ⟨_, _, _, _, _, _, _, hcl, _⟩ := lift_c05Recovered_inv
  exact ReachLIFT.restart _ lift_reach_c05Recovered hcl

/-- **`ReachLIFT` is inhabited by a run that uses every constructor**: fresh store, history
`c05Example`, crash + recovery, clean restart with other limits, history `c05Round2`, second
crash + recovery. -/
theorem lift_reach_example : ReachLIFT liftReachExample := by
  obtain ⟨r0, W, A, E, K, hli⟩ := lift_reach_invariant lift_reach_restarted
  have hlast : r0.last = some ⟨1, 1⟩ := lift_csys_last hli.1.csys _ (by decide +kernel)
  obtain ⟨r2, hr2⟩ := run_append_one_LIFT r0 ⟨1, 1⟩ ⟨1, 2⟩ [7] hlast (by decide) (by decide)
  have hwf : ∀ op ∈ stepOps c05Round2, op.WF ∧ op.small := by
    intro op hop
    simp only [c05Round2, stepOps, List.mem_cons, List.not_mem_nil, or_false] at hop
    subst hop
    simp [Op.WF, Op.small, LogId.WF, bytesWF, smallId, U64, U32]
  have h4 : ReachLIFT (liftRestarted.run c05Round2) :=
    ReachLIFT.hist c05Round2 r0 r2 lift_reach_restarted (by decide +kernel) hli.1.csys hr2 hwf
      (by decide +kernel)
  unfold liftReachExample
  exact ReachLIFT.recover _ {} h4 (procCrash_image _ (by decide +kernel))
    (noTorn_of_noTornB_LIFT (by decide +kernel)) rfl

/-- The states along that run, computed by the model: the restarted store (room for one
cache entry) holds both entries — they were pinned while their chunk was replayed — with exact
accounting, and the same state and index keys; after
the second recovery the torn append is gone, the two acknowledged entries are there, and a
fresh chunk 152 follows the truncated chunk 118. By `c11_journal_invariant_reach` the journal
invariant, a refined reference log and exact cache accounting hold at the end. -/
example :
    liftRestarted.store.map (fun s => (s.cache.items, s.cache.size, s.st.last, logKeys s.log))
      = some ([(⟨1, 0⟩, [1]), (⟨1, 1⟩, [2])], 2, some ⟨1, 1⟩, [(0, ⟨1, 0⟩), (1, ⟨1, 1⟩)]) ∧
    (liftRestarted.run c05Round2).fs.map (fun f => (f.id, f.data.length, f.durable, f.linked))
      = [(0, 84, 84, true), (84, 34, 34, true), (118, 38, 34, true)] ∧
    liftReachExample.store.map (fun s => (s.st.last, logKeys s.log, s.closed.map Closed.id, s.openId))
      = some (some ⟨1, 1⟩, [(0, ⟨1, 0⟩), (1, ⟨1, 1⟩)], [0, 84, 118], 152) ∧
    liftReachExample.fs.map (fun f => (f.id, f.data.length, f.durable, f.linked))
      = [(0, 84, 84, true), (84, 34, 34, true), (118, 34, 34, true), (152, 34, 0, true)] ∧
    J liftReachExample ∧ (∃ r, CSys liftReachExample r) ∧ SysCacheInv liftReachExample := by
  obtain ⟨k1, k2, _, _, _, k6⟩ := c11_journal_invariant_reach lift_reach_example
  exact ⟨by decide +kernel, by decide +kernel, by decide +kernel, by decide +kernel, k1, k2, k6⟩

end RaftLog
