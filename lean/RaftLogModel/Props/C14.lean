/-
C14 — Dropping the store quiesces it.

`drop` closes the channel and joins the worker: with all-ok outcomes the worker
executes everything that is queued and exits (`pc = dead`, empty queue); after
`drop` returns no step of the system touches the file system until the next
`open`.

The model joins the worker with a bounded loop, `WCtx.runQuiet (Worker.fuel w)`.
`Worker.fuel` is sufficient: `drainCost + files.length + 6 ≤ fuel`, where
`Worker.drainCost` is a measure that every all-ok step decreases.

History: the first version of the model's `Worker.fuel` forgot the postponed
removals (`Worker.postponed`) and was NOT sufficient (a 29-ids-postponed state
reachable from `Sys.fresh` made the join loop stop in the middle of a removal;
this was found by this proof attempt and checked by `decide` at the time). The
fuel was then corrected to count `postponed.length`; the theorems below are
about the corrected fuel and need no bound on `postponed`.
-/
import RaftLogModel.Proofs.WorkerSys
namespace RaftLog

/-! ### (g) Termination -/

/-- (g) Own measure: every all-ok step from a non-quiet state decreases
`Worker.drainCost`, so any fuel `n ≥ drainCost` reaches a quiet state. No
assumption on the state. -/
theorem c14_worker_terminates_measure (c : WCtx) :
    (c.w.quiet = false → (c.step .ok).w.drainCost < c.w.drainCost) ∧
    ∀ n, c.w.drainCost ≤ n → (WCtx.runQuiet n c).w.quiet = true :=
  ⟨c.step_ok_decreases, fun n => WCtx.runQuiet_quiet n c⟩

/-- (g) Comparison with the model's fuel: `drainCost + files.length + 6 ≤ fuel`
(for states whose parked write data are non-empty, an invariant:
`c14_todoOK_invariant`, true of every reachable state: `c14_todoOK_reachable`). -/
theorem c14_fuel_bound (w : Worker) (ht : w.TodoOK) :
    w.drainCost + w.files.length + 6 ≤ w.fuel :=
  w.drainCost_le_fuel ht

/-- (g) The model's fuel reaches a quiet state. -/
theorem c14_fuel_sufficient (c : WCtx) (ht : c.w.TodoOK) :
    (WCtx.runQuiet c.w.fuel c).w.quiet = true :=
  c.runQuiet_fuel_quiet ht

theorem c14_todoOK_invariant (c : WCtx) (out : Outcome) (h : c.w.TodoOK) : (c.step out).w.TodoOK :=
  c.step_todoOK out h

/-- (g) With the model's `Worker.fuel`: once the channel is closed
(`senderAlive = false`, worker not blocked in `recv`), the all-ok run reaches
`pc = dead` with an empty queue. -/
theorem c14_worker_terminates (c : WCtx) (ha : c.w.senderAlive = false) (hi : c.w.pc ≠ .idle)
    (hdq : c.w.pc = .dead → c.w.queue = []) (ht : c.w.TodoOK) :
    (WCtx.runQuiet c.w.fuel c).w.quiet = true ∧
    (WCtx.runQuiet c.w.fuel c).w.pc = .dead ∧ (WCtx.runQuiet c.w.fuel c).w.queue = [] := by
  have hn : c.w.drainCost ≤ c.w.fuel := by
    have := c.w.drainCost_le_fuel ht
    omega
  exact ⟨WCtx.runQuiet_quiet _ c hn, WCtx.runQuiet_closing _ c ⟨ha, hi, hdq⟩ hn⟩

/-- (g) The same for any fuel `n ≥ drainCost`, without `TodoOK`. -/
theorem c14_worker_terminates_any (c : WCtx) (n : Nat) (ha : c.w.senderAlive = false)
    (hi : c.w.pc ≠ .idle) (hdq : c.w.pc = .dead → c.w.queue = []) (hn : c.w.drainCost ≤ n) :
    (WCtx.runQuiet n c).w.pc = .dead ∧ (WCtx.runQuiet n c).w.queue = [] :=
  WCtx.runQuiet_closing n c ⟨ha, hi, hdq⟩ hn

/-- Every state reachable from a store opened on an empty directory satisfies
the structural hypotheses (`Worker.WF`, `Worker.TodoOK`) while a store is open. -/
theorem c14_todoOK_reachable (cfg : Cfg) (steps : List Step)
    (hs : ((Sys.fresh cfg).run steps).store ≠ none) :
    ((Sys.fresh cfg).run steps).worker.WF ∧ ((Sys.fresh cfg).run steps).worker.TodoOK :=
  (SysWF.fresh cfg).run steps hs

/-! ### (h) `drop` -/

/-- (h) After `drop` of an open store: no store, lock released, worker thread
gone. The new file system and worker are those of the joined worker run
(`Sys.dropEnd`). Unconditional. -/
theorem c14_drop_state (y : Sys) (s : Store) (hs : y.store = some s) :
    y.dropStore.1.store = none ∧ y.dropStore.1.locked = false ∧ y.dropStore.1.worker.pc = .dead ∧
    y.dropStore.1.fs = (y.dropEnd s).fs ∧ y.dropStore.2 = (y.dropEnd s).evs := by
  rw [y.dropStore_eq s hs]
  exact ⟨rfl, rfl, rfl, rfl, rfl⟩

/-- (h) After `drop` nothing moves until the next `open`: worker steps, the
idle run, cache draining, calls and flushes leave the whole system (in
particular the file system) unchanged and emit no event. Unconditional. -/
theorem c14_after_drop_nothing_moves (y : Sys) (s : Store) (hs : y.store = some s) :
    (∀ out, y.dropStore.1.workerStep out = (y.dropStore.1, [])) ∧
    y.dropStore.1.workerIdle = (y.dropStore.1, []) ∧
    (∀ st : Step, (∃ out, st = .worker out) ∨ st = .workerIdle ∨ st = .drain ∨
        (∃ op, st = .call op) ∨ (∃ cb, st = .flush cb) ∨ st = .drop →
      y.dropStore.1.step st = y.dropStore.1) ∧
    (∀ out, (({ w := y.dropStore.1.worker, fs := y.dropStore.1.fs, cache := s.cache } : WCtx).step out)
      = { w := y.dropStore.1.worker, fs := y.dropStore.1.fs, cache := s.cache }) := by
  have h0 : y.dropStore.1.store = none := (c14_drop_state y s hs).1
  have hd : y.dropStore.1.worker.pc = .dead := (c14_drop_state y s hs).2.2.1
  generalize y.dropStore.1 = y' at h0 hd
  refine ⟨?_, ?_, ?_, ?_⟩
  · intro out; simp [Sys.workerStep, h0]
  · simp [Sys.workerIdle, h0]
  · intro st hst
    rcases hst with ⟨out, rfl⟩ | rfl | rfl | ⟨op, rfl⟩ | ⟨cb, rfl⟩ | rfl
    · simp [Sys.step, Sys.workerStep, h0]
    · simp [Sys.step, Sys.workerIdle, h0]
    · simp [Sys.step, Sys.drain, h0]
    · simp [Sys.step, Sys.call, h0]
    · simp [Sys.step, Sys.flush, h0]
    · simp [Sys.step, Sys.dropStore, h0]
  · intro out
    exact WCtx.step_deadW _ out hd

/-- (h) Every queued request was executed or (after a worker death) dropped:
the joined worker ended by itself with `pc = dead` and an empty queue (so the
`pc := dead` the model forces is a no-op). The two hypotheses on the worker
are invariants (`Worker.WF`, `Worker.TodoOK`), see `c14_drop_quiesces_reachable`. -/
theorem c14_drop_quiesces (y : Sys) (s : Store) (hs : y.store = some s)
    (hdq : y.worker.pc = .dead → y.worker.queue = []) (ht : y.worker.TodoOK) :
    y.dropStore.1.store = none ∧ y.dropStore.1.locked = false ∧
    y.dropStore.1.worker.pc = .dead ∧ y.dropStore.1.worker.queue = [] ∧
    y.dropStore.1.worker = (y.dropEnd s).w ∧ (y.dropEnd s).w.quiet = true := by
  obtain ⟨h1, h2⟩ := y.dropEnd_dead s hdq ht
  rw [y.dropStore_eq s hs]
  refine ⟨rfl, rfl, rfl, h2, ?_, ?_⟩
  · show { (y.dropEnd s).w with pc := .dead } = (y.dropEnd s).w
    rw [← h1]
  · simp [Worker.quiet, h1]

/-- (h) For every history from a store opened on an empty directory: no side
condition besides reachability and an open store. -/
theorem c14_drop_quiesces_reachable (cfg : Cfg) (steps : List Step) (s : Store)
    (hs : ((Sys.fresh cfg).run steps).store = some s) :
    (((Sys.fresh cfg).run steps).dropStore.1).store = none ∧
    (((Sys.fresh cfg).run steps).dropStore.1).locked = false ∧
    (((Sys.fresh cfg).run steps).dropStore.1).worker.pc = .dead ∧
    (((Sys.fresh cfg).run steps).dropStore.1).worker.queue = [] := by
  have hwf := (SysWF.fresh cfg).run steps (by simp [hs])
  have := c14_drop_quiesces _ s hs (fun hd => by simpa [Worker.WF, hd] using hwf.1) hwf.2
  exact ⟨this.1, this.2.1, this.2.2.1, this.2.2.2.1⟩

/-- (h) System level: open a store on an empty directory, run any history of
calls, flushes, worker steps (any outcomes), idle runs and drains, then `drop`.
The store is gone, the lock released, the worker thread ended by itself with
nothing queued; and ANY further history without `open` (worker steps, idle
runs, drains, calls, flushes, drops) leaves the system, in particular the
file system, unchanged: nothing touches the directory until the next `open`. -/
theorem c14_drop_quiesces_system (cfg : Cfg) (steps more : List Step)
    (hsteps : ∀ st ∈ steps, st.keepsStore = true) (hmore : ∀ st ∈ more, st.noOpen = true) :
    let y := ((Sys.fresh cfg).run steps).step .drop
    y.store = none ∧ y.locked = false ∧ y.worker.pc = .dead ∧ y.worker.queue = [] ∧
    y.run more = y ∧ (y.run more).fs = y.fs := by
  intro y
  have hsome := Sys.run_store_isSome hsteps (Sys.fresh_store_isSome cfg)
  cases hs : ((Sys.fresh cfg).run steps).store with
  | none => simp [hs] at hsome
  | some s =>
    obtain ⟨h1, h2, h3, h4⟩ := c14_drop_quiesces_reachable cfg steps s hs
    have h5 : y.run more = y := Sys.run_no_store h1 hmore
    exact ⟨h1, h2, h3, h4, h5, by rw [h5]⟩

/-- `drop` without a store does nothing. -/
theorem c14_drop_none (y : Sys) (hs : y.store = none) : y.dropStore = (y, []) := by
  simp [Sys.dropStore, hs]

/-! ### Non-vacuity -/

/-- A store with a flush and a rotation queued; the worker is in the middle
of a write. -/
def c14Demo : Sys :=
  { fs := [{ id := 0 }],
    locked := true,
    store := some { cfg := {}, cache := { maxItems := 4, capacity := 100 }, openOffsets := [0] },
    worker := { files := [⟨0, none⟩], pc := .writing [[1, 2]] [.write 2 [1, 2] (some 1)] none,
                queue := [.write 3 [3] (some 2), .appendFile 9 none, .removeChunks [0]] } }

example : c14Demo.dropStore.1.worker.queue = [] ∧ c14Demo.dropStore.1.worker.pc = .dead ∧
    c14Demo.dropStore.1.locked = false ∧
    cbsOf c14Demo.dropStore.2 = [(1, true), (2, true)] ∧
    c14Demo.dropStore.1.fs = [{ id := 0, data := [1, 2, 3], durable := 3, linked := false }] := by
  decide

/-- The history on which the first version of `Worker.fuel` fell short (30
chunks closed, 29 removals postponed behind a failed sync, one more rotation and
purge, `drop` while parked at the `fdatasync` of the next batch, the 29 removals
still postponed): with the corrected fuel the join completes all 33 unlinks
(the 29 postponed ones are retried right after that batch's good sync). -/
def c14PostponedHistory : List Step :=
  ((List.range 30).map fun i => Step.call (.append [(⟨1, i⟩, [])])) ++
  [.workerIdle, .call (.purge ⟨1, 28⟩), .flush none] ++ List.replicate 6 (.worker .ok) ++
  [.worker .eio, .call (.append [(⟨1, 30⟩, [])]),
   .call (.purge ⟨1, 30⟩), .flush none] ++
  List.replicate 2 (.worker .ok)

set_option maxRecDepth 100000 in
example :
    (∀ st ∈ c14PostponedHistory, st.keepsStore = true) ∧
    ((Sys.fresh { maxRecords := 1 }).run c14PostponedHistory).worker.postponed.length = 29 ∧
    ((((Sys.fresh { maxRecords := 1 }).run c14PostponedHistory).step .drop).worker.queue = []) ∧
    (((((Sys.fresh { maxRecords := 1 }).run c14PostponedHistory).step .drop).fs.filter
        (fun f => f.linked)).map (·.id)) = [2186] := by
  decide

end RaftLog
