/-
C16 — No argument makes a public operation panic.

Every panic site of the implementation that can be reached from the public
write API is an explicit `Res.panic` branch of the model (`next_log_index`
overflow, `last_segment` on a record-less chunk). The theorems below show
those branches are unreachable for *every* argument value as long as no log
index equals u64::MAX (`smallId`): that single excluded class is the known
finding `C16/index-u64-max` (witness: `c16_witness_u64_max`).
`_partial` = the statement of the property minus exactly that class.
-/
import RaftLogModel.Proofs.NoPanic
import RaftLogModel.Model.Sys
namespace RaftLog

/-- One call: never a panic, and the invariant that makes the next call safe
is kept — for all vote/commit arguments, all truncate indexes (0, below the
purge point, u64::MAX …), all purge and append ids with `index ≠ u64::MAX`. -/
theorem c16_call_no_panic_partial (s : Store) (fsHas : Nat → Bool) (op : Op)
    (hp : PanicFree s) (hop : op.small) :
    (∀ m, (s.call fsHas op).1 ≠ .panic m) ∧ PanicFree (s.call fsHas op).2.1 :=
  call_ok fsHas op hp hop

/-- A freshly opened store satisfies the invariant. -/
theorem c16_fresh_panicFree (cfg : Cfg) : ∃ s, (Sys.fresh cfg).store = some s ∧ PanicFree s := by
  have h : ∃ s, (Sys.fresh cfg).store = some s ∧ s.openOffsets.length = 2 ∧ s.st = {} ∧ s.log = [] := by
    simp [Sys.fresh, Sys.open, openStore, Fs.linkedIds, openLoop, emptyStore, Fs.has, Fs.find]
  obtain ⟨s, h1, h2, h3, h4⟩ := h
  refine ⟨s, h1, ⟨by omega, by rw [h3]; trivial, by rw [h3]; trivial, by rw [h4]; intro e he; cases he⟩⟩

/-- Every history of calls with such arguments from a fresh store: no call in
it panics (by induction over the history). -/
theorem c16_history_no_panic_partial (fsHas : Nat → Bool) (ops : List Op) (s : Store)
    (hp : PanicFree s) (hops : ∀ op ∈ ops, op.small) :
    ∀ pre op post, ops = pre ++ op :: post →
      ∀ m, ((pre.foldl (fun s o => (s.call fsHas o).2.1) s).call fsHas op).1 ≠ .panic m := by
  intro pre op post hsplit
  have hpre : PanicFree (pre.foldl (fun s o => (s.call fsHas o).2.1) s) := by
    have hsm : ∀ o ∈ pre, o.small := fun o ho => hops o (by rw [hsplit]; exact List.mem_append_left _ ho)
    clear hsplit
    induction pre generalizing s with
    | nil => exact hp
    | cons o rest ih =>
      simp only [List.foldl_cons]
      exact ih _ (call_ok fsHas o hp (hsm o List.mem_cons_self)).2
        (fun o' ho' => hsm o' (List.mem_cons_of_mem _ ho'))
  exact (call_ok fsHas op hpre (hops op (by rw [hsplit]; simp))).1

/-- `read(from, to)` with `to ≤ from` (inverted or empty range) yields nothing. -/
theorem c16_read_inverted_empty (s : Store) (fs : Fs) (a b : Nat) (h : b ≤ a) :
    (s.read fs a b).1 = [] := by
  unfold Store.read
  have : s.log.filter (fun e => decide (a ≤ e.1) && decide (e.1 < b)) = [] := by
    apply List.filter_eq_nil_iff.mpr
    intro e _
    simp
    omega
  simp [this, readLoop]

/-- `truncate` below or at the purge point is an error, never a panic: the
`index - 1` of the implementation is guarded (fix of D4). -/
theorem c16_truncate_zero_is_error (s : Store) (fsHas : Nat → Bool) (p : LogId)
    (hp : s.st.purged = some p) (hsm : smallId p) :
    (s.call fsHas (.truncate 0)).1 = .err .indexNotFound := by
  have h : p.index + 1 < U64 := hsm
  simp [Store.call, hp, nextIndexChecked, h]

/-- The excluded class is real: a purge at index u64::MAX panics in the model
(and in the implementation: corpus/C16/purge-u64-max.script). -/
theorem c16_witness_u64_max :
    ((emptyStore {}).appendAndApply (fun _ => false) (.purgeUpto ⟨1, 2 ^ 64 - 1⟩)).1
      = .panic "next_log_index overflow (apply)" := by
  decide

end RaftLog
