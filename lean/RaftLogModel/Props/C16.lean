/-
C16 — No argument makes a public operation panic.

Every panic site of the implementation that can be reached from the public
write API is an explicit `Res.panic` branch of the model (`next_log_index`
overflow, `last_segment` on a record-less chunk). The theorems below show
those branches are unreachable for *every* argument value as long as no log
index equals u64::MAX (`smallId`). That single excluded class WAS the known
finding `C16/index-u64-max`; since the fix D12 `append` and `purge` refuse such
ids with `InvalidInput` (`c16_u64_max_is_refused`), and the property holds for
every well-formed argument: `c16_call_no_panic`, `c16_history_no_panic` in
Props/C16All2.lean. The `_partial` theorems (hypothesis `small`) are kept.
-/
import RaftLogModel.Proofs.NoPanic
import RaftLogModel.Model.Sys
namespace RaftLog

/-- One call: never a panic, and the invariant that makes the next call safe
is kept — for all vote/commit arguments, all truncate indexes (0, below the
purge point, u64::MAX …), all purge and append ids with `index ≠ u64::MAX`. -/
theorem c16_call_no_panic_partial (s : Store) (fsHas : Nat → Bool) (op : Op)
    (hp : PanicFree s) (hop : op.small) :
    (∀ m, (s.call fsHas op).1 ≠ .panic m) ∧ PanicFree (s.call fsHas op).2.1 :=
  call_ok fsHas op hp hop

/-- A freshly opened store satisfies the invariant. -/
theorem c16_fresh_panicFree (cfg : Cfg) : ∃ s, (Sys.fresh cfg).store = some s ∧ PanicFree s := by
  have h : ∃ s, (Sys.fresh cfg).store = some s ∧ s.openOffsets.length = 2 ∧ s.st = {} ∧ s.log = [] := by
    simp [Sys.fresh, Sys.open, openStore, Fs.linkedIds, openLoop, emptyStore, Fs.has, Fs.find]
  obtain ⟨s, h1, h2, h3, h4⟩ := h
  refine ⟨s, h1, ⟨by omega, by rw [h3]; trivial, by rw [h3]; trivial, by rw [h4]; intro e he; cases he⟩⟩

/-- Every history of calls with such arguments from a fresh store: no call in
it panics (by induction over the history). -/
theorem c16_history_no_panic_partial (fsHas : Nat → Bool) (ops : List Op) (s : Store)
    (hp : PanicFree s) (hops : ∀ op ∈ ops, op.small) :
    ∀ pre op post, ops = pre ++ op :: post →
      ∀ m, ((pre.foldl (fun s o => (s.call fsHas o).2.1) s).call fsHas op).1 ≠ .panic m := by
  intro pre op post hsplit
  have hpre : PanicFree (pre.foldl (fun s o => (s.call fsHas o).2.1) s) := by
    have hsm : ∀ o ∈ pre, o.small := fun o ho => hops o (by rw [hsplit]; exact List.mem_append_left _ ho)
    clear hsplit
    induction pre generalizing s with
    | nil => exact hp
    | cons o rest ih =>
      simp only [List.foldl_cons]
      exact ih _ (call_ok fsHas o hp (hsm o List.mem_cons_self)).2
        (fun o' ho' => hsm o' (List.mem_cons_of_mem _ ho'))
  exact (call_ok fsHas op hpre (hops op (by rw [hsplit]; simp))).1

/-- `read(from, to)` with `to ≤ from` (inverted or empty range) yields nothing. -/
theorem c16_read_inverted_empty (s : Store) (fs : Fs) (a b : Nat) (h : b ≤ a) :
    (s.read fs a b).1 = [] := by
  unfold Store.read
  have : s.log.filter (fun e => decide (a ≤ e.1) && decide (e.1 < b)) = [] := by
    apply List.filter_eq_nil_iff.mpr
    intro e _
    simp
    omega
  simp [this, readLoop]

/-- `truncate` below or at the purge point is an error, never a panic: the
`index - 1` of the implementation is guarded (fix of D4). -/
theorem c16_truncate_zero_is_error (s : Store) (fsHas : Nat → Bool) (p : LogId)
    (hp : s.st.purged = some p) (hsm : smallId p) :
    (s.call fsHas (.truncate 0)).1 = .err .indexNotFound := by
  have h : p.index + 1 < U64 := hsm
  simp [Store.call, hp, nextIndexChecked, h]

/-- **D12: the formerly excluded class is refused.** (Before the fix a purge or an
append at index u64::MAX panicked in `next_log_index`: finding
`C16/index-u64-max`, corpus/C16/purge-u64-max.script.) For EVERY store, every
term, every payload and every rest of the batch: `purge (term, u64::MAX)` and
`append [((term, u64::MAX), p), …]` return `InvalidInput`, return the store
unchanged and emit no effect. (`append` looks at the open chunk's last segment
first — `2 ≤ s.openOffsets.length`, part of `PanicFree`, true for every open
store.) -/
theorem c16_u64_max_is_refused (s : Store) (fsHas : Nat → Bool) (term : Nat) :
    s.call fsHas (.purge ⟨term, 2 ^ 64 - 1⟩) = (.err .invalidInput, s, []) ∧
    (2 ≤ s.openOffsets.length → ∀ p rest,
      s.call fsHas (.append ((⟨term, 2 ^ 64 - 1⟩, p) :: rest)) = (.err .invalidInput, s, [])) := by
  have hidx : (⟨term, 2 ^ 64 - 1⟩ : LogId).index + 1 = U64 := by
    show 2 ^ 64 - 1 + 1 = 2 ^ 64
    omega
  refine ⟨call_purge_refused_D12 s fsHas _ hidx, ?_⟩
  intro h2 p rest
  obtain ⟨seg, hseg⟩ := lastSegment_some h2
  simp only [Store.call, hseg]
  exact appendBatch_cons_refused_D12 fsHas _ p rest s seg [] hidx

/-- The same for any id whose index is u64::MAX, stated with `index + 1 = U64`. -/
theorem c16_u64_max_is_refused' (s : Store) (fsHas : Nat → Bool) (id : LogId)
    (hidx : id.index + 1 = U64) :
    s.call fsHas (.purge id) = (.err .invalidInput, s, []) ∧
    (2 ≤ s.openOffsets.length → ∀ p rest,
      s.call fsHas (.append ((id, p) :: rest)) = (.err .invalidInput, s, [])) := by
  refine ⟨call_purge_refused_D12 s fsHas _ hidx, ?_⟩
  intro h2 p rest
  obtain ⟨seg, hseg⟩ := lastSegment_some h2
  simp only [Store.call, hseg]
  exact appendBatch_cons_refused_D12 fsHas _ p rest s seg [] hidx

/-- Checked by evaluation on the concrete state of the old witness (the empty
store) and on a freshly opened store (which has an open chunk with a head
record, as `append` needs). -/
theorem c16_u64_max_is_refused_witness :
    (emptyStore {}).call (fun _ => false) (.purge ⟨1, 2 ^ 64 - 1⟩)
      = (.err .invalidInput, emptyStore {}, []) ∧
    (Sys.fresh {}).store.map (fun s => s.call (fun _ => false) (.purge ⟨1, 2 ^ 64 - 1⟩))
      = (Sys.fresh {}).store.map (fun s => (.err .invalidInput, s, [])) ∧
    (Sys.fresh {}).store.map (fun s => s.call (fun _ => false) (.append [(⟨1, 2 ^ 64 - 1⟩, [1])]))
      = (Sys.fresh {}).store.map (fun s => (.err .invalidInput, s, [])) := by
  refine ⟨by decide, by decide, by decide⟩

/-- The internal overflow branch of `append_and_apply` still exists in the model
(`Types::next_log_index` is still a checked add), but the public API no longer
reaches it: `purge`/`append` refuse the id first (`c16_u64_max_is_refused`). -/
theorem c16_internal_overflow_branch :
    ((emptyStore {}).appendAndApply (fun _ => false) (.purgeUpto ⟨1, 2 ^ 64 - 1⟩)).1
      = .panic "next_log_index overflow (apply)" := by
  decide

end RaftLog
