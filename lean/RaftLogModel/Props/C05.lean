/-
C05 — Recovery (`RaftLog::open`) never panics on small log ids, and a newest
chunk without a complete record is replaced by a fresh chunk with the same id.

Helpers: `Proofs/Parse.lean`, `Proofs/Recover.lean`.

Vocabulary (defined in `Proofs/Recover.lean`):
* `RecSmall r`: the log ids of `r` satisfy `index + 1 < 2^64` (`Record.small` of
  `Proofs/NoPanic.lean`) and a `State` record carries small `purged`/`last`.
* `DataSmall data`: every record `parseChunk data` yields is `RecSmall`.
* `FsSmall fs`: for every linked chunk id, the file `open` reads for it
  (`fs.find id`) is `DataSmall`.
* `Headless cfg data`: `data = []`, or `cfg.truncate` and `data` is a non-empty
  strict prefix of the encoding of a well-formed record.
* `Loads cfg ids a a'`: the loop loads the undamaged, abutting, non-empty chunks
  `ids` from accumulator `a`, replaying without error, and ends in `a'`.
-/
import RaftLogModel.Proofs.Recover
namespace RaftLog

/-- (h) `open` never panics, provided every record it reads from the linked
files has log ids whose `index + 1` fits a u64. The three panic sites of the
model are excluded: `next_log_index` overflow in replay (`applyIndex`),
`RaftLogState::append` overflow, and the `"unreachable"` branch after choosing
to reuse the last closed chunk. -/
theorem c05_open_no_panic_partial (cfg : Cfg) (fs : Fs) (h : FsSmall fs) :
    ∀ m, (openStore cfg fs).1 ≠ .panic m :=
  openStore_no_panic cfg fs h

theorem c05_open_no_panic_partial' (cfg : Cfg) (fs : Fs) (h : FsSmall fs) :
    (openStore cfg fs).1.isPanic = false := by
  cases hr : (openStore cfg fs).1 with
  | panic m => exact absurd hr (c05_open_no_panic_partial cfg fs h m)
  | ok _ => rfl
  | err _ => rfl

/-- A sufficient condition for `FsSmall`: every file (linked or not) parses to
small records. -/
theorem c05_fsSmall_of_all (fs : Fs) (h : ∀ f ∈ fs, DataSmall f.data) : FsSmall fs := by
  intro id _ f hf
  exact h f (List.mem_of_find?_eq_some hf)

/-- The reuse branch of `open` never takes its `"unreachable"` arm: a non-empty
list has a last element. -/
theorem c05_reuse_has_last (closed : List Closed) (h : (!closed.isEmpty) = true) :
    ∃ c, closed.getLast? = some c := by
  cases hc : closed.getLast? with
  | some c => exact ⟨c, rfl⟩
  | none =>
    rw [List.getLast?_eq_none_iff.mp hc] at h
    simp at h

/-- The smallness hypothesis of (h) cannot be dropped: a chunk holding
`PurgeUpto (0, u64::MAX)` makes the model of `open` panic (overflow of
`next_log_index` during replay). Since D12 (`append`/`purge` refuse such ids with
`InvalidInput`) no store can produce this file any more — every chunk file of a
reachable state holds small records only, for ANY well-formed history:
`c16_open_no_panic_history_all`, `c16_recovery_never_panics` in
Props/C16All2.lean — so this is about a hand-made (or foreign) file. -/
theorem c05_open_panics_on_max_index :
    (openStore {} [{ id := 0, data := encRecord (.purgeUpto ⟨0, 2 ^ 64 - 1⟩) }]).1.isPanic = true := by
  decide +kernel

/-- (i) Headless newest chunk, general form. The linked ids are `ids ++ [h]`;
the chunks `ids` load cleanly (`Loads`), the newest file `h` starts where they
end (`gapCheck`) and holds no complete record. Then `open` succeeds; the file
`h` is unlinked and a new file with the SAME id `h` is created holding exactly
the `State` record of the replayed state; no other file is changed except that the
kept chunks `ids` were synced (D15: `fs.syncAll ids` in the frame condition). -/
theorem c05_headless_newest_is_recreated (cfg : Cfg) (fs : Fs) (ids : List Nat) (h : Nat)
    (a' : OpenAcc) (f : File)
    (hids : fs.linkedIds = ids ++ [h])
    (hload : Loads cfg ids { sm := emptyStore cfg, fs := fs } a')
    (habut : gapCheck a' h = false)
    (hfind : fs.find h = some f) (hd : Headless cfg f.data) :
    ∃ s w fs' pre,
      openStore cfg fs = (.ok (s, w), fs',
        pre ++ [.unlink "o" h true, .create "o" h true,
                .write "o" h (encRecord (.state a'.sm.st)) true]) ∧
      s.st = a'.sm.st ∧
      s.openOffsets = [h, h + (encRecord (.state a'.sm.st)).length] ∧
      w.files = [⟨h, prevLastOf a'.sm.closed⟩] ∧
      fs'.find h = some { id := h, data := encRecord (.state a'.sm.st), durable := 0,
                          linked := true } ∧
      ∀ id, id ≠ h → fs'.find id = (fs.syncAll ids).find id := by
  obtain ⟨hfs, hevs⟩ := hload.fs_evs
  obtain ⟨f1, hfind1, hd1, _, _⟩ := Fs.find_syncAll_some ids hfind
  have hfind' : a'.fs.find h = some f1 := by rw [hfs]; exact hfind1
  obtain ⟨tr, hl⟩ := openLoop_headless habut hfind' (hd1 ▸ hd)
  have hloop : openLoop cfg fs.linkedIds { sm := emptyStore cfg, fs := fs }
      = (.ok (a'.dropHeadless h tr), a'.dropHeadless h tr) := by
    rw [hids, hload.openLoop_append, hl]
  have hst := openStore_fresh (n := h) hloop (Or.inl rfl) rfl (dropHeadless_has a' h tr)
  have hsm : (a'.dropHeadless h tr).sm.st = a'.sm.st := by cases tr <;> rfl
  have hcl : (a'.dropHeadless h tr).sm.closed = a'.sm.closed := by cases tr <;> rfl
  rw [hsm, hcl] at hst
  obtain ⟨hnew, hother⟩ := find_create_write (a'.dropHeadless h tr).fs h
    (encRecord (.state a'.sm.st))
  have hev : (a'.dropHeadless h tr).evs = (a'.pre.afterTrunc h tr).evs ++ [.unlink "o" h true] :=
    rfl
  rw [hev, List.append_assoc] at hst
  refine ⟨_, _, _, _, hst, hsm, rfl, rfl, hnew, ?_⟩
  intro id hid
  rw [hother id hid, dropHeadless_find_other a' hid tr, hfs]

/-- (i) for a directory with exactly one (headless) file: `open` succeeds and
the directory afterwards holds exactly one file, with the same id, containing
the encoding of the default state. -/
theorem c05_headless_only_file (cfg : Cfg) (i : Nat) (data : Bytes) (d : Nat)
    (hd : Headless cfg data) :
    ∃ s w evs,
      openStore cfg [{ id := i, data := data, durable := d, linked := true }] =
        (.ok (s, w), [{ id := i, data := encRecord (.state {}), durable := 0, linked := true }],
          evs) ∧
      s.st = {} ∧ s.openOffsets = [i, i + (encRecord (.state {})).length] ∧
      w.files = [⟨i, none⟩] ∧ Ev.unlink "o" i true ∈ evs := by
  let f : File := { id := i, data := data, durable := d, linked := true }
  have hids : Fs.linkedIds [f] = [] ++ [i] := by
    simp [Fs.linkedIds, f, insertNat]
  have hfind : Fs.find [f] i = some f := by simp [Fs.find, f]
  obtain ⟨tr, hl⟩ := openLoop_headless (cfg := cfg) (a := { sm := emptyStore cfg, fs := [f] })
    (id := i) rfl hfind hd
  have hloop : openLoop cfg (Fs.linkedIds [f]) { sm := emptyStore cfg, fs := [f] } =
      (.ok (OpenAcc.dropHeadless { sm := emptyStore cfg, fs := [f] } i tr),
        OpenAcc.dropHeadless { sm := emptyStore cfg, fs := [f] } i tr) := by
    rw [hids]; exact hl
  have hst := openStore_fresh (n := i) hloop (Or.inl rfl) rfl (dropHeadless_has _ i tr)
  have hsm : (OpenAcc.dropHeadless { sm := emptyStore cfg, fs := [f] } i tr).sm.st = {} := by
    cases tr <;> rfl
  have hcl : (OpenAcc.dropHeadless { sm := emptyStore cfg, fs := [f] } i tr).sm.closed = [] := by
    cases tr <;> rfl
  rw [hsm, hcl] at hst
  have hfs : ((OpenAcc.dropHeadless { sm := emptyStore cfg, fs := [f] } i tr).fs.create i).write i
      (encRecord (.state {})) = [{ id := i, data := encRecord (.state {}), durable := 0,
                                   linked := true }] := by
    cases tr <;>
      simp [OpenAcc.dropHeadless, OpenAcc.afterTrunc, OpenAcc.pre, Fs.unlink, Fs.truncate,
        Fs.update, Fs.create, Fs.write, f]
  rw [hfs] at hst
  refine ⟨_, _, _, hst, hsm, rfl, rfl, ?_⟩
  cases tr <;> simp [OpenAcc.dropHeadless, OpenAcc.afterTrunc, OpenAcc.pre]

/-! ### Non-vacuity -/

/-- A one-file directory whose only file is torn after 5 bytes of its head
record: `open` recreates the chunk with the same id 7. -/
example : (openStore {} [{ id := 7, data := (encRecord (.state {})).take 5 }]).2.1
    = [{ id := 7, data := encRecord (.state {}) }] := by decide +kernel

example : Headless {} ((encRecord (.state {})).take 5) :=
  Or.inr ⟨rfl, by decide, .state {}, (encRecord (.state {})).drop 5,
    by simp [Record.WF, RState.WF, optWF], by decide, List.take_append_drop 5 _⟩

/-- `FsSmall` holds for a concrete chunk. -/
example : FsSmall [{ id := 0, data := encAll [.state {}, .append ⟨1, 0⟩ [1, 2, 3]] }] := by
  apply c05_fsSmall_of_all
  intro f hf
  simp only [List.mem_singleton] at hf
  subst hf
  have hwf : AllWF [.state {}, .append ⟨1, 0⟩ [1, 2, 3]] := by
    intro r hr
    simp only [List.mem_cons, List.not_mem_nil, or_false] at hr
    rcases hr with rfl | rfl
    · simp [Record.WF, RState.WF, optWF]
    · simp [Record.WF, LogId.WF, bytesWF, U64, U32]
  unfold DataSmall
  rw [parse_encAll' hwf]
  intro x hx
  simp only [sized, List.map_cons, List.map_nil, List.mem_cons, List.not_mem_nil, or_false] at hx
  rcases hx with rfl | rfl
  · exact ⟨trivial, fun x hx => by injection hx with hx; subst hx; exact ⟨trivial, trivial⟩⟩
  · exact ⟨by simp [Record.small, smallId, U64], fun x hx => by cases hx⟩

/-- `Loads` is inhabited on a concrete two-file directory: chunk 0 holds one
`State` record (18 bytes), chunk 18 is torn inside its head record. -/
example : ∃ a', Loads {} [0]
      { sm := emptyStore {},
        fs := [{ id := 0, data := encAll [.state {}] },
               { id := 18, data := (encRecord (.state {})).take 5 }] } a' ∧
    gapCheck a' 18 = false := by
  have hwf : AllWF [.state {}] := by
    intro r hr
    simp only [List.mem_singleton] at hr
    subst hr
    simp [Record.WF, RState.WF, optWF]
  have hok : (replay 0 [.state {}] (offsetsFrom 0 (sizes [.state {}])) (emptyStore {})).isOk
      = true := by decide +kernel
  cases hr : replay 0 [.state {}] (offsetsFrom 0 (sizes [.state {}])) (emptyStore {}) with
  | ok sm2 =>
    refine ⟨_, Loads.cons (f := { id := 0, data := encAll [.state {}] }) rfl rfl rfl hwf (by simp) hr (Loads.nil _), ?_⟩
    have : (encRecord (Record.state {})).length = 18 := by decide
    simp [gapCheck, OpenAcc.loaded_prevEnd, this]
  | err k => rw [hr] at hok; cases hok
  | panic m => rw [hr] at hok; cases hok

example : (openStore {} [{ id := 0, data := encAll [.state {}] },
               { id := 18, data := (encRecord (.state {})).take 5 }]).2.1
    = [{ id := 0, data := encAll [.state {}], durable := 18 },
       { id := 18, data := encRecord (.state {}) }] := by
  decide +kernel

end RaftLog
