/-
C15, middle clause, at the level of the API CALL and of reachable SYSTEM states.

"Whenever either [the item count or the byte size] exceeds its configured
limit after a write, every resident entry lies above the evictable boundary in
force at that write, i.e. only entries the store must keep pinned are over the
limit."

Props/C15.lean proves this for ONE `Cache.insert`. Here it is proved for

* the store returned by ANY `append es` call (`Store.call … (.append es)`):
  accepted, or refused at its k-th entry after k entries were inserted (state
  refusal: `nonConsecutive`/`logIdReversal`/overflow panic; or a failed chunk
  rotation `create_new` AFTER the k-th entry was inserted), with any number of
  chunk rotations in between (`c15_append_call_only_pinned`,
  `c15_append_call_unchanged_or_only_pinned`,
  `c15_append_call_first_accepted_only_pinned`);
* the other five ops: they never add a resident entry and never move the
  boundary (`c15_nonappend_cache_subset`, `c15_meta_cache_unchanged`);
  no caller-side call moves the boundary or the limits
  (`c15_call_boundary_unchanged`);
* every reachable system state right after an `append` call, for every
  history of live steps (`Step.live`, as in Props/C15.lean: calls accepted or
  rejected, flushes, drains, worker steps with arbitrary outcomes), with the
  limits read off the configuration (`c15_sys_append_only_pinned`), and for
  histories with clean restarts in the sense of Props/C15Restart.lean
  (`c15_sys_append_only_pinned_with_restarts`).

"The call inserted at least one entry" is stated as: `st.last` of the returned
store differs from the one before the call (`c15_append_call_inserted_iff`:
equivalent to "the returned store differs at all"; if the first entry of the
batch is accepted by the state it holds, if it is refused the store is
returned untouched).
-/
import RaftLogModel.Proofs.CacheCall
import RaftLogModel.Props.C15
import RaftLogModel.Props.C15Restart
namespace RaftLog

/-! ### (1) One `append es` call -/

/-- **The store after `append es` is the old one, or only pinned entries
exceed the limits.** For every store satisfying the cache invariant and every
batch: either NOTHING was inserted and the returned store is `s` itself, or
`last` grew strictly and, if a limit is exceeded in the returned store, every
resident id is above the boundary (which is the boundary in force before the
call: `c15_call_boundary_unchanged`). -/
theorem c15_append_call_unchanged_or_only_pinned (s : Store) (fsHas : Nat → Bool)
    (es : List (LogId × Bytes)) (hinv : CacheInv s) :
    (s.call fsHas (.append es)).2.1 = s ∨
    (optLt s.st.last (s.call fsHas (.append es)).2.1.st.last = true ∧
     ((s.call fsHas (.append es)).2.1.cache.items.length > (s.call fsHas (.append es)).2.1.cache.maxItems ∨
        (s.call fsHas (.append es)).2.1.cache.size > (s.call fsHas (.append es)).2.1.cache.capacity →
      KeysGt (s.call fsHas (.append es)).2.1.cache.items
        (s.call fsHas (.append es)).2.1.cache.lastEvictable)) := by
  rcases call_append_C15b fsHas es hinv with h | h
  · exact Or.inl h
  · exact Or.inr ⟨h.last_lt, h.pinned⟩

/-- "Inserted" = "`last` changed" = "the returned store differs". -/
theorem c15_append_call_inserted_iff (s : Store) (fsHas : Nat → Bool)
    (es : List (LogId × Bytes)) (hinv : CacheInv s) :
    (s.call fsHas (.append es)).2.1.st.last ≠ s.st.last ↔ (s.call fsHas (.append es)).2.1 ≠ s := by
  constructor
  · intro h e; rw [e] at h; exact h rfl
  · intro h
    rcases call_append_C15b fsHas es hinv with h1 | h1
    · exact absurd h1 h
    · exact h1.last_ne

/-- **C15 at call level.** If the `append es` call inserted at least one entry
(accepted, or refused at a later entry, with rotations in between) and a limit
is exceeded in the returned store, every resident id lies above the boundary. -/
theorem c15_append_call_only_pinned (s : Store) (fsHas : Nat → Bool) (es : List (LogId × Bytes))
    (hinv : CacheInv s)
    (hins : (s.call fsHas (.append es)).2.1.st.last ≠ s.st.last)
    (hover : (s.call fsHas (.append es)).2.1.cache.items.length >
               (s.call fsHas (.append es)).2.1.cache.maxItems ∨
             (s.call fsHas (.append es)).2.1.cache.size >
               (s.call fsHas (.append es)).2.1.cache.capacity) :
    KeysGt (s.call fsHas (.append es)).2.1.cache.items
      (s.call fsHas (.append es)).2.1.cache.lastEvictable := by
  rcases c15_append_call_unchanged_or_only_pinned s fsHas es hinv with h | h
  · rw [h] at hins; exact absurd rfl hins
  · exact h.2 hover

/-- The same with "the first entry of the batch is accepted by the state" as
the condition (the open chunk has a record, as in every reachable store;
otherwise the call panics before touching anything). D12: the first entry's
index must not be u64::MAX (`hidx`) — such an entry is refused with
`InvalidInput` before the state sees it, and nothing is inserted. -/
theorem c15_append_call_first_accepted_only_pinned (s : Store) (fsHas : Nat → Bool) (id : LogId)
    (p : Bytes) (rest : List (LogId × Bytes)) (st' : RState) (hinv : CacheInv s)
    (hseg : lastSegment s.openOffsets ≠ none)
    (hacc : s.st.apply (.append id p) = .ok st')
    (hidx : id.index + 1 ≠ U64)
    (hover : (s.call fsHas (.append ((id, p) :: rest))).2.1.cache.items.length >
               (s.call fsHas (.append ((id, p) :: rest))).2.1.cache.maxItems ∨
             (s.call fsHas (.append ((id, p) :: rest))).2.1.cache.size >
               (s.call fsHas (.append ((id, p) :: rest))).2.1.cache.capacity) :
    KeysGt (s.call fsHas (.append ((id, p) :: rest))).2.1.cache.items
        (s.call fsHas (.append ((id, p) :: rest))).2.1.cache.lastEvictable ∧
    (s.call fsHas (.append ((id, p) :: rest))).2.1.st.last ≠ s.st.last := by
  have key : InsertedC15b s (s.call fsHas (.append ((id, p) :: rest))).2.1 := by
    simp only [Store.call]
    split
    · rename_i h; exact absurd h hseg
    · exact appendBatch_first_acc_C15b fsHas id p rest s _ [] st' hinv hacc hidx
  exact ⟨key.pinned hover, key.last_ne⟩

/-- If the first entry is refused by the state (or the batch is empty) the
call returns the store untouched: nothing was inserted. -/
theorem c15_append_call_first_refused_unchanged (s : Store) (fsHas : Nat → Bool) (id : LogId)
    (p : Bytes) (rest : List (LogId × Bytes))
    (hrej : ∀ st', s.st.apply (.append id p) ≠ .ok st') :
    (s.call fsHas (.append ((id, p) :: rest))).2.1 = s ∧ (s.call fsHas (.append [])).2.1 = s := by
  constructor
  · simp only [Store.call]
    split
    · rfl
    · exact appendBatch_first_rej_C15b fsHas id p rest s _ [] hrej
  · simp only [Store.call]
    split <;> rfl

/-! ### (2) The other ops; the boundary -/

/-- **No caller-side call moves the boundary or the limits** (a chunk rotation
on the caller side only SENDS `appendFile` to the worker; the boundary is
published by the worker's `sync` and by `open`). Hence "the boundary in force
at that write" is the `lastEvictable` of the returned store. -/
theorem c15_call_boundary_unchanged (s : Store) (fsHas : Nat → Bool) (op : Op) (hinv : CacheInv s) :
    (s.call fsHas op).2.1.cache.lastEvictable = s.cache.lastEvictable ∧
    (s.call fsHas op).2.1.cache.maxItems = s.cache.maxItems ∧
    (s.call fsHas op).2.1.cache.capacity = s.cache.capacity :=
  call_boundary_limits_C15b fsHas op hinv

/-- **Only `append` inserts.** After any of the five other ops the resident
entries are a sublist of (in particular a subset of) those before, and the
boundary is unchanged. -/
theorem c15_nonappend_cache_subset (s : Store) (fsHas : Nat → Bool) (op : Op) (hinv : CacheInv s)
    (hop : ∀ es, op ≠ .append es) :
    (s.call fsHas op).2.1.cache.items.Sublist s.cache.items ∧
    (∀ e ∈ (s.call fsHas op).2.1.cache.items, e ∈ s.cache.items) ∧
    (s.call fsHas op).2.1.cache.lastEvictable = s.cache.lastEvictable := by
  have hop' : op.nonAppendC15b = true := by
    cases op with
    | append es => exact absurd rfl (hop es)
    | _ => rfl
  have h := call_nonappend_C15b fsHas op hinv.ok hop'
  exact ⟨h.sub, fun e he => h.sub.subset he, h.boundary⟩

/-- Vote, commit and user-data calls leave the whole cache as it is. -/
theorem c15_meta_cache_unchanged (s : Store) (fsHas : Nat → Bool) :
    (∀ v, (s.call fsHas (.saveVote v)).2.1.cache = s.cache) ∧
    (∀ id, (s.call fsHas (.commit id)).2.1.cache = s.cache) ∧
    (∀ d, (s.call fsHas (.saveUserData d)).2.1.cache = s.cache) :=
  ⟨fun v => call_meta_cache_C15b s fsHas _ (Or.inl ⟨v, rfl⟩),
   fun id => call_meta_cache_C15b s fsHas _ (Or.inr (Or.inl ⟨id, rfl⟩)),
   fun d => call_meta_cache_C15b s fsHas _ (Or.inr (Or.inr ⟨d, rfl⟩))⟩

/-! ### (3) Reachable system states -/

theorem Sys.run_snoc_C15b (y : Sys) (steps : List Step) (st : Step) :
    y.run (steps ++ [st]) = (y.run steps).step st := by
  simp only [Sys.run, List.foldl_append, List.foldl_cons, List.foldl_nil]

theorem Sys.step_call_store_C15b (y : Sys) (op : Op) (s : Store) (hs : y.store = some s) :
    (y.step (.call op)).store = some (s.call y.fs.has op).2.1 := by
  simp only [Sys.step, Sys.call, hs]

theorem Sys.step_call_store_none_C15b (y : Sys) (op : Op) (hs : y.store = none) :
    (y.step (.call op)).store = none := by
  simp only [Sys.step, Sys.call, hs]

/-- From the invariant: one `append` call step of the system. -/
theorem c15_sys_step_append_only_pinned (y : Sys) (hinv : SysCacheInv y) (es : List (LogId × Bytes))
    (s s' : Store) (hs : y.store = some s) (hs' : (y.step (.call (.append es))).store = some s')
    (hins : s'.st.last ≠ s.st.last)
    (hover : s'.cache.items.length > s'.cache.maxItems ∨ s'.cache.size > s'.cache.capacity) :
    KeysGt s'.cache.items s'.cache.lastEvictable ∧
    s'.cache.lastEvictable = s.cache.lastEvictable ∧
    s'.cache.maxItems = s.cache.maxItems ∧ s'.cache.capacity = s.cache.capacity := by
  rw [Sys.step_call_store_C15b y _ s hs] at hs'
  injection hs' with hs'
  subst hs'
  exact ⟨c15_append_call_only_pinned s _ es (hinv s hs) hins hover,
    c15_call_boundary_unchanged s _ _ (hinv s hs)⟩

/-- The limits of the cache are those of the configuration. -/
def SysLimitsC15b (y : Sys) (cfg : Cfg) : Prop :=
  ∀ s, y.store = some s → s.cache.maxItems = cfg.cacheItems ∧ s.cache.capacity = cfg.cacheCap

theorem fresh_limits_C15b (cfg : Cfg) : SysLimitsC15b (Sys.fresh cfg) cfg := by
  intro s hs
  simp [Sys.fresh, Sys.open, openStore, Fs.linkedIds, openLoop, emptyStore, Fs.has, Fs.find] at hs
  subst hs
  exact ⟨rfl, rfl⟩

theorem step_limits_C15b (y : Sys) (cfg : Cfg) (st : Step) (hl : st.live = true)
    (hinv : SysCacheInv y) (h : SysLimitsC15b y cfg) : SysLimitsC15b (y.step st) cfg := by
  intro s' hs'
  cases st with
  | drop => cases hl
  | openWith c => cases hl
  | call op =>
    cases hst : y.store with
    | none => rw [Sys.step_call_store_none_C15b y op hst] at hs'; cases hs'
    | some s =>
      rw [Sys.step_call_store_C15b y op s hst] at hs'
      injection hs' with hs'
      subst hs'
      obtain ⟨_, h1, h2⟩ := call_boundary_limits_C15b y.fs.has op (hinv s hst)
      rw [h1, h2]; exact h s hst
  | flush cb =>
    simp only [Sys.step, Sys.flush] at hs'
    cases hst : y.store with
    | none => simp [hst] at hs'
    | some s =>
      simp only [hst] at hs'
      simp only [Option.some.injEq] at hs'
      subst hs'
      have := h s hst
      split <;> exact this
  | worker out =>
    simp only [Sys.step, Sys.workerStep] at hs'
    cases hst : y.store with
    | none => simp [hst] at hs'
    | some s =>
      simp only [hst, Option.some.injEq] at hs'
      subst hs'
      have hsame := WCtx.step_same { w := y.worker, fs := y.fs, cache := s.cache } out
      have := h s hst
      exact ⟨hsame.2.2.1.trans this.1, hsame.2.2.2.trans this.2⟩
  | workerIdle =>
    simp only [Sys.step, Sys.workerIdle] at hs'
    cases hst : y.store with
    | none => simp [hst] at hs'
    | some s =>
      simp only [hst, Option.some.injEq] at hs'
      subst hs'
      have hsame := WCtx.runQuiet_same y.worker.fuel { w := y.worker, fs := y.fs, cache := s.cache }
      have := h s hst
      exact ⟨hsame.2.2.1.trans this.1, hsame.2.2.2.trans this.2⟩
  | drain =>
    simp only [Sys.step, Sys.drain] at hs'
    cases hst : y.store with
    | none => simp [hst] at hs'
    | some s =>
      simp only [hst, Option.some.injEq] at hs'
      subst hs'
      exact h s hst

theorem run_limits_C15b (y : Sys) (cfg : Cfg) (steps : List Step) (hl : ∀ st ∈ steps, st.live = true)
    (hinv : SysCacheInv y) (h : SysLimitsC15b y cfg) : SysLimitsC15b (y.run steps) cfg := by
  induction steps generalizing y with
  | nil => exact h
  | cons st rest ih =>
    simp only [Sys.run, List.foldl_cons]
    exact ih (y.step st) (fun s hs => hl s (List.mem_cons_of_mem _ hs))
      (step_cacheInv y st (hl st List.mem_cons_self) hinv)
      (step_limits_C15b y cfg st (hl st List.mem_cons_self) hinv h)

/-- **The limits in force are the configured ones** in every state reachable
from a fresh store by live steps. -/
theorem c15_sys_limits_configured (cfg : Cfg) (steps : List Step) (hl : ∀ st ∈ steps, st.live = true)
    (s : Store) (hs : ((Sys.fresh cfg).run steps).store = some s) :
    s.cache.maxItems = cfg.cacheItems ∧ s.cache.capacity = cfg.cacheCap :=
  run_limits_C15b _ cfg steps hl (fresh_cacheInv cfg) (fresh_limits_C15b cfg) s hs

/-- **C15 for reachable states.** For every configuration, every history
`steps` of live steps (public calls accepted or rejected with any arguments,
flushes, drains, worker steps with arbitrary outcomes — every timing of the
boundary update) from a store opened on an empty directory, and every batch
`es`: let `s` be the store after `steps` and `s'` the store after the further
call `append es`. If the call inserted at least one entry and the item count
exceeds `cfg.cacheItems` or the byte size exceeds `cfg.cacheCap`, then every
resident id lies above the boundary, and this boundary is the one in force
before the call. -/
theorem c15_sys_append_only_pinned (cfg : Cfg) (steps : List Step)
    (hl : ∀ st ∈ steps, st.live = true) (es : List (LogId × Bytes)) (s s' : Store)
    (hs : ((Sys.fresh cfg).run steps).store = some s)
    (hs' : ((Sys.fresh cfg).run (steps ++ [.call (.append es)])).store = some s')
    (hins : s'.st.last ≠ s.st.last)
    (hover : s'.cache.items.length > cfg.cacheItems ∨ s'.cache.size > cfg.cacheCap) :
    KeysGt s'.cache.items s'.cache.lastEvictable ∧
    s'.cache.lastEvictable = s.cache.lastEvictable := by
  have hinv := run_cacheInv _ steps hl (fresh_cacheInv cfg)
  have hlim := c15_sys_limits_configured cfg steps hl s hs
  rw [Sys.run_snoc_C15b] at hs'
  have hb := c15_call_boundary_unchanged s ((Sys.fresh cfg).run steps).fs.has (.append es) (hinv s hs)
  have hs'' := hs'
  rw [Sys.step_call_store_C15b _ _ s hs] at hs''
  injection hs'' with hs''
  have hover' : s'.cache.items.length > s'.cache.maxItems ∨ s'.cache.size > s'.cache.capacity := by
    rw [← hs'', hb.2.1, hb.2.2, hlim.1, hlim.2, hs'']; exact hover
  obtain ⟨h1, h2, _⟩ := c15_sys_step_append_only_pinned _ hinv es s s' hs hs' hins hover'
  exact ⟨h1, h2⟩

/-- The store after an `append` call step of the system is the store returned
by `Store.call` on the store before (with the file system's `has` as the
`create_new` oracle); in particular a store after implies a store before. -/
theorem c15_sys_step_append_store (y : Sys) (es : List (LogId × Bytes)) (s' : Store)
    (hs' : (y.step (.call (.append es))).store = some s') :
    ∃ s, y.store = some s ∧ s' = (s.call y.fs.has (.append es)).2.1 := by
  cases hst : y.store with
  | none => rw [Sys.step_call_store_none_C15b y _ hst] at hs'; cases hs'
  | some s =>
    rw [Sys.step_call_store_C15b y _ s hst] at hs'
    injection hs' with hs'
    exact ⟨s, rfl, hs'.symm⟩

/-- **C15 for reachable states, histories with restarts** (the notion of
Props/C15Restart.lean: any number of clean cycles of legal, accepted,
well-formed, small calls, flushes, worker steps, `workerIdle`, `drain`, each
followed by drop + reopen with its own configuration; then a final history
`last` of ARBITRARY live steps). The limits are those of the cache of the store
(they are fixed by the last `open`; no live step changes them:
`c15_call_boundary_unchanged`, `SameItems`). -/
theorem c15_sys_append_only_pinned_with_restarts (cfg : Cfg) (segs : List (List Step × Cfg))
    (last : List Step) (r : RefLog)
    (hsegs : ∀ seg ∈ segs, ∀ st ∈ seg.1, st.journal = true)
    (hlegal : RefLog.run {} (cycleOps segs) = some r)
    (hwf : ∀ op ∈ cycleOps segs, op.WF ∧ op.small)
    (hclean : CleanCycles (Sys.fresh cfg) segs)
    (hlast : ∀ st ∈ last, st.live = true)
    (es : List (LogId × Bytes)) (s s' : Store)
    (hs : (((Sys.fresh cfg).runCycles segs).run last).store = some s)
    (hs' : (((Sys.fresh cfg).runCycles segs).run (last ++ [.call (.append es)])).store = some s')
    (hins : s'.st.last ≠ s.st.last)
    (hover : s'.cache.items.length > s'.cache.maxItems ∨ s'.cache.size > s'.cache.capacity) :
    KeysGt s'.cache.items s'.cache.lastEvictable ∧
    s'.cache.lastEvictable = s.cache.lastEvictable ∧
    s'.cache.maxItems = s.cache.maxItems ∧ s'.cache.capacity = s.cache.capacity := by
  obtain ⟨h1, _⟩ := cycles_cacheInv segs (Sys.fresh cfg) {} r (fresh_CSys cfg) (fresh_cacheInv cfg)
    hsegs hlegal hwf hclean
  have hinv := run_cacheInv _ last hlast h1
  rw [Sys.run_snoc_C15b] at hs'
  exact c15_sys_step_append_only_pinned _ hinv es s s' hs hs' hins hover

/-! ### (4) Non-vacuity -/

/-- One cache slot, three records per chunk. -/
def c15bCfg : Cfg := { maxRecords := 3, cacheItems := 1 }

/-- Four entries (the chunk rotates after the second and after the fourth: the
head record counts), a flush, and the worker run to idle: it syncs the closed
chunks and publishes the boundary `(1,3)`. -/
def c15bPre : List Step :=
  [ .call (.append [(⟨1,0⟩,[1]), (⟨1,1⟩,[2]), (⟨1,2⟩,[3]), (⟨1,3⟩,[4])]), .flush none, .workerIdle ]

/-- A batch whose third entry is not consecutive. -/
def c15bBatch : List (LogId × Bytes) := [(⟨1,4⟩,[5]), (⟨1,5⟩,[6]), (⟨1,7⟩,[7])]

/-- What the model computes. Before the batch: four resident entries (all
inserted while no boundary was published, so none could be evicted), boundary
`(1,3)`. The call returns `Err(nonConsecutive)`; its first two entries were
inserted (and the chunk rotated once more in between); the four old entries —
at or below the boundary — were evicted; the two new ones are resident:
2 items > `maxItems = 1`, both above the boundary `(1,3)`, which is the one in
force before the call. -/
example :
    (∀ st ∈ c15bPre, st.live = true) ∧
    (((Sys.fresh c15bCfg).run c15bPre).call (.append c15bBatch)).1 = .err .nonConsecutive ∧
    ((Sys.fresh c15bCfg).run c15bPre).store.map
        (fun s => (s.cache.items.map (·.1), s.cache.lastEvictable, s.st.last, s.closed.length)) =
      some ([⟨1,0⟩, ⟨1,1⟩, ⟨1,2⟩, ⟨1,3⟩], some ⟨1,3⟩, some ⟨1,3⟩, 2) ∧
    ((Sys.fresh c15bCfg).run (c15bPre ++ [.call (.append c15bBatch)])).store.map
        (fun s => (s.cache.items, s.cache.size, s.cache.maxItems, s.cache.lastEvictable, s.st.last)) =
      some ([(⟨1,4⟩, [5]), (⟨1,5⟩, [6])], 2, 1, some ⟨1,3⟩, some ⟨1,5⟩) ∧
    ((Sys.fresh c15bCfg).run (c15bPre ++ [.call (.append c15bBatch)])).store.map
        (fun s => s.closed.length) = some 3 := by
  refine ⟨by decide, by decide +kernel, by decide +kernel, by decide +kernel, by decide +kernel⟩

/-- The hypotheses of `c15_sys_append_only_pinned` are satisfiable with the
limit EXCEEDED, and its conclusion is the meaningful one: on this history the
partially refused batch inserted (`last` moved), the item count is over the
configured limit, and the theorem yields that only pinned entries are resident. -/
example : ∃ s s', ((Sys.fresh c15bCfg).run c15bPre).store = some s ∧
    ((Sys.fresh c15bCfg).run (c15bPre ++ [.call (.append c15bBatch)])).store = some s' ∧
    s'.st.last ≠ s.st.last ∧ s'.cache.items.length > c15bCfg.cacheItems ∧
    s'.cache.items ≠ [] ∧ s'.cache.lastEvictable ≠ none ∧
    KeysGt s'.cache.items s'.cache.lastEvictable := by
  refine ⟨_, _, rfl, rfl, by decide +kernel, by decide +kernel, by decide +kernel,
    by decide +kernel, ?_⟩
  exact (c15_sys_append_only_pinned c15bCfg c15bPre (by decide) c15bBatch _ _ rfl rfl
    (by decide +kernel) (Or.inl (by decide +kernel))).1

/-- Eviction that brings the cache back WITHIN the limit: after the batch
above, a flush and an idle worker the boundary is `(1,5)`; the next batch
`[(1,6),(1,8)]` is refused at its second entry, its first entry was inserted,
both older entries were evicted, one item is resident (not over the limit). -/
example :
    let pre2 := c15bPre ++ [.call (.append c15bBatch), .flush none, .workerIdle]
    (∀ st ∈ pre2, st.live = true) ∧
    (((Sys.fresh c15bCfg).run pre2).call (.append [(⟨1,6⟩,[8]), (⟨1,8⟩,[9])])).1 =
      .err .nonConsecutive ∧
    ((Sys.fresh c15bCfg).run pre2).store.map
        (fun s => (s.cache.items.map (·.1), s.cache.lastEvictable, s.st.last)) =
      some ([⟨1,4⟩, ⟨1,5⟩], some ⟨1,5⟩, some ⟨1,5⟩) ∧
    ((Sys.fresh c15bCfg).run (pre2 ++ [.call (.append [(⟨1,6⟩,[8]), (⟨1,8⟩,[9])])])).store.map
        (fun s => (s.cache.items, s.cache.size, s.cache.maxItems, s.cache.lastEvictable, s.st.last)) =
      some ([(⟨1,6⟩, [8])], 1, 1, some ⟨1,5⟩, some ⟨1,6⟩) := by
  refine ⟨by decide, by decide +kernel, by decide +kernel, by decide +kernel⟩

/-- A call that reports an error although its (only accepted) entry IS
resident: the chunk is full after the first entry and `create_new` of the next
chunk file fails (`fsHas = fun _ => true`). `last` moved, so the call counts
as "inserted" and `c15_append_call_only_pinned` applies: over the limit
(`cacheItems = 0`), no boundary published, the entry is pinned. -/
example :
    (Sys.fresh { maxRecords := 2, cacheItems := 0 }).store.map (fun s =>
      let r := s.call (fun _ => true) (.append [(⟨1,0⟩,[1]), (⟨1,1⟩,[2])])
      (r.2.1.cache.items, r.2.1.cache.maxItems, r.2.1.cache.lastEvictable, r.2.1.st.last)) =
    some ([(⟨1,0⟩, [1])], 0, none, some ⟨1,0⟩) ∧
    (Sys.fresh { maxRecords := 2, cacheItems := 0 }).store.map (fun s =>
      ((s.call (fun _ => true) (.append [(⟨1,0⟩,[1]), (⟨1,1⟩,[2])])).1, s.st.last)) =
    some (.err .exists, none) := by
  refine ⟨by decide +kernel, by decide +kernel⟩

/-- A batch refused at its FIRST entry returns the store untouched (the other
disjunct of `c15_append_call_unchanged_or_only_pinned`). -/
example : ∃ s, ((Sys.fresh c15bCfg).run c15bPre).store = some s ∧
    (s.call ((Sys.fresh c15bCfg).run c15bPre).fs.has (.append [(⟨1,9⟩,[0])])).1 = .err .nonConsecutive ∧
    (s.call ((Sys.fresh c15bCfg).run c15bPre).fs.has (.append [(⟨1,9⟩,[0])])).2.1 = s := by
  refine ⟨_, rfl, by decide +kernel, by decide +kernel⟩

end RaftLog
