/-
Property C11 (names part): the chunk file name `r-<20 grouped digits>.wal` of a
u64 chunk id round-trips through `parseChunkFileName`, has a fixed length, is
injective, and sorts (as a string, lexicographically by character) in the
numeric order of the ids.  All statements are for every `n < 2^64`.
-/
import RaftLogModel.Proofs.Names
namespace RaftLog

/-- (a) parsing the generated name gives the id back. -/
theorem c11_name_roundtrip : ∀ n, n < U64 → parseChunkFileName (chunkFileName n) = some n := by
  intro n h
  rw [chunkFileName_eq h,
    parse_framed _ (digitsFixed_length 20 n) (digitsFixed_all_digit 20 n),
    digitsValue_digitsFixed, Nat.mod_eq_of_lt (u64_lt_pow20 h), if_pos h]

/-- (b) every generated name has exactly 32 characters. -/
theorem c11_name_length : ∀ n, n < U64 → (chunkFileName n).length = 32 := by
  intro n h
  rw [chunkFileName_eq h, framed_length _ (digitsFixed_length 20 n)]

/-- (c) distinct ids get distinct names. -/
theorem c11_name_injective :
    ∀ a b, a < U64 → b < U64 → chunkFileName a = chunkFileName b → a = b := by
  intro a b ha hb h
  have := congrArg parseChunkFileName h
  rw [c11_name_roundtrip a ha, c11_name_roundtrip b hb] at this
  exact Option.some.inj this

/-- (d) the lexicographic order of names (core `LT (List Char)`, i.e.
`List.Lex (· < ·)` on `Char`) is the numeric order of ids. -/
theorem c11_name_order :
    ∀ a b, a < U64 → b < U64 → (a < b ↔ chunkFileName a < chunkFileName b) := by
  intro a b ha hb
  rw [chunkFileName_eq ha, chunkFileName_eq hb,
    framed_lt_iff _ _ (digitsFixed_length 20 a) (digitsFixed_length 20 b),
    digitsFixed_lt_iff, Nat.mod_eq_of_lt (u64_lt_pow20 ha), Nat.mod_eq_of_lt (u64_lt_pow20 hb)]

/-- Non-vacuity: a concrete name, its parse, and a concrete comparison. -/
example : chunkFileName 79 = "r-00_000_000_000_000_000_079.wal".toList ∧
    parseChunkFileName (chunkFileName 79) = some 79 ∧
    chunkFileName 9 < chunkFileName 10 ∧
    chunkFileName (U64 - 1) = "r-18_446_744_073_709_551_615.wal".toList :=
  ⟨by decide, c11_name_roundtrip 79 (by decide),
   (c11_name_order 9 10 (by decide) (by decide)).mp (by decide), by decide⟩

end RaftLog
