/-
C09 at the SYSTEM level (task C9S).

`Props/C09.lean` states what `parseChunk` / `Chunk::open` / the `open` loop do with a damaged
record and with a gap, under hypotheses about the directory (`Loads`, "the file is
`encAll rs`"). Here those hypotheses are discharged for the directories that the system
itself produces: histories from `Sys.fresh cfg` ending clean (exactly the hypotheses of
`c02_clean_restart`), and every system reachable through histories, clean restarts and crash
recoveries (`ReachLIFT`) that is clean.

(A) `c09_sys_missing_middle_chunk` (+ `_inv`, `_reach`): a linked chunk file that is neither
    the oldest nor the newest is removed (`Fs.rmC9S`, the Driver's `fsop rm`): `open` with any
    configuration returns the error `gap`; the chunk files before the gap are synced (D15),
    nothing is written, truncated, unlinked or created.

(B) `c09_sys_value_byte_altered` (+ `_inv`, `_reach`): in any linked chunk file (oldest,
    middle or newest), one VALUE byte (`ValuePos`: a byte of a `u64` field, of a payload or
    user-data body, or of the stored checksum) of any complete record is overwritten with a
    different value (`Fs.setByteC9S`, the Driver's `fsop set`): `open` with any configuration
    (`truncate` on or off) returns the error `invalid`; the chunk files before the damaged one
    are synced (D15), nothing is written, truncated, unlinked or created. LAYOUT bytes (record
    tag, state version, `Option` tags, length prefixes) are excluded on purpose: findings D5/D6.
    Chunk and decoder level: `c09_chunk_value_byte_invalid`, `c09_value_byte_decode_invalid`.

Helpers: `Proofs/C09Sys.lean`, `Proofs/C09SysCodec.lean`.
-/
import RaftLogModel.Proofs.C09Sys
import RaftLogModel.Props.LiftRestart
namespace RaftLog

/-! ### (A) A missing middle chunk -/

/-- What "the file `m` is removed" means here: the entry is deleted from the directory,
`fs.filter (fun f => f.id != m)` — the definition the Driver's `fsop rm m` uses (the model's
`Fs.unlink` only clears the `linked` flag of an entry that an open handle keeps alive; for
`open`, which looks only at linked ids, both give the same id list, but `rm` also makes
`find` fail). -/
theorem c09_sys_rm_spec (fs : Fs) (m : Nat) : fs.rmC9S m = fs.filter (fun f => f.id != m) := rfl

/-- (A), invariant form: `y` satisfies the C02 invariant `CSys y r` (replay invariant and
linked-files invariant) and is clean. -/
theorem c09_sys_missing_middle_chunk_inv {y : Sys} {r : RefLog} (h : CSys y r) (hc : y.Clean)
    (cfg' : Cfg) (pre post : List Nat) (m : Nat) (hsplit : y.fs.linkedIds = pre ++ m :: post)
    (hpre : pre ≠ []) (hpost : post ≠ []) :
    openStore cfg' (y.fs.rmC9S m) = (.err .gap, (y.fs.rmC9S m).syncAll pre, syncEvs pre) :=
  sys_rm_middleC9S h hc cfg' hsplit hpre hpost

/-- **C09 (A), a missing middle chunk, system level.** `y` is reached from a freshly opened
store by a history as in `c02_clean_restart` (journal steps; calls legal for the reference
log, well-formed and small; at the end the worker is alive and quiet, nothing pending,
no removal outstanding). Dropping the store does not change the files (`(y.step .drop).fs =
y.fs`). Let `m` be a linked chunk id that is neither the first nor the last one
(`y.fs.linkedIds = pre ++ m :: post`, `pre, post ≠ []`) and remove that file (`fsop rm`:
`Fs.rmC9S`, see `c09_sys_rm_spec`). Then `open` with ANY configuration `cfg'`
* returns the error `gap` (not `ok`, not a panic, no other error),
* leaves every file's bytes, length, link and existence as they were: the resulting file
  system is the damaged one with the chunks `pre` before the gap synced (D15), and
* emits exactly one `sync "o" id true` per chunk of `pre`: no write, truncate, unlink or
  create event. -/
theorem c09_sys_missing_middle_chunk (cfg cfg' : Cfg) (steps : List Step) (r : RefLog) (s : Store)
    (hsteps : ∀ st ∈ steps, st.journal = true)
    (hlegal : RefLog.run {} (stepOps steps) = some r)
    (hwf : ∀ op ∈ stepOps steps, op.WF ∧ op.small)
    (halive : ((Sys.fresh cfg).run steps).worker.pc ≠ .dead)
    (hs : ((Sys.fresh cfg).run steps).store = some s)
    (hq : ((Sys.fresh cfg).run steps).worker.quiet = true)
    (hp : s.pending = []) (hrem : s.removed = [])
    (hpost : ((Sys.fresh cfg).run steps).worker.postponed = [])
    (pre post : List Nat) (m : Nat) :
    let y := (Sys.fresh cfg).run steps
    let fs := (y.step .drop).fs
    fs.linkedIds = pre ++ m :: post → pre ≠ [] → post ≠ [] →
    fs = y.fs ∧
    openStore cfg' (fs.rmC9S m) = (.err .gap, (fs.rmC9S m).syncAll pre, syncEvs pre) ∧
    (∀ e ∈ syncEvs pre, ∃ id, e = Ev.sync "o" id true) ∧
    (∀ i, (((fs.rmC9S m).syncAll pre).find i).map (fun f => (f.data, f.linked))
        = ((fs.rmC9S m).find i).map (fun f => (f.data, f.linked))) := by
  intro y fs hsplit hpre hpost'
  have hC : CSys y r := run_CSys steps _ {} r (fresh_CSys cfg) hsteps hlegal hwf halive
  have hc : y.Clean := ⟨s, hs, hq, hp, hrem, hpost⟩
  obtain ⟨_, _, _, _, _, _, hfs, _⟩ := c02_restart_step y r cfg' hC hc
  have hfs' : fs = y.fs := hfs
  rw [hfs'] at hsplit ⊢
  refine ⟨rfl, sys_rm_middleC9S hC hc cfg' hsplit hpre hpost', syncEvs_isOpenSync pre, fun i => ?_⟩
  rw [Fs.find_syncAll]
  cases (y.fs.rmC9S m).find i with
  | none => rfl
  | some f => simp only [Option.map_some]; split <;> rfl

/-- (A) for every reachable system (`ReachLIFT`: histories, clean restarts and crash
recoveries in any order) that is clean. -/
theorem c09_sys_missing_middle_chunk_reach {y : Sys} (h : ReachLIFT y) (hc : y.Clean)
    (cfg' : Cfg) (pre post : List Nat) (m : Nat) (hsplit : y.fs.linkedIds = pre ++ m :: post)
    (hpre : pre ≠ []) (hpost : post ≠ []) :
    openStore cfg' (y.fs.rmC9S m) = (.err .gap, (y.fs.rmC9S m).syncAll pre, syncEvs pre) := by
  obtain ⟨_, ⟨r, hC⟩, _⟩ := c11_journal_invariant_reach h
  exact sys_rm_middleC9S hC hc cfg' hsplit hpre hpost


/-! ### (B) One value byte of a complete record altered -/

/-- What `ValuePos` is: position `i` of the frame `encRecord r` is marked in the value/layout
mask `valueMaskC9S r` = 4 tag bytes (layout) ‖ body mask (`maskBodyC9S`: log ids/votes are 16
value bytes; `Vec<u8>` is 4 layout bytes then value bytes; `Option` is a layout byte then the
inner mask; the state starts with a layout version byte) ‖ 8 checksum bytes (value). -/
theorem c09_valuePos_spec (r : Record) (i : Nat) :
    ValuePos r i ↔ (List.replicate 4 false ++ maskBodyC9S r ++ List.replicate 8 true).getD i false = true :=
  Iff.rfl

/-- For an `append` record every byte of the log id (positions 4..19), every payload byte
(from 24) and every checksum byte is a value position; only the tag (0..3) and the payload
length prefix (20..23) are layout. -/
theorem c09_valuePos_append (id : LogId) (p : Bytes) (i : Nat) :
    ValuePos (.append id p) i ↔ (4 ≤ i ∧ i < 20) ∨ (24 ≤ i ∧ i < 24 + p.length + 8) := by
  unfold ValuePos valueMaskC9S maskTBC9S maskBodyC9S maskLogIdC9S maskBytesC9S
  simp only [List.getD_eq_getElem?_getD, List.getElem?_append, List.getElem?_replicate,
    List.length_append, List.length_replicate]
  repeat' split
  all_goals simp
  all_goals omega

/-- Decoder level: a value byte of a complete well-formed record is replaced by a different
value; whatever follows, the decoder reads the same extent and reports `invalid` (not `eof`,
not a record), and the damaged frame is not all zeros. -/
theorem c09_value_byte_decode_invalid (r : Record) (hr : r.WF) (i : Nat) (v : UInt8)
    (hpos : ValuePos r i) (hv : (encRecord r).getD i 0 ≠ v) (rest : Bytes) :
    decRecord ((encRecord r).set i v ++ rest) = .invalid ∧
    allZero ((encRecord r).set i v ++ rest) = false :=
  ⟨decRecord_value_byteC9S r hr i v hpos hv rest,
    (openChunk_value_byteC9S {} 0 AllWF.nil r hr rest i v hpos hv).2.2.1⟩

/-- Chunk level: the file holds the well-formed records `rs0`, the complete record `r`, then
any bytes; byte `|encAll rs0| + i` (value position `i` of `r`'s frame) is overwritten with a
different value. The iteration stops at `r` with `invalid`, and `Chunk::open` returns the
error `invalid` for both settings of `truncate`. -/
theorem c09_chunk_value_byte_invalid (cfg : Cfg) (id : Nat) {rs0 : List Record} (h0 : AllWF rs0)
    (r : Record) (hr : r.WF) (rest : Bytes) (i : Nat) (v : UInt8) (hpos : ValuePos r i)
    (hv : (encRecord r).getD i 0 ≠ v) :
    parseChunk ((encAll rs0 ++ (encRecord r ++ rest)).set ((encAll rs0).length + i) v)
      = (rs0.map (fun r => (r, (encRecord r).length)), .invalid, (encRecord r).set i v ++ rest) ∧
    openChunk cfg id ((encAll rs0 ++ (encRecord r ++ rest)).set ((encAll rs0).length + i) v)
      = .error .invalid :=
  ⟨(openChunk_value_byteC9S cfg id h0 r hr rest i v hpos hv).2.1,
    (openChunk_value_byteC9S cfg id h0 r hr rest i v hpos hv).2.2.2⟩

/-- What "byte `pos` of file `c` is overwritten with `v`" means: the Driver's `fsop set`. -/
theorem c09_sys_setByte_spec (fs : Fs) (c pos : Nat) (v : UInt8) :
    fs.setByteC9S c pos v = fs.update c fun f =>
      if pos < f.data.length then { f with data := f.data.set pos v } else f := rfl

/-- (B), invariant form: `y` satisfies `CSys y rl` and is clean; `c` is any linked chunk id
(`pre` / `post` may be empty: oldest / newest chunk). The file of `c` is exactly the encoding
of a non-empty list `rs` of well-formed records (the list the parser reads from it), and for
EVERY record `r` of it (`rs = rs0 ++ r :: rs1`), every value position `i` of its frame and
every other byte value `v`: `open` with any `cfg'` on the directory with that one byte
overwritten returns `invalid`, having only synced the chunks `pre` before `c`. -/
theorem c09_sys_value_byte_altered_inv {y : Sys} {rl : RefLog} (h : CSys y rl) (hc : y.Clean)
    (cfg' : Cfg) (pre post : List Nat) (c : Nat) (hsplit : y.fs.linkedIds = pre ++ c :: post) :
    ∃ f rs, y.fs.find c = some f ∧ f.linked = true ∧ f.data = encAll rs ∧ AllWF rs ∧ rs ≠ [] ∧
      (parseChunk f.data).1.map (·.1) = rs ∧
      ∀ rs0 r rs1 i v, rs = rs0 ++ r :: rs1 → ValuePos r i → (encRecord r).getD i 0 ≠ v →
        let fs' := y.fs.setByteC9S c ((encAll rs0).length + i) v
        fs'.find c = some { f with data := f.data.set ((encAll rs0).length + i) v } ∧
        openStore cfg' fs' = (.err .invalid, fs'.syncAll pre, syncEvs pre) := by
  obtain ⟨f, rs, k1, k2, k3, k4, k5, k6⟩ :=
    sys_chunk_recordsC9S h hc (c := c) (by rw [hsplit]; simp)
  refine ⟨f, rs, k1, k2, k3, k4, k5, k6, ?_⟩
  intro rs0 r rs1 i v hrs hpos hv
  subst hrs
  have h0 : AllWF rs0 := fun x hx => k4 x (by simp [hx])
  have hr : r.WF := k4 r (by simp)
  have hdata : f.data = encAll rs0 ++ (encRecord r ++ encAll rs1) := by
    rw [k3, encAll_appendP, encAll_consP]
  refine ⟨?_, sys_value_byteC9S h hc cfg' hsplit k1 h0 r hr _ hdata i v hpos hv⟩
  apply Fs.find_setByte_selfC9S _ k1
  have := hpos.ltC9S
  rw [hdata]; simp only [List.length_append]; omega

/-- **C09 (B), a value byte altered, system level.** `y` is reached from a freshly opened
store by a history as in `c02_clean_restart`; the store is dropped (files unchanged). Let `c`
be ANY linked chunk id (`fs.linkedIds = pre ++ c :: post`). Its file `f` is exactly `encAll rs`
for the non-empty list `rs` of well-formed records that the parser reads from it. Take any
record `r` of it (`rs = rs0 ++ r :: rs1`), any VALUE position `i` of its frame (`ValuePos r i`:
`u64` field bytes, payload / user-data bytes, checksum bytes; for `append` see
`c09_valuePos_append`) and any byte `v` different from the one stored there, and overwrite
byte `|encAll rs0| + i` of the file (`fsop set`). Then `open` with ANY configuration `cfg'`
(`truncate` on or off)
* returns the error `invalid` (the checksum-mismatch kind; not `ok`, not `eof`, no panic),
* leaves every file's bytes, length, link and existence as they were — in particular nothing
  is truncated, also when `c` is the newest chunk and `truncate` is on: the resulting file
  system is the damaged one with the chunks `pre` before `c` synced (D15),
* emits exactly one `sync "o" id true` per chunk of `pre`. -/
theorem c09_sys_value_byte_altered (cfg cfg' : Cfg) (steps : List Step) (rl : RefLog) (s : Store)
    (hsteps : ∀ st ∈ steps, st.journal = true)
    (hlegal : RefLog.run {} (stepOps steps) = some rl)
    (hwf : ∀ op ∈ stepOps steps, op.WF ∧ op.small)
    (halive : ((Sys.fresh cfg).run steps).worker.pc ≠ .dead)
    (hs : ((Sys.fresh cfg).run steps).store = some s)
    (hq : ((Sys.fresh cfg).run steps).worker.quiet = true)
    (hp : s.pending = []) (hrem : s.removed = [])
    (hpost : ((Sys.fresh cfg).run steps).worker.postponed = [])
    (pre post : List Nat) (c : Nat) :
    let y := (Sys.fresh cfg).run steps
    let fs := (y.step .drop).fs
    fs.linkedIds = pre ++ c :: post →
    fs = y.fs ∧
    ∃ f rs, fs.find c = some f ∧ f.linked = true ∧ f.data = encAll rs ∧ AllWF rs ∧ rs ≠ [] ∧
      (parseChunk f.data).1.map (·.1) = rs ∧
      ∀ rs0 r rs1 i v, rs = rs0 ++ r :: rs1 → ValuePos r i → (encRecord r).getD i 0 ≠ v →
        let fs' := fs.setByteC9S c ((encAll rs0).length + i) v
        fs'.find c = some { f with data := f.data.set ((encAll rs0).length + i) v } ∧
        openStore cfg' fs' = (.err .invalid, fs'.syncAll pre, syncEvs pre) ∧
        (∀ e ∈ syncEvs pre, ∃ id, e = Ev.sync "o" id true) ∧
        (∀ j, ((fs'.syncAll pre).find j).map (fun g => (g.data, g.linked))
            = (fs'.find j).map (fun g => (g.data, g.linked))) := by
  intro y fs hsplit
  have hC : CSys y rl := run_CSys steps _ {} rl (fresh_CSys cfg) hsteps hlegal hwf halive
  have hc : y.Clean := ⟨s, hs, hq, hp, hrem, hpost⟩
  obtain ⟨_, _, _, _, _, _, hfs, _⟩ := c02_restart_step y rl cfg' hC hc
  have hfs' : fs = y.fs := hfs
  rw [hfs'] at hsplit ⊢
  obtain ⟨f, rs, k1, k2, k3, k4, k5, k6, k7⟩ :=
    c09_sys_value_byte_altered_inv hC hc cfg' pre post c hsplit
  refine ⟨rfl, f, rs, k1, k2, k3, k4, k5, k6, ?_⟩
  intro rs0 r rs1 i v hrs hpos hv
  obtain ⟨m1, m2⟩ := k7 rs0 r rs1 i v hrs hpos hv
  refine ⟨m1, m2, syncEvs_isOpenSync pre, fun j => ?_⟩
  rw [Fs.find_syncAll]
  cases (y.fs.setByteC9S c ((encAll rs0).length + i) v).find j with
  | none => rfl
  | some g => simp only [Option.map_some]; split <;> rfl

/-- (B) for every reachable system (`ReachLIFT`) that is clean. -/
theorem c09_sys_value_byte_altered_reach {y : Sys} (h : ReachLIFT y) (hc : y.Clean)
    (cfg' : Cfg) (pre post : List Nat) (c : Nat) (hsplit : y.fs.linkedIds = pre ++ c :: post) :
    ∃ f rs, y.fs.find c = some f ∧ f.linked = true ∧ f.data = encAll rs ∧ AllWF rs ∧ rs ≠ [] ∧
      (parseChunk f.data).1.map (·.1) = rs ∧
      ∀ rs0 r rs1 i v, rs = rs0 ++ r :: rs1 → ValuePos r i → (encRecord r).getD i 0 ≠ v →
        let fs' := y.fs.setByteC9S c ((encAll rs0).length + i) v
        fs'.find c = some { f with data := f.data.set ((encAll rs0).length + i) v } ∧
        openStore cfg' fs' = (.err .invalid, fs'.syncAll pre, syncEvs pre) := by
  obtain ⟨_, ⟨rl, hC⟩, _⟩ := c11_journal_invariant_reach h
  exact c09_sys_value_byte_altered_inv hC hc cfg' pre post c hsplit

/-! ### Non-vacuity -/

/-- The history `c02Example` (it satisfies the hypotheses of `c02_clean_restart`, see
`Props/C02.lean`) ends with seven linked chunk files. -/
example : ((Sys.fresh { maxRecords := 2 }).run c02Example).fs.linkedIds
    = [115, 198] ++ 282 :: [361, 444, 522, 659] := by decide +kernel

/-- ... and with chunk file `282` removed, `open` (here with other limits and
`truncate = false`) reports the gap after syncing `115` and `198`; computed by the model,
as the theorem says. -/
example :
    openStore { maxRecords := 3, truncate := false }
      (((Sys.fresh { maxRecords := 2 }).run c02Example).fs.rmC9S 282)
    = (.err .gap, (((Sys.fresh { maxRecords := 2 }).run c02Example).fs.rmC9S 282).syncAll [115, 198],
        [.sync "o" 115 true, .sync "o" 198 true]) := by
  decide +kernel

/-- Chunk `282` of that directory holds a `State` record (50 bytes) and
`TruncateAfter (1,1)` (29 bytes). -/
example : (((Sys.fresh { maxRecords := 2 }).run c02Example).fs.find 282).map
      (fun f => (parseChunk f.data).1.map (·.1))
    = some ([.state { vote := some ⟨1, 7⟩, last := some ⟨1, 2⟩ }] ++
        Record.truncateAfter (some ⟨1, 1⟩) :: []) := by decide +kernel

/-- Position 12 of `TruncateAfter (some (1,1))` (last byte of the term) is a value position,
position 4 (the `Option` tag) and position 0 (record tag) are not. -/
example : ValuePos (.truncateAfter (some ⟨1, 1⟩)) 12 ∧ ¬ ValuePos (.truncateAfter (some ⟨1, 1⟩)) 4 ∧
    ¬ ValuePos (.truncateAfter (some ⟨1, 1⟩)) 0 ∧
    (encRecord (.truncateAfter (some ⟨1, 1⟩))).getD 12 0 ≠ 9 := by decide +kernel

/-- The term of that record changed 1 ↦ 9 (byte 50 + 12 of middle chunk `282`): `open`
(with `truncate = false`, and with the default `truncate = true`) reports `invalid` after
syncing `115` and `198`; computed by the model, as the theorem says. -/
example :
    openStore { truncate := false }
      (((Sys.fresh { maxRecords := 2 }).run c02Example).fs.setByteC9S 282 (50 + 12) 9)
    = (.err .invalid,
        (((Sys.fresh { maxRecords := 2 }).run c02Example).fs.setByteC9S 282 (50 + 12) 9).syncAll [115, 198],
        [.sync "o" 115 true, .sync "o" 198 true]) ∧
    (openStore {}
      (((Sys.fresh { maxRecords := 2 }).run c02Example).fs.setByteC9S 282 (50 + 12) 9)).1
      = .err .invalid := by
  decide +kernel

/-- The user-data byte `42` of the `State` record that heads the NEWEST chunk `659` changed to
`43` (frame position 62): `invalid` also with `truncate = true`; nothing is cut. -/
example :
    (openStore {}
      (((Sys.fresh { maxRecords := 2 }).run c02Example).fs.setByteC9S 659 62 43)).1 = .err .invalid ∧
    (openStore {}
      (((Sys.fresh { maxRecords := 2 }).run c02Example).fs.setByteC9S 659 62 43)).2.1
      = (((Sys.fresh { maxRecords := 2 }).run c02Example).fs.setByteC9S 659 62 43).syncAll
          [115, 198, 282, 361, 444, 522] := by
  decide +kernel

/-- Why layout bytes are excluded (finding D5): position 61 of the same frame is the last
byte of the user-data length prefix — not a value position; overwriting it (1 ↦ 43) makes the
decoder run into the end of the file, and with `truncate = true` the open does NOT fail. -/
example :
    ¬ ValuePos (.state { vote := some ⟨1, 7⟩, last := some ⟨2, 2⟩, purged := some ⟨1, 0⟩,
                         userData := some [42] }) 61 ∧
    ValuePos (.state { vote := some ⟨1, 7⟩, last := some ⟨2, 2⟩, purged := some ⟨1, 0⟩,
                       userData := some [42] }) 62 ∧
    (openStore {}
      (((Sys.fresh { maxRecords := 2 }).run c02Example).fs.setByteC9S 659 61 43)).1.isOk = true := by
  decide +kernel

/-- An instance of the decoder-level statement. -/
example : decRecord ((encRecord (.append ⟨3, 4⟩ [7, 8])).set 25 0 ++ [1, 2, 3]) = .invalid :=
  (c09_value_byte_decode_invalid (.append ⟨3, 4⟩ [7, 8])
    (by simp [Record.WF, LogId.WF, bytesWF, U64, U32]) 25 0
    ((c09_valuePos_append _ _ _).mpr (Or.inr (by simp))) (by decide +kernel) [1, 2, 3]).1

end RaftLog
