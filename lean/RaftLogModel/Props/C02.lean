/-
C02 — Clean restart equivalence.

If every write has been flushed and the worker is idle, dropping the store and
opening it again (with any configuration: other chunk limits, other cache
limits) yields a store that reports the same state, the same index map and the
same chunk table, only syncs the chunk files it keeps (D15: one `sync "o" id true` per
linked file; no byte, name or link changes; no change at all when every linked file was
already durable), and satisfies the journal invariant again —
so every later call behaves as before; any number of such cycles. If the new
cache limits cover the `Append` records of the retained files, the reopened
store refines the reference log again (every live entry resident), so reads
and all of C01 continue.

How it is proved.

1. **The replay invariant** (`RSys y r`, Proofs/Replay*.lean). For the live
   store there are record lists for every live chunk — closed chunks `jc`, open
   chunk `jo` — such that
   * each list is well-formed, starts with a `State` record, its sizes give the
     chunk's offsets, and its encoding is exactly the chunk's bytes (file ++ in
     flight inside the worker ++ pending buffer, as in the journal invariant `J`);
   * replaying them in order from the empty state and the empty index map with
     the cache-free projection of `Store.smApply` (`stRun` on the state,
     `idxRun`/`idxLogO` on the index map; `c02_smApply_cache_free` says this IS
     `smApply` projected to `(st, log)`, whatever the cache) succeeds and yields
     exactly `(s.st, s.log)` (`c02_replay_spec`);
   * after every closed chunk the replayed state is the recorded closing state,
     every index entry is at or below its `last`, and the next chunk starts
     with the `State` record of exactly that state (`RepC`);
   * payloads (`PayG`): whenever the `Append` record an index entry points to is
     in the retained journal, it carries the reference log's payload for that id;
   * checks (`RunG`/`RecCheck`): along the retained journal, after its first
     record, every `State` record keeps `last`, every truncation point is at or
     above the entries it keeps and every purge point below the entries it keeps
     (what the payload cache needs during replay);
   * the state and the index map are those of the reference log `r` (`Abs`, a
     refinement that says nothing about the cache, so it survives `drain` and
     eviction), and the journal invariant `J` holds.
   It holds for `Sys.fresh` and is kept by every legal, accepted, small call —
   with chunk rotation (the head `State` record of the new chunk resets the
   state to the same value) and with purges that drop closed chunks from the
   front (index operations act pointwise per index; an entry a dropped chunk
   contributed is at or below the chunk's closing `last ≤ upto`, and nothing
   at or below `upto` is in the index map after the purge record) — by flushes,
   worker steps of any outcome that leave the worker alive, `workerIdle` and
   `drain` (`c02_replay_invariant`).

2. **Which files are linked** (`LSys y`, Proofs/ReplayLinked.lean): the linked
   files are exactly the live chunks, the chunks the store has scheduled for
   removal and the chunks the worker still has to unlink; all of the latter lie
   below every live chunk.

3. **Restart** (`c02_clean_restart`). Hypotheses at the end of the history: the
   worker is alive and quiet, `pending = []`, `removed = []` and the worker has
   no postponed removals. The last two say that the removals ordered by purges
   have been carried out: `pending = []` alone does not imply them (a rotation
   right after a purge record empties the pending buffer; a failed sync
   postpones removals), and without them `open` loads the not-yet-unlinked
   obsolete chunks as additional closed chunks (`c02_removed_needed`).

3b. **The refinement continues** (`c02_refinement_continues`,
   `c02_history_after_restart`, Proofs/ReplayCache.lean): with enough cache
   room no entry is evicted during replay; every index entry ends up resident
   with the payload of the record it points to, which by `PayG` is the reference
   payload; `Refines s' r` follows, and with it `c01_step`, `c01_read` and the
   history theorem of C01 from the reopened store.

4. **Cycles** (`c02_cycles`, `c02_cycles_refines`): the invariants hold again
   after drop + open, so the argument repeats.
-/
import RaftLogModel.Proofs.ReplayRestart
import RaftLogModel.Props.C01
namespace RaftLog

/-! ### 1. The cache-free projection of `smApply` -/

/-- `smApply` projected to `(st, log)` is `RState.apply` and `idxLogO`: it
succeeds iff both do, with their results; the cache plays no role. -/
theorem c02_smApply_cache_free (s : Store) (r : Record) (chunk : Nat) (seg : Seg) :
    (∀ s', s.smApply r chunk seg = .ok s' →
      s.st.apply r = .ok s'.st ∧ idxLogO r chunk seg s.log = some s'.log) ∧
    (∀ st1 l1, s.st.apply r = .ok st1 → idxLogO r chunk seg s.log = some l1 →
      ∃ s', s.smApply r chunk seg = .ok s' ∧ s'.st = st1 ∧ s'.log = l1 ∧ s'.closed = s.closed ∧
        s'.openOffsets = s.openOffsets ∧ s'.pending = s.pending ∧ s'.removed = s.removed) := by
  constructor
  · intro s' h
    unfold Store.smApply at h
    cases hi : s.applyIndex r chunk seg with
    | none => rw [hi] at h; cases h
    | some s1 =>
      rw [hi] at h
      simp only at h
      have hst := applyIndex_st hi
      have hlog := applyIndex_log hi
      cases ha : s1.st.apply r with
      | ok st' =>
        rw [ha] at h
        injection h with h
        subst h
        exact ⟨by rw [← hst]; exact ha, hlog⟩
      | err k => rw [ha] at h; cases h
      | panic m => rw [ha] at h; cases h
  · intro st1 l1 h1 h2
    obtain ⟨c, hc, _, _⟩ := smApply_of_runs s r chunk seg h1 h2
    exact ⟨_, hc, rfl, rfl, rfl, rfl, rfl, rfl⟩

/-- Two stores with the same state and index map (any caches, any limits):
`smApply` gives the same state and index map, or fails on both. -/
theorem c02_smApply_independent_of_cache (s1 s2 : Store) (h1 : s1.st = s2.st) (h2 : s1.log = s2.log)
    (r : Record) (chunk : Nat) (seg : Seg) :
    (∀ a, s1.smApply r chunk seg = .ok a → ∃ b, s2.smApply r chunk seg = .ok b ∧
      b.st = a.st ∧ b.log = a.log) := by
  intro a ha
  obtain ⟨k1, k2⟩ := (c02_smApply_cache_free s1 r chunk seg).1 a ha
  rw [h1] at k1
  rw [h2] at k2
  obtain ⟨b, hb, e1, e2, _⟩ := (c02_smApply_cache_free s2 r chunk seg).2 _ _ k1 k2
  exact ⟨b, hb, e1, e2⟩

/-! ### 2. The replay invariant -/

/-- What `RSys y r` says. `flatRecs jc ++ jo` are all records of the retained
journal in order; `flatOps jc ++ chunkOps s.openId jo` are the same records with
their chunk id and segment `⟨offset, size⟩`. -/
theorem c02_replay_spec {y : Sys} {r : RefLog} (h : RSys y r) :
    ∃ s jc jo, y.store = some s ∧ y.worker.pc ≠ .dead ∧ J y ∧
      jc.map (·.1) = s.closed ∧
      (∀ p ∈ jc, AllWF p.2 ∧ (∃ st rest, p.2 = .state st :: rest) ∧
        offsetsFrom p.1.id (recSizes p.2) = p.1.offsets ∧
        fdata y.fs p.1.id ++ y.worker.inflight p.1.id = encAll p.2) ∧
      (AllWF jo ∧ (∃ st rest, jo = .state st :: rest) ∧
        offsetsFrom s.openId (recSizes jo) = s.openOffsets ∧
        fdata y.fs s.openId ++ y.worker.inflight s.openId ++ s.pending = encAll jo) ∧
      -- replaying everything from the empty state / index map gives (st, log)
      stRun (flatRecs jc ++ jo) {} = some s.st ∧
      idxRun (flatOps jc ++ chunkOps s.openId jo) [] = some s.log ∧
      -- chunk by chunk, with the closing states and the bound on the index entries
      (∃ stC lC, RepC jc {} [] stC lC ∧ stRun jo stC = some s.st ∧
        idxRun (chunkOps s.openId jo) lC = some s.log) ∧
      -- the reference log
      s.st = r.state ∧ logKeys s.log = entKeys r.entries ∧ r.WF ∧
      -- payloads of the records the index entries point to
      (∀ e ∈ s.log, ∀ p, (⟨.append e.2.id p, e.2.chunk, ⟨e.2.off, e.2.size⟩⟩ : JOp)
        ∈ flatOps jc ++ chunkOps s.openId jo → (e.2.id, p) ∈ r.entries) ∧
      -- the checks along the journal after its first record
      (∀ hd tl, flatOps jc ++ chunkOps s.openId jo = hd :: tl → ∀ x, hd.r = .state x →
        RunOK tl x []) := by
  have hJ := h.J
  obtain ⟨s, hs, hd, hinv⟩ := h
  obtain ⟨jc, jo, g, gp, gr⟩ := hinv.rep
  obtain ⟨stC, lC, g1, g2, g3, _⟩ := g.run
  refine ⟨s, jc, jo, hs, hd, hJ, g.closedEq, ?_, ?_, ?_, ?_, ⟨stC, lC, g1, g2, g3⟩,
    hinv.abs.st, hinv.abs.log, hinv.abs.wf, gp, gr⟩
  · intro p hp
    obtain ⟨k1, k2, k3, k4⟩ := g.closedRecs p hp
    have hlt := hinv.j.closed_lt (g.mem_closed hp)
    have hne : ¬ s.openId = p.1.id := by omega
    simp only [chunkBytes, hne, if_false, List.append_nil] at k4
    exact ⟨k1, k2, k3, k4⟩
  · obtain ⟨k1, k2, k3, k4⟩ := g.openRecs
    simp only [chunkBytes, if_true] at k4
    exact ⟨k1, k2, k3, k4⟩
  · rw [stRun_append, g1.st]; exact g2
  · rw [idxRun_append, g1.idx]; exact g3

/-- (fresh) -/
theorem c02_replay_fresh (cfg : Cfg) : RSys (Sys.fresh cfg) {} := fresh_RSys cfg

/-- (call) A legal, accepted, well-formed, small op: the invariant is kept —
whether or not the call rotates the chunk (once or, for a batch, several
times) or drops closed chunks (purge) — and the call returns `ok`. -/
theorem c02_replay_call {y : Sys} {r r' : RefLog} (h : RSys y r) (op : Op)
    (hl : r.legal op = true) (hc : r.call op = .ok r') (hsm : op.small) (hwf : op.WF) :
    RSys (y.step (.call op)) r' ∧ ∃ seg, (y.call op).1 = .ok seg :=
  h.call hl hc hsm hwf

theorem c02_replay_flush {y : Sys} {r : RefLog} (h : RSys y r) (cb : Option Nat) :
    RSys (y.step (.flush cb)) r := h.flush cb

theorem c02_replay_worker {y : Sys} {r : RefLog} (h : RSys y r) (out : Outcome)
    (halive : (y.step (.worker out)).worker.pc ≠ .dead) : RSys (y.step (.worker out)) r :=
  h.worker out halive

theorem c02_replay_workerIdle {y : Sys} {r : RefLog} (h : RSys y r)
    (halive : (y.step .workerIdle).worker.pc ≠ .dead) : RSys (y.step .workerIdle) r :=
  h.workerIdle halive

theorem c02_replay_drain {y : Sys} {r : RefLog} (h : RSys y r) : RSys (y.step .drain) r := h.drain

/-- **The replay invariant holds along every legal history** of calls, flushes,
worker steps, `workerIdle` and `drain` from a freshly opened store, if the
worker is alive at the end. -/
theorem c02_replay_invariant (cfg : Cfg) (steps : List Step) (r : RefLog)
    (hsteps : ∀ st ∈ steps, st.journal = true)
    (hlegal : RefLog.run {} (stepOps steps) = some r)
    (hwf : ∀ op ∈ stepOps steps, op.WF ∧ op.small)
    (halive : ((Sys.fresh cfg).run steps).worker.pc ≠ .dead) :
    RSys ((Sys.fresh cfg).run steps) r :=
  run_RSys steps _ {} r (fresh_RSys cfg) hsteps hlegal hwf halive

/-- The linked files along the same histories: with nothing scheduled for
removal (store list empty, worker has nothing postponed, queued or in hand)
the linked ids are exactly the live chunk ids, oldest first. -/
theorem c02_linked_files (cfg : Cfg) (steps : List Step) (s : Store)
    (hsteps : ∀ st ∈ steps, st.journal = true) (hwf : ∀ op ∈ stepOps steps, op.WF)
    (halive : ((Sys.fresh cfg).run steps).worker.pc ≠ .dead)
    (hs : ((Sys.fresh cfg).run steps).store = some s) (hr : s.removed = [])
    (hw : ((Sys.fresh cfg).run steps).worker.toRemove = []) :
    ((Sys.fresh cfg).run steps).fs.linkedIds = s.closed.map Closed.id ++ [s.openId] := by
  have hJ := run_J steps _ (fresh_J cfg) hsteps hwf halive
  obtain ⟨s0, hs0, hli⟩ := run_LSys steps _ (fresh_LSys cfg) (fresh_J cfg) hsteps hwf halive
  rw [hs] at hs0; cases hs0
  obtain ⟨s1, hs1, _, hj⟩ := hJ
  rw [hs] at hs1; cases hs1
  rw [← Store.chunkIds_eq]
  exact hli.linkedIds_eq hj hr hw

/-! ### 3. The restart theorem -/

/-- The state in which a restart is clean: worker alive and blocked on an empty
queue, nothing pending, no removal outstanding in the store or the worker. -/
def Sys.Clean (y : Sys) : Prop :=
  ∃ s, y.store = some s ∧ y.worker.quiet = true ∧ s.pending = [] ∧ s.removed = [] ∧
    y.worker.postponed = []

/-- D15: `open` syncs every chunk file it keeps. When every linked file is already durable
(the normal case) that changes nothing. -/
theorem c02_syncAll_durable {y : Sys} {r : RefLog} (h : CSys y r)
    (hd : ∀ f ∈ y.fs, f.linked = true → f.durable = f.data.length) :
    y.fs.syncAll y.fs.linkedIds = y.fs :=
  syncAll_linkedIds_self h.nodup hd

/-- D15: the events of a clean `open` are only syncs of kept chunks. -/
theorem c02_syncEvs_only (ids : List Nat) : ∀ e ∈ syncEvs ids, ∃ id, e = Ev.sync "o" id true :=
  syncEvs_isOpenSync ids

/-- Drop + open from a clean state, in terms of the invariants. (D15: the events are
`syncEvs y.fs.linkedIds`, the file system is `y.fs.syncAll y.fs.linkedIds`; old: `[]`, `y.fs`.
See `c02_syncAll_durable` / `c02_syncEvs_only`.) -/
theorem c02_restart_step (y : Sys) (r : RefLog) (cfg' : Cfg) (h : CSys y r) (hc : y.Clean) :
    ∃ s s', y.store = some s ∧ ((y.step .drop).step (.openWith cfg')).store = some s' ∧
      ({ (y.step .drop) with cfg := cfg' } : Sys).open.1 = .ok () ∧
      ({ (y.step .drop) with cfg := cfg' } : Sys).open.2.2 = syncEvs y.fs.linkedIds ∧
      (y.step .drop).fs = y.fs ∧
      ((y.step .drop).step (.openWith cfg')).fs = y.fs.syncAll y.fs.linkedIds ∧
      s'.st = s.st ∧ s'.log = s.log ∧ s'.closed = s.closed ∧ s'.openOffsets = s.openOffsets ∧
      s'.pending = [] ∧ s'.removed = [] ∧ s'.cfg = cfg' ∧
      CSys ((y.step .drop).step (.openWith cfg')) r := by
  obtain ⟨s, hs, hq, hp, hrem, hpost⟩ := hc
  obtain ⟨s', k1, k2, k3, k4, k5, k6, k7, k8, k9, k10, k11, k12, _, _, k15, _⟩ :=
    restart_core y s r cfg' h hs hq hp hrem hpost
  exact ⟨s, s', hs, k1, k2, k3, k4, k5, k6, k7, k8, k9, k10, k11, k12, k15⟩

/-- **C02, clean restart.** `y` is reached from a freshly opened store by a
history of calls (legal and accepted for the reference log, reaching `r`;
well-formed and small), flushes, worker steps, `workerIdle` and `drain`; at the
end the worker is alive and quiet, nothing is pending and no chunk removal is
outstanding. Then for every configuration `cfg'`, with `y1 := y.step .drop` and
`y2 := y1.step (.openWith cfg')`:
* `open` returns `ok` and `y2.store = some s'`;
* no file is created, truncated, unlinked or written: the event list of that
  `open` is one `sync "o" id true` per linked chunk file (D15: `syncEvs y.fs.linkedIds`),
  `y1.fs = y.fs` and `y2.fs = y.fs.syncAll y.fs.linkedIds` (only durable marks are
  raised); if every linked file of `y.fs` was already durable, `y2.fs = y.fs`;
* `s'.st = s.st = r.state`, `s'.log = s.log`;
* `s'.closed = s.closed` (offsets AND recorded closing states) and
  `s'.openOffsets = s.openOffsets`: the last chunk is reused as the open chunk;
* `s'.pending = []`, `s'.removed = []`, `s'.cfg = cfg'`;
* `J y2`: the journal invariant holds again, and so do the replay invariant and
  the linked-files invariant (`CSys y2 r`), so everything proved for histories
  from `Sys.fresh` continues from `y2`. -/
theorem c02_clean_restart (cfg cfg' : Cfg) (steps : List Step) (r : RefLog) (s : Store)
    (hsteps : ∀ st ∈ steps, st.journal = true)
    (hlegal : RefLog.run {} (stepOps steps) = some r)
    (hwf : ∀ op ∈ stepOps steps, op.WF ∧ op.small)
    (halive : ((Sys.fresh cfg).run steps).worker.pc ≠ .dead)
    (hs : ((Sys.fresh cfg).run steps).store = some s)
    (hq : ((Sys.fresh cfg).run steps).worker.quiet = true)
    (hp : s.pending = []) (hrem : s.removed = [])
    (hpost : ((Sys.fresh cfg).run steps).worker.postponed = []) :
    let y := (Sys.fresh cfg).run steps
    let y1 := y.step .drop
    let y2 := y1.step (.openWith cfg')
    ∃ s', y2.store = some s' ∧
      ({ y1 with cfg := cfg' } : Sys).open.1 = .ok () ∧
      ({ y1 with cfg := cfg' } : Sys).open.2.2 = syncEvs y.fs.linkedIds ∧
      y1.fs = y.fs ∧ y2.fs = y.fs.syncAll y.fs.linkedIds ∧
      s'.st = s.st ∧ s'.st = r.state ∧ s'.log = s.log ∧
      s'.closed.map (·.offsets) ++ [s'.openOffsets] = s.closed.map (·.offsets) ++ [s.openOffsets] ∧
      s'.closed = s.closed ∧ s'.openOffsets = s.openOffsets ∧
      s'.pending = [] ∧ s'.removed = [] ∧ s'.cfg = cfg' ∧
      J y2 ∧ CSys y2 r ∧
      (∀ e ∈ ({ y1 with cfg := cfg' } : Sys).open.2.2, ∃ id, e = Ev.sync "o" id true) ∧
      ((∀ f ∈ y.fs, f.linked = true → f.durable = f.data.length) → y2.fs = y.fs) := by
  intro y y1 y2
  have hC : CSys y r := run_CSys steps _ {} r (fresh_CSys cfg) hsteps hlegal hwf halive
  obtain ⟨s', k1, k2, k3, k4, k5, k6, k7, k8, k9, k10, k11, k12, _, _, k15, _⟩ :=
    restart_core y s r cfg' hC hs hq hp hrem hpost
  obtain ⟨s0, hs0, _, hinv⟩ := hC.1
  rw [hs] at hs0; cases hs0
  exact ⟨s', k1, k2, k3, k4, k5, k6, by rw [k6]; exact hinv.abs.st, k7, by rw [k8, k9], k8, k9,
    k10, k11, k12, k15.1.J, k15, by rw [k3]; exact syncEvs_isOpenSync _,
    fun hd => by rw [k5]; exact c02_syncAll_durable hC hd⟩

/-! ### 3b. The refinement continues -/

/-- **C02, the refinement continues.** If moreover the cache limits of `cfg'`
cover all `Append` records in the retained chunk files (`fileAppends`: what
`open` will read; during replay the cache may also hold entries that a later
record of the journal purges), then no entry is evicted while `open` replays the
journal and the reopened store refines the same reference log `r` (`Refines`:
state, index map, every live entry resident with its payload, cache invariant):
every `read` returns exactly `r`'s entries, and `c01_step` / `c01_read` apply to
it. The cache holds at most the `Append` records of the files, so `SysRef`
holds with the remaining room as budget. -/
theorem c02_refinement_continues (cfg cfg' : Cfg) (steps : List Step) (r : RefLog) (s : Store)
    (hsteps : ∀ st ∈ steps, st.journal = true)
    (hlegal : RefLog.run {} (stepOps steps) = some r)
    (hwf : ∀ op ∈ stepOps steps, op.WF ∧ op.small)
    (halive : ((Sys.fresh cfg).run steps).worker.pc ≠ .dead)
    (hs : ((Sys.fresh cfg).run steps).store = some s)
    (hq : ((Sys.fresh cfg).run steps).worker.quiet = true)
    (hp : s.pending = []) (hrem : s.removed = [])
    (hpost : ((Sys.fresh cfg).run steps).worker.postponed = [])
    (hN : (fileAppends ((Sys.fresh cfg).run steps).fs).length ≤ cfg'.cacheItems)
    (hB : sumLen (fileAppends ((Sys.fresh cfg).run steps).fs) ≤ cfg'.cacheCap) :
    let y := (Sys.fresh cfg).run steps
    let y2 := (y.step .drop).step (.openWith cfg')
    ∃ s', y2.store = some s' ∧ Refines s' r ∧
      (∀ a b, (s'.read y2.fs a b).1 = (r.read a b).map (fun e => ReadItem.ok e.1 e.2)) ∧
      s'.iter y2.fs = r.entries.map (fun e => ReadItem.ok e.1 e.2) ∧
      SysRef y2 r (cfg'.cacheItems - (fileAppends y.fs).length)
        (cfg'.cacheCap - sumLen (fileAppends y.fs)) := by
  intro y y2
  have hC : CSys y r := run_CSys steps _ {} r (fresh_CSys cfg) hsteps hlegal hwf halive
  obtain ⟨s', k1, _, _, _, _, _, _, _, _, _, _, _, k13, k14, k15, k16⟩ :=
    restart_core y s r cfg' hC hs hq hp hrem hpost
  have hN' : (fileAppends y.fs).length ≤ cfg'.cacheItems := hN
  have hB' : sumLen (fileAppends y.fs) ≤ cfg'.cacheCap := hB
  obtain ⟨href, hcnt, hbyt⟩ := k16 hN' hB'
  obtain ⟨s0, hs0, _, hj⟩ := k15.1.J
  rw [k1] at hs0; cases hs0
  exact ⟨s', k1, href, fun a b => href.read _ a b, href.iter _,
    ⟨s', k1, href, hj.fsLt, by rw [k13]; omega, by rw [k14]; omega⟩⟩

/-- **... and so does the history.** After the restart, any further history of
calls, flushes and worker steps whose calls are legal and accepted from `r`
(reaching `r2`), small, and whose appended entries fit the room the cache has
left: the final store reports `r2`'s state, every read returns exactly `r2`'s
entries, and every call along the way was accepted (`c01` from the reopened
store). -/
theorem c02_history_after_restart (cfg cfg' : Cfg) (steps more : List Step) (r r2 : RefLog)
    (s : Store)
    (hsteps : ∀ st ∈ steps, st.journal = true)
    (hlegal : RefLog.run {} (stepOps steps) = some r)
    (hwf : ∀ op ∈ stepOps steps, op.WF ∧ op.small)
    (halive : ((Sys.fresh cfg).run steps).worker.pc ≠ .dead)
    (hs : ((Sys.fresh cfg).run steps).store = some s)
    (hq : ((Sys.fresh cfg).run steps).worker.quiet = true)
    (hp : s.pending = []) (hrem : s.removed = [])
    (hpost : ((Sys.fresh cfg).run steps).worker.postponed = [])
    (hmore : ∀ st ∈ more, st.c01 = true) (hlegal2 : r.run (stepOps more) = some r2)
    (hsmall2 : ∀ op ∈ stepOps more, op.small)
    (hN : (fileAppends ((Sys.fresh cfg).run steps).fs).length + opsCount (stepOps more)
      ≤ cfg'.cacheItems)
    (hB : sumLen (fileAppends ((Sys.fresh cfg).run steps).fs) + opsBytes (stepOps more)
      ≤ cfg'.cacheCap) :
    let y2 := (((Sys.fresh cfg).run steps).step .drop).step (.openWith cfg')
    (∃ s2, (y2.run more).store = some s2 ∧ s2.st = r2.state ∧
      (∀ a b, (s2.read (y2.run more).fs a b).1 = (r2.read a b).map (fun e => ReadItem.ok e.1 e.2)) ∧
      s2.iter (y2.run more).fs = r2.entries.map (fun e => ReadItem.ok e.1 e.2)) ∧
    (∀ pre op post, more = pre ++ Step.call op :: post →
      ∃ s3 seg, (y2.run pre).store = some s3 ∧ (s3.call (y2.run pre).fs.has op).1 = .ok seg) := by
  intro y2
  obtain ⟨s', _, _, _, _, href⟩ := c02_refinement_continues cfg cfg' steps r s hsteps hlegal hwf halive
    hs hq hp hrem hpost (by omega) (by omega)
  obtain ⟨⟨s2, hs2, href2, _⟩, hcalls⟩ := run_sysRef more y2 r r2
    (href.mono (by omega) (by omega)) hmore hlegal2 hsmall2
  refine ⟨⟨s2, hs2, href2.st, fun a b => href2.read _ a b, href2.iter _⟩, ?_⟩
  intro pre op post hsplit
  obtain ⟨s3, seg, h1, h2, _⟩ := hcalls pre op post hsplit
  exact ⟨s3, seg, h1, h2⟩

/-- Why `removed = []` is a hypothesis. Chunks hold two records; the purge
record fills the open chunk, the rotation empties the pending buffer, and the
three purged chunks are still on the removal list (the worker is quiet, nothing
is pending). After drop + open the state and the index map are still the same,
but the three obsolete chunks — whose files are still linked — are loaded as
closed chunks. -/
def c02RemovedExample : Sys :=
  (Sys.fresh { maxRecords := 2 }).run
    [.call (.append [(⟨1, 0⟩, [1])]), .call (.append [(⟨1, 1⟩, [2])]), .call (.purge ⟨1, 1⟩),
     .workerIdle]

theorem c02_removed_needed :
    c02RemovedExample.worker.quiet = true ∧
    c02RemovedExample.store.map (fun s => (s.pending, s.removed, s.closed.map Closed.id, s.openId))
      = some ([], [0, 51, 118], [], 180) ∧
    ((c02RemovedExample.step .drop).step (.openWith { maxRecords := 2 })).store.map
      (fun s => (s.closed.map Closed.id, s.openId)) = some ([0, 51, 118], 180) ∧
    ((c02RemovedExample.step .drop).step (.openWith { maxRecords := 2 })).store.map
      (fun s => (s.st, s.log)) = c02RemovedExample.store.map (fun s => (s.st, s.log)) := by
  decide +kernel

/-! ### 4. Any number of cycles -/

/-- A history segment, then drop, then open with the given configuration. -/
def Sys.runCycle (y : Sys) (seg : List Step × Cfg) : Sys :=
  ((y.run seg.1).step .drop).step (.openWith seg.2)

def Sys.runCycles (y : Sys) (segs : List (List Step × Cfg)) : Sys := segs.foldl Sys.runCycle y

/-- Every segment ends in a clean state with a live worker. -/
def CleanCycles : Sys → List (List Step × Cfg) → Prop
  | _, [] => True
  | y, seg :: rest =>
    (y.run seg.1).worker.pc ≠ .dead ∧ (y.run seg.1).Clean ∧ CleanCycles (y.runCycle seg) rest

/-- All ops of the segments, in order. -/
def cycleOps : List (List Step × Cfg) → List Op
  | [] => []
  | seg :: rest => stepOps seg.1 ++ cycleOps rest

theorem cycles_CSys (segs : List (List Step × Cfg)) : ∀ (y : Sys) (r r' : RefLog), CSys y r →
    (∀ seg ∈ segs, ∀ st ∈ seg.1, st.journal = true) → r.run (cycleOps segs) = some r' →
    (∀ op ∈ cycleOps segs, op.WF ∧ op.small) → CleanCycles y segs →
    CSys (y.runCycles segs) r' := by
  induction segs with
  | nil =>
    intro y r r' h _ hr _ _
    simp only [cycleOps, RefLog.run, Option.some.injEq] at hr; subst hr
    exact h
  | cons seg rest ih =>
    intro y r r' h hst hr hwf hclean
    obtain ⟨hnd, hc, hrest⟩ := hclean
    simp only [cycleOps, RefLog.run_append] at hr
    cases hr1 : r.run (stepOps seg.1) with
    | none => rw [hr1] at hr; cases hr
    | some r1 =>
      rw [hr1] at hr
      simp only [Option.bind_some] at hr
      have h1 : CSys (y.run seg.1) r1 :=
        run_CSys seg.1 y r r1 h (hst seg List.mem_cons_self) hr1
          (fun op hop => hwf op (by simp only [cycleOps]; exact List.mem_append_left _ hop)) hnd
      obtain ⟨_, _, _, _, _, _, _, _, _, _, _, _, _, _, _, h2⟩ :=
        c02_restart_step (y.run seg.1) r1 seg.2 h1 hc
      simp only [Sys.runCycles, List.foldl_cons]
      exact ih (y.runCycle seg) r1 r' h2 (fun sg hsg => hst sg (List.mem_cons_of_mem _ hsg)) hr
        (fun op hop => hwf op (by simp only [cycleOps]; exact List.mem_append_right _ hop)) hrest

/-- **C02, cycles.** Any number of segments, each a history of calls, flushes,
worker steps, `workerIdle`, `drain` that ends clean and is followed by drop +
open with its own configuration, then a final history `last`: if all calls, in
order, are legal and accepted by the reference log from the empty log, reaching
`r` (well-formed, small) and the worker is alive at the end, the final store
reports `r`'s state, its index map lists exactly `r`'s entries (index and id),
and the journal, replay and linked-files invariants hold. -/
theorem c02_cycles (cfg : Cfg) (segs : List (List Step × Cfg)) (last : List Step) (r : RefLog)
    (hsegs : ∀ seg ∈ segs, ∀ st ∈ seg.1, st.journal = true)
    (hlast : ∀ st ∈ last, st.journal = true)
    (hlegal : RefLog.run {} (cycleOps segs ++ stepOps last) = some r)
    (hwf : ∀ op ∈ cycleOps segs ++ stepOps last, op.WF ∧ op.small)
    (hclean : CleanCycles (Sys.fresh cfg) segs)
    (halive : (((Sys.fresh cfg).runCycles segs).run last).worker.pc ≠ .dead) :
    let y := ((Sys.fresh cfg).runCycles segs).run last
    ∃ s, y.store = some s ∧ s.st = r.state ∧
      s.log.map (fun e => (e.1, e.2.id)) = r.entries.map (fun e => (e.1.index, e.1)) ∧
      J y ∧ CSys y r := by
  intro y
  rw [RefLog.run_append] at hlegal
  cases hr1 : RefLog.run {} (cycleOps segs) with
  | none => rw [hr1] at hlegal; cases hlegal
  | some r1 =>
    rw [hr1] at hlegal
    simp only [Option.bind_some] at hlegal
    have h1 := cycles_CSys segs (Sys.fresh cfg) {} r1 (fresh_CSys cfg) hsegs hr1
      (fun op hop => hwf op (List.mem_append_left _ hop)) hclean
    have h2 : CSys y r := run_CSys last _ r1 r h1 hlast hlegal
      (fun op hop => hwf op (List.mem_append_right _ hop)) halive
    obtain ⟨s, hs, _, hinv⟩ := h2.1
    exact ⟨s, hs, hinv.abs.st, hinv.abs.log, h2.1.J, h2⟩

/-- The refinement after a restart, from the invariants alone (so it applies
after any number of earlier cycles, `c02_cycles_refines`). -/
theorem c02_restart_refines (y : Sys) (r : RefLog) (cfg' : Cfg) (h : CSys y r) (hc : y.Clean)
    (hN : (fileAppends y.fs).length ≤ cfg'.cacheItems)
    (hB : sumLen (fileAppends y.fs) ≤ cfg'.cacheCap) :
    ∃ s', ((y.step .drop).step (.openWith cfg')).store = some s' ∧ Refines s' r ∧
      ((y.step .drop).step (.openWith cfg')).fs = y.fs.syncAll y.fs.linkedIds ∧
      SysRef ((y.step .drop).step (.openWith cfg')) r
        (cfg'.cacheItems - (fileAppends y.fs).length) (cfg'.cacheCap - sumLen (fileAppends y.fs)) ∧
      CSys ((y.step .drop).step (.openWith cfg')) r := by
  obtain ⟨s, hs, hq, hp, hrem, hpost⟩ := hc
  obtain ⟨s', k1, _, _, _, k5, _, _, _, _, _, _, _, k13, k14, k15, k16⟩ :=
    restart_core y s r cfg' h hs hq hp hrem hpost
  obtain ⟨href, hcnt, hbyt⟩ := k16 hN hB
  obtain ⟨s0, hs0, _, hj⟩ := k15.1.J
  rw [k1] at hs0; cases hs0
  exact ⟨s', k1, href, k5, ⟨s', k1, href, hj.fsLt, by rw [k13]; omega, by rw [k14]; omega⟩, k15⟩

/-- **C02, cycles, with the refinement at the end.** After any number of clean
cycles (any configurations, any cache limits, `drain` allowed) and a final
history that ends clean, a restart whose cache limits cover the `Append`
records of the retained files yields a store that refines the reference log:
every read returns exactly its entries. -/
theorem c02_cycles_refines (cfg cfg' : Cfg) (segs : List (List Step × Cfg)) (last : List Step)
    (r : RefLog)
    (hsegs : ∀ seg ∈ segs, ∀ st ∈ seg.1, st.journal = true)
    (hlast : ∀ st ∈ last, st.journal = true)
    (hlegal : RefLog.run {} (cycleOps segs ++ stepOps last) = some r)
    (hwf : ∀ op ∈ cycleOps segs ++ stepOps last, op.WF ∧ op.small)
    (hclean : CleanCycles (Sys.fresh cfg) segs)
    (halive : (((Sys.fresh cfg).runCycles segs).run last).worker.pc ≠ .dead)
    (hc : (((Sys.fresh cfg).runCycles segs).run last).Clean)
    (hN : (fileAppends (((Sys.fresh cfg).runCycles segs).run last).fs).length ≤ cfg'.cacheItems)
    (hB : sumLen (fileAppends (((Sys.fresh cfg).runCycles segs).run last).fs) ≤ cfg'.cacheCap) :
    let y2 := (((((Sys.fresh cfg).runCycles segs).run last).step .drop).step (.openWith cfg'))
    ∃ s', y2.store = some s' ∧ Refines s' r ∧
      (∀ a b, (s'.read y2.fs a b).1 = (r.read a b).map (fun e => ReadItem.ok e.1 e.2)) := by
  intro y2
  obtain ⟨_, _, _, _, _, hC⟩ := c02_cycles cfg segs last r hsegs hlast hlegal hwf hclean halive
  obtain ⟨s', k1, href, _, _, _⟩ := c02_restart_refines _ r cfg' hC hc hN hB
  exact ⟨s', k1, href, fun a b => href.read _ a b⟩

/-! ### Non-vacuity -/

/-- A legal history with chunk rotation after every second record, a truncate
and re-append, a purge that drops closed chunks, `drain`, flushes and worker
steps, ending clean. -/
def c02Example : List Step :=
  [ .call (.saveVote ⟨1, 7⟩),
    .call (.append [(⟨1, 0⟩, [1, 2, 3]), (⟨1, 1⟩, [4]), (⟨1, 2⟩, [5, 6])]),
    .flush (some 0),
    .worker .ok,
    .worker (.short 3),
    .call (.truncate 2),
    .call (.append [(⟨2, 2⟩, [9])]),
    .call (.purge ⟨1, 0⟩),
    .drain,
    .call (.saveUserData (some [42])),
    .flush none,
    .workerIdle ]

/-- The hypotheses of `c02_clean_restart` hold for it (computed by the model):
the steps are of the kinds covered, the ops legal, well-formed and small; at
the end the worker is alive and quiet, nothing is pending or scheduled for
removal; six closed chunks are live and two chunk files have been unlinked. -/
example :
    (∀ st ∈ c02Example, st.journal = true) ∧
    (RefLog.run {} (stepOps c02Example)).isSome = true ∧
    (∀ op ∈ stepOps c02Example, op.WF ∧ op.small) ∧
    ((Sys.fresh { maxRecords := 2 }).run c02Example).worker.pc ≠ .dead ∧
    ((Sys.fresh { maxRecords := 2 }).run c02Example).worker.quiet = true ∧
    ((Sys.fresh { maxRecords := 2 }).run c02Example).worker.postponed = [] ∧
    (∃ s, ((Sys.fresh { maxRecords := 2 }).run c02Example).store = some s ∧ s.pending = [] ∧
      s.removed = [] ∧ s.closed.length = 6) ∧
    (((Sys.fresh { maxRecords := 2 }).run c02Example).fs.filter (fun f => !f.linked)).length = 2 := by
  refine ⟨by decide, by decide, ?_, by decide, by decide, by decide, ⟨_, rfl, by decide, by decide, by decide⟩,
    by decide⟩
  intro op hop
  simp only [c02Example, stepOps, List.mem_cons, List.not_mem_nil, or_false] at hop
  rcases hop with h | h | h | h | h | h <;> subst h <;>
    simp [Op.WF, Op.small, LogId.WF, bytesWF, smallId, U64, U32]

/-- And the conclusion on this history, computed by the model: reopened with
other chunk and cache limits, the store has the same state, index map and
chunk table, and the file system is unchanged. -/
example :
    ((((Sys.fresh { maxRecords := 2 }).run c02Example).step .drop).step
        (.openWith { maxRecords := 3, cacheItems := 1 })).store.map
      (fun s => (s.st, s.log, s.closed)) =
      ((Sys.fresh { maxRecords := 2 }).run c02Example).store.map (fun s => (s.st, s.log, s.closed)) ∧
    ((((Sys.fresh { maxRecords := 2 }).run c02Example).step .drop).step
        (.openWith { maxRecords := 3, cacheItems := 1 })).store.map
      (fun s => (s.openOffsets, s.pending, s.removed)) =
      ((Sys.fresh { maxRecords := 2 }).run c02Example).store.map
        (fun s => (s.openOffsets, s.pending, s.removed)) ∧
    ((((Sys.fresh { maxRecords := 2 }).run c02Example).step .drop).step
        (.openWith { maxRecords := 3, cacheItems := 1 })).fs
      = ((Sys.fresh { maxRecords := 2 }).run c02Example).fs := by
  decide +kernel

/-- The additional hypothesis of `c02_refinement_continues` on this history:
the retained files hold three `Append` records with four payload bytes (one of
them, `(1,2)`, was truncated later — it is in the files but not live), so cache
limits of 3 entries / 4 bytes suffice; and the conclusion computed by the
model: both live entries are read back from the reopened store. -/
example :
    (fileAppends ((Sys.fresh { maxRecords := 2 }).run c02Example).fs).length = 3 ∧
    sumLen (fileAppends ((Sys.fresh { maxRecords := 2 }).run c02Example).fs) = 4 ∧
    ((((Sys.fresh { maxRecords := 2 }).run c02Example).step .drop).step
        (.openWith { maxRecords := 3, cacheItems := 3, cacheCap := 4 })).store.map
      (fun s => (s.read ((Sys.fresh { maxRecords := 2 }).run c02Example).fs 0 10).1)
      = some [ReadItem.ok ⟨1, 1⟩ [4], ReadItem.ok ⟨2, 2⟩ [9]] := by
  decide +kernel

/-- `Sys.Clean` as a computable check. -/
def Sys.cleanB (y : Sys) : Bool :=
  match y.store with
  | some s => y.worker.quiet && s.pending.isEmpty && s.removed.isEmpty && y.worker.postponed.isEmpty
  | none => false

theorem Sys.clean_of_cleanB {y : Sys} (h : y.cleanB = true) : y.Clean := by
  unfold Sys.cleanB at h
  cases hs : y.store with
  | none => rw [hs] at h; cases h
  | some s =>
    rw [hs] at h
    simp only [Bool.and_eq_true, List.isEmpty_iff] at h
    exact ⟨s, hs, h.1.1.1, h.1.1.2, h.1.2, h.2⟩

/-- A second cycle on top: `CleanCycles` is satisfiable with two segments. -/
example :
    CleanCycles (Sys.fresh { maxRecords := 2 })
      [(c02Example, { maxRecords := 3 }),
       ([.call (.append [(⟨2, 3⟩, [7])]), .flush none, .workerIdle], { maxRecords := 2 })] := by
  refine ⟨by decide +kernel, Sys.clean_of_cleanB (by decide +kernel), by decide +kernel,
    Sys.clean_of_cleanB (by decide +kernel), trivial⟩

end RaftLog
