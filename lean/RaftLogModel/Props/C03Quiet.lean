/-
C03 — Crash safety, the two gaps of `Props/C03.lean` closed.

`c03_crash_prefix_partial` and `c03_acked_writes_survive_partial` (in `Props/C03.lean`)
carry the hypothesis `hBA : B ≤ A` (the marker `B` = journal end right after the last
purge that dropped chunks is at or below the acknowledged position `A`) next to the
state hypothesis "no chunk removal outstanding" (`s.removed = []`, `worker.toRemove = []`).

**Goal 1 — `hBA` is a consequence of "no chunk removal outstanding".**

* `c03_quiet_spec`: what `worker.toRemove = []` says — no postponed id, no `unlink`
  in progress, no `removeChunks` request (with ids) in hand or queued. Together
  with `s.removed = []` this is exactly the condition under which every file of a
  dropped chunk has been unlinked (`c03_quiet_linked`: the linked files are the
  live chunks).
* `c03_marker_acked_when_quiet`: along every legal history, in every such state,
  `B ≤ A`. (Helper files `Proofs/CrashQ.lean`, `Proofs/CrashQSys.lean`: the
  invariant `MInvC3b`: `B ≤ A`, or `s.removed ≠ []`, or the worker still has
  something to unlink and cannot unlink it before a batch containing a write with
  `upto ≥ B` is synced successfully.)
* `c03_marker_invariant`: the invariant itself, for every reachable state.
* `c03_crash_prefix_quiet`, `c03_acked_writes_survive_quiet`: the two final
  theorems of `Props/C03.lean` without `hBA`.

**Goal 2 — no hypothesis on outstanding removals at all** (second half of this file;
helper files `Proofs/CrashQG1.lean` … `CrashQG9.lean`).

* `c03_linked_files`: the linked files of a reachable state are the dropped chunks not
  unlinked yet (a consecutive run, oldest first, = the ids the worker/store still hold
  for removal, in order) followed by the live chunks; every linked file is a byte prefix
  of its chunk's records and durable up to the acknowledged position.
* `c03_recovered_is_linked_journal_prefix`: S2 for the journal of all linked chunks.
* FINAL `c03_crash_prefix`, `c03_acked_writes_survive`: the property, with no hypothesis
  besides "legal history, worker alive".
-/
import RaftLogModel.Props.C03
import RaftLogModel.Proofs.CrashQG9
namespace RaftLog

/-! ### "No removal outstanding" -/

/-- What `worker.toRemove = []` says: nothing postponed, no `unlink` in progress,
and every `removeChunks` request taken from the channel but not handled yet (the
request at the gate, or the request that ended the batch in hand) or still queued
carries no id. -/
theorem c03_quiet_spec (w : Worker) :
    w.toRemove = [] ↔
      w.postponed = [] ∧ (∀ ids, w.pc = .unlinking ids → ids = []) ∧
      (∀ ids, WReq.removeChunks ids ∈ w.pc.inHand ++ w.queue → ids = []) := by
  have hrm : ∀ l : List WReq, rmIds l = [] ↔ ∀ ids, WReq.removeChunks ids ∈ l → ids = [] := by
    intro l
    induction l with
    | nil => simp [rmIds]
    | cons r q ih =>
      cases r with
      | write u d cb => simp [rmIds, ih]
      | appendFile n p => simp [rmIds, ih]
      | removeChunks ids =>
        simp only [rmIds, List.append_eq_nil_iff, ih, List.mem_cons, WReq.removeChunks.injEq]
        constructor
        · rintro ⟨h1, h2⟩ ids' (e | e)
          · rw [e]; exact h1
          · exact h2 ids' e
        · intro h
          exact ⟨h ids (Or.inl rfl), fun ids' e => h ids' (Or.inr e)⟩
  have hunl : w.pc.unl = [] ↔ ∀ ids, w.pc = .unlinking ids → ids = [] := by
    cases hpc : w.pc <;> simp [WPc.unl]
  simp only [Worker.toRemove, List.append_eq_nil_iff, hrm, hunl, and_assoc]

/-- With no removal outstanding, the linked files are exactly the live chunks:
every file of a dropped chunk has been unlinked. -/
theorem c03_quiet_linked (cfg : Cfg) (steps : List Step) (r : RefLog) (s : Store)
    (hsteps : ∀ st ∈ steps, st.journal = true)
    (hlegal : RefLog.run {} (stepOps steps) = some r)
    (hwf : ∀ op ∈ stepOps steps, op.WF ∧ op.small)
    (halive : ((Sys.fresh cfg).run steps).worker.pc ≠ .dead)
    (hs : ((Sys.fresh cfg).run steps).store = some s)
    (hrem : s.removed = []) (htr : ((Sys.fresh cfg).run steps).worker.toRemove = []) :
    ((Sys.fresh cfg).run steps).fs.linkedIds = s.closed.map Closed.id ++ [s.openId] := by
  obtain ⟨⟨s0, hs0, _, hi⟩, ⟨s1, hs1, hli⟩, _, _⟩ := reach_HSys cfg steps r hsteps hlegal hwf halive
  rw [hs] at hs0 hs1; cases hs0; cases hs1
  rw [← Store.chunkIds_eq]
  exact linked_of_no_removals_C3 hli hi.inv.j hrem htr

/-! ### The marker is acknowledged -/

/-- **The marker invariant**, for every state reached by a legal history from a
freshly opened store (worker alive): with `B` the marker (`Sys.markRun`: the
journal end right after the last purge that dropped chunks; 0 if none) and `A`
the acknowledged position (`Sys.ackRun`),

* `B ≤ A`, or
* the store still holds a removal list (`s.removed ≠ []`: the purge was not
  followed by a flush yet), or
* the worker is guarded for `B`: its unhandled requests are `pre ++ suf` where
  `suf` starts with a write, all writes of `suf` have `upto ≥ B` and `suf` contains
  a removal request with ids; or all unhandled writes have `upto ≥ B`, the worker is
  safe (the batch in hand contains a write with `upto ≥ B`, or no batch is in hand
  and the last sync failed, so removals are postponed) and something is left to
  remove (postponed ids, or a queued removal request with ids).

In the last two cases something is still scheduled for removal. -/
theorem c03_marker_invariant (cfg : Cfg) (steps : List Step) (r : RefLog)
    (hsteps : ∀ st ∈ steps, st.journal = true)
    (hlegal : RefLog.run {} (stepOps steps) = some r)
    (hwf : ∀ op ∈ stepOps steps, op.WF ∧ op.small)
    (halive : ((Sys.fresh cfg).run steps).worker.pc ≠ .dead) :
    let y := (Sys.fresh cfg).run steps
    let B := (Sys.fresh cfg).markRun steps 0
    let A := (Sys.fresh cfg).ackRun steps 0
    ∃ s, y.store = some s ∧
      (B ≤ A ∨ s.removed ≠ [] ∨
        ((∃ pre suf, y.worker.pc.inHand ++ y.worker.queue = pre ++ suf ∧
            (∀ q ∈ suf, q.isWrite = true → B ≤ q.upto) ∧ (∃ q0 rest, suf = q0 :: rest ∧ q0.isWrite = true) ∧
            rmIds suf ≠ []) ∨
         ((∀ q ∈ y.worker.pc.inHand ++ y.worker.queue, q.isWrite = true → B ≤ q.upto) ∧
            PcSafeC3b B y.worker ∧
            (y.worker.postponed ≠ [] ∨ rmIds (y.worker.pc.inHand ++ y.worker.queue) ≠ [])))) ∧
      ((s.removed ≠ [] ∨ WGuardC3b B y.worker) → s.removed ≠ [] ∨ y.worker.toRemove ≠ []) := by
  intro y B A
  obtain ⟨s, hs, hm⟩ := reach_QSys_C3b cfg steps r hsteps hlegal hwf halive
  refine ⟨s, hs, hm, ?_⟩
  rintro (h | h)
  · exact Or.inl h
  · exact Or.inr h.toRemove_ne

/-- What "safe for `B`" means, by control state of the worker. -/
theorem c03_pcSafe_spec (B : Nat) (w : Worker) :
    PcSafeC3b B w ↔
      match w.pc with
      | .writing _ b _ => ∃ q ∈ b, B ≤ q.upto
      | .syncOld b _ => ∃ q ∈ b, B ≤ q.upto
      | .syncNew b _ => ∃ q ∈ b, B ≤ q.upto
      | _ => w.lastSyncFailed = true := Iff.rfl

/-- **Goal 1: no removal outstanding ⇒ the marker is acknowledged.** Along every
legal history from a freshly opened store (calls legal and accepted by the
reference log, well-formed, small; flushes; worker steps of any outcome;
`workerIdle`; `drain`; worker alive at the end): if the store's removal list is
empty and the worker has nothing left to unlink (`c03_quiet_spec`), then the
journal end right after the last purge that dropped chunks is at or below the
acknowledged position. -/
theorem c03_marker_acked_when_quiet (cfg : Cfg) (steps : List Step) (r : RefLog) (s : Store)
    (hsteps : ∀ st ∈ steps, st.journal = true)
    (hlegal : RefLog.run {} (stepOps steps) = some r)
    (hwf : ∀ op ∈ stepOps steps, op.WF ∧ op.small)
    (halive : ((Sys.fresh cfg).run steps).worker.pc ≠ .dead)
    (hs : ((Sys.fresh cfg).run steps).store = some s)
    (hrem : s.removed = []) (htr : ((Sys.fresh cfg).run steps).worker.toRemove = []) :
    (Sys.fresh cfg).markRun steps 0 ≤ (Sys.fresh cfg).ackRun steps 0 :=
  mark_le_ack_of_quiet_C3b cfg steps r s hsteps hlegal hwf halive hs hrem htr

/-! ### FINAL, without `hBA` -/

/-- **C03, combined, whenever no chunk removal is outstanding.** The history is
split as `pre ++ post` (any split). The final state is reached from a freshly
opened store by a legal history (calls legal and accepted by the reference log,
well-formed, small; flushes; worker steps of any outcome; `workerIdle`; `drain`),
the worker is alive, and no chunk removal is outstanding (`s.removed = []`, the
worker has nothing to unlink: `c03_quiet_spec`). `img` is any crash image of the
directory, `cfg'` any configuration. If `openStore cfg' img` returns `ok` with
store `s'`, then there are `n` and a reference log `r'` such that

* the first `n` entry-level writes of the history are accepted and reach `r'`;
* `s'.st = r'.state` and the index keys of `s'.log` are those of `r'.entries`;
* (lower bound, in writes) if the journal end at the end of `pre` is at or below
  the acknowledged position `A`, then `n` is at least the number of entry-level
  writes issued during `pre`;
* (lower bound, in journal positions) `n ≥ N0 + cntW Q` for every prefix `Q` of
  the retained journal that ends at or below `A`.

No hypothesis on the marker: `B ≤ A` is proved (`c03_marker_acked_when_quiet`). -/
theorem c03_crash_prefix_quiet (cfg cfg' : Cfg) (pre post : List Step) (r : RefLog) (s : Store)
    (hsteps : ∀ st ∈ pre ++ post, st.journal = true)
    (hlegal : RefLog.run {} (stepOps (pre ++ post)) = some r)
    (hwf : ∀ op ∈ stepOps (pre ++ post), op.WF ∧ op.small)
    (halive : ((Sys.fresh cfg).run (pre ++ post)).worker.pc ≠ .dead)
    (hs : ((Sys.fresh cfg).run (pre ++ post)).store = some s)
    (hrem : s.removed = []) (htr : ((Sys.fresh cfg).run (pre ++ post)).worker.toRemove = [])
    (img : Fs) (hc : CrashImage ((Sys.fresh cfg).run (pre ++ post)).fs img)
    (s' : Store) (w' : Worker) (fs' : Fs) (evs : List Ev)
    (hopen : openStore cfg' img = (.ok (s', w'), fs', evs)) :
    let y := (Sys.fresh cfg).run (pre ++ post)
    let W := expandOps {} (stepOps (pre ++ post))
    let A := (Sys.fresh cfg).ackRun (pre ++ post) 0
    ∃ n r', RefLog.run {} (W.take n) = some r' ∧ s'.st = r'.state ∧
      logKeys s'.log = entKeys r'.entries ∧
      (∀ s1, ((Sys.fresh cfg).run pre).store = some s1 → s1.openEnd ≤ A →
        (expandOps {} (stepOps pre)).length ≤ n) ∧
      ∃ jc jo N0, RepG s y.fs y.worker jc jo ∧ W.length = N0 + cntW (allOps s jc jo) ∧
        ∀ Q, Q <+: allOps s jc jo → s.jstart + sizeSum Q ≤ A → N0 + cntW Q ≤ n :=
  c03_crash_prefix_partial cfg cfg' pre post r s hsteps hlegal hwf halive hs hrem htr
    (c03_marker_acked_when_quiet cfg (pre ++ post) r s hsteps hlegal hwf halive hs hrem htr)
    img hc s' w' fs' evs hopen

/-- **C03 with the callback, whenever no chunk removal is outstanding.** History
`pre ++ [flush (some i)] ++ mid ++ [st] ++ post` of legal journal steps from a
freshly opened store, worker alive at the end; callback `i` is used by no other
flush before `st`, and the worker thread emits `Ev.cb i true` during step `st`;
at the end no chunk removal is outstanding. Then for every crash image `img` of
the final directory and every configuration `cfg'`: if `openStore cfg' img`
succeeds with store `s'`, then `s'.st` and the index keys of `s'.log` are those of
the reference log after the first `n` entry-level writes of the history, for some
`n` that is at least the number of writes issued before that flush. -/
theorem c03_acked_writes_survive_quiet (cfg cfg' : Cfg) (pre mid post : List Step) (i : Nat)
    (st : Step) (r : RefLog) (s : Store)
    (hsteps : ∀ x ∈ pre ++ ([.flush (some i)] ++ mid ++ [st] ++ post), x.journal = true)
    (hlegal : RefLog.run {} (stepOps (pre ++ ([.flush (some i)] ++ mid ++ [st] ++ post))) = some r)
    (hwf : ∀ op ∈ stepOps (pre ++ ([.flush (some i)] ++ mid ++ [st] ++ post)), op.WF ∧ op.small)
    (halive : ((Sys.fresh cfg).run (pre ++ ([.flush (some i)] ++ mid ++ [st] ++ post))).worker.pc ≠ .dead)
    (hfresh : ∀ x ∈ pre ++ mid, x ≠ .flush (some i))
    (hcb : Ev.cb i true ∈ ((Sys.fresh cfg).run (pre ++ [.flush (some i)] ++ mid)).stepEvs st)
    (hs : ((Sys.fresh cfg).run (pre ++ ([.flush (some i)] ++ mid ++ [st] ++ post))).store = some s)
    (hrem : s.removed = [])
    (htr : ((Sys.fresh cfg).run (pre ++ ([.flush (some i)] ++ mid ++ [st] ++ post))).worker.toRemove = [])
    (img : Fs)
    (hc : CrashImage ((Sys.fresh cfg).run (pre ++ ([.flush (some i)] ++ mid ++ [st] ++ post))).fs img)
    (s' : Store) (w' : Worker) (fs' : Fs) (evs : List Ev)
    (hopen : openStore cfg' img = (.ok (s', w'), fs', evs)) :
    let W := expandOps {} (stepOps (pre ++ ([.flush (some i)] ++ mid ++ [st] ++ post)))
    ∃ n r', RefLog.run {} (W.take n) = some r' ∧ s'.st = r'.state ∧
      logKeys s'.log = entKeys r'.entries ∧ (expandOps {} (stepOps pre)).length ≤ n :=
  c03_acked_writes_survive_partial cfg cfg' pre mid post i st r s hsteps hlegal hwf halive hfresh hcb
    hs hrem htr
    (c03_marker_acked_when_quiet cfg _ r s hsteps hlegal hwf halive hs hrem htr)
    img hc s' w' fs' evs hopen

/-! ### Non-vacuity: a history with a purge that dropped a chunk -/

/-- Chunks hold five records. Four appends fill chunk 0 (`State`, four `Append`s)
and rotate to chunk 151; a flush; `purge (1,3)` journals its record into chunk 151
and drops chunk 0 from the chunk table (marker `B` = 213 = the journal end after
the call); the flush with callback 9 sends `write upto=213` and
`removeChunks [0]`; the worker writes, syncs (acknowledged position `A` = 213,
callback 9 positive) and unlinks chunk 0. Then a `commit` whose record is only
partly written (a short write of 5 of its 28 bytes, not synced) and a `saveVote`
that is still in the pending buffer. -/
def c03QuietExample : List Step :=
  [ .call (.append [(⟨1, 0⟩, [1]), (⟨1, 1⟩, [2]), (⟨1, 2⟩, [3]), (⟨1, 3⟩, [4, 4])]),
    .flush none,
    .workerIdle,
    .call (.purge ⟨1, 3⟩),
    .flush (some 9),
    .workerIdle,
    .call (.commit ⟨1, 3⟩),
    .flush none,
    .worker .ok,
    .worker (.short 5),
    .call (.saveVote ⟨2, 1⟩) ]

/-- The hypotheses of `c03_crash_prefix_quiet` (any split) and of
`c03_acked_writes_survive_quiet` hold for it: steps of the kinds covered, ops legal,
well-formed and small, worker alive, nothing scheduled for removal — and a chunk
HAS been dropped: the oldest live chunk is chunk 151, the file of chunk 0 is
unlinked. Chunk 151: 67 bytes written, 62 durable; 28 bytes pending. Marker and
acknowledged position are both 213. -/
example :
    (∀ st ∈ c03QuietExample, st.journal = true) ∧
    (RefLog.run {} (stepOps c03QuietExample)).isSome = true ∧
    (∀ op ∈ stepOps c03QuietExample, op.WF ∧ op.small) ∧
    ((Sys.fresh { maxRecords := 5 }).run c03QuietExample).worker.pc ≠ .dead ∧
    ((Sys.fresh { maxRecords := 5 }).run c03QuietExample).store.map
      (fun s => (s.removed, s.jstart, s.closed, s.openId, s.openEnd, s.pending.length))
        = some ([], 151, [], 151, 269, 28) ∧
    ((Sys.fresh { maxRecords := 5 }).run c03QuietExample).worker.toRemove = [] ∧
    ((Sys.fresh { maxRecords := 5 }).run c03QuietExample).fs.map
      (fun f => (f.id, f.data.length, f.durable, f.linked)) = [(0, 151, 151, false), (151, 67, 62, true)] ∧
    (Sys.fresh { maxRecords := 5 }).markRun c03QuietExample 0 = 213 ∧
    (Sys.fresh { maxRecords := 5 }).ackRun c03QuietExample 0 = 213 := by
  refine ⟨by decide +kernel, by decide +kernel, ?_, by decide +kernel, by decide +kernel, by decide +kernel,
    by decide +kernel, by decide +kernel, by decide +kernel⟩
  intro op hop
  simp only [c03QuietExample, stepOps, List.mem_cons, List.not_mem_nil, or_false] at hop
  rcases hop with h | h | h | h <;> subst h <;>
    simp [Op.WF, Op.small, LogId.WF, bytesWF, smallId, U64, U32]

/-- Right after the purge (before the flush) the marker is NOT acknowledged
(`B` = 213 > `A` = 185) — and the removal list is not empty; after the flush
(before the worker runs) still `B > A`, and the removal request is queued. -/
example :
    (Sys.fresh { maxRecords := 5 }).markRun (c03QuietExample.take 4) 0 = 213 ∧
    (Sys.fresh { maxRecords := 5 }).ackRun (c03QuietExample.take 4) 0 = 185 ∧
    ((Sys.fresh { maxRecords := 5 }).run (c03QuietExample.take 4)).store.map (·.removed) = some [0] ∧
    (Sys.fresh { maxRecords := 5 }).ackRun (c03QuietExample.take 5) 0 = 185 ∧
    ((Sys.fresh { maxRecords := 5 }).run (c03QuietExample.take 5)).store.map (·.removed) = some [] ∧
    ((Sys.fresh { maxRecords := 5 }).run (c03QuietExample.take 5)).worker.toRemove = [0] := by
  refine ⟨by decide +kernel, by decide +kernel, by decide +kernel, by decide +kernel, by decide +kernel,
    by decide +kernel⟩

/-- Three crash images of the final directory (only chunk 151 is linked): a process
crash (the torn `commit` record survives as 5 bytes), the worst power failure
(chunk 151 cut to its 62 durable bytes), and a power failure that leaves 3 zero
bytes after the record boundary 62. -/
example :
    CrashImage ((Sys.fresh { maxRecords := 5 }).run c03QuietExample).fs
      (cutCrash ((Sys.fresh { maxRecords := 5 }).run c03QuietExample).fs [(67, 0)]) ∧
    CrashImage ((Sys.fresh { maxRecords := 5 }).run c03QuietExample).fs
      (cutCrash ((Sys.fresh { maxRecords := 5 }).run c03QuietExample).fs [(62, 0)]) ∧
    CrashImage ((Sys.fresh { maxRecords := 5 }).run c03QuietExample).fs
      (cutCrash ((Sys.fresh { maxRecords := 5 }).run c03QuietExample).fs [(62, 3)]) :=
  ⟨cutCrash_image _ _ (by decide +kernel), cutCrash_image _ _ (by decide +kernel),
    cutCrash_image _ _ (by decide +kernel)⟩

/-- `open` (default configuration) succeeds on each of them and returns the state
and index keys of the reference log after the first five entry-level writes — the
four appends and `purge (1,3)`, the writes before the acknowledged flush; the
`commit` and the `saveVote` are lost. With `truncate = false` the process-crash
image is refused (`eof`). -/
example :
    (expandOps {} (stepOps c03QuietExample)).length = 7 ∧
    (expandOps {} (stepOps (c03QuietExample.take 4))).length = 5 ∧
    (RefLog.run {} ((expandOps {} (stepOps c03QuietExample)).take 5)).map
        (fun r' => (r'.state, entKeys r'.entries)) =
      some (⟨none, some ⟨1, 3⟩, none, some ⟨1, 3⟩, none⟩, []) := by
  refine ⟨by decide +kernel, by decide +kernel, by decide +kernel⟩

example :
    c03View (openStore {} (cutCrash ((Sys.fresh { maxRecords := 5 }).run c03QuietExample).fs
        [(67, 0)])).1 = some (⟨none, some ⟨1, 3⟩, none, some ⟨1, 3⟩, none⟩, []) := by
  decide +kernel

example :
    c03View (openStore {} (cutCrash ((Sys.fresh { maxRecords := 5 }).run c03QuietExample).fs
        [(62, 0)])).1 = some (⟨none, some ⟨1, 3⟩, none, some ⟨1, 3⟩, none⟩, []) := by
  decide +kernel

example :
    c03View (openStore {} (cutCrash ((Sys.fresh { maxRecords := 5 }).run c03QuietExample).fs
        [(62, 3)])).1 = some (⟨none, some ⟨1, 3⟩, none, some ⟨1, 3⟩, none⟩, []) := by
  decide +kernel

example :
    c03IsEof (openStore { truncate := false }
      (cutCrash ((Sys.fresh { maxRecords := 5 }).run c03QuietExample).fs [(67, 0)])).1 = true := by
  decide +kernel

/-- The callback hypotheses of `c03_acked_writes_survive_quiet` hold for the same
history: callback 9 is used by one flush only, the `workerIdle` step after it
emits `Ev.cb 9 true`; the journal end at that flush is 213 = the marker. -/
example :
    c03QuietExample =
      [.call (.append [(⟨1, 0⟩, [1]), (⟨1, 1⟩, [2]), (⟨1, 2⟩, [3]), (⟨1, 3⟩, [4, 4])]), .flush none,
        .workerIdle, .call (.purge ⟨1, 3⟩)]
      ++ ([.flush (some 9)] ++ [] ++ [.workerIdle] ++
      [.call (.commit ⟨1, 3⟩), .flush none, .worker .ok, .worker (.short 5), .call (.saveVote ⟨2, 1⟩)]) ∧
    (((Sys.fresh { maxRecords := 5 }).run
      [.call (.append [(⟨1, 0⟩, [1]), (⟨1, 1⟩, [2]), (⟨1, 2⟩, [3]), (⟨1, 3⟩, [4, 4])]), .flush none,
        .workerIdle, .call (.purge ⟨1, 3⟩)]).store.map Store.openEnd) = some 213 ∧
    Ev.cb 9 true ∈ ((Sys.fresh { maxRecords := 5 }).run
      ([.call (.append [(⟨1, 0⟩, [1]), (⟨1, 1⟩, [2]), (⟨1, 2⟩, [3]), (⟨1, 3⟩, [4, 4])]), .flush none,
        .workerIdle, .call (.purge ⟨1, 3⟩)] ++ [.flush (some 9)] ++ [])).stepEvs .workerIdle := by
  refine ⟨rfl, by decide +kernel, by decide +kernel⟩

/-! ## Goal 2: no hypothesis on outstanding removals

Helper files `Proofs/CrashQG1.lean` … `CrashQG9.lean`. The *ghost store* of a reachable
state is its store with the dropped chunks whose files are still linked put back in
front of the chunk table (`Store.liftC3b`). All invariants of `Props/C03.lean` (journal,
replay, history, durability) are proved for the ghost store along every legal history
(`GInvC3b`), with the marker of the ghost store = the journal end right after the purge
that dropped the last chunk whose file has been UNLINKED — and that marker is always
acknowledged: a file is unlinked only after a batch that contains a write with `upto` at
or beyond the journal end of the purge has been synced successfully. -/

/-- **Which files are linked.** Along every legal history there is a list `dropped` of
closed chunks (dropped from the chunk table by purges, oldest first) such that

* the linked files are exactly `dropped` followed by the live chunks (closed chunks,
  then the open chunk), in ascending order of ids;
* the ids the worker still has to unlink (postponed, being unlinked, named by removal
  requests in hand or queued — in the order they will be unlinked) followed by the
  store's removal list are exactly the ids of `dropped`: files are unlinked oldest
  first, the linked files are a consecutive run of chunks ending in the live ones;
* the replay invariant holds for the store with `dropped` put back (witnesses `jc`,
  `jo`: the records of every linked chunk; each file is a byte prefix of its chunk's
  encoding), and every linked chunk file is durable up to the acknowledged position `A`
  or to its end. -/
theorem c03_linked_files (cfg : Cfg) (steps : List Step) (r : RefLog)
    (hsteps : ∀ st ∈ steps, st.journal = true)
    (hlegal : RefLog.run {} (stepOps steps) = some r)
    (hwf : ∀ op ∈ stepOps steps, op.WF ∧ op.small)
    (halive : ((Sys.fresh cfg).run steps).worker.pc ≠ .dead) :
    let y := (Sys.fresh cfg).run steps
    let A := (Sys.fresh cfg).ackRun steps 0
    ∃ s dropped, y.store = some s ∧
      y.fs.linkedIds = dropped.map Closed.id ++ (s.closed.map Closed.id ++ [s.openId]) ∧
      y.worker.toRemove ++ s.removed = dropped.map Closed.id ∧
      ∃ jc jo, RepG (s.liftC3b dropped) y.fs y.worker jc jo ∧
        ∀ p ∈ liveChunksC3 (s.liftC3b dropped) jc jo, ∀ f, y.fs.find p.1.id = some f →
          min (encAll p.2).length (A - p.1.id) ≤ f.durable := by
  intro y A
  obtain ⟨_, ⟨s1, hs1, hli⟩, _, _⟩ := reach_HSys cfg steps r hsteps hlegal hwf halive
  obtain ⟨s, Bh, gs, hs, h⟩ := run_GSys_C3b steps (Sys.fresh cfg) {} r [] 0 0 0 0 (fresh_HSys cfg)
    (fresh_GSys_C3b cfg) hsteps hlegal hwf halive
  rw [hs] at hs1
  have e : s = s1 := Option.some.inj hs1
  subst e
  obtain ⟨jc, jo, g, _⟩ := h.base.hist
  refine ⟨s, ghostClosedC3b gs, hs, ?_, h.order, jc, jo, g, h.base.dur.live_durable_C3 g⟩
  rw [← Store.chunkIds_eq]
  exact h.linkedIds hli

/-- What the ghost store is. -/
theorem c03_ghost_store_spec (s : Store) (dropped : List Closed) :
    s.liftC3b dropped = { s with closed := dropped ++ s.closed } := rfl

/-- **S2 without "no removal outstanding".** For every state reached by a legal history,
every crash image `img` of its directory and every configuration `cfg'`: if
`openStore cfg' img` succeeds with store `s'`, then `s'.st` and `s'.log` are the replay
of a prefix `P` of the journal of the ghost store — the records of the dropped chunks
whose files are still linked, followed by the retained journal — and `P` contains every
prefix of that journal that ends at or below the acknowledged position. -/
theorem c03_recovered_is_linked_journal_prefix (cfg cfg' : Cfg) (steps : List Step) (r : RefLog)
    (hsteps : ∀ st ∈ steps, st.journal = true)
    (hlegal : RefLog.run {} (stepOps steps) = some r)
    (hwf : ∀ op ∈ stepOps steps, op.WF ∧ op.small)
    (halive : ((Sys.fresh cfg).run steps).worker.pc ≠ .dead)
    (img : Fs) (hc : CrashImage ((Sys.fresh cfg).run steps).fs img)
    (s' : Store) (w' : Worker) (fs' : Fs) (evs : List Ev)
    (hopen : openStore cfg' img = (.ok (s', w'), fs', evs)) :
    let y := (Sys.fresh cfg).run steps
    let A := (Sys.fresh cfg).ackRun steps 0
    ∃ s dropped jc jo, y.store = some s ∧ RepG (s.liftC3b dropped) y.fs y.worker jc jo ∧
      ∃ P, P <+: allOps (s.liftC3b dropped) jc jo ∧ stRun (P.map (·.r)) {} = some s'.st ∧
        idxRun P [] = some s'.log ∧
        ∀ Q, Q <+: allOps (s.liftC3b dropped) jc jo →
          (s.liftC3b dropped).jstart + sizeSum Q ≤ A → Q <+: P := by
  intro y A
  obtain ⟨_, ⟨s1, hs1, hli⟩, _, _⟩ := reach_HSys cfg steps r hsteps hlegal hwf halive
  obtain ⟨s, Bh, gs, hs, h⟩ := run_GSys_C3b steps (Sys.fresh cfg) {} r [] 0 0 0 0 (fresh_HSys cfg)
    (fresh_GSys_C3b cfg) hsteps hlegal hwf halive
  rw [hs] at hs1
  have e : s = s1 := Option.some.inj hs1
  subst e
  obtain ⟨jc, jo, g, _⟩ := h.base.hist
  have hlinked : y.fs.linkedIds = (s.liftC3b (ghostClosedC3b gs)).chunkIds := by
    rw [liftC3b_chunkIds]; exact h.linkedIds hli
  obtain ⟨P, hP, q1, q2, q3⟩ := crash_open_prefix_live_C3b g h.base.inv.j (h.live hli) hlinked hc cfg' A
    (h.base.dur.live_durable_C3 g) hopen
  exact ⟨s, ghostClosedC3b gs, jc, jo, hs, g, P, hP, q1, q2, q3⟩

/-- **C03, combined — complete.** The history is split as `pre ++ post` (any split;
think of `pre` as the history up to a flush). The final state is reached from a freshly
opened store by a legal history (calls legal and accepted by the reference log,
well-formed, small; flushes; worker steps of any outcome; `workerIdle`; `drain`) and the
worker is alive. NO hypothesis on outstanding chunk removals and none on the marker.
`img` is any crash image of the directory, `cfg'` any configuration. If
`openStore cfg' img` returns `ok` with store `s'`, then there are `n` and a reference
log `r'` such that

* the first `n` entry-level writes of the history are accepted and reach `r'`;
* `s'.st = r'.state` and the index keys of `s'.log` are those of `r'.entries`;
* if the journal end at the end of `pre` is at or below the acknowledged position `A`
  (`Sys.ackRun`), then `n` is at least the number of entry-level writes issued during
  `pre`: the recovered prefix contains all of them. -/
theorem c03_crash_prefix (cfg cfg' : Cfg) (pre post : List Step) (r : RefLog)
    (hsteps : ∀ st ∈ pre ++ post, st.journal = true)
    (hlegal : RefLog.run {} (stepOps (pre ++ post)) = some r)
    (hwf : ∀ op ∈ stepOps (pre ++ post), op.WF ∧ op.small)
    (halive : ((Sys.fresh cfg).run (pre ++ post)).worker.pc ≠ .dead)
    (img : Fs) (hc : CrashImage ((Sys.fresh cfg).run (pre ++ post)).fs img)
    (s' : Store) (w' : Worker) (fs' : Fs) (evs : List Ev)
    (hopen : openStore cfg' img = (.ok (s', w'), fs', evs)) :
    let W := expandOps {} (stepOps (pre ++ post))
    let A := (Sys.fresh cfg).ackRun (pre ++ post) 0
    ∃ n r', RefLog.run {} (W.take n) = some r' ∧ s'.st = r'.state ∧
      logKeys s'.log = entKeys r'.entries ∧
      (∀ s1, ((Sys.fresh cfg).run pre).store = some s1 → s1.openEnd ≤ A →
        (expandOps {} (stepOps pre)).length ≤ n) := by
  intro W A
  obtain ⟨s1, hs1, hh⟩ := reach_HSys_at cfg pre post r hsteps hlegal hwf halive
  obtain ⟨s1', hs1', hg⟩ := reach_GSys_at_C3b cfg pre post r hsteps hlegal hwf halive
  rw [hs1] at hs1'; cases hs1'
  obtain ⟨n, r', k1, k2, k3, k4⟩ := crash_prefix_ghost_C3b hh hg hc cfg' hopen
  refine ⟨n, r', k1, k2, k3, ?_⟩
  intro s1' hs1' hle
  rw [hs1] at hs1'; cases hs1'
  exact k4 hle

/-- **C03 with the callback — complete.** History
`pre ++ [flush (some i)] ++ mid ++ [st] ++ post` of legal journal steps from a freshly
opened store, worker alive at the end; callback `i` is used by no other flush before
`st`, and the worker thread emits `Ev.cb i true` during step `st`. Then for every crash
image `img` of the final directory and every configuration `cfg'`: if
`openStore cfg' img` succeeds with store `s'`, then `s'.st` and the index keys of
`s'.log` are those of the reference log after the first `n` entry-level writes of the
history, for some `n` that is at least the number of writes issued before that flush.
No hypothesis on outstanding chunk removals. -/
theorem c03_acked_writes_survive (cfg cfg' : Cfg) (pre mid post : List Step) (i : Nat)
    (st : Step) (r : RefLog)
    (hsteps : ∀ x ∈ pre ++ ([.flush (some i)] ++ mid ++ [st] ++ post), x.journal = true)
    (hlegal : RefLog.run {} (stepOps (pre ++ ([.flush (some i)] ++ mid ++ [st] ++ post))) = some r)
    (hwf : ∀ op ∈ stepOps (pre ++ ([.flush (some i)] ++ mid ++ [st] ++ post)), op.WF ∧ op.small)
    (halive : ((Sys.fresh cfg).run (pre ++ ([.flush (some i)] ++ mid ++ [st] ++ post))).worker.pc ≠ .dead)
    (hfresh : ∀ x ∈ pre ++ mid, x ≠ .flush (some i))
    (hcb : Ev.cb i true ∈ ((Sys.fresh cfg).run (pre ++ [.flush (some i)] ++ mid)).stepEvs st)
    (img : Fs)
    (hc : CrashImage ((Sys.fresh cfg).run (pre ++ ([.flush (some i)] ++ mid ++ [st] ++ post))).fs img)
    (s' : Store) (w' : Worker) (fs' : Fs) (evs : List Ev)
    (hopen : openStore cfg' img = (.ok (s', w'), fs', evs)) :
    let W := expandOps {} (stepOps (pre ++ ([.flush (some i)] ++ mid ++ [st] ++ post)))
    ∃ n r', RefLog.run {} (W.take n) = some r' ∧ s'.st = r'.state ∧
      logKeys s'.log = entKeys r'.entries ∧ (expandOps {} (stepOps pre)).length ≤ n := by
  intro W
  obtain ⟨n, r', k1, k2, k3, k4⟩ :=
    c03_crash_prefix cfg cfg' pre ([.flush (some i)] ++ mid ++ [st] ++ post) r hsteps hlegal hwf
      halive img hc s' w' fs' evs hopen
  refine ⟨n, r', k1, k2, k3, ?_⟩
  have hall : pre ++ ([.flush (some i)] ++ mid ++ [st] ++ post)
      = (pre ++ [.flush (some i)] ++ mid) ++ ([st] ++ post) := by simp
  have hj2 : ∀ x ∈ [st] ++ post, x.journal = true := fun x hx =>
    hsteps x (by rw [hall]; exact List.mem_append_right _ hx)
  have halive2 : ((Sys.fresh cfg).run (pre ++ [.flush (some i)] ++ mid)).worker.pc ≠ .dead := by
    intro hdead
    apply halive
    rw [hall]
    have : (Sys.fresh cfg).run ((pre ++ [.flush (some i)] ++ mid) ++ ([st] ++ post))
        = ((Sys.fresh cfg).run (pre ++ [.flush (some i)] ++ mid)).run ([st] ++ post) := by
      simp [Sys.run, List.foldl_append]
    rw [this]
    exact Sys.run_dead _ _ hj2 hdead
  have hpre : ∀ x ∈ pre, x.journal = true := fun x hx => hsteps x (List.mem_append_left _ hx)
  have hmid : ∀ x ∈ mid, x.journal = true := fun x hx =>
    hsteps x (by rw [hall]; exact List.mem_append_left _ (List.mem_append_right _ hx))
  have hsome : ((Sys.fresh cfg).run pre).store.isSome = true :=
    Sys.run_store_isSome (fun x hx => journal_keepsStore_C3 (hpre x hx)) (Sys.fresh_store_isSome cfg)
  cases hs1 : ((Sys.fresh cfg).run pre).store with
  | none => rw [hs1] at hsome; cases hsome
  | some s1 =>
    apply k4 s1 hs1
    have := c03_acked_flush cfg pre mid post i st s1 hpre hmid hfresh hs1 halive2 hcb
    have e : pre ++ [.flush (some i)] ++ mid ++ [st] ++ post
        = pre ++ ([.flush (some i)] ++ mid ++ [st] ++ post) := by simp
    rw [e] at this
    exact this

/-! ### Non-vacuity: a crash while a removal is outstanding -/

/-- Chunks hold three records. Two appends fill chunk 0 and rotate to chunk 84; flush,
worker idle; `purge (1,1)` journals its record into chunk 84 and drops chunk 0; the
flush sends `write upto=146` and `removeChunks [0]`; the worker writes the purge record
(not synced yet) and is parked at the `fdatasync`, the removal request in hand: chunk 0
is dropped from the chunk table but its file is still linked. -/
def c03OutstandingExample : List Step :=
  [ .call (.append [(⟨1, 0⟩, [1]), (⟨1, 1⟩, [2])]), .flush none, .workerIdle,
    .call (.purge ⟨1, 1⟩), .flush none, .worker .ok, .worker .ok ]

/-- The hypotheses of `c03_crash_prefix` hold; a removal IS outstanding (the hypotheses
of the `_quiet` theorems fail): both files are linked, chunk 0 is not in the chunk
table, the worker still has `[0]` to unlink. -/
example :
    (∀ st ∈ c03OutstandingExample, st.journal = true) ∧
    (RefLog.run {} (stepOps c03OutstandingExample)).isSome = true ∧
    (∀ op ∈ stepOps c03OutstandingExample, op.WF ∧ op.small) ∧
    ((Sys.fresh { maxRecords := 3 }).run c03OutstandingExample).worker.pc ≠ .dead ∧
    ((Sys.fresh { maxRecords := 3 }).run c03OutstandingExample).store.map
      (fun s => (s.removed, s.closed, s.openId, s.openEnd)) = some ([], [], 84, 146) ∧
    ((Sys.fresh { maxRecords := 3 }).run c03OutstandingExample).worker.toRemove = [0] ∧
    ((Sys.fresh { maxRecords := 3 }).run c03OutstandingExample).fs.map
      (fun f => (f.id, f.data.length, f.durable, f.linked)) = [(0, 84, 84, true), (84, 62, 34, true)] := by
  refine ⟨by decide +kernel, by decide +kernel, ?_, by decide +kernel, by decide +kernel, by decide +kernel,
    by decide +kernel⟩
  intro op hop
  simp only [c03OutstandingExample, stepOps, List.mem_cons, List.not_mem_nil, or_false] at hop
  rcases hop with h | h <;> subst h <;>
    simp [Op.WF, Op.small, LogId.WF, bytesWF, smallId, U64, U32]

/-- A process crash and the worst power failure are crash images of its directory;
`open` loads chunk 0 and chunk 84 in both. After the process crash it returns the state
and index keys of the reference log after all three entry-level writes (`append (1,0)`,
`append (1,1)`, `purge (1,1)`); after the power failure (the purge record is lost) those
after the first two — a prefix of the writes in both cases. -/
example :
    CrashImage ((Sys.fresh { maxRecords := 3 }).run c03OutstandingExample).fs
      (cutCrash ((Sys.fresh { maxRecords := 3 }).run c03OutstandingExample).fs [(84, 0), (62, 0)]) ∧
    CrashImage ((Sys.fresh { maxRecords := 3 }).run c03OutstandingExample).fs
      (cutCrash ((Sys.fresh { maxRecords := 3 }).run c03OutstandingExample).fs [(84, 0), (34, 0)]) :=
  ⟨cutCrash_image _ _ (by decide +kernel), cutCrash_image _ _ (by decide +kernel)⟩

example :
    (expandOps {} (stepOps c03OutstandingExample)).length = 3 ∧
    c03View (openStore {} (cutCrash ((Sys.fresh { maxRecords := 3 }).run c03OutstandingExample).fs
        [(84, 0), (62, 0)])).1 = some (⟨none, some ⟨1, 1⟩, none, some ⟨1, 1⟩, none⟩, []) ∧
    (RefLog.run {} ((expandOps {} (stepOps c03OutstandingExample)).take 3)).map
        (fun r' => (r'.state, entKeys r'.entries)) = some (⟨none, some ⟨1, 1⟩, none, some ⟨1, 1⟩, none⟩, []) ∧
    c03View (openStore {} (cutCrash ((Sys.fresh { maxRecords := 3 }).run c03OutstandingExample).fs
        [(84, 0), (34, 0)])).1
      = some (⟨none, some ⟨1, 1⟩, none, none, none⟩, [(0, ⟨1, 0⟩), (1, ⟨1, 1⟩)]) ∧
    (RefLog.run {} ((expandOps {} (stepOps c03OutstandingExample)).take 2)).map
        (fun r' => (r'.state, entKeys r'.entries))
      = some (⟨none, some ⟨1, 1⟩, none, none, none⟩, [(0, ⟨1, 0⟩), (1, ⟨1, 1⟩)]) := by
  refine ⟨by decide +kernel, by decide +kernel, by decide +kernel, by decide +kernel, by decide +kernel⟩

end RaftLog
