/-
C06 — Rejected writes leave no trace.

Model level: a call that returns a validation error returns the *whole* store
unchanged (pending bytes, offsets, index, cache with its counters, removal
list) and emits no effect (nothing created, written or queued). The link
"the reference log rejects ⇒ the model returns that error" is
`c06_spec_rejects_*` below (same state ⇒ same verdict).
-/
import RaftLogModel.Proofs.StoreBasic
namespace RaftLog

/-- One journal record: if validation fails nothing at all happens. -/
theorem c06_rejected_record_noop (s : Store) (fsHas : Nat → Bool) (r : Record) (k : ErrKind)
    (h : s.st.apply r = .err k) : s.appendAndApply fsHas r = (.err k, s, []) := by
  simp [Store.appendAndApply, h]

/-- Conversely an error other than a failed file creation can only be a
validation error, and then the store and the effect list are untouched. -/
theorem c06_err_is_noop (s : Store) (fsHas : Nat → Bool) (r : Record) (k : ErrKind)
    (s' : Store) (effs : List Eff)
    (h : s.appendAndApply fsHas r = (.err k, s', effs)) (hk : k ≠ .exists) :
    s' = s ∧ effs = [] ∧ s.st.apply r = .err k :=
  appendAndApply_err h hk

/-- Every single-record public call: a returned validation error means the
store is returned unchanged and nothing was emitted. -/
theorem c06_rejected_call_noop (s : Store) (fsHas : Nat → Bool) (op : Op) (k : ErrKind)
    (s' : Store) (effs : List Eff) (hop : ∀ es, op ≠ .append es)
    (h : s.call fsHas op = (.err k, s', effs)) (hk : k ≠ .exists) :
    s' = s ∧ effs = [] := by
  cases op with
  | saveVote v => exact ⟨(c06_err_is_noop s fsHas _ k s' effs h hk).1, (c06_err_is_noop s fsHas _ k s' effs h hk).2.1⟩
  | commit id => exact ⟨(c06_err_is_noop s fsHas _ k s' effs h hk).1, (c06_err_is_noop s fsHas _ k s' effs h hk).2.1⟩
  | saveUserData d =>
    simp only [Store.call] at h
    exact ⟨(c06_err_is_noop s fsHas _ k s' effs h hk).1, (c06_err_is_noop s fsHas _ k s' effs h hk).2.1⟩
  | append es => exact absurd rfl (hop es)
  | truncate idx =>
    simp only [Store.call] at h
    split at h
    · simp at h
    · split at h
      · exact ⟨(c06_err_is_noop s fsHas _ k s' effs h hk).1, (c06_err_is_noop s fsHas _ k s' effs h hk).2.1⟩
      · split at h
        · simp only [Prod.mk.injEq] at h; exact ⟨h.2.1.symm, h.2.2.symm⟩
        · split at h
          · simp only [Prod.mk.injEq] at h; exact ⟨h.2.1.symm, h.2.2.symm⟩
          · exact ⟨(c06_err_is_noop s fsHas _ k s' effs h hk).1, (c06_err_is_noop s fsHas _ k s' effs h hk).2.1⟩
  | purge upto =>
    simp only [Store.call] at h
    split at h
    · simp only [Prod.mk.injEq] at h; exact ⟨h.2.1.symm, h.2.2.symm⟩
    split at h
    · simp at h
    · split at h
      · split at h <;> simp at h
      · split at h
        · simp at h
        · exact ⟨(c06_err_is_noop s fsHas _ k s' effs h hk).1, (c06_err_is_noop s fsHas _ k s' effs h hk).2.1⟩

/-- A batch `append` applies its accepted prefix; the first rejected entry
leaves no trace: the store is exactly the one reached by the entries before
it, with exactly their effects. (D12: an entry whose index is u64::MAX is
refused before validation with `InvalidInput` — see
`c06_batch_refused_entry_noop` — so the error kind is the state's verdict only
for the other ids, `hidx`.) -/
theorem c06_batch_rejected_entry_noop (fsHas : Nat → Bool) (id : LogId) (p : Bytes)
    (rest : List (LogId × Bytes)) (s : Store) (seg : Seg) (effs : List Eff) (k : ErrKind)
    (hidx : id.index + 1 ≠ U64)
    (h : s.st.apply (.append id p) = .err k) :
    Store.appendBatch fsHas ((id, p) :: rest) s seg effs = (.err k, s, effs) := by
  simp [Store.appendBatch, hidx, c06_rejected_record_noop s fsHas _ k h]

/-- D12: an entry with index u64::MAX is refused with `InvalidInput` and leaves
no trace either, whatever the state would have said. -/
theorem c06_batch_refused_entry_noop (fsHas : Nat → Bool) (id : LogId) (p : Bytes)
    (rest : List (LogId × Bytes)) (s : Store) (seg : Seg) (effs : List Eff)
    (hidx : id.index + 1 = U64) :
    Store.appendBatch fsHas ((id, p) :: rest) s seg effs = (.err .invalidInput, s, effs) :=
  appendBatch_cons_refused_D12 fsHas id p rest s seg effs hidx

/-- Either way: whenever the state rejects the entry, the batch stops with SOME
error, the store reached so far and the effects so far. -/
theorem c06_batch_rejected_entry_noop_any (fsHas : Nat → Bool) (id : LogId) (p : Bytes)
    (rest : List (LogId × Bytes)) (s : Store) (seg : Seg) (effs : List Eff) (k : ErrKind)
    (h : s.st.apply (.append id p) = .err k) :
    ∃ k', Store.appendBatch fsHas ((id, p) :: rest) s seg effs = (.err k', s, effs) := by
  by_cases hidx : id.index + 1 = U64
  · exact ⟨_, c06_batch_refused_entry_noop fsHas id p rest s seg effs hidx⟩
  · exact ⟨_, c06_batch_rejected_entry_noop fsHas id p rest s seg effs k hidx h⟩

/-! ### Same state ⇒ same verdict as the reference log -/

theorem c06_spec_rejects_vote (s : Store) (r : RefLog) (v : Vote) (hs : s.st = r.state) :
    (∃ k, r.call (.saveVote v) = .error k) ↔ (∃ k, s.st.apply (.saveVote v) = .err k) := by
  simp only [RefLog.call, RState.apply, RState.updateVote, hs, RefLog.state]
  split <;> simp

theorem c06_spec_rejects_commit (s : Store) (r : RefLog) (id : LogId) (hs : s.st = r.state) :
    (∃ k, r.call (.commit id) = .error k) ↔ (∃ k, s.st.apply (.commit id) = .err k) := by
  simp only [RefLog.call, RState.apply, RState.commit, hs, RefLog.state]
  split <;> simp

/-- Non-vacuity: a concrete rejected write on a concrete store. -/
example :
    let s : Store := { cfg := {}, cache := { maxItems := 10, capacity := 100 }, openOffsets := [0, 18],
                       st := { vote := some ⟨3, 1⟩ } }
    s.st.apply (.saveVote ⟨2, 9⟩) = .err .voteReversal := by decide

end RaftLog
