/-
Per-history theorems for ALL histories of well-formed calls.

Corollaries of the normalisation theorem `c06_normalize_partial`
(Props/C06Normal.lean): the hypotheses
`RefLog.run {} (stepOps steps) = some r` (every call accepted, every purge legal)
and `∀ op ∈ stepOps steps, op.WF ∧ op.small` of the per-history theorems are
replaced by `∀ op ∈ stepOps steps, op.WF` and `purgesLegalC6N {} steps = true`;
the reference log is `(normalizeC6N {} steps).2`, and where the conclusion names the
history's writes, they are those of the normalised history `(normalizeC6N {} steps).1`.

`_partial`: the purge hypothesis remains (see Props/C06Normal.lean for why it cannot
be dropped).

Helpers: Proofs/AnyHistory.lean (suffix `ANY`).
-/
import RaftLogModel.Proofs.AnyHistory
namespace RaftLog

/-! ### C05: recovery after a crash -/

/-- **C05, recovery never panics** — on any crash image of the final directory of any
history of well-formed calls. -/
theorem c05_recovery_never_panics_any_history_partial (cfg cfg' : Cfg) (steps : List Step)
    (hsteps : ∀ st ∈ steps, st.journal = true) (hwf : ∀ op ∈ stepOps steps, op.WF)
    (hpurge : purgesLegalC6N {} steps = true)
    (halive : ((Sys.fresh cfg).run steps).worker.pc ≠ .dead)
    (img : Fs) (hc : CrashImage ((Sys.fresh cfg).run steps).fs img) :
    (∀ m, (openStore cfg' img).1 ≠ .panic m) ∧ (openStore cfg' img).1.isPanic = false ∧
    (({ fs := img, cfg := cfg' } : Sys).open).1.isPanic = false := by
  obtain ⟨k1, k2, k3, k4, _⟩ := c06_normalize_partial cfg steps hsteps hwf hpurge halive
  exact c05_recovery_never_panics cfg cfg' (normalizeC6N {} steps).1 (normalizeC6N {} steps).2 k1 k2 k3
    (by rw [k4]; exact halive) img (by rw [k4]; exact hc)

/-- **C05 (1), `open` succeeds** on every crash image without torn predecessor, with
`truncate = true`. -/
theorem c05_open_succeeds_any_history_partial (cfg cfg' : Cfg) (steps : List Step)
    (hsteps : ∀ st ∈ steps, st.journal = true) (hwf : ∀ op ∈ stepOps steps, op.WF)
    (hpurge : purgesLegalC6N {} steps = true)
    (halive : ((Sys.fresh cfg).run steps).worker.pc ≠ .dead)
    (img : Fs) (hc : CrashImage ((Sys.fresh cfg).run steps).fs img)
    (htr : cfg'.truncate = true) (hnt : NoTornPredecessor img) :
    ∃ s' w' fs' evs, openStore cfg' img = (.ok (s', w'), fs', evs) := by
  obtain ⟨k1, k2, k3, k4, _⟩ := c06_normalize_partial cfg steps hsteps hwf hpurge halive
  exact c05_open_succeeds_partial cfg cfg' (normalizeC6N {} steps).1 (normalizeC6N {} steps).2 k1 k2 k3
    (by rw [k4]; exact halive) img (by rw [k4]; exact hc) htr hnt

/-- The same for `Sys.open`. -/
theorem c05_sys_open_succeeds_any_history_partial (cfg cfg' : Cfg) (steps : List Step)
    (hsteps : ∀ st ∈ steps, st.journal = true) (hwf : ∀ op ∈ stepOps steps, op.WF)
    (hpurge : purgesLegalC6N {} steps = true)
    (halive : ((Sys.fresh cfg).run steps).worker.pc ≠ .dead)
    (img : Fs) (hc : CrashImage ((Sys.fresh cfg).run steps).fs img)
    (htr : cfg'.truncate = true) (hnt : NoTornPredecessor img) :
    (({ fs := img, cfg := cfg' } : Sys).open).1 = .ok () := by
  obtain ⟨k1, k2, k3, k4, _⟩ := c06_normalize_partial cfg steps hsteps hwf hpurge halive
  exact c05_sys_open_succeeds_partial cfg cfg' (normalizeC6N {} steps).1 (normalizeC6N {} steps).2 k1 k2 k3
    (by rw [k4]; exact halive) img (by rw [k4]; exact hc) htr hnt

/-- **C05 (2), the recovered store is consistent.** `steps = pre ++ post` (any split).
`W`: the entry-level writes of the NORMALISED history; the write count of the prefix is
that of the normalised `pre`. -/
theorem c05_recovered_store_is_consistent_any_history_partial (cfg cfg' : Cfg) (pre post : List Step)
    (hsteps : ∀ st ∈ pre ++ post, st.journal = true) (hwf : ∀ op ∈ stepOps (pre ++ post), op.WF)
    (hpurge : purgesLegalC6N {} (pre ++ post) = true)
    (halive : ((Sys.fresh cfg).run (pre ++ post)).worker.pc ≠ .dead)
    (img : Fs) (hc : CrashImage ((Sys.fresh cfg).run (pre ++ post)).fs img)
    (htr : cfg'.truncate = true) (hnt : NoTornPredecessor img) :
    let W := expandOps {} (stepOps (normalizeC6N {} (pre ++ post)).1)
    let A := (Sys.fresh cfg).ackRun (pre ++ post) 0
    let y2 := (({ fs := img, cfg := cfg' } : Sys).open).2.1
    (({ fs := img, cfg := cfg' } : Sys).open).1 = .ok () ∧
    ∃ s' n r', y2.store = some s' ∧ y2.cfg = cfg' ∧ y2.locked = true ∧
      RefLog.run {} (W.take n) = some r' ∧ s'.st = r'.state ∧
      logKeys s'.log = entKeys r'.entries ∧
      (∀ s1, ((Sys.fresh cfg).run pre).store = some s1 → s1.openEnd ≤ A →
        (expandOps {} (stepOps (normalizeC6N {} pre).1)).length ≤ n) ∧
      CSys y2 r' ∧ J y2 ∧ SysWF y2 ∧ SysCovered y2 ∧ SmallSys y2 ∧ y2.Clean ∧
      s'.cfg = cfg' ∧ s'.cache.maxItems = cfg'.cacheItems ∧ s'.cache.capacity = cfg'.cacheCap := by
  intro W A y2
  obtain ⟨k1, k2, k3, k4, _, k6, _⟩ := c06_normalize_partial cfg (pre ++ post) hsteps hwf hpurge halive
  obtain ⟨hja, hwfa, hpa, halivea⟩ := prefix_hyps_ANY cfg pre post hsteps hwf hpurge halive
  obtain ⟨_, _, _, ka, _⟩ := c06_normalize_partial cfg pre hja hwfa hpa halivea
  have hsplit := normalize_split_ANY pre post
  rw [hsplit] at k1 k2 k3 k4 k6
  have := c05_recovered_store_is_consistent cfg cfg' (normalizeC6N {} pre).1
    (normalizeC6N (normalizeC6N {} pre).2 post).1
    (normalizeC6N {} (pre ++ post)).2 k1 k2 k3 (by rw [k4]; exact halive) img (by rw [k4]; exact hc)
    htr hnt
  rw [k6, ka, ← hsplit] at this
  exact this

/-! ### C08: the remaining files -/

/-- **C08 (a), the files that remain form a gap-free suffix of the journal that starts
with a state snapshot** — for every history of well-formed calls. -/
theorem c08_remaining_files_gap_free_suffix_any_history_partial (cfg : Cfg) (steps : List Step)
    (hsteps : ∀ st ∈ steps, st.journal = true) (hwf : ∀ op ∈ stepOps steps, op.WF)
    (hpurge : purgesLegalC6N {} steps = true)
    (halive : ((Sys.fresh cfg).run steps).worker.pc ≠ .dead) :
    let y := (Sys.fresh cfg).run steps
    ∃ s dropped jc jo, y.store = some s ∧
      y.fs.linkedIds = dropped.map Closed.id ++ (s.closed.map Closed.id ++ [s.openId]) ∧
      y.worker.toRemove ++ s.removed = dropped.map Closed.id ∧
      RepG (s.liftC3b dropped) y.fs y.worker jc jo ∧
      (liveChunksC3 (s.liftC3b dropped) jc jo).map (·.1.id) = y.fs.linkedIds ∧
      (liveChunksC3 (s.liftC3b dropped) jc jo).map (·.1)
        = dropped ++ s.closed ++ [⟨s.openOffsets, s.st⟩] ∧
      AbutC3 (liveChunksC3 (s.liftC3b dropped) jc jo) ∧
      ∀ p ∈ liveChunksC3 (s.liftC3b dropped) jc jo, AllWF p.2 ∧ (∃ st rest, p.2 = .state st :: rest) ∧
        offsetsFrom p.1.id (recSizes p.2) = p.1.offsets ∧ ∃ t, fdata y.fs p.1.id ++ t = encAll p.2 := by
  obtain ⟨k1, k2, k3, k4, _⟩ := c06_normalize_partial cfg steps hsteps hwf hpurge halive
  have := c08_remaining_files_gap_free_suffix cfg (normalizeC6N {} steps).1 (normalizeC6N {} steps).2
    k1 k2 k3 (by rw [k4]; exact halive)
  rw [k4] at this
  exact this

/-- **C08 (c), once a purge has been flushed and the worker is idle, the dropped chunks
are gone** — after every history of well-formed calls. -/
theorem c08_flushed_idle_gone_always_any_history_partial (cfg : Cfg) (steps : List Step) (cb : Option Nat)
    (hsteps : ∀ st ∈ steps, st.journal = true) (hwf : ∀ op ∈ stepOps steps, op.WF)
    (hpurge : purgesLegalC6N {} steps = true)
    (halive : ((Sys.fresh cfg).run (steps ++ [.flush cb, .workerIdle])).worker.pc ≠ .dead) :
    let y := (Sys.fresh cfg).run (steps ++ [.flush cb, .workerIdle])
    ∃ s, y.store = some s ∧ s.removed = [] ∧ y.worker.toRemove = [] ∧
      y.worker.lastSyncFailed = false ∧ y.worker.postponed = [] ∧
      y.fs.linkedIds = s.closed.map Closed.id ++ [s.openId] := by
  have hd0 : ((Sys.fresh cfg).run steps).worker.pc ≠ .dead := by
    intro hdead
    apply halive
    rw [Sys.run_append_ANY]
    exact Sys.run_dead _ _ (by intro st hst; simp only [List.mem_cons, List.not_mem_nil, or_false] at hst
                               rcases hst with h | h <;> subst h <;> rfl) hdead
  obtain ⟨k1, k2, k3, k4, _⟩ := c06_normalize_partial cfg steps hsteps hwf hpurge hd0
  have e : (Sys.fresh cfg).run ((normalizeC6N {} steps).1 ++ [.flush cb, .workerIdle]) =
      (Sys.fresh cfg).run (steps ++ [.flush cb, .workerIdle]) := by
    rw [Sys.run_append_ANY, Sys.run_append_ANY, k4]
  have := c08_flushed_idle_gone_always cfg (normalizeC6N {} steps).1 cb (normalizeC6N {} steps).2
    k1 k2 k3 (by rw [e]; exact halive)
  rw [e] at this
  exact this

/-! ### C14: drop with a busy worker, then open -/

/-- **C14, drop with a busy worker, then open** — after every history of well-formed
calls; the recovered state is that of the reference log `(normalizeC6N {} steps).2`. -/
theorem c14_busy_drop_then_open_any_history_partial (cfg cfg' : Cfg) (steps : List Step) (s : Store)
    (hsteps : ∀ st ∈ steps, st.journal = true) (hwf : ∀ op ∈ stepOps steps, op.WF)
    (hpurge : purgesLegalC6N {} steps = true)
    (halive : ((Sys.fresh cfg).run steps).worker.pc ≠ .dead)
    (hs : ((Sys.fresh cfg).run steps).store = some s)
    (hp : s.pending = []) (hrem : s.removed = [])
    (hsync : ((Sys.fresh cfg).run steps).worker.willSyncD14 ∨
      ((Sys.fresh cfg).run steps).worker.lastSyncFailed = false) :
    let r := (normalizeC6N {} steps).2
    let y := (Sys.fresh cfg).run steps
    let y1 := y.step .drop
    let y2 := y1.step (.openWith cfg')
    y1 = (y.step .workerIdle).step .drop ∧ y1.fs = (y.step .workerIdle).fs ∧
    y1.store = none ∧ y1.locked = false ∧ y1.worker.pc = .dead ∧ y1.worker.queue = [] ∧
    ∃ s', y2.store = some s' ∧
      ({ y1 with cfg := cfg' } : Sys).open.1 = .ok () ∧
      ({ y1 with cfg := cfg' } : Sys).open.2.2 = syncEvs y1.fs.linkedIds ∧
      y2.fs = y1.fs.syncAll y1.fs.linkedIds ∧
      s'.st = s.st ∧ s'.st = r.state ∧ s'.log = s.log ∧
      s'.closed.map (·.offsets) ++ [s'.openOffsets] = s.closed.map (·.offsets) ++ [s.openOffsets] ∧
      s'.closed = s.closed ∧ s'.openOffsets = s.openOffsets ∧
      s'.pending = [] ∧ s'.removed = [] ∧ s'.cfg = cfg' ∧
      J y2 ∧ CSys y2 r := by
  obtain ⟨k1, k2, k3, k4, _⟩ := c06_normalize_partial cfg steps hsteps hwf hpurge halive
  have := c14_busy_drop_then_open cfg cfg' (normalizeC6N {} steps).1 (normalizeC6N {} steps).2 s k1 k2 k3
    (by rw [k4]; exact halive) (by rw [k4]; exact hs) hp hrem (by rw [k4]; exact hsync)
  rw [k4] at this
  exact this

/-! ### C07: reads, histories with `truncate` -/

/-- **C07 for every history of well-formed calls** whose NORMAL FORM appends fresh ids
(`AppendsFresh (normalizeC6N {} steps).1`: only the ACCEPTED appends count): the final
store reports the state of `r := (normalizeC6N {} steps).2`, every `read` and the dump
iterator return exactly `r`'s entries with their payloads; and every call of the
normalised history returned `ok` (calls of `steps` that are not in it returned an error:
they were rejected, C06). -/
theorem c07_reads_with_truncate_any_history_partial (cfg : Cfg) (steps : List Step)
    (hsteps : ∀ st ∈ steps, st.journal = true) (hwf : ∀ op ∈ stepOps steps, op.WF)
    (hpurge : purgesLegalC6N {} steps = true)
    (hfresh : AppendsFresh (normalizeC6N {} steps).1 = true)
    (halive : ((Sys.fresh cfg).run steps).worker.pc ≠ .dead) :
    let r := (normalizeC6N {} steps).2
    (∃ s, ((Sys.fresh cfg).run steps).store = some s ∧ s.st = r.state ∧
      (∀ a b, (s.read ((Sys.fresh cfg).run steps).fs a b).1
          = (r.read a b).map (fun e => ReadItem.ok e.1 e.2)) ∧
      s.iter ((Sys.fresh cfg).run steps).fs = r.entries.map (fun e => ReadItem.ok e.1 e.2)) ∧
    (∀ pre op post, (normalizeC6N {} steps).1 = pre ++ Step.call op :: post →
      ∃ seg, (((Sys.fresh cfg).run pre).call op).1 = .ok seg) := by
  obtain ⟨k1, k2, k3, k4, _⟩ := c06_normalize_partial cfg steps hsteps hwf hpurge halive
  have := c07_reads_with_truncate cfg (normalizeC6N {} steps).1 (normalizeC6N {} steps).2 k1 k2
    (fun op hop => ⟨(k3 op hop).2, (k3 op hop).1⟩) hfresh (by rw [k4]; exact halive)
  rw [k4] at this
  exact this

/-- The same with `AppendsFresh` stated for the ORIGINAL history (every appended id —
accepted or not — above every id appended earlier): it implies `AppendsFresh` of the
normal form (`appendsFresh_normalize_ANY`: normalisation only removes appended ids). -/
theorem c07_reads_with_truncate_any_history_fresh_partial (cfg : Cfg) (steps : List Step)
    (hsteps : ∀ st ∈ steps, st.journal = true) (hwf : ∀ op ∈ stepOps steps, op.WF)
    (hpurge : purgesLegalC6N {} steps = true)
    (hfresh : AppendsFresh steps = true)
    (halive : ((Sys.fresh cfg).run steps).worker.pc ≠ .dead) :
    let r := (normalizeC6N {} steps).2
    (∃ s, ((Sys.fresh cfg).run steps).store = some s ∧ s.st = r.state ∧
      (∀ a b, (s.read ((Sys.fresh cfg).run steps).fs a b).1
          = (r.read a b).map (fun e => ReadItem.ok e.1 e.2)) ∧
      s.iter ((Sys.fresh cfg).run steps).fs = r.entries.map (fun e => ReadItem.ok e.1 e.2)) ∧
    (∀ pre op post, (normalizeC6N {} steps).1 = pre ++ Step.call op :: post →
      ∃ seg, (((Sys.fresh cfg).run pre).call op).1 = .ok seg) :=
  c07_reads_with_truncate_any_history_partial cfg steps hsteps hwf hpurge
    (appendsFresh_normalize_ANY steps {} hfresh) halive

/-! ### C03 / C04: acknowledged writes -/

/-- **C03 S4, acknowledged bytes are written and durable** — for every history of
well-formed calls. -/
theorem c03_acked_is_durable_any_history_partial (cfg : Cfg) (steps : List Step)
    (hsteps : ∀ st ∈ steps, st.journal = true) (hwf : ∀ op ∈ stepOps steps, op.WF)
    (hpurge : purgesLegalC6N {} steps = true)
    (halive : ((Sys.fresh cfg).run steps).worker.pc ≠ .dead) :
    let y := (Sys.fresh cfg).run steps
    let A := (Sys.fresh cfg).ackRun steps 0
    ∃ s, y.store = some s ∧ A ≤ s.openEnd ∧
      (∀ offs ∈ s.chunks,
        min (lastOff offs - offs.headD 0) (A - offs.headD 0) ≤ (fdata y.fs (offs.headD 0)).length) ∧
      (∀ offs ∈ s.chunks, ∀ f, y.fs.find (offs.headD 0) = some f →
        min (lastOff offs - offs.headD 0) (A - offs.headD 0) ≤ f.durable) := by
  obtain ⟨k1, k2, k3, k4, _, k6, _⟩ := c06_normalize_partial cfg steps hsteps hwf hpurge halive
  have := c03_acked_is_durable cfg (normalizeC6N {} steps).1 (normalizeC6N {} steps).2 k1 k2 k3
    (by rw [k4]; exact halive)
  rw [k4, k6] at this
  exact this

/-- **C04, a positive callback means written and synced** — for every history
`pre ++ [flush (some i)] ++ mid ++ [st] ++ post` of well-formed calls. -/
theorem c04_positive_callback_means_durable_any_history_partial (cfg : Cfg) (pre mid post : List Step)
    (i : Nat) (st : Step) (s1 : Store)
    (hsteps : ∀ x ∈ pre ++ [.flush (some i)] ++ mid ++ [st] ++ post, x.journal = true)
    (hwf : ∀ op ∈ stepOps (pre ++ [.flush (some i)] ++ mid ++ [st] ++ post), op.WF)
    (hpurge : purgesLegalC6N {} (pre ++ [.flush (some i)] ++ mid ++ [st] ++ post) = true)
    (halive : ((Sys.fresh cfg).run (pre ++ [.flush (some i)] ++ mid ++ [st] ++ post)).worker.pc ≠ .dead)
    (halive2 : ((Sys.fresh cfg).run (pre ++ [.flush (some i)] ++ mid)).worker.pc ≠ .dead)
    (hfresh : ∀ x ∈ pre ++ mid, x ≠ .flush (some i))
    (hs1 : ((Sys.fresh cfg).run pre).store = some s1)
    (hcb : Ev.cb i true ∈ ((Sys.fresh cfg).run (pre ++ [.flush (some i)] ++ mid)).stepEvs st) :
    let y := (Sys.fresh cfg).run (pre ++ [.flush (some i)] ++ mid ++ [st] ++ post)
    ∃ s, y.store = some s ∧ s1.openEnd ≤ s.openEnd ∧
      (∀ offs ∈ s.chunks,
        min (lastOff offs - offs.headD 0) (s1.openEnd - offs.headD 0) ≤ (fdata y.fs (offs.headD 0)).length) ∧
      (∀ offs ∈ s.chunks, ∀ f, y.fs.find (offs.headD 0) = some f →
        min (lastOff offs - offs.headD 0) (s1.openEnd - offs.headD 0) ≤ f.durable) := by
  intro y
  have hpre : ∀ x ∈ pre, x.journal = true := fun x hx => hsteps x (by simp [hx])
  have hmid : ∀ x ∈ mid, x.journal = true := fun x hx => hsteps x (by simp [hx])
  have hA := c03_acked_flush cfg pre mid post i st s1 hpre hmid hfresh hs1 halive2 hcb
  obtain ⟨s, hs, hle, hw, hd⟩ := c03_acked_is_durable_any_history_partial cfg _ hsteps hwf hpurge halive
  refine ⟨s, hs, Nat.le_trans hA hle, fun offs ho => ?_, fun offs ho f hf => ?_⟩
  · have := hw offs ho; simp only [y]; omega
  · have := hd offs ho f (by simpa only [y] using hf); omega

/-- **C03 with the callback** — for every history
`pre ++ [flush (some i)] ++ mid ++ [st] ++ post` of well-formed calls. `W`: the
entry-level writes of the NORMALISED history; the recovered prefix contains every
(accepted) write issued before the flush. -/
theorem c03_acked_writes_survive_any_history_partial (cfg cfg' : Cfg) (pre mid post : List Step) (i : Nat)
    (st : Step)
    (hsteps : ∀ x ∈ pre ++ ([.flush (some i)] ++ mid ++ [st] ++ post), x.journal = true)
    (hwf : ∀ op ∈ stepOps (pre ++ ([.flush (some i)] ++ mid ++ [st] ++ post)), op.WF)
    (hpurge : purgesLegalC6N {} (pre ++ ([.flush (some i)] ++ mid ++ [st] ++ post)) = true)
    (halive : ((Sys.fresh cfg).run (pre ++ ([.flush (some i)] ++ mid ++ [st] ++ post))).worker.pc ≠ .dead)
    (hfresh : ∀ x ∈ pre ++ mid, x ≠ .flush (some i))
    (hcb : Ev.cb i true ∈ ((Sys.fresh cfg).run (pre ++ [.flush (some i)] ++ mid)).stepEvs st)
    (img : Fs)
    (hc : CrashImage ((Sys.fresh cfg).run (pre ++ ([.flush (some i)] ++ mid ++ [st] ++ post))).fs img)
    (s' : Store) (w' : Worker) (fs' : Fs) (evs : List Ev)
    (hopen : openStore cfg' img = (.ok (s', w'), fs', evs)) :
    let W := expandOps {} (stepOps (normalizeC6N {} (pre ++ ([.flush (some i)] ++ mid ++ [st] ++ post))).1)
    ∃ n r', RefLog.run {} (W.take n) = some r' ∧ s'.st = r'.state ∧
      logKeys s'.log = entKeys r'.entries ∧
      (expandOps {} (stepOps (normalizeC6N {} pre).1)).length ≤ n := by
  intro W
  obtain ⟨n, r', k1, k2, k3, k4⟩ :=
    c03_crash_prefix_any_history_partial cfg cfg' pre ([.flush (some i)] ++ mid ++ [st] ++ post) hsteps hwf
      hpurge halive img hc s' w' fs' evs hopen
  refine ⟨n, r', k1, k2, k3, ?_⟩
  have hall : pre ++ ([.flush (some i)] ++ mid ++ [st] ++ post)
      = (pre ++ [.flush (some i)] ++ mid) ++ ([st] ++ post) := by simp
  have hj2 : ∀ x ∈ [st] ++ post, x.journal = true := fun x hx =>
    hsteps x (by rw [hall]; exact List.mem_append_right _ hx)
  have halive2 : ((Sys.fresh cfg).run (pre ++ [.flush (some i)] ++ mid)).worker.pc ≠ .dead := by
    intro hdead
    apply halive
    rw [hall, Sys.run_append_ANY]
    exact Sys.run_dead _ _ hj2 hdead
  have hpre : ∀ x ∈ pre, x.journal = true := fun x hx => hsteps x (List.mem_append_left _ hx)
  have hmid : ∀ x ∈ mid, x.journal = true := fun x hx =>
    hsteps x (by rw [hall]; exact List.mem_append_left _ (List.mem_append_right _ hx))
  have hsome : ((Sys.fresh cfg).run pre).store.isSome = true :=
    Sys.run_store_isSome (fun x hx => journal_keepsStore_C3 (hpre x hx)) (Sys.fresh_store_isSome cfg)
  cases hs1 : ((Sys.fresh cfg).run pre).store with
  | none => rw [hs1] at hsome; cases hsome
  | some s1 =>
    apply k4 s1 hs1
    have := c03_acked_flush cfg pre mid post i st s1 hpre hmid hfresh hs1 halive2 hcb
    have e : pre ++ [.flush (some i)] ++ mid ++ [st] ++ post
        = pre ++ ([.flush (some i)] ++ mid ++ [st] ++ post) := by simp
    rw [e] at this
    exact this

/-! ### Non-vacuity -/

/-- The hypotheses of `c07_reads_with_truncate_any_history_fresh_partial` (and of the C05,
C08 (a), C03 S4 corollaries: they are the first three and the last) hold for
`c06NormalExample` — a history with a rejected vote, a batch with a rejected tail, a
refused purge and a rejected `truncate`, for which `RefLog.run` is `none`. -/
example : (∀ st ∈ c06NormalExample, st.journal = true) ∧
    (∀ op ∈ stepOps c06NormalExample, op.WF) ∧
    purgesLegalC6N {} c06NormalExample = true ∧
    AppendsFresh c06NormalExample = true ∧
    ((Sys.fresh {}).run c06NormalExample).worker.pc ≠ .dead ∧
    RefLog.run {} (stepOps c06NormalExample) = none := by
  refine ⟨by decide +kernel, ?_, by decide +kernel, by decide +kernel, by decide +kernel,
    by decide +kernel⟩
  intro op hop
  simp only [c06NormalExample, stepOps, List.mem_cons, List.not_mem_nil, or_false] at hop
  rcases hop with h | h | h | h | h | h | h <;> subst h <;>
    simp [Op.WF, LogId.WF, bytesWF, U64, U32]

/-- … and the conclusion, computed: the store reads back the reference log of the normal
form (entry `(1,1)` with payload `[2]`; `(1,0)` is purged). -/
example :
    ((Sys.fresh {}).run c06NormalExample).store.map
      (fun s => (s.read ((Sys.fresh {}).run c06NormalExample).fs 0 10).1) =
    some (((normalizeC6N {} c06NormalExample).2.read 0 10).map (fun e => ReadItem.ok e.1 e.2)) := by
  decide +kernel

end RaftLog
