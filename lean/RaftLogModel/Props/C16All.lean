import RaftLogModel.Props.C16
import RaftLogModel.Props.C16Read
