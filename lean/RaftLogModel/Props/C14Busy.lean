/-
C14, system level — drop with a busy worker, then open.

"After the caller has received the acknowledgement of its last flush and dropped
the store, nothing changes the directory any more, so opening it again at any
later moment succeeds, shows the acknowledged state, and the new instance keeps
working; for all placements of the old worker's remaining steps (pending unlink,
queued writes)."

`c02_clean_restart` proves drop + open = identity from a state whose worker is
already quiet. Here the `drop` is issued while the worker is in ANY control
state with ANY queue (parked at a `write`, an `fdatasync` of an older file, an
`unlink`, with writes / `appendFile` / `removeChunks` requests queued): `drop`
closes the channel and joins the worker, which finishes all of it.

1. `c14_busy_drop_eq_idle_drop`: `drop` = `workerIdle` followed by `drop`, as an
   equation between whole system states (file system, lock, store, worker,
   configuration). Proof: closing the channel (`senderAlive := false`) commutes
   with every all-ok worker step (`WCtx.step_killC14b`); the worker only looks
   at `senderAlive` in `recv` on an empty queue, where the live-channel worker
   blocks and the closed-channel worker exits (Proofs/BusyDropWorker.lean,
   Proofs/BusyDropSys.lean). The events of the `drop` are those of the idle run
   followed by `workerExit true`.
2. `c14_busy_restart_step` / `c14_busy_drop_then_open`: drop + open from a state
   with nothing pending on the caller side. The only hypothesis on failed syncs:
   a write request is in hand or queued (`Worker.willSyncD14`: the caller's last
   flush is not finished — nothing else is needed, a removal postponed by a failed
   sync is retried right after the batch the join syncs), or the last sync did not
   fail. `c14_busy_failed_sync_needed`: it cannot be dropped.
3. `c14_after_busy_drop_nothing_changes`: any history without `open` between the
   `drop` and the `open` changes nothing.
4. `c14_busy_refinement_continues`, `c14_busy_history_after_restart`: the new
   instance keeps working.
-/
import RaftLogModel.Props.C14
import RaftLogModel.Props.C02
import RaftLogModel.Proofs.BusyDropSys
import RaftLogModel.Proofs.PostponedD14
namespace RaftLog

/-! ### 1. `drop` with a busy worker = let the worker finish, then `drop` -/

/-- **(1)** For a live store whose channel is open (`senderAlive`, true along
every history without `drop`: `c14_busy_senderAlive`) and whose parked write
data are non-empty (`TodoOK`, an invariant: `c14_todoOK_reachable`), in ANY
worker control state with ANY queue: `drop` leaves the whole system in the
state that `workerIdle` followed by `drop` leaves it; in particular the file
system is the one `workerIdle` leaves. The worker afterwards is the idle
worker with `pc := dead`, `senderAlive := false`. -/
theorem c14_busy_drop_eq_idle_drop (y : Sys) (s : Store) (hs : y.store = some s)
    (ha : y.worker.senderAlive = true) (ht : y.worker.TodoOK) :
    y.step .drop = (y.step .workerIdle).step .drop ∧
    (y.step .drop).fs = (y.step .workerIdle).fs ∧
    (y.step .drop).store = none ∧ (y.step .drop).locked = false ∧
    (y.step .drop).worker.pc = .dead ∧
    (y.step .drop).worker = { (y.step .workerIdle).worker with pc := .dead, senderAlive := false } :=
  y.dropStore_busy_C14b s hs ha ht

/-- **(1), events.** The events of the busy `drop` are the events of the idle
run, followed by the worker's exit (if the idle run ends blocked in `recv`,
i.e. the worker did not die earlier). -/
theorem c14_busy_drop_events (y : Sys) (s : Store) (hs : y.store = some s)
    (ha : y.worker.senderAlive = true) (ht : y.worker.TodoOK) :
    y.dropStore.2 = y.workerIdle.2 ++
      (if y.workerIdle.1.worker.pc = .idle ∧ y.workerIdle.1.worker.queue = [] then [.workerExit true]
       else []) := by
  rw [(y.dropStore_busy_eqC14b s hs ha ht).2, y.workerIdle_eqC14b s hs]

/-- The sending half of the channel exists along every history of calls,
flushes, worker steps (any outcome), idle runs and drains from a fresh store. -/
theorem c14_busy_senderAlive (cfg : Cfg) (steps : List Step) (hsteps : ∀ st ∈ steps, st.journal = true) :
    ((Sys.fresh cfg).run steps).worker.senderAlive = true :=
  Sys.fresh_run_senderAliveC14b cfg steps hsteps

/-- With no failed sync outstanding and nothing postponed, the all-ok run the
`drop` performs postpones nothing. -/
theorem c14_busy_nothing_postponed (y : Sys) (s : Store) (hs : y.store = some s) (hw : y.worker.WF)
    (hl : y.worker.lastSyncFailed = false) (hp : y.worker.postponed = []) :
    (y.step .workerIdle).worker.postponed = [] :=
  y.workerIdle_noPostponedC14b s hs hw hl hp

/-- A removal postponed by a failed sync is retried after every batch: if a write request
is in hand or queued (`willSyncD14`) — whatever `lastSyncFailed` and `postponed` are —, or
the last sync did not fail, the all-ok run the `drop` performs ends with a good last sync
and nothing postponed. `hpo` is the invariant `c08`/`SysPostD14.run` gives for every
history from a fresh store (`c14_busy_postponed_invariant`). -/
theorem c14_busy_nothing_postponed_sync (y : Sys) (s : Store) (hs : y.store = some s) (hw : y.worker.WF)
    (ht : y.worker.TodoOK) (hpo : PostponedOnlyAfterFailedSyncD14 y.worker)
    (hsync : y.worker.willSyncD14 ∨ y.worker.lastSyncFailed = false) :
    (y.step .workerIdle).worker.lastSyncFailed = false ∧ (y.step .workerIdle).worker.postponed = [] :=
  y.workerIdle_cleanD14 s hs hw ht hpo hsync

/-- Along every history from a fresh store, while the store is open: removals are postponed
only while the last sync has failed, and the request that ended the batch in hand is not a
write. -/
theorem c14_busy_postponed_invariant (cfg : Cfg) (steps : List Step)
    (hs : ((Sys.fresh cfg).run steps).store ≠ none) :
    PostponedOnlyAfterFailedSyncD14 ((Sys.fresh cfg).run steps).worker :=
  (SysPostD14.fresh cfg).run steps hs

/-! ### 2. Drop with a busy worker, then open -/

/-- **(2), in terms of the invariants.** `y` satisfies the replay and
linked-files invariants for the reference log `r` (`CSys y r`, what `run_CSys`
gives for every legal history), its worker is well-formed, the channel is open;
nothing is pending on the caller side (`pending = []`, `removed = []`: the last
caller action was a flush); the worker is in any control state with any queue;
no removal stays postponed once the worker has run to completion. Then for
every `cfg'`, with `y1 := y.step .drop`, `y2 := y1.step (.openWith cfg')`:
`y1` is `workerIdle` + `drop`; `open` returns `ok`, emits only the syncs of the chunk
files it keeps and raises only their durable marks (D15: `syncEvs y1.fs.linkedIds`,
`y1.fs.syncAll y1.fs.linkedIds`; old: no event, `y1.fs`; see
`c14_busy_open_fs_unchanged_if_durable`); the reopened store has the state, index map and
chunk table of the dropped store; `CSys y2 r` holds again; and if the cache
limits of `cfg'` cover the `Append` records in the files, the reopened store
refines `r` (`Refines`, `SysRef`). -/
theorem c14_busy_restart_step (y : Sys) (r : RefLog) (cfg' : Cfg) (s : Store) (h : CSys y r)
    (hs : y.store = some s) (ht : y.worker.TodoOK) (ha : y.worker.senderAlive = true)
    (hp : s.pending = []) (hrem : s.removed = [])
    (hpostI : (y.step .workerIdle).worker.postponed = []) :
    y.step .drop = (y.step .workerIdle).step .drop ∧
    (y.step .drop).fs = (y.step .workerIdle).fs ∧
    (y.step .drop).store = none ∧ (y.step .drop).locked = false ∧
    (y.step .drop).worker.pc = .dead ∧ (y.step .drop).worker.queue = [] ∧
    ∃ s', ((y.step .drop).step (.openWith cfg')).store = some s' ∧
      ({ (y.step .drop) with cfg := cfg' } : Sys).open.1 = .ok () ∧
      ({ (y.step .drop) with cfg := cfg' } : Sys).open.2.2 = syncEvs (y.step .drop).fs.linkedIds ∧
      ((y.step .drop).step (.openWith cfg')).fs
        = (y.step .drop).fs.syncAll (y.step .drop).fs.linkedIds ∧
      s'.st = s.st ∧ s'.st = r.state ∧ s'.log = s.log ∧
      s'.closed = s.closed ∧ s'.openOffsets = s.openOffsets ∧
      s'.pending = [] ∧ s'.removed = [] ∧ s'.cfg = cfg' ∧
      J ((y.step .drop).step (.openWith cfg')) ∧
      CSys ((y.step .drop).step (.openWith cfg')) r ∧
      ((fileAppends (y.step .drop).fs).length ≤ cfg'.cacheItems →
        sumLen (fileAppends (y.step .drop).fs) ≤ cfg'.cacheCap →
        Refines s' r ∧
        SysRef ((y.step .drop).step (.openWith cfg')) r
          (cfg'.cacheItems - (fileAppends (y.step .drop).fs).length)
          (cfg'.cacheCap - sumLen (fileAppends (y.step .drop).fs))) := by
  obtain ⟨s0, hs0, hd, hinv⟩ := h.1
  rw [hs] at hs0; cases hs0
  obtain ⟨e1, e2, e3, e4, e5, _⟩ := y.dropStore_busy_C14b s hs ha ht
  have e6 : (y.step .drop).worker.queue = [] :=
    (c14_drop_quiesces y s hs (fun hdd => absurd hdd hd) ht).2.2.2.1
  -- the state after the idle run: clean, invariants hold
  have haliveI := y.workerIdle_aliveC14b s hs hd ha
  have hCI : CSys (y.step .workerIdle) r :=
    run_CSys [.workerIdle] y r r h (by simp [Step.journal]) rfl (by simp [stepOps]) haliveI
  obtain ⟨sI, hsI, k1, k2, k3, k4, k5, k6⟩ := y.workerIdle_storeC14b s hs
  have hclean : (y.step .workerIdle).Clean :=
    ⟨sI, hsI, y.workerIdle_quietC14b s hs ht, by rw [k1]; exact hp, by rw [k2]; exact hrem, hpostI⟩
  obtain ⟨sI', s', hsI', g1, g2, g3, g4, g5, g6, g7, g8, g9, g10, g11, g12, g13⟩ :=
    c02_restart_step (y.step .workerIdle) r cfg' hCI hclean
  rw [hsI] at hsI'; cases hsI'
  refine ⟨e1, e2, e3, e4, e5, e6, ?_⟩
  rw [e1, g4]
  refine ⟨s', g1, g2, g3, g5, by rw [g6, k3], by rw [g6, k3]; exact hinv.abs.st, by rw [g7, k4],
    by rw [g8, k5], by rw [g9, k6], g10, g11, g12, g13.1.J, g13, ?_⟩
  intro hN hB
  obtain ⟨s'', q1, q2, _, q4, _⟩ := c02_restart_refines (y.step .workerIdle) r cfg' hCI hclean hN hB
  rw [g1] at q1; cases q1
  exact ⟨q2, q4⟩

/-- D15: in (2), if every linked file the `drop` leaves is durable (the normal case: the
join synced everything), `open` leaves the file system exactly as `drop` left it. -/
theorem c14_busy_open_fs_unchanged_if_durable (y : Sys) (r : RefLog) (cfg' : Cfg) (s : Store)
    (h : CSys y r) (hs : y.store = some s) (ht : y.worker.TodoOK)
    (ha : y.worker.senderAlive = true) (hp : s.pending = []) (hrem : s.removed = [])
    (hpostI : (y.step .workerIdle).worker.postponed = [])
    (hd : ∀ f ∈ (y.step .drop).fs, f.linked = true → f.durable = f.data.length) :
    ((y.step .drop).step (.openWith cfg')).fs = (y.step .drop).fs ∧
    ∀ e ∈ ({ (y.step .drop) with cfg := cfg' } : Sys).open.2.2, ∃ id, e = Ev.sync "o" id true := by
  obtain ⟨_, e2, _, _, _, _, s', _, _, g3, g4, _⟩ :=
    c14_busy_restart_step y r cfg' s h hs ht ha hp hrem hpostI
  obtain ⟨s0, hs0, hdd, _⟩ := h.1
  rw [hs] at hs0; cases hs0
  have haliveI := y.workerIdle_aliveC14b s hs hdd ha
  have hCI : CSys (y.step .workerIdle) r :=
    run_CSys [.workerIdle] y r r h (by simp [Step.journal]) rfl (by simp [stepOps]) haliveI
  refine ⟨?_, by rw [g3]; exact syncEvs_isOpenSync _⟩
  rw [g4, e2]
  rw [e2] at hd
  exact c02_syncAll_durable hCI hd

/-- **C14, drop with a busy worker, then open** (hypothesis on the state the
idle run reaches). `y` is reached from a freshly opened store by a history of
calls (legal and accepted for the reference log, reaching `r`; well-formed and
small), flushes, worker steps of any outcome, `workerIdle` and `drain`; the
worker is alive, in ANY control state, with ANY queue; nothing is pending on
the caller side (`pending = []`, `removed = []`); after the worker has run to
completion no removal is postponed. Then, for every `cfg'`, with
`y1 := y.step .drop` and `y2 := y1.step (.openWith cfg')`:
* `y1` is the state `workerIdle` then `drop` reaches; no store, lock released,
  worker thread gone with nothing queued;
* `open` returns `ok`, issues only one `sync "o" id true` per kept chunk file (D15),
  `y2.fs = y1.fs.syncAll y1.fs.linkedIds` (`= y1.fs` when every linked file is durable);
* `s'.st = s.st = r.state`, `s'.log = s.log`, same chunk table;
* `J y2 ∧ CSys y2 r`: every theorem about histories from a fresh store
  continues from `y2`. -/
theorem c14_busy_drop_then_open_idle (cfg cfg' : Cfg) (steps : List Step) (r : RefLog) (s : Store)
    (hsteps : ∀ st ∈ steps, st.journal = true)
    (hlegal : RefLog.run {} (stepOps steps) = some r)
    (hwf : ∀ op ∈ stepOps steps, op.WF ∧ op.small)
    (halive : ((Sys.fresh cfg).run steps).worker.pc ≠ .dead)
    (hs : ((Sys.fresh cfg).run steps).store = some s)
    (hp : s.pending = []) (hrem : s.removed = [])
    (hpostI : (((Sys.fresh cfg).run steps).step .workerIdle).worker.postponed = []) :
    let y := (Sys.fresh cfg).run steps
    let y1 := y.step .drop
    let y2 := y1.step (.openWith cfg')
    y1 = (y.step .workerIdle).step .drop ∧ y1.fs = (y.step .workerIdle).fs ∧
    y1.store = none ∧ y1.locked = false ∧ y1.worker.pc = .dead ∧ y1.worker.queue = [] ∧
    ∃ s', y2.store = some s' ∧
      ({ y1 with cfg := cfg' } : Sys).open.1 = .ok () ∧
      ({ y1 with cfg := cfg' } : Sys).open.2.2 = syncEvs y1.fs.linkedIds ∧
      y2.fs = y1.fs.syncAll y1.fs.linkedIds ∧
      s'.st = s.st ∧ s'.st = r.state ∧ s'.log = s.log ∧
      s'.closed.map (·.offsets) ++ [s'.openOffsets] = s.closed.map (·.offsets) ++ [s.openOffsets] ∧
      s'.closed = s.closed ∧ s'.openOffsets = s.openOffsets ∧
      s'.pending = [] ∧ s'.removed = [] ∧ s'.cfg = cfg' ∧
      J y2 ∧ CSys y2 r := by
  intro y y1 y2
  have hC : CSys y r := run_CSys steps _ {} r (fresh_CSys cfg) hsteps hlegal hwf halive
  have hwf' := (SysWF.fresh cfg).run steps (by simp [hs])
  have ha := c14_busy_senderAlive cfg steps hsteps
  obtain ⟨e1, e2, e3, e4, e5, e6, s', g1, g2, g3, g4, g5, g6, g7, g8, g9, g10, g11, g12, g13, g14, _⟩ :=
    c14_busy_restart_step y r cfg' s hC hs hwf'.2 ha hp hrem hpostI
  exact ⟨e1, e2, e3, e4, e5, e6, s', g1, g2, g3, g4, g5, g6, g7, by rw [g8, g9], g8, g9, g10, g11, g12,
    g13, g14⟩

/-- **C14, drop with a busy worker, then open.** As
`c14_busy_drop_then_open_idle`, with the hypothesis on postponed removals
stated on the state `y` at the time of the `drop`: a write request is in hand or
queued (`willSyncD14`: the worker is at a write request or in the middle of a
batch, or a write request is queued — the caller's last flush is not finished;
then NOTHING is assumed about `lastSyncFailed` and `postponed`), or no sync
failure is outstanding (`lastSyncFailed = false`; e.g. the worker is already
quiet). `c14_busy_failed_sync_needed`: a quiet worker with an outstanding sync
failure and a postponed removal is a counterexample. -/
theorem c14_busy_drop_then_open (cfg cfg' : Cfg) (steps : List Step) (r : RefLog) (s : Store)
    (hsteps : ∀ st ∈ steps, st.journal = true)
    (hlegal : RefLog.run {} (stepOps steps) = some r)
    (hwf : ∀ op ∈ stepOps steps, op.WF ∧ op.small)
    (halive : ((Sys.fresh cfg).run steps).worker.pc ≠ .dead)
    (hs : ((Sys.fresh cfg).run steps).store = some s)
    (hp : s.pending = []) (hrem : s.removed = [])
    (hsync : ((Sys.fresh cfg).run steps).worker.willSyncD14 ∨
      ((Sys.fresh cfg).run steps).worker.lastSyncFailed = false) :
    let y := (Sys.fresh cfg).run steps
    let y1 := y.step .drop
    let y2 := y1.step (.openWith cfg')
    y1 = (y.step .workerIdle).step .drop ∧ y1.fs = (y.step .workerIdle).fs ∧
    y1.store = none ∧ y1.locked = false ∧ y1.worker.pc = .dead ∧ y1.worker.queue = [] ∧
    ∃ s', y2.store = some s' ∧
      ({ y1 with cfg := cfg' } : Sys).open.1 = .ok () ∧
      ({ y1 with cfg := cfg' } : Sys).open.2.2 = syncEvs y1.fs.linkedIds ∧
      y2.fs = y1.fs.syncAll y1.fs.linkedIds ∧
      s'.st = s.st ∧ s'.st = r.state ∧ s'.log = s.log ∧
      s'.closed.map (·.offsets) ++ [s'.openOffsets] = s.closed.map (·.offsets) ++ [s.openOffsets] ∧
      s'.closed = s.closed ∧ s'.openOffsets = s.openOffsets ∧
      s'.pending = [] ∧ s'.removed = [] ∧ s'.cfg = cfg' ∧
      J y2 ∧ CSys y2 r :=
  c14_busy_drop_then_open_idle cfg cfg' steps r s hsteps hlegal hwf halive hs hp hrem
    (c14_busy_nothing_postponed_sync _ s hs ((SysWF.fresh cfg).run steps (by simp [hs])).1
      ((SysWF.fresh cfg).run steps (by simp [hs])).2
      (c14_busy_postponed_invariant cfg steps (by simp [hs])) hsync).2

/-! ### 3. Between the drop and the open nothing changes -/

/-- **C14: after the busy drop nothing changes the directory, and the open may
come at any later moment.** Same hypotheses; `more` is ANY history without
`open` (worker steps of any outcome, idle runs, drains, calls, flushes, further
drops) placed between the `drop` and the `open`. It leaves the whole system — in
particular the file system — unchanged (`c14_drop_quiesces_system`), so the
`open` after it is the `open` right after the `drop`: it succeeds, emits only the
syncs of the kept chunk files (D15), and shows the same state. -/
theorem c14_after_busy_drop_nothing_changes (cfg cfg' : Cfg) (steps more : List Step) (r : RefLog)
    (s : Store)
    (hsteps : ∀ st ∈ steps, st.journal = true)
    (hlegal : RefLog.run {} (stepOps steps) = some r)
    (hwf : ∀ op ∈ stepOps steps, op.WF ∧ op.small)
    (halive : ((Sys.fresh cfg).run steps).worker.pc ≠ .dead)
    (hs : ((Sys.fresh cfg).run steps).store = some s)
    (hp : s.pending = []) (hrem : s.removed = [])
    (hsync : ((Sys.fresh cfg).run steps).worker.willSyncD14 ∨
      ((Sys.fresh cfg).run steps).worker.lastSyncFailed = false)
    (hmore : ∀ st ∈ more, st.noOpen = true) :
    let y := (Sys.fresh cfg).run steps
    let y1 := y.step .drop
    let y1' := y1.run more
    let y2' := y1'.step (.openWith cfg')
    y1' = y1 ∧ y1'.fs = y1.fs ∧ y1.fs = (y.step .workerIdle).fs ∧
    (∀ pre, pre <+: more → (y1.run pre).fs = y1.fs) ∧
    y2' = y1.step (.openWith cfg') ∧
    ∃ s', y2'.store = some s' ∧
      ({ y1' with cfg := cfg' } : Sys).open.1 = .ok () ∧
      ({ y1' with cfg := cfg' } : Sys).open.2.2 = syncEvs y1.fs.linkedIds ∧
      y2'.fs = y1.fs.syncAll y1.fs.linkedIds ∧
      s'.st = s.st ∧ s'.st = r.state ∧ s'.log = s.log ∧
      s'.closed = s.closed ∧ s'.openOffsets = s.openOffsets ∧
      s'.pending = [] ∧ s'.removed = [] ∧ s'.cfg = cfg' ∧
      J y2' ∧ CSys y2' r := by
  intro y y1 y1' y2'
  have hk : ∀ st ∈ steps, st.keepsStore = true := fun st h => Step.keepsStore_of_journalC14b (hsteps st h)
  have hq := c14_drop_quiesces_system cfg steps more hk hmore
  have h5 : y1' = y1 := hq.2.2.2.2.1
  have hpre : ∀ pre, pre <+: more → (y1.run pre).fs = y1.fs := by
    intro pre hpre
    obtain ⟨suf, rfl⟩ := hpre
    have := c14_drop_quiesces_system cfg steps pre hk
      (fun st h => hmore st (List.mem_append_left _ h))
    exact this.2.2.2.2.2
  obtain ⟨_, e2, _, _, _, _, s', g1, g2, g3, g4, g5, g6, g7, _, g8, g9, g10, g11, g12, g13, g14⟩ :=
    c14_busy_drop_then_open cfg cfg' steps r s hsteps hlegal hwf halive hs hp hrem hsync
  have h6 : y2' = y1.step (.openWith cfg') := by show y1'.step _ = _; rw [h5]
  refine ⟨h5, by rw [h5], e2, hpre, h6, s', ?_, ?_, ?_, ?_, g5, g6, g7, g8, g9, g10, g11, g12, ?_, ?_⟩
  · rw [h6]; exact g1
  · rw [h5]; exact g2
  · rw [h5]; exact g3
  · rw [h6]; exact g4
  · rw [h6]; exact g13
  · rw [h6]; exact g14

/-! ### 4. The new instance keeps working -/

/-- **The refinement continues after a busy drop.** If moreover the cache limits
of `cfg'` cover the `Append` records in the chunk files the `drop` leaves, the
reopened store refines the reference log `r`: every `read` returns exactly
`r`'s entries (`c01_step`, `c01_read` apply), and `SysRef` holds with the
remaining room as budget. (The counterpart of `c02_refinement_continues`.) -/
theorem c14_busy_refinement_continues (cfg cfg' : Cfg) (steps : List Step) (r : RefLog) (s : Store)
    (hsteps : ∀ st ∈ steps, st.journal = true)
    (hlegal : RefLog.run {} (stepOps steps) = some r)
    (hwf : ∀ op ∈ stepOps steps, op.WF ∧ op.small)
    (halive : ((Sys.fresh cfg).run steps).worker.pc ≠ .dead)
    (hs : ((Sys.fresh cfg).run steps).store = some s)
    (hp : s.pending = []) (hrem : s.removed = [])
    (hsync : ((Sys.fresh cfg).run steps).worker.willSyncD14 ∨
      ((Sys.fresh cfg).run steps).worker.lastSyncFailed = false)
    (hN : (fileAppends (((Sys.fresh cfg).run steps).step .drop).fs).length ≤ cfg'.cacheItems)
    (hB : sumLen (fileAppends (((Sys.fresh cfg).run steps).step .drop).fs) ≤ cfg'.cacheCap) :
    let y1 := ((Sys.fresh cfg).run steps).step .drop
    let y2 := y1.step (.openWith cfg')
    ∃ s', y2.store = some s' ∧ Refines s' r ∧
      (∀ a b, (s'.read y2.fs a b).1 = (r.read a b).map (fun e => ReadItem.ok e.1 e.2)) ∧
      s'.iter y2.fs = r.entries.map (fun e => ReadItem.ok e.1 e.2) ∧
      SysRef y2 r (cfg'.cacheItems - (fileAppends y1.fs).length)
        (cfg'.cacheCap - sumLen (fileAppends y1.fs)) := by
  intro y1 y2
  have hC : CSys _ r := run_CSys steps _ {} r (fresh_CSys cfg) hsteps hlegal hwf halive
  have hwf' := (SysWF.fresh cfg).run steps (by simp [hs])
  have ha := c14_busy_senderAlive cfg steps hsteps
  have hpostI := (c14_busy_nothing_postponed_sync _ s hs hwf'.1 hwf'.2
    (c14_busy_postponed_invariant cfg steps (by simp [hs])) hsync).2
  obtain ⟨_, _, _, _, _, _, s', g1, _, _, _, _, _, _, _, _, _, _, _, _, _, g15⟩ :=
    c14_busy_restart_step _ r cfg' s hC hs hwf'.2 ha hp hrem hpostI
  obtain ⟨href, hsys⟩ := g15 hN hB
  exact ⟨s', g1, href, fun a b => href.read _ a b, href.iter _, hsys⟩

/-- **... and so does the history: further purges, appends and flushes
complete.** After the busy drop and the open, any further history of calls,
flushes and worker steps whose calls are legal and accepted from `r` (reaching
`r2`), small, and whose appended entries fit the room the cache has left: the
final store reports `r2`'s state, every read returns exactly `r2`'s entries,
and every call along the way was accepted. (The counterpart of
`c02_history_after_restart`.) -/
theorem c14_busy_history_after_restart (cfg cfg' : Cfg) (steps more : List Step) (r r2 : RefLog)
    (s : Store)
    (hsteps : ∀ st ∈ steps, st.journal = true)
    (hlegal : RefLog.run {} (stepOps steps) = some r)
    (hwf : ∀ op ∈ stepOps steps, op.WF ∧ op.small)
    (halive : ((Sys.fresh cfg).run steps).worker.pc ≠ .dead)
    (hs : ((Sys.fresh cfg).run steps).store = some s)
    (hp : s.pending = []) (hrem : s.removed = [])
    (hsync : ((Sys.fresh cfg).run steps).worker.willSyncD14 ∨
      ((Sys.fresh cfg).run steps).worker.lastSyncFailed = false)
    (hmore : ∀ st ∈ more, st.c01 = true) (hlegal2 : r.run (stepOps more) = some r2)
    (hsmall2 : ∀ op ∈ stepOps more, op.small)
    (hN : (fileAppends (((Sys.fresh cfg).run steps).step .drop).fs).length + opsCount (stepOps more)
      ≤ cfg'.cacheItems)
    (hB : sumLen (fileAppends (((Sys.fresh cfg).run steps).step .drop).fs) + opsBytes (stepOps more)
      ≤ cfg'.cacheCap) :
    let y2 := (((Sys.fresh cfg).run steps).step .drop).step (.openWith cfg')
    (∃ s2, (y2.run more).store = some s2 ∧ s2.st = r2.state ∧
      (∀ a b, (s2.read (y2.run more).fs a b).1 = (r2.read a b).map (fun e => ReadItem.ok e.1 e.2)) ∧
      s2.iter (y2.run more).fs = r2.entries.map (fun e => ReadItem.ok e.1 e.2)) ∧
    (∀ pre op post, more = pre ++ Step.call op :: post →
      ∃ s3 seg, (y2.run pre).store = some s3 ∧ (s3.call (y2.run pre).fs.has op).1 = .ok seg) := by
  intro y2
  obtain ⟨s', _, _, _, _, href⟩ := c14_busy_refinement_continues cfg cfg' steps r s hsteps hlegal hwf
    halive hs hp hrem hsync (by omega) (by omega)
  obtain ⟨⟨s2, hs2, href2, _⟩, hcalls⟩ := run_sysRef more y2 r r2
    (href.mono (by omega) (by omega)) hmore hlegal2 hsmall2
  refine ⟨⟨s2, hs2, href2.st, fun a b => href2.read _ a b, href2.iter _⟩, ?_⟩
  intro pre op post hsplit
  obtain ⟨s3, seg, h1, h2, _⟩ := hcalls pre op post hsplit
  exact ⟨s3, seg, h1, h2⟩

/-! ### Non-vacuity -/

/-- Chunks hold two records. A vote, three entries (three rotations), a flush
with callback 0, ONE worker step, a purge that drops three closed chunks (and
rotates), user data (another rotation), a flush with callback 1 — and no worker
step after it: at the `drop` the worker is parked at its first `write` with
thirteen requests queued (writes to five files, five `appendFile`s, the two empty
writes carrying the flushes' callbacks, the `removeChunks [0, 46, 115]`). -/
def c14BusyExample : List Step :=
  [ .call (.saveVote ⟨1, 7⟩),
    .call (.append [(⟨1, 0⟩, [1, 2, 3]), (⟨1, 1⟩, [4]), (⟨1, 2⟩, [5, 6])]),
    .flush (some 0),
    .worker .ok,
    .call (.purge ⟨1, 1⟩),
    .call (.saveUserData (some [42])),
    .flush (some 1) ]

/-- The hypotheses of `c14_busy_drop_then_open` hold for it (computed by the
model), and the worker is busy: parked at a `write`, thirteen requests queued,
three chunk files still to unlink, nothing durable yet. -/
example :
    (∀ st ∈ c14BusyExample, st.journal = true) ∧
    (RefLog.run {} (stepOps c14BusyExample)).isSome = true ∧
    (∀ op ∈ stepOps c14BusyExample, op.WF ∧ op.small) ∧
    ((Sys.fresh { maxRecords := 2 }).run c14BusyExample).worker.pc ≠ .dead ∧
    ((Sys.fresh { maxRecords := 2 }).run c14BusyExample).worker.quiet = false ∧
    ((Sys.fresh { maxRecords := 2 }).run c14BusyExample).worker.queue.length = 13 ∧
    ((Sys.fresh { maxRecords := 2 }).run c14BusyExample).worker.willSyncD14 ∧
    ((Sys.fresh { maxRecords := 2 }).run c14BusyExample).worker.lastSyncFailed = false ∧
    (∃ s, ((Sys.fresh { maxRecords := 2 }).run c14BusyExample).store = some s ∧ s.pending = [] ∧
      s.removed = [] ∧ s.closed.map Closed.id = [198, 282, 360] ∧ s.openId = 497) ∧
    (((Sys.fresh { maxRecords := 2 }).run c14BusyExample).fs.map
        (fun f => (f.id, f.data.length, f.durable, f.linked))) =
      [(0, 18, 0, true), (46, 34, 0, true), (115, 50, 0, true), (198, 50, 0, true),
       (282, 50, 0, true), (360, 66, 0, true), (497, 71, 0, true)] := by
  refine ⟨by decide, by decide, ?_, by decide, by decide, by decide, by decide, by decide,
    ⟨_, rfl, by decide, by decide, by decide, by decide⟩, by decide⟩
  intro op hop
  simp only [c14BusyExample, stepOps, List.mem_cons, List.not_mem_nil, or_false] at hop
  rcases hop with h | h | h | h <;> subst h <;>
    simp [Op.WF, Op.small, LogId.WF, bytesWF, smallId, U64, U32]

/-- And the conclusion on this history, computed by the model: the `drop`
joins the worker, which writes and syncs everything, acknowledges both flushes
and unlinks the three purged chunks (their files are gone, everything linked is
durable); reopened with other chunk and cache limits, the store has the same
state, index map and chunk table, and the `open` changes no file. -/
example :
    cbsOf ((Sys.fresh { maxRecords := 2 }).run c14BusyExample).dropStore.2 = [(0, true), (1, true)] ∧
    unlinksOf ((Sys.fresh { maxRecords := 2 }).run c14BusyExample).dropStore.2 =
      [(0, true), (46, true), (115, true)] ∧
    ((((Sys.fresh { maxRecords := 2 }).run c14BusyExample).step .drop).fs.map
        (fun f => (f.id, f.data.length, f.durable, f.linked))) =
      [(0, 46, 46, false), (46, 69, 69, false), (115, 83, 83, false), (198, 84, 84, true),
       (282, 78, 78, true), (360, 137, 137, true), (497, 71, 71, true)] ∧
    ((((Sys.fresh { maxRecords := 2 }).run c14BusyExample).step .drop).step
        (.openWith { maxRecords := 3, cacheItems := 1 })).store.map
      (fun s => (s.st, s.log, s.closed)) =
      ((Sys.fresh { maxRecords := 2 }).run c14BusyExample).store.map (fun s => (s.st, s.log, s.closed)) ∧
    ((((Sys.fresh { maxRecords := 2 }).run c14BusyExample).step .drop).step
        (.openWith { maxRecords := 3, cacheItems := 1 })).store.map
      (fun s => (s.openOffsets, s.pending, s.removed)) =
      ((Sys.fresh { maxRecords := 2 }).run c14BusyExample).store.map
        (fun s => (s.openOffsets, s.pending, s.removed)) ∧
    ((((Sys.fresh { maxRecords := 2 }).run c14BusyExample).step .drop).step
        (.openWith { maxRecords := 3, cacheItems := 1 })).fs
      = (((Sys.fresh { maxRecords := 2 }).run c14BusyExample).step .drop).fs ∧
    (((Sys.fresh { maxRecords := 2 }).run c14BusyExample).step .drop).fs =
      (((Sys.fresh { maxRecords := 2 }).run c14BusyExample).step .workerIdle).fs ∧
    (((Sys.fresh { maxRecords := 2 }).run c14BusyExample).step .drop).worker =
      ((((Sys.fresh { maxRecords := 2 }).run c14BusyExample).step .workerIdle).step .drop).worker := by
  decide +kernel

/-- Why "a write in hand or queued, or no failed sync outstanding" is a hypothesis.
Chunks hold two records; a purge drops the chunks `0` and `51`; the `fdatasync` in front
of the `removeChunks` request fails (`eio`), so the worker postpones the removal
(`postponed = [0, 51]`, `lastSyncFailed = true`) — it carries it out right after the next
batch whose sync succeeds. But no further flush comes: the worker is idle with an empty
queue, nothing is pending on the caller side (`pending = []`, `removed = []`), and the
store is dropped. The join has nothing to write or sync, so the postponed removal is
never executed. After drop + open the state and the index map are still the same, but the
two obsolete chunks, whose files are still linked, are loaded as closed chunks. -/
def c14BusyFailedSyncExample : Sys :=
  (Sys.fresh { maxRecords := 2 }).run
    [ .call (.append [(⟨1, 0⟩, [1]), (⟨1, 1⟩, [2]), (⟨1, 2⟩, [3])]),
      .flush none, .workerIdle,
      .call (.purge ⟨1, 1⟩),
      .flush none,
      .worker .ok, .worker .ok, .worker .ok, .worker .ok, .worker .ok, .worker .eio ]

theorem c14_busy_failed_sync_needed :
    c14BusyFailedSyncExample.worker.pc = .idle ∧
    c14BusyFailedSyncExample.worker.queue = [] ∧
    ¬ c14BusyFailedSyncExample.worker.willSyncD14 ∧
    c14BusyFailedSyncExample.worker.postponed = [0, 51] ∧
    c14BusyFailedSyncExample.worker.lastSyncFailed = true ∧
    c14BusyFailedSyncExample.store.map (fun s => (s.pending, s.removed, s.closed.map Closed.id, s.openId))
      = some ([], [], [118, 185], 247) ∧
    (c14BusyFailedSyncExample.step .workerIdle).worker.postponed = [0, 51] ∧
    c14BusyFailedSyncExample.dropStore.2 = [.workerExit true] ∧
    ((c14BusyFailedSyncExample.step .drop).fs.filter (fun f => f.linked)).map (·.id) =
      [0, 51, 118, 185, 247] ∧
    ((c14BusyFailedSyncExample.step .drop).step (.openWith { maxRecords := 2 })).store.map
      (fun s => (s.closed.map Closed.id, s.openId)) = some ([0, 51, 118, 185], 247) ∧
    ((c14BusyFailedSyncExample.step .drop).step (.openWith { maxRecords := 2 })).store.map
      (fun s => (s.st, s.log)) = c14BusyFailedSyncExample.store.map (fun s => (s.st, s.log)) := by
  decide +kernel

/-- The same history continued by user data and a flush, and the `drop` while the worker
holds that flush (the history that, before the postponed removal was retried after every
batch, left the chunks `0` and `51` linked for ever): the worker has a write in hand, so
`c14_busy_drop_then_open` applies although `lastSyncFailed = true` and
`postponed = [0, 51]` at the `drop`. The join writes and syncs the flush, then unlinks the
two postponed chunks; after drop + open the chunk table is the store's. -/
def c14BusyPostponedExample : Sys :=
  c14BusyFailedSyncExample.run [ .call (.saveUserData (some [42])), .flush (some 1) ]

example :
    c14BusyPostponedExample.worker.pc ≠ .dead ∧
    c14BusyPostponedExample.worker.willSyncD14 ∧
    c14BusyPostponedExample.worker.postponed = [0, 51] ∧
    c14BusyPostponedExample.worker.lastSyncFailed = true ∧
    c14BusyPostponedExample.store.map (fun s => (s.pending, s.removed, s.closed.map Closed.id, s.openId))
      = some ([], [], [118, 185, 247], 352) ∧
    (c14BusyPostponedExample.step .workerIdle).worker.postponed = [] ∧
    cbsOf c14BusyPostponedExample.dropStore.2 = [(1, true)] ∧
    unlinksOf c14BusyPostponedExample.dropStore.2 = [(0, true), (51, true)] ∧
    ((c14BusyPostponedExample.step .drop).fs.filter (fun f => f.linked)).map (·.id) =
      [118, 185, 247, 352] ∧
    ((c14BusyPostponedExample.step .drop).step (.openWith { maxRecords := 2 })).store.map
      (fun s => (s.closed.map Closed.id, s.openId)) = some ([118, 185, 247], 352) ∧
    ((c14BusyPostponedExample.step .drop).step (.openWith { maxRecords := 2 })).store.map
      (fun s => (s.st, s.log)) = c14BusyPostponedExample.store.map (fun s => (s.st, s.log)) := by
  decide +kernel

end RaftLog
