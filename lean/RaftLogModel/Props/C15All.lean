import RaftLogModel.Props.C15
import RaftLogModel.Props.C15Restart
