/-
C04 at the SYSTEM level, for every history — callback accounting.

"Each callback is invoked at most once, exactly once when no I/O error occurs, and
callbacks fire in the order the flushes were requested."  `Props/C04.lean` proves this on
the worker machine started in an arbitrary state; here it is lifted to whole histories of
the system: every cfg, EVERY `steps : List Step` (no legality, no journal, no alive
hypothesis; drops, reopenings with any cfg, dead workers, flushes without a store
included).

* `requestedC4S y steps` — the ids `i` of the steps `.flush (some i)` taken while a store
  is open, in order;
* `resolvedC4S evs` — the ids of the `Ev.cb i _` and `Ev.cbDropped i` events, in event order;
* `cbQueue w` — the callbacks the worker still holds (batch in hand, then queue).

WHAT THE MODEL REALLY DOES (and why target 1 is `_partial`): the list equality
`resolved ++ cbQueue = requested` is FALSE in general.  `WCtx.die` (a failed `write` or
`unlink` kills the worker thread) reports the dropped callbacks in ASCENDING ID order
(`insertNat`), not in request order: see the counterexample below (flush 9, flush 7,
the write fails: events `cbDropped 7, cbDropped 9`).  That is the only reordering. Proved:

1. `c04_sys_callback_accounting_partial` — for every history the equality holds up to a
   permutation, and more precisely: `requested = p ++ cbQueue` (what is still queued is
   exactly the tail of the requests, in request order) and `resolved` is a permutation of
   the prefix `p`.
   It is an exact list equality
   * `c04_sys_callback_accounting_ascending`: when the requested ids are ascending
     (`Pairwise (· ≤ ·)`, e.g. a script numbering its flushes), whatever dies;
   * `c04_sys_callback_accounting_no_death`: when no step of the history kills the worker
     (`Sys.noDeathC4S`; in particular when no `.worker .eio` step occurs at all,
     `c04_sys_callback_accounting_no_eio`; failed syncs do not kill the worker).
2. corollaries (a) at most once, (b) request order, (c) exactly once without fault.
-/
import RaftLogModel.Proofs.C04Order
namespace RaftLog

/-! ### 1. Accounting -/

/-- **Accounting, every history.** What is still queued at the end is exactly the tail of
the requests, in request order; the resolved callbacks are the earlier requests, up to the
order in which a dying worker reports its drops; hence `resolved ++ queued` is a
permutation of `requested`. -/
theorem c04_sys_callback_accounting_partial (cfg : Cfg) (steps : List Step) :
    (∃ p, requestedC4S (Sys.fresh cfg) steps = p ++ cbQueue ((Sys.fresh cfg).run steps).worker ∧
      (resolvedC4S (Sys.runEvsAll (Sys.fresh cfg) steps)).Perm p) ∧
    (resolvedC4S (Sys.runEvsAll (Sys.fresh cfg) steps) ++
        cbQueue ((Sys.fresh cfg).run steps).worker).Perm (requestedC4S (Sys.fresh cfg) steps) := by
  obtain ⟨p, h1, h2, _⟩ := Sys.run_splitC4S steps (Sys.fresh cfg) (InvC4S.fresh cfg)
  rw [Sys.fresh_cbQueueC4S, List.nil_append] at h1
  refine ⟨⟨p, h1, h2⟩, ?_⟩
  rw [h1]
  exact h2.append_right _

/-- **Accounting, exact**, when the requested callback ids are ascending. -/
theorem c04_sys_callback_accounting_ascending (cfg : Cfg) (steps : List Step)
    (hasc : (requestedC4S (Sys.fresh cfg) steps).Pairwise (· ≤ ·)) :
    resolvedC4S (Sys.runEvsAll (Sys.fresh cfg) steps) ++ cbQueue ((Sys.fresh cfg).run steps).worker =
      requestedC4S (Sys.fresh cfg) steps := by
  have h := (Sys.run_acctC4S steps (Sys.fresh cfg) (InvC4S.fresh cfg)).2.1
  rw [Sys.fresh_cbQueueC4S, List.nil_append] at h
  exact h hasc

/-- **Accounting, exact**, when no step kills the worker thread. -/
theorem c04_sys_callback_accounting_no_death (cfg : Cfg) (steps : List Step)
    (hnd : (Sys.fresh cfg).noDeathC4S steps) :
    resolvedC4S (Sys.runEvsAll (Sys.fresh cfg) steps) ++ cbQueue ((Sys.fresh cfg).run steps).worker =
      requestedC4S (Sys.fresh cfg) steps := by
  have h := (Sys.run_acctC4S steps (Sys.fresh cfg) (InvC4S.fresh cfg)).2.2
  rw [Sys.fresh_cbQueueC4S, List.nil_append] at h
  exact h hnd

theorem noEio_of_neC4S {st : Step} (h : st ≠ .worker .eio) : st.noEio = true := by
  cases st with
  | worker out => cases out <;> first | rfl | exact absurd rfl h
  | _ => rfl

/-- **Accounting, exact**, when no `write`/`fdatasync`/`unlink` of the worker fails
(`.worker .eio` never occurs; short writes allowed). -/
theorem c04_sys_callback_accounting_no_eio (cfg : Cfg) (steps : List Step)
    (hok : ∀ st ∈ steps, st ≠ .worker .eio) :
    resolvedC4S (Sys.runEvsAll (Sys.fresh cfg) steps) ++ cbQueue ((Sys.fresh cfg).run steps).worker =
      requestedC4S (Sys.fresh cfg) steps :=
  c04_sys_callback_accounting_no_death cfg steps
    (Sys.run_nofaultC4S steps _ (InvC4S.fresh cfg) (NFInvC4S.fresh cfg)
      (fun st hst => noEio_of_neC4S (hok st hst))).2.2

/-- The list equality asked for is false in general: two flushes with callbacks 9 then 7,
the worker collects both, its `write` fails; `die` reports 7 before 9. -/
def c04OrderCounterexample : List Step :=
  [.call (.append [(⟨1, 0⟩, [1])]), .flush (some 9), .flush (some 7), .worker .ok, .worker .eio]

example :
    requestedC4S (Sys.fresh {}) c04OrderCounterexample = [9, 7] ∧
    resolvedC4S (Sys.runEvsAll (Sys.fresh {}) c04OrderCounterexample) = [7, 9] ∧
    cbQueue ((Sys.fresh {}).run c04OrderCounterexample).worker = [] ∧
    resolvedC4S (Sys.runEvsAll (Sys.fresh {}) c04OrderCounterexample) ++
        cbQueue ((Sys.fresh {}).run c04OrderCounterexample).worker ≠
      requestedC4S (Sys.fresh {}) c04OrderCounterexample := by
  decide +kernel

/-! ### 2. Corollaries -/

/-- (a) **At most once.** If the requested callback ids are distinct, no callback is
resolved (invoked or dropped) twice and none is both resolved and still queued. -/
theorem c04_sys_at_most_once (cfg : Cfg) (steps : List Step)
    (hnd : (requestedC4S (Sys.fresh cfg) steps).Nodup) :
    (resolvedC4S (Sys.runEvsAll (Sys.fresh cfg) steps)).Nodup ∧
    (cbQueue ((Sys.fresh cfg).run steps).worker).Nodup ∧
    ∀ i ∈ resolvedC4S (Sys.runEvsAll (Sys.fresh cfg) steps),
      i ∉ cbQueue ((Sys.fresh cfg).run steps).worker := by
  have h := (c04_sys_callback_accounting_partial cfg steps).2.nodup_iff.mpr hnd
  rw [List.nodup_append] at h
  exact ⟨h.1, h.2.1, fun i hi hq => h.2.2 i hi i hq rfl⟩

/-- (b) **Request order.** For every history: the callbacks that are invoked (`Ev.cb`)
come, in event order, in the order their flushes were requested (a sublist of the
requests); the callbacks still queued are the last requests; and — when the requested ids
are ascending, or no step kills the worker — the resolved ids (invoked or dropped) are, in
event order, a prefix of the requests. (Without one of these two hypotheses the prefix
claim is false: `c04OrderCounterexample`.) -/
theorem c04_sys_request_order_partial (cfg : Cfg) (steps : List Step) :
    ((cbsOf (Sys.runEvsAll (Sys.fresh cfg) steps)).map Prod.fst).Sublist (requestedC4S (Sys.fresh cfg) steps) ∧
    cbQueue ((Sys.fresh cfg).run steps).worker <:+ requestedC4S (Sys.fresh cfg) steps ∧
    ((requestedC4S (Sys.fresh cfg) steps).Pairwise (· ≤ ·) ∨ (Sys.fresh cfg).noDeathC4S steps →
      resolvedC4S (Sys.runEvsAll (Sys.fresh cfg) steps) <+: requestedC4S (Sys.fresh cfg) steps) := by
  obtain ⟨p, h1, _, h3⟩ := Sys.run_splitC4S steps (Sys.fresh cfg) (InvC4S.fresh cfg)
  rw [Sys.fresh_cbQueueC4S, List.nil_append] at h1
  refine ⟨?_, ⟨p, h1.symm⟩, ?_⟩
  · rw [h1]; exact h3.trans (List.sublist_append_left _ _)
  · rintro (h | h)
    · exact ⟨_, c04_sys_callback_accounting_ascending cfg steps h⟩
    · exact ⟨_, c04_sys_callback_accounting_no_death cfg steps h⟩

/-- (b) In the form asked for, under the hypothesis that makes it true. -/
theorem c04_sys_request_order (cfg : Cfg) (steps : List Step)
    (hok : ∀ st ∈ steps, st ≠ .worker .eio) :
    resolvedC4S (Sys.runEvsAll (Sys.fresh cfg) steps) <+: requestedC4S (Sys.fresh cfg) steps :=
  ⟨_, c04_sys_callback_accounting_no_eio cfg steps hok⟩

/-- (c) **Exactly once when no I/O error occurs.** No `.worker .eio` step (short writes
allowed; drops, reopenings, any cfg), and the history ends with `workerIdle` or `drop`:
nothing is left queued; every requested callback is invoked exactly once, positively, in
request order; no callback is dropped and none is acknowledged negatively. -/
theorem c04_sys_exactly_once_no_fault (cfg : Cfg) (steps : List Step) (last : Step)
    (hok : ∀ st ∈ steps, st ≠ .worker .eio) (hlast : last = .workerIdle ∨ last = .drop) :
    cbQueue ((Sys.fresh cfg).run (steps ++ [last])).worker = [] ∧
    cbsOf (Sys.runEvsAll (Sys.fresh cfg) (steps ++ [last])) =
      (requestedC4S (Sys.fresh cfg) (steps ++ [last])).map (fun i => (i, true)) ∧
    resolvedC4S (Sys.runEvsAll (Sys.fresh cfg) (steps ++ [last])) =
      requestedC4S (Sys.fresh cfg) (steps ++ [last]) ∧
    (∀ i, Ev.cbDropped i ∉ Sys.runEvsAll (Sys.fresh cfg) (steps ++ [last])) ∧
    (∀ i, Ev.cb i false ∉ Sys.runEvsAll (Sys.fresh cfg) (steps ++ [last])) := by
  have hall : ∀ st ∈ steps ++ [last], st.noEio = true := by
    intro st hst
    rcases List.mem_append.mp hst with h | h
    · exact noEio_of_neC4S (hok st h)
    · rw [List.mem_singleton] at h
      rcases hlast with e | e <;> rw [h, e] <;> rfl
  obtain ⟨_, hgood, hnd⟩ := Sys.run_nofaultC4S (steps ++ [last]) _ (InvC4S.fresh cfg) (NFInvC4S.fresh cfg) hall
  have hq : cbQueue ((Sys.fresh cfg).run (steps ++ [last])).worker = [] := by
    rw [Sys.run_snocC4S]
    rcases hlast with e | e <;> rw [e]
    · exact Sys.idle_quietC4S ((InvC4S.fresh cfg).run steps)
    · exact Sys.drop_quietC4S ((InvC4S.fresh cfg).run steps)
  have hacct := c04_sys_callback_accounting_no_death cfg (steps ++ [last]) hnd
  rw [hq, List.append_nil] at hacct
  have hcbs : cbsOf (Sys.runEvsAll (Sys.fresh cfg) (steps ++ [last])) =
      (requestedC4S (Sys.fresh cfg) (steps ++ [last])).map (fun i => (i, true)) := by
    rw [← hacct]; exact hgood
  refine ⟨hq, hcbs, hacct, ?_, ?_⟩
  · intro i hi
    have := mem_droppedC4S.mpr hi
    rw [hgood.dropped] at this
    cases this
  · intro i hi
    have := mem_cbsOf.mpr hi
    rw [hcbs] at this
    simp at this

/-! ### 3. Non-vacuity -/

/-- Two flushes (callbacks 7 and 9), appends, worker steps; the `fdatasync` of the first
batch fails: 7 is acknowledged negatively (resolved), 9 is in the batch in hand. -/
def c04OrderDemo : List Step :=
  [.call (.append [(⟨1, 0⟩, [1, 2, 3])]), .flush (some 7), .worker .ok, .worker .ok, .worker .eio,
   .call (.append [(⟨1, 1⟩, [4])]), .flush (some 9), .worker .ok]

example :
    requestedC4S (Sys.fresh {}) c04OrderDemo = [7, 9] ∧
    resolvedC4S (Sys.runEvsAll (Sys.fresh {}) c04OrderDemo) = [7] ∧
    cbsOf (Sys.runEvsAll (Sys.fresh {}) c04OrderDemo) = [(7, false)] ∧
    cbQueue ((Sys.fresh {}).run c04OrderDemo).worker = [9] := by
  decide +kernel

/-- The same, then: a third flush (3) joins the batch, the `write` fails and kills the
worker (9 and 3 are dropped, reported as 3, 9); a flush on the dead worker (5) is dropped at
once; `drop`; a flush without a store (6) registers nothing; reopen; two flushes (8, 2) are
queued. -/
def c04OrderDemo2 : List Step :=
  c04OrderDemo ++ [.flush (some 3), .worker .eio, .flush (some 5), .drop, .flush (some 6),
    .openWith {}, .flush (some 8), .flush (some 2)]

example :
    requestedC4S (Sys.fresh {}) c04OrderDemo2 = [7, 9, 3, 5, 8, 2] ∧
    resolvedC4S (Sys.runEvsAll (Sys.fresh {}) c04OrderDemo2) = [7, 3, 9, 5] ∧
    cbsOf (Sys.runEvsAll (Sys.fresh {}) c04OrderDemo2) = [(7, false)] ∧
    droppedC4S (Sys.runEvsAll (Sys.fresh {}) c04OrderDemo2) = [3, 9, 5] ∧
    cbQueue ((Sys.fresh {}).run c04OrderDemo2).worker = [8, 2] := by
  decide +kernel

/-- No fault: both callbacks are acknowledged positively, in order, after `workerIdle`
(hypotheses of `c04_sys_exactly_once_no_fault` hold). -/
example :
    (∀ st ∈ [Step.call (.append [(⟨1, 0⟩, [1, 2, 3])]), .flush (some 7), .worker .ok, .flush (some 9),
        .call (.append [(⟨1, 1⟩, [4])]), .worker (.short 1)], st ≠ .worker .eio) ∧
    cbsOf (Sys.runEvsAll (Sys.fresh {}) ([.call (.append [(⟨1, 0⟩, [1, 2, 3])]), .flush (some 7), .worker .ok,
        .flush (some 9), .call (.append [(⟨1, 1⟩, [4])]), .worker (.short 1)] ++ [.workerIdle])) =
      [(7, true), (9, true)] := by
  decide +kernel

end RaftLog
