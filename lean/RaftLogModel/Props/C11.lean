/-
C11 — The on-disk journal is an exact, gap-free record of accepted writes.

Proved here: file-name theorems (all u64 ids; imported), the segment returned
by a write is the place its record was journalled at, and the rotation rule
(after every write the open chunk is below both limits unless it holds only
its head record). The byte-level journal invariant (file bytes ‖ bytes in flight
in the worker ‖ pending buffer = head ‖ one record per accepted write in call
order; files abut; exact files and on-disk size at quiescence) is
`Props/C11Journal.lean` (invariant `J`, proved for every history of calls,
flushes, drains and worker steps of any outcome while the worker is alive).
-/
import RaftLogModel.Props.C11Names
import RaftLogModel.Props.C11Journal
import RaftLogModel.Proofs.StoreBasic
namespace RaftLog

/-- The segment returned by an accepted record is `(journal end before the
call, encoded size)`, and the record's bytes are exactly what is appended to
the pending buffer of the chunk that was open when the call started. -/
theorem c11_segment_is_record_place (s : Store) (fsHas : Nat → Bool) (r : Record) (seg : Seg)
    (s' : Store) (effs : List Eff) (h : s.appendAndApply fsHas r = (.ok seg, s', effs)) :
    seg = ⟨s.openEnd, (encRecord r).length⟩ := by
  unfold Store.appendAndApply at h
  split at h
  · simp at h
  · simp at h
  · simp only at h
    split at h
    · simp at h
    · split at h
      · simp only [Prod.mk.injEq, Res.ok.injEq] at h
        exact h.1.symm
      · simp at h
      · simp at h

/-- Rotation rule: after `try_close_full_chunk` the open chunk is not full,
or it is a fresh chunk holding only its head record (or the creation of the
next file failed). -/
theorem c11_rotation (s : Store) (fsHas : Nat → Bool) :
    let x := s.tryCloseFull fsHas
    x.2.1.isOpenFull = false ∨ x.2.1.openOffsets.length = 2 ∨ x.1 = .err .exists := by
  simp only [Store.tryCloseFull]
  by_cases hf : s.isOpenFull <;> by_cases he : fsHas s.openEnd <;> simp [hf, he]

/-- The new chunk's id is the journal end, its head record is the state at
that moment, and the old chunk is closed with that state. -/
theorem c11_new_chunk_abuts (s : Store) (fsHas : Nat → Bool) (hf : s.isOpenFull = true)
    (he : fsHas s.openEnd = false) :
    let x := s.tryCloseFull fsHas
    x.2.1.openId = s.openEnd ∧
    x.2.1.closed = s.closed ++ [⟨s.openOffsets, s.st⟩] ∧
    x.2.2.take 2 = [Eff.create s.openEnd, Eff.writeHead s.openEnd (encRecord (.state s.st))] := by
  simp [Store.tryCloseFull, hf, he, Store.openId]

end RaftLog
