/-
C15 — Payload cache accounting is exact; only pinned entries may exceed the
limits.

Quantification: every history of public calls (accepted *and* rejected),
flushes, drains and worker steps with arbitrary outcomes (so every timing of
the boundary update), for every configuration, starting from a store opened
on an empty directory. (Histories that pass through a restart are covered by
the correspondence run only: the replay lemma needs the journal invariant of
C11, see DESIGN.)
-/
import RaftLogModel.Proofs.StoreCache
import RaftLogModel.Proofs.WorkerCache
import RaftLogModel.Model.Sys
namespace RaftLog

/-- No step that keeps the store alive. -/
def Step.live : Step → Bool
  | .drop => false
  | .openWith _ => false
  | _ => true

theorem CacheInv.of_same {s : Store} {c : Cache} (h : CacheInv s) (hs : SameItems c s.cache) :
    CacheInv { s with cache := c } :=
  ⟨⟨by simp only [hs.2.1, hs.1]; exact h.ok.size_eq, by simp only [hs.1]; exact h.ok.sorted⟩,
   by simp only [hs.1]; exact h.le_last⟩

/-- The invariant at system level. -/
def SysCacheInv (y : Sys) : Prop := ∀ s, y.store = some s → CacheInv s

theorem fresh_store (cfg : Cfg) :
    ∃ s, (Sys.fresh cfg).store = some s ∧ s.cache.items = [] ∧ s.cache.size = 0 := by
  simp [Sys.fresh, Sys.open, openStore, Fs.linkedIds, openLoop, emptyStore, Fs.has, Fs.find]

theorem fresh_cacheInv (cfg : Cfg) : SysCacheInv (Sys.fresh cfg) := by
  intro s hs
  obtain ⟨s0, h0, hi, hz⟩ := fresh_store cfg
  rw [h0] at hs
  injection hs with hs
  subst hs
  refine ⟨⟨by rw [hz, hi]; rfl, by rw [hi]; exact List.Pairwise.nil⟩, ?_⟩
  intro e he
  rw [hi] at he
  cases he

theorem step_cacheInv (y : Sys) (st : Step) (hl : st.live = true) (h : SysCacheInv y) :
    SysCacheInv (y.step st) := by
  intro s' hs'
  cases st with
  | drop => cases hl
  | openWith cfg => cases hl
  | call op =>
    simp only [Sys.step, Sys.call] at hs'
    cases hst : y.store with
    | none => simp [hst] at hs'
    | some s =>
      simp only [hst] at hs'
      simp only [Option.some.injEq] at hs'
      subst hs'
      exact call_cacheInv _ op (h s hst)
  | flush cb =>
    simp only [Sys.step, Sys.flush] at hs'
    cases hst : y.store with
    | none => simp [hst] at hs'
    | some s =>
      simp only [hst] at hs'
      simp only [Option.some.injEq] at hs'
      subst hs'
      have := h s hst
      split <;> exact ⟨this.ok, this.le_last⟩
  | worker out =>
    simp only [Sys.step, Sys.workerStep] at hs'
    cases hst : y.store with
    | none => simp [hst] at hs'
    | some s =>
      simp only [hst, Option.some.injEq] at hs'
      subst hs'
      exact (h s hst).of_same (WCtx.step_same _ out)
  | workerIdle =>
    simp only [Sys.step, Sys.workerIdle] at hs'
    cases hst : y.store with
    | none => simp [hst] at hs'
    | some s =>
      simp only [hst, Option.some.injEq] at hs'
      subst hs'
      exact (h s hst).of_same (WCtx.runQuiet_same _ _)
  | drain =>
    simp only [Sys.step, Sys.drain] at hs'
    cases hst : y.store with
    | none => simp [hst] at hs'
    | some s =>
      simp only [hst, Option.some.injEq] at hs'
      subst hs'
      have := h s hst
      refine ⟨Cache.drainEvictable_ok this.ok, ?_⟩
      obtain ⟨pre, h1, _⟩ := drainLoop_spec s.cache.lastEvictable s.cache.size s.cache.items this.ok.size_eq
      have hl := this.le_last
      rw [h1] at hl
      exact hl.of_suffix

theorem run_cacheInv (y : Sys) (steps : List Step) (hl : ∀ st ∈ steps, st.live = true)
    (h : SysCacheInv y) : SysCacheInv (y.run steps) := by
  induction steps generalizing y with
  | nil => exact h
  | cons st rest ih =>
    simp only [Sys.run, List.foldl_cons]
    exact ih (y.step st) (fun s hs => hl s (List.mem_cons_of_mem _ hs))
      (step_cacheInv y st (hl st List.mem_cons_self) h)

/-- **Accounting is exact** in every reachable state: the reported byte size is
the sum of the resident payload sizes (the item count is the length of the
resident list by definition), resident keys are distinct and increasing, and
none lies above `last`. -/
theorem c15_accounting_exact (cfg : Cfg) (steps : List Step) (hl : ∀ st ∈ steps, st.live = true)
    (s : Store) (hs : ((Sys.fresh cfg).run steps).store = some s) :
    s.cache.size = sumLen s.cache.items ∧ Sorted s.cache.items ∧ KeysLe s.cache.items s.st.last := by
  have := run_cacheInv _ steps hl (fresh_cacheInv cfg) s hs
  exact ⟨this.ok.size_eq, this.ok.sorted, this.le_last⟩

/-- **Only pinned entries exceed the limits**: right after the insertion an
`append` performs (the only place entries are added), if either limit is
exceeded every resident id lies above the boundary in force. -/
theorem c15_over_limit_only_pinned (c : Cache) (k : LogId) (v : Bytes) (h : c.OK)
    (hk : ∀ e ∈ c.items, e.1.lt k = true)
    (hover : (c.insert k v).items.length > c.maxItems ∨ (c.insert k v).size > c.capacity) :
    KeysGt (c.insert k v).items c.lastEvictable := by
  unfold Cache.insert at hover ⊢
  have hok : ({ c with items := insertSorted k v c.items, size := c.size + v.length } : Cache).OK := by
    refine ⟨?_, ?_⟩
    · simp only [insertSorted_of_all_lt k v c.items hk, sumLen_append, sumLen]
      have := h.size_eq; omega
    · simp only [insertSorted_of_all_lt k v c.items hk]
      unfold Sorted
      rw [List.pairwise_append]
      refine ⟨h.sorted, List.pairwise_singleton _ _, ?_⟩
      intro a ha b hb; simp at hb; subst hb; exact hk a ha
  exact Cache.tryEvict_over_limit hok hover

/-- **After a drain** no resident entry lies at or below the boundary. -/
theorem c15_drained (c : Cache) (h : c.OK) : KeysGt c.drainEvictable.items c.lastEvictable :=
  Cache.drainEvictable_keysGt h

/-- Non-vacuity: a concrete reachable state with a non-empty cache. -/
example : ∃ s, ((Sys.fresh {}).run [.call (.append [(⟨1, 0⟩, [1, 2, 3])])]).store = some s ∧
    s.cache.items.length = 1 := by
  refine ⟨_, rfl, ?_⟩
  decide

end RaftLog
