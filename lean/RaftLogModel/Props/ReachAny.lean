/-
Reachability with arbitrary (accepted or rejected) calls.

`ReachLIFT` (Props/LiftRestart.lean) closes the fresh systems under LEGAL histories,
clean restarts and crash recoveries. By the normalisation theorem of Props/C06Normal.lean
a history of well-formed calls that the reference log does not accept ends in the same
system as its legal normal form, so `ReachLIFT` is also closed under such histories
(hypothesis: purges are Raft-legal, `purgesLegalC6N`). Hence every `…_reach` theorem of
the project holds for systems reached through rejected calls, refused batches and
index-u64::MAX calls as well.
-/
import RaftLogModel.Props.C06Normal
import RaftLogModel.Props.LiftRestart
namespace RaftLog

/-- `{ fs := img, cfg := cfg' }.open` leaves a settled worker (a fresh worker or none). -/
theorem Sys.open_settled_RANY (y : Sys) (h : y.Settled) : (y.open).2.1.Settled := by
  have := Sys.step_settled y (.openWith y.cfg) h
  simpa [Sys.step] using this

/-- Every `ReachLIFT` system has a settled worker. -/
theorem reachLIFT_settled {y : Sys} (h : ReachLIFT y) : y.Settled := by
  induction h with
  | fresh cfg => exact Sys.fresh_settled cfg
  | hist steps r r' _ _ _ _ _ _ ih => exact Sys.run_settled steps _ ih
  | restart cfg' _ _ ih => exact Sys.step_settled _ _ (Sys.step_settled _ _ ih)
  | recover img cfg' _ _ _ _ _ =>
    apply Sys.open_settled_RANY
    rfl

/-- **`ReachLIFT` is closed under arbitrary histories of well-formed calls.** From a
reachable system `y` refining `r`: any journal steps whose ops are well-formed (accepted or
not, small or not), with Raft-legal purges and the worker alive at the end, lead to a
reachable system again, refining the reference log of the normal form. -/
theorem reachLIFT_any_history {y : Sys} (h : ReachLIFT y) (r : RefLog) (hC : CSys y r)
    (steps : List Step) (hsteps : ∀ st ∈ steps, st.journal = true)
    (hwf : ∀ op ∈ stepOps steps, op.WF) (hpurge : purgesLegalC6N r steps = true)
    (halive : (y.run steps).worker.pc ≠ .dead) :
    ReachLIFT (y.run steps) ∧ CSys (y.run steps) (normalizeC6N r steps).2 := by
  obtain ⟨k1, k2, k3, k4, k5, _⟩ :=
    normalize_run_C6N steps y r hC (reachLIFT_settled h) hsteps hwf hpurge halive
  refine ⟨?_, k5⟩
  rw [← k1]
  exact ReachLIFT.hist _ r _ h k2 hC k3 k4 (by rw [k1]; exact halive)

/-- From a fresh store: any such history is `ReachLIFT`; so are its clean restarts and crash
recoveries, and histories of the same kind continued from there (`reachLIFT_any_history`). -/
theorem reachLIFT_of_any_history (cfg : Cfg) (steps : List Step)
    (hsteps : ∀ st ∈ steps, st.journal = true) (hwf : ∀ op ∈ stepOps steps, op.WF)
    (hpurge : purgesLegalC6N {} steps = true)
    (halive : ((Sys.fresh cfg).run steps).worker.pc ≠ .dead) :
    ReachLIFT ((Sys.fresh cfg).run steps) :=
  (reachLIFT_any_history (ReachLIFT.fresh cfg) {} (fresh_CSys cfg) steps hsteps hwf hpurge halive).1

/-- Non-vacuity: the history of Props/C06Normal.lean with a rejected vote, a batch with a
rejected tail, an index-u64::MAX purge and a rejected truncate is reachable in this sense
although the reference log does not accept it. -/
example : ReachLIFT ((Sys.fresh {}).run c06NormalExample) ∧
    RefLog.run {} (stepOps c06NormalExample) = none := by
  refine ⟨reachLIFT_of_any_history {} c06NormalExample (by decide +kernel) ?_ (by decide +kernel)
    (by decide +kernel), by decide +kernel⟩
  intro op hop
  simp only [c06NormalExample, stepOps, List.mem_cons, List.not_mem_nil, or_false] at hop
  rcases hop with h | h | h | h | h | h | h <;> subst h <;>
    simp [Op.WF, LogId.WF, bytesWF, U64, U32]

end RaftLog
