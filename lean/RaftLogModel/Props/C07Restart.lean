/-
C07 ACROSS RESTARTS — every live entry can be read back, with its original
payload and without error, after any number of clean restarts, whatever cache
limits (0 included) and chunk limits the reopening configurations have.

`c07_reads_with_truncate` (Props/C07Trunc.lean) covers histories from
`Sys.fresh cfg` without `.drop` / `.openWith`. Here:

* **GOAL 1** `c07_clean_restart_keeps_read_invariant`: drop + open from a clean
  state re-establishes the read invariant, for ANY configuration of the
  reopening, with the SAME ghost bound (`m`, the largest id appended so far).
* **GOAL 2** `c07_reads_across_restarts`: any number of segments (history, then
  drop + open with its own configuration) that end clean (`CleanCycles`,
  Props/C02.lean), then a final history: if all calls, in order, are legal and
  accepted by the reference log from the empty log (reaching `r`), small and
  well-formed, the appended ids are fresh over the WHOLE run (`AppendsFresh` of
  the concatenation of all segments' steps) and the worker is alive at the end,
  the final store reports `r`'s state, every range read and the snapshot
  iterator return exactly `r`'s entries, and every call of every segment
  returned `ok`.

What `open` does to the payload cache (Model/Open.lean): it replays the chunk
files oldest first; before the records of a chunk are replayed the eviction
boundary is set to the closing `last` of the chunk before it; every `Append`
record replayed is inserted and the cache evicts (ids at or below the boundary,
while over a limit). The last chunk of a clean directory is reused as the open
chunk, its file is the only one the new worker tracks, so afterwards an entry
of that chunk is served from the cache only: it must be RESIDENT. It is
(Proofs/ReadRestartCache.lean, `openStore_ck_C7c`): an entry of the last chunk
whose id is above the boundary in force is never evicted during replay, is kept
by the truncations and purges of the journal that keep its index entry
(`RecCheck`), and — the crux — its id IS above the boundary: the boundary is the
closing `last` of the last closed chunk.

That last fact is not part of `ReadInvC7b`, which constrains only the file
entries the WORKER holds (a file entry disappears once its file is synced);
`open` reads the boundary from the CHUNK TABLE. The invariant therefore gets one
more clause (Proofs/ReadRestartInv.lean):

  `ClosedOKC7c B s`: for every closed chunk `c`, `c.state.last ≤ B` (the ghost
  bound) and every index entry with id at or below `c.state.last` lies in `c`
  or an older chunk.

It holds initially, is kept by every journalled record (a fresh id is above
`B`), by chunk rotation (the closing `last` is the current `last ≤ B`, every
entry is in the chunk that closes or an older one), by purge of obsolete chunks,
flush, worker steps, drain — and by drop + open (chunk table and index map are
the same). `ReadInvC7c y r m` = `ReadInvC7b y r m` ∧ `ClosedOKC7c`. Without
`AppendsFresh` the clause fails exactly where C07 fails (finding D2): after a
truncation an id at or below a closing `last` is appended into a later chunk.

* **GOAL 3** `c07_crash_recovery_keeps_read_invariant`,
  `c07_reads_after_crash_recovery`, `c07_reads_after_recovery_continue`: the
  same after crash RECOVERY — under the hypotheses of
  `c05_recovered_store_is_consistent` (legal history from a fresh store, crash
  image without torn predecessor, `truncate = true`) and `AppendsFresh`, the
  system `open` builds satisfies the read invariant for the recovered reference
  prefix `r'`; so do all its `AppendsFresh` continuations, further clean restarts
  (`c07_reads_across_restarts_from`) and further crash + recovery rounds
  (`CrashReadInvC7c`). For this the closed-chunk clause must be available for a
  chunk table that `open` builds from a crash image — possibly a state the store
  never was in (a batch half journalled, dropped chunks whose files are still
  linked loaded again, the newest chunk cut and closed). It is therefore derived
  from a property of the chunk FILES: the journal is FRESH (`FSysC7c`,
  Proofs/ReadRestartJournal.lean: every `Append` record is above every id appended
  before it and above `purged`), maintained along `AppendsFresh` histories for the
  journal with all dropped chunks put back (Proofs/ReadRestartFresh.lean, on top of
  the payload-mirroring development of C05) and inherited by every chunk-aligned
  segment cut at a record boundary — which is what `open` replays on a crash image
  (Proofs/ReadRestartRecover.lean).

Quantification: every initial `cfg`; every reopening configuration (any cache
limits, 0 included; any chunk limits); segments of `.call/.flush/.worker out/
.workerIdle/.drain` steps; each segment before a restart ends clean (worker
quiet, nothing pending, no removal outstanding: `Sys.Clean`, the hypothesis of
C02 — a restart from a non-clean state is a crash-like event and not covered
here); `AppendsFresh` over all segments.
-/
import RaftLogModel.Props.C07Trunc
import RaftLogModel.Props.C02
import RaftLogModel.Proofs.ReadRestartCycles
import RaftLogModel.Proofs.ReadRestartRecover
namespace RaftLog

/-! ### 1. The invariant -/

/-- What `ReadInvC7c y r m` says: `ReadInvC7b y r m` (see `c07t_readInv_spec`)
and, with `B = max m r.purged`: the closing `last` of every closed chunk is at
or below `B`, and an index entry with id at or below it lies in that chunk or
an older one. -/
theorem c07r_readInv_spec {y : Sys} {r : RefLog} {m : Option LogId} (h : ReadInvC7c y r m) :
    ReadInvC7b y r m ∧ ∃ s, y.store = some s ∧
      ∀ c ∈ s.closed, optLe c.state.last (optMaxC7b m r.purged) = true ∧
        ∀ x ∈ s.log, optLe (some x.2.id) c.state.last = true → x.2.chunk ≤ c.id := by
  refine ⟨h.toC7b, ?_⟩
  obtain ⟨s, hs, _, _, _, _, hk⟩ := h
  refine ⟨s, hs, fun c hc => ⟨(hk c hc).1, fun x hx hle => ?_⟩⟩
  have := (hk c hc).2 x hx hle
  omega

/-- (A) the freshly opened store. -/
theorem c07r_inv_fresh (cfg : Cfg) : ReadInvC7c (Sys.fresh cfg) {} none := fresh_readInv_C7c cfg

/-- (B) a legal, accepted, small, well-formed call (ANY op) whose appended ids
are above the largest id `m` appended so far. -/
theorem c07r_inv_call (y : Sys) (r r' : RefLog) (m m' : Option LogId) (op : Op) (h : ReadInvC7c y r m)
    (hl : r.legal op = true) (hc : r.call op = .ok r') (hsm : op.small) (hwf : op.WF)
    (hfr : freshOpC7b m op = some m') :
    ReadInvC7c (y.step (.call op)) r' m' ∧ ∃ seg, (y.call op).1 = .ok seg :=
  h.call hl hc hsm hwf hfr

/-- (B) -/
theorem c07r_inv_flush (y : Sys) (r : RefLog) (m : Option LogId) (cb : Option Nat) (h : ReadInvC7c y r m) :
    ReadInvC7c (y.step (.flush cb)) r m := h.flush cb

/-- (B) any outcome, provided the worker is not dead afterwards. -/
theorem c07r_inv_worker (y : Sys) (r : RefLog) (m : Option LogId) (out : Outcome) (h : ReadInvC7c y r m)
    (halive : (y.step (.worker out)).worker.pc ≠ .dead) : ReadInvC7c (y.step (.worker out)) r m :=
  h.worker out halive

/-- (B) -/
theorem c07r_inv_workerIdle (y : Sys) (r : RefLog) (m : Option LogId) (h : ReadInvC7c y r m)
    (halive : (y.step .workerIdle).worker.pc ≠ .dead) : ReadInvC7c (y.step .workerIdle) r m :=
  h.workerIdle halive

/-- (B) -/
theorem c07r_inv_drain (y : Sys) (r : RefLog) (m : Option LogId) (h : ReadInvC7c y r m) :
    ReadInvC7c (y.step .drain) r m := h.drain

/-- The invariant along a history from ANY state that satisfies it (e.g. a
reopened store). -/
theorem c07r_inv_history (y : Sys) (steps : List Step) (r r' : RefLog) (m m' : Option LogId)
    (h : ReadInvC7c y r m)
    (hsteps : ∀ st ∈ steps, st.journal = true)
    (hlegal : r.run (stepOps steps) = some r')
    (hops : ∀ op ∈ stepOps steps, op.small ∧ op.WF)
    (hfresh : freshOpsC7b m (stepOps steps) = some m')
    (halive : (y.run steps).worker.pc ≠ .dead) :
    ReadInvC7c (y.run steps) r' m' ∧
    ∀ pre op post, steps = pre ++ Step.call op :: post → ∃ seg, ((y.run pre).call op).1 = .ok seg :=
  run_readInv_C7c steps y r r' m m' h hsteps hlegal hops hfresh halive

/-- **ReadInvC7c ⇒ read = spec read** (through `ReadInvC7b`). -/
theorem c07r_read_of_inv {y : Sys} {r : RefLog} {m : Option LogId} (h : ReadInvC7c y r m) :
    ∃ s, y.store = some s ∧ s.st = r.state ∧
      (∀ a b, (s.read y.fs a b).1 = (r.read a b).map (fun e => ReadItem.ok e.1 e.2)) ∧
      s.iter y.fs = r.entries.map (fun e => ReadItem.ok e.1 e.2) :=
  h.toC7b.read

/-! ### 2. GOAL 1: a clean restart re-establishes the invariant -/

/-- **GOAL 1.** `y` satisfies the read invariant (`ReadInvC7c y r m`) and the
replay / linked-files invariants (`CSys y r`), and is clean (worker quiet,
nothing pending, no removal outstanding). Then for EVERY configuration `cfg'`
— any cache limits (0 included), any chunk limits — the system after
`.drop`, `.openWith cfg'` satisfies both invariants again, for the same
reference log and the SAME ghost bound `m`. -/
theorem c07_clean_restart_keeps_read_invariant (y : Sys) (r : RefLog) (m : Option LogId) (cfg' : Cfg)
    (h : ReadInvC7c y r m) (hC : CSys y r) (hc : y.Clean) :
    ReadInvC7c ((y.step .drop).step (.openWith cfg')) r m ∧
      CSys ((y.step .drop).step (.openWith cfg')) r :=
  restart_clean_C7c y r m cfg' h hC hc

/-- GOAL 1 in terms of `ReadInvC7b` (the invariant of `c07_reads_with_truncate`)
and of reads: after the restart every `read(a, b)` and the snapshot iterator
return exactly `r`'s entries. -/
theorem c07_clean_restart_reads (y : Sys) (r : RefLog) (m : Option LogId) (cfg' : Cfg)
    (h : ReadInvC7c y r m) (hC : CSys y r) (hc : y.Clean) :
    let y2 := (y.step .drop).step (.openWith cfg')
    ReadInvC7b y2 r m ∧
    ∃ s', y2.store = some s' ∧ s'.st = r.state ∧ s'.cfg = cfg' ∧
      (∀ a b, (s'.read y2.fs a b).1 = (r.read a b).map (fun e => ReadItem.ok e.1 e.2)) ∧
      s'.iter y2.fs = r.entries.map (fun e => ReadItem.ok e.1 e.2) := by
  intro y2
  obtain ⟨h2, _⟩ := restart_clean_C7c y r m cfg' h hC hc
  obtain ⟨s', hs', hst, hrd, hit⟩ := h2.toC7b.read
  obtain ⟨_, s1, _, hs1, _, _, _, _, _, _, _, _, _, _, hcfg, _⟩ := c02_restart_step y r cfg' hC hc
  have : s1 = s' := by
    have e : y2.store = some s1 := hs1
    rw [hs'] at e; injection e with e; exact e.symm
  subst this
  exact ⟨h2.toC7b, s1, hs', hst, hcfg, hrd, hit⟩

/-- Which entries are resident / on disk right after the restart: every live
entry of a CLOSED chunk is readable from its chunk file (completely written;
the new worker has nothing in flight), every live entry of the reused OPEN
chunk is resident with its payload — for any cache limits of `cfg'`. -/
theorem c07r_after_restart_resident_or_on_disk (y : Sys) (r : RefLog) (m : Option LogId) (cfg' : Cfg)
    (h : ReadInvC7c y r m) (hC : CSys y r) (hc : y.Clean) :
    let y2 := (y.step .drop).step (.openWith cfg')
    ∃ s', y2.store = some s' ∧ ∀ x ∈ s'.log, ∃ p, (x.2.id, p) ∈ r.entries ∧
      (s'.cache.get x.2.id = some p ∨
        ((∃ c ∈ s'.closed, c.id = x.2.chunk) ∧ y2.worker.inflight x.2.chunk = [] ∧
          ∃ f, y2.fs.find x.2.chunk = some f ∧ x.2.off - x.2.chunk + x.2.size ≤ f.data.length ∧
            (f.data.drop (x.2.off - x.2.chunk)).take x.2.size = encRecord (.append x.2.id p))) := by
  intro y2
  exact (restart_clean_C7c y r m cfg' h hC hc).1.toC7b.resident_or_on_disk

/-! ### 3. GOAL 2: cycles -/

/-- `AppendsFresh` over the concatenation of all segments' steps and a final
history, as a fold over the ops. -/
theorem c07r_appendsFresh_cycles (segs : List (List Step × Cfg)) (last : List Step) :
    AppendsFresh (cycleStepsC7c segs ++ last) =
      (freshOpsC7b none (cycleOps segs ++ stepOps last)).isSome := by
  unfold AppendsFresh
  rw [stepOps_append_C7c, stepOps_cycleSteps_C7c]

/-- The invariants after any number of clean cycles and a final history. -/
theorem c07r_inv_cycles (cfg : Cfg) (segs : List (List Step × Cfg)) (last : List Step) (r : RefLog)
    (hsegs : ∀ seg ∈ segs, ∀ st ∈ seg.1, st.journal = true)
    (hlast : ∀ st ∈ last, st.journal = true)
    (hlegal : RefLog.run {} (cycleOps segs ++ stepOps last) = some r)
    (hops : ∀ op ∈ cycleOps segs ++ stepOps last, op.small ∧ op.WF)
    (hfresh : AppendsFresh (cycleStepsC7c segs ++ last) = true)
    (hclean : CleanCycles (Sys.fresh cfg) segs)
    (halive : (((Sys.fresh cfg).runCycles segs).run last).worker.pc ≠ .dead) :
    ∃ m, freshOpsC7b none (cycleOps segs ++ stepOps last) = some m ∧
      ReadInvC7c (((Sys.fresh cfg).runCycles segs).run last) r m ∧
      CSys (((Sys.fresh cfg).runCycles segs).run last) r ∧
      (∀ pre op post, last = pre ++ Step.call op :: post →
        ∃ sg, ((((Sys.fresh cfg).runCycles segs).run pre).call op).1 = .ok sg) ∧
      (∀ segs1 seg segs2 pre op post, segs = segs1 ++ seg :: segs2 →
        seg.1 = pre ++ Step.call op :: post →
        ∃ sg, ((((Sys.fresh cfg).runCycles segs1).run pre).call op).1 = .ok sg) := by
  rw [c07r_appendsFresh_cycles] at hfresh
  cases hm : freshOpsC7b none (cycleOps segs ++ stepOps last) with
  | none => rw [hm] at hfresh; cases hfresh
  | some m =>
    refine ⟨m, rfl, ?_⟩
    rw [freshOps_append_C7c] at hm
    rw [RefLog.run_append] at hlegal
    cases hr1 : RefLog.run {} (cycleOps segs) with
    | none => rw [hr1] at hlegal; cases hlegal
    | some r1 =>
      rw [hr1] at hlegal
      simp only [Option.bind_some] at hlegal
      cases hm1 : freshOpsC7b none (cycleOps segs) with
      | none => rw [hm1] at hm; cases hm
      | some m1 =>
        rw [hm1] at hm
        simp only [Option.bind_some] at hm
        obtain ⟨g1, g2, g3⟩ := cycles_readInv_C7c segs (Sys.fresh cfg) {} r1 none m1
          (fresh_readInv_C7c cfg) (fresh_CSys cfg) hsegs hr1
          (fun op hop => hops op (List.mem_append_left _ hop)) hm1 hclean
        obtain ⟨k1, k2⟩ := run_readInv_C7c last _ r1 r m1 m g1 hlast hlegal
          (fun op hop => hops op (List.mem_append_right _ hop)) hm halive
        have k3 : CSys (((Sys.fresh cfg).runCycles segs).run last) r :=
          run_CSys last _ r1 r g2 hlast hlegal
            (fun op hop => ⟨(hops op (List.mem_append_right _ hop)).2,
              (hops op (List.mem_append_right _ hop)).1⟩) halive
        exact ⟨k1, k3, k2, g3⟩

/-- **GOAL 2: C07 across restarts.** For every initial configuration, every
list of segments — each a history of calls (ANY op, `truncate` included),
flushes, worker steps of any outcome, `workerIdle`, `drain` that ends clean and
is followed by `.drop` and `.openWith` ITS OWN configuration (any cache limits,
0 included; any chunk limits) — and every final history `last`: if the calls of
all segments and of `last`, in order, are legal and accepted by the reference
log from the empty log, reaching `r`; every op is small and well-formed; every
appended log id is strictly greater than every log id appended earlier IN THE
WHOLE RUN (`AppendsFresh` of the concatenation of all segments' steps and
`last`); and the worker is alive at the end: then the final store reports `r`'s
state, every `read(a, b)` returns exactly `r`'s entries in `[a, b)` as
`ok id payload` — original payload, no error — and so does the dump iterator;
moreover every call of `last` and of every segment returned `ok`. -/
theorem c07_reads_across_restarts (cfg : Cfg) (segs : List (List Step × Cfg)) (last : List Step)
    (r : RefLog)
    (hsegs : ∀ seg ∈ segs, ∀ st ∈ seg.1, st.journal = true)
    (hlast : ∀ st ∈ last, st.journal = true)
    (hlegal : RefLog.run {} (cycleOps segs ++ stepOps last) = some r)
    (hops : ∀ op ∈ cycleOps segs ++ stepOps last, op.small ∧ op.WF)
    (hfresh : AppendsFresh (cycleStepsC7c segs ++ last) = true)
    (hclean : CleanCycles (Sys.fresh cfg) segs)
    (halive : (((Sys.fresh cfg).runCycles segs).run last).worker.pc ≠ .dead) :
    let y := ((Sys.fresh cfg).runCycles segs).run last
    (∃ s, y.store = some s ∧ s.st = r.state ∧
      (∀ a b, (s.read y.fs a b).1 = (r.read a b).map (fun e => ReadItem.ok e.1 e.2)) ∧
      s.iter y.fs = r.entries.map (fun e => ReadItem.ok e.1 e.2)) ∧
    (∀ pre op post, last = pre ++ Step.call op :: post →
      ∃ sg, ((((Sys.fresh cfg).runCycles segs).run pre).call op).1 = .ok sg) ∧
    (∀ segs1 seg segs2 pre op post, segs = segs1 ++ seg :: segs2 →
      seg.1 = pre ++ Step.call op :: post →
      ∃ sg, ((((Sys.fresh cfg).runCycles segs1).run pre).call op).1 = .ok sg) := by
  intro y
  obtain ⟨m, _, h, _, hc1, hc2⟩ :=
    c07r_inv_cycles cfg segs last r hsegs hlast hlegal hops hfresh hclean halive
  exact ⟨h.toC7b.read, hc1, hc2⟩

/-- **GOAL 2 from ANY state that satisfies the invariants** — e.g. a store that
`open` recovered after a crash (`c07_crash_recovery_keeps_read_invariant` gives
`ReadInvC7c y2 r' m''`, `CSys y2 r'`): any number of clean cycles and a final
history whose calls are legal and accepted from `r0` and whose appended ids are
above the ghost value `m0` and fresh among themselves. -/
theorem c07_reads_across_restarts_from (y0 : Sys) (r0 : RefLog) (m0 : Option LogId)
    (segs : List (List Step × Cfg)) (last : List Step) (r : RefLog)
    (h0 : ReadInvC7c y0 r0 m0) (hC0 : CSys y0 r0)
    (hsegs : ∀ seg ∈ segs, ∀ st ∈ seg.1, st.journal = true)
    (hlast : ∀ st ∈ last, st.journal = true)
    (hlegal : r0.run (cycleOps segs ++ stepOps last) = some r)
    (hops : ∀ op ∈ cycleOps segs ++ stepOps last, op.small ∧ op.WF)
    (hfresh : (freshOpsC7b m0 (cycleOps segs ++ stepOps last)).isSome = true)
    (hclean : CleanCycles y0 segs)
    (halive : ((y0.runCycles segs).run last).worker.pc ≠ .dead) :
    let y := (y0.runCycles segs).run last
    (∃ s, y.store = some s ∧ s.st = r.state ∧
      (∀ a b, (s.read y.fs a b).1 = (r.read a b).map (fun e => ReadItem.ok e.1 e.2)) ∧
      s.iter y.fs = r.entries.map (fun e => ReadItem.ok e.1 e.2)) ∧
    (∃ m, ReadInvC7c y r m ∧ CSys y r) ∧
    (∀ pre op post, last = pre ++ Step.call op :: post →
      ∃ sg, (((y0.runCycles segs).run pre).call op).1 = .ok sg) ∧
    (∀ segs1 seg segs2 pre op post, segs = segs1 ++ seg :: segs2 →
      seg.1 = pre ++ Step.call op :: post →
      ∃ sg, (((y0.runCycles segs1).run pre).call op).1 = .ok sg) := by
  intro y
  cases hm : freshOpsC7b m0 (cycleOps segs ++ stepOps last) with
  | none => rw [hm] at hfresh; cases hfresh
  | some m =>
    rw [freshOps_append_C7c] at hm
    rw [RefLog.run_append] at hlegal
    cases hr1 : r0.run (cycleOps segs) with
    | none => rw [hr1] at hlegal; cases hlegal
    | some r1 =>
      rw [hr1] at hlegal
      simp only [Option.bind_some] at hlegal
      cases hm1 : freshOpsC7b m0 (cycleOps segs) with
      | none => rw [hm1] at hm; cases hm
      | some m1 =>
        rw [hm1] at hm
        simp only [Option.bind_some] at hm
        obtain ⟨g1, g2, g3⟩ := cycles_readInv_C7c segs y0 r0 r1 m0 m1 h0 hC0 hsegs hr1
          (fun op hop => hops op (List.mem_append_left _ hop)) hm1 hclean
        obtain ⟨k1, k2⟩ := run_readInv_C7c last _ r1 r m1 m g1 hlast hlegal
          (fun op hop => hops op (List.mem_append_right _ hop)) hm halive
        have k3 : CSys ((y0.runCycles segs).run last) r :=
          run_CSys last _ r1 r g2 hlast hlegal
            (fun op hop => ⟨(hops op (List.mem_append_right _ hop)).2,
              (hops op (List.mem_append_right _ hop)).1⟩) halive
        exact ⟨k1.toC7b.read, ⟨m, k1, k3⟩, k2, g3⟩

/-- With no segment this is `c07_reads_with_truncate`. -/
theorem c07_reads_with_truncate_of_across_restarts (cfg : Cfg) (steps : List Step) (r : RefLog)
    (hsteps : ∀ st ∈ steps, st.journal = true)
    (hlegal : RefLog.run {} (stepOps steps) = some r)
    (hops : ∀ op ∈ stepOps steps, op.small ∧ op.WF)
    (hfresh : AppendsFresh steps = true)
    (halive : ((Sys.fresh cfg).run steps).worker.pc ≠ .dead) :
    (∃ s, ((Sys.fresh cfg).run steps).store = some s ∧ s.st = r.state ∧
      (∀ a b, (s.read ((Sys.fresh cfg).run steps).fs a b).1
          = (r.read a b).map (fun e => ReadItem.ok e.1 e.2)) ∧
      s.iter ((Sys.fresh cfg).run steps).fs = r.entries.map (fun e => ReadItem.ok e.1 e.2)) ∧
    (∀ pre op post, steps = pre ++ Step.call op :: post →
      ∃ seg, (((Sys.fresh cfg).run pre).call op).1 = .ok seg) := by
  obtain ⟨h1, h2, _⟩ := c07_reads_across_restarts cfg [] steps r (by intro seg hs; cases hs) hsteps
    hlegal hops hfresh trivial halive
  exact ⟨h1, h2⟩

/-- **The reopening configurations are invisible to readers.** Two runs with
the same segments' steps and the same final history but DIFFERENT reopening
configurations (other cache limits, other chunk limits): the final stores report
the same state and return the same reads and the same snapshot. -/
theorem c07r_reopen_cfgs_invisible (cfg : Cfg) (segs1 segs2 : List (List Step × Cfg)) (last : List Step)
    (r : RefLog)
    (hsame : segs1.map (·.1) = segs2.map (·.1))
    (hsegs : ∀ seg ∈ segs1, ∀ st ∈ seg.1, st.journal = true)
    (hlast : ∀ st ∈ last, st.journal = true)
    (hlegal : RefLog.run {} (cycleOps segs1 ++ stepOps last) = some r)
    (hops : ∀ op ∈ cycleOps segs1 ++ stepOps last, op.small ∧ op.WF)
    (hfresh : AppendsFresh (cycleStepsC7c segs1 ++ last) = true)
    (hclean1 : CleanCycles (Sys.fresh cfg) segs1) (hclean2 : CleanCycles (Sys.fresh cfg) segs2)
    (halive1 : (((Sys.fresh cfg).runCycles segs1).run last).worker.pc ≠ .dead)
    (halive2 : (((Sys.fresh cfg).runCycles segs2).run last).worker.pc ≠ .dead) :
    let y1 := ((Sys.fresh cfg).runCycles segs1).run last
    let y2 := ((Sys.fresh cfg).runCycles segs2).run last
    ∃ s1 s2, y1.store = some s1 ∧ y2.store = some s2 ∧ s1.st = s2.st ∧
      (∀ a b, (s1.read y1.fs a b).1 = (s2.read y2.fs a b).1) ∧ s1.iter y1.fs = s2.iter y2.fs := by
  intro y1 y2
  have hsteps : ∀ (a b : List (List Step × Cfg)), a.map (·.1) = b.map (·.1) →
      cycleStepsC7c a = cycleStepsC7c b ∧ cycleOps a = cycleOps b := by
    intro a
    induction a with
    | nil =>
      intro b hb
      cases b with
      | nil => exact ⟨rfl, rfl⟩
      | cons x b' => cases hb
    | cons x a' ih =>
      intro b hb
      cases b with
      | nil => cases hb
      | cons x' b' =>
        simp only [List.map_cons, List.cons.injEq] at hb
        obtain ⟨k1, k2⟩ := ih b' hb.2
        simp only [cycleStepsC7c, cycleOps, hb.1, k1, k2, and_self]
  obtain ⟨e1, e2⟩ := hsteps segs1 segs2 hsame
  have hsegs2 : ∀ seg ∈ segs2, ∀ st ∈ seg.1, st.journal = true := by
    intro seg hseg st hst
    have : seg.1 ∈ segs2.map (·.1) := List.mem_map.mpr ⟨seg, hseg, rfl⟩
    rw [← hsame] at this
    obtain ⟨seg', hseg', he⟩ := List.mem_map.mp this
    exact hsegs seg' hseg' st (by rw [he]; exact hst)
  obtain ⟨⟨s1, hs1, hst1, hrd1, hit1⟩, _⟩ :=
    c07_reads_across_restarts cfg segs1 last r hsegs hlast hlegal hops hfresh hclean1 halive1
  obtain ⟨⟨s2, hs2, hst2, hrd2, hit2⟩, _⟩ :=
    c07_reads_across_restarts cfg segs2 last r hsegs2 hlast (by rw [← e2]; exact hlegal)
      (by rw [← e2]; exact hops) (by rw [← e1]; exact hfresh) hclean2 halive2
  exact ⟨s1, s2, hs1, hs2, hst1.trans hst2.symm, fun a b => (hrd1 a b).trans (hrd2 a b).symm,
    hit1.trans hit2.symm⟩

/-! ### 4. GOAL 3: crash recovery -/

/-- What `CrashReadInvC7c y r W A E K m` is: the crash invariant of C05
(`c05_crashInv_spec`), the journal-freshness invariant `FSysC7c y r W m`, and the
read invariant `ReadInvC7c y r m`.

`FSysC7c` (Proofs/ReadRestartJournal.lean, ReadRestartFresh.lean) says that the
journal of the store with ALL chunks dropped so far put back is a FRESH journal
with ghost value `m`: it starts with a `State` record and after it every `Append`
record carries an id above the largest id appended before it and above `purged`,
every further `State` record (chunk heads, user data) keeps `last` and `purged`.
It is a property of the chunk FILES, so it survives a crash: the journal `open`
replays on a crash image is a chunk-aligned segment of it, cut at a record
boundary. From it the closed-chunk clause of `ReadInvC7c` is read off for the
recovered chunk table (`closedOK_of_journal_C7c`). -/
theorem c07r_crashReadInv_spec (y : Sys) (r : RefLog) (W : List Op) (A E K : Nat) (m : Option LogId) :
    CrashReadInvC7c y r W A E K m ↔
      CrashInvC5b y r W A E K ∧ FSysC7c y r W m ∧ ReadInvC7c y r m := Iff.rfl

/-- It holds for a freshly opened store. -/
theorem c07r_crashReadInv_fresh (cfg : Cfg) : CrashReadInvC7c (Sys.fresh cfg) {} [] 0 0 0 none :=
  fresh_crashReadInv_C7c cfg

/-- **Kept by `AppendsFresh` histories** from ANY state that satisfies it (e.g. a
recovered store): calls legal and accepted by the reference log (well-formed,
small) whose appended ids are above the ghost value `m`, flushes, worker steps of
any outcome, `workerIdle`, `drain`, worker alive at the end. Every call returns
`ok`. -/
theorem c07r_crashReadInv_history (steps : List Step) (y : Sys) (r r' : RefLog) (W : List Op)
    (A E K : Nat) (m m' : Option LogId) (h : CrashReadInvC7c y r W A E K m)
    (hsteps : ∀ st ∈ steps, st.journal = true)
    (hr : r.run (stepOps steps) = some r') (hwf : ∀ op ∈ stepOps steps, op.WF ∧ op.small)
    (hfr : freshOpsC7b m (stepOps steps) = some m')
    (hnd : (y.run steps).worker.pc ≠ .dead) :
    CrashReadInvC7c (y.run steps) r' (W ++ expandOps r (stepOps steps)) (y.ackRun steps A) E K m' ∧
    ∀ pre op post, steps = pre ++ Step.call op :: post → ∃ seg, ((y.run pre).call op).1 = .ok seg :=
  run_crashReadInv_C7c steps y r r' W A E K m m' h hsteps hr hwf hfr hnd

/-- **GOAL 3, from the invariants: crash recovery re-establishes the read
invariant.** `y` satisfies `CrashReadInvC7c` (a state reached by `AppendsFresh`
histories and crash + recovery rounds); `img` is a crash image of its directory
without torn predecessor (the hypothesis of C05, finding D11); `cfg'` is ANY
configuration with `truncate = true` — any cache limits, 0 included. Then `open`
succeeds, and with `y2` the system it builds there are `n`, `r'`, `A'`, `m''`
such that the first `n` entry-level writes reach `r'` (`n` covers the tracked write
count `K` if the tracked position `E` is acknowledged), `m'' ≤ m`, and `y2`
satisfies `CrashReadInvC7c` again — for `r'`, the first `n` writes and `m''` — and
is clean. In particular (`ReadInvC7c y2 r' m''`) every read of the recovered store
returns exactly `r'`'s entries — whether recovery reused the newest chunk (its
entries are resident), cut a torn tail and started a fresh chunk, or removed a
chunk file without a complete record. -/
theorem c07_crash_recovery_keeps_read_invariant {y : Sys} {r : RefLog} {W : List Op} {A E K : Nat}
    {m : Option LogId} (h : CrashReadInvC7c y r W A E K m) (img : Fs) (hc : CrashImage y.fs img)
    (hnt : NoTornPredecessor img) (cfg' : Cfg) (htr : cfg'.truncate = true) :
    let y2 := (({ fs := img, cfg := cfg' } : Sys).open).2.1
    (({ fs := img, cfg := cfg' } : Sys).open).1 = .ok () ∧
    ∃ s' n r' A' m'', y2.store = some s' ∧ RefLog.run {} (W.take n) = some r' ∧ (E ≤ A → K ≤ n) ∧
      optLe m'' m = true ∧
      CrashReadInvC7c y2 r' (W.take n) A' s'.openEnd n m'' ∧ CSys y2 r' ∧ y2.Clean ∧ s'.cfg = cfg' ∧
      s'.st = r'.state ∧
      (∀ a b, (s'.read y2.fs a b).1 = (r'.read a b).map (fun e => ReadItem.ok e.1 e.2)) ∧
      s'.iter y2.fs = r'.entries.map (fun e => ReadItem.ok e.1 e.2) := by
  intro y2
  obtain ⟨h1, h2, _⟩ := h
  obtain ⟨s', w', fs', evs, n, r', A', m'', q1, q2, q3, q4, q5, q6, q7, ⟨c1, c2, c3, c4⟩, q8⟩ :=
    recover_readInv_C7c h1 h2 hc hnt cfg' htr
  have hopen := open_eq_recovered_C5b q1
  have hy2 : y2 = recoveredSysC5b cfg' s' w' fs' := by
    show (({ fs := img, cfg := cfg' } : Sys).open).2.1 = _
    rw [hopen]
  obtain ⟨s1, hs1, hst, hrd, hit⟩ := q5.toC7b.read
  have : s1 = s' := by
    simp only [recoveredSysC5b, Option.some.injEq] at hs1; exact hs1.symm
  subst this
  refine ⟨by rw [hopen], s1, n, r', A', m'', by rw [hy2]; rfl, q2, q3, q6,
    by rw [hy2]; exact ⟨q4, q7, q5⟩, by rw [hy2]; exact q4.csys, ?_, q8, hst, ?_, ?_⟩
  · rw [hy2]; exact ⟨s1, rfl, c1, c2, c3, c4⟩
  · rw [hy2]; exact hrd
  · rw [hy2]; exact hit

/-- **GOAL 3, for histories from a freshly opened store** (the hypotheses of
`c05_recovered_store_is_consistent`, plus `AppendsFresh`). The history is split as
`pre ++ post` (think of `pre` as the history up to an acknowledged flush). `img`
is a crash image of the final directory without torn predecessor,
`cfg'.truncate = true`, ANY cache limits. Then `open` returns `ok`, and with `y2`
the system it builds there are `n`, `r'`, `m''` such that the first `n` entry-level
writes of the history reach `r'`, `n` covers every write issued before a point of
the history whose journal end is acknowledged, and the recovered store reports
`r'`'s state and returns exactly `r'`'s entries — original payloads, no error — for
every `read(a, b)` and for the snapshot iterator. Moreover `y2` satisfies the
invariants (`CrashReadInvC7c`, `CSys`, clean), so the theorem applies again to
every `AppendsFresh` continuation (`c07_reads_after_recovery_continue`). -/
theorem c07_reads_after_crash_recovery (cfg cfg' : Cfg) (pre post : List Step) (r : RefLog)
    (hsteps : ∀ st ∈ pre ++ post, st.journal = true)
    (hlegal : RefLog.run {} (stepOps (pre ++ post)) = some r)
    (hwf : ∀ op ∈ stepOps (pre ++ post), op.WF ∧ op.small)
    (hfresh : AppendsFresh (pre ++ post) = true)
    (halive : ((Sys.fresh cfg).run (pre ++ post)).worker.pc ≠ .dead)
    (img : Fs) (hc : CrashImage ((Sys.fresh cfg).run (pre ++ post)).fs img)
    (htr : cfg'.truncate = true) (hnt : NoTornPredecessor img) :
    let W := expandOps {} (stepOps (pre ++ post))
    let A := (Sys.fresh cfg).ackRun (pre ++ post) 0
    let y2 := (({ fs := img, cfg := cfg' } : Sys).open).2.1
    (({ fs := img, cfg := cfg' } : Sys).open).1 = .ok () ∧
    ∃ s' n r' A' m m'', y2.store = some s' ∧ RefLog.run {} (W.take n) = some r' ∧
      (∀ s1, ((Sys.fresh cfg).run pre).store = some s1 → s1.openEnd ≤ A →
        (expandOps {} (stepOps pre)).length ≤ n) ∧
      freshOpsC7b none (stepOps (pre ++ post)) = some m ∧ optLe m'' m = true ∧
      CrashReadInvC7c y2 r' (W.take n) A' s'.openEnd n m'' ∧ CSys y2 r' ∧ y2.Clean ∧ s'.cfg = cfg' ∧
      s'.st = r'.state ∧
      (∀ a b, (s'.read y2.fs a b).1 = (r'.read a b).map (fun e => ReadItem.ok e.1 e.2)) ∧
      s'.iter y2.fs = r'.entries.map (fun e => ReadItem.ok e.1 e.2) := by
  intro W A y2
  unfold AppendsFresh at hfresh
  cases hm : freshOpsC7b none (stepOps (pre ++ post)) with
  | none => rw [hm] at hfresh; cases hfresh
  | some m =>
    obtain ⟨s1, hs1, hci⟩ := reach_CrashInv_at_C5b cfg pre post r hsteps hlegal hwf halive
    have hF : FSysC7c ((Sys.fresh cfg).run (pre ++ post)) r W m := by
      have := run_FSys_C7c (pre ++ post) (Sys.fresh cfg) {} r [] none m (fresh_FSys_C7c cfg) hsteps
        hlegal hwf halive hm
      simpa using this
    have hR : ReadInvC7c ((Sys.fresh cfg).run (pre ++ post)) r m :=
      (run_readInv_C7c (pre ++ post) (Sys.fresh cfg) {} r none m (fresh_readInv_C7c cfg) hsteps hlegal
        (fun op hop => ⟨(hwf op hop).2, (hwf op hop).1⟩) hm halive).1
    obtain ⟨k1, s', n, r', A', m'', k2, k3, k4, k5, k6, k7, k8, k9, k10, k11, k12⟩ :=
      c07_crash_recovery_keeps_read_invariant ⟨hci, hF, hR⟩ img hc hnt cfg' htr
    refine ⟨k1, s', n, r', A', m, m'', k2, k3, ?_, rfl, k5, k6, k7, k8, k9, k10, k11, k12⟩
    intro s1' hs1' hle
    rw [hs1] at hs1'
    injection hs1' with hs1'
    subst hs1'
    exact k4 hle

/-- **Every `AppendsFresh` continuation after a recovery.** `y2` satisfies
`CrashReadInvC7c` for `r'` with ghost value `m''` (e.g. the recovered system of the
two theorems above). For every further history `more` of calls — legal and
accepted from `r'`, reaching `r2`; well-formed, small; their appended ids above
`m''`, e.g. above every id appended before the crash (`m'' ≤ m`) — flushes, worker
steps of any outcome, `workerIdle`, `drain`, with the worker alive at the end: the
final store reports `r2`'s state, every read and the snapshot iterator return
exactly `r2`'s entries, every call returned `ok`, and the invariant holds again
(so a further crash is covered as well). -/
theorem c07_reads_after_recovery_continue (y2 : Sys) (r' r2 : RefLog) (W : List Op) (A E K : Nat)
    (m m'' m2 : Option LogId) (more : List Step)
    (h : CrashReadInvC7c y2 r' W A E K m'') (hle : optLe m'' m = true)
    (hmore : ∀ st ∈ more, st.journal = true)
    (hlegal2 : r'.run (stepOps more) = some r2) (hwf2 : ∀ op ∈ stepOps more, op.WF ∧ op.small)
    (hfr : freshOpsC7b m (stepOps more) = some m2)
    (halive2 : (y2.run more).worker.pc ≠ .dead) :
    (∃ s2, (y2.run more).store = some s2 ∧ s2.st = r2.state ∧
      (∀ a b, (s2.read (y2.run more).fs a b).1 = (r2.read a b).map (fun e => ReadItem.ok e.1 e.2)) ∧
      s2.iter (y2.run more).fs = r2.entries.map (fun e => ReadItem.ok e.1 e.2)) ∧
    (∀ a op b, more = a ++ Step.call op :: b → ∃ seg, ((y2.run a).call op).1 = .ok seg) ∧
    ∃ m3, CrashReadInvC7c (y2.run more) r2 (W ++ expandOps r' (stepOps more)) (y2.ackRun more A) E K m3 := by
  obtain ⟨m3, hm3, _⟩ := freshOps_mono_C7c (stepOps more) m m'' m2 hle hfr
  obtain ⟨k1, k2⟩ := run_crashReadInv_C7c more y2 r' r2 W A E K m'' m3 h hmore hlegal2 hwf2 hm3 halive2
  exact ⟨k1.2.2.toC7b.read, k2, m3, k1⟩

/-! ### Non-vacuity -/

/-- The initial configuration: chunks rotate after five records, the payload
cache may hold nothing. -/
def c07rCfg0 : Cfg := { maxRecords := 5, cacheItems := 0, cacheCap := 0 }

/-- First segment: appends in term 1 fill chunk 0 (rotation), a truncation and
re-appends in term 2 go to chunk 148; flushes, a short write, `drain`; ends
clean. -/
def c07rSeg1 : List Step :=
  [ .call (.saveVote ⟨1, 7⟩),
    .call (.append [(⟨1, 0⟩, [1, 2, 3]), (⟨1, 1⟩, [4]), (⟨1, 2⟩, [5, 6])]),
    .flush none,
    .workerIdle,
    .call (.truncate 1),
    .call (.append [(⟨2, 1⟩, [9]), (⟨2, 2⟩, [8, 8])]),
    .flush none, .worker .ok, .worker (.short 3), .drain,
    .workerIdle ]

/-- The first reopening configuration: cache limits 0, other chunk limits. -/
def c07rCfg1 : Cfg := { maxRecords := 3, cacheItems := 0, cacheCap := 0 }

/-- Second segment (on the reopened store): one more append — the reused open
chunk is full under the new limit and rotates; ends clean. -/
def c07rSeg2 : List Step :=
  [ .call (.append [(⟨2, 3⟩, [4])]), .flush (some 1), .workerIdle ]

/-- The second reopening configuration: one cache entry, no bytes. -/
def c07rCfg2 : Cfg := { maxRecords := 4, cacheItems := 1, cacheCap := 0 }

/-- Final history: a truncation and a re-append in a higher term; not flushed
completely. -/
def c07rLast : List Step :=
  [ .call (.truncate 3), .call (.append [(⟨4, 3⟩, [1, 1])]), .flush none, .worker .ok ]

def c07rSegs : List (List Step × Cfg) := [(c07rSeg1, c07rCfg1), (c07rSeg2, c07rCfg2)]

/-- The hypotheses of `c07_reads_across_restarts` hold for two cycles and the
final history; the reference log ends with four live entries, three of them
(re-)appended after a truncation. -/
example :
    (∀ seg ∈ c07rSegs, ∀ st ∈ seg.1, st.journal = true) ∧
    (∀ st ∈ c07rLast, st.journal = true) ∧
    RefLog.run {} (cycleOps c07rSegs ++ stepOps c07rLast) = some
      { vote := some ⟨1, 7⟩, last := some ⟨4, 3⟩, committed := none, purged := none,
        entries := [(⟨1, 0⟩, [1, 2, 3]), (⟨2, 1⟩, [9]), (⟨2, 2⟩, [8, 8]), (⟨4, 3⟩, [1, 1])] } ∧
    (∀ op ∈ cycleOps c07rSegs ++ stepOps c07rLast, op.small ∧ op.WF) ∧
    AppendsFresh (cycleStepsC7c c07rSegs ++ c07rLast) = true ∧
    CleanCycles (Sys.fresh c07rCfg0) c07rSegs ∧
    (((Sys.fresh c07rCfg0).runCycles c07rSegs).run c07rLast).worker.pc ≠ .dead := by
  refine ⟨by decide, by decide, by decide, ?_, by decide, ?_, by decide +kernel⟩
  · intro op hop
    simp only [c07rSegs, c07rSeg1, c07rSeg2, c07rLast, cycleOps, stepOps, List.append_nil,
      List.cons_append, List.nil_append, List.mem_cons, List.not_mem_nil, or_false] at hop
    rcases hop with h | h | h | h | h | h | h <;> subst h <;>
      simp [Op.small, Op.WF, smallId, LogId.WF, bytesWF, U64, U32]
  · exact ⟨by decide +kernel, Sys.clean_of_cleanB (by decide +kernel), by decide +kernel,
      Sys.clean_of_cleanB (by decide +kernel), trivial⟩

/- The implementation side, computed by the model. Right after the FIRST
restart (cache limits 0): the open chunk 148 was reused; its two live entries
`(2, 1)`, `(2, 2)` are resident although the cache "may hold nothing" (the
boundary is `(1, 2)`, the closing `last` of chunk 0), entry `(1, 0)` of the closed
chunk 0 was evicted during replay and is served from the chunk file. -/
set_option maxRecDepth 100000 in
example :
    ∃ s, ((Sys.fresh c07rCfg0).runCycles [(c07rSeg1, c07rCfg1)]).store = some s ∧
      s.cfg = c07rCfg1 ∧ s.openId = 148 ∧ s.closed.map Closed.id = [0] ∧
      s.log.map (fun e => (e.2.id, e.2.chunk)) = [(⟨1, 0⟩, 0), (⟨2, 1⟩, 148), (⟨2, 2⟩, 148)] ∧
      s.cache.items = [(⟨2, 1⟩, [9]), (⟨2, 2⟩, [8, 8])] ∧
      s.cache.lastEvictable = some ⟨1, 2⟩ ∧
      (s.read ((Sys.fresh c07rCfg0).runCycles [(c07rSeg1, c07rCfg1)]).fs 0 10).1 =
        [ReadItem.ok ⟨1, 0⟩ [1, 2, 3], ReadItem.ok ⟨2, 1⟩ [9], ReadItem.ok ⟨2, 2⟩ [8, 8]] ∧
      (s.read ((Sys.fresh c07rCfg0).runCycles [(c07rSeg1, c07rCfg1)]).fs 0 10).2.miss = 1 := by
  refine ⟨_, rfl, ?_, ?_, ?_, ?_, ?_, ?_, ?_, ?_⟩ <;> decide +kernel

/- At the end of the whole run (two restarts, then the final history): the reads
are those of the reference log. -/
set_option maxRecDepth 100000 in
example :
    ∃ s, (((Sys.fresh c07rCfg0).runCycles c07rSegs).run c07rLast).store = some s ∧
      (s.read (((Sys.fresh c07rCfg0).runCycles c07rSegs).run c07rLast).fs 0 10).1 =
        [ReadItem.ok ⟨1, 0⟩ [1, 2, 3], ReadItem.ok ⟨2, 1⟩ [9], ReadItem.ok ⟨2, 2⟩ [8, 8],
          ReadItem.ok ⟨4, 3⟩ [1, 1]] ∧
      s.iter (((Sys.fresh c07rCfg0).runCycles c07rSegs).run c07rLast).fs =
        [ReadItem.ok ⟨1, 0⟩ [1, 2, 3], ReadItem.ok ⟨2, 1⟩ [9], ReadItem.ok ⟨2, 2⟩ [8, 8],
          ReadItem.ok ⟨4, 3⟩ [1, 1]] := by
  refine ⟨_, rfl, ?_, ?_⟩ <;> decide +kernel

/-! ### Non-vacuity: a crash image -/

/-- Chunks rotate after six records, the payload cache may hold nothing. -/
def c07rCrashCfg : Cfg := { maxRecords := 6, cacheItems := 0, cacheCap := 0 }

/-- Appends in term 1, a truncation (its record fills chunk 0: rotation to chunk
177), re-appends in term 2, an acknowledged flush; then one more append whose
record is only partly written (a short write of 7 of its 33 bytes, not synced). -/
def c07rCrashHist : List Step :=
  [ .call (.saveVote ⟨1, 7⟩),
    .call (.append [(⟨1, 0⟩, [1, 2, 3]), (⟨1, 1⟩, [4]), (⟨1, 2⟩, [5, 6])]),
    .flush none,
    .workerIdle,
    .call (.truncate 1),
    .call (.append [(⟨2, 1⟩, [9]), (⟨2, 2⟩, [8, 8])]),
    .flush (some 1), .workerIdle,
    .call (.append [(⟨2, 3⟩, [4])]), .flush none, .worker .ok, .worker (.short 7) ]

/-- The reopening configuration after the crash: cache limits 0. -/
def c07rCrashCfg' : Cfg := { maxRecords := 3, cacheItems := 0, cacheCap := 0 }

/-- The hypotheses of `c07_reads_after_crash_recovery` hold for this history
(with `pre` = everything up to the acknowledged flush), for the process-crash image
(the torn record survives as 7 bytes) and for the worst power-failure image (chunk
177 cut to its 117 durable bytes); chunk 0 has 177 bytes, all durable, the
acknowledged position 294 covers the start of the newest chunk. -/
example :
    (∀ st ∈ c07rCrashHist, st.journal = true) ∧
    (RefLog.run {} (stepOps c07rCrashHist)).isSome = true ∧
    (∀ op ∈ stepOps c07rCrashHist, op.WF ∧ op.small) ∧
    AppendsFresh c07rCrashHist = true ∧
    ((Sys.fresh c07rCrashCfg).run c07rCrashHist).worker.pc ≠ .dead ∧
    ((Sys.fresh c07rCrashCfg).run c07rCrashHist).fs.map
      (fun f => (f.id, f.data.length, f.durable, f.linked)) = [(0, 177, 177, true), (177, 124, 117, true)] ∧
    CrashImage ((Sys.fresh c07rCrashCfg).run c07rCrashHist).fs
      (procCrash ((Sys.fresh c07rCrashCfg).run c07rCrashHist).fs) ∧
    CrashImage ((Sys.fresh c07rCrashCfg).run c07rCrashHist).fs
      (powerCrash ((Sys.fresh c07rCrashCfg).run c07rCrashHist).fs) ∧
    NoTornPredecessor (procCrash ((Sys.fresh c07rCrashCfg).run c07rCrashHist).fs) ∧
    NoTornPredecessor (powerCrash ((Sys.fresh c07rCrashCfg).run c07rCrashHist).fs) ∧
    c07rCrashCfg'.truncate = true := by
  have hwf : ∀ op ∈ stepOps c07rCrashHist, op.WF ∧ op.small := by
    intro op hop
    simp only [c07rCrashHist, stepOps, List.mem_cons, List.not_mem_nil, or_false] at hop
    rcases hop with h | h | h | h | h <;> subst h <;>
      simp [Op.WF, Op.small, LogId.WF, bytesWF, smallId, U64, U32]
  have h1 := procCrash_image ((Sys.fresh c07rCrashCfg).run c07rCrashHist).fs (by decide +kernel)
  have h2 := powerCrash_image ((Sys.fresh c07rCrashCfg).run c07rCrashHist).fs (by decide +kernel)
  have hsome : ∃ s r, ((Sys.fresh c07rCrashCfg).run c07rCrashHist).store = some s ∧
      s.openId ≤ (Sys.fresh c07rCrashCfg).ackRun c07rCrashHist 0 ∧
      RefLog.run {} (stepOps c07rCrashHist) = some r := by
    cases hs : ((Sys.fresh c07rCrashCfg).run c07rCrashHist).store with
    | none => exact absurd hs (by decide +kernel)
    | some s =>
      cases hr : RefLog.run {} (stepOps c07rCrashHist) with
      | none => exact absurd hr (by decide +kernel)
      | some r =>
        refine ⟨s, r, rfl, ?_, rfl⟩
        have : (((Sys.fresh c07rCrashCfg).run c07rCrashHist).store.map Store.openId) = some 177 := by
          decide +kernel
        rw [hs] at this
        simp only [Option.map_some, Option.some.injEq] at this
        rw [this]
        decide +kernel
  obtain ⟨s, r, hs, hA, hr⟩ := hsome
  have key := fun img hc => c05_no_torn_predecessor_when_synced c07rCrashCfg c07rCrashHist r s
    (by decide +kernel) hr hwf (by decide +kernel) hs hA img hc
  exact ⟨by decide, by decide +kernel, hwf, by decide, by decide +kernel, by decide +kernel, h1, h2,
    key _ h1, key _ h2, rfl⟩

/- The conclusion, computed by the model. After the PROCESS crash `open` cuts the
torn tail of chunk 177 and creates the fresh chunk 294; the entry `(2, 3)` is lost
(it was never acknowledged); the three surviving entries are read back — `(1, 0)`
from the file of chunk 0 (evicted during replay), `(2, 1)` and `(2, 2)` still
resident (the boundary during the replay of chunk 177 was `(1, 0)`). -/
set_option maxRecDepth 100000 in
example :
    (({ fs := procCrash ((Sys.fresh c07rCrashCfg).run c07rCrashHist).fs, cfg := c07rCrashCfg' } : Sys).open).1
      = .ok () ∧
    ∃ s, (({ fs := procCrash ((Sys.fresh c07rCrashCfg).run c07rCrashHist).fs,
             cfg := c07rCrashCfg' } : Sys).open).2.1.store = some s ∧
      s.closed.map Closed.id = [0, 177] ∧ s.openId = 294 ∧
      s.cache.items = [(⟨2, 1⟩, [9]), (⟨2, 2⟩, [8, 8])] ∧
      (s.read (({ fs := procCrash ((Sys.fresh c07rCrashCfg).run c07rCrashHist).fs,
                  cfg := c07rCrashCfg' } : Sys).open).2.1.fs 0 10).1 =
        [ReadItem.ok ⟨1, 0⟩ [1, 2, 3], ReadItem.ok ⟨2, 1⟩ [9], ReadItem.ok ⟨2, 2⟩ [8, 8]] := by
  refine ⟨by decide +kernel, _, rfl, ?_, ?_, ?_, ?_⟩ <;> decide +kernel

/- After the worst POWER failure chunk 177 ends at a record boundary: `open`
reuses it as the open chunk (no file is touched); its two live entries are
resident although the cache limits are 0 (the boundary is `(1, 0)`, the closing
`last` of chunk 0), and the reads are the same. -/
set_option maxRecDepth 100000 in
example :
    ∃ s, (({ fs := powerCrash ((Sys.fresh c07rCrashCfg).run c07rCrashHist).fs,
             cfg := c07rCrashCfg' } : Sys).open).2.1.store = some s ∧
      s.closed.map Closed.id = [0] ∧ s.openId = 177 ∧
      s.log.map (fun e => (e.2.id, e.2.chunk)) = [(⟨1, 0⟩, 0), (⟨2, 1⟩, 177), (⟨2, 2⟩, 177)] ∧
      s.cache.items = [(⟨2, 1⟩, [9]), (⟨2, 2⟩, [8, 8])] ∧ s.cache.lastEvictable = some ⟨1, 0⟩ ∧
      (s.read (({ fs := powerCrash ((Sys.fresh c07rCrashCfg).run c07rCrashHist).fs,
                  cfg := c07rCrashCfg' } : Sys).open).2.1.fs 0 10).1 =
        [ReadItem.ok ⟨1, 0⟩ [1, 2, 3], ReadItem.ok ⟨2, 1⟩ [9], ReadItem.ok ⟨2, 2⟩ [8, 8]] := by
  refine ⟨_, rfl, ?_, ?_, ?_, ?_, ?_, ?_⟩ <;> decide +kernel

/-! ### `AppendsFresh` cannot be dropped: a restart is one more trigger of the known finding -/

/-- The history of the known finding (D2, `c07Counter`): `(1, 1)` is re-appended
after `(1, 2)` had been appended; here with chunks of four records (the three
appends fill chunk 0, closing `last = (1, 2)`; the truncation and the re-append
go to chunk 117) and the DEFAULT cache limits, ending clean. -/
def c07rCounter : List Step :=
  [ .call (.append [(⟨1, 0⟩, [1]), (⟨1, 1⟩, [2]), (⟨1, 2⟩, [3])]),
    .call (.truncate 1),
    .call (.append [(⟨1, 1⟩, [9])]),
    .flush none, .workerIdle ]

/- All hypotheses of `c07_reads_across_restarts` except `AppendsFresh` hold. With
the default limits the running store never evicts anything and reads correctly.
After a CLEAN restart with cache limits 0 the re-appended entry `(1, 1)` — in the
reused open chunk 117, at or below the boundary `(1, 2)` that `open` publishes —
has been evicted during replay, and `read` returns `notFound` for it. (With one
cache slot it survives.) Same root cause as `c07Counter`; the restart is one more
way to reach it, also for stores whose cache never was under pressure. -/
set_option maxRecDepth 100000 in
example :
    AppendsFresh c07rCounter = false ∧
    (∀ st ∈ c07rCounter, st.journal = true) ∧
    (RefLog.run {} (stepOps c07rCounter)).map (·.entries) = some [(⟨1, 0⟩, [1]), (⟨1, 1⟩, [9])] ∧
    ((Sys.fresh { maxRecords := 4 }).run c07rCounter).cleanB = true ∧
    (((Sys.fresh { maxRecords := 4 }).run c07rCounter).store.map
      (fun s => (s.read ((Sys.fresh { maxRecords := 4 }).run c07rCounter).fs 0 10).1))
      = some [ReadItem.ok ⟨1, 0⟩ [1], ReadItem.ok ⟨1, 1⟩ [9]] ∧
    ((((Sys.fresh { maxRecords := 4 }).run c07rCounter).step .drop).step
        (.openWith { maxRecords := 4, cacheItems := 0, cacheCap := 0 })).store.map
      (fun s => ((s.read ((Sys.fresh { maxRecords := 4 }).run c07rCounter).fs 0 10).1,
        s.cache.lastEvictable, s.openId, s.log.map (fun e => (e.2.id, e.2.chunk))))
      = some ([ReadItem.ok ⟨1, 0⟩ [1], ReadItem.err .notFound], some ⟨1, 2⟩, 117,
          [(⟨1, 0⟩, 0), (⟨1, 1⟩, 117)]) ∧
    ((((Sys.fresh { maxRecords := 4 }).run c07rCounter).step .drop).step
        (.openWith { maxRecords := 4, cacheItems := 1 })).store.map
      (fun s => (s.read ((Sys.fresh { maxRecords := 4 }).run c07rCounter).fs 0 10).1)
      = some [ReadItem.ok ⟨1, 0⟩ [1], ReadItem.ok ⟨1, 1⟩ [9]] := by
  refine ⟨by decide, by decide, by decide, ?_, ?_, ?_, ?_⟩ <;> decide +kernel

end RaftLog
