import RaftLogModel.Props.C14
open RaftLog
#print axioms c14_worker_terminates_measure
#print axioms c14_fuel_bound
#print axioms c14_fuel_sufficient
#print axioms c14_todoOK_reachable
#print axioms c14_todoOK_invariant
#print axioms c14_worker_terminates
#print axioms c14_worker_terminates_any
#print axioms c14_drop_state
#print axioms c14_after_drop_nothing_moves
#print axioms c14_drop_quiesces
#print axioms c14_drop_none
#print axioms c14_drop_quiesces_reachable
#print axioms c14_drop_quiesces_system
