import RaftLogModel.Props.C14
