import RaftLogModel.Props.C02
open RaftLog
#print axioms c02_smApply_cache_free
#print axioms c02_smApply_independent_of_cache
#print axioms c02_replay_spec
#print axioms c02_replay_fresh
#print axioms c02_replay_call
#print axioms c02_replay_flush
#print axioms c02_replay_worker
#print axioms c02_replay_workerIdle
#print axioms c02_replay_drain
#print axioms c02_replay_invariant
#print axioms c02_linked_files
#print axioms c02_syncAll_durable
#print axioms c02_syncEvs_only
#print axioms c02_restart_step
#print axioms c02_clean_restart
#print axioms c02_refinement_continues
#print axioms c02_history_after_restart
#print axioms c02_removed_needed
#print axioms c02_cycles
#print axioms c02_restart_refines
#print axioms c02_cycles_refines
