import RaftLogModel.Props.C02
