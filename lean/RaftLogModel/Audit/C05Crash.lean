import RaftLogModel.Props.C05Crash
open RaftLog
#print axioms c05_noTornPredecessor_spec
#print axioms c05_noTornPredecessor_records
#print axioms c05_open_succeeds_partial
#print axioms c05_sys_open_succeeds_partial
#print axioms c05_rotation_gap_witness
#print axioms c05_no_torn_predecessor_when_synced
#print axioms c05_open_succeeds_when_acked
#print axioms c05_recovered_store_is_consistent
#print axioms c05_recovered_payloads
#print axioms c05_recovered_accepts_history
#print axioms c05_flush_is_acknowledged
#print axioms c05_recovered_restart_is_identity
#print axioms c05_recovered_cycles
#print axioms c05_open_effect_spec
#print axioms c05_recovery_crash_is_recoverable
#print axioms c05_crashInv_spec
#print axioms c05_crashInv_fresh
#print axioms c05_crashInv_history
#print axioms c05_crashInv_retarget
#print axioms c05_crashInv_recovered
#print axioms c05_crashInv_crash_prefix
#print axioms c05_crashInv_no_torn_when_acked
#print axioms c05_crashInv_recovery_crash
#print axioms c05_two_crashes
#print axioms c05_recovery_never_panics
#print axioms c05_crashInv_never_panics
