import RaftLogModel.Props.C03
open RaftLog
#print axioms c03_cutOf_spec
#print axioms c03_crashImage_files
#print axioms c03_crash_images_exist
#print axioms c03_parsesToPrefix_spec
#print axioms c03_file_is_record_prefix
#print axioms c03_parsesLo_spec
#print axioms c03_witnesses_spec
#print axioms c03_recovered_is_journal_prefix_partial
#print axioms c03_recovered_is_journal_prefix_partial'
#print axioms c03_recovered_sys_open
#print axioms c03_removals_needed
#print axioms c03_expansion_reaches_same
#print axioms c03_prefix_is_a_history_prefix_partial
#print axioms c03_marker_needed
#print axioms c03_marker_zero_of_no_drop
#print axioms c03_acked_is_durable
#print axioms c03_ack_only_raises
#print axioms c03_positive_callback_acks
#print axioms c03_flush_sends_journal_end
#print axioms c03_acked_flush
#print axioms c03_crash_prefix_partial
#print axioms c03_crash_prefix_no_drop
#print axioms c03_acked_writes_survive_partial
#print axioms c03_no_drop_facts
#print axioms c03_acked_writes_survive_no_drop
