import RaftLogModel.Props.C03
