import RaftLogModel.Props.C13
open RaftLog
#print axioms c13_refused_open_is_noop
#print axioms c13_refused_dump_is_noop
#print axioms c13_attempt_while_owned_refused
#print axioms c13_at_most_one_owner
#print axioms c13_after_drop_unlocked
#print axioms c13_free_lock_not_refused
#print axioms c13_after_dump_drop_unlocked
