import RaftLogModel.Props.ReachAny
open RaftLog
#print axioms reachLIFT_settled
#print axioms reachLIFT_any_history
#print axioms reachLIFT_of_any_history
