import RaftLogModel.Props.C16
open RaftLog
#print axioms c16_call_no_panic_partial
#print axioms c16_fresh_panicFree
#print axioms c16_history_no_panic_partial
#print axioms c16_read_inverted_empty
#print axioms c16_truncate_zero_is_error
#print axioms c16_u64_max_is_refused
#print axioms c16_u64_max_is_refused'
#print axioms c16_u64_max_is_refused_witness
#print axioms c16_internal_overflow_branch
