import RaftLogModel.Props.C16
