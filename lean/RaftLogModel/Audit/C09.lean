import RaftLogModel.Props.C09
