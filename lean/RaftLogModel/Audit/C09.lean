import RaftLogModel.Props.C09
open RaftLog
#print axioms c09_checksum_mismatch_invalid
#print axioms c09_invalid_reported
#print axioms c09_wrong_sum_is_invalid
#print axioms c09_wrong_sum_chunk
#print axioms mutated_length
#print axioms c09_chunk_byte_altered
#print axioms c09_chunk_byte_altered_not_original
#print axioms c09_missing_middle_chunk
#print axioms c09_missing_middle_chunk_two
#print axioms c09_open_gap
#print axioms decRecord_bad_sum
#print axioms openLoop_gap
#print axioms openLoop_clean_step
