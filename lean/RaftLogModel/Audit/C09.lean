import RaftLogModel.Props.C09
open RaftLog
#print axioms uncrcBit_crcBit
#print axioms crcBit_uncrcBit
#print axioms crcBit_injective
#print axioms crcByte_injective_left
#print axioms crcByte_injective_right
#print axioms crc32_single_byte
#print axioms c09_crcBit_bijective
#print axioms c09_crcByte_injective
#print axioms c09_crc32_single_byte
#print axioms c09_body_byte_detected
#print axioms c09_mutated_shape
#print axioms c09_body_byte_decode_rejected
#print axioms c09_body_byte_decode_extent
#print axioms c09_sum_bytes_detected
#print axioms c09_crc32_check_value
