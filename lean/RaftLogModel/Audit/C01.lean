import RaftLogModel.Props.C01
