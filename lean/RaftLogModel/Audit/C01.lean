import RaftLogModel.Props.C01
open RaftLog
#print axioms c01_step
#print axioms c01_spec_wf
#print axioms c01_read
#print axioms c01_iter
#print axioms c01_state
#print axioms c01_refines_store
#print axioms c01_refines
#print axioms c01_calls_ok
#print axioms c01_chunking_invisible
