import RaftLogModel.Props.C06Sys
open RaftLog
#print axioms c06_settle_idempotent
#print axioms c06_step_settled
#print axioms c06_reachable_settled
#print axioms c06_sys_rejected_is_identity
#print axioms c06_sys_rejected_single
#print axioms c06_sys_rejected_is_identity_reachable
#print axioms c06_rejected_invisible_forever
#print axioms c06_rejected_invisible_in_history
#print axioms c06_sys_batch_rejected_prefix
#print axioms c06_same_verdict
#print axioms c06_never_rejected
#print axioms c06_sys_same_verdict
#print axioms c06_sys_same_verdict_csys
#print axioms c06_sys_same_verdict_sysRef
#print axioms Sys.runCycles_settled
#print axioms c06_sys_same_verdict_reachable
#print axioms c06_sys_same_verdict_c01
#print axioms c06_sys_batch_same_verdict
#print axioms c06_same_verdict_any
#print axioms c06_sys_same_verdict_any
