import RaftLogModel.Props.C08
open RaftLog
#print axioms c08_unlink_only_after_good_sync
#print axioms c08_removal_starts_only_after_good_sync
#print axioms c08_lastSyncFailed
#print axioms c08_unlink_in_list_order
#print axioms c08_postponed_in_request_order
#print axioms c08_popObsolete_prefix
