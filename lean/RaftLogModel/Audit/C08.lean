import RaftLogModel.Props.C08
