import RaftLogModel.Props.C07Restart
open RaftLog
#print axioms c07r_readInv_spec
#print axioms c07r_inv_fresh
#print axioms c07r_inv_call
#print axioms c07r_inv_flush
#print axioms c07r_inv_worker
#print axioms c07r_inv_workerIdle
#print axioms c07r_inv_drain
#print axioms c07r_inv_history
#print axioms c07r_read_of_inv
#print axioms c07_clean_restart_keeps_read_invariant
#print axioms c07_clean_restart_reads
#print axioms c07r_after_restart_resident_or_on_disk
#print axioms c07r_appendsFresh_cycles
#print axioms c07r_inv_cycles
#print axioms c07_reads_across_restarts
#print axioms c07_reads_with_truncate_of_across_restarts
#print axioms c07r_reopen_cfgs_invisible
#print axioms c07r_crashReadInv_spec
#print axioms c07r_crashReadInv_fresh
#print axioms c07r_crashReadInv_history
#print axioms c07_crash_recovery_keeps_read_invariant
#print axioms c07_reads_after_crash_recovery
#print axioms c07_reads_after_recovery_continue
#print axioms c07_reads_across_restarts_from
