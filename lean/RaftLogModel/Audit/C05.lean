import RaftLogModel.Props.C05
