import RaftLogModel.Props.C05
open RaftLog
#print axioms c05_open_no_panic_partial
#print axioms c05_open_no_panic_partial'
#print axioms c05_fsSmall_of_all
#print axioms c05_reuse_has_last
#print axioms c05_open_panics_on_max_index
#print axioms c05_headless_newest_is_recreated
#print axioms c05_headless_only_file
#print axioms openLoop_no_panic
#print axioms openStore_no_panic
#print axioms replay_small
#print axioms openStore_fresh
#print axioms Loads.openLoop_append
