import RaftLogModel.Props.C15
