import RaftLogModel.Props.C15
open RaftLog
#print axioms c15_accounting_exact
#print axioms c15_over_limit_only_pinned
#print axioms c15_drained
