import RaftLogModel.Props.C11
