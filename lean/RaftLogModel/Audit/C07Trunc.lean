import RaftLogModel.Props.C07Trunc
open RaftLog
#print axioms c07t_appendsFresh_iff
#print axioms c07t_readInv_spec
#print axioms c07t_inv_fresh
#print axioms c07t_inv_call
#print axioms c07t_inv_truncate
#print axioms c07t_inv_flush
#print axioms c07t_inv_worker
#print axioms c07t_inv_workerIdle
#print axioms c07t_inv_drain
#print axioms c07t_read_of_inv
#print axioms c07t_resident_or_on_disk
#print axioms c07t_inv_reachable
#print axioms c07_reads_with_truncate
#print axioms c07t_appendsFresh_of_noTruncate
#print axioms c07_reads_partial_of_with_truncate
#print axioms c07t_worker_steps_invisible
#print axioms c07t_cache_limits_invisible
