import RaftLogModel.Props.C16All2
open RaftLog
#print axioms c16_call_no_panic
#print axioms c16_panicFree_spec
#print axioms c16_history_no_panic_store
#print axioms c16_history_no_panic
#print axioms c16_reachable_panicFree
#print axioms c16_open_no_panic_history_all
#print axioms c16_recovery_never_panics
#print axioms c16_call_keeps_small_journal
#print axioms call_ok_D12
#print axioms call_SJ_D12
#print axioms run_RecInv_D12
#print axioms RecInv_D12.crash_fsSmall
