import RaftLogModel.Props.C16Read
open RaftLog
#print axioms c16_lookup_trichotomy
#print axioms c16_read_no_panic_of_inv
#print axioms c16_read_no_panic_reachable
#print axioms c16_read_no_panic_c07
#print axioms c16_read_no_panic_cycles
#print axioms c16_open_no_panic_of_inv
#print axioms c16_open_no_panic_clean
#print axioms cycles_smallSys
#print axioms c16_open_no_panic_of_small
#print axioms c16_open_no_panic_reachable
#print axioms c16_open_no_panic_history
