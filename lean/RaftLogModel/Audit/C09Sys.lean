import RaftLogModel.Props.C09Sys
open RaftLog
#print axioms c09_sys_rm_spec
#print axioms c09_sys_missing_middle_chunk_inv
#print axioms c09_sys_missing_middle_chunk
#print axioms c09_sys_missing_middle_chunk_reach
#print axioms c09_valuePos_spec
#print axioms c09_valuePos_append
#print axioms c09_value_byte_decode_invalid
#print axioms c09_chunk_value_byte_invalid
#print axioms c09_sys_setByte_spec
#print axioms c09_sys_value_byte_altered_inv
#print axioms c09_sys_value_byte_altered
#print axioms c09_sys_value_byte_altered_reach
#print axioms crc_onebyteC9S
#print axioms encTB_setC9S
