import RaftLogModel.Props.C11Journal
open RaftLog
#print axioms c11_journal_spec
#print axioms c11_journal_fresh
#print axioms c11_journal_call
#print axioms c11_call_never_exists
#print axioms c11_journal_flush
#print axioms c11_journal_worker
#print axioms c11_journal_workerIdle
#print axioms c11_journal_drain
#print axioms c11_journal_invariant
#print axioms c11_segment_holds_record
#print axioms c11_quiescent_files_exact
