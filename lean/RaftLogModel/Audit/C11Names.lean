import RaftLogModel.Props.C11Names
open RaftLog
#print axioms c11_name_roundtrip
#print axioms c11_name_length
#print axioms c11_name_injective
#print axioms c11_name_order
