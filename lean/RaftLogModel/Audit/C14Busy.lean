import RaftLogModel.Props.C14Busy
open RaftLog
#print axioms c14_busy_drop_eq_idle_drop
#print axioms c14_busy_drop_events
#print axioms c14_busy_senderAlive
#print axioms c14_busy_nothing_postponed
#print axioms c14_busy_restart_step
#print axioms c14_busy_drop_then_open_idle
#print axioms c14_busy_drop_then_open
#print axioms c14_after_busy_drop_nothing_changes
#print axioms c14_busy_refinement_continues
#print axioms c14_busy_history_after_restart
#print axioms c14_busy_postponed_needed
