import RaftLogModel.Props.C10
