import RaftLogModel.Props.C10
open RaftLog
#print axioms c10_encRecord_length_pos
#print axioms parse_encAll
#print axioms parse_cut
#print axioms parse_cut_at
#print axioms parse_zero_tail
#print axioms c10_crc32_zeros_ne_zero
#print axioms c10_clean_open
#print axioms c10_cut_truncate
#print axioms c10_zero_truncate
#print axioms c10_open_truncates_and_creates
#print axioms c10_open_single_chunk'
#print axioms c10_open_single_chunk
#print axioms parseChunk_encAll_append
#print axioms parseChunk_canon
#print axioms parseLoop_fuel
#print axioms decRecord_zeros_eof
#print axioms decRecord_zeros_invalid
#print axioms openChunk_of_parse
