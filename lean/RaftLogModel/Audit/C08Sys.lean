import RaftLogModel.Props.C08Sys
open RaftLog
#print axioms c08_abut_spec
#print axioms c08_remaining_files_gap_free_suffix
#print axioms c08_unlinks_oldest_first
#print axioms c08_index_entries_in_linked_chunks
#print axioms c08_unlink_only_after_purge_durable
#print axioms c08_no_failed_sync_clean
#print axioms c08_flushed_idle_gone
