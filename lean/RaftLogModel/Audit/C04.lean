import RaftLogModel.Props.C04
open RaftLog
#print axioms c04_wf_invariant
#print axioms c04_covered_step
#print axioms c04_dying_step
#print axioms c04_covered_rotate
#print axioms c04_covered_flush
#print axioms c04_ack_only_from_syncNew
#print axioms c04_ack_means_synced
#print axioms c04_negative_after_failed_sync
#print axioms c04_step_cbs
#print axioms c04_cbs_in_request_order
#print axioms c04_cb_at_most_once
#print axioms c04_exactly_once_no_fault_measure
#print axioms c04_exactly_once_no_fault
#print axioms c04_wf_reachable
#print axioms c04_covered_sys
