import RaftLogModel.Props.C04
