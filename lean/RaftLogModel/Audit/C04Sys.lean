import RaftLogModel.Props.C04Sys
open RaftLog
#print axioms c04_positive_callback_means_durable
