import RaftLogModel.Props.C04Order
open RaftLog
#print axioms c04_sys_callback_accounting_partial
#print axioms c04_sys_callback_accounting_ascending
#print axioms c04_sys_callback_accounting_no_death
#print axioms c04_sys_callback_accounting_no_eio
#print axioms c04_sys_at_most_once
#print axioms c04_sys_request_order_partial
#print axioms c04_sys_request_order
#print axioms c04_sys_exactly_once_no_fault
#print axioms Sys.step_acctC4S
#print axioms Sys.run_acctC4S
#print axioms Sys.run_splitC4S
