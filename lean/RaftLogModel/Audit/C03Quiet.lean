import RaftLogModel.Props.C03Quiet
open RaftLog
#print axioms c03_quiet_spec
#print axioms c03_quiet_linked
#print axioms c03_marker_invariant
#print axioms c03_pcSafe_spec
#print axioms c03_marker_acked_when_quiet
#print axioms c03_crash_prefix_quiet
#print axioms c03_acked_writes_survive_quiet
#print axioms c03_linked_files
#print axioms c03_ghost_store_spec
#print axioms c03_recovered_is_linked_journal_prefix
#print axioms c03_crash_prefix
#print axioms c03_acked_writes_survive
