import RaftLogModel.Props.C12
open RaftLog
#print axioms c12_roundtrip
#print axioms c12_consumed
#print axioms c12_canonical
#print axioms c12_prefix_eof
#print axioms c12_total
