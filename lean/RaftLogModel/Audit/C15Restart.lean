import RaftLogModel.Props.C15Restart
open RaftLog
#print axioms Step.live_of_journal
#print axioms c15_restart_step
#print axioms c15_after_restart
#print axioms cycles_cacheInv
#print axioms c15_accounting_exact_with_restarts
#print axioms cycleOps_append
#print axioms CleanCycles.prefix
#print axioms RefLog.run_prefix_some
#print axioms c15_accounting_exact_every_point
