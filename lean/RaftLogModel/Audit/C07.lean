import RaftLogModel.Props.C07
open RaftLog
#print axioms c07_refines_noCache
#print axioms c07_refinesNoCache_step
#print axioms c07_readInv_spec
#print axioms c07_resident_or_on_disk
#print axioms c07_boundary_written
#print axioms c07_read_of_inv
#print axioms c07_inv_fresh
#print axioms c07_inv_call
#print axioms c07_inv_flush
#print axioms c07_inv_worker
#print axioms c07_inv_workerIdle
#print axioms c07_inv_drain
#print axioms c07_inv_reachable
#print axioms c07_reads_partial
#print axioms c07_worker_steps_invisible
#print axioms c07_cache_limits_invisible
