import RaftLogModel.Props.C07
