import RaftLogModel.Props.C10Sys
open RaftLog
#print axioms c10_sys_cut_spec
#print axioms c10_sys_zero_spec
#print axioms c10_sys_sameBytes_spec
#print axioms c10_sys_cut_newest_inv
#print axioms c10_sys_cut_newest
#print axioms c10_sys_cut_newest_reach
#print axioms c10_sys_zero_from_boundary_inv
#print axioms c10_sys_zero_from_boundary_reach
#print axioms c10_sys_zero_tail_newest_inv
#print axioms c10_sys_zero_tail_newest
#print axioms c10_sys_zero_tail_newest_reach
#print axioms sys_torn_newestC10S
#print axioms take_insideC10S
#print axioms c10_sys_zero_tail_recovered_accepts_partial
