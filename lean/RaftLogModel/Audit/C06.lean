import RaftLogModel.Props.C06
open RaftLog
#print axioms c06_rejected_record_noop
#print axioms c06_err_is_noop
#print axioms c06_rejected_call_noop
#print axioms c06_batch_rejected_entry_noop
#print axioms c06_spec_rejects_vote
#print axioms c06_spec_rejects_commit
#print axioms c06_batch_refused_entry_noop
#print axioms c06_batch_rejected_entry_noop_any
