import RaftLogModel.Props.C06
