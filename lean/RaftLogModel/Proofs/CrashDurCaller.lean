/-
C03, part 4 (continued): the durability invariant under `runQuiet` and under the
caller-thread steps (journalling a record, chunk rotation, purge, flush).
-/
import RaftLogModel.Proofs.CrashDurInv
namespace RaftLog

/-! ### `runQuiet` -/

theorem dies_ok_C3 (c : WCtx) : c.dies .ok = false := by
  unfold WCtx.dies
  split <;> first | rfl | (rename_i h; cases h)

theorem DInv.runQuiet {s : Store} (n : Nat) : ∀ (c : WCtx) (A : Nat), DInv s c.fs c.w A →
    JInv s c.fs c.w → LInv s c.fs c.w → Covered c → c.w.WF → (WCtx.runQuiet n c).w.pc ≠ .dead →
    DInv s (WCtx.runQuiet n c).fs (WCtx.runQuiet n c).w (WCtx.ackQuiet n c A) := by
  induction n with
  | zero => intro c A h _ _ _ _ _; exact h
  | succ n ih =>
    intro c A h hj hl hcov hwf hnd
    unfold WCtx.runQuiet at hnd ⊢
    unfold WCtx.ackQuiet
    by_cases hq : c.w.quiet = true
    · simp only [hq, if_true] at hnd ⊢
      exact h
    · simp only [hq] at hnd ⊢
      have hnd1 : (c.step .ok).w.pc ≠ .dead := by
        intro hdead
        rw [WCtx.runQuiet_dead n _ hdead] at hnd
        exact hnd hdead
      have hcur : c.w.cur ∈ Fs.ids c.fs := hj.annFs _ (by simp [Worker.announced])
      have g := WCtx.step_good c .ok hj.wok hcur hnd1
      have hids := WCtx.step_ids c .ok
      exact ih (c.step .ok) _ (h.step .ok hj hl hcov hwf hnd1) (hj.worker g hids)
        (hl.worker (WCtx.step_link c .ok hj.wok hnd1) hids)
        (WCtx.step_covered c .ok hwf (dies_ok_C3 c) hcov) (WCtx.step_wf c .ok hwf) hnd

/-! ### Requests pushed by the caller thread -/

theorem WU.push {s : Store} {fs fs' : Fs} {w : Worker} (h : WU fs w) (hj : JInv s fs w)
    (q : List WReq)
    (hfd : ∀ n ∈ w.announced, (fdata fs' n).length = (fdata fs n).length)
    (hids : ∀ i ∈ Fs.ids fs', i ∈ Fs.ids fs ∨ i ∈ annIds q)
    (hq : uptoOK fs' s.openId ((fdata fs s.openId).length + (w.inflight s.openId).length) q) :
    WU fs' (w.push q) := by
  have hcurfd : (fdata fs' w.cur).length = (fdata fs w.cur).length :=
    hfd _ (by simp [Worker.announced])
  have hrestfd : ∀ n ∈ annIds w.rest, (fdata fs' n).length = (fdata fs n).length :=
    fun n hn => hfd n (by simp [Worker.announced, hn])
  have hlast : lastAnn w.cur w.rest = s.openId := by
    have h1 := lastAnn_getLast w.cur w.rest
    have h2 := hj.annLast
    rw [Worker.announced] at h2
    rw [h2] at h1
    exact (Option.some.inj h1).symm
  have hend : endBase fs' w.cur ((fdata fs' w.cur).length + w.pc.todoBytes.length) w.rest
      = (s.openId, (fdata fs s.openId).length + (w.inflight s.openId).length) := by
    rw [endBase_congr w.rest _ _ hrestfd, hcurfd, endBase_infl fs w.rest w.cur w.pc.todoBytes hj.annAsc,
      hlast]
    rfl
  refine ⟨?_, ?_, ?_⟩
  · show uptoOK fs' w.cur ((fdata fs' w.cur).length + w.pc.todoBytes.length) (w.push q).rest
    rw [Worker.push_rest, uptoOK_append, hend]
    refine ⟨?_, hq⟩
    rw [hcurfd, uptoOK_congr w.rest _ _ hrestfd]
    exact h.u1
  · intro r hr
    have := h.u2 r hr
    show r.upto ≤ w.cur + (fdata fs' w.cur).length + w.pc.todoBytes.length
    rw [hcurfd]; exact this
  · intro i hi hlt
    show i ∈ annIds (w.push q).rest
    rw [Worker.push_rest, annIds_append]
    rcases hids i hi with k | k
    · exact List.mem_append_left _ (h.u3 i k hlt)
    · exact List.mem_append_right _ k

/-! ### The caller-thread steps -/

theorem DInv.of_fields {s s2 : Store} {fs : Fs} {w : Worker} {A : Nat} (h : DInv s fs w A)
    (h3 : s2.openOffsets = s.openOffsets) (h5 : s2.closed = s.closed) : DInv s2 fs w A := by
  have e1 : s2.chunks = s.chunks := by simp [Store.chunks, h3, h5]
  have e2 : s2.openEnd = s.openEnd := by simp [Store.openEnd, h3]
  exact ⟨h.wu, h.a1, by rw [e2]; exact h.a2, by rw [e1]; exact h.dw, by rw [e1]; exact h.dd⟩

/-- Journalling one record into the pending buffer. -/
theorem DInv.journal {s s3 : Store} {fs : Fs} {w : Worker} {A x : Nat} (h : DInv s fs w A)
    (hj : JInv s fs w) (hoff : s3.openOffsets = s.openOffsets ++ [x]) (hx : s.openEnd ≤ x)
    (hc : s3.closed = s.closed) : DInv s3 fs w A := by
  have hne := hj.openBytes.ne_nil
  have hhd : (s.openOffsets ++ [x]).headD 0 = s.openOffsets.headD 0 := headD_append_of_ne_nil hne _
  have hlo : lastOff (s.openOffsets ++ [x]) = x := lastOff_append _ _
  have ha2 := h.a2
  have key : ∀ offs ∈ s3.chunks, ∃ offs0 ∈ s.chunks, offs0.headD 0 = offs.headD 0 ∧
      min (lastOff offs - offs.headD 0) (A - offs.headD 0)
        ≤ min (lastOff offs0 - offs0.headD 0) (A - offs0.headD 0) := by
    intro offs ho
    simp only [Store.chunks, hc, hoff, List.mem_append, List.mem_map, List.mem_singleton] at ho
    rcases ho with ⟨c, hcm, rfl⟩ | rfl
    · exact ⟨c.offsets, by simp [Store.chunks]; exact Or.inl ⟨c, hcm, rfl⟩, rfl, Nat.le_refl _⟩
    · refine ⟨s.openOffsets, by simp [Store.chunks], hhd.symm, ?_⟩
      rw [hhd, hlo]
      simp only [Store.openEnd] at ha2 hx
      omega
  refine ⟨h.wu, h.a1, ?_, ?_, ?_⟩
  · simp only [Store.openEnd, hoff, hlo]
    simp only [Store.openEnd] at ha2 hx
    omega
  · intro offs ho
    obtain ⟨offs0, h0, e, hle⟩ := key offs ho
    have := h.dw offs0 h0
    rw [← e]; omega
  · intro offs ho f hf
    obtain ⟨offs0, h0, e, hle⟩ := key offs ho
    rw [← e] at hf
    have := h.dd offs0 h0 f hf
    omega

/-- Dropping closed chunks from the front (purge). -/
theorem DInv.dropClosed {s s2 : Store} {fs : Fs} {w : Worker} {A : Nat} (h : DInv s fs w A)
    (pre : List Closed) (h3 : s2.openOffsets = s.openOffsets) (h5 : s.closed = pre ++ s2.closed) :
    DInv s2 fs w A := by
  have hsub : ∀ offs ∈ s2.chunks, offs ∈ s.chunks := by
    intro offs ho
    simp only [Store.chunks, h5, h3, List.map_append, List.mem_append, List.mem_map,
      List.mem_singleton] at ho ⊢
    rcases ho with ⟨c, hc, rfl⟩ | rfl
    · exact Or.inl (Or.inr ⟨c, hc, rfl⟩)
    · exact Or.inr rfl
  have e2 : s2.openEnd = s.openEnd := by simp [Store.openEnd, h3]
  exact ⟨h.wu, h.a1, by rw [e2]; exact h.a2, fun offs ho => h.dw offs (hsub offs ho),
    fun offs ho => h.dd offs (hsub offs ho)⟩

/-- Chunk rotation. -/
theorem DInv.rotate {s s' : Store} {fs : Fs} {w : Worker} {A : Nat} (h : DInv s fs w A)
    (hj : JInv s fs w)
    (hoff : s'.openOffsets = [s.openEnd, s.openEnd + (encRecord (.state s.st)).length])
    (hclosed : s'.closed = s.closed ++ [⟨s.openOffsets, s.st⟩]) :
    DInv s' ((fs.create s.openEnd).write s.openEnd (encRecord (.state s.st)))
      (w.push ((if s.pending.isEmpty then [] else [.write s.openEnd s.pending none]) ++
        [.appendFile s.openEnd s.st.last])) A := by
  generalize hN : s.openEnd = newId at *
  generalize hH : encRecord (.state s.st) = head at *
  generalize hfs' : (fs.create newId).write newId head = fs'
  have hlt : s.openId < newId := by rw [← hN]; exact hj.openId_lt
  have ha2 : A ≤ newId := by rw [← hN]; exact h.a2
  have hnew_notin : newId ∉ Fs.ids fs := by
    intro hm; have := hj.fsLt _ hm; omega
  have hfd_ne : ∀ i, i ≠ newId → fdata fs' i = fdata fs i := by
    intro i hi
    have hi' : ¬ newId = i := fun e => hi e.symm
    rw [← hfs', fdata_write _ _ _ _ (Fs.ids_create_self fs newId), fdata_create_ne fs hi]
    simp [hi']
  have hfind_ne : ∀ i, i ≠ newId → fs'.find i = fs.find i := by
    intro i hi
    rw [← hfs']
    exact (find_create_write fs newId head).2 i hi
  have hids3 : ∀ i, i ∈ Fs.ids fs' → i ∈ Fs.ids fs ∨ i = newId := by
    intro i hi; rw [← hfs', Fs.ids_write] at hi; exact Fs.ids_create hi
  have hann_ne : ∀ n ∈ w.announced, n ≠ newId := by
    intro n hn e
    have := hj.ann_le n hn
    omega
  -- the total of the open chunk
  have htot : newId = s.openId + ((fdata fs s.openId).length + (w.inflight s.openId).length)
      + s.pending.length := by
    have := hj.openBytes.lastOff_eq
    simp only [List.length_append] at this
    rw [← hN]
    simp only [Store.openEnd, Store.openId] at this ⊢
    omega
  have hwu : WU fs' (w.push ((if s.pending.isEmpty then [] else [.write newId s.pending none]) ++
      [.appendFile newId s.st.last])) := by
    apply h.wu.push hj
    · intro n hn; rw [hfd_ne n (hann_ne n hn)]
    · intro i hi
      rcases hids3 i hi with k | k
      · exact Or.inl k
      · right
        rw [k, annIds_append]
        simp [annIds]
    · by_cases hp : s.pending.isEmpty = true
      · have hp' : s.pending = [] := by simpa using hp
        rw [hp'] at htot
        simp only [hp, if_true, List.nil_append, uptoOK, and_true]
        simpa using htot
      · simp only [hp, Bool.false_eq_true, if_false, List.cons_append, List.nil_append, uptoOK,
          and_true]
        omega
  have e2 : s'.openEnd = newId + head.length := by simp [Store.openEnd, hoff, lastOff]
  have hchunks : s'.chunks = s.chunks ++ [[newId, newId + head.length]] := by
    simp [Store.chunks, hclosed, hoff]
  refine ⟨hwu, ?_, by rw [e2]; omega, ?_, ?_⟩
  · intro i hi
    rw [Worker.push_rest, annIds_append] at hi
    rcases List.mem_append.mp hi with k | k
    · exact h.a1 i k
    · have : i = newId := by
        rw [annIds_append] at k
        by_cases hp : s.pending.isEmpty = true <;> simpa [hp, annIds] using k
      rw [this]; exact ha2
  · intro offs ho
    rw [hchunks] at ho
    rcases List.mem_append.mp ho with k | k
    · have hid := hj.live_ids_C3 offs k
      have hne : offs.headD 0 ≠ newId := fun e => hnew_notin (e ▸ hid)
      rw [hfd_ne _ hne]
      exact h.dw offs k
    · simp only [List.mem_singleton] at k
      subst k
      simp only [List.headD_cons]
      have hz : A - newId = 0 := by omega
      rw [hz, Nat.min_zero]
      exact Nat.zero_le _
  · intro offs ho f hf
    rw [hchunks] at ho
    rcases List.mem_append.mp ho with k | k
    · have hid := hj.live_ids_C3 offs k
      have hne : offs.headD 0 ≠ newId := fun e => hnew_notin (e ▸ hid)
      rw [hfind_ne _ hne] at hf
      exact h.dd offs k f hf
    · simp only [List.mem_singleton] at k
      subst k
      simp only [List.headD_cons]
      have hz : A - newId = 0 := by omega
      rw [hz, Nat.min_zero]
      exact Nat.zero_le _

theorem DInv.tryCloseFull {s s' : Store} {fs : Fs} {w : Worker} {fsHas : Nat → Bool} {effs : List Eff}
    {A : Nat} (h : DInv s fs w A) (hj : JInv s fs w)
    (heq : s.tryCloseFull fsHas = (.ok (), s', effs)) :
    DInv s' (effFs effs fs) (w.push (effQ effs)) A := by
  unfold Store.tryCloseFull at heq
  by_cases hf : s.isOpenFull = true
  · by_cases he : fsHas s.openEnd = true
    · simp [hf, he] at heq
    · simp only [hf, he, Bool.not_true, Bool.false_eq_true, if_false, Prod.mk.injEq, true_and] at heq
      obtain ⟨rfl, rfl⟩ := heq
      have e1 : effFs ([Eff.create s.openEnd, Eff.writeHead s.openEnd (encRecord (.state s.st))] ++
          (if s.pending.isEmpty then [] else [Eff.send (.write s.openEnd s.pending none)]) ++
          [Eff.send (.appendFile s.openEnd s.st.last)]) fs
          = (fs.create s.openEnd).write s.openEnd (encRecord (.state s.st)) := by
        by_cases hp : s.pending.isEmpty = true <;> simp [effFs, hp]
      have e2 : effQ ([Eff.create s.openEnd, Eff.writeHead s.openEnd (encRecord (.state s.st))] ++
          (if s.pending.isEmpty then [] else [Eff.send (.write s.openEnd s.pending none)]) ++
          [Eff.send (.appendFile s.openEnd s.st.last)])
          = (if s.pending.isEmpty then [] else [.write s.openEnd s.pending none]) ++
            [.appendFile s.openEnd s.st.last] := by
        by_cases hp : s.pending.isEmpty = true <;> simp [effQ, hp]
      rw [e1, e2]
      exact h.rotate hj rfl rfl
  · simp only [hf, Bool.not_false, if_true, Prod.mk.injEq, true_and] at heq
    obtain ⟨rfl, rfl⟩ := heq
    simpa [effFs, effQ] using h

/-- Flush: the pending bytes are handed to the worker with `upto` = the journal end. -/
theorem DInv.flush {s : Store} {fs : Fs} {w : Worker} {A : Nat} (h : DInv s fs w A)
    (hj : JInv s fs w) (cb : Option Nat) :
    DInv (s.flush cb).1 (effFs (s.flush cb).2 fs) (w.push (effQ (s.flush cb).2)) A := by
  have htot : s.openEnd = s.openId + ((fdata fs s.openId).length + (w.inflight s.openId).length)
      + s.pending.length := by
    have := hj.openBytes.lastOff_eq
    simp only [List.length_append] at this
    simp only [Store.openEnd, Store.openId] at this ⊢
    omega
  have hfs : effFs (s.flush cb).2 fs = fs := by
    unfold Store.flush
    by_cases hr : s.removed.isEmpty = true <;> simp [hr, effFs]
  have hq : effQ (s.flush cb).2 = [.write s.openEnd s.pending cb] ++
      (if s.removed.isEmpty then [] else [.removeChunks s.removed]) := by
    unfold Store.flush
    by_cases hr : s.removed.isEmpty = true <;> simp [hr, effQ]
  rw [hfs, hq]
  have hwu : WU fs (w.push ([.write s.openEnd s.pending cb] ++
      (if s.removed.isEmpty then [] else [.removeChunks s.removed]))) := by
    apply h.wu.push hj
    · intro n _; rfl
    · intro i hi; exact Or.inl hi
    · by_cases hr : s.removed.isEmpty = true <;> simp [hr, uptoOK] <;> omega
  have hd : DInv (s.flush cb).1 fs w A := h.of_fields rfl rfl
  refine ⟨hwu, ?_, hd.a2, hd.dw, hd.dd⟩
  intro i hi
  rw [Worker.push_rest, annIds_append] at hi
  rcases List.mem_append.mp hi with k | k
  · exact h.a1 i k
  · exfalso
    by_cases hr : s.removed.isEmpty = true <;> simp [hr, annIds] at k

theorem settle_batchW_C3 (w : Worker) : w.settle.pc.batchW = w.pc.batchW := by
  unfold Worker.settle
  split
  · rename_i r q hpc hq; rw [hpc]; rfl
  · rfl

theorem DInv.settle {s : Store} {fs : Fs} {w : Worker} {A : Nat} (h : DInv s fs w A) :
    DInv s fs w.settle A := by
  obtain ⟨k1, k2, k3, _, _⟩ := Worker.settle_facts w
  have hcur : w.settle.cur = w.cur := by simp [Worker.cur, k2]
  refine ⟨⟨?_, ?_, ?_⟩, by rw [k1]; exact h.a1, h.a2, h.dw, h.dd⟩
  · rw [hcur, k1, k3]; exact h.wu.u1
  · rw [hcur, k3, settle_batchW_C3]; exact h.wu.u2
  · rw [hcur, k1]; exact h.wu.u3

end RaftLog
