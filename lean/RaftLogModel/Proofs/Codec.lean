import RaftLogModel.Model.Codec
namespace RaftLog

/-! ## Big-endian lemmas -/

theorem beToNat_append_single (xs : Bytes) (b : UInt8) :
    beToNat (xs ++ [b]) = beToNat xs * 256 + b.toNat := by
  simp [beToNat, List.foldl_append]

@[simp] theorem natToBE_length (w n : Nat) : (natToBE w n).length = w := by
  induction w generalizing n with
  | zero => simp [natToBE]
  | succ w ih => simp [natToBE, ih]

theorem beToNat_natToBE (w n : Nat) : beToNat (natToBE w n) = n % 256 ^ w := by
  induction w generalizing n with
  | zero => simp [natToBE, beToNat, Nat.mod_one]
  | succ w ih =>
    simp only [natToBE, beToNat_append_single, ih]
    have h : (UInt8.ofNat (n % 256)).toNat = n % 256 := by
      simp [UInt8.toNat_ofNat']
    rw [h, Nat.pow_succ]
    have := Nat.mod_mul_right_div_self n 256 (256 ^ w)
    have h2 : n % (256 ^ w * 256) = n % (256 * 256 ^ w) := by rw [Nat.mul_comm]
    rw [h2, Nat.mod_mul]
    omega

theorem beFold_acc (a : Nat) (xs : Bytes) :
    xs.foldl (fun a b => a * 256 + b.toNat) a
      = a * 256 ^ xs.length + xs.foldl (fun a b => a * 256 + b.toNat) 0 := by
  induction xs generalizing a with
  | nil => simp
  | cons x xs ih =>
    simp only [List.foldl_cons, List.length_cons]
    rw [ih (a * 256 + x.toNat), ih (0 * 256 + x.toNat)]
    simp only [Nat.zero_mul, Nat.zero_add, Nat.pow_succ]
    rw [Nat.add_mul, Nat.add_assoc]
    congr 1
    rw [Nat.mul_assoc, Nat.mul_comm 256]

theorem beToNat_cons (x : UInt8) (xs : Bytes) :
    beToNat (x :: xs) = x.toNat * 256 ^ xs.length + beToNat xs := by
  simp only [beToNat, List.foldl_cons, Nat.zero_mul, Nat.zero_add]
  exact beFold_acc x.toNat xs

theorem beToNat_lt (bs : Bytes) : beToNat bs < 256 ^ bs.length := by
  induction bs with
  | nil => simp [beToNat]
  | cons x xs ih =>
    rw [beToNat_cons]
    simp only [List.length_cons, Nat.pow_succ]
    have := x.toNat_lt
    have h : x.toNat * 256 ^ xs.length + 256 ^ xs.length ≤ 256 * 256 ^ xs.length := by
      have : x.toNat + 1 ≤ 256 := by omega
      calc x.toNat * 256 ^ xs.length + 256 ^ xs.length
          = (x.toNat + 1) * 256 ^ xs.length := by rw [Nat.add_mul, Nat.one_mul]
        _ ≤ 256 * 256 ^ xs.length := Nat.mul_le_mul_right _ this
    rw [Nat.mul_comm (256 ^ xs.length)]
    omega

/-- Induction from the right end of a list (core has no `reverseRecOn`). -/
theorem list_rev_induction {α} {P : List α → Prop} (nil : P [])
    (snoc : ∀ xs x, P xs → P (xs ++ [x])) : ∀ l, P l := by
  intro l
  generalize hn : l.length = n
  induction n generalizing l with
  | zero => have : l = [] := List.eq_nil_of_length_eq_zero hn; subst this; exact nil
  | succ n ih =>
    have hne : l ≠ [] := by intro h; subst h; simp at hn
    rw [← List.dropLast_concat_getLast hne]
    apply snoc
    apply ih
    simp [List.length_dropLast, hn]

theorem natToBE_beToNat (bs : Bytes) : natToBE bs.length (beToNat bs) = bs := by
  induction bs using list_rev_induction with
  | nil => simp [natToBE]
  | snoc xs b ih =>
    simp only [List.length_append, List.length_singleton, natToBE, beToNat_append_single]
    have hb := b.toNat_lt
    have h1 : (beToNat xs * 256 + b.toNat) / 256 = beToNat xs := by omega
    have h2 : (beToNat xs * 256 + b.toNat) % 256 = b.toNat := by omega
    rw [h1, h2, ih, UInt8.ofNat_toNat]

/-! ## Primitive decoders: round trip, canonicity, prefix ⇒ eof -/

theorem decU_enc (w n : Nat) (rest : Bytes) (h : n < 256 ^ w) :
    decU w (natToBE w n ++ rest) = .ok n rest := by
  unfold decU
  have hl : ¬ (natToBE w n ++ rest).length < w := by simp
  rw [if_neg hl, List.take_left' (natToBE_length w n), List.drop_left' (natToBE_length w n),
    beToNat_natToBE, Nat.mod_eq_of_lt h]

theorem decU_ok {w : Nat} {bs : Bytes} {n : Nat} {rest : Bytes}
    (h : decU w bs = .ok n rest) : bs = natToBE w n ++ rest ∧ n < 256 ^ w := by
  unfold decU at h
  split at h
  · cases h
  · rename_i hl
    injection h with h1 h2
    subst h1 h2
    have hlen : (bs.take w).length = w := by simp; omega
    constructor
    · have := natToBE_beToNat (bs.take w)
      rw [hlen] at this
      rw [this, List.take_append_drop]
    · have := beToNat_lt (bs.take w)
      rwa [hlen] at this

theorem decU_short {w : Nat} {bs : Bytes} (h : bs.length < w) : decU w bs = .eof := by
  simp [decU, h]

theorem decU_ok_length {w : Nat} {bs : Bytes} {n : Nat} {rest : Bytes}
    (h : decU w bs = .ok n rest) : bs.length = w + rest.length := by
  have := (decU_ok h).1
  rw [this]; simp

/-! ## A compositional notion of "good codec" -/

/-- `enc`/`dec` are mutually inverse on `wf` values, and every strict prefix of
an encoding makes the decoder report `eof`. -/
structure Good {α : Type} (enc : α → Bytes) (dec : Bytes → DecRes α) (wf : α → Prop) : Prop where
  rt : ∀ a rest, wf a → dec (enc a ++ rest) = .ok a rest
  canon : ∀ bs a rest, dec bs = .ok a rest → bs = enc a ++ rest ∧ wf a
  pfx : ∀ a bs t, wf a → t ≠ [] → bs ++ t = enc a → dec bs = .eof

theorem split_prefix {bs t ea eb : Bytes} (h : bs ++ t = ea ++ eb) (ht : t ≠ []) :
    (∃ t', t' ≠ [] ∧ bs ++ t' = ea) ∨ (∃ bs', bs = ea ++ bs' ∧ bs' ++ t = eb) := by
  rcases List.append_eq_append_iff.mp h with ⟨a', h1, h2⟩ | ⟨c', h1, h2⟩
  · -- ea = bs ++ a', t = a' ++ eb
    by_cases ha : a' = []
    · subst ha; right; exact ⟨[], by simpa using h1.symm, by simpa using h2⟩
    · left; exact ⟨a', ha, h1.symm⟩
  · -- bs = ea ++ c', eb = c' ++ t
    right; exact ⟨c', h1, h2.symm⟩

theorem good_U (w : Nat) : Good (natToBE w) (decU w) (fun n => n < 256 ^ w) where
  rt := fun a rest h => decU_enc w a rest h
  canon := fun _ _ _ h => decU_ok h
  pfx := by
    intro a bs t _ ht h
    apply decU_short
    have := congrArg List.length h
    simp at this
    have : t.length ≠ 0 := by intro h0; exact ht (List.eq_nil_of_length_eq_zero h0)
    omega

/-- Sequential composition of two good codecs. -/
theorem good_pair {α β γ : Type} {ea : α → Bytes} {da wa} {eb : β → Bytes} {db wb}
    (ga : Good ea da wa) (gb : Good eb db wb)
    (mk : α → β → γ) (p1 : γ → α) (p2 : γ → β)
    (hmk : ∀ a b, p1 (mk a b) = a ∧ p2 (mk a b) = b) (hsurj : ∀ c, mk (p1 c) (p2 c) = c) :
    Good (fun c => ea (p1 c) ++ eb (p2 c))
      (fun bs => (da bs).bind fun a r => (db r).bind fun b r' => .ok (mk a b) r')
      (fun c => wa (p1 c) ∧ wb (p2 c)) where
  rt := by
    intro c rest ⟨h1, h2⟩
    simp only [List.append_assoc, ga.rt _ _ h1, DecRes.bind, gb.rt _ _ h2, hsurj]
  canon := by
    intro bs c rest h
    cases hda : da bs with
    | eof => simp [hda, DecRes.bind] at h
    | invalid => simp [hda, DecRes.bind] at h
    | ok a r =>
      cases hdb : db r with
      | eof => simp [hda, hdb, DecRes.bind] at h
      | invalid => simp [hda, hdb, DecRes.bind] at h
      | ok b r' =>
        simp only [hda, hdb, DecRes.bind, DecRes.ok.injEq] at h
        obtain ⟨hc, hr⟩ := h
        subst hc hr
        obtain ⟨e1, w1⟩ := ga.canon _ _ _ hda
        obtain ⟨e2, w2⟩ := gb.canon _ _ _ hdb
        simp only [(hmk a b).1, (hmk a b).2]
        exact ⟨by rw [e1, e2, List.append_assoc], w1, w2⟩
  pfx := by
    intro c bs t ⟨h1, h2⟩ ht h
    rcases split_prefix h ht with ⟨t', ht', e⟩ | ⟨bs', e1, e2⟩
    · simp [ga.pfx _ _ _ h1 ht' e, DecRes.bind]
    · subst e1
      simp [ga.rt _ _ h1, DecRes.bind, gb.pfx _ _ _ h2 ht e2]

@[simp] theorem DecRes.bind_ok {α β} (a : α) (r : Bytes) (f : α → Bytes → DecRes β) :
    (DecRes.ok a r).bind f = f a r := rfl
@[simp] theorem DecRes.bind_eof {α β} (f : α → Bytes → DecRes β) :
    (DecRes.eof : DecRes α).bind f = .eof := rfl
@[simp] theorem DecRes.bind_invalid {α β} (f : α → Bytes → DecRes β) :
    (DecRes.invalid : DecRes α).bind f = .invalid := rfl
theorem DecRes.bind_assoc {α β γ} (x : DecRes α) (f : α → Bytes → DecRes β)
    (g : β → Bytes → DecRes γ) :
    (x.bind f).bind g = x.bind fun a r => (f a r).bind g := by
  cases x <;> rfl

theorem pow_256_8 : 256 ^ 8 = U64 := by decide
theorem pow_256_4 : 256 ^ 4 = U32 := by decide

theorem good_logId : Good encLogId decLogId LogId.WF := by
  have h := good_pair (good_U 8) (good_U 8) LogId.mk LogId.term LogId.index
    (fun _ _ => ⟨rfl, rfl⟩) (fun _ => rfl)
  simp only [pow_256_8] at h
  exact h

theorem good_bytes : Good encBytes decBytes bytesWF where
  rt := by
    intro p rest h
    unfold bytesWF at h
    rw [← pow_256_4] at h
    simp [encBytes, decBytes, decU_enc 4 p.length _ h]
  canon := by
    intro bs p rest h
    unfold decBytes at h
    cases hd : decU 4 bs with
    | eof => simp [hd] at h
    | invalid => simp [hd] at h
    | ok n r =>
      simp only [hd, DecRes.bind_ok] at h
      split at h
      · cases h
      · rename_i hl
        injection h with h1 h2
        subst h1 h2
        obtain ⟨e, hn⟩ := decU_ok hd
        have hlen : (List.take n r).length = n := by simp; omega
        refine ⟨?_, ?_⟩
        · rw [encBytes, hlen, List.append_assoc, List.take_append_drop]; exact e
        · unfold bytesWF; rw [hlen, ← pow_256_4]; exact hn
  pfx := by
    intro p bs t h ht e
    unfold bytesWF at h
    rw [← pow_256_4] at h
    unfold encBytes at e
    rcases split_prefix e ht with ⟨t', ht', e'⟩ | ⟨bs', e1, e2⟩
    · simp [decBytes, (good_U 4).pfx _ _ _ h ht' e']
    · subst e1
      have hl : bs'.length < p.length := by
        have := congrArg List.length e2
        simp at this
        have : t.length ≠ 0 := fun h0 => ht (List.eq_nil_of_length_eq_zero h0)
        omega
      simp [decBytes, decU_enc 4 p.length _ h, hl]

def optWFg {α} (wf : α → Prop) : Option α → Prop
  | none => True
  | some a => wf a

theorem good_opt {α} {enc : α → Bytes} {dec wf} (g : Good enc dec wf) :
    Good (encOpt enc) (decOpt dec) (optWFg wf) where
  rt := by
    intro o rest h
    cases o with
    | none => simp [encOpt, decOpt]
    | some a => simp [encOpt, decOpt, g.rt a rest h]
  canon := by
    intro bs o rest h
    unfold decOpt at h
    match bs, h with
    | [], h => cases h
    | t :: r, h =>
      simp only at h
      split at h
      · rename_i h0; injection h with h1 h2; subst h0 h1 h2; simp [encOpt, optWFg]
      · split at h
        · rename_i _ h1
          subst h1
          cases hd : dec r with
          | eof => simp [hd] at h
          | invalid => simp [hd] at h
          | ok a r' =>
            simp only [hd, DecRes.bind_ok, DecRes.ok.injEq] at h
            obtain ⟨ho, hr⟩ := h
            subst ho hr
            obtain ⟨e, w⟩ := g.canon _ _ _ hd
            exact ⟨by simp [encOpt, e], w⟩
        · cases h
  pfx := by
    intro o bs t h ht e
    cases o with
    | none =>
      simp only [encOpt] at e
      cases bs with
      | nil => rfl
      | cons b bs' =>
        have hl := congrArg List.length e
        simp only [List.length_append, List.length_cons, List.length_nil] at hl
        have : t.length ≠ 0 := fun h0 => ht (List.eq_nil_of_length_eq_zero h0)
        omega
    | some a =>
      simp only [encOpt] at e
      cases bs with
      | nil => rfl
      | cons b bs' =>
        simp only [List.cons_append, List.cons.injEq] at e
        obtain ⟨hb, e'⟩ := e
        subst hb
        simp [decOpt, g.pfx a bs' t h ht e']

theorem optWFg_logId (o : Option LogId) : optWFg LogId.WF o ↔ optWF o := by
  cases o <;> simp [optWFg, optWF]

/-- Map a good codec through a bijection. -/
theorem good_map {α β} {enc : α → Bytes} {dec wf} (g : Good enc dec wf)
    (f : α → β) (f' : β → α) (h1 : ∀ a, f' (f a) = a) (h2 : ∀ b, f (f' b) = b) :
    Good (fun b => enc (f' b)) (fun bs => (dec bs).bind fun a r => .ok (f a) r)
      (fun b => wf (f' b)) where
  rt := by intro b rest h; simp [g.rt _ rest h, h2]
  canon := by
    intro bs b rest h
    cases hd : dec bs with
    | eof => simp [hd] at h
    | invalid => simp [hd] at h
    | ok a r =>
      simp only [hd, DecRes.bind_ok, DecRes.ok.injEq] at h
      obtain ⟨hb, hr⟩ := h
      subst hb hr
      rw [h1]
      exact g.canon _ _ _ hd
  pfx := by intro b bs t h ht e; simp [g.pfx _ _ _ h ht e]

/-- A constant leading byte (the `RaftLogState` version byte). -/
def decConst {α} (c : UInt8) (dec : Bytes → DecRes α) : Bytes → DecRes α
  | [] => .eof
  | v :: r => if v = c then dec r else .invalid

theorem good_const {α} {enc : α → Bytes} {dec wf} (g : Good enc dec wf) (c : UInt8) :
    Good (fun a => c :: enc a) (decConst c dec) wf where
  rt := by intro a rest h; simp [decConst, g.rt a rest h]
  canon := by
    intro bs a rest h
    cases bs with
    | nil => cases h
    | cons v r =>
      simp only [decConst] at h
      split at h
      · rename_i hv; subst hv
        obtain ⟨e, w⟩ := g.canon _ _ _ h
        exact ⟨by simp [e], w⟩
      · cases h
  pfx := by
    intro a bs t h ht e
    cases bs with
    | nil => rfl
    | cons b bs' =>
      simp only [List.cons_append, List.cons.injEq] at e
      obtain ⟨hb, e'⟩ := e
      subst hb
      simp [decConst, g.pfx a bs' t h ht e']

abbrev S5 := Option LogId × Option LogId × Option LogId × Option LogId × Option Bytes

def s5ToState (x : S5) : RState := ⟨x.1, x.2.1, x.2.2.1, x.2.2.2.1, x.2.2.2.2⟩
def stateToS5 (s : RState) : S5 := (s.vote, s.last, s.committed, s.purged, s.userData)

theorem stateWF_iff (s : RState) :
    (optWFg LogId.WF s.vote ∧ optWFg LogId.WF s.last ∧ optWFg LogId.WF s.committed ∧
      optWFg LogId.WF s.purged ∧ optWFg bytesWF s.userData) ↔ s.WF := by
  unfold RState.WF
  simp only [optWFg_logId]
  cases s.userData <;> simp [optWFg]

theorem good_state : Good encState decState RState.WF := by
  have gl := good_opt good_logId
  have gb := good_opt good_bytes
  have g45 := good_pair gl gb Prod.mk Prod.fst Prod.snd (fun _ _ => ⟨rfl, rfl⟩) (fun _ => rfl)
  have g345 := good_pair gl g45 Prod.mk Prod.fst Prod.snd (fun _ _ => ⟨rfl, rfl⟩) (fun _ => rfl)
  have g2345 := good_pair gl g345 Prod.mk Prod.fst Prod.snd (fun _ _ => ⟨rfl, rfl⟩) (fun _ => rfl)
  have g5 := good_pair gl g2345 Prod.mk Prod.fst Prod.snd (fun _ _ => ⟨rfl, rfl⟩) (fun _ => rfl)
  have gm := good_map g5 s5ToState stateToS5 (fun _ => rfl) (fun _ => rfl)
  have gc := good_const gm 1
  have hdec : ∀ bs, decState bs = decConst 1 (fun bs =>
      ((decOpt decLogId bs).bind fun a r =>
        ((decOpt decLogId r).bind fun a r =>
          ((decOpt decLogId r).bind fun a r =>
            ((decOpt decLogId r).bind fun a r =>
              (decOpt decBytes r).bind fun b r' => DecRes.ok (a, b) r').bind
              fun b r' => DecRes.ok (a, b) r').bind
            fun b r' => DecRes.ok (a, b) r').bind
          fun b r' => DecRes.ok (a, b) r').bind
        fun a r => DecRes.ok (s5ToState a) r) bs := by
    intro bs
    cases bs with
    | nil => rfl
    | cons v r =>
      simp only [decState, decConst, DecRes.bind_assoc, DecRes.bind_ok, s5ToState]
  have henc : ∀ s, encState s = 1 :: (encOpt encLogId (stateToS5 s).fst ++
      (encOpt encLogId (stateToS5 s).snd.fst ++ (encOpt encLogId (stateToS5 s).snd.snd.fst ++
      (encOpt encLogId (stateToS5 s).snd.snd.snd.fst ++
        encOpt encBytes (stateToS5 s).snd.snd.snd.snd)))) := by
    intro s; simp [encState, stateToS5]
  constructor
  · intro s rest h
    rw [hdec, henc]
    exact gc.rt s rest ((stateWF_iff s).2 h)
  · intro bs s rest h
    rw [hdec] at h
    rw [henc]
    have := gc.canon bs s rest h
    exact ⟨this.1, (stateWF_iff s).1 this.2⟩
  · intro s bs t h ht e
    rw [hdec]
    rw [henc] at e
    exact gc.pfx s bs t ((stateWF_iff s).2 h) ht e

/-! ## Record bodies -/

theorem good_optLogId : Good (encOpt encLogId) (decOpt decLogId) optWF := by
  have g := good_opt good_logId
  constructor
  · intro o rest h; exact g.rt o rest ((optWFg_logId o).2 h)
  · intro bs o rest h; have := g.canon bs o rest h; exact ⟨this.1, (optWFg_logId o).1 this.2⟩
  · intro o bs t h ht e; exact g.pfx o bs t ((optWFg_logId o).2 h) ht e

theorem good_appendBody :
    Good (fun (x : LogId × Bytes) => encLogId x.1 ++ encBytes x.2)
      (fun bs => (decLogId bs).bind fun a r => (decBytes r).bind fun b r' => .ok (a, b) r')
      (fun x => x.1.WF ∧ bytesWF x.2) :=
  good_pair good_logId good_bytes Prod.mk Prod.fst Prod.snd (fun _ _ => ⟨rfl, rfl⟩) (fun _ => rfl)

theorem body_rt (r : Record) (rest : Bytes) (h : r.WF) :
    decBody r.tag (encBody r ++ rest) = .ok r rest := by
  cases r with
  | saveVote v => simp [Record.tag, decBody, encBody, good_logId.rt v rest h]
  | append id p =>
    have := good_appendBody.rt (id, p) rest h
    simp only [List.append_assoc] at this
    cases hd : decLogId (encLogId id ++ (encBytes p ++ rest)) with
    | eof => simp [hd] at this
    | invalid => simp [hd] at this
    | ok a r1 =>
      simp only [hd, DecRes.bind_ok] at this
      cases hb : decBytes r1 with
      | eof => simp [hb] at this
      | invalid => simp [hb] at this
      | ok b r2 =>
        simp only [hb, DecRes.bind_ok, DecRes.ok.injEq, Prod.mk.injEq] at this
        obtain ⟨⟨h1, h2⟩, h3⟩ := this
        subst h1 h2 h3
        simp [Record.tag, decBody, encBody, hd, hb]
  | commit id => simp [Record.tag, decBody, encBody, good_logId.rt id rest h]
  | truncateAfter o => simp [Record.tag, decBody, encBody, good_optLogId.rt o rest h]
  | purgeUpto id => simp [Record.tag, decBody, encBody, good_logId.rt id rest h]
  | state s => simp [Record.tag, decBody, encBody, good_state.rt s rest h]

theorem body_canon {tag : Nat} {bs : Bytes} {r : Record} {rest : Bytes}
    (h : decBody tag bs = .ok r rest) : bs = encBody r ++ rest ∧ r.WF ∧ r.tag = tag := by
  unfold decBody at h
  split at h
  · cases hd : decLogId bs with
    | eof => simp [hd] at h
    | invalid => simp [hd] at h
    | ok a r1 =>
      simp only [hd, DecRes.bind_ok, DecRes.ok.injEq] at h
      obtain ⟨h1, h2⟩ := h; subst h1 h2
      have := good_logId.canon _ _ _ hd
      exact ⟨this.1, this.2, rfl⟩
  · cases hd : decLogId bs with
    | eof => simp [hd] at h
    | invalid => simp [hd] at h
    | ok a r1 =>
      simp only [hd, DecRes.bind_ok] at h
      cases hb : decBytes r1 with
      | eof => simp [hb] at h
      | invalid => simp [hb] at h
      | ok b r2 =>
        simp only [hb, DecRes.bind_ok, DecRes.ok.injEq] at h
        obtain ⟨h1, h2⟩ := h; subst h1 h2
        have c1 := good_logId.canon _ _ _ hd
        have c2 := good_bytes.canon _ _ _ hb
        refine ⟨?_, ⟨c1.2, c2.2⟩, rfl⟩
        rw [c1.1, c2.1]; simp [encBody]
  · cases hd : decLogId bs with
    | eof => simp [hd] at h
    | invalid => simp [hd] at h
    | ok a r1 =>
      simp only [hd, DecRes.bind_ok, DecRes.ok.injEq] at h
      obtain ⟨h1, h2⟩ := h; subst h1 h2
      have := good_logId.canon _ _ _ hd
      exact ⟨this.1, this.2, rfl⟩
  · cases hd : decOpt decLogId bs with
    | eof => simp [hd] at h
    | invalid => simp [hd] at h
    | ok a r1 =>
      simp only [hd, DecRes.bind_ok, DecRes.ok.injEq] at h
      obtain ⟨h1, h2⟩ := h; subst h1 h2
      have := good_optLogId.canon _ _ _ hd
      exact ⟨this.1, this.2, rfl⟩
  · cases hd : decLogId bs with
    | eof => simp [hd] at h
    | invalid => simp [hd] at h
    | ok a r1 =>
      simp only [hd, DecRes.bind_ok, DecRes.ok.injEq] at h
      obtain ⟨h1, h2⟩ := h; subst h1 h2
      have := good_logId.canon _ _ _ hd
      exact ⟨this.1, this.2, rfl⟩
  · cases hd : decState bs with
    | eof => simp [hd] at h
    | invalid => simp [hd] at h
    | ok a r1 =>
      simp only [hd, DecRes.bind_ok, DecRes.ok.injEq] at h
      obtain ⟨h1, h2⟩ := h; subst h1 h2
      have := good_state.canon _ _ _ hd
      exact ⟨this.1, this.2, rfl⟩
  · cases h

theorem body_pfx (r : Record) (bs t : Bytes) (h : r.WF) (ht : t ≠ [])
    (e : bs ++ t = encBody r) : decBody r.tag bs = .eof := by
  cases r with
  | saveVote v => simp [Record.tag, decBody, good_logId.pfx v bs t h ht e]
  | append id p =>
    have := good_appendBody.pfx (id, p) bs t h ht e
    simp only [Record.tag, decBody]
    cases hd : decLogId bs with
    | eof => rfl
    | invalid => simp [hd] at this
    | ok a r1 =>
      simp only [hd, DecRes.bind_ok] at this ⊢
      cases hb : decBytes r1 with
      | eof => rfl
      | invalid => simp [hb] at this
      | ok b r2 => simp [hb] at this
  | commit id => simp [Record.tag, decBody, good_logId.pfx id bs t h ht e]
  | truncateAfter o => simp [Record.tag, decBody, good_optLogId.pfx o bs t h ht e]
  | purgeUpto id => simp [Record.tag, decBody, good_logId.pfx id bs t h ht e]
  | state s => simp [Record.tag, decBody, good_state.pfx s bs t h ht e]

theorem Record.tag_lt (r : Record) : r.tag < 256 ^ 4 := by
  cases r <;> simp [Record.tag]

/-! ## Whole records -/

theorem crc32_lt (bs : Bytes) : crc32 bs < 256 ^ 8 := by
  unfold crc32
  have := (crcFeed 0xFFFFFFFF#32 bs ^^^ 0xFFFFFFFF#32).isLt
  have h : (2:Nat) ^ 32 ≤ 256 ^ 8 := by decide
  omega

/-- tag ‖ body. -/
def encTB (r : Record) : Bytes := natToBE 4 r.tag ++ encBody r

theorem encRecord_eq (r : Record) : encRecord r = encTB r ++ natToBE 8 (crc32 (encTB r)) := rfl

theorem record_rt (r : Record) (rest : Bytes) (h : r.WF) :
    decRecord (encRecord r ++ rest) = .ok r rest := by
  rw [encRecord_eq]
  unfold decRecord
  have e1 : encTB r ++ natToBE 8 (crc32 (encTB r)) ++ rest
      = natToBE 4 r.tag ++ (encBody r ++ (natToBE 8 (crc32 (encTB r)) ++ rest)) := by
    simp [encTB]
  rw [e1, decU_enc 4 r.tag _ r.tag_lt]
  simp only [DecRes.bind_ok]
  rw [body_rt r _ h]
  simp only [DecRes.bind_ok]
  rw [decU_enc 8 _ _ (crc32_lt _)]
  simp only [DecRes.bind_ok]
  have e2 : List.take
      ((natToBE 4 r.tag ++ (encBody r ++ (natToBE 8 (crc32 (encTB r)) ++ rest))).length
        - (natToBE 8 (crc32 (encTB r)) ++ rest).length)
      (natToBE 4 r.tag ++ (encBody r ++ (natToBE 8 (crc32 (encTB r)) ++ rest))) = encTB r := by
    have : natToBE 4 r.tag ++ (encBody r ++ (natToBE 8 (crc32 (encTB r)) ++ rest))
        = encTB r ++ (natToBE 8 (crc32 (encTB r)) ++ rest) := by simp [encTB]
    rw [this]
    apply List.take_left'
    simp
  rw [e2]
  simp

theorem record_canon {bs : Bytes} {r : Record} {rest : Bytes}
    (h : decRecord bs = .ok r rest) : bs = encRecord r ++ rest ∧ r.WF := by
  unfold decRecord at h
  cases h4 : decU 4 bs with
  | eof => simp [h4] at h
  | invalid => simp [h4] at h
  | ok tag r0 =>
    simp only [h4, DecRes.bind_ok] at h
    cases hb : decBody tag r0 with
    | eof => simp [hb] at h
    | invalid => simp [hb] at h
    | ok rec r1 =>
      simp only [hb, DecRes.bind_ok] at h
      cases h8 : decU 8 r1 with
      | eof => simp [h8] at h
      | invalid => simp [h8] at h
      | ok sum r2 =>
        simp only [h8, DecRes.bind_ok] at h
        split at h
        · rename_i hsum
          injection h with hr hrest
          subst hr hrest
          obtain ⟨e4, _⟩ := decU_ok h4
          obtain ⟨eb, wf, htag⟩ := body_canon hb
          obtain ⟨e8, _⟩ := decU_ok h8
          refine ⟨?_, wf⟩
          subst htag
          have hbs : bs = encTB rec ++ r1 := by rw [e4, eb]; simp [encTB]
          have hcons : List.take (bs.length - r1.length) bs = encTB rec := by
            rw [hbs]; apply List.take_left'; simp
          rw [hcons] at hsum
          rw [encRecord_eq, ← hsum, hbs, e8, List.append_assoc]
        · cases h

theorem record_pfx (r : Record) (bs t : Bytes) (h : r.WF) (ht : t ≠ [])
    (e : bs ++ t = encRecord r) : decRecord bs = .eof := by
  rw [encRecord_eq] at e
  unfold decRecord
  rcases split_prefix e ht with ⟨t', ht', e'⟩ | ⟨bs', e1, e2⟩
  · -- the cut is inside tag ‖ body
    unfold encTB at e'
    rcases split_prefix e' ht' with ⟨t'', ht'', e''⟩ | ⟨bs'', e1', e2'⟩
    · simp [(good_U 4).pfx r.tag bs t'' r.tag_lt ht'' e'']
    · subst e1'
      rw [decU_enc 4 r.tag _ r.tag_lt]
      simp [body_pfx r bs'' t' h ht' e2']
  · -- the cut is inside the checksum
    subst e1
    have e3 : encTB r ++ bs' = natToBE 4 r.tag ++ (encBody r ++ bs') := by simp [encTB]
    rw [e3, decU_enc 4 r.tag _ r.tag_lt]
    simp only [DecRes.bind_ok]
    rw [body_rt r _ h]
    simp only [DecRes.bind_ok]
    rw [(good_U 8).pfx _ bs' t (crc32_lt _) ht e2]
    rfl

end RaftLog
