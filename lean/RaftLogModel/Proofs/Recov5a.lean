/-
C05 (crash recoverability), part 1: `RaftLog::open` on a directory whose chunk
files all parse to prefixes of their chunks' records SUCCEEDS when `truncate` is set
and every chunk but the newest is complete. The result is described explicitly:
the closed chunks loaded, the records kept of the newest chunk, and what happens
to the newest file (reused / truncated and followed by a fresh chunk / removed
and recreated).
-/
import RaftLogModel.Proofs.CrashQG9
namespace RaftLog

/-! ### `openChunk` on a file that parses to a prefix of the chunk's records -/

/-- The truncation decision of `Chunk::open` for a tail `rest`. -/
def tailTruncC5b (rs : List Record) (rest : Bytes) : Option Nat :=
  if rest = [] then none else some (encAll rs).length

theorem openChunk_prefix_C5b {cfg : Cfg} (ht : cfg.truncate = true) {rs : List Record} {data : Bytes}
    {j : Nat} {e : ParseEnd} {rest : Bytes}
    (hp : parseChunk data = (sized (rs.take j), e, rest))
    (hcase : (e = .clean ∧ rest = []) ∨
     (e = .eof ∧ rest ≠ [] ∧ j < rs.length ∧ ∃ r t, r.WF ∧ t ≠ [] ∧ rest ++ t = encRecord r) ∨
     (∃ m, 1 ≤ m ∧ rest = List.replicate m 0 ∧ e = if m < 28 then .eof else .invalid)) (id : Nat) :
    openChunk cfg id data
      = .ok ⟨rs.take j, offsetsFrom id (sizes (rs.take j)), tailTruncC5b (rs.take j) rest⟩ := by
  rw [openChunk_of_parse hp]
  rcases hcase with ⟨e1, e2⟩ | ⟨e1, e2, _, _⟩ | ⟨m, hm, e1, e2⟩
  · subst e1; subst e2; simp [chunkResult, tailTruncC5b]
  · subst e1; simp [chunkResult, tailTruncC5b, ht, e2]
  · have hne : List.replicate m (0 : UInt8) ≠ [] := by
      intro h0
      have := congrArg List.length h0
      simp at this
      omega
    subst e1
    by_cases h28 : m < 28
    · rw [if_pos h28] at e2; subst e2
      simp [chunkResult, tailTruncC5b, ht, hne]
    · rw [if_neg h28] at e2; subst e2
      simp [chunkResult, tailTruncC5b, ht, hne, allZero_replicate]

/-! ### The last step of the loop -/

/-- The accumulator after the newest chunk `id` (records `rs ≠ []`, truncation `tr`)
was loaded and replayed to `sm2`. -/
def OpenAcc.loadedLastC5b (a : OpenAcc) (id : Nat) (rs : List Record) (tr : Option Nat) (sm2 : Store) :
    OpenAcc :=
  { (a.pre.afterTrunc id tr).synced id with
    sm := { sm2 with closed := sm2.closed ++ [⟨offsetsFrom id (sizes rs), sm2.st⟩] },
    prevEnd := some (lastOff (offsetsFrom id (sizes rs))),
    lastLogId := sm2.st.last,
    lastTruncated := tr.isSome }

theorem afterTrunc_sm_eq_C5b (a : OpenAcc) (id : Nat) (tr : Option Nat) :
    (a.pre.afterTrunc id tr).sm = a.pre.sm := by
  cases tr <;> rfl

theorem openLoop_last_C5b {cfg : Cfg} {a : OpenAcc} {id : Nat} {f : File} {rs : List Record}
    {tr : Option Nat} {sm2 : Store}
    (hg : gapCheck a id = false) (hf : a.fs.find id = some f)
    (hoc : openChunk cfg id f.data = .ok ⟨rs, offsetsFrom id (sizes rs), tr⟩)
    (hr : replay id rs (offsetsFrom id (sizes rs)) a.pre.sm = .ok sm2) :
    openLoop cfg [id] a =
      if rs = [] then (.ok (a.dropHeadless id tr), a.dropHeadless id tr)
      else (.ok (a.loadedLastC5b id rs tr sm2), a.loadedLastC5b id rs tr sm2) := by
  rw [openLoop_nogap cfg id [] a hg]
  simp only [hf, hoc]
  unfold openTail
  have hr' : replay id rs (offsetsFrom id (sizes rs)) (a.pre.afterTrunc id tr).sm = .ok sm2 := by
    rw [afterTrunc_sm_eq_C5b]; exact hr
  simp only [hr']
  by_cases hrs : rs = []
  · subst hrs
    simp only [replay, Res.ok.injEq] at hr'
    subst hr'
    simp only [List.isEmpty_nil, Bool.and_self, if_true]
    rfl
  · have : (rs.isEmpty && ([] : List Nat).isEmpty) = false := by
      cases rs with
      | nil => exact absurd rfl hrs
      | cons _ _ => rfl
    rw [this, if_neg hrs]
    rfl

/-! ### Where the loop stands after loading complete chunks -/

theorem loads_prevEnd_C5b {cfg : Cfg} : ∀ (jl : List (Closed × List Record)) (a a' : OpenAcc),
    Loads cfg (jl.map (·.1.id)) a a' →
    (∀ p ∈ jl, ∃ f, a.fs.find p.1.id = some f ∧ f.data = encAll p.2 ∧ AllWF p.2 ∧
      offsetsFrom p.1.id (sizes p.2) = p.1.offsets) →
    (jl = [] → a' = a) ∧ ∀ p, jl.getLast? = some p → a'.prevEnd = some (lastOff p.1.offsets) := by
  intro jl
  induction jl with
  | nil =>
    intro a a' h _
    cases h
    exact ⟨fun _ => rfl, fun p hp => (by cases hp)⟩
  | cons q rest ih =>
    intro a a' h hfiles
    obtain ⟨c, rs⟩ := q
    refine ⟨fun h0 => (by cases h0), ?_⟩
    simp only [List.map_cons] at h
    cases h with
    | @cons _ _ _ _ f' rs' sm2 hg hf hd hwf hne hr hrest =>
      obtain ⟨f, k1, k2, k3, k4⟩ := hfiles (c, rs) List.mem_cons_self
      simp only at k1 k2 k3 k4
      rw [hf] at k1
      cases k1
      have hrs : rs' = rs := encAll_inj_C3b hwf k3 (by rw [← hd, k2])
      subst hrs
      have hfiles' : ∀ p ∈ rest, ∃ f, (a.loaded c.id rs' sm2).fs.find p.1.id = some f ∧
          f.data = encAll p.2 ∧ AllWF p.2 ∧ offsetsFrom p.1.id (sizes p.2) = p.1.offsets :=
        fun p hp => by
          obtain ⟨f0, q1, q2, q3⟩ := hfiles p (List.mem_cons_of_mem _ hp)
          obtain ⟨f1, r1, r2, _⟩ := Fs.find_sync_some c.id q1
          exact ⟨f1, r1, r2.trans q2, q3⟩
      obtain ⟨i1, i2⟩ := ih _ _ hrest hfiles'
      intro p hp
      cases rest with
      | nil =>
        simp only [List.getLast?_singleton, Option.some.injEq] at hp
        subst hp
        rw [i1 rfl]
        simp only [OpenAcc.loaded, k4]
      | cons q2 rest' =>
        apply i2
        rw [List.getLast?_cons_cons] at hp
        exact hp

theorem chained_prefix_C5b : ∀ (a b : List (List Nat)), Chained (a ++ b) → Chained a := by
  intro a
  induction a with
  | nil => intro _ _; trivial
  | cons x a ih =>
    intro b h
    cases a with
    | nil => trivial
    | cons y a' =>
      simp only [List.cons_append, Chained] at h ⊢
      exact ⟨h.1, ih b h.2⟩

theorem chained_last_C5b : ∀ (a : List (List Nat)) (x y : List Nat), Chained (a ++ [x, y]) →
    lastOff x = y.headD 0 := by
  intro a
  induction a with
  | nil => intro x y h; exact h.1
  | cons z a ih =>
    intro x y h
    apply ih x y
    cases a with
    | nil => exact h.2
    | cons z2 a' => exact h.2

theorem offsetsFrom_headD_C5b (x : Nat) (l : List Nat) : (offsetsFrom x l).headD 0 = x := by
  obtain ⟨t, ht⟩ := offsetsFrom_eq_cons x l
  rw [ht]; rfl

/-! ### `replay` keeps the pending buffer -/

theorem smApply_pending_C5b {s s' : Store} {r : Record} {chunk : Nat} {seg : Seg}
    (h : s.smApply r chunk seg = .ok s') : s'.pending = s.pending := by
  obtain ⟨q1, q2⟩ := smApply_runs_C3 h
  obtain ⟨c, hc, _, _⟩ := smApply_of_runs s r chunk seg q1 q2
  rw [h] at hc
  injection hc with hc
  rw [hc]

theorem replay_pending_C5b (chunk : Nat) : ∀ (rs : List Record) (offs : List Nat) (s s' : Store),
    replay chunk rs offs s = .ok s' → s'.pending = s.pending := by
  intro rs
  induction rs with
  | nil => intro offs s s' h; simp only [replay, Res.ok.injEq] at h; subst h; rfl
  | cons r rs ih =>
    intro offs s s' h
    match offs with
    | [] => simp only [replay, Res.ok.injEq] at h; subst h; rfl
    | [_] => simp only [replay, Res.ok.injEq] at h; subst h; rfl
    | o1 :: o2 :: os =>
      simp only [replay] at h
      cases hsm : s.smApply r chunk ⟨o1, o2 - o1⟩ with
      | err k => rw [hsm] at h; cases h
      | panic m => rw [hsm] at h; cases h
      | ok s1 =>
        rw [hsm] at h
        simp only at h
        rw [ih _ _ _ h, smApply_pending_C5b hsm]

theorem loads_pending_C5b {cfg : Cfg} {ids : List Nat} {a a' : OpenAcc} (h : Loads cfg ids a a')
    (hp : a.sm.pending = []) : a'.sm.pending = [] := by
  induction h with
  | nil a => exact hp
  | @cons id rest a a' f rs sm2 hg hf hd hwf hne hr _ ih =>
    apply ih
    show sm2.pending = []
    rw [replay_pending_C5b _ _ _ _ _ hr]
    exact hp

/-! ### The loop on a directory with complete predecessors -/

/-- The loop on `img`: the chunks `jc` are complete files, the newest chunk `oid` parses
to the first `j` records of `jo`. -/
theorem openLoop_image_ok_C5b (cfg : Cfg) (ht : cfg.truncate = true) {img : Fs}
    {jc : List (Closed × List Record)} {oid : Nat} {jo : List Record} {stC : RState} {lC : Log}
    {g0 : File} {j : Nat} {e : ParseEnd} {rest : Bytes} {stJ : RState} {lJ : Log}
    (hids : img.linkedIds = jc.map (·.1.id) ++ [oid])
    (hfiles : ∀ p ∈ jc, ∃ f, img.find p.1.id = some f ∧ f.data = encAll p.2 ∧ AllWF p.2 ∧ p.2 ≠ [] ∧
      offsetsFrom p.1.id (sizes p.2) = p.1.offsets)
    (hrep : RepC jc {} [] stC lC)
    (hch : Chained (jc.map (·.1.offsets) ++ [offsetsFrom oid (sizes jo)]))
    (hg0 : img.find oid = some g0)
    (hparse : parseChunk g0.data = (sized (jo.take j), e, rest))
    (hcase : (e = .clean ∧ rest = []) ∨
     (e = .eof ∧ rest ≠ [] ∧ j < jo.length ∧ ∃ r t, r.WF ∧ t ≠ [] ∧ rest ++ t = encRecord r) ∨
     (∃ m, 1 ≤ m ∧ rest = List.replicate m 0 ∧ e = if m < 28 then .eof else .invalid))
    (hstJ : stRun (jo.take j) stC = some stJ) (hlJ : idxRun (chunkOps oid (jo.take j)) lC = some lJ)
    (hdur : AllDurable img) :
    ∃ (a1 : OpenAcc) (sm2 : Store), a1.fs = img ∧ a1.evs = syncEvs (jc.map (·.1.id)) ∧
      a1.sm.st = stC ∧ a1.sm.log = lC ∧
      a1.sm.closed = jc.map (·.1) ∧ a1.sm.removed = [] ∧ a1.sm.cfg = cfg ∧
      a1.sm.cache.maxItems = cfg.cacheItems ∧ a1.sm.cache.capacity = cfg.cacheCap ∧
      a1.sm.pending = [] ∧
      (jc ≠ [] → a1.lastTruncated = false) ∧
      sm2.st = stJ ∧ sm2.log = lJ ∧ SameRest a1.pre.sm sm2 ∧
      openLoop cfg img.linkedIds { sm := emptyStore cfg, fs := img } =
        if jo.take j = [] then
          (.ok (a1.dropHeadless oid (tailTruncC5b (jo.take j) rest)),
            a1.dropHeadless oid (tailTruncC5b (jo.take j) rest))
        else
          (.ok (a1.loadedLastC5b oid (jo.take j) (tailTruncC5b (jo.take j) rest) sm2),
            a1.loadedLastC5b oid (jo.take j) (tailTruncC5b (jo.take j) rest) sm2) := by
  have hchc : Chained (jc.map (·.1.offsets)) := chained_prefix_C5b _ _ hch
  obtain ⟨a1, m1, m2, m3, m4, m5, m6, m7, m8, m9⟩ :=
    loads_repC cfg jc { sm := emptyStore cfg, fs := img } stC lC hrep hfiles hchc (fun p _ => rfl)
  obtain ⟨hfs1, hevs1⟩ := m1.fs_evs
  have hfs1' : a1.fs = img := by rw [hfs1]; exact hdur.syncAll_eq _
  have hevs1' : a1.evs = syncEvs (jc.map (·.1.id)) := by rw [hevs1]; rfl
  obtain ⟨p1, p2⟩ := loads_prevEnd_C5b jc _ _ m1
    (fun p hp => by
      obtain ⟨f, k1, k2, k3, _, k5⟩ := hfiles p hp
      exact ⟨f, k1, k2, k3, k5⟩)
  -- the gap check for the newest chunk
  have hgap : gapCheck a1 oid = false := by
    cases hl : jc.getLast? with
    | none =>
      have : jc = [] := List.getLast?_eq_none_iff.mp hl
      rw [p1 this]; rfl
    | some p =>
      have hp := p2 p hl
      obtain ⟨ys, hsplit⟩ := List.getLast?_eq_some_iff.mp hl
      have : lastOff p.1.offsets = oid := by
        rw [hsplit, List.map_append, List.append_assoc] at hch
        have := chained_last_C5b _ _ _ hch
        rw [offsetsFrom_headD_C5b] at this
        exact this
      simp [gapCheck, hp, this]
  have hf1 : a1.fs.find oid = some g0 := by rw [hfs1']; exact hg0
  have hoc := openChunk_prefix_C5b ht hparse hcase oid
  obtain ⟨sm2, hrep2, k1, k2, k3⟩ := replay_of_runs oid (jo.take j) oid a1.pre.sm stJ lJ
    (by show stRun (jo.take j) a1.sm.st = some stJ; rw [m2]; exact hstJ)
    (by show idxRun (opsFrom oid oid (jo.take j)) a1.sm.log = some lJ; rw [m3]; exact hlJ)
  refine ⟨a1, sm2, hfs1', hevs1', m2, m3, by rw [m4]; rfl, m5, m6, m7, m8,
    loads_pending_C5b m1 rfl, m9, k1, k2, k3, ?_⟩
  rw [hids, m1.openLoop_append [oid]]
  exact openLoop_last_C5b hgap hf1 hoc hrep2

/-! ### File lookups after the recovery effects -/

theorem find_truncate_ne_C5b (fs : Fs) {id id' : Nat} (h : id' ≠ id) (len : Nat) :
    (fs.truncate id len).find id' = fs.find id' := by
  rw [Fs.find_truncate]
  cases hf : fs.find id' with
  | none => rfl
  | some f =>
    have hid := find_id hf
    have : (f.id == id) = false := by rw [hid]; exact beq_false_of_ne h
    simp only [Option.map_some, this, Bool.false_eq_true, if_false]

theorem find_truncate_self_C5b {fs : Fs} {id : Nat} {f : File} (hf : fs.find id = some f) (len : Nat) :
    (fs.truncate id len).find id
      = some { f with data := f.data.take len, durable := min f.durable len } := by
  rw [Fs.find_truncate, hf]
  have hid := find_id hf
  simp [hid]

theorem find_unlink_ne_C5b (fs : Fs) {id id' : Nat} (h : id' ≠ id) :
    (fs.unlink id).find id' = fs.find id' := by
  rw [Fs.find_unlink]
  cases hf : fs.find id' with
  | none => rfl
  | some f =>
    have hid := find_id hf
    have : (f.id == id) = false := by rw [hid]; exact beq_false_of_ne h
    simp only [Option.map_some, this, Bool.false_eq_true, if_false]

theorem ids_truncate_C5b (fs : Fs) (id len : Nat) : Fs.ids (fs.truncate id len) = Fs.ids fs :=
  Fs.ids_update fs id _ (fun _ => rfl)

theorem mem_update_C5b {fs : Fs} {id : Nat} {g : File → File} {f : File} (h : f ∈ fs.update id g) :
    ∃ f0 ∈ fs, (f = f0 ∧ f0.id ≠ id) ∨ (f = g f0 ∧ f0.id = id) := by
  unfold Fs.update at h
  obtain ⟨f0, h0, e⟩ := List.mem_map.mp h
  refine ⟨f0, h0, ?_⟩
  split at e
  · rename_i hc
    exact Or.inr ⟨e.symm, by simpa using hc⟩
  · rename_i hc
    exact Or.inl ⟨e.symm, by simpa using hc⟩

theorem linked_truncate_C5b {fs : Fs} (h : ∀ f ∈ fs, f.linked = true) (id len : Nat) :
    ∀ f ∈ fs.truncate id len, f.linked = true := by
  intro f hf
  obtain ⟨f0, h0, ⟨e, _⟩ | ⟨e, _⟩⟩ := mem_update_C5b hf
  · rw [e]; exact h f0 h0
  · rw [e]; exact h f0 h0

theorem linked_unlink_C5b {fs : Fs} (h : ∀ f ∈ fs, f.linked = true) (id : Nat) :
    ∀ f ∈ fs.unlink id, f.id ≠ id → f.linked = true := by
  intro f hf hne
  obtain ⟨f0, h0, ⟨e, _⟩ | ⟨e, hid⟩⟩ := mem_update_C5b hf
  · rw [e]; exact h f0 h0
  · exfalso
    rw [e] at hne
    exact hne hid

theorem linked_create_write_C5b {fs : Fs} (n : Nat) (hd : Bytes)
    (h : ∀ f ∈ fs, f.id ≠ n → f.linked = true) :
    ∀ f ∈ (fs.create n).write n hd, f.linked = true := by
  intro f hf
  have key : ∀ f0 ∈ fs.create n, f0.linked = true := by
    intro f0 h0
    unfold Fs.create at h0
    rcases List.mem_append.mp h0 with k | k
    · obtain ⟨k1, k2⟩ := List.mem_filter.mp k
      exact h f0 k1 (by simpa using k2)
    · simp only [List.mem_singleton] at k; subst k; rfl
  obtain ⟨f0, h0, ⟨e, _⟩ | ⟨e, _⟩⟩ := mem_update_C5b hf
  · rw [e]; exact key f0 h0
  · rw [e]; exact key f0 h0

/-! ### The recovered store, described by its chunks -/

/-- What `open` returns, in terms of record lists: `jc'` the closed chunks, `jo'` the
open chunk; every chunk file is linked and holds exactly the encoding of its records;
replaying them gives the state and the index map; the worker is fresh; the linked files
are exactly the chunks. -/
structure RecovC5b (s' : Store) (w' : Worker) (fs' : Fs) (jc' : List (Closed × List Record))
    (jo' : List Record) : Prop where
  closedEq : jc'.map (·.1) = s'.closed
  files : ∀ p ∈ jc', ∃ f, fs'.find p.1.id = some f ∧ f.linked = true ∧ f.data = encAll p.2 ∧
    f.durable = f.data.length ∧ ChunkRecs p.1.offsets p.2 (encAll p.2)
  openFile : ∃ f, fs'.find s'.openId = some f ∧ f.linked = true ∧ f.data = encAll jo' ∧
    ChunkRecs s'.openOffsets jo' (encAll jo') ∧
    (f.durable = f.data.length ∨ (f.durable = 0 ∧ jo' = [.state s'.st] ∧ (jc' = [] → s'.st = {})))
  run : ∃ stC lC, RepC jc' {} [] stC lC ∧ stRun jo' stC = some s'.st ∧
    idxRun (chunkOps s'.openId jo') lC = some s'.log ∧ (jc' ≠ [] → ∃ tl, jo' = .state stC :: tl)
  chained : Chained s'.chunks
  pending : s'.pending = []
  removed : s'.removed = []
  worker : ∃ pl, w' = { files := [⟨s'.openId, pl⟩] }
  has : ∀ id, fs'.has id = true → id ∈ s'.chunkIds
  nodup : (Fs.ids fs').Nodup
  idsLe : ∀ i ∈ Fs.ids fs', i ≤ s'.openId
  allLinked : ∀ f ∈ fs', f.linked = true

end RaftLog
