/-
Step-level invariants of the flush worker machine. Used by Props C04, C08, C14.

File layout of the worker proofs:
  WorkerBlocks  definitions (pendingAppends, cbQueue, Covered, Worker.WF, stepSys, stepCbs, ...),
                lemmas on toRecv / nonFlush / finishBatch / startSync / startWrites / die /
                collectBatch, and the case-analysis principle `WCtx.step_elim`
  WorkerInv     (this file) WF invariance, events of a step, coverage, callback queue,
                the dying step, lastSyncFailed / postponed / start of a removal
  WorkerTerm    termination measure `Worker.drainCost`, comparison with `Worker.fuel`,
                `TodoOK`, behaviour after the channel is closed
  WorkerRuns    projections `cbsOf` / `unlinksOf`, runs with arbitrary outcomes, the all-ok run
  WorkerCaller  `applyEffs` (rotation, flush), `popObsolete`, `Sys.dropStore`
  WorkerSys     system-level invariants (`SysWF`, `EffsCov`, `SysCovered`)
-/
import RaftLogModel.Proofs.WorkerBlocks
namespace RaftLog

/-! ## Well-formedness is invariant -/

theorem Worker.WF.of_isRest {w : Worker} (hp : w.pc.isRest) (hf : w.files ≠ [])
    (hd : w.pc = .dead → w.queue = []) (hu : ∀ ids, w.pc = .unlinking ids → w.lastSyncFailed = false) :
    w.WF := by
  unfold Worker.WF
  cases h : w.pc with
  | dead => exact hd h
  | idle => exact hf
  | got r => exact hf
  | unlinking ids => exact ⟨hf, hu ids h⟩
  | writing a b c => rw [h] at hp; cases hp
  | syncOld a b => rw [h] at hp; cases hp
  | syncNew a b => rw [h] at hp; cases hp

theorem Worker.WF.files_ne {w : Worker} (h : w.WF) (hp : w.pc ≠ .dead) : w.files ≠ [] := by
  unfold Worker.WF at h
  cases hpc : w.pc with
  | dead => exact absurd hpc hp
  | idle => rw [hpc] at h; exact h
  | got r => rw [hpc] at h; exact h
  | unlinking ids => rw [hpc] at h; exact h.1
  | writing a b c => rw [hpc] at h; exact h
  | syncOld a b => rw [hpc] at h; simp only at h; intro h0; rw [h0] at h; simp at h
  | syncNew a b => rw [hpc] at h; simp only at h; intro h0; rw [h0] at h; simp at h

theorem WCtx.toRecv_wf (c : WCtx) (hf : c.w.files ≠ []) : c.toRecv.w.WF := by
  have := c.toRecv_pc
  refine Worker.WF.of_isRest this.1.isRest (by simpa using hf) this.2 ?_
  intro ids hp
  have h1 := this.1
  rw [hp] at h1
  cases h1

theorem WCtx.nonFlush_wf (c : WCtx) (r : WReq) (hf : c.w.files ≠ []) : (c.nonFlush r).w.WF := by
  have := c.nonFlush_pc r
  refine Worker.WF.of_isRest this.1 (by simp [hf]) this.2.1 ?_
  intro ids hp
  rw [WCtx.nonFlush_lsf]
  exact (this.2.2 ids hp).1

theorem WCtx.finishBatch_wf (c : WCtx) (b : List WReq) (t : Option WReq) (ok : Bool)
    (hf : c.w.files ≠ []) : (c.finishBatch b t ok).w.WF := by
  have := c.finishBatch_pc b t ok
  refine Worker.WF.of_isRest this.1 (by simp [hf]) this.2.1 ?_
  intro ids hp
  rw [WCtx.finishBatch_lsf]
  simp [(this.2.2 ids hp).1]

theorem WCtx.startSync_wf (c : WCtx) (b : List WReq) (t : Option WReq)
    (hf : c.w.files ≠ []) : (c.startSync b t).w.WF := by
  rcases c.startSync_cases b t with ⟨h, _⟩ | ⟨f, h, he⟩ | ⟨h, he⟩
  · exact absurd h hf
  · rw [he]; simp [Worker.WF, h]
  · rw [he]; simp [Worker.WF, h]

theorem WCtx.startWrites_wf (c : WCtx) (b : List WReq) (t : Option WReq)
    (hf : c.w.files ≠ []) : (c.startWrites b t).w.WF := by
  rcases c.startWrites_cases b t with ⟨_, he⟩ | ⟨_, he⟩
  · rw [he]; exact c.startSync_wf b t hf
  · rw [he]; simp [Worker.WF, hf]

theorem WCtx.die_wf (c : WCtx) (h : List WReq) : (c.die h).w.WF := by
  simp [Worker.WF]

/-- `Worker.WF` is preserved by every step, whatever the outcome. -/
theorem WCtx.step_wf (c : WCtx) (out : Outcome) (h : c.w.WF) : (c.step out).w.WF := by
  apply c.step_elim (P := fun c' => c'.w.WF) out
  · intro _ _; exact h
  · intro hpc _; exact c.toRecv_wf (h.files_ne (by simp [hpc]))
  · intro r hpc _ _; exact WCtx.startWrites_wf _ _ _ (h.files_ne (by simp [hpc]))
  · intro r hpc _ _; exact c.nonFlush_wf r (h.files_ne (by simp [hpc]))
  · intro b t hpc _; exact c.startSync_wf b t (h.files_ne (by simp [hpc]))
  · intro d rest b t hpc _ _; exact WCtx.die_wf _ _
  · intro d rest b t k hpc _ _ _ _
    have := h.files_ne (by simp [hpc])
    simp [Worker.WF, this]
  · intro d b t hpc _ _; exact WCtx.startSync_wf _ b t (h.files_ne (by simp [hpc]))
  · intro d d' rest b t hpc _ _
    have := h.files_ne (by simp [hpc])
    simp [Worker.WF, this]
  · intro b t hpc hf _; exact absurd hf (h.files_ne (by simp [hpc]))
  · intro b t f rest hpc hf _ _
    exact WCtx.finishBatch_wf _ b t false (by simp [hf])
  · intro b t f rest hpc hf _ _
    refine WCtx.startSync_wf _ b t ?_
    simp only [Worker.WF, hpc, hf, List.length_cons] at h
    simp only [WCtx.synced_w, WCtx.setFiles_w]
    intro h0; rw [h0] at h; simp at h
  · intro b t hpc hf _; exact absurd hf (h.files_ne (by simp [hpc]))
  · intro b t f rest hpc hf _ _
    exact WCtx.finishBatch_wf _ b t false (by simp [hf])
  · intro b t f rest hpc hf _ _
    exact WCtx.finishBatch_wf _ b t true (by simp [hf])
  · intro hpc _; exact c.toRecv_wf (h.files_ne (by simp [hpc]))
  · intro i rest hpc _ _; exact WCtx.die_wf _ _
  · intro i hpc _ _; exact WCtx.toRecv_wf _ (by simpa using h.files_ne (by simp [hpc]))
  · intro i j rest hpc _ _
    simp only [Worker.WF, hpc] at h
    simp [Worker.WF, h]

/-! ## The events of a step -/

theorem WCtx.startSync_evs (c : WCtx) (b : List WReq) (t : Option WReq) :
    ∃ cbs rest, (c.startSync b t).evs = c.evs ++ cbEvs cbs ++ rest ∧ (∀ e ∈ rest, e.isMisc = true) ∧
      (c.w.files ≠ [] → cbs = []) := by
  rcases c.startSync_cases b t with ⟨h, he⟩ | ⟨f, h, he⟩ | ⟨h, he⟩
  · obtain ⟨rest, h1, h2⟩ := c.finishBatch_evs b t true
    exact ⟨_, rest, by rw [he, h1], h2, fun hf => absurd h hf⟩
  · rw [he]; exact ⟨[], [.boundary f.prevLast], by simp [cbEvs], by simp [Ev.isMisc], fun _ => rfl⟩
  · rw [he]; exact ⟨[], [], by simp [cbEvs], Ev.allMisc_nil, fun _ => rfl⟩

theorem WCtx.startWrites_evs (c : WCtx) (b : List WReq) (t : Option WReq) :
    ∃ cbs rest, (c.startWrites b t).evs = c.evs ++ cbEvs cbs ++ rest ∧ (∀ e ∈ rest, e.isMisc = true) ∧
      (c.w.files ≠ [] → cbs = []) := by
  rcases c.startWrites_cases b t with ⟨_, he⟩ | ⟨_, he⟩
  · rw [he]; exact c.startSync_evs b t
  · rw [he]; exact ⟨[], [], by simp [cbEvs], Ev.allMisc_nil, fun _ => rfl⟩

/-- What one step appends to the event list: its system-call event, then
acknowledgements, then bookkeeping events. -/
def StepEvs (c : WCtx) (out : Outcome) (c' : WCtx) : Prop :=
  ∃ cbs rest, c'.evs = c.evs ++ stepSys c out ++ cbEvs cbs ++ rest ∧ (∀ e ∈ rest, e.isMisc = true) ∧
    (c.w.WF → cbs = stepCbs c out)

theorem StepEvs.mk' {c c' : WCtx} {out : Outcome} {sys : List Ev} (hsys : stepSys c out = sys)
    (cbs : List (Nat × Bool))
    (h : ∃ rest, c'.evs = c.evs ++ sys ++ cbEvs cbs ++ rest ∧ ∀ e ∈ rest, e.isMisc = true)
    (hc : c.w.WF → cbs = stepCbs c out) : StepEvs c out c' := by
  obtain ⟨rest, h1, h2⟩ := h
  exact ⟨cbs, rest, by rw [hsys]; exact h1, h2, hc⟩

theorem StepEvs.of_sync {c c0 c' : WCtx} {out : Outcome} {sys : List Ev} (hsys : stepSys c out = sys)
    (h0 : c0.evs = c.evs ++ sys)
    (h : ∃ cbs rest, c'.evs = c0.evs ++ cbEvs cbs ++ rest ∧ (∀ e ∈ rest, e.isMisc = true) ∧
      (c0.w.files ≠ [] → cbs = []))
    (hf : c.w.WF → c0.w.files ≠ []) (hc : c.w.WF → stepCbs c out = []) : StepEvs c out c' := by
  obtain ⟨cbs, rest, h1, h2, h3⟩ := h
  exact ⟨cbs, rest, by rw [hsys, h1, h0], h2, fun hw => by rw [hc hw]; exact h3 (hf hw)⟩

theorem WCtx.step_evs (c : WCtx) (out : Outcome) : StepEvs c out (c.step out) := by
  apply c.step_elim (P := fun c' => StepEvs c out c') out
  · intro hpc hs
    exact .mk' hs [] ⟨[], by simp [cbEvs], Ev.allMisc_nil⟩ (by simp [stepCbs, hpc])
  · intro hpc hs
    obtain ⟨rest, h1, h2⟩ := c.toRecv_evs
    exact .mk' hs [] ⟨rest, by simp [cbEvs, h1], h2⟩ (by simp [stepCbs, hpc])
  · intro r hpc _ hs
    refine .of_sync hs (c0 := c.setQueue _) (by simp) (WCtx.startWrites_evs _ _ _) ?_ (by simp [stepCbs, hpc])
    intro hw; exact hw.files_ne (by simp [hpc])
  · intro r hpc _ hs
    obtain ⟨rest, h1, h2⟩ := c.nonFlush_evs r
    exact .mk' hs [] ⟨rest, by simp [cbEvs, h1], h2⟩ (by simp [stepCbs, hpc])
  · intro b t hpc hs
    refine .of_sync hs (c0 := c) (by simp) (WCtx.startSync_evs _ _ _) ?_ (by simp [stepCbs, hpc])
    intro hw; exact hw.files_ne (by simp [hpc])
  · intro d rest b t hpc _ hs
    obtain ⟨rest, h1, h2⟩ := (c.emit (.write "w" (newestId c.w.files) d false)).die_evs_misc (b ++ t.toList)
    exact .mk' hs [] ⟨rest, by simp [cbEvs, h1], h2⟩ (by simp [stepCbs, hpc])
  · intro d rest b t k hpc _ _ _ hs
    exact .mk' hs [] ⟨[], by simp [cbEvs], Ev.allMisc_nil⟩ (by simp [stepCbs, hpc])
  · intro d b t hpc _ hs
    refine .of_sync hs (c0 := c.wrote _ _) (by simp) (WCtx.startSync_evs _ _ _) ?_ (by simp [stepCbs, hpc])
    intro hw; exact hw.files_ne (by simp [hpc])
  · intro d d' rest b t hpc _ hs
    exact .mk' hs [] ⟨[], by simp [cbEvs], Ev.allMisc_nil⟩ (by simp [stepCbs, hpc])
  · intro b t hpc hf hs
    obtain ⟨rest, h1, h2⟩ := c.finishBatch_evs b t true
    refine .mk' hs (batchCbs b true) ⟨rest, by simp [h1], h2⟩ ?_
    intro hw; exact absurd hf (hw.files_ne (by simp [hpc]))
  · intro b t f rest hpc hf ho hs
    obtain ⟨rest, h1, h2⟩ := (c.emit (.sync "w" f.id false)).finishBatch_evs b t false
    exact .mk' hs (batchCbs b false) ⟨rest, by simp [h1], h2⟩ (by simp [stepCbs, hpc, ho])
  · intro b t f rest hpc hf ho hs
    refine .of_sync hs (c0 := (c.setFiles rest).synced f.id) (by simp) (WCtx.startSync_evs _ _ _) ?_
      (by simp [stepCbs, hpc, ho])
    intro hw
    simp only [Worker.WF, hpc, hf, List.length_cons] at hw
    simp only [WCtx.synced_w, WCtx.setFiles_w]
    intro h0; rw [h0] at hw; simp at hw
  · intro b t hpc hf hs
    obtain ⟨rest, h1, h2⟩ := c.finishBatch_evs b t true
    refine .mk' hs (batchCbs b true) ⟨rest, by simp [h1], h2⟩ ?_
    intro hw; exact absurd hf (hw.files_ne (by simp [hpc]))
  · intro b t f rest hpc hf ho hs
    obtain ⟨rest, h1, h2⟩ := (c.emit (.sync "w" f.id false)).finishBatch_evs b t false
    exact .mk' hs (batchCbs b false) ⟨rest, by simp [h1], h2⟩ (by simp [stepCbs, hpc, ho])
  · intro b t f rest hpc hf ho hs
    obtain ⟨rest, h1, h2⟩ := (c.synced f.id).finishBatch_evs b t true
    have ho' : (out != Outcome.eio) = true := by simpa using ho
    exact .mk' hs (batchCbs b true) ⟨rest, by simp [h1], h2⟩ (by simp [stepCbs, hpc, ho'])
  · intro hpc hs
    obtain ⟨rest, h1, h2⟩ := c.toRecv_evs
    exact .mk' hs [] ⟨rest, by simp [cbEvs, h1], h2⟩ (by simp [stepCbs, hpc])
  · intro i rest hpc _ hs
    obtain ⟨rest, h1, h2⟩ := (c.emit (.unlink "w" i false)).die_evs_misc []
    exact .mk' hs [] ⟨rest, by simp [cbEvs, h1], h2⟩ (by simp [stepCbs, hpc])
  · intro i hpc _ hs
    obtain ⟨rest, h1, h2⟩ := (c.unlinked i).toRecv_evs
    exact .mk' hs [] ⟨rest, by simp [cbEvs, h1], h2⟩ (by simp [stepCbs, hpc])
  · intro i j rest hpc _ hs
    exact .mk' hs [] ⟨[], by simp [cbEvs], Ev.allMisc_nil⟩ (by simp [stepCbs, hpc])

/-! ## Coverage of unsynced files -/

/-- `x` is one of `files` or announced by an `appendFile` in `reqs`. -/
def TrkPre (files : List FileEnt) (reqs : List WReq) (x : Nat) : Prop :=
  x ∈ files.map FileEnt.id ∨ x ∈ reqs.filterMap WReq.appendId

theorem Trk_iff (w : Worker) (x : Nat) : Trk w x ↔ TrkPre w.files (w.pc.held ++ w.queue) x := Iff.rfl

theorem ents_ids (r : WReq) : r.ents.map FileEnt.id = [r].filterMap WReq.appendId := by
  cases r <;> simp [WReq.ents, WReq.appendId]

theorem tailEnts_ids (t : Option WReq) : (tailEnts t).map FileEnt.id = t.toList.filterMap WReq.appendId := by
  cases t with
  | none => rfl
  | some r => exact ents_ids r

theorem WCtx.toRecv_trk (c : WCtx) (x : Nat) (h : TrkPre c.w.files c.w.queue x) : Trk c.toRecv.w x := by
  rw [Trk_iff]; simpa using h

theorem WCtx.nonFlush_trk (c : WCtx) (r : WReq) (x : Nat) (h : TrkPre c.w.files (r :: c.w.queue) x) :
    Trk (c.nonFlush r).w x := by
  rw [Trk_iff]
  simp only [WCtx.nonFlush_files, WCtx.nonFlush_held]
  unfold TrkPre at *
  rw [List.map_append, ents_ids, List.mem_append]
  rw [show r :: c.w.queue = [r] ++ c.w.queue from rfl, List.filterMap_append, List.mem_append] at h
  rcases h with h | h | h
  · exact .inl (.inl h)
  · exact .inl (.inr h)
  · exact .inr h

theorem WCtx.finishBatch_trk (c : WCtx) (b : List WReq) (t : Option WReq) (ok : Bool) (x : Nat)
    (h : TrkPre c.w.files (t.toList ++ c.w.queue) x) : Trk (c.finishBatch b t ok).w x := by
  rw [Trk_iff]
  simp only [WCtx.finishBatch_files, WCtx.finishBatch_held]
  unfold TrkPre at *
  rw [List.map_append, tailEnts_ids, List.mem_append]
  rw [List.filterMap_append, List.mem_append] at h
  rcases h with h | h | h
  · exact .inl (.inl h)
  · exact .inl (.inr h)
  · exact .inr h

theorem WCtx.startSync_trk (c : WCtx) (b : List WReq) (t : Option WReq) (x : Nat)
    (h : TrkPre c.w.files (t.toList ++ c.w.queue) x) : Trk (c.startSync b t).w x := by
  rcases c.startSync_cases b t with ⟨_, he⟩ | ⟨f, _, he⟩ | ⟨_, he⟩ <;> rw [he]
  · exact c.finishBatch_trk b t true x h
  · exact h
  · exact h

theorem WCtx.startWrites_trk (c : WCtx) (b : List WReq) (t : Option WReq) (x : Nat)
    (h : TrkPre c.w.files (t.toList ++ c.w.queue) x) : Trk (c.startWrites b t).w x := by
  rcases c.startWrites_cases b t with ⟨_, he⟩ | ⟨_, he⟩ <;> rw [he]
  · exact c.startSync_trk b t x h
  · exact h

@[simp] theorem WCtx.startSync_fsW (c : WCtx) (b : List WReq) (t : Option WReq) : (c.startSync b t).fs = c.fs := by
  rcases c.startSync_cases b t with ⟨_, he⟩ | ⟨f, _, he⟩ | ⟨_, he⟩ <;> rw [he]
  exact c.finishBatch_fsW b t true

@[simp] theorem WCtx.startWrites_fsW (c : WCtx) (b : List WReq) (t : Option WReq) : (c.startWrites b t).fs = c.fs := by
  rcases c.startWrites_cases b t with ⟨_, he⟩ | ⟨_, he⟩ <;> rw [he]
  exact c.startSync_fsW b t

/-- A file with bytes not known durable. -/
def File.unsynced (f : File) : Prop := f.durable < f.data.length

theorem Fs.mem_update {fs : Fs} {id : Nat} {h : File → File} {g' : File} (hm : g' ∈ fs.update id h) :
    ∃ g ∈ fs, g' = if g.id == id then h g else g := by
  simp only [Fs.update, List.mem_map] at hm
  obtain ⟨g, hg, rfl⟩ := hm
  exact ⟨g, hg, rfl⟩

theorem Fs.mem_write {fs : Fs} {id : Nat} {bs : Bytes} {g' : File} (hm : g' ∈ fs.write id bs) :
    g'.id = id ∨ g' ∈ fs := by
  obtain ⟨g, hg, rfl⟩ := Fs.mem_update hm
  by_cases h : g.id = id
  · left; simp [h]
  · right; simpa [h] using hg

theorem Fs.mem_sync {fs : Fs} {id : Nat} {g' : File} (hm : g' ∈ fs.sync id) :
    (g'.id = id ∧ g'.durable = g'.data.length) ∨ (g'.id ≠ id ∧ g' ∈ fs) := by
  obtain ⟨g, hg, rfl⟩ := Fs.mem_update hm
  by_cases h : g.id = id
  · left; simp [h]
  · right; simpa [h] using hg

theorem Fs.mem_unlink {fs : Fs} {id : Nat} {g' : File} (hm : g' ∈ fs.unlink id) :
    g'.linked = false ∨ g' ∈ fs := by
  obtain ⟨g, hg, rfl⟩ := Fs.mem_update hm
  by_cases h : g.id = id
  · left; simp [h]
  · right; simpa [h] using hg

theorem Covered.of {c c' : WCtx}
    (h : ∀ g' ∈ c'.fs, g'.durable < g'.data.length → g'.linked = true →
      Trk c'.w g'.id ∨ (g' ∈ c.fs ∧ (Trk c.w g'.id → Trk c'.w g'.id)))
    (hc : Covered c) : Covered c' := by
  intro g' hg' hu hl
  rcases h g' hg' hu hl with h1 | ⟨h1, h2⟩
  · exact h1
  · exact h2 (hc g' h1 hu hl)

theorem Covered.of_fs_eq {c c' : WCtx} (hfs : c'.fs = c.fs) (hT : ∀ x, Trk c.w x → Trk c'.w x)
    (hc : Covered c) : Covered c' := by
  refine Covered.of ?_ hc
  intro g' hg' _ _
  exact .inr ⟨hfs ▸ hg', hT _⟩

theorem newestId_mem {files : List FileEnt} (h : files ≠ []) : newestId files ∈ files.map FileEnt.id := by
  unfold newestId
  cases hl : files.getLast? with
  | none => simp [List.getLast?_eq_none_iff] at hl; exact absurd hl h
  | some f =>
    simp only [List.mem_map]
    exact ⟨f, List.mem_of_getLast? hl, rfl⟩

theorem Trk.of_pc {w : Worker} {x : Nat} {pc : WPc} (h : Trk w x) (hh : w.pc = pc) :
    TrkPre w.files (pc.held ++ w.queue) x := by
  rw [Trk_iff, hh] at h; exact h

/-- Coverage survives the batch collection at `got (write ..)`. -/
theorem TrkPre.collect {files : List FileEnt} {r : WReq} {q : List WReq} {x : Nat} (hr : r.isWrite = true)
    (h : TrkPre files ([r] ++ q) x) :
    TrkPre files ((collectBatch 1024 q).2.1.toList ++ (collectBatch 1024 q).2.2) x := by
  obtain ⟨h1, h2, _⟩ := collectBatch_specW 1024 q
  unfold TrkPre at *
  rcases h with h | h
  · exact .inl h
  · right
    rw [List.filterMap_append, List.mem_append] at h
    rcases h with h | h
    · simp [isWrite_appendId hr] at h
    · rw [h1, List.append_assoc, List.filterMap_append, List.mem_append] at h
      rcases h with h | h
      · rw [filterMap_eq_nil_of_forall _ _ (fun a ha => isWrite_appendId (h2 a ha))] at h
        cases h
      · exact h

/-- `Covered` is preserved by every step that does not kill the worker. -/
theorem WCtx.step_covered (c : WCtx) (out : Outcome) (hw : c.w.WF) (hd : c.dies out = false)
    (hc : Covered c) : Covered (c.step out) := by
  apply c.step_elim (P := fun c' => Covered c') out
  · intro _ _; exact hc
  · intro hpc _
    exact hc.of_fs_eq (by simp) fun x hx => c.toRecv_trk x (hx.of_pc hpc)
  · intro r hpc hr _
    refine hc.of_fs_eq (by simp) fun x hx => WCtx.startWrites_trk _ _ _ x ?_
    exact TrkPre.collect hr (hx.of_pc hpc)
  · intro r hpc _ _
    exact hc.of_fs_eq (by simp) fun x hx => c.nonFlush_trk r x (hx.of_pc hpc)
  · intro b t hpc _
    exact hc.of_fs_eq (by simp) fun x hx => c.startSync_trk b t x (hx.of_pc hpc)
  · intro d rest b t hpc ho _
    simp [WCtx.dies, hpc, ho] at hd
  · intro d rest b t k hpc _ _ _ _
    have hne := hw.files_ne (by simp [hpc])
    refine Covered.of ?_ hc
    intro g' hg' _ _
    have hT : ∀ x, Trk c.w x → Trk ((c.wrote (newestId c.w.files) (d.take k)).setPc
        (.writing (d.drop k :: rest) b t)).w x := by
      intro x hx
      have := hx.of_pc hpc
      exact this
    rcases Fs.mem_write (by simpa using hg') with h | h
    · left; rw [h]; exact hT _ (.inl (newestId_mem hne))
    · exact .inr ⟨h, hT _⟩
  · intro d b t hpc _ _
    have hne := hw.files_ne (by simp [hpc])
    refine Covered.of ?_ hc
    intro g' hg' _ _
    have hT : ∀ x, Trk c.w x → Trk ((c.wrote (newestId c.w.files) d).startSync b t).w x := by
      intro x hx
      exact WCtx.startSync_trk _ b t x (hx.of_pc hpc)
    rcases Fs.mem_write (by simpa using hg') with h | h
    · left; rw [h]; exact hT _ (.inl (newestId_mem hne))
    · exact .inr ⟨h, hT _⟩
  · intro d d' rest b t hpc _ _
    have hne := hw.files_ne (by simp [hpc])
    refine Covered.of ?_ hc
    intro g' hg' _ _
    have hT : ∀ x, Trk c.w x → Trk ((c.wrote (newestId c.w.files) d).setPc
        (.writing (d' :: rest) b t)).w x := by
      intro x hx
      have := hx.of_pc hpc
      exact this
    rcases Fs.mem_write (by simpa using hg') with h | h
    · left; rw [h]; exact hT _ (.inl (newestId_mem hne))
    · exact .inr ⟨h, hT _⟩
  · intro b t hpc _ _
    exact hc.of_fs_eq (by simp) fun x hx => c.finishBatch_trk b t true x (hx.of_pc hpc)
  · intro b t f rest hpc _ _ _
    exact hc.of_fs_eq (by simp) fun x hx =>
      WCtx.finishBatch_trk _ b t false x (hx.of_pc hpc)
  · intro b t f rest hpc hf _ _
    refine Covered.of ?_ hc
    intro g' hg' hu _
    rcases Fs.mem_sync (by simpa using hg') with ⟨_, h⟩ | ⟨hne, h⟩
    · omega
    · refine .inr ⟨h, fun hx => WCtx.startSync_trk _ b t _ ?_⟩
      have := hx.of_pc hpc
      rcases this with h1 | h1
      · left
        rw [hf] at h1
        simp only [List.map_cons, List.mem_cons] at h1
        rcases h1 with h1 | h1
        · exact absurd h1 hne
        · exact h1
      · exact .inr h1
  · intro b t hpc _ _
    exact hc.of_fs_eq (by simp) fun x hx => c.finishBatch_trk b t true x (hx.of_pc hpc)
  · intro b t f rest hpc _ _ _
    exact hc.of_fs_eq (by simp) fun x hx =>
      WCtx.finishBatch_trk _ b t false x (hx.of_pc hpc)
  · intro b t f rest hpc hf _ _
    refine Covered.of ?_ hc
    intro g' hg' hu _
    rcases Fs.mem_sync (by simpa using hg') with ⟨_, h⟩ | ⟨hne, h⟩
    · omega
    · exact .inr ⟨h, fun hx => WCtx.finishBatch_trk _ b t true _ (hx.of_pc hpc)⟩
  · intro hpc _
    exact hc.of_fs_eq (by simp) fun x hx => c.toRecv_trk x (hx.of_pc hpc)
  · intro i rest hpc ho _
    simp [WCtx.dies, hpc, ho] at hd
  · intro i hpc _ _
    refine Covered.of ?_ hc
    intro g' hg' _ hl
    rcases Fs.mem_unlink (by simpa using hg') with h | h
    · rw [h] at hl; cases hl
    · exact .inr ⟨h, fun hx => WCtx.toRecv_trk _ _ (hx.of_pc hpc)⟩
  · intro i j rest hpc _ _
    refine Covered.of ?_ hc
    intro g' hg' _ hl
    rcases Fs.mem_unlink (by simpa using hg') with h | h
    · rw [h] at hl; cases hl
    · refine .inr ⟨h, fun hx => ?_⟩
      have := hx.of_pc hpc
      exact this

/-! ## The callback queue -/

theorem cbQueue_eq (w : Worker) {pc : WPc} (h : w.pc = pc) :
    cbQueue w = (pc.batch ++ w.queue).filterMap WReq.cbId := by
  rw [cbQueue, h]

@[simp] theorem batchCbs_fst (b : List WReq) (ok : Bool) :
    (batchCbs b ok).map Prod.fst = b.filterMap WReq.cbId := by
  simp [batchCbs, List.map_map, Function.comp_def]

theorem WCtx.toRecv_cbQueue (c : WCtx) : cbQueue c.toRecv.w = c.w.queue.filterMap WReq.cbId := by
  simp [cbQueue]
theorem WCtx.nonFlush_cbQueue (c : WCtx) (r : WReq) :
    cbQueue (c.nonFlush r).w = c.w.queue.filterMap WReq.cbId := by
  simp [cbQueue]
theorem WCtx.finishBatch_cbQueue (c : WCtx) (b : List WReq) (t : Option WReq) (ok : Bool) :
    cbQueue (c.finishBatch b t ok).w = c.w.queue.filterMap WReq.cbId := by
  simp [cbQueue]
theorem WCtx.startSync_cbQueue (c : WCtx) (b : List WReq) (t : Option WReq) (hf : c.w.files ≠ []) :
    cbQueue (c.startSync b t).w = (b ++ c.w.queue).filterMap WReq.cbId := by
  rcases c.startSync_cases b t with ⟨h, _⟩ | ⟨f, _, he⟩ | ⟨_, he⟩
  · exact absurd h hf
  · rw [he]; rfl
  · rw [he]; rfl
theorem WCtx.startWrites_cbQueue (c : WCtx) (b : List WReq) (t : Option WReq) (hf : c.w.files ≠ []) :
    cbQueue (c.startWrites b t).w = (b ++ c.w.queue).filterMap WReq.cbId := by
  rcases c.startWrites_cases b t with ⟨_, he⟩ | ⟨_, he⟩ <;> rw [he]
  · exact c.startSync_cbQueue b t hf
  · rfl

theorem collectBatch_cbs (q : List WReq) :
    q.filterMap WReq.cbId =
      ((collectBatch 1024 q).1 ++ (collectBatch 1024 q).2.2).filterMap WReq.cbId := by
  obtain ⟨h1, _, h3⟩ := collectBatch_specW 1024 q
  conv => lhs; rw [h1]
  simp only [List.filterMap_append]
  rw [filterMap_eq_nil_of_forall WReq.cbId (collectBatch 1024 q).2.1.toList]
  · simp
  · intro a ha
    exact not_isWrite_cbId (h3 a (by simpa using ha))

/-- The acknowledgements of a step are taken from the front of the callback
queue, in order. -/
theorem WCtx.step_cbQueue (c : WCtx) (out : Outcome) (hw : c.w.WF) (hd : c.dies out = false) :
    cbQueue c.w = (stepCbs c out).map Prod.fst ++ cbQueue (c.step out).w := by
  apply c.step_elim (P := fun c' => cbQueue c.w = (stepCbs c out).map Prod.fst ++ cbQueue c'.w) out
  · intro hpc _; simp [stepCbs, hpc]
  · intro hpc _; rw [c.toRecv_cbQueue, cbQueue_eq _ hpc]; simp [stepCbs, hpc, WPc.batch]
  · intro r hpc hr _
    rw [WCtx.startWrites_cbQueue _ _ _ (by simpa using hw.files_ne (by simp [hpc])), cbQueue_eq _ hpc]
    simp only [stepCbs, hpc, List.map_nil, List.nil_append, WPc.batch, WCtx.setQueue_w]
    rw [List.filterMap_append, collectBatch_cbs c.w.queue, ← List.filterMap_append]
    rfl
  · intro r hpc hr _
    rw [c.nonFlush_cbQueue, cbQueue_eq _ hpc]
    simp [stepCbs, hpc, WPc.batch, not_isWrite_cbId hr]
  · intro b t hpc _
    rw [c.startSync_cbQueue _ _ (hw.files_ne (by simp [hpc])), cbQueue_eq _ hpc]
    simp [stepCbs, hpc, WPc.batch]
  · intro d rest b t hpc ho _
    simp [WCtx.dies, hpc, ho] at hd
  · intro d rest b t k hpc _ _ _ _
    rw [cbQueue_eq _ hpc]; simp [stepCbs, hpc, WPc.batch, cbQueue]
  · intro d b t hpc _ _
    rw [WCtx.startSync_cbQueue _ _ _ (by simpa using hw.files_ne (by simp [hpc])), cbQueue_eq _ hpc]
    simp [stepCbs, hpc, WPc.batch]
  · intro d d' rest b t hpc _ _
    rw [cbQueue_eq _ hpc]; simp [stepCbs, hpc, WPc.batch, cbQueue]
  · intro b t hpc hf _
    exact absurd hf (hw.files_ne (by simp [hpc]))
  · intro b t f rest hpc hf ho _
    rw [WCtx.finishBatch_cbQueue, cbQueue_eq _ hpc]
    simp [stepCbs, hpc, WPc.batch, ho]
  · intro b t f rest hpc hf ho _
    have : rest ≠ [] := by
      simp only [Worker.WF, hpc, hf, List.length_cons] at hw
      intro h0; rw [h0] at hw; simp at hw
    rw [WCtx.startSync_cbQueue _ _ _ (by simpa using this), cbQueue_eq _ hpc]
    simp [stepCbs, hpc, WPc.batch, ho]
  · intro b t hpc hf _
    exact absurd hf (hw.files_ne (by simp [hpc]))
  · intro b t f rest hpc hf ho _
    rw [WCtx.finishBatch_cbQueue, cbQueue_eq _ hpc]
    simp [stepCbs, hpc, WPc.batch]
  · intro b t f rest hpc hf ho _
    rw [WCtx.finishBatch_cbQueue, cbQueue_eq _ hpc]
    simp [stepCbs, hpc, WPc.batch]
  · intro hpc _; rw [c.toRecv_cbQueue, cbQueue_eq _ hpc]; simp [stepCbs, hpc, WPc.batch]
  · intro i rest hpc ho _
    simp [WCtx.dies, hpc, ho] at hd
  · intro i hpc _ _
    rw [WCtx.toRecv_cbQueue, cbQueue_eq _ hpc]; simp [stepCbs, hpc, WPc.batch]
  · intro i j rest hpc _ _
    rw [cbQueue_eq _ hpc]; simp [stepCbs, hpc, WPc.batch, cbQueue]

/-! ## The dying step -/

theorem WCtx.dies_cases {c : WCtx} {out : Outcome} (h : c.dies out = true) :
    out = .eio ∧ ((∃ d rest b t, c.w.pc = .writing (d :: rest) b t) ∨ (∃ i rest, c.w.pc = .unlinking (i :: rest))) := by
  unfold WCtx.dies at h
  cases hpc : c.w.pc with
  | writing todo b t =>
    cases todo with
    | nil => simp [hpc] at h
    | cons d rest => cases out <;> simp_all
  | unlinking ids =>
    cases ids with
    | nil => simp [hpc] at h
    | cons d rest => cases out <;> simp_all
  | _ => simp [hpc] at h

/-- Requests in hand whose callbacks `die` drops. -/
def WPc.inHandW : WPc → List WReq
  | .writing _ b t => b ++ t.toList
  | _ => []

theorem WCtx.step_dies (c : WCtx) (out : Outcome) (h : c.dies out = true) :
    (c.step out).w = { c.w with pc := .dead, queue := [] } ∧ (c.step out).fs = c.fs ∧
    (c.step out).evs = c.evs ++ stepSys c out ++
      ((droppedIds c c.w.pc.inHandW).map Ev.cbDropped ++ [.workerExit false]) := by
  obtain ⟨ho, ⟨d, rest, b, t, hpc⟩ | ⟨i, rest, hpc⟩⟩ := WCtx.dies_cases h
  · subst ho
    have : c.step .eio = (c.emit (.write "w" (newestId c.w.files) d false)).die (b ++ t.toList) := by
      simp [WCtx.step, hpc]
    rw [this, WCtx.die_evs]
    simp [stepSys, hpc, WPc.inHandW, droppedIds]
  · subst ho
    have : c.step .eio = (c.emit (.unlink "w" i false)).die [] := by
      simp [WCtx.step, hpc]
    rw [this, WCtx.die_evs]
    simp [stepSys, hpc, WPc.inHandW, droppedIds]

theorem WCtx.step_dies_dropped (c : WCtx) (out : Outcome) (h : c.dies out = true) :
    ∀ i ∈ cbQueue c.w, Ev.cbDropped i ∈ (c.step out).evs := by
  intro i hi
  rw [(c.step_dies out h).2.2]
  simp only [List.mem_append, List.mem_map]
  refine .inr (.inl ⟨i, ?_, rfl⟩)
  rw [mem_droppedIds]
  obtain ⟨_, ⟨d, rest, b, t, hpc⟩ | ⟨j, rest, hpc⟩⟩ := WCtx.dies_cases h
  · rw [cbQueue_eq _ hpc] at hi
    simp only [hpc, WPc.inHandW, WPc.batch, List.filterMap_append, List.mem_append] at hi ⊢
    rcases hi with hi | hi
    · exact .inl (.inl hi)
    · exact .inr hi
  · rw [cbQueue_eq _ hpc] at hi
    simpa [hpc, WPc.inHandW, WPc.batch] using hi

theorem WCtx.step_deadW (c : WCtx) (out : Outcome) (h : c.w.pc = .dead) : c.step out = c := by
  simp [WCtx.step, h]

/-! ## `lastSyncFailed`, `postponed`, and the start of a removal -/

theorem WCtx.startSync_frame (c : WCtx) (b : List WReq) (t : Option WReq) (hf : c.w.files ≠ []) :
    ∃ pc, (c.startSync b t).w = { c.w with pc := pc } ∧ (pc = .syncNew b t ∨ pc = .syncOld b t) := by
  rcases c.startSync_cases b t with ⟨h, _⟩ | ⟨f, _, he⟩ | ⟨_, he⟩
  · exact absurd h hf
  · rw [he]; exact ⟨_, rfl, .inl rfl⟩
  · rw [he]; exact ⟨_, rfl, .inr rfl⟩

theorem WCtx.startWrites_frame (c : WCtx) (b : List WReq) (t : Option WReq) (hf : c.w.files ≠ []) :
    ∃ pc, (c.startWrites b t).w = { c.w with pc := pc } ∧
      (pc = .syncNew b t ∨ pc = .syncOld b t ∨ pc = .writing (todoOf b) b t) := by
  rcases c.startWrites_cases b t with ⟨_, he⟩ | ⟨_, he⟩ <;> rw [he]
  · obtain ⟨pc, h1, h2⟩ := c.startSync_frame b t hf
    exact ⟨pc, h1, by rcases h2 with h | h <;> simp [h]⟩
  · exact ⟨_, rfl, .inr (.inr rfl)⟩

/-- How `lastSyncFailed` moves: only a sync step changes it; it is cleared
only by a successful sync of the newest file. -/
def stepLsf (c : WCtx) (out : Outcome) : Bool :=
  match c.w.pc with
  | .syncNew _ _ => out == .eio
  | .syncOld _ _ => if out = .eio then true else c.w.lastSyncFailed
  | _ => c.w.lastSyncFailed

theorem WCtx.step_lsf (c : WCtx) (out : Outcome) (hw : c.w.WF) :
    (c.step out).w.lastSyncFailed = stepLsf c out := by
  apply c.step_elim (P := fun c' => c'.w.lastSyncFailed = stepLsf c out) out
  · intro hpc _; simp [stepLsf, hpc]
  · intro hpc _; simp [stepLsf, hpc]
  · intro r hpc _ _
    obtain ⟨pc, h, _⟩ := WCtx.startWrites_frame (c.setQueue (collectBatch 1024 c.w.queue).2.2)
      (r :: (collectBatch 1024 c.w.queue).1) (collectBatch 1024 c.w.queue).2.1
      (by simpa using hw.files_ne (by simp [hpc]))
    rw [h]; simp [stepLsf, hpc]
  · intro r hpc _ _; simp [stepLsf, hpc]
  · intro b t hpc _
    obtain ⟨pc, h, _⟩ := c.startSync_frame b t (hw.files_ne (by simp [hpc]))
    rw [h]; simp [stepLsf, hpc]
  · intro d rest b t hpc _ _; simp [stepLsf, hpc]
  · intro d rest b t k hpc _ _ _ _; simp [stepLsf, hpc]
  · intro d b t hpc _ _
    obtain ⟨pc, h, _⟩ := WCtx.startSync_frame (c.wrote (newestId c.w.files) d) b t
      (by simpa using hw.files_ne (by simp [hpc]))
    rw [h]; simp [stepLsf, hpc]
  · intro d d' rest b t hpc _ _; simp [stepLsf, hpc]
  · intro b t hpc hf _; exact absurd hf (hw.files_ne (by simp [hpc]))
  · intro b t f rest hpc hf ho _; simp [stepLsf, hpc, ho]
  · intro b t f rest hpc hf ho _
    have : rest ≠ [] := by
      simp only [Worker.WF, hpc, hf, List.length_cons] at hw
      intro h0; rw [h0] at hw; simp at hw
    obtain ⟨pc, h, _⟩ := WCtx.startSync_frame ((c.setFiles rest).synced f.id) b t (by simpa using this)
    rw [h]; simp [stepLsf, hpc, ho]
  · intro b t hpc hf _; exact absurd hf (hw.files_ne (by simp [hpc]))
  · intro b t f rest hpc hf ho _; simp [stepLsf, hpc, ho]
  · intro b t f rest hpc hf ho _; simp [stepLsf, hpc, ho]
  · intro hpc _; simp [stepLsf, hpc]
  · intro i rest hpc _ _; simp [stepLsf, hpc]
  · intro i hpc _ _; simp [stepLsf, hpc]
  · intro i j rest hpc _ _; simp [stepLsf, hpc]

/-- The step executes the non-flush request `r`. -/
def WPc.handles (pc : WPc) (r : WReq) : Prop :=
  pc = .got r ∨ ∃ b, pc = .syncOld b (some r) ∨ pc = .syncNew b (some r)

/-- The step executes a removal of `ids`: a `removeChunks ids` request in hand, or the end of a
batch (the trailing request's ids, none when the trailing request is not a removal; the removal
postponed by a failed sync is retried after every batch). -/
def WPc.removes (pc : WPc) (ids : List Nat) : Prop :=
  pc = .got (.removeChunks ids) ∨ ∃ b t, (pc = .syncOld b t ∨ pc = .syncNew b t) ∧ ids = tailIds t

/-- What a step may do with `postponed`, and the only ways to enter `unlinking`. -/
structure RemovalStep (c : WCtx) (out : Outcome) (c' : WCtx) : Prop where
  postponed : c'.w.postponed = c.w.postponed ∨
    (∃ ids, c.w.pc.removes ids ∧ c'.w.lastSyncFailed = true ∧
      c'.w.postponed = c.w.postponed ++ ids) ∨
    (∃ ids, c.w.pc.removes ids ∧ c'.w.pc = .unlinking (c.w.postponed ++ ids) ∧
      c'.w.postponed = [])
  enter : ∀ ids, c'.w.pc = .unlinking ids →
    (∃ i, c.w.pc = .unlinking (i :: ids) ∧ out ≠ .eio) ∨
    (∃ ids0, c.w.pc = .got (.removeChunks ids0) ∧ c.w.lastSyncFailed = false ∧
      ids = c.w.postponed ++ ids0) ∨
    (∃ b t, c.w.pc = .syncNew b t ∧ out ≠ .eio ∧ ids = c.w.postponed ++ tailIds t)

theorem RemovalStep.of_frame {c c' : WCtx} {out : Outcome} (hp : c'.w.postponed = c.w.postponed)
    (hpc : ∀ ids, c'.w.pc ≠ .unlinking ids) : RemovalStep c out c' :=
  ⟨.inl hp, fun ids h => absurd h (hpc ids)⟩

theorem RemovalStep.of_isRecv {c c' : WCtx} {out : Outcome} (hp : c'.w.postponed = c.w.postponed)
    (hpc : c'.w.pc.isRecv) : RemovalStep c out c' :=
  .of_frame hp (fun ids h => by rw [h] at hpc; cases hpc)

theorem WCtx.step_removal (c : WCtx) (out : Outcome) (hw : c.w.WF) : RemovalStep c out (c.step out) := by
  apply c.step_elim (P := fun c' => RemovalStep c out c') out
  · intro hpc _; exact .of_frame rfl (by simp [hpc])
  · intro hpc _; exact .of_isRecv (by simp) c.toRecv_pc.1
  · intro r hpc _ _
    obtain ⟨pc, h, h2⟩ := WCtx.startWrites_frame (c.setQueue (collectBatch 1024 c.w.queue).2.2)
      (r :: (collectBatch 1024 c.w.queue).1) (collectBatch 1024 c.w.queue).2.1
      (by simpa using hw.files_ne (by simp [hpc]))
    refine .of_frame (by rw [h]; rfl) ?_
    rw [h]; rcases h2 with h2 | h2 | h2 <;> simp [h2]
  · intro r hpc _ _
    constructor
    · rcases c.nonFlush_postponed r with h | ⟨ids, hr, hl, h⟩ | ⟨ids, hr, hl, h1, h2⟩
      · exact .inl h
      · exact .inr (.inl ⟨ids, .inl (by rw [hpc, hr]), by simpa using hl, h⟩)
      · exact .inr (.inr ⟨ids, .inl (by rw [hpc, hr]), h1, h2⟩)
    · intro ids h
      obtain ⟨h1, _, ids0, h3, h4⟩ := (c.nonFlush_pc r).2.2 ids h
      exact .inr (.inl ⟨ids0, by rw [hpc, h3], h1, h4⟩)
  · intro b t hpc _
    obtain ⟨pc, h, h2⟩ := c.startSync_frame b t (hw.files_ne (by simp [hpc]))
    refine .of_frame (by rw [h]) ?_
    rw [h]; rcases h2 with h2 | h2 <;> simp [h2]
  · intro d rest b t hpc _ _; exact .of_frame (by simp) (by simp)
  · intro d rest b t k hpc _ _ _ _; exact .of_frame (by simp) (by simp)
  · intro d b t hpc _ _
    obtain ⟨pc, h, h2⟩ := WCtx.startSync_frame (c.wrote (newestId c.w.files) d) b t
      (by simpa using hw.files_ne (by simp [hpc]))
    refine .of_frame (by rw [h]; rfl) ?_
    rw [h]; rcases h2 with h2 | h2 <;> simp [h2]
  · intro d d' rest b t hpc _ _; exact .of_frame (by simp) (by simp)
  · intro b t hpc hf _; exact absurd hf (hw.files_ne (by simp [hpc]))
  · intro b t f rest hpc hf ho _
    constructor
    · rcases (c.emit (.sync "w" f.id false)).finishBatch_postponed b t false with
        h | ⟨_, h⟩ | ⟨hl, _⟩
      · exact .inl h
      · exact .inr (.inl ⟨tailIds t, .inr ⟨b, t, .inl hpc, rfl⟩, by simp, h⟩)
      · cases hl
    · intro ids h
      have := ((c.emit (.sync "w" f.id false)).finishBatch_pc b t false).2.2 ids h
      cases this.1
  · intro b t f rest hpc hf ho _
    have : rest ≠ [] := by
      simp only [Worker.WF, hpc, hf, List.length_cons] at hw
      intro h0; rw [h0] at hw; simp at hw
    obtain ⟨pc, h, h2⟩ := WCtx.startSync_frame ((c.setFiles rest).synced f.id) b t (by simpa using this)
    refine .of_frame (by rw [h]; rfl) ?_
    rw [h]; rcases h2 with h2 | h2 <;> simp [h2]
  · intro b t hpc hf _; exact absurd hf (hw.files_ne (by simp [hpc]))
  · intro b t f rest hpc hf ho _
    constructor
    · rcases (c.emit (.sync "w" f.id false)).finishBatch_postponed b t false with
        h | ⟨_, h⟩ | ⟨hl, _⟩
      · exact .inl h
      · exact .inr (.inl ⟨tailIds t, .inr ⟨b, t, .inr hpc, rfl⟩, by simp, h⟩)
      · cases hl
    · intro ids h
      have := ((c.emit (.sync "w" f.id false)).finishBatch_pc b t false).2.2 ids h
      cases this.1
  · intro b t f rest hpc hf ho _
    constructor
    · rcases (c.synced f.id).finishBatch_postponed b t true with
        h | ⟨hl, _⟩ | ⟨_, h1, h2⟩
      · exact .inl h
      · cases hl
      · exact .inr (.inr ⟨tailIds t, .inr ⟨b, t, .inr hpc, rfl⟩, h1, h2⟩)
    · intro ids h
      obtain ⟨_, _, h4⟩ := ((c.synced f.id).finishBatch_pc b t true).2.2 ids h
      exact .inr (.inr ⟨b, t, hpc, ho, h4⟩)
  · intro hpc _; exact .of_isRecv (by simp) c.toRecv_pc.1
  · intro i rest hpc _ _; exact .of_frame (by simp) (by simp)
  · intro i hpc _ _; exact .of_isRecv (by simp) (c.unlinked i).toRecv_pc.1
  · intro i j rest hpc ho _
    refine ⟨.inl rfl, ?_⟩
    intro ids h
    simp only [WCtx.setPc_w, WPc.unlinking.injEq] at h
    exact .inl ⟨i, by rw [hpc, h], ho⟩

end RaftLog
