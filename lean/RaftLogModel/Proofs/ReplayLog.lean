/-
C02 groundwork, part 1: the cache-free projection of the replay state machine.
`Store.smApply` acts on the index map and on the state; neither depends on the
payload cache. Here: the index operations as a partial function on index maps
(`idxLogO`, `idxRun`), the state operations (`stRun`), and the facts about
index maps that make dropping a journal prefix sound: every operation acts
pointwise per index, so a run from a smaller map yields a smaller map
(`idxRun_mono`), and whatever a run yields is either yielded from any other
start as well or was there at the beginning (`idxRun_m1`).
-/
import RaftLogModel.Proofs.Refine
namespace RaftLog

abbrev Log := List (Nat × LogData)

/-! ### Strictly sorted lists are determined by their members -/

theorem sorted_ext {α} (k : α → Nat) : ∀ (a b : List α),
    a.Pairwise (fun x y => k x < k y) → b.Pairwise (fun x y => k x < k y) →
    (∀ e, e ∈ a ↔ e ∈ b) → a = b := by
  intro a
  induction a with
  | nil =>
    intro b _ _ h
    cases b with
    | nil => rfl
    | cons y b' => exact absurd ((h y).2 List.mem_cons_self) (by simp)
  | cons x a' ih =>
    intro b ha hb h
    cases b with
    | nil => exact absurd ((h x).1 List.mem_cons_self) (by simp)
    | cons y b' =>
      rw [List.pairwise_cons] at ha hb
      have hxy : x = y := by
        have h1 := (h x).1 List.mem_cons_self
        have h2 := (h y).2 List.mem_cons_self
        rcases List.mem_cons.mp h1 with e | e
        · exact e
        · rcases List.mem_cons.mp h2 with e2 | e2
          · exact e2.symm
          · have := hb.1 x e
            have := ha.1 y e2
            omega
      subst hxy
      congr 1
      apply ih b' ha.2 hb.2
      intro e
      constructor
      · intro he
        rcases List.mem_cons.mp ((h e).1 (List.mem_cons_of_mem _ he)) with e1 | e1
        · subst e1; have := ha.1 e he; omega
        · exact e1
      · intro he
        rcases List.mem_cons.mp ((h e).2 (List.mem_cons_of_mem _ he)) with e1 | e1
        · subst e1; have := hb.1 e he; omega
        · exact e1

/-! ### Sorted index maps -/

def SortedLog (l : Log) : Prop := l.Pairwise (fun a b => a.1 < b.1)

theorem SortedLog.nil : SortedLog [] := List.Pairwise.nil

theorem SortedLog.filter {l : Log} (h : SortedLog l) (p : Nat × LogData → Bool) :
    SortedLog (l.filter p) := List.Pairwise.filter p h

theorem mem_logInsert_of_ne {i : Nat} {d : LogData} {l : Log} {e : Nat × LogData}
    (he : e ∈ l) (hne : e.1 ≠ i) : e ∈ logInsert i d l := by
  induction l with
  | nil => cases he
  | cons x xs ih =>
    obtain ⟨j, d'⟩ := x
    unfold logInsert
    split
    · exact List.mem_cons_of_mem _ he
    · split
      · rename_i h1 h2
        rcases List.mem_cons.mp he with h | h
        · subst h; exact absurd h2.symm hne
        · exact List.mem_cons_of_mem _ h
      · rcases List.mem_cons.mp he with h | h
        · subst h; exact List.mem_cons_self
        · exact List.mem_cons_of_mem _ (ih h)

theorem mem_logInsert_self (i : Nat) (d : LogData) (l : Log) : (i, d) ∈ logInsert i d l := by
  induction l with
  | nil => simp [logInsert]
  | cons x xs ih =>
    obtain ⟨j, d'⟩ := x
    unfold logInsert
    split
    · exact List.mem_cons_self
    · split
      · exact List.mem_cons_self
      · exact List.mem_cons_of_mem _ ih

theorem mem_logInsert_sorted {i : Nat} {d : LogData} {l : Log} {e : Nat × LogData}
    (hs : SortedLog l) (h : e ∈ logInsert i d l) : e = (i, d) ∨ (e ∈ l ∧ e.1 ≠ i) := by
  induction l with
  | nil => simp [logInsert] at h; exact Or.inl h
  | cons x xs ih =>
    obtain ⟨j, d'⟩ := x
    have hs' := hs
    unfold SortedLog at hs'
    rw [List.pairwise_cons] at hs'
    unfold logInsert at h
    split at h
    · rename_i hlt
      rcases List.mem_cons.mp h with h1 | h1
      · exact Or.inl h1
      · refine Or.inr ⟨h1, ?_⟩
        rcases List.mem_cons.mp h1 with h2 | h2
        · subst h2; simp only; omega
        · have := hs'.1 e h2; simp only at this; omega
    · split at h
      · rename_i hnlt heq
        rcases List.mem_cons.mp h with h1 | h1
        · exact Or.inl h1
        · refine Or.inr ⟨List.mem_cons_of_mem _ h1, ?_⟩
          have := hs'.1 e h1; simp only at this; omega
      · rename_i hnlt hne
        rcases List.mem_cons.mp h with h1 | h1
        · subst h1
          refine Or.inr ⟨List.mem_cons_self, ?_⟩
          simp only; omega
        · rcases ih hs'.2 h1 with h2 | h2
          · exact Or.inl h2
          · exact Or.inr ⟨List.mem_cons_of_mem _ h2.1, h2.2⟩

theorem logInsert_sorted {i : Nat} {d : LogData} {l : Log} (hs : SortedLog l) :
    SortedLog (logInsert i d l) := by
  induction l with
  | nil => simp [logInsert, SortedLog]
  | cons x xs ih =>
    obtain ⟨j, d'⟩ := x
    have hs' := hs
    unfold SortedLog at hs'
    rw [List.pairwise_cons] at hs'
    unfold logInsert
    split
    · rename_i hlt
      unfold SortedLog
      rw [List.pairwise_cons]
      refine ⟨?_, hs⟩
      intro e he
      rcases List.mem_cons.mp he with h | h
      · subst h; exact hlt
      · have := hs'.1 e h; simp only at this ⊢; omega
    · split
      · rename_i hnlt heq
        unfold SortedLog
        rw [List.pairwise_cons]
        refine ⟨?_, hs'.2⟩
        intro e he
        have := hs'.1 e he; simp only at this ⊢; omega
      · rename_i hnlt hne
        unfold SortedLog
        rw [List.pairwise_cons]
        refine ⟨?_, ih hs'.2⟩
        intro e he
        rcases mem_logInsert_sorted hs'.2 he with h | h
        · subst h; simp only; omega
        · exact hs'.1 e h.1

/-! ### The index part of `applyIndex`, without the cache -/

/-- What `Store.applyIndex` does to the index map (`none` = overflow panic). -/
def idxLogO (r : Record) (chunk : Nat) (seg : Seg) (l : Log) : Option Log :=
  match r with
  | .append id _ => some (logInsert id.index ⟨id, chunk, seg.off, seg.size⟩ l)
  | .truncateAfter o =>
    match nextIndexChecked o with
    | none => none
    | some idx => some (l.filter (fun e => e.1 < idx))
  | .purgeUpto id =>
    match nextIndexChecked (some id) with
    | none => none
    | some idx => some (l.filter (fun e => idx ≤ e.1))
  | _ => some l

/-- `applyIndex` changes only the index map and the cache; the index map as
`idxLogO` says. -/
theorem applyIndex_proj (s : Store) (r : Record) (chunk : Nat) (seg : Seg) :
    (idxLogO r chunk seg s.log = none → s.applyIndex r chunk seg = none) ∧
    (∀ l, idxLogO r chunk seg s.log = some l → ∃ c, s.applyIndex r chunk seg =
      some { s with log := l, cache := c } ∧ c.maxItems = s.cache.maxItems ∧
        c.capacity = s.cache.capacity) := by
  cases r with
  | saveVote v => exact ⟨by simp [idxLogO], fun l h => ⟨s.cache, by simp [idxLogO] at h; subst h; rfl, rfl, rfl⟩⟩
  | commit id => exact ⟨by simp [idxLogO], fun l h => ⟨s.cache, by simp [idxLogO] at h; subst h; rfl, rfl, rfl⟩⟩
  | state x => exact ⟨by simp [idxLogO], fun l h => ⟨s.cache, by simp [idxLogO] at h; subst h; rfl, rfl, rfl⟩⟩
  | append id p =>
    refine ⟨by simp [idxLogO], fun l h => ⟨s.cache.insert id p, ?_, ?_, ?_⟩⟩
    · simp only [idxLogO, Option.some.injEq] at h; subst h; rfl
    · simp [Cache.insert, Cache.tryEvict]
    · simp [Cache.insert, Cache.tryEvict]
  | truncateAfter o =>
    simp only [idxLogO, Store.applyIndex]
    cases nextIndexChecked o with
    | none => exact ⟨fun _ => rfl, fun l h => (by cases h)⟩
    | some idx =>
      refine ⟨fun h => (by cases h), fun l h => ?_⟩
      simp only [Option.some.injEq] at h; subst h
      refine ⟨_, rfl, ?_, ?_⟩
      · cases o <;> simp [Cache.truncateAfter, Cache.clear]
      · cases o <;> simp [Cache.truncateAfter, Cache.clear]
  | purgeUpto id =>
    simp only [idxLogO, Store.applyIndex]
    cases nextIndexChecked (some id) with
    | none => exact ⟨fun _ => rfl, fun l h => (by cases h)⟩
    | some idx =>
      refine ⟨fun h => (by cases h), fun l h => ?_⟩
      simp only [Option.some.injEq] at h; subst h
      exact ⟨_, rfl, by simp [Cache.purgeUpto], by simp [Cache.purgeUpto]⟩

theorem applyIndex_log {s s2 : Store} {r : Record} {chunk : Nat} {seg : Seg}
    (h : s.applyIndex r chunk seg = some s2) : idxLogO r chunk seg s.log = some s2.log := by
  cases hl : idxLogO r chunk seg s.log with
  | none => rw [(applyIndex_proj s r chunk seg).1 hl] at h; cases h
  | some l =>
    obtain ⟨c, hc, _⟩ := (applyIndex_proj s r chunk seg).2 l hl
    rw [hc] at h
    injection h with h
    subst h
    rfl

/-- One journal record with the chunk it lies in and its segment. -/
structure JOp where
  r : Record
  chunk : Nat
  seg : Seg

def idxRun : List JOp → Log → Option Log
  | [], l => some l
  | op :: ops, l =>
    match idxLogO op.r op.chunk op.seg l with
    | none => none
    | some l' => idxRun ops l'

def stRun : List Record → RState → Option RState
  | [], st => some st
  | r :: rs, st =>
    match st.apply r with
    | .ok st' => stRun rs st'
    | _ => none

theorem idxRun_append (a b : List JOp) (l : Log) :
    idxRun (a ++ b) l = (idxRun a l).bind (idxRun b) := by
  induction a generalizing l with
  | nil => rfl
  | cons op ops ih =>
    simp only [List.cons_append, idxRun]
    cases idxLogO op.r op.chunk op.seg l with
    | none => rfl
    | some l' => exact ih l'

theorem stRun_append (a b : List Record) (st : RState) :
    stRun (a ++ b) st = (stRun a st).bind (stRun b) := by
  induction a generalizing st with
  | nil => rfl
  | cons r rs ih =>
    simp only [List.cons_append, stRun]
    cases st.apply r with
    | ok st' => exact ih st'
    | err k => rfl
    | panic m => rfl

/-- A run that starts with a `State` record forgets the state before it. -/
theorem stRun_state_head (x : RState) (rs : List Record) (st st0 : RState) :
    stRun (.state x :: rs) st = stRun (.state x :: rs) st0 := by
  simp [stRun, RState.apply]

/-! ### One index operation on two maps -/

theorem idxLogO_sorted {r : Record} {chunk : Nat} {seg : Seg} {l l' : Log}
    (hs : SortedLog l) (h : idxLogO r chunk seg l = some l') : SortedLog l' := by
  cases r with
  | saveVote v => simp [idxLogO] at h; subst h; exact hs
  | commit id => simp [idxLogO] at h; subst h; exact hs
  | state x => simp [idxLogO] at h; subst h; exact hs
  | append id p => simp only [idxLogO, Option.some.injEq] at h; subst h; exact logInsert_sorted hs
  | truncateAfter o =>
    simp only [idxLogO] at h
    split at h
    · cases h
    · injection h with h; subst h; exact hs.filter _
  | purgeUpto id =>
    simp only [idxLogO] at h
    split at h
    · cases h
    · injection h with h; subst h; exact hs.filter _

/-- Whether an index operation succeeds does not depend on the map. -/
theorem idxLogO_isSome (r : Record) (chunk : Nat) (seg : Seg) (l l0 : Log) :
    (idxLogO r chunk seg l).isSome = (idxLogO r chunk seg l0).isSome := by
  cases r with
  | saveVote v => rfl
  | commit id => rfl
  | state x => rfl
  | append id p => rfl
  | truncateAfter o => simp only [idxLogO]; cases nextIndexChecked o <;> rfl
  | purgeUpto id => simp only [idxLogO]; cases nextIndexChecked (some id) <;> rfl

theorem idxLogO_mono {r : Record} {chunk : Nat} {seg : Seg} {l l' l0 : Log}
    (hs0 : SortedLog l0) (hsub : ∀ e ∈ l0, e ∈ l) (h : idxLogO r chunk seg l = some l') :
    ∃ l0', idxLogO r chunk seg l0 = some l0' ∧ (∀ e ∈ l0', e ∈ l') := by
  cases r with
  | saveVote v => simp [idxLogO] at h; subst h; exact ⟨l0, rfl, hsub⟩
  | commit id => simp [idxLogO] at h; subst h; exact ⟨l0, rfl, hsub⟩
  | state x => simp [idxLogO] at h; subst h; exact ⟨l0, rfl, hsub⟩
  | append id p =>
    simp only [idxLogO, Option.some.injEq] at h; subst h
    refine ⟨_, rfl, ?_⟩
    intro e he
    rcases mem_logInsert_sorted hs0 he with h1 | h1
    · subst h1; exact mem_logInsert_self _ _ _
    · exact mem_logInsert_of_ne (hsub e h1.1) h1.2
  | truncateAfter o =>
    simp only [idxLogO] at h ⊢
    split at h
    · cases h
    · injection h with h; subst h
      refine ⟨_, rfl, ?_⟩
      intro e he
      rw [List.mem_filter] at he ⊢
      exact ⟨hsub e he.1, he.2⟩
  | purgeUpto id =>
    simp only [idxLogO] at h ⊢
    split at h
    · cases h
    · injection h with h; subst h
      refine ⟨_, rfl, ?_⟩
      intro e he
      rw [List.mem_filter] at he ⊢
      exact ⟨hsub e he.1, he.2⟩

theorem idxLogO_m1 {r : Record} {chunk : Nat} {seg : Seg} {l l' l0 l0' : Log}
    {P : Nat × LogData → Prop}
    (hs : SortedLog l) (hrel : ∀ e ∈ l, e ∈ l0 ∨ P e)
    (h : idxLogO r chunk seg l = some l') (h0 : idxLogO r chunk seg l0 = some l0') :
    ∀ e ∈ l', e ∈ l0' ∨ P e := by
  cases r with
  | saveVote v => simp [idxLogO] at h h0; subst h; subst h0; exact hrel
  | commit id => simp [idxLogO] at h h0; subst h; subst h0; exact hrel
  | state x => simp [idxLogO] at h h0; subst h; subst h0; exact hrel
  | append id p =>
    simp only [idxLogO, Option.some.injEq] at h h0; subst h; subst h0
    intro e he
    rcases mem_logInsert_sorted hs he with h1 | h1
    · subst h1; exact Or.inl (mem_logInsert_self _ _ _)
    · rcases hrel e h1.1 with h2 | h2
      · exact Or.inl (mem_logInsert_of_ne h2 h1.2)
      · exact Or.inr h2
  | truncateAfter o =>
    simp only [idxLogO] at h h0
    split at h
    · cases h
    · rename_i idx hidx
      simp only [hidx] at h0
      injection h with h; subst h
      injection h0 with h0; subst h0
      intro e he
      rw [List.mem_filter] at he
      rcases hrel e he.1 with h2 | h2
      · exact Or.inl (List.mem_filter.mpr ⟨h2, he.2⟩)
      · exact Or.inr h2
  | purgeUpto id =>
    simp only [idxLogO] at h h0
    split at h
    · cases h
    · rename_i idx hidx
      simp only [hidx] at h0
      injection h with h; subst h
      injection h0 with h0; subst h0
      intro e he
      rw [List.mem_filter] at he
      rcases hrel e he.1 with h2 | h2
      · exact Or.inl (List.mem_filter.mpr ⟨h2, he.2⟩)
      · exact Or.inr h2

/-! ### Runs on two maps -/

theorem idxRun_sorted {ops : List JOp} {l l' : Log} (hs : SortedLog l)
    (h : idxRun ops l = some l') : SortedLog l' := by
  induction ops generalizing l with
  | nil => simp only [idxRun, Option.some.injEq] at h; subst h; exact hs
  | cons op ops ih =>
    simp only [idxRun] at h
    split at h
    · cases h
    · rename_i l1 h1
      exact ih (idxLogO_sorted hs h1) h

/-- A run from a smaller map succeeds as well and yields a smaller map. -/
theorem idxRun_mono {ops : List JOp} {l l' l0 : Log}
    (hs0 : SortedLog l0) (hsub : ∀ e ∈ l0, e ∈ l) (h : idxRun ops l = some l') :
    ∃ l0', idxRun ops l0 = some l0' ∧ (∀ e ∈ l0', e ∈ l') := by
  induction ops generalizing l l0 with
  | nil => simp only [idxRun, Option.some.injEq] at h; subst h; exact ⟨l0, rfl, hsub⟩
  | cons op ops ih =>
    simp only [idxRun] at h ⊢
    split at h
    · cases h
    · rename_i l1 h1
      obtain ⟨l01, h01, hsub1⟩ := idxLogO_mono hs0 hsub h1
      rw [h01]
      exact ih (idxLogO_sorted hs0 h01) hsub1 h

/-- What a run yields is yielded from any other start too, or was related to
the start by `P`. -/
theorem idxRun_m1 {ops : List JOp} {l l' l0 l0' : Log} {P : Nat × LogData → Prop}
    (hs : SortedLog l) (hrel : ∀ e ∈ l, e ∈ l0 ∨ P e)
    (h : idxRun ops l = some l') (h0 : idxRun ops l0 = some l0') :
    ∀ e ∈ l', e ∈ l0' ∨ P e := by
  induction ops generalizing l l0 with
  | nil =>
    simp only [idxRun, Option.some.injEq] at h h0; subst h; subst h0; exact hrel
  | cons op ops ih =>
    simp only [idxRun] at h h0
    split at h
    · cases h
    · rename_i l1 h1
      split at h0
      · cases h0
      · rename_i l01 h01
        exact ih (idxLogO_sorted hs h1) (idxLogO_m1 hs hrel h1 h01) h h0

/-- **Dropping a start map that does not survive.** If nothing of the start map
`m` is left after the run, the run from the empty map yields the same result. -/
theorem idxRun_forget {ops : List JOp} {m l' : Log} (hs : SortedLog m)
    (h : idxRun ops m = some l') (hgone : ∀ e ∈ m, e ∉ l') : idxRun ops [] = some l' := by
  obtain ⟨l0', h0, hsub⟩ := idxRun_mono SortedLog.nil (fun e he => by cases he) h
  have hm1 := idxRun_m1 (P := fun e => e ∈ m) hs (fun e he => Or.inr he) h h0
  have : l0' = l' := by
    apply sorted_ext (fun e : Nat × LogData => e.1) _ _ (idxRun_sorted SortedLog.nil h0)
      (idxRun_sorted hs h)
    intro e
    constructor
    · exact hsub e
    · intro he
      rcases hm1 e he with h1 | h1
      · exact h1
      · exact absurd he (hgone e h1)
  rw [h0, this]

end RaftLog

namespace RaftLog

/-! ### Checks a legal history satisfies at every record

`State` records other than chunk heads keep `last`; a truncation point is at
or above every entry it keeps; a purge point is below every entry it keeps.
These are what the payload cache needs during replay (`Proofs/ReplayCache`). -/

def RecCheck (r : Record) (st : RState) (l : Log) : Prop :=
  match r with
  | .state x => x.last = st.last
  | .truncateAfter (some key) => ∀ e ∈ l, e.1 < key.index + 1 → key.lt e.2.id = false
  | .purgeUpto u => ∀ e ∈ l, u.index < e.1 → u.lt e.2.id = true
  | _ => True

theorem RecCheck.mono {r : Record} {st : RState} {l l0 : Log} (h : RecCheck r st l)
    (hsub : ∀ e ∈ l0, e ∈ l) : RecCheck r st l0 := by
  cases r with
  | saveVote v => trivial
  | commit id => trivial
  | append id p => trivial
  | state x => exact h
  | truncateAfter o =>
    cases o with
    | none => trivial
    | some key => exact fun e he => h e (hsub e he)
  | purgeUpto u => exact fun e he => h e (hsub e he)

def RunOK : List JOp → RState → Log → Prop
  | [], _, _ => True
  | op :: ops, st, l =>
    RecCheck op.r st l ∧ ∀ st' l', st.apply op.r = .ok st' →
      idxLogO op.r op.chunk op.seg l = some l' → RunOK ops st' l'

/-- The state run over journal ops. -/
def stRunO (ops : List JOp) (st : RState) : Option RState := stRun (ops.map (·.r)) st

theorem stRunO_cons (op : JOp) (ops : List JOp) (st : RState) :
    stRunO (op :: ops) st = match st.apply op.r with
      | .ok st' => stRunO ops st'
      | _ => none := by
  simp only [stRunO, List.map_cons, stRun]

theorem stRunO_append (a b : List JOp) (st : RState) :
    stRunO (a ++ b) st = (stRunO a st).bind (stRunO b) := by
  simp only [stRunO, List.map_append, stRun_append]
  rfl

theorem RunOK_append {a b : List JOp} {st : RState} {l : Log} :
    RunOK (a ++ b) st l ↔ RunOK a st l ∧
      ∀ st' l', stRunO a st = some st' → idxRun a l = some l' → RunOK b st' l' := by
  induction a generalizing st l with
  | nil =>
    simp only [List.nil_append, RunOK, true_and]
    constructor
    · intro h st' l' h1 h2
      simp only [stRunO, List.map_nil, stRun, Option.some.injEq] at h1
      simp only [idxRun, Option.some.injEq] at h2
      subst h1; subst h2; exact h
    · intro h; exact h st l rfl rfl
  | cons op ops ih =>
    simp only [List.cons_append, RunOK]
    constructor
    · rintro ⟨h1, h2⟩
      refine ⟨⟨h1, fun st' l' ha hi => ((ih.mp (h2 st' l' ha hi))).1⟩, ?_⟩
      intro st2 l2 hs hi
      rw [stRunO_cons] at hs
      simp only [idxRun] at hi
      cases ha : st.apply op.r with
      | err k => rw [ha] at hs; cases hs
      | panic m => rw [ha] at hs; cases hs
      | ok st' =>
        rw [ha] at hs
        cases hl : idxLogO op.r op.chunk op.seg l with
        | none => rw [hl] at hi; cases hi
        | some l' =>
          rw [hl] at hi
          exact (ih.mp (h2 st' l' ha hl)).2 st2 l2 hs hi
    · rintro ⟨⟨h1, h2⟩, h3⟩
      refine ⟨h1, fun st' l' ha hl => ih.mpr ⟨h2 st' l' ha hl, ?_⟩⟩
      intro st2 l2 hs hi
      apply h3 st2 l2
      · rw [stRunO_cons, ha]; exact hs
      · simp only [idxRun, hl]; exact hi

/-- The checks hold a fortiori on a smaller index map. -/
theorem RunOK.mono {ops : List JOp} {st : RState} {l l0 : Log} (h : RunOK ops st l)
    (hs0 : SortedLog l0) (hsub : ∀ e ∈ l0, e ∈ l) : RunOK ops st l0 := by
  induction ops generalizing st l l0 with
  | nil => trivial
  | cons op ops ih =>
    obtain ⟨h1, h2⟩ := h
    refine ⟨h1.mono hsub, fun st' l0' ha hl0 => ?_⟩
    have hsome := idxLogO_isSome op.r op.chunk op.seg l l0
    rw [hl0] at hsome
    cases hl : idxLogO op.r op.chunk op.seg l with
    | none => rw [hl] at hsome; cases hsome
    | some l' =>
      obtain ⟨l0'', k1, k2⟩ := idxLogO_mono hs0 hsub hl
      rw [hl0] at k1
      injection k1 with k1
      subst k1
      exact ih (h2 st' l' ha hl) (idxLogO_sorted hs0 hl0) k2

/-- A successful run of `a ++ b` passes through a successful run of `a`. -/
theorem idxRun_prefix {a b : List JOp} {l l' : Log} (h : idxRun (a ++ b) l = some l') :
    ∃ l1, idxRun a l = some l1 ∧ idxRun b l1 = some l' := by
  rw [idxRun_append] at h
  cases h1 : idxRun a l with
  | none => rw [h1] at h; cases h
  | some l1 => rw [h1] at h; exact ⟨l1, rfl, h⟩

theorem stRunO_prefix {a b : List JOp} {st st' : RState} (h : stRunO (a ++ b) st = some st') :
    ∃ st1, stRunO a st = some st1 ∧ stRunO b st1 = some st' := by
  rw [stRunO_append] at h
  cases h1 : stRunO a st with
  | none => rw [h1] at h; cases h
  | some st1 => rw [h1] at h; exact ⟨st1, rfl, h⟩

end RaftLog
