/-
Shared vocabulary of the journal / recovery proofs: the byte string of a
record list, and record lists the Rust types can hold.
-/
import RaftLogModel.Proofs.Codec
namespace RaftLog

/-- Concatenation of the encodings. -/
def encAll : List Record → Bytes
  | [] => []
  | r :: rs => encRecord r ++ encAll rs

def AllWF (rs : List Record) : Prop := ∀ r ∈ rs, r.WF

end RaftLog
